(* The concrete model (TzModel: lists, option indices, ttinfo records, binary search) computes
   exactly the abstract lookups of TzZoneThm on the zone zone_of d, for every decoded file d
   satisfying the executable decoder invariant `good` whose zone is well formed. *)
From Coq Require Import ZArith List Bool Lia ZifyBool.
From V Require Import tzfile.TzModel tzfile.TzSpec tzfile.TzData tzfile.TzBisect tzfile.TzIndex
  tzfile.TzZoneThm tzfile.TzWallThm.
Import ListNotations.
Open Scope Z_scope.
Ltac Zify.zify_post_hook ::= Z.to_euclidean_division_equations.

Lemma map_fst_combine : forall (A B : Type) (a : list A) (b : list B), length a = length b ->
  map fst (combine a b) = a.
Proof.
  induction a as [|x a IH]; intros [|y b] H; cbn in *; try reflexivity; try discriminate.
  f_equal. apply IH. lia.
Qed.
Lemma map_snd_combine : forall (A B : Type) (a : list A) (b : list B), length a = length b ->
  map snd (combine a b) = b.
Proof.
  induction a as [|x a IH]; intros [|y b] H; cbn in *; try reflexivity; try discriminate.
  f_equal. apply IH. lia.
Qed.
Lemma seqZ_length : forall n s, length (seqZ s n) = n.
Proof. induction n as [|n IH]; intros s; cbn [seqZ length]; [reflexivity|]. rewrite IH. reflexivity. Qed.
Lemma nthZ_map_seqZ : forall (f : Z -> Z) n s i, 0 <= i < Z.of_nat n ->
  nthZ (map f (seqZ s n)) i = f (s + i).
Proof.
  induction n as [|n IH]; intros s i Hi.
  - lia.
  - cbn [seqZ map]. destruct (Z.eq_dec i 0) as [->|Hne].
    + rewrite nthZ_cons_0. f_equal. lia.
    + rewrite nthZ_cons_pos by lia. rewrite IH by lia. f_equal. lia.
Qed.

Lemma zero_diffs_eq : forall a b : list Z, length a = length b ->
  forallb (fun x => x =? 0) (map (fun q => fst q - snd q) (combine a b)) = true -> a = b.
Proof.
  induction a as [|x a IH]; intros [|y b] Hl H; cbn in *; try reflexivity; try discriminate.
  apply andb_prop in H. destruct H as [H1 H2]. f_equal. lia. apply IH. lia. exact H2.
Qed.

Section Bridge.
Variable d : tzdata.
Hypothesis Hgood : good d = true.
Notation z := (zone_of d).
Notation p := (z_init (zone_of d)).
Notation tr := (z_trans (zone_of d)).
Hypothesis Hwf : wf_zone (zone_of d) = true.

Lemma Hwff : wf_from p tr = true.
Proof. unfold wf_zone in Hwf. apply andb_prop in Hwf. destruct Hwf as [H _]. apply andb_prop in H. tauto. Qed.

Lemma len_eff : length (eff_offs d) = length (d_utc d).
Proof. unfold eff_offs. rewrite map_length, seqZ_length. reflexivity. Qed.
Lemma tr_fst : map fst tr = d_utc d.
Proof. cbn [zone_of z_trans]. apply map_fst_combine. symmetry. apply len_eff. Qed.
Lemma tr_snd : map snd tr = eff_offs d.
Proof. cbn [zone_of z_trans]. apply map_snd_combine. symmetry. apply len_eff. Qed.
Lemma len_tr : len tr = len (d_utc d).
Proof. rewrite <- tr_fst. rewrite len_map. reflexivity. Qed.

Lemma good_parts :
  length (d_wall d) = length (d_utc d) /\ length (d_idx d) = length (d_utc d) /\
  (exists s, d_std d = Some s) /\ (d_utc d <> [] -> exists b, d_before d = Some b) /\
  d_wall d = walls p tr.
Proof.
  pose proof Hgood as Hg. unfold good in Hg.
  apply andb_prop in Hg. destruct Hg as [Hg G5]. apply andb_prop in Hg. destruct Hg as [Hg G4].
  apply andb_prop in Hg. destruct Hg as [Hg G3]. apply andb_prop in Hg. destruct Hg as [G1 G2].
  assert (L1 : length (d_wall d) = length (d_utc d)) by (apply Nat.eqb_eq; exact G1).
  assert (L2 : length (d_idx d) = length (d_utc d)) by (apply Nat.eqb_eq; exact G2).
  split; [exact L1|]. split; [exact L2|]. split; [|split].
  - destruct (d_std d) as [s|]; [eexists; reflexivity|discriminate].
  - intros Hne. destruct (d_utc d); [contradiction|]. destruct (d_before d); [eexists; reflexivity|discriminate].
  - apply zero_diffs_eq; [|exact G5].
    pose proof (len_walls tr p) as Hl. unfold len in Hl. pose proof len_tr as Hl2. unfold len in Hl2. lia.
Qed.

Lemma wall_nil_iff : d_wall d = [] <-> tr = [].
Proof.
  destruct good_parts as [L1 _]. pose proof len_tr as Hl. unfold len in Hl.
  split; intros H.
  - rewrite H in L1. cbn in L1. destruct tr; [reflexivity|]. cbn in Hl. lia.
  - rewrite H in Hl. cbn in Hl. destruct (d_wall d); [reflexivity|]. cbn in L1. lia.
Qed.

(* offsets handed out by _get_ttinfo *)
Lemma get_some : forall idx, tr <> [] -> exists t, get_ttinfo d idx = Some t.
Proof.
  intros idx Hne. destruct good_parts as [L1 [L2 [[s Hs] [Hb _]]]].
  unfold get_ttinfo. destruct idx as [i|]; [|eexists; exact Hs].
  destruct (i + 1 >=? len (d_wall d)) eqn:E1; [eexists; exact Hs|].
  destruct (i <? 0) eqn:E2; [|eexists; reflexivity].
  apply Hb. intros Hn. apply Hne. rewrite <- tr_fst in Hn. destruct tr; [reflexivity|discriminate].
Qed.

Lemma goff_idx : forall i, tr <> [] -> goff d (Some i) = goffz p tr i.
Proof.
  intros i Hne. destruct good_parts as [L1 _].
  assert (Hn : 0 < len tr). { destruct tr; [contradiction|]. rewrite len_cons. pose proof (len_nonneg _ l). lia. }
  assert (Hlw : len (d_wall d) = len tr). { rewrite len_tr. unfold len. lia. }
  assert (Hlu : len tr = Z.of_nat (length (d_utc d))) by (rewrite len_tr; reflexivity).
  unfold goffz. destruct (Z_lt_le_dec i 0) as [Hneg|Hpos].
  - rewrite On_neg by lia.
    assert (Hw : d_wall d <> []) by (rewrite wall_nil_iff; assumption).
    cbn [zone_of z_init]. destruct (d_wall d) eqn:Ew; [contradiction|]. rewrite <- Ew in *.
    unfold goff, get_ttinfo. rewrite Hlw.
    destruct (i + 1 >=? len tr) eqn:E1; [lia|]. destruct (-1 + 1 >=? len tr) eqn:E2; [lia|].
    destruct (i <? 0) eqn:E3; [|lia]. reflexivity.
  - destruct (Z_lt_le_dec i (len tr - 1)) as [Hin|Hlast].
    + replace (Z.min i (len tr - 1)) with i by lia. unfold On. destruct (i <? 0) eqn:E; [lia|].
      rewrite tr_snd. unfold eff_offs. rewrite nthZ_map_seqZ by lia. f_equal.
    + replace (Z.min i (len tr - 1)) with (len tr - 1) by lia. unfold On.
      destruct (len tr - 1 <? 0) eqn:E; [lia|].
      rewrite tr_snd. unfold eff_offs. rewrite nthZ_map_seqZ by lia.
      replace (0 + (len tr - 1)) with (len tr - 1) by lia.
      unfold goff, get_ttinfo. rewrite Hlw.
      destruct (i + 1 >=? len tr) eqn:E1; [|lia]. destruct (len tr - 1 + 1 >=? len tr) eqn:E2; [|lia]. reflexivity.
Qed.

Lemma offset_of_get : forall i, tr <> [] -> offset_of (get_ttinfo d (Some i)) = Ok (goffz p tr i).
Proof.
  intros i Hne. rewrite <- (goff_idx i Hne). unfold goff. destruct (get_some (Some i) Hne) as [t Ht].
  rewrite Ht. reflexivity.
Qed.

Lemma find_last_unfold : forall ts b, d_wall d <> [] ->
  find_last d ts b = match bisect_right (if b then d_utc d else d_wall d) ts with
                     | Some i => Ok (Some (i - 1)) | None => Err E_FUEL end.
Proof. intros ts b H. unfold find_last. destruct (d_wall d); [contradiction|reflexivity]. Qed.

Lemma find_last_utc : forall u, tr <> [] -> find_last d u true = Ok (Some (iu tr u)).
Proof.
  intros u Hne. rewrite find_last_unfold by (rewrite wall_nil_iff; exact Hne).
  rewrite bisect_right_sorted. unfold iu. rewrite tr_fst. reflexivity.
  rewrite <- tr_fst. apply (Hsu p tr Hwff).
Qed.

Lemma find_last_wall : forall w, tr <> [] -> find_last d w false = Ok (Some (iw p tr w)).
Proof.
  intros w Hne. destruct good_parts as [_ [_ [_ [_ Hw]]]].
  rewrite find_last_unfold by (rewrite wall_nil_iff; exact Hne).
  rewrite Hw. rewrite bisect_right_sorted. reflexivity. apply (Hsw p tr Hwff).
Qed.

Lemma find_last_nil : forall x b, tr = [] -> find_last d x b = Ok None.
Proof. intros x b Hn. unfold find_last. apply wall_nil_iff in Hn. rewrite Hn. reflexivity. Qed.

Lemma is_ambiguous_idx : forall w i, tr <> [] -> is_ambiguous d w (Some i) = Ok (A_amb p tr w i).
Proof.
  intros w i Hne. destruct good_parts as [_ [_ [_ [_ Hw]]]].
  unfold is_ambiguous. cbn [bind]. unfold A_amb. destruct (i <? 0) eqn:E; [reflexivity|].
  rewrite (offset_of_get (i - 1) Hne). cbn [bind]. rewrite (offset_of_get i Hne). cbn [bind].
  rewrite Hw. reflexivity.
Qed.

Lemma nil_std : tr = [] -> exists s, d_std d = Some s /\ tt_off s = p.
Proof.
  intros Hn. destruct good_parts as [_ [_ [[s Hs] _]]]. exists s. split; [exact Hs|].
  apply wall_nil_iff in Hn. cbn [zone_of z_init]. rewrite Hn. unfold goff, get_ttinfo. rewrite Hs. reflexivity.
Qed.

Theorem bridge_fromutc : forall u, fromutc d u = Ok (A_fromutc p tr u).
Proof.
  intros u. unfold fromutc, A_fromutc. destruct tr as [|q0 l0] eqn:Et.
  - rewrite find_last_nil by assumption. cbn [bind]. destruct (nil_std Et) as [s [Hs Ho]].
    unfold get_ttinfo. rewrite Hs. cbn [offset_of bind]. unfold is_ambiguous.
    rewrite find_last_nil by assumption. cbn [bind]. rewrite Ho. reflexivity.
  - rewrite <- Et in *. assert (Hne : tr <> []) by (rewrite Et; discriminate).
    rewrite find_last_utc by assumption. cbn [bind]. rewrite offset_of_get by assumption. cbn [bind].
    rewrite is_ambiguous_idx by assumption. cbn [bind]. reflexivity.
Qed.

Lemma bridge_resolve_idx : forall w f, tr <> [] -> resolve_idx d w f = Ok (Some (A_ridx p tr w f)).
Proof.
  intros w f Hne. unfold resolve_idx, A_ridx. rewrite find_last_wall by assumption. cbn [bind].
  destruct (iw p tr w <? 0) eqn:E; [reflexivity|]. destruct f; cbn [negb andb]; [reflexivity|].
  rewrite is_ambiguous_idx by assumption. cbn [bind]. destruct (A_amb p tr w (iw p tr w)); f_equal; f_equal; lia.
Qed.

Theorem bridge_utcoffset : forall w f, utcoffset d w f = Ok (A_utcoffset p tr w f).
Proof.
  intros w f. unfold utcoffset, A_utcoffset, find_ttinfo. destruct good_parts as [_ [_ [[s Hs] _]]].
  rewrite Hs. destruct tr as [|q0 l0] eqn:Et.
  - unfold resolve_idx. rewrite find_last_nil by assumption. cbn [bind]. unfold get_ttinfo. rewrite Hs.
    destruct (nil_std Et) as [s' [Hs' Ho]]. rewrite Hs in Hs'. inversion Hs'; subst s'. cbn [offset_of]. rewrite Ho. reflexivity.
  - rewrite <- Et in *. assert (Hne : tr <> []) by (rewrite Et; discriminate).
    rewrite bridge_resolve_idx by assumption. cbn [bind]. apply offset_of_get. assumption.
Qed.

Theorem bridge_ambiguous : forall w, datetime_ambiguous d w = Ok (A_ambiguous p tr w).
Proof.
  intros w. unfold datetime_ambiguous, A_ambiguous, is_ambiguous. destruct tr as [|q0 l0] eqn:Et.
  - rewrite find_last_nil by assumption. reflexivity.
  - rewrite <- Et in *. assert (Hne : tr <> []) by (rewrite Et; discriminate).
    rewrite find_last_wall by assumption. cbn [bind].
    pose proof (is_ambiguous_idx w (iw p tr w) Hne) as H. unfold is_ambiguous in H. cbn [bind] in H. exact H.
Qed.

(* every offset handed out lies strictly within a day (part of wf_zone) *)
Lemma goffz_in_day : forall i, -86400 < goffz p tr i < 86400.
Proof.
  intros i. unfold wf_zone in Hwf. apply andb_prop in Hwf. destruct Hwf as [H H2].
  apply andb_prop in H. destruct H as [_ H1]. unfold in_day in H1.
  unfold goffz, On. destruct (Z.min i (len tr - 1) <? 0) eqn:E; [lia|].
  assert (Hall : forall l k, forallb (fun q : Z * Z => in_day (snd q)) l = true -> 0 <= k < len l ->
                 -86400 < nthZ (map snd l) k < 86400).
  { induction l as [|[t o] l IH]; intros k Hf Hk.
    - unfold len in Hk. cbn in Hk. lia.
    - cbn [forallb snd] in Hf. apply andb_prop in Hf. destruct Hf as [Hf1 Hf2]. cbn [map snd].
      destruct (Z.eq_dec k 0) as [->|Hne]. { rewrite nthZ_cons_0. unfold in_day in Hf1. lia. }
      rewrite nthZ_cons_pos by lia. apply IH. exact Hf2. rewrite len_cons in Hk. lia. }
  apply Hall. exact H2. lia.
Qed.

Theorem bridge_dt_utcoffset : forall w f, dt_utcoffset d w f = Ok (A_utcoffset p tr w f).
Proof.
  intros. unfold dt_utcoffset. rewrite bridge_utcoffset. cbn [bind]. unfold chk_range, A_utcoffset.
  pose proof (goffz_in_day (A_ridx p tr w f)).
  destruct ((-86400 <? goffz p tr (A_ridx p tr w f)) && (goffz p tr (A_ridx p tr w f) <? 86400)) eqn:E; [reflexivity|lia].
Qed.

Theorem bridge_to_utc : forall w f, to_utc d w f = Ok (w - A_utcoffset p tr w f).
Proof. intros. unfold to_utc. rewrite bridge_dt_utcoffset. reflexivity. Qed.

Theorem bridge_exists : forall w f, datetime_exists d w f = Ok (A_exists p tr w f).
Proof.
  intros. unfold datetime_exists. rewrite bridge_to_utc. cbn [bind]. rewrite bridge_fromutc. reflexivity.
Qed.

End Bridge.
