(* C04, last clause: the offset and abbreviation reported for a converted datetime are those of
   the ttinfo in force at the instant: utcoffset / tzname / dst of the local reading are read
   from the very ttinfo record that fromutc selected by the UTC lookup. *)
From Coq Require Import ZArith List Bool Lia ZifyBool.
From V Require Import tzfile.TzModel tzfile.TzSpec tzfile.TzData tzfile.TzBisect tzfile.TzIndex
  tzfile.TzZoneThm tzfile.TzWallThm tzfile.TzBridge tzfile.TzFinalThm tzfile.TzReportThm.
Import ListNotations.
Open Scope Z_scope.

(* the ttinfo fromutc uses for the instant u: _get_ttinfo(_find_last_transition(u, in_utc=True)) *)
Definition ttinfo_at (d : tzdata) (u : Z) : res (option ttinfo) :=
  do idx <- find_last d u true; Ok (get_ttinfo d idx).

Section Same.
Variable d : tzdata.
Hypothesis Hgood : good d = true.
Hypothesis Hwf : wf_zone (zone_of d) = true.
Notation p := (z_init (zone_of d)).
Notation tr := (z_trans (zone_of d)).

Theorem same_ttinfo_lemma : forall u,
  exists w f tt, fromutc d u = Ok (w, f) /\ ttinfo_at d u = Ok (Some tt) /\
    find_ttinfo d w f = Ok (Some tt) /\ w = u + tt_off tt /\
    utcoffset d w f = Ok (tt_off tt) /\ tzname d w f = Ok (Some (tt_abbr tt)).
Proof.
  intros u. destruct (good_parts d Hgood) as [_ [_ [[s Hs] _]]].
  destruct tr as [|q0 l0] eqn:Et.
  - (* no transitions: ttinfo_std everywhere *)
    exists (u + tt_off s), false, s.
    assert (Hfl : forall x b, find_last d x b = Ok None) by (intros; apply (find_last_nil d Hgood); exact Et).
    unfold fromutc, ttinfo_at, find_ttinfo, resolve_idx, utcoffset, tzname, find_ttinfo, resolve_idx, is_ambiguous.
    rewrite !Hfl. cbn [bind]. unfold get_ttinfo. rewrite Hs. cbn [offset_of bind].
    rewrite ?Hfl. cbn [bind]. repeat split; reflexivity.
  - assert (Hne : tr <> []) by (rewrite Et; discriminate).
    destruct (get_some d Hgood (Some (iu tr u)) Hne) as [tt Htt].
    pose proof (find_ttinfo_after_fromutc d Hgood Hwf u Hne) as Hft.
    pose proof (bridge_fromutc d Hgood Hwf u) as Hfu.
    assert (Hw : fst (A_fromutc p tr u) = u + tt_off tt).
    { unfold A_fromutc. cbn [fst]. rewrite <- (goff_idx d Hgood _ Hne). unfold goff. rewrite Htt. reflexivity. }
    destruct (A_fromutc p tr u) as [w f] eqn:Ea. cbn [fst snd] in Hft, Hw.
    exists w, f, tt. rewrite Htt in Hft.
    repeat split.
    + exact Hfu.
    + unfold ttinfo_at. rewrite (find_last_utc d Hgood Hwf u Hne). cbn [bind]. rewrite Htt. reflexivity.
    + exact Hft.
    + exact Hw.
    + unfold utcoffset. rewrite Hs, Hft. reflexivity.
    + unfold tzname. rewrite Hs, Hft. reflexivity.
Qed.

End Same.
