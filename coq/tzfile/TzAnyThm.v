(* Without wf_zone (e.g. offset changes larger than the spacing of the transitions, where a
   (wall, fold) pair cannot name every instant): fromutc still yields the wall reading
   u + off u — only the sortedness of the UTC transition list is needed — and, from the first to
   the last transition of well-formed data, that offset is the data's gmtoff. *)
From Coq Require Import ZArith List Bool Lia ZifyBool.
From V Require Import tzfile.TzModel tzfile.TzSpec tzfile.TzData tzfile.TzBisect tzfile.TzIndex
  tzfile.TzZoneThm tzfile.TzBridge tzfile.TzDecodeThm tzfile.TzReportThm.
Import ListNotations.
Open Scope Z_scope.
Ltac Zify.zify_post_hook ::= Z.to_euclidean_division_equations.

Section Any.
Variable d : tzdata.
Hypothesis Hgood : good d = true.
Hypothesis Hsorted : sortedb (d_utc d) = true.
Notation z := (zone_of d).
Notation p := (z_init (zone_of d)).
Notation tr := (z_trans (zone_of d)).

Lemma any_sorted_tr : sortedb (map fst tr) = true.
Proof. rewrite (tr_fst d). exact Hsorted. Qed.

Theorem any_wall_lemma : forall u, exists f, fromutc d u = Ok (local z u, f).
Proof.
  intros u. unfold local.
  assert (Eo : off z u = goffz p tr (iu tr u)) by exact (off_index tr p u any_sorted_tr). rewrite Eo.
  unfold fromutc. destruct tr as [|q0 l0] eqn:Et.
  - rewrite (find_last_nil d Hgood) by exact Et. cbn [bind].
    destruct (nil_std d Hgood Et) as [s [Hs Ho]]. unfold get_ttinfo. rewrite Hs. cbn [offset_of bind].
    unfold is_ambiguous. rewrite (find_last_nil d Hgood) by exact Et. cbn [bind].
    exists false. rewrite Ho. unfold goffz, On. cbn. reflexivity.
  - rewrite <- Et. assert (Hne : tr <> []) by (rewrite Et; discriminate).
    rewrite find_last_unfold by (rewrite (wall_nil_iff d Hgood); exact Hne).
    rewrite bisect_right_sorted by exact Hsorted. cbn [bind].
    replace (count_le (d_utc d) u - 1) with (iu tr u) by (unfold iu; rewrite (tr_fst d); reflexivity).
    rewrite (offset_of_get d Hgood _ Hne). cbn [bind].
    rewrite (is_ambiguous_idx d Hgood _ _ Hne). cbn [bind]. eexists. reflexivity.
Qed.

End Any.

Theorem reports_wall_any_lemma : forall r d u, build r = Ok d -> wf_data r = true ->
  sortedb (r_times r) = true -> in_data_range r u = true ->
  exists f g isd ab, data_at r u = Some (g, isd, ab) /\ fromutc d u = Ok (u + g, f).
Proof.
  intros r d u Hb Hwd Hsorted Hin.
  pose proof Hwd as Hwd0.
  unfold wf_data in Hwd. apply andb_prop in Hwd. destruct Hwd as [Hwd Habbr].
  apply andb_prop in Hwd. destruct Hwd as [Hwd Hidx]. apply andb_prop in Hwd. destruct Hwd as [Hraw Hnty].
  assert (Hlen : length (r_idx r) = length (r_times r)).
  { unfold wf_raw in Hraw. repeat (apply andb_prop in Hraw; destruct Hraw as [Hraw ?]).
    match goal with H : (length (r_idx r) =? length (r_times r))%nat = true |- _ => apply Nat.eqb_eq in H; exact H end. }
  assert (Hty : r_types r <> []). { intros E. rewrite E in Hnty. discriminate. }
  assert (Hti : r_times r <> []). { intros E. unfold in_data_range in Hin. rewrite E in Hin. discriminate. }
  pose proof (build_good_lemma r d Hb Hty Hlen) as Hgood.
  destruct (build_shape r d Hb Hty Hti) as [s [b [ds [dstt [Hd [Hds Hf]]]]]].
  set (types0 := mk_types (r_abbr r) (r_isstd r) (r_isgmt r) O (r_types r)) in *.
  assert (Hutc : d_utc d = r_times r) by (rewrite Hd; reflexivity).
  assert (Hdi : d_idx d = r_idx r) by (rewrite Hd; reflexivity).
  assert (Hdt : d_tt d = set_dstoffs types0 ds) by (rewrite Hd; reflexivity).
  assert (Hsd : sortedb (d_utc d) = true) by (rewrite Hutc; exact Hsorted).
  assert (Hfst : map fst (z_trans (zone_of d)) = r_times r) by (rewrite (tr_fst d); exact Hutc).
  unfold in_data_range in Hin. destruct (r_times r) as [|t0 ts] eqn:Ets; [contradiction|]. rewrite <- Ets in *.
  apply andb_prop in Hin. destruct Hin as [Hlo Hhi].
  assert (Ht0 : nthZ (r_times r) 0 = t0) by (rewrite Ets; reflexivity).
  destruct (in_range_index (r_times r) u Hsorted Hti ltac:(lia) ltac:(lia)) as [Hc1 Hc2].
  set (i := iu (z_trans (zone_of d)) u).
  assert (Hi : i = count_le (r_times r) u - 1) by (unfold i, iu; rewrite Hfst; reflexivity).
  assert (Hlt : len (z_trans (zone_of d)) = len (r_times r)) by (rewrite (len_tr d), Hutc; reflexivity).
  assert (Hne : z_trans (zone_of d) <> []).
  { intros E. rewrite E in Hlt. unfold len in Hlt. rewrite Ets in Hlt. cbn in Hlt. lia. }
  destruct (any_wall_lemma d Hgood Hsd u) as [f Hfu]. exists f.
  (* off z u is the offset of the type of transition i *)
  assert (Hoff : off (zone_of d) u = tt_off (nth_tt (d_tt d) (nthZ (d_idx d) i))).
  { assert (Eo : off (zone_of d) u = goffz (z_init (zone_of d)) (z_trans (zone_of d)) (iu (z_trans (zone_of d)) u))
      by exact (off_index _ _ u (any_sorted_tr d Hsd)). rewrite Eo. fold i.
    rewrite <- (goff_idx d Hgood _ Hne). unfold goff, get_ttinfo.
    destruct (good_parts d Hgood) as [L1 _].
    assert (Hlw : len (d_wall d) = len (z_trans (zone_of d))). { rewrite (len_tr d). unfold len. lia. }
    rewrite Hlw. destruct (i + 1 >=? len (z_trans (zone_of d))) eqn:E1; [lia|].
    destruct (i <? 0) eqn:E2; [lia|]. reflexivity. }
  rewrite Hdi, Hdt in Hoff.
  set (k := nthZ (r_idx r) i) in *.
  assert (Hk : 0 <= k < len (r_types r)).
  { assert (Hall : forall l j, forallb (fun k => k <? len (r_types r)) l = true -> forallb in_u8 l = true ->
                   0 <= j < len l -> 0 <= nthZ l j < len (r_types r)).
    { induction l as [|x l IH]; intros j F1 F2 Hj.
      - unfold len in Hj. cbn in Hj. lia.
      - cbn [forallb] in F1, F2. apply andb_prop in F1. apply andb_prop in F2. destruct F1 as [F1 F1']. destruct F2 as [F2 F2'].
        destruct (Z.eq_dec j 0) as [->|Hne0]. { rewrite nthZ_cons_0. unfold in_u8 in F2. lia. }
        rewrite nthZ_cons_pos by lia. apply IH; try assumption. rewrite len_cons in Hj. lia. }
    apply Hall. exact Hidx.
    { unfold wf_raw in Hraw. repeat (apply andb_prop in Hraw; destruct Hraw as [Hraw ?]).
      match goal with H : forallb in_u8 (r_idx r) = true |- _ => exact H end. }
    unfold len in *. lia. }
  destruct (nth_error (r_types r) (Z.to_nat k)) as [[[g isd] a]|] eqn:Enth.
  2:{ apply nth_error_None in Enth. unfold len in Hk. lia. }
  destruct (mk_types_nth (r_abbr r) (r_isstd r) (r_isgmt r) (r_types r) O (Z.to_nat k) g isd a Enth) as [M1 _].
  destruct (set_dstoffs_nth types0 ds (Z.to_nat k) Hds) as [S1 _].
  fold types0 in M1.
  exists g, isd, (data_abbr (r_abbr r) a). split.
  - unfold data_at, data_type_at.
    set (fl := filter (fun q : Z * Z => fst q <=? u) (combine (r_times r) (r_idx r))).
    assert (Hz : sortedb (map fst (combine (r_times r) (r_idx r))) = true).
    { rewrite map_fst_combine by lia. exact Hsorted. }
    pose proof (off_index (combine (r_times r) (r_idx r)) 0 u Hz) as Ho.
    unfold off in Ho. cbn [z_trans z_init] in Ho. fold fl in Ho.
    unfold iu in Ho. rewrite map_fst_combine in Ho by lia. rewrite <- Hi in Ho.
    assert (Hlc : len (combine (r_times r) (r_idx r)) = len (r_times r)).
    { unfold len. rewrite combine_length. lia. }
    rewrite goffz_in in Ho by lia. unfold On in Ho. destruct (i <? 0) eqn:E; [lia|].
    rewrite map_snd_combine in Ho by lia. fold k in Ho.
    assert (Hfl : fl <> []).
    { unfold fl. rewrite Ets. destruct (r_idx r) as [|k0 ks] eqn:Eidx; [cbn in Hlen; rewrite Ets in Hlen; discriminate|].
      cbn [combine filter fst]. destruct (t0 <=? u) eqn:E0; [discriminate|lia]. }
    rewrite (last_map_snd fl 0 (0, 0) Hfl) in Ho.
    destruct fl as [|q fl'] eqn:Efl; [contradiction|]. rewrite <- Efl in *. rewrite Ho. rewrite Enth. reflexivity.
  - rewrite Hfu. unfold local. rewrite Hoff. unfold nth_tt. rewrite S1, M1. reflexivity.
Qed.
