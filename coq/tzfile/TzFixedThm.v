(* Fixed-offset zones (tzutc, tzoffset): the properties hold trivially. *)
From Coq Require Import ZArith List Bool Lia.
From V Require Import tzfile.TzModel tzfile.TzSpec.
Import ListNotations.
Open Scope Z_scope.

Definition fixed_zone (o : Z) : zone := mkZone o [].

Lemma fixed_off : forall o u, off (fixed_zone o) u = o.
Proof. reflexivity. Qed.

Lemma fixed_roundtrip_lemma : forall o u,
  let (w, f) := fixed_fromutc o u in
  fixed_utcoffset o w f = off (fixed_zone o) u /\ w - fixed_utcoffset o w f = u /\
  w = local (fixed_zone o) u /\ f = fold_spec (fixed_zone o) u.
Proof.
  intros o u. unfold fixed_fromutc, fixed_utcoffset, local, fold_spec, preimages, offsets, local.
  rewrite !fixed_off. cbn [fixed_zone z_init z_trans map nodup In].
  destruct (in_dec Z.eq_dec o []) as [[]|_]. cbn [map filter].
  unfold local; rewrite fixed_off.
  replace (u + o - o + o =? u + o) with true by (symmetry; apply Z.eqb_eq; lia).
  cbn [existsb]. replace (u + o - o <? u) with false by (symmetry; apply Z.ltb_ge; lia).
  repeat split; lia.
Qed.

Lemma fixed_preimages_lemma : forall o w, preimages (fixed_zone o) w = [w - o].
Proof.
  intros. unfold preimages, offsets. cbn [fixed_zone z_init z_trans map nodup].
  destruct (in_dec Z.eq_dec o []) as [[]|_]. cbn [map filter]. unfold local. rewrite fixed_off.
  replace (w - o + o =? w) with true by (symmetry; apply Z.eqb_eq; lia). reflexivity.
Qed.

Lemma fixed_classify_lemma : forall o w f,
  fixed_exists o w f = true /\ fixed_is_ambiguous o w = false /\
  length (preimages (fixed_zone o) w) = 1%nat.
Proof.
  intros. rewrite fixed_preimages_lemma. unfold fixed_exists, fixed_fromutc, fixed_utcoffset, fixed_is_ambiguous.
  cbn [fst length]. repeat split. apply Z.eqb_eq. lia.
Qed.
