(* Facts about the byte-level parser: lengths delivered, and the decoder invariant for
   read_tzfile. *)
From Coq Require Import ZArith List Bool Lia ZifyBool.
From V Require Import tzfile.TzModel tzfile.TzSpec tzfile.TzData tzfile.TzDecodeThm.
Import ListNotations.
Open Scope Z_scope.

Lemma unpack_l_length : forall n l xs rest, unpack_l n l = Ok (xs, rest) -> length xs = n.
Proof.
  induction n as [|n IH]; intros l xs rest H; cbn [unpack_l] in H.
  - inversion H. reflexivity.
  - destruct l as [|b0 [|b1 [|b2 [|b3 l']]]]; try discriminate.
    destruct (unpack_l n l') as [[xs' r']|] eqn:E; [|discriminate]. cbn [bind fst snd] in H.
    inversion H; subst. cbn [length]. f_equal. eapply IH. exact E.
Qed.
Lemma unpack_b_length : forall sg n l xs rest, unpack_b sg n l = Ok (xs, rest) -> length xs = n.
Proof.
  induction n as [|n IH]; intros l xs rest H; cbn [unpack_b] in H.
  - inversion H. reflexivity.
  - destruct l as [|b0 l']; try discriminate.
    destruct (unpack_b sg n l') as [[xs' r']|] eqn:E; [|discriminate]. cbn [bind fst snd] in H.
    inversion H; subst. cbn [length]. f_equal. eapply IH. exact E.
Qed.

Lemma parse_body_lengths : forall l0 r, parse_body l0 = Ok r -> length (r_idx r) = length (r_times r).
Proof.
  intros l0 r H. unfold parse_body in H.
  destruct (unpack_l 6 (skipn 16 l0)) as [[hdr l2]|] eqn:Eh; [|discriminate]. cbn [bind fst snd] in H.
  destruct hdr as [|gmtcnt [|stdcnt [|leapcnt [|timecnt [|typecnt [|charcnt [|x hdr']]]]]]]; try discriminate.
  destruct (timecnt <? 0); [discriminate|].
  destruct (unpack_l (Z.to_nat timecnt) l2) as [[times l3]|] eqn:Et; [|discriminate]. cbn [bind fst snd] in H.
  destruct (unpack_b false (Z.to_nat timecnt) l3) as [[idx l4]|] eqn:Ei; [|discriminate]. cbn [bind fst snd] in H.
  destruct (unpack_types (Z.to_nat typecnt) l4) as [[types l5]|] eqn:Ey; [|discriminate]. cbn [bind fst snd] in H.
  destruct (existsb _ _); [discriminate|].
  destruct (leapcnt <? 0); [discriminate|].
  destruct (stdcnt <? 0); [discriminate|].
  destruct (unpack_b true (Z.to_nat stdcnt) _) as [[isstd l6]|] eqn:Es; [|discriminate]. cbn [bind fst snd] in H.
  destruct (gmtcnt <? 0); [discriminate|].
  destruct (unpack_b true (Z.to_nat gmtcnt) l6) as [[isgmt l7]|] eqn:Eg; [|discriminate]. cbn [bind fst snd] in H.
  inversion H; subst. cbn [r_idx r_times].
  rewrite (unpack_l_length _ _ _ _ Et), (unpack_b_length _ _ _ _ _ Ei). reflexivity.
Qed.

Lemma parse_lengths : forall bytes r, parse_tzif bytes = Ok r -> length (r_idx r) = length (r_times r).
Proof.
  intros bytes r H. unfold parse_tzif in H.
  destruct bytes as [|c0 [|c1 [|c2 [|c3 l0]]]]; try discriminate.
  destruct ((c0 =? 84) && (c1 =? 90) && (c2 =? 105) && (c3 =? 102)); [|discriminate].
  eapply parse_body_lengths. exact H.
Qed.

(* every successfully read file with at least one type satisfies the decoder invariant *)
Theorem read_good_lemma : forall bytes r d, parse_tzif bytes = Ok r -> build r = Ok d ->
  r_types r <> [] -> good d = true.
Proof.
  intros bytes r d Hp Hb Hty. apply (build_good_lemma r d Hb Hty). eapply parse_lengths. exact Hp.
Qed.

Theorem read_tzfile_split : forall bytes d, read_tzfile bytes = Ok d ->
  exists r, parse_tzif bytes = Ok r /\ build r = Ok d.
Proof.
  intros bytes d H. unfold read_tzfile in H. destruct (parse_tzif bytes) as [r|e] eqn:E; [|discriminate].
  exists r. split; [reflexivity|exact H].
Qed.
