(* Links between the three levels: raw TZif block -> decoded tzdata -> abstract zone.
   render_tzif (inverse of parse_tzif), zone_of (the abstract zone a decoded tzfile uses),
   data_at (what the raw data says at an instant, written without the decoder's helpers),
   and executable well-formedness predicates.  Definitions only. *)
From Coq Require Import ZArith List Bool.
From V Require Import tzfile.TzModel tzfile.TzSpec.
Import ListNotations.
Open Scope Z_scope.

(* ------------------------------------------------------------------ rendering *)
Definition enc32 (x : Z) : list Z :=
  let y := x mod 4294967296 in [y / 16777216; (y / 65536) mod 256; (y / 256) mod 256; y mod 256].
Definition enc8 (x : Z) : list Z := [x mod 256].
Definition enc_type (t : Z * Z * Z) : list Z :=
  match t with (g, d, a) => enc32 g ++ enc8 d ++ enc8 a end.

Definition render_tzif (r : raw) : list Z :=
  [84; 90; 105; 102] ++ repeat 0 16 ++
  enc32 (len (r_isgmt r)) ++ enc32 (len (r_isstd r)) ++ enc32 (r_leapcnt r) ++
  enc32 (len (r_times r)) ++ enc32 (len (r_types r)) ++ enc32 (len (r_abbr r)) ++
  flat_map enc32 (r_times r) ++ flat_map enc8 (r_idx r) ++ flat_map enc_type (r_types r) ++
  r_abbr r ++ repeat 0 (Z.to_nat (r_leapcnt r * 8)) ++
  flat_map enc8 (r_isstd r) ++ flat_map enc8 (r_isgmt r).

Definition in_s32 (x : Z) : bool := (-2147483648 <=? x) && (x <? 2147483648).
Definition in_s8 (x : Z) : bool := (-128 <=? x) && (x <? 128).
Definition in_u8 (x : Z) : bool := (0 <=? x) && (x <? 256).
Definition in_ascii (x : Z) : bool := (0 <=? x) && (x <? 128).

(* raw blocks that render_tzif can represent *)
Definition wf_raw (r : raw) : bool :=
  forallb in_s32 (r_times r) && forallb in_u8 (r_idx r) && (length (r_idx r) =? length (r_times r))%nat &&
  forallb (fun t => match t with (g, d, a) => in_s32 g && in_s8 d && in_s8 a end) (r_types r) &&
  forallb in_ascii (r_abbr r) && (0 <=? r_leapcnt r) && (r_leapcnt r <? 2147483648) &&
  forallb in_s8 (r_isstd r) && forallb in_s8 (r_isgmt r) &&
  (len (r_times r) <? 2147483648) && (len (r_types r) <? 2147483648) &&
  (len (r_abbr r) <? 2147483648) && (len (r_isstd r) <? 2147483648) && (len (r_isgmt r) <? 2147483648).

(* ------------------------------------------------------------------ abstract zone of a decoded file *)
Fixpoint seqZ (start : Z) (n : nat) : list Z :=
  match n with O => [] | S k => start :: seqZ (start + 1) k end.

Definition goff (d : tzdata) (idx : option Z) : Z :=
  match get_ttinfo d idx with Some t => tt_off t | None => 0 end.

(* offsets the lookup really applies: the type of each transition, ttinfo_std from the last
   transition on, ttinfo_before ahead of the first one *)
Definition eff_offs (d : tzdata) : list Z :=
  map (fun i => goff d (Some i)) (seqZ 0 (length (d_utc d))).

Definition zone_of (d : tzdata) : zone :=
  mkZone (goff d (match d_wall d with [] => None | _ => Some (-1) end))
         (combine (d_utc d) (eff_offs d)).

(* wall-clock transition list of an abstract zone: each transition seen through the smaller
   of the old and the new offset *)
Fixpoint walls (p : Z) (tr : list (Z * Z)) : list Z :=
  match tr with
  | [] => []
  | (t, o) :: r => (t + Z.min p o) :: walls o r
  end.

(* decoder invariant, executable: the shape every tzdata produced by build has *)
Definition good (d : tzdata) : bool :=
  (length (d_wall d) =? length (d_utc d))%nat &&
  (length (d_idx d) =? length (d_utc d))%nat &&
  negb (is_none (d_std d)) &&
  (match d_utc d with [] => true | _ => negb (is_none (d_before d)) end) &&
  forallb (fun x => x =? 0) (map (fun p => fst p - snd p)
     (combine (d_wall d) (walls (z_init (zone_of d)) (z_trans (zone_of d))))).

(* ------------------------------------------------------------------ what the raw data says (C06) *)
(* NUL-terminated string starting at position a *)
Fixpoint until_nul (l : list Z) : list Z :=
  match l with [] => [] | x :: r => if x =? 0 then [] else x :: until_nul r end.
Definition data_abbr (abbr : list Z) (a : Z) : list Z := until_nul (skipn (Z.to_nat a) abbr).

Fixpoint first_nondst (l : list (Z * Z * Z)) : option (Z * Z * Z) :=
  match l with
  | [] => None
  | (g, d, a) :: r => if d =? 0 then Some (g, d, a) else first_nondst r
  end.

(* type in force at u: the type of the last transition <= u; before the first transition the
   first non-DST type, else type 0 *)
Definition data_type_at (r : raw) (u : Z) : option (Z * Z * Z) :=
  match filter (fun p => fst p <=? u) (combine (r_times r) (r_idx r)) with
  | [] => match first_nondst (r_types r) with
          | Some t => Some t
          | None => nth_error (r_types r) 0
          end
  | l => nth_error (r_types r) (Z.to_nat (snd (last l (0, 0))))
  end.

(* (gmtoff, isdst, abbreviation) *)
Definition data_at (r : raw) (u : Z) : option (Z * Z * list Z) :=
  match data_type_at r u with
  | Some (g, d, a) => Some (g, d, data_abbr (r_abbr r) a)
  | None => None
  end.

(* the range of C06: from the first to the last transition recorded in the data *)
Definition in_data_range (r : raw) (u : Z) : bool :=
  match r_times r with
  | [] => false
  | t0 :: _ => (t0 <=? u) && (u <? last (r_times r) 0)
  end.

(* well-formed TZif data for C06: representable, at least one type, type indices and
   abbreviation indices in range with a terminating NUL *)
Definition wf_data (r : raw) : bool :=
  wf_raw r && negb (len (r_types r) =? 0) &&
  forallb (fun k => k <? len (r_types r)) (r_idx r) &&
  forallb (fun t => match t with (g, d, a) =>
     (0 <=? a) && (a <? len (r_abbr r)) && existsb (fun x => x =? 0) (skipn (Z.to_nat a) (r_abbr r)) end)
    (r_types r).

(* tzfile.__eq__: _trans_list, _trans_idx (ttinfo objects), _ttinfo_list *)
Definition tt_eqb (a b : ttinfo) : bool :=
  (tt_off a =? tt_off b) && (tt_isdst a =? tt_isdst b) &&
  (if list_eq_dec Z.eq_dec (tt_abbr a) (tt_abbr b) then true else false) &&
  Bool.eqb (tt_isstd a) (tt_isstd b) && Bool.eqb (tt_isgmt a) (tt_isgmt b) &&
  (tt_dstoff a =? tt_dstoff b).
Fixpoint list_eqb {A} (f : A -> A -> bool) (l1 l2 : list A) : bool :=
  match l1, l2 with
  | [], [] => true
  | a :: r1, b :: r2 => f a b && list_eqb f r1 r2
  | _, _ => false
  end.
Definition zone_eqb (d1 d2 : tzdata) : bool :=
  list_eqb Z.eqb (d_wall d1) (d_wall d2) &&
  list_eqb tt_eqb (map (nth_tt (d_tt d1)) (d_idx d1)) (map (nth_tt (d_tt d2)) (d_idx d2)) &&
  list_eqb tt_eqb (d_tt d1) (d_tt d2).
