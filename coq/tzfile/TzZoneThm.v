(* Theorems about the lookup algorithm of tzfile on an abstract well-formed zone:
   A_fromutc / A_utcoffset / A_amb mirror fromutc / utcoffset / is_ambiguous on index level
   (segment index by counting, offsets by goffz, wall transitions by walls); TzBridge.v shows
   that the concrete model computes exactly these on a decoded file. *)
From Coq Require Import ZArith List Bool Lia ZifyBool.
From V Require Import tzfile.TzModel tzfile.TzSpec tzfile.TzData tzfile.TzBisect tzfile.TzIndex.
Import ListNotations.
Open Scope Z_scope.
Ltac Zify.zify_post_hook ::= Z.to_euclidean_division_equations.

Definition A_amb (p : Z) (tr : list (Z * Z)) (w i : Z) : bool :=
  if i <? 0 then false else w <? Wn p tr i + (goffz p tr (i - 1) - goffz p tr i).
Definition A_fromutc (p : Z) (tr : list (Z * Z)) (u : Z) : Z * bool :=
  let i := iu tr u in let w := u + goffz p tr i in (w, A_amb p tr w i).
Definition A_ridx (p : Z) (tr : list (Z * Z)) (w : Z) (f : bool) : Z :=
  let i := iw p tr w in
  if i <? 0 then i else if negb f && A_amb p tr w i then i - 1 else i.
Definition A_utcoffset (p : Z) (tr : list (Z * Z)) (w : Z) (f : bool) : Z :=
  goffz p tr (A_ridx p tr w f).
Definition A_exists (p : Z) (tr : list (Z * Z)) (w : Z) (f : bool) : bool :=
  fst (A_fromutc p tr (w - A_utcoffset p tr w f)) =? w.
Definition A_ambiguous (p : Z) (tr : list (Z * Z)) (w : Z) : bool := A_amb p tr w (iw p tr w).

Section AZ.
Variable p : Z.
Variable tr : list (Z * Z).
Hypothesis Hwf : wf_from p tr = true.
Notation n := (len tr).
Notation T := (Tn tr).
Notation O := (On p tr).
Notation W := (Wn p tr).
Notation G := (goffz p tr).
Notation z := (mkZone p tr).

Lemma Hsu : sortedb (map fst tr) = true.
Proof. exact (wf_sorted_utc tr p Hwf). Qed.
Lemma Hsw : sortedb (walls p tr) = true.
Proof. exact (wf_sorted_walls tr p Hwf). Qed.

Lemma WLs : forall i a, 0 <= i < n -> a = i - 1 -> W i = T i + Z.min (O a) (O i).
Proof. intros i a Hi ->. apply idx_walls. exact Hi. Qed.

Lemma WFs : forall i a b, 0 <= i -> i + 1 < n -> a = i - 1 -> b = i + 1 ->
  T i < T b /\ Z.max 0 (O a - O i) + Z.max 0 (O i - O b) <= T b - T i /\
  Z.max 0 (O i - O a) <= T b - T i /\ Z.max 0 (O b - O i) <= T b - T i.
Proof. intros i a b H0 H1 -> ->. pose proof (idx_wf tr p Hwf i H0 H1) as H. unfold dec, inc in H. exact H. Qed.

(* starts of the wall images of the segments are non-decreasing, and the end of segment i
   does not exceed the start of segment j >= i + 2 *)
Lemma S_mono : forall i j, -1 <= i -> i <= j -> j < n -> T i + O i <= T j + O j \/ i = -1.
Proof.
  intros i j Hi Hij Hj. destruct (Z.eq_dec i (-1)) as [->|Hne]; [right; reflexivity|left].
  assert (Hk : exists k : nat, j = i + Z.of_nat k) by (exists (Z.to_nat (j - i)); lia).
  destruct Hk as [k ->]. induction k as [|k IH].
  - replace (i + Z.of_nat 0) with i by lia. lia.
  - assert (Hprev : T i + O i <= T (i + Z.of_nat k) + O (i + Z.of_nat k)) by (apply IH; lia).
    pose proof (WFs (i + Z.of_nat k) (i + Z.of_nat k - 1) (i + Z.of_nat (S k))
                    ltac:(lia) ltac:(lia) ltac:(lia) ltac:(lia)).
    lia.
Qed.

Lemma E_le_S : forall i j, -1 <= i -> i + 2 <= j -> j < n -> T (i + 1) + O i <= T j + O j.
Proof.
  intros i j Hi Hij Hj.
  pose proof (WFs (i + 1) i (i + 2) ltac:(lia) ltac:(lia) ltac:(lia) ltac:(lia)) as H1.
  assert (H2 : T (i + 1) + O i <= T (i + 2) + O (i + 2)) by lia.
  destruct (S_mono (i + 2) j ltac:(lia) ltac:(lia) ltac:(lia)) as [H3|H3]; lia.
Qed.

(* ------------------------------------------------------------------ round trip *)
Lemma ridx_roundtrip : forall u,
  A_ridx p tr (u + G (iu tr u)) (A_amb p tr (u + G (iu tr u)) (iu tr u)) = iu tr u.
Proof.
  intros u. destruct (iu_bounds tr u Hsu) as [Hb [Hlo Hhi]].
  set (i := iu tr u) in *. set (w := u + G i).
  assert (HG : G i = O i) by (apply goffz_in; lia).
  assert (HWi : 0 <= i -> W i <= w).
  { intros. rewrite (WLs i (i - 1)) by lia. unfold w. rewrite HG. lia. }
  assert (Hcase : (i + 1 < n /\ W (i + 1) <= w) \/ (i + 1 < n -> w < W (i + 1))) by lia.
  destruct Hcase as [[Hin Hge]|Hlt].
  - (* the wall reading lies at or after the next wall transition: offset decreases there *)
    specialize (Hhi Hin).
    assert (WL1 : W (i + 1) = T (i + 1) + Z.min (O i) (O (i + 1))) by (apply WLs; lia).
    assert (Hiw : iw p tr w = i + 1).
    { apply iw_unique; try lia. exact Hsw. intros Hn2.
      replace (i + 1 + 1) with (i + 2) in * by lia.
      rewrite (WLs (i + 2) (i + 1)) by lia.
      pose proof (WFs (i + 1) i (i + 2) ltac:(lia) ltac:(lia) ltac:(lia) ltac:(lia)).
      unfold w. rewrite HG. lia. }
    assert (Hf : A_amb p tr w i = false).
    { unfold A_amb. destruct (i <? 0) eqn:E; [reflexivity|].
      rewrite (goffz_in p tr (i - 1)) by lia. rewrite HG.
      rewrite (WLs i (i - 1)) by lia.
      pose proof (WFs i (i - 1) (i + 1) ltac:(lia) ltac:(lia) ltac:(lia) ltac:(lia)).
      unfold w in *. rewrite HG in *. lia. }
    rewrite Hf. unfold A_ridx. rewrite Hiw. destruct (i + 1 <? 0) eqn:E; [lia|].
    assert (Ha : A_amb p tr w (i + 1) = true).
    { unfold A_amb. rewrite E. replace (i + 1 - 1) with i by lia.
      rewrite HG. rewrite (goffz_in p tr (i + 1)) by lia. rewrite WL1.
      unfold w in *. rewrite HG in *. lia. }
    rewrite Ha. cbn [negb andb]. lia.
  - assert (Hiw : iw p tr w = i).
    { apply iw_unique; try lia. exact Hsw. }
    unfold A_ridx. rewrite Hiw. destruct (i <? 0) eqn:E; [reflexivity|].
    destruct (A_amb p tr w i); reflexivity.
Qed.

Theorem A_roundtrip : forall u,
  let (w, f) := A_fromutc p tr u in
  A_utcoffset p tr w f = off z u /\ w - A_utcoffset p tr w f = u /\ w = local z u.
Proof.
  intros u. unfold A_fromutc, A_utcoffset, local. rewrite ridx_roundtrip.
  rewrite (off_index tr p u Hsu). repeat split; lia.
Qed.

(* ------------------------------------------------------------------ the wall image of a segment *)
(* u lies in segment k *)
Lemma iu_seg : forall u k, -1 <= k < n -> (0 <= k -> T k <= u) -> (k + 1 < n -> u < T (k + 1)) ->
  iu tr u = k /\ local z u = u + O k.
Proof.
  intros u k Hk H1 H2. assert (iu tr u = k) by (apply iu_unique; auto using Hsu).
  split; [assumption|]. unfold local. rewrite (off_index tr p u Hsu). rewrite H.
  rewrite goffz_in by lia. reflexivity.
Qed.

Lemma local_index : forall u, local z u = u + O (iu tr u).
Proof.
  intros. unfold local. rewrite (off_index tr p u Hsu).
  destruct (iu_bounds tr u Hsu) as [Hb _]. rewrite goffz_in by lia. reflexivity.
Qed.

Lemma iu_mono : forall u u', u <= u' -> iu tr u <= iu tr u'.
Proof.
  intros u u' Hle.
  destruct (iu_bounds tr u Hsu) as [Hb [Hlo Hhi]].
  destruct (iu_bounds tr u' Hsu) as [Hb' [Hlo' Hhi']].
  destruct (Z_le_gt_dec (iu tr u) (iu tr u')) as [|Hgt]; [assumption|exfalso].
  (* iu u' + 1 <= iu u: T (iu u' + 1) <= T (iu u) <= u <= u' < T (iu u' + 1) *)
  assert (Tn tr (iu tr u' + 1) <= Tn tr (iu tr u)).
  { unfold Tn. apply sorted_nth_le. exact Hsu. lia. lia. rewrite len_map. lia. }
  specialize (Hhi' ltac:(lia)). specialize (Hlo ltac:(lia)). lia.
Qed.

(* two instants with the same wall reading lie in the same or in adjacent segments *)
Lemma same_wall_adjacent : forall u u', u < u' -> local z u = local z u' ->
  iu tr u' = iu tr u + 1 /\ O (iu tr u') < O (iu tr u).
Proof.
  intros u u' Hlt Heq. rewrite !local_index in Heq.
  pose proof (iu_mono u u' ltac:(lia)) as Hm.
  destruct (iu_bounds tr u Hsu) as [Hb [Hlo Hhi]].
  destruct (iu_bounds tr u' Hsu) as [Hb' [Hlo' Hhi']].
  set (i := iu tr u) in *. set (j := iu tr u') in *.
  destruct (Z.eq_dec i j) as [Hij|Hij]. { rewrite Hij in Heq. lia. }
  destruct (Z_le_gt_dec (i + 2) j) as [H2|H2].
  - pose proof (E_le_S i j ltac:(lia) H2 ltac:(lia)). specialize (Hhi ltac:(lia)). specialize (Hlo' ltac:(lia)). lia.
  - assert (j = i + 1) by lia. split; [assumption|]. subst j. rewrite H in *.
    specialize (Hhi ltac:(lia)). specialize (Hlo' ltac:(lia)). lia.
Qed.

End AZ.
