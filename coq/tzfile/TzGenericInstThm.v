(* The five obligations of C04_generic_roundtrip are met by every piecewise-constant zone with a
   constant standard offset `so` and positive savings whose utcoffset() / dst() are the PEP-495
   wall lookups (latest wall onset <= the wall time; an ambiguous time with fold = 0 belongs to the
   period before) -- the lookups A_utcoffset of TzZoneThm, which is what tzfile computes and what an
   iCalendar zone's _find_comp computes on its flattened onset list (differential: the C05 wall
   stream compares tzical's utcoffset with the model on generated multi-era zones).  Hence the
   generic _tzinfo.fromutc / _fold_status is correct on all such zones. *)
From Coq Require Import ZArith List Bool Lia ZifyBool.
From V Require Import tzfile.TzModel tzfile.TzSpec tzfile.TzData tzfile.TzBisect tzfile.TzIndex
  tzfile.TzZoneThm tzfile.TzWallThm tzfile.TzFinalThm tzfile.TzResolveThm tzfile.TzGenericModel tzfile.TzGenericThm.
Import ListNotations.
Open Scope Z_scope.
Ltac Zify.zify_post_hook ::= Z.to_euclidean_division_equations.

(* standard time (offset so) and daylight periods (offset > so) alternate *)
Fixpoint alt_from (so p : Z) (tr : list (Z * Z)) : bool :=
  match tr with
  | [] => true
  | (t, o) :: r => negb (o =? p) && ((o =? so) || (p =? so)) && (so <=? o) && alt_from so o r
  end.
Definition simple_dst (so : Z) (z : zone) : bool := (so <=? z_init z) && alt_from so (z_init z) (z_trans z).

Lemma alt_index : forall tr so p, alt_from so p tr = true -> forall i, 0 <= i < len tr ->
  On p tr i <> On p tr (i - 1) /\ (On p tr i = so \/ On p tr (i - 1) = so) /\ so <= On p tr i.
Proof.
  induction tr as [|[t o] r IH]; intros so p H i Hi.
  - unfold len in Hi. cbn in Hi. lia.
  - cbn [alt_from] in H. apply andb_prop in H. destruct H as [H H4]. apply andb_prop in H. destruct H as [H H3].
    apply andb_prop in H. destruct H as [H1 H2]. rewrite len_cons in Hi.
    destruct (Z.eq_dec i 0) as [->|Hne].
    + rewrite On_cons by lia. replace (0 - 1) with (-1) by lia. rewrite !On_neg by lia. lia.
    + rewrite (On_cons p t o r i) by lia. rewrite (On_cons p t o r (i - 1)) by lia.
      replace (i - 1 - 1) with (i - 1 - 1) by lia. apply IH. exact H4. lia.
Qed.

Section Inst.
Variable so p : Z.
Variable tr : list (Z * Z).
Hypothesis Hwfz : wf_zone (mkZone p tr) = true.
Let Hwf : wf_from p tr = true := wf_zone_from (mkZone p tr) Hwfz.
Hypothesis Halt : alt_from so p tr = true.
Hypothesis Hp : so <= p.
Notation n := (len tr).
Notation T := (Tn tr).
Notation O := (On p tr).
Notation W := (Wn p tr).
Notation G := (goffz p tr).
Notation z := (mkZone p tr).
Notation UO := (A_utcoffset p tr).
Notation DS := (fun x f => A_utcoffset p tr x f - so).
Let Hsu := Hsu p tr Hwf.
Let Hsw := Hsw p tr Hwf.

Lemma off_ge : forall i, -1 <= i < n -> so <= O i.
Proof.
  intros i Hi. destruct (Z_lt_le_dec i 0). { rewrite On_neg by lia. exact Hp. }
  destruct (alt_index tr so p Halt i ltac:(lia)) as [_ [_ H]]. exact H.
Qed.

(* a wall time inside the gap of transition k is read with the offset after the gap *)
Lemma gap_ridx : forall x f k, 0 <= k < n -> T k + O (k - 1) <= x < T k + O k -> UO x f = O k.
Proof.
  intros x f k Hk Hx. pose proof (gap_wall_index p tr Hwf x k Hk Hx) as Hiw.
  unfold A_utcoffset, A_ridx. rewrite Hiw. destruct (k <? 0) eqn:E; [lia|].
  assert (Hamb : A_amb p tr x k = false).
  { unfold A_amb. rewrite E. rewrite (goffz_in p tr (k - 1)) by lia. rewrite (goffz_in p tr k) by lia.
    rewrite (WLs p tr k (k - 1)) by lia. lia. }
  rewrite Hamb. destruct f; cbn [negb andb]; apply goffz_in; lia.
Qed.

(* the later of two instants with the same wall reading is on standard time *)
Lemma later_is_std : forall a b, a < b -> local z a = local z b -> off z b = so.
Proof.
  intros a b Hab Heq. destruct (same_wall_adjacent p tr Hwf a b Hab Heq) as [Hi Hdec].
  destruct (iu_bounds tr b Hsu) as [Hb _]. destruct (iu_bounds tr a Hsu) as [Ha _].
  rewrite (off_index tr p b Hsu). rewrite goffz_in by lia.
  destruct (alt_index tr so p Halt (iu tr b) ltac:(lia)) as [_ [[H|H] _]]; [exact H|].
  replace (iu tr b - 1) with (iu tr a) in H by lia.
  pose proof (off_ge (iu tr b) ltac:(lia)). lia.
Qed.

(* fold = 1 on an existing wall time denotes its latest pre-image *)
Lemma uo_fold1_latest : forall u, (forall v, u < v -> local z v <> local z u) ->
  UO (local z u) true = off z u.
Proof.
  intros u Hlast. destruct (ridx_valid p tr Hwf u true) as [_ [_ Hv]].
  set (v := local z u - G (A_ridx p tr (local z u) true)) in *.
  destruct (Z.lt_trichotomy v u) as [Hlt|[He|Hgt]].
  - destruct (A_fold_selects p tr Hwf v u (local z u) Hlt Hv eq_refl) as [_ [H1 _]].
    unfold local in H1 at 1. unfold A_utcoffset in *. lia.
  - unfold v in He. unfold A_utcoffset. unfold local in He at 1. lia.
  - exfalso. apply (Hlast v Hgt). exact Hv.
Qed.

Lemma probe_lemma : forall u, UO (u + so) true = off z u.
Proof.
  intros u. destruct (iu_bounds tr u Hsu) as [Hb [Hlo Hhi]].
  pose proof (off_index tr p u Hsu) as Hoff. rewrite goffz_in in Hoff by lia.
  set (i := iu tr u) in *. pose proof (off_ge i ltac:(lia)) as Hge.
  destruct (Z.eq_dec (O i) so) as [Hstd|Hdst].
  - (* standard time at u: u + so is u's own wall reading and u its latest pre-image *)
    assert (Hx : u + so = local z u) by (unfold local; lia). rewrite Hx.
    apply uo_fold1_latest. intros v Hv Heq.
    destruct (same_wall_adjacent p tr Hwf u v Hv (eq_sym Heq)) as [Hi Hdec]. fold i in Hi, Hdec.
    destruct (iu_bounds tr v Hsu) as [Hbv _]. pose proof (off_ge (iu tr v) ltac:(lia)). lia.
  - set (s := O i - so). assert (Hs : 0 < s) by (unfold s; lia).
    assert (Hcase : (0 <= i /\ u - s < T i) \/ (0 <= i -> T i <= u - s)) by lia.
    destruct Hcase as [[Hi0 Hgap]|Hin].
    + (* within the first s seconds of a daylight period: u + so lies in the gap before it *)
      destruct (alt_index tr so p Halt i ltac:(lia)) as [Hne [[H|H] _]]; [lia|].
      rewrite (gap_ridx (u + so) true i ltac:(lia)); [lia|]. specialize (Hlo Hi0). rewrite H. unfold s in *. lia.
    + (* u - s is in the same daylight period and reads u + so; it is the latest pre-image *)
      assert (Hseg : iu tr (u - s) = i /\ local z (u - s) = u - s + O i).
      { apply (iu_seg p tr Hwf); [lia|exact Hin|]. intros Hn. specialize (Hhi Hn). lia. }
      destruct Hseg as [Hiu Hloc].
      assert (Hx : u + so = local z (u - s)) by (rewrite Hloc; unfold s; lia). rewrite Hx.
      rewrite uo_fold1_latest.
      * rewrite (off_index tr p (u - s) Hsu). rewrite Hiu. rewrite goffz_in by lia. lia.
      * intros v Hv Heq.
        destruct (same_wall_adjacent p tr Hwf (u - s) v Hv (eq_sym Heq)) as [Hiv Hdec]. rewrite Hiu in Hiv, Hdec.
        destruct (iu_bounds tr v Hsu) as [Hbv [Hlov _]].
        destruct (alt_index tr so p Halt (iu tr v) ltac:(lia)) as [_ [[H|H] _]].
        -- (* v is on standard time and reads u + so, so v = u, but u lies in segment i *)
           rewrite (local_index p tr Hwf v) in Heq. rewrite H in Heq. rewrite Hloc in Heq.
           assert (v = u) by (unfold s in *; lia). subst v. lia.
        -- replace (iu tr v - 1) with i in H by lia. lia.
Qed.

Lemma two_pre_iff : forall w,
  (exists a b, a < b /\ local z a = w /\ local z b = w) <-> length (preimages z w) = 2%nat.
Proof.
  intros w. pose proof (pre_nodup z w) as Hnd.
  assert (Hle : (length (preimages z w) <= 2)%nat) by (exact (preimages_le_2 p tr Hwf w)).
  assert (Hin : forall u, In u (preimages z w) <-> local z u = w) by (intros; apply pre_in).
  remember (preimages z w) as l eqn:El. clear El.
  split.
  - intros [a [b [Hab [Ha Hb]]]]. apply Hin in Ha. apply Hin in Hb.
    destruct l as [|x [|y [|c r]]]; cbn [length] in *; try lia.
    + destruct Ha.
    + destruct Ha as [Ha|[]]. destruct Hb as [Hb|[]]. lia.
  - intros Hl. destruct l as [|x [|y [|c r]]]; cbn [length] in Hl; try lia.
    inversion Hnd as [|? ? Hn _]; subst.
    assert (x <> y) by (intros ->; apply Hn; left; reflexivity).
    assert (Hx : local z x = w) by (apply Hin; left; reflexivity).
    assert (Hy : local z y = w) by (apply Hin; right; left; reflexivity).
    destruct (Z_lt_le_dec x y); [exists x, y|exists y, x]; repeat split; try assumption; lia.
Qed.

Lemma ambiguous_obligation : forall w,
  g_is_ambiguous UO w = true <-> length (preimages z w) = 2%nat.
Proof.
  intros w. unfold g_is_ambiguous. split.
  - intros Hne. apply negb_true_iff in Hne. apply Z.eqb_neq in Hne.
    apply two_pre_iff.
    assert (Hle : (length (preimages z w) <= 2)%nat) by (exact (preimages_le_2 p tr Hwf w)).
    assert (Hin : forall u, In u (preimages z w) <-> local z u = w) by (intros; apply pre_in).
    pose proof (proj2 (two_pre_iff w)) as Htwo.
    destruct (preimages z w) as [|a [|b r]] eqn:El.
    + exfalso. apply Hne.
      assert (Him : forall u, local z u <> w). { intros u Hu. apply Hin in Hu. exact Hu. }
      destruct (imaginary_in_gap p tr Hwf w Him) as [Hj [Hinc Hw]].
      rewrite (gap_ridx w false _ Hj Hw), (gap_ridx w true _ Hj Hw). reflexivity.
    + exfalso. apply Hne.
      assert (Ha : local z a = w) by (apply Hin; left; reflexivity).
      assert (Hu : forall u', local z u' = w -> u' = a). { intros u' Hu'. apply Hin in Hu'. destruct Hu' as [E|[]]. congruence. }
      pose proof (A_fold_irrelevant p tr Hwf w a Ha Hu false). pose proof (A_fold_irrelevant p tr Hwf w a Ha Hu true). lia.
    + apply Htwo. cbn [length] in Hle. destruct r; [reflexivity|cbn in Hle; lia].
  - intros Hl. apply two_pre_iff in Hl. destruct Hl as [a [b [Hab [Ha Hb]]]].
    destruct (A_fold_selects p tr Hwf a b w Hab Ha Hb) as [H0 [H1 _]].
    apply negb_true_iff. apply Z.eqb_neq. lia.
Qed.

Theorem generic_on_piecewise_lemma : forall u,
  let (w, f) := g_fromutc UO DS u in
  w = local z u /\ f = fold_spec z u /\ UO w f = off z u /\ w - UO w f = u.
Proof.
  apply (generic_roundtrip_lemma UO DS z so Hwfz).
  - intros x f. lia.
  - intros u. rewrite probe_lemma. reflexivity.
  - exact ambiguous_obligation.
  - exact later_is_std.
  - intros u. pose proof (A_roundtrip p tr Hwf u) as H. pose proof (A_fold_spec p tr Hwf u) as Hf.
    destruct (A_fromutc p tr u) as [w f] eqn:E. cbn [snd] in Hf. destruct H as [H1 [_ H3]].
    rewrite <- H3, <- Hf. exact H1.
Qed.

End Inst.
