(* Index-form view of an abstract zone (initial offset p, transitions tr):
   Tn i = i-th transition instant, On i = offset in force in segment i (On (-1) = p),
   Wn i = i-th wall-clock transition; index-form consequences of wf_from; abstract lookups
   iu / iw (UTC / wall segment index), and off = On (iu u). *)
From Coq Require Import ZArith List Bool Lia ZifyBool.
From V Require Import tzfile.TzModel tzfile.TzSpec tzfile.TzData tzfile.TzBisect.
Import ListNotations.
Open Scope Z_scope.
Ltac Zify.zify_post_hook ::= Z.to_euclidean_division_equations.

Definition Tn (tr : list (Z * Z)) (i : Z) : Z := nthZ (map fst tr) i.
Definition On (p : Z) (tr : list (Z * Z)) (i : Z) : Z := if i <? 0 then p else nthZ (map snd tr) i.
Definition Wn (p : Z) (tr : list (Z * Z)) (i : Z) : Z := nthZ (walls p tr) i.

Lemma Tn_cons_0 : forall t o r, Tn ((t, o) :: r) 0 = t.
Proof. reflexivity. Qed.
Lemma Tn_cons_pos : forall t o r i, 0 < i -> Tn ((t, o) :: r) i = Tn r (i - 1).
Proof. intros. unfold Tn. cbn [map fst]. apply nthZ_cons_pos. lia. Qed.
Lemma On_neg : forall p tr i, i < 0 -> On p tr i = p.
Proof. intros. unfold On. destruct (i <? 0) eqn:E; lia. Qed.
Lemma On_cons : forall p t o r i, 0 <= i -> On p ((t, o) :: r) i = On o r (i - 1).
Proof.
  intros. unfold On. cbn [map snd].
  destruct (i <? 0) eqn:E; [lia|].
  destruct (Z.eq_dec i 0) as [->|Hn].
  - reflexivity.
  - rewrite nthZ_cons_pos by lia. destruct (i - 1 <? 0) eqn:E2; [lia|]. reflexivity.
Qed.
Lemma Wn_cons_0 : forall p t o r, Wn p ((t, o) :: r) 0 = t + Z.min p o.
Proof. reflexivity. Qed.
Lemma Wn_cons_pos : forall p t o r i, 0 < i -> Wn p ((t, o) :: r) i = Wn o r (i - 1).
Proof. intros. unfold Wn. cbn [walls]. apply nthZ_cons_pos. lia. Qed.

Lemma len_walls : forall tr p, len (walls p tr) = len tr.
Proof.
  induction tr as [|[t o] r IH]; intros p; cbn [walls].
  - reflexivity.
  - rewrite !len_cons. rewrite IH. reflexivity.
Qed.

Lemma len_map : forall (A B : Type) (f : A -> B) l, len (map f l) = len l.
Proof. intros. unfold len. rewrite map_length. reflexivity. Qed.

Lemma idx_walls : forall tr p i, 0 <= i < len tr ->
  Wn p tr i = Tn tr i + Z.min (On p tr (i - 1)) (On p tr i).
Proof.
  induction tr as [|[t o] r IH]; intros p i Hi.
  - unfold len in Hi. cbn in Hi. lia.
  - rewrite len_cons in Hi. destruct (Z.eq_dec i 0) as [->|Hn].
    + rewrite Wn_cons_0, Tn_cons_0. rewrite On_neg by lia. rewrite On_cons by lia. rewrite On_neg by lia. reflexivity.
    + rewrite Wn_cons_pos, Tn_cons_pos by lia. rewrite IH by lia.
      rewrite (On_cons p t o r (i - 1)) by lia. rewrite (On_cons p t o r i) by lia.
      replace (i - 1 - 1) with (i - 2) by lia. reflexivity.
Qed.

Lemma idx_wf : forall tr p, wf_from p tr = true -> forall i, 0 <= i -> i + 1 < len tr ->
  Tn tr i < Tn tr (i + 1) /\
  dec (On p tr (i - 1)) (On p tr i) + dec (On p tr i) (On p tr (i + 1)) <= Tn tr (i + 1) - Tn tr i /\
  inc (On p tr (i - 1)) (On p tr i) <= Tn tr (i + 1) - Tn tr i /\
  inc (On p tr i) (On p tr (i + 1)) <= Tn tr (i + 1) - Tn tr i.
Proof.
  induction tr as [|[t o] r IH]; intros p Hwf i Hi Hn.
  - unfold len in Hn. cbn in Hn. lia.
  - destruct r as [|[t' o'] r'].
    + unfold len in Hn. cbn in Hn. lia.
    + cbn [wf_from] in Hwf. apply andb_prop in Hwf. destruct Hwf as [Hwf H3].
      apply andb_prop in Hwf. destruct Hwf as [Hwf H5]. apply andb_prop in Hwf. destruct Hwf as [Hwf H4].
      apply andb_prop in Hwf. destruct Hwf as [H1 H2]. unfold dec, inc in *.
      destruct (Z.eq_dec i 0) as [->|Hne].
      * replace (0 + 1) with 1 by lia. replace (0 - 1) with (-1) by lia.
        change (Tn ((t, o) :: (t', o') :: r') 0) with t.
        change (Tn ((t, o) :: (t', o') :: r') 1) with t'.
        change (On p ((t, o) :: (t', o') :: r') 0) with o.
        change (On p ((t, o) :: (t', o') :: r') 1) with o'.
        change (On p ((t, o) :: (t', o') :: r') (-1)) with p.
        unfold dec, inc. lia.
      * rewrite !len_cons in Hn.
        rewrite (Tn_cons_pos t o _ i) by lia. rewrite (Tn_cons_pos t o _ (i + 1)) by lia.
        rewrite (On_cons p t o _ i) by lia. rewrite (On_cons p t o _ (i - 1)) by lia.
        rewrite (On_cons p t o _ (i + 1)) by lia.
        specialize (IH o H3 (i - 1)).
        replace (i - 1 + 1) with i in IH by lia. replace (i + 1 - 1) with i by lia.
        apply IH. lia. rewrite len_cons. lia.
Qed.

Lemma wf_sorted_utc : forall tr p, wf_from p tr = true -> sortedb (map fst tr) = true.
Proof.
  induction tr as [|[t o] r IH]; intros p Hwf.
  - reflexivity.
  - destruct r as [|[t' o'] r'].
    + reflexivity.
    + cbn [wf_from] in Hwf. apply andb_prop in Hwf. destruct Hwf as [Hwf H3].
      apply andb_prop in Hwf. destruct Hwf as [Hwf H5]. apply andb_prop in Hwf. destruct Hwf as [Hwf H4].
      apply andb_prop in Hwf. destruct Hwf as [H1 H2]. unfold dec, inc in *.
      change (sortedb (t :: map fst ((t', o') :: r')) = true).
      cbn [sortedb map fst]. apply andb_true_intro. split. lia.
      apply (IH o H3).
Qed.

Lemma wf_sorted_walls : forall tr p, wf_from p tr = true -> sortedb (walls p tr) = true.
Proof.
  induction tr as [|[t o] r IH]; intros p Hwf.
  - reflexivity.
  - destruct r as [|[t' o'] r'].
    + reflexivity.
    + cbn [wf_from] in Hwf. apply andb_prop in Hwf. destruct Hwf as [Hwf H3].
      apply andb_prop in Hwf. destruct Hwf as [Hwf H5]. apply andb_prop in Hwf. destruct Hwf as [Hwf H4].
      apply andb_prop in Hwf. destruct Hwf as [H1 H2]. unfold dec, inc in *.
      specialize (IH o H3). cbn [walls] in IH |- *. cbn [sortedb] in IH |- *.
      apply andb_true_intro. split. lia. exact IH.
Qed.

(* ------------------------------------------------------------------ abstract lookups *)
Definition iu (tr : list (Z * Z)) (u : Z) : Z := count_le (map fst tr) u - 1.
Definition iw (p : Z) (tr : list (Z * Z)) (w : Z) : Z := count_le (walls p tr) w - 1.
(* _get_ttinfo(i).offset: ttinfo_std from the last transition on *)
Definition goffz (p : Z) (tr : list (Z * Z)) (i : Z) : Z := On p tr (Z.min i (len tr - 1)).

Lemma goffz_in : forall p tr i, i <= len tr - 1 -> goffz p tr i = On p tr i.
Proof. intros. unfold goffz. f_equal. lia. Qed.

Lemma iu_bounds : forall tr u, sortedb (map fst tr) = true ->
  -1 <= iu tr u < len tr /\ (0 <= iu tr u -> Tn tr (iu tr u) <= u) /\
  (iu tr u + 1 < len tr -> u < Tn tr (iu tr u + 1)).
Proof.
  intros tr u Hs. unfold iu, Tn. pose proof (count_le_range (map fst tr) u) as Hr.
  rewrite len_map in Hr. split; [lia|]. split; intros.
  - apply count_le_below. lia.
  - apply count_le_above. exact Hs. rewrite len_map. lia.
Qed.

Lemma iu_unique : forall tr u k, sortedb (map fst tr) = true -> -1 <= k < len tr ->
  (0 <= k -> Tn tr k <= u) -> (k + 1 < len tr -> u < Tn tr (k + 1)) -> iu tr u = k.
Proof.
  intros tr u k Hs Hk H1 H2. unfold iu.
  rewrite (count_le_unique (map fst tr) u (k + 1)); try lia.
  - exact Hs.
  - rewrite len_map. lia.
  - intros. replace (k + 1 - 1) with k by lia. apply H1. lia.
  - rewrite len_map. intros. apply H2. lia.
Qed.

Lemma iw_bounds : forall p tr w, sortedb (walls p tr) = true ->
  -1 <= iw p tr w < len tr /\ (0 <= iw p tr w -> Wn p tr (iw p tr w) <= w) /\
  (iw p tr w + 1 < len tr -> w < Wn p tr (iw p tr w + 1)).
Proof.
  intros p tr w Hs. unfold iw, Wn. pose proof (count_le_range (walls p tr) w) as Hr.
  rewrite len_walls in Hr. split; [lia|]. split; intros.
  - apply count_le_below. lia.
  - apply count_le_above. exact Hs. rewrite len_walls. lia.
Qed.

Lemma iw_unique : forall p tr w k, sortedb (walls p tr) = true -> -1 <= k < len tr ->
  (0 <= k -> Wn p tr k <= w) -> (k + 1 < len tr -> w < Wn p tr (k + 1)) -> iw p tr w = k.
Proof.
  intros p tr w k Hs Hk H1 H2. unfold iw.
  rewrite (count_le_unique (walls p tr) w (k + 1)); try lia.
  - exact Hs.
  - rewrite len_walls. lia.
  - intros. replace (k + 1 - 1) with k by lia. apply H1. lia.
  - rewrite len_walls. intros. apply H2. lia.
Qed.

(* ------------------------------------------------------------------ off = On (iu u) *)
Lemma last_cons_default : forall (l : list Z) a d, last (a :: l) d = last l a.
Proof.
  induction l as [|b r IH]; intros a d.
  - reflexivity.
  - change (last (a :: b :: r) d) with (last (b :: r) d). rewrite IH. cbn [last].
    destruct r; [reflexivity|]. symmetry. apply (IH b a).
Qed.

Lemma filter_none_sorted : forall r t u, sortedb (t :: map fst r) = true -> u < t ->
  filter (fun q : Z * Z => fst q <=? u) r = [].
Proof.
  induction r as [|[t' o'] r' IH]; intros t u Hs Hu.
  - reflexivity.
  - cbn [map fst sortedb] in Hs. apply andb_prop in Hs. destruct Hs as [H1 H2].
    cbn [filter fst]. destruct (t' <=? u) eqn:E; [lia|].
    apply (IH t'). exact H2. lia.
Qed.

Lemma off_index : forall tr p u, sortedb (map fst tr) = true ->
  off (mkZone p tr) u = goffz p tr (iu tr u).
Proof.
  induction tr as [|[t o] r IH]; intros p u Hs.
  - reflexivity.
  - unfold off. cbn [z_trans z_init filter fst]. unfold iu. cbn [map fst count_le].
    destruct (t <=? u) eqn:E.
    + cbn [map snd]. rewrite last_cons_default.
      specialize (IH o u (sorted_tail _ _ Hs)). unfold off in IH. cbn [z_trans z_init] in IH.
      rewrite IH. unfold iu, goffz. pose proof (count_le_range (map fst r) u) as Hr.
      rewrite len_map in Hr. rewrite len_cons.
      rewrite On_cons by lia. f_equal. lia.
    + rewrite (filter_none_sorted r t u Hs) by lia. cbn [map last].
      unfold goffz. rewrite On_neg; [reflexivity|]. pose proof (len_nonneg _ ((t, o) :: r)). lia.
Qed.
