(* Non-vacuity: a concrete TZif block (EST/EDT-like, four transitions, the second one a
   repeated hour, the third a skipped hour) satisfies every hypothesis used by the theorems. *)
From Coq Require Import ZArith List Bool.
From V Require Import tzfile.TzModel tzfile.TzSpec tzfile.TzData.
Import ListNotations.
Open Scope Z_scope.

Definition ex_raw : raw :=
  mkRaw [100000; 10000000; 20000000; 30000000] [1; 0; 1; 0]
        [(-18000, 0, 0); (-14400, 1, 4)] [69; 83; 84; 0; 69; 68; 84; 0] 0 [0; 1] [].

Definition ex_bytes : list Z := render_tzif ex_raw.

Definition ex_d : tzdata :=
  match read_tzfile ex_bytes with Ok d => d | Err _ => mkTz [] [] [] [] None None None end.

Example ex_reads : exists d, read_tzfile ex_bytes = Ok d /\ d = ex_d.
Proof. eexists. split; vm_compute; reflexivity. Qed.

Example ex_hyps : good ex_d = true /\ wf_zone (zone_of ex_d) = true /\ wf_data ex_raw = true /\
                  wf_raw ex_raw = true.
Proof. vm_compute. repeat split. Qed.

(* a repeated wall time (two pre-images), a skipped one (none) and a normal one *)
Example ex_preimages :
  preimages (zone_of ex_d) (10000000 - 18000 + 5) = [10000000 - 3600 + 5; 10000000 + 5] /\
  preimages (zone_of ex_d) (20000000 - 18000 + 5) = [] /\
  preimages (zone_of ex_d) 0 = [18000].
Proof. vm_compute. repeat split. Qed.

Example ex_fromutc : fromutc ex_d (10000000 + 5) = Ok (10000000 - 18000 + 5, true) /\
                     fromutc ex_d (10000000 - 3600 + 5) = Ok (10000000 - 18000 + 5, false).
Proof. vm_compute. split; reflexivity. Qed.

(* an imaginary wall time is moved forward by the width of its gap (one hour) *)
Example ex_resolve : preimages (zone_of ex_d) (20000000 - 18000 + 5) = [] /\
  resolve_imaginary ex_d (20000000 - 18000 + 5) false = Ok (20000000 - 14400 + 5, false).
Proof. vm_compute. split; reflexivity. Qed.

Example ex_data_at : in_data_range ex_raw 15000000 = true /\
  data_at ex_raw 15000000 = Some (-18000, 0, [69; 83; 84]).
Proof. vm_compute. split; reflexivity. Qed.

(* the obligations of the generic-layer theorem are consistent: a fixed-offset zone meets them *)
From V Require Import tzfile.TzGenericModel tzfile.TzFixedThm.
From Coq Require Import Lia.
Example ex_generic_hyps : let UO := fun (_ : Z) (_ : bool) => 3600 in let DST := fun (_ : Z) (_ : bool) => 0 in
  let z := fixed_zone 3600 in
  wf_zone z = true /\ (forall x f, UO x f - DST x f = 3600) /\ (forall u, DST (u + 3600) true = off z u - 3600) /\
  (forall w, g_is_ambiguous UO w = true <-> length (preimages z w) = 2%nat) /\
  (forall a b, a < b -> local z a = local z b -> off z b = 3600) /\
  (forall u, UO (local z u) (fold_spec z u) = off z u).
Proof.
  cbv zeta. repeat split; try reflexivity.
  - intros H. discriminate.
  - rewrite fixed_preimages_lemma. cbn. discriminate.
Qed.

(* the example zone alternates standard (-5 h) and daylight (-4 h) periods *)
From V Require Import tzfile.TzGenericInstThm.
Example ex_simple_dst : alt_from (-18000) (z_init (zone_of ex_d)) (z_trans (zone_of ex_d)) = true /\
  -18000 <= z_init (zone_of ex_d).
Proof. vm_compute. split; [reflexivity|discriminate]. Qed.
