(* The decoder is total on well-formed data: build never raises on a block whose type indices are
   in range and that has at least one type (the AttributeError / IndexError constructors of the
   model are unreachable there), so a rendered well-formed block is always read successfully. *)
From Coq Require Import ZArith List Bool Lia ZifyBool.
From V Require Import tzfile.TzModel tzfile.TzSpec tzfile.TzData tzfile.TzRenderThm tzfile.TzDecodeThm
  tzfile.TzReportThm tzfile.TzParseThm tzfile.TzC06Thm.
Import ListNotations.
Open Scope Z_scope.

Lemma scan_sd_some : forall types l std dst, (l <> [] \/ std <> None \/ dst <> None) ->
  fst (scan_sd types l std dst) <> None \/ snd (scan_sd types l std dst) <> None.
Proof.
  induction l as [|k r IH]; intros std dst H.
  - cbn [scan_sd fst snd]. destruct H as [H|H]; [contradiction|exact H].
  - cbn [scan_sd].
    set (isd := negb (tt_isdst (nth_tt types k) =? 0)).
    set (sd := if is_none std && negb isd then (Some k, dst)
               else if is_none dst && isd then (std, Some k) else (std, dst)).
    assert (Hsd : fst sd <> None \/ snd sd <> None).
    { unfold sd. destruct std as [s|], dst as [dd|], isd; cbn; try (left; discriminate); try (right; discriminate). }
    destruct (negb (is_none (fst sd)) && negb (is_none (snd sd))); [exact Hsd|].
    apply IH. right. exact Hsd.
Qed.

Theorem build_total_lemma : forall r, r_types r <> [] ->
  forallb (fun k => k <? len (r_types r)) (r_idx r) = true ->
  (r_times r <> [] -> r_idx r <> []) -> exists d, build r = Ok d.
Proof.
  intros r Hty Hidx Hne. unfold build.
  pose proof (mk_types_length (r_abbr r) (r_isstd r) (r_isgmt r) (r_types r) O) as Hl.
  set (types0 := mk_types (r_abbr r) (r_isstd r) (r_isgmt r) O (r_types r)) in *.
  assert (Hlen : len types0 = len (r_types r)) by (unfold len; rewrite Hl; reflexivity).
  rewrite Hlen. rewrite Hidx. cbn [negb].
  destruct types0 as [|t0 tl] eqn:Et.
  - exfalso. apply Hty. destruct (r_types r); [reflexivity|discriminate].
  - rewrite <- Et. destruct (r_times r) as [|t1 ts] eqn:Ets.
    + eexists. reflexivity.
    + set (sd := scan_sd types0 (rev (r_idx r)) None None).
      assert (Hsd : fst sd <> None \/ snd sd <> None).
      { apply scan_sd_some. left. intros Hr. apply (Hne ltac:(discriminate)).
        apply (f_equal (@rev Z)) in Hr. rewrite rev_involutive in Hr. exact Hr. }
      destruct (fst sd) as [ks|] eqn:E1.
      * cbn [opt_tt]. destruct (first_std types0 0); cbn [opt_tt]; eexists; reflexivity.
      * destruct (snd sd) as [kd|] eqn:E2.
        -- cbn [opt_tt]. destruct (first_std types0 0); cbn [opt_tt]; eexists; reflexivity.
        -- exfalso. destruct Hsd as [H|H]; apply H; reflexivity.
Qed.

Lemma wf_data_parts : forall r, wf_data r = true ->
  wf_raw r = true /\ r_types r <> [] /\ forallb (fun k => k <? len (r_types r)) (r_idx r) = true /\
  length (r_idx r) = length (r_times r).
Proof.
  intros r H. pose proof (wf_data_raw r H) as Hraw. unfold wf_data in H.
  apply andb_prop in H. destruct H as [H _]. apply andb_prop in H. destruct H as [H Hidx].
  apply andb_prop in H. destruct H as [_ Hn].
  repeat split; try assumption.
  - intros E. rewrite E in Hn. discriminate.
  - unfold wf_raw in Hraw. repeat (apply andb_prop in Hraw; destruct Hraw as [Hraw ?]).
    match goal with H : (length (r_idx r) =? length (r_times r))%nat = true |- _ => apply Nat.eqb_eq in H; exact H end.
Qed.

(* C06 without any success hypothesis: well-formed data is always read, the result satisfies the
   decoder invariant, and (if its zone is well formed) reports the data *)
Theorem bytes_total_report_lemma : forall r rest, wf_data r = true ->
  exists d, read_tzfile (render_tzif r ++ rest) = Ok d /\ good d = true /\
    (wf_zone (zone_of d) = true -> forall u, in_data_range r u = true ->
     exists w f g isd ab, data_at r u = Some (g, isd, ab) /\ fromutc d u = Ok (w, f) /\ w = u + g /\
       dt_utcoffset d w f = Ok g /\ tzname d w f = Ok (Some ab) /\ (isd = 0 -> dst d w f = Ok 0)).
Proof.
  intros r rest Hwd. destruct (wf_data_parts r Hwd) as [Hraw [Hty [Hidx Hlen]]].
  destruct (build_total_lemma r Hty Hidx) as [d Hd].
  { intros Ht He. rewrite He in Hlen. destruct (r_times r); [contradiction|discriminate]. }
  exists d.
  assert (Hread : read_tzfile (render_tzif r ++ rest) = Ok d).
  { unfold read_tzfile. rewrite (parse_render_lemma r rest Hraw). exact Hd. }
  split; [exact Hread|]. split.
  - exact (bytes_good_lemma r rest d Hwd Hread).
  - intros Hwf u Hin. exact (reports_data_lemma r d u Hd Hwd Hwf Hin).
Qed.
