(* C06: the hand-modelled (not translated) fragments this property relies on still have the AST the hand
   model was validated against (fingerprints in harness/gen_tzfile.py, recomputed from /repo on every run). *)
From V Require Import gen.TzGen.

Lemma pins_C06_lemma :
  pinned_tz_tzfile__read_tzfile = true /\
  pinned_tz_tzfile___init__ = true /\
  pinned_tz_tzfile__set_tzdata = true /\
  pinned_tz_tzfile___reduce_ex__ = true /\
  pinned_zoneinfo_ZoneInfoFile___init__ = true /\
  pinned_zoneinfo_ZoneInfoFile_get = true /\
  pinned_zoneinfo_tzfile___reduce__ = true.
Proof. repeat split; reflexivity. Qed.
