(* C05 for the generic layer: the REGENERATED module functions datetime_exists / datetime_ambiguous /
   resolve_imaginary, run on the zone object of a piecewise-constant zone with constant standard offset
   (utcoffset / dst = the PEP-495 wall lookups, fromutc = the generic _tzinfo.fromutc, is_ambiguous = the
   generic _tzinfo.is_ambiguous), classify every wall time by its number of UTC pre-images and move
   imaginary times forward by the gap width.  (What an iCalendar zone is, up to the differential
   identification of _find_comp with the wall lookup.) *)
From Coq Require Import ZArith List Bool Lia ZifyBool.
From V Require Import tzfile.TzModel tzfile.TzSpec tzfile.TzData tzfile.TzBisect tzfile.TzIndex
  tzfile.TzZoneThm tzfile.TzWallThm tzfile.TzFinalThm tzfile.TzResolveThm tzfile.TzGenericModel tzfile.TzGenericThm
  tzfile.TzGenericInstThm tzfile.TzGenLib gen.TzGen.
Import ListNotations.
Open Scope Z_scope.

Definition pw_obj (so p : Z) (tr : list (Z * Z)) : tzobj :=
  let UO := A_utcoffset p tr in
  let DS := fun x f => A_utcoffset p tr x f - so in
  mkTzObj (fun dt => Ok (UO (fst dt) (snd dt))) (fun dt => Ok (DS (fst dt) (snd dt)))
          (fun dt => Ok (g_fromutc UO DS (fst dt))) (fun dt => Ok (g_is_ambiguous UO (fst dt))).

Section PW.
Variable so p : Z.
Variable tr : list (Z * Z).
Hypothesis Hwfz : wf_zone (mkZone p tr) = true.
Hypothesis Halt : alt_from so p tr = true.
Hypothesis Hp : so <= p.
Notation z := (mkZone p tr).
Notation UO := (A_utcoffset p tr).
Let Hwf : wf_from p tr = true := wf_zone_from (mkZone p tr) Hwfz.

Lemma pw_roundtrip_wall : forall w f,
  (do x <- py_astimezone_utc (pw_obj so p tr) (w, f); py_astimezone_from_utc (pw_obj so p tr) x) =
  Ok (local z (w - UO w f), fold_spec z (w - UO w f)).
Proof.
  intros w f. unfold py_astimezone_utc, py_astimezone_from_utc, pw_obj. cbn [tz_utcoffset tz_fromutc bind fst snd].
  pose proof (generic_on_piecewise_lemma so p tr Hwfz Halt Hp (w - UO w f)) as H.
  destruct (g_fromutc UO (fun x f0 => UO x f0 - so) (w - UO w f)) as [w' f'].
  destruct H as [H1 [H2 _]]. subst. reflexivity.
Qed.

Theorem pw_datetime_exists_lemma : forall w f,
  gen_datetime_exists (pw_obj so p tr) (w, f) = Ok (match preimages z w with [] => false | _ :: _ => true end).
Proof.
  intros w f. unfold gen_datetime_exists. rewrite pw_roundtrip_wall. cbn [bind]. unfold py_dt_eq. cbn [fst]. f_equal.
  pose proof (A_exists_iff p tr Hwf w f) as H. unfold A_exists in H. rewrite (A_fromutc_wall p tr Hwf) in H.
  rewrite Z.eqb_sym.
  destruct (preimages z w) as [|a r] eqn:E.
  - destruct (local z (w - UO w f) =? w) eqn:Ex; [|reflexivity]. exfalso.
    destruct (proj1 H eq_refl) as [u Hu]. apply (pre_in z w u) in Hu. rewrite E in Hu. exact Hu.
  - apply H. exists a. apply (pre_in z w a). rewrite E. left. reflexivity.
Qed.

Theorem pw_datetime_ambiguous_lemma : forall w f,
  gen_datetime_ambiguous (pw_obj so p tr) (w, f) = Ok (length (preimages z w) =? 2)%nat.
Proof.
  intros w f. unfold gen_datetime_ambiguous, pw_obj. cbn [tz_is_ambiguous fst]. f_equal.
  pose proof (ambiguous_obligation so p tr Hwfz w) as H.
  destruct (g_is_ambiguous UO w) eqn:E.
  - symmetry. apply Nat.eqb_eq. apply H. reflexivity.
  - symmetry. apply Nat.eqb_neq. intros Hl. apply H in Hl. discriminate.
Qed.

Theorem pw_resolve_imaginary_lemma : forall w f,
  (preimages z w <> [] -> gen_resolve_imaginary (pw_obj so p tr) (w, f) = Ok (w, f)) /\
  (preimages z w = [] -> exists g, 0 < g /\ gap_width z w = Some g /\
     gen_resolve_imaginary (pw_obj so p tr) (w, f) = Ok (w + g, false) /\ preimages z (w + g) <> []).
Proof.
  intros w f. unfold gen_resolve_imaginary. rewrite pw_datetime_exists_lemma. cbn [bind]. split.
  - intros Hne. destruct (preimages z w); [contradiction|]. reflexivity.
  - intros Hp0. rewrite Hp0. cbn [negb bind].
    assert (Him : forall u, local z u <> w).
    { intros u Hu. apply (pre_in z w u) in Hu. rewrite Hp0 in Hu. exact Hu. }
    destruct (imaginary_in_gap p tr Hwf w Him) as [Hj [Hinc Hw]].
    set (j := iw p tr w) in *.
    pose proof (gap_from_at p tr Hwf w j Hj Hw) as Hgap.
    pose proof (imaginary_roundtrip p tr Hwf w f Him) as Hrt. fold j in Hrt.
    exists (On p tr j - On p tr (j - 1)).
    assert (Hgw : gap_width z w = Some (On p tr j - On p tr (j - 1))).
    { unfold gap_width, gap_at. cbn [z_init z_trans]. rewrite Hgap. reflexivity. }
    split; [lia|]. split; [exact Hgw|]. split.
    + rewrite pw_roundtrip_wall. cbn [bind]. unfold py_add_seconds, py_sub_dt. cbn [fst]. rewrite Hrt. do 2 f_equal. lia.
    + apply resolve_lands_lemma; assumption.
Qed.

End PW.
