(* C06 end to end on the byte level: a tzfile built from the rendering of well-formed TZif data
   (followed by anything, e.g. a version-2+ block) reports that data. *)
From Coq Require Import ZArith List Bool Lia.
From V Require Import tzfile.TzModel tzfile.TzSpec tzfile.TzData tzfile.TzRenderThm tzfile.TzDecodeThm
  tzfile.TzReportThm tzfile.TzParseThm tzfile.TzFinalThm.
Import ListNotations.
Open Scope Z_scope.

Lemma wf_data_raw : forall r, wf_data r = true -> wf_raw r = true.
Proof.
  intros r H. unfold wf_data in H. apply andb_prop in H. destruct H as [H _].
  apply andb_prop in H. destruct H as [H _]. apply andb_prop in H. tauto.
Qed.

Theorem bytes_report_data_lemma : forall r rest d u, wf_data r = true ->
  read_tzfile (render_tzif r ++ rest) = Ok d -> wf_zone (zone_of d) = true -> in_data_range r u = true ->
  exists w f g isd ab, data_at r u = Some (g, isd, ab) /\ fromutc d u = Ok (w, f) /\ w = u + g /\
    dt_utcoffset d w f = Ok g /\ tzname d w f = Ok (Some ab) /\ (isd = 0 -> dst d w f = Ok 0).
Proof.
  intros r rest d u Hwd Hread Hwf Hin. unfold read_tzfile in Hread.
  rewrite (parse_render_lemma r rest (wf_data_raw r Hwd)) in Hread. cbn [bind] in Hread.
  exact (reports_data_lemma r d u Hread Hwd Hwf Hin).
Qed.

(* the decoded file of well-formed data satisfies the decoder invariant *)
Theorem bytes_good_lemma : forall r rest d, wf_data r = true ->
  read_tzfile (render_tzif r ++ rest) = Ok d -> good d = true.
Proof.
  intros r rest d Hwd Hread. unfold read_tzfile in Hread.
  pose proof (parse_render_lemma r rest (wf_data_raw r Hwd)) as Hp. rewrite Hp in Hread. cbn [bind] in Hread.
  apply (read_good_lemma _ r d Hp Hread).
  unfold wf_data in Hwd. apply andb_prop in Hwd. destruct Hwd as [Hwd _]. apply andb_prop in Hwd. destruct Hwd as [Hwd _].
  apply andb_prop in Hwd. destruct Hwd as [_ Hn]. intros E. rewrite E in Hn. discriminate.
Qed.

(* C04 for files as they are read: the decoder invariant is discharged by the decoder *)
Theorem read_roundtrip_lemma : forall bytes r d, parse_tzif bytes = Ok r -> build r = Ok d ->
  r_types r <> [] -> wf_zone (zone_of d) = true -> forall u,
  exists w f, fromutc d u = Ok (w, f) /\ dt_utcoffset d w f = Ok (off (zone_of d) u) /\
              to_utc d w f = Ok u /\ w = local (zone_of d) u /\ f = fold_spec (zone_of d) u.
Proof.
  intros bytes r d Hp Hb Hty Hwf u.
  exact (TzFinalThm.tzfile_roundtrip_lemma d (read_good_lemma bytes r d Hp Hb Hty) Hwf u).
Qed.
