(* The model REGENERATED from /repo's source on every run (coq/gen/TzGen.v, harness/gen_tzfile.py)
   equals the hand-written model (TzModel / TzGenericModel) for ALL inputs.  A change of the
   translated Python methods changes TzGen.v and breaks these obligations (or aborts the
   translator, which breaks the build of this file). *)
From Coq Require Import ZArith List Bool Lia ZifyBool.
From V Require Import tzfile.TzModel tzfile.TzSpec tzfile.TzData tzfile.TzBisect tzfile.TzBridge
  tzfile.TzBeforeThm tzfile.TzGenericModel tzfile.TzGenLib gen.TzGen.
Import ListNotations.
Open Scope Z_scope.
Ltac Zify.zify_post_hook ::= Z.to_euclidean_division_equations.

(* the binary search terminates on every list and stays inside its bounds *)
Lemma bisect_fuel_total : forall fuel l x lo hi, 0 <= lo -> lo <= hi -> hi - lo < Z.of_nat fuel ->
  exists r, bisect_fuel fuel l x lo hi = Some r /\ lo <= r <= hi.
Proof.
  induction fuel as [|f IH]; intros l x lo hi H0 H1 Hf; [lia|].
  cbn [bisect_fuel]. destruct (lo <? hi) eqn:E.
  - assert (lo <= (lo + hi) / 2 < hi) by lia.
    destruct (x <? nthZ l ((lo + hi) / 2)).
    + destruct (IH l x lo ((lo + hi) / 2)) as [r [Hr Hb]]; try lia. exists r. split; [exact Hr|lia].
    + destruct (IH l x ((lo + hi) / 2 + 1) hi) as [r [Hr Hb]]; try lia. exists r. split; [exact Hr|lia].
  - exists lo. split; [reflexivity|lia].
Qed.

Lemma bisect_right_total : forall l x, exists r, bisect_right l x = Some r /\ 0 <= r <= len l.
Proof. intros. unfold bisect_right. apply bisect_fuel_total; unfold len; lia. Qed.

(* the shape every decoded file has (part of the decoder invariant `good`) *)
Definition shape (d : tzdata) : Prop :=
  length (d_idx d) = length (d_wall d) /\ length (d_utc d) = length (d_wall d).

Lemma good_shape : forall d, good d = true -> shape d.
Proof. intros d H. destruct (good_parts d H) as [A [B _]]. split; lia. Qed.

(* ------------------------------------------------------------------ tzfile methods *)
Theorem gen_datetime_to_timestamp_lemma : forall dt, gen_datetime_to_timestamp dt = fst dt.
Proof. reflexivity. Qed.

Theorem gen_find_last_transition_lemma : forall d dt b,
  gen_find_last_transition d dt b = find_last d (fst dt) b.
Proof.
  intros d dt b. unfold gen_find_last_transition, find_last, py_bisect_right, gen_datetime_to_timestamp, py_since_epoch.
  destruct (d_wall d) eqn:E; cbn [py_nonempty negb]; [reflexivity|].
  destruct (bisect_right (if b then d_utc d else z :: l) (fst dt)); reflexivity.
Qed.

Lemma find_last_bound : forall d x b i, shape d -> find_last d x b = Ok (Some i) -> i < len (d_wall d).
Proof.
  intros d x b i [_ Hu] H. unfold find_last in H. destruct (d_wall d) eqn:E; [discriminate|]. rewrite <- E in *.
  destruct (bisect_right_total (if b then d_utc d else d_wall d) x) as [r [Hr Hb]]. rewrite Hr in H.
  inversion H. assert (len (if b then d_utc d else d_wall d) = len (d_wall d)) by (destruct b; unfold len; lia). lia.
Qed.

Theorem gen_get_ttinfo_lemma : forall d idx, shape d -> gen_get_ttinfo d idx = Ok (get_ttinfo d idx).
Proof.
  intros d idx [Hi _]. unfold gen_get_ttinfo, get_ttinfo. destruct idx as [i|]; [|reflexivity].
  destruct (i + 1 >=? len (d_wall d)) eqn:E1; [reflexivity|]. destruct (i <? 0) eqn:E2; [reflexivity|].
  unfold py_trans_idx, py_getitem. rewrite E2.
  assert (Hl : len (d_idx d) = len (d_wall d)) by (unfold len; lia). rewrite Hl.
  destruct ((0 <=? i) && (i <? len (d_wall d))) eqn:E3; [reflexivity|lia].
Qed.

Theorem gen_is_ambiguous_lemma : forall d dt idx, shape d ->
  (forall i, idx = Some i -> i < len (d_wall d)) ->
  gen_is_ambiguous d dt idx = is_ambiguous d (fst dt) idx.
Proof.
  intros d dt idx Hs Hb. unfold gen_is_ambiguous, is_ambiguous, gen_datetime_to_timestamp, py_since_epoch.
  assert (Hstep : forall o : option Z, (forall i, o = Some i -> i < len (d_wall d)) ->
    (do v_tti <- gen_get_ttinfo d o;
     match o with
     | None => Ok false
     | Some v_idx_ =>
       if v_idx_ <? 0 then Ok false else
       do v_od <- (do b9_0 <- (do o0 <- gen_get_ttinfo d (Some (v_idx_ - 1)); attr_offset o0);
                   do b9_1 <- attr_offset v_tti; Ok (b9_0 - b9_1));
       do v_tt <- py_getitem (d_wall d) v_idx_; Ok (fst dt <? v_tt + v_od)
     end) =
    (let tti := get_ttinfo d o in
     match o with
     | None => Ok false
     | Some i => if i <? 0 then Ok false else
       do o1 <- offset_of (get_ttinfo d (Some (i - 1))); do o0 <- offset_of tti;
       Ok (fst dt <? nthZ (d_wall d) i + (o1 - o0))
     end)).
  { intros o Ho. rewrite (gen_get_ttinfo_lemma d o Hs). cbn [bind]. destruct o as [i|]; [|reflexivity].
    destruct (i <? 0) eqn:E; [reflexivity|]. rewrite (gen_get_ttinfo_lemma d _ Hs). cbn [bind]. unfold attr_offset.
    destruct (offset_of (get_ttinfo d (Some (i - 1)))) as [o1|e]; cbn [bind]; [|reflexivity].
    destruct (offset_of (get_ttinfo d (Some i))) as [o0|e]; cbn [bind]; [|reflexivity].
    unfold py_getitem. rewrite E. specialize (Ho i eq_refl).
    destruct ((0 <=? i) && (i <? len (d_wall d))) eqn:E3; [reflexivity|lia]. }
  destruct idx as [i|]; cbn [py_some negb bind].
  - exact (Hstep (Some i) Hb).
  - rewrite gen_find_last_transition_lemma.
    destruct (find_last d (fst dt) false) as [o|e] eqn:Ef; cbn [bind]; [|reflexivity].
    apply (Hstep o). intros i ->. exact (find_last_bound d _ _ i Hs Ef).
Qed.

Theorem gen_resolve_ambiguous_time_lemma : forall d dt, shape d ->
  gen_resolve_ambiguous_time d dt = resolve_idx d (fst dt) (snd dt).
Proof.
  intros d dt Hs. unfold gen_resolve_ambiguous_time, resolve_idx. rewrite gen_find_last_transition_lemma.
  destruct (find_last d (fst dt) false) as [o|e] eqn:Ef; cbn [bind]; [|reflexivity].
  destruct o as [i|]; [|reflexivity]. destruct (i <? 0) eqn:E; [reflexivity|].
  unfold py_fold, py_truthy_Z. destruct (snd dt); cbn [negb Z.eqb bind].
  - unfold py_int_of_bool. cbn [bind]. f_equal. f_equal. lia.
  - rewrite (gen_is_ambiguous_lemma d dt (Some i) Hs).
    + destruct (is_ambiguous d (fst dt) (Some i)) as [a|e]; cbn [bind]; [|reflexivity].
      unfold py_int_of_bool. destruct a; reflexivity.
    + intros j Hj. inversion Hj; subst. exact (find_last_bound d _ _ j Hs Ef).
Qed.

Theorem gen_find_ttinfo_lemma : forall d dt, shape d ->
  gen_find_ttinfo d dt = find_ttinfo d (fst dt) (snd dt).
Proof.
  intros d dt Hs. unfold gen_find_ttinfo, find_ttinfo. rewrite (gen_resolve_ambiguous_time_lemma d dt Hs).
  destruct (resolve_idx d (fst dt) (snd dt)) as [o|e]; cbn [bind]; [|reflexivity]. apply gen_get_ttinfo_lemma. exact Hs.
Qed.

Theorem gen_fromutc_lemma : forall d dt, shape d -> gen_fromutc d dt = fromutc d (fst dt).
Proof.
  intros d dt Hs. unfold gen_fromutc, fromutc. rewrite gen_find_last_transition_lemma.
  destruct (find_last d (fst dt) true) as [o|e] eqn:Ef; cbn [bind]; [|reflexivity].
  rewrite (gen_get_ttinfo_lemma d o Hs). cbn [bind]. unfold attr_offset.
  destruct (offset_of (get_ttinfo d o)) as [off|e]; cbn [bind]; [|reflexivity].
  rewrite (gen_is_ambiguous_lemma d (py_add_seconds dt off) o Hs).
  - unfold py_add_seconds. cbn [fst].
    destruct (is_ambiguous d (fst dt + off) o) as [f|e]; cbn [bind]; [|reflexivity].
    unfold py_enfold, py_int_of_bool. cbn [fst]. destruct f; reflexivity.
  - intros i ->. exact (find_last_bound d _ _ i Hs Ef).
Qed.

Theorem gen_utcoffset_lemma : forall d dt, shape d -> gen_utcoffset d dt = utcoffset d (fst dt) (snd dt).
Proof.
  intros d dt Hs. unfold gen_utcoffset, utcoffset. destruct (d_std d); cbn [py_some negb]; [|reflexivity].
  rewrite (gen_find_ttinfo_lemma d dt Hs). reflexivity.
Qed.

Theorem gen_dst_lemma : forall d dt, shape d -> gen_dst d dt = dst d (fst dt) (snd dt).
Proof.
  intros d dt Hs. unfold gen_dst, dst. destruct (d_dst d); cbn [py_some negb]; [|reflexivity].
  rewrite (gen_find_ttinfo_lemma d dt Hs).
  destruct (find_ttinfo d (fst dt) (snd dt)) as [o|e]; cbn [bind]; [|reflexivity].
  destruct o as [t1|]; cbn [attr_isdst bind]; [|reflexivity]. unfold py_truthy_Z.
  destruct (tt_isdst t1 =? 0); reflexivity.
Qed.

Theorem gen_tzname_lemma : forall d dt, shape d -> gen_tzname d dt = tzname d (fst dt) (snd dt).
Proof.
  intros d dt Hs. unfold gen_tzname, tzname. destruct (d_std d); cbn [py_some negb orb]; [|reflexivity].
  rewrite (gen_find_ttinfo_lemma d dt Hs).
  destruct (find_ttinfo d (fst dt) (snd dt)) as [o|e]; cbn [bind]; [|reflexivity].
  destruct o; reflexivity.
Qed.

Theorem gen_ttinfo_before_lemma : forall types, gen_ttinfo_before_index types = before_index types.
Proof. reflexivity. Qed.

(* ------------------------------------------------------------------ module functions on a tzfile *)
(* the zone object the module functions see: the regenerated methods behind CPython's
   datetime.utcoffset()/dst() range check *)
Definition tzfile_obj (d : tzdata) : tzobj :=
  mkTzObj (fun dt => do o <- gen_utcoffset d dt; chk_range o) (fun dt => do o <- gen_dst d dt; chk_range o)
          (gen_fromutc d) (fun dt => gen_is_ambiguous d dt None).

Lemma tzfile_obj_to_utc : forall d dt, shape d ->
  py_astimezone_utc (tzfile_obj d) dt = (do u <- to_utc d (fst dt) (snd dt); Ok (u, false)).
Proof.
  intros d dt Hs. unfold py_astimezone_utc, tzfile_obj, to_utc, dt_utcoffset. cbn [tz_utcoffset].
  rewrite (gen_utcoffset_lemma d dt Hs).
  destruct (utcoffset d (fst dt) (snd dt)) as [o|e]; cbn [bind]; [|reflexivity].
  destruct (chk_range o); reflexivity.
Qed.

Theorem gen_datetime_exists_lemma : forall d dt, shape d ->
  gen_datetime_exists (tzfile_obj d) dt = datetime_exists d (fst dt) (snd dt).
Proof.
  intros d dt Hs. unfold gen_datetime_exists, datetime_exists. rewrite (tzfile_obj_to_utc d dt Hs).
  destruct (to_utc d (fst dt) (snd dt)) as [u|e]; cbn [bind]; [|reflexivity].
  unfold py_astimezone_from_utc, tzfile_obj. cbn [tz_fromutc]. rewrite (gen_fromutc_lemma d _ Hs). cbn [fst].
  destruct (fromutc d u) as [wf|e]; cbn [bind]; [|reflexivity]. unfold py_dt_eq. rewrite Z.eqb_sym. reflexivity.
Qed.

Theorem gen_resolve_imaginary_lemma : forall d dt, shape d ->
  gen_resolve_imaginary (tzfile_obj d) dt = resolve_imaginary d (fst dt) (snd dt).
Proof.
  intros d dt Hs. unfold gen_resolve_imaginary, resolve_imaginary. rewrite (gen_datetime_exists_lemma d dt Hs).
  destruct (datetime_exists d (fst dt) (snd dt)) as [e|er]; cbn [bind]; [|reflexivity].
  destruct e; cbn [negb bind].
  - destruct dt. reflexivity.
  - rewrite (tzfile_obj_to_utc d dt Hs).
    destruct (to_utc d (fst dt) (snd dt)) as [u|er]; cbn [bind]; [|reflexivity].
    unfold py_astimezone_from_utc, tzfile_obj. cbn [tz_fromutc]. rewrite (gen_fromutc_lemma d _ Hs). cbn [fst].
    destruct (fromutc d u) as [wf|er]; cbn [bind]; [|reflexivity]. reflexivity.
Qed.

(* tz.is_ambiguous never raises on a decoded file, so the fallback of datetime_ambiguous is dead *)
Lemma is_ambiguous_total : forall d w, good d = true -> exists b, is_ambiguous d w None = Ok b.
Proof.
  intros d w Hg. unfold is_ambiguous. destruct (d_wall d) eqn:Ew.
  - unfold find_last. rewrite Ew. cbn [bind]. eexists. reflexivity.
  - assert (Hne : z_trans (zone_of d) <> []).
    { intros E. apply (wall_nil_iff d Hg) in E. rewrite E in Ew. discriminate. }
    rewrite find_last_unfold by (rewrite Ew; discriminate). rewrite <- Ew.
    destruct (bisect_right_total (d_wall d) w) as [r [Hr _]]. rewrite Hr. cbn [bind].
    pose proof (is_ambiguous_idx d Hg w (r - 1) Hne) as H. unfold is_ambiguous in H. cbn [bind] in H.
    rewrite H. eexists. reflexivity.
Qed.

Theorem gen_datetime_ambiguous_lemma : forall d dt, good d = true ->
  gen_datetime_ambiguous (tzfile_obj d) dt = datetime_ambiguous d (fst dt).
Proof.
  intros d dt Hg. pose proof (good_shape d Hg) as Hs. unfold gen_datetime_ambiguous, datetime_ambiguous, tzfile_obj.
  cbn [tz_is_ambiguous]. rewrite (gen_is_ambiguous_lemma d dt None Hs) by (intros i H; discriminate).
  destruct (is_ambiguous_total d (fst dt) Hg) as [b Hb]. rewrite Hb. reflexivity.
Qed.

(* ------------------------------------------------------------------ the generic layer of tz/_common.py *)
Section Generic.
Variable tz : tzobj.
Variable UO DST : Z -> bool -> Z.
Hypothesis Huo : forall dt, tz_utcoffset tz dt = Ok (UO (fst dt) (snd dt)).
Hypothesis Hdst : forall dt, tz_dst tz dt = Ok (DST (fst dt) (snd dt)).
Hypothesis Hamb : forall dt, tz_is_ambiguous tz dt = Ok (g_is_ambiguous UO (fst dt)).

Theorem gen_generic_is_ambiguous_lemma : forall dt,
  gen_generic_is_ambiguous tz dt = Ok (g_is_ambiguous UO (fst dt)).
Proof.
  intros dt. unfold gen_generic_is_ambiguous, g_is_ambiguous. rewrite !Huo. cbn [bind py_enfold fst snd Z.eqb negb].
  unfold py_dt_eq. cbn [fst]. rewrite Z.eqb_refl. reflexivity.
Qed.

(* tz.datetime_ambiguous on a zone whose is_ambiguous is unusable (raises / absent): the fallback *)
Theorem gen_datetime_ambiguous_fallback_lemma : forall dt,
  (exists e, tz_is_ambiguous tz dt = Err e) ->
  gen_datetime_ambiguous tz dt = Ok (g_ambiguous_fallback UO DST (fst dt)).
Proof.
  intros dt [e He]. unfold gen_datetime_ambiguous, g_ambiguous_fallback. rewrite He. rewrite !Huo, !Hdst.
  cbn [bind py_enfold fst snd Z.eqb negb]. reflexivity.
Qed.

Theorem gen_generic__fromutc_lemma : forall u,
  gen_generic__fromutc tz (u, false) = Ok (g_fromutc_wall UO DST u, false).
Proof.
  intros u. unfold gen_generic__fromutc, g_fromutc_wall. rewrite Huo, Hdst. cbn [bind fst snd].
  rewrite Hdst. cbn [bind py_enfold py_add_seconds fst snd Z.eqb negb]. reflexivity.
Qed.

Theorem gen_generic_fold_status_lemma : forall u w f,
  gen_generic_fold_status tz (u, false) (w, f) = Ok (py_int_of_bool (g_fold_status UO DST u w)).
Proof.
  intros u w f. unfold gen_generic_fold_status, g_fold_status. rewrite Hamb. cbn [bind fst].
  destruct (g_is_ambiguous UO w); [|reflexivity].
  rewrite Huo, Hdst. cbn [bind fst snd py_sub_dt]. reflexivity.
Qed.

Theorem gen_generic_fromutc_lemma : forall u,
  gen_generic_fromutc tz (u, false) = Ok (g_fromutc UO DST u).
Proof.
  intros u. unfold gen_generic_fromutc, g_fromutc. rewrite gen_generic__fromutc_lemma. cbn [bind].
  rewrite gen_generic_fold_status_lemma. cbn [bind]. unfold py_enfold, py_int_of_bool. cbn [fst].
  destruct (g_fold_status UO DST u (g_fromutc_wall UO DST u)); reflexivity.
Qed.
End Generic.
