(* LINK (C17 <- C01): the recurrence rule that a VTIMEZONE component states for a POSIX `Mm.w.d`
   transition rule -- RRULE:FREQ=YEARLY;BYMONTH=m;BYDAY=<n><WD> with DTSTART at the rule's date of
   the first year -- yields, by the SPECIFICATION of rrule (rr/RRSpec.v, brute force over the days of
   each year with nth_in), exactly the POSIX rule dates (posix/PosixSpec.v date_of) of the years
   y0, y0+1, ..., one per year, at the DTSTART's time of day.
   New area: this file imports rr's and posix's definitions and changes nothing there. *)
From Coq Require Import ZArith List Bool Lia ZifyBool.
From V Require Import base.Cal posix.PTime posix.PosixSpec posix.PosixThm.
From V Require Import rr.RRBase rr.RRNorm rr.RRSpec rr.RRSubSpec rr.RRSubRunBase.
Import ListNotations.
Open Scope Z_scope.
Ltac Zify.zify_post_hook ::= Z.to_euclidean_division_equations.

(* ---------------------------------------------------------------- the argument record *)
(* POSIX weekday d (0 = Sunday) as an rrule weekday (0 = Monday); POSIX week w (5 = last) as the
   numeric BYDAY prefix the generator of the C17 check writes ("-1" for w = 5, w otherwise) *)
Definition rr_wd (d : Z) : Z := (d + 6) mod 7.
Definition rr_nth (w : Z) : Z := if w <? 5 then w else -1.

Definition mdate (m w d y : Z) : Z := date_of (DM m w d) y.

(* rrule(YEARLY, dtstart=datetime(y0, m, <day of the rule date>, H, M, S), bymonth=m,
         byweekday=WD(n)) -- everything else at its default (interval 1, wkst MO, no count/until) *)
Definition yearly_rule (m w d H M S y0 : Z) : raw :=
  mkRaw YEARLY false y0 m (mdate m w d y0 - ord_of_ymd y0 m 1 + 1) H M S 1 0 None None false
        None (Some [m]) None None None None (Some [(rr_wd d, rr_nth w)]) None None None.

(* ---------------------------------------------------------------- calendar: the rule date *)
Lemma ord_first y m dd : ord_of_ymd y m dd = ord_of_ymd y m 1 + dd - 1.
Proof. unfold ord_of_ymd. lia. Qed.

(* the rule date lies in its month *)
Lemma mdate_in_month m w d y : 1 <= w <= 5 -> 0 <= d <= 6 ->
  ord_of_ymd y m 1 <= mdate m w d y <= ord_of_ymd y m 1 + dim y m - 1.
Proof.
  intros Hw Hd. unfold mdate, date_of, wd_sun. pose proof (dim_pos y m).
  set (first := ord_of_ymd y m 1).
  destruct (w <? 5) eqn:E; [lia|].
  destruct (first + (d - first mod 7) mod 7 + 28 <? first + dim y m) eqn:E2; lia.
Qed.

(* within the month, "weekday d and n-th of its kind" picks exactly the rule date *)
Lemma mdate_char m w d y o : 1 <= w <= 5 -> 0 <= d <= 6 ->
  ord_of_ymd y m 1 <= o <= ord_of_ymd y m 1 + dim y m - 1 ->
  ((rr_wd d =? weekday_of_ord o) && nth_in (o - ord_of_ymd y m 1 + 1) (dim y m) (rr_nth w) = true
   <-> o = mdate m w d y).
Proof.
  intros Hw Hd Ho. unfold mdate, date_of, wd_sun, rr_wd, rr_nth, nth_in, weekday_of_ord.
  pose proof (dim_pos y m). set (first := ord_of_ymd y m 1) in *.
  destruct (w <? 5) eqn:E.
  - destruct (0 <? w) eqn:E0; [|lia]. split; intros K; lia.
  - cbn [Z.ltb Z.compare]. replace (- -1) with 1 by reflexivity.
    destruct (first + (d - first mod 7) mod 7 + 28 <? first + dim y m) eqn:E2; split; intros K; lia.
Qed.

(* ---------------------------------------------------------------- the day predicate of the rule *)
Section Rule.
  Variables m w d H M S y0 : Z.
  Hypothesis Hm : 1 <= m <= 12.
  Hypothesis Hw : 1 <= w <= 5.
  Hypothesis Hd : 0 <= d <= 6.
  Hypothesis Ht : valid_hms H M S = true.

  Local Notation r := (yearly_rule m w d H M S y0).
  Definition tod : Z := H * 3600 + M * 60 + S.

  Lemma rr_nth_nonzero : rr_nth w <> 0.
  Proof. unfold rr_nth. destruct (w <? 5) eqn:E; lia. Qed.

  (* day_ok, computed *)
  Lemma day_ok_rule o :
    day_ok r o =
    (let '(y, mm, dd) := ymd_of_ord o in
     (mm =? m) && ((rr_wd d =? weekday_of_ord o) && nth_in dd (dim y mm) (rr_nth w))).
  Proof.
    unfold day_ok. destruct (ymd_of_ord o) as [[y mm] dd].
    unfold eff_bymonth, eff_bymonthday, eff_byweekday, no_day_part, in_opt.
    cbn [yearly_rule r_bymonth r_bymonthday r_byweekday r_byyearday r_byweekno r_byeaster r_freq
         is_none andb existsb orb].
    pose proof rr_nth_nonzero as NZ. destruct (rr_nth w =? 0) eqn:E0; [apply Z.eqb_eq in E0; contradiction|].
    change (MONTHLY <? YEARLY) with false. change (YEARLY =? MONTHLY) with false.
    cbn [orb negb andb]. rewrite !orb_false_r, !andb_true_r. reflexivity.
  Qed.

  (* on a valid ordinal: the day is selected iff it is the rule date of its year *)
  Lemma day_ok_iff o y : days_before_year y < o <= days_before_year (y + 1) ->
    (day_ok r o = true <-> o = mdate m w d y).
  Proof.
    intros Hy. rewrite day_ok_rule.
    pose proof (ord_of_ymd_of_ord o) as K. pose proof (year_of_ord_unique o y Hy) as EY.
    unfold ymd_of_ord in *. rewrite EY in *.
    set (mm := month_of_yday y (o - days_before_year y)) in *.
    set (dd := o - days_before_year y - dbm y mm) in *.
    destruct K as (KO & Kmm & Kdd).
    assert (F : ord_of_ymd y mm 1 = o - dd + 1) by (rewrite (ord_first y mm dd) in KO; lia).
    split.
    - intros E. apply andb_prop in E. destruct E as [E1 E2]. assert (EM : mm = m) by lia.
      clearbody mm dd. subst mm.
      assert (Ho : ord_of_ymd y m 1 <= o <= ord_of_ymd y m 1 + dim y m - 1) by lia.
      apply (mdate_char m w d y o Hw Hd Ho). replace (o - ord_of_ymd y m 1 + 1) with dd by lia. exact E2.
    - intros ->. pose proof (mdate_in_month m w d y Hw Hd) as B.
      (* the rule date lies in month m, so the month of o is m *)
      assert (EM : mm = m).
      { unfold mm. apply month_of_yday_unique; [exact Hm|].
        rewrite (dbm_succ y m Hm). unfold ord_of_ymd in B. lia. }
      clearbody mm dd. subst mm. rewrite Z.eqb_refl. cbn [andb].
      destruct (mdate_char m w d y (mdate m w d y) Hw Hd B) as [_ B'].
      specialize (B' eq_refl).
      replace dd with (mdate m w d y - ord_of_ymd y m 1 + 1) by lia. exact B'.
  Qed.
End Rule.

(* ---------------------------------------------------------------- one candidate per year *)
Section Seq.
  Variables m w d H M S y0 : Z.
  Hypothesis Hm : 1 <= m <= 12.
  Hypothesis Hw : 1 <= w <= 5.
  Hypothesis Hd : 0 <= d <= 6.
  Hypothesis Ht : valid_hms H M S = true.
  Hypothesis Hy0 : 1 <= y0 <= 9999.

  Local Notation r := (yearly_rule m w d H M S y0).
  Local Notation t0 := (tod H M S).

  Definition item (y : Z) : instant := (mdate m w d y, t0).

  Lemma period_times_rule : period_times r 0 = [t0].
  Proof.
    unfold period_times.
    cbn [yearly_rule r_freq r_byhour r_byminute r_bysecond sp_H0 sp_M0 sp_S0 r_isdate r_H r_M r_S].
    change (YEARLY <? HOURLY) with true. change (YEARLY <? MINUTELY) with true. change (YEARLY <? SECONDLY) with true.
    cbv iota. unfold sort_set. cbn [fold_right insert_uniq flat_map app]. rewrite Ht. reflexivity.
  Qed.

  Lemma jan1_bounds y : 1 <= y <= 9999 ->
    1 <= days_before_year y + 1 /\ days_before_year (y + 1) <= max_ord.
  Proof.
    intros Hy. pose proof (days_before_year_mono 1 y ltac:(lia)).
    pose proof (days_before_year_mono (y + 1) 10000 ltac:(lia)).
    change (days_before_year 1) with 0 in *. change (days_before_year 10000) with 3652059 in *.
    unfold max_ord. lia.
  Qed.

  Lemma mdate_in_year y :
    days_before_year y < mdate m w d y <= days_before_year (y + 1).
  Proof.
    pose proof (mdate_in_month m w d y Hw Hd) as B. unfold ord_of_ymd in B.
    pose proof (dbm_mono y 1 m ltac:(lia) ltac:(lia) ltac:(lia)) as M1. rewrite dbm_1 in M1.
    pose proof (dbm_mono y (m + 1) 13 ltac:(lia) ltac:(lia) ltac:(lia)) as M2. rewrite dbm_13 in M2.
    pose proof (dbm_succ y m Hm). rewrite days_before_year_succ. lia.
  Qed.

  (* the candidates of period k (= year y0 + k): the rule date of that year, once *)
  Lemma cands_year k : 1 <= y0 + k <= 9999 -> cands_coarse r k = [item (y0 + k)].
  Proof.
    intros Hy. unfold cands_coarse, period_days.
    cbn [yearly_rule r_freq r_interval r_y]. change (YEARLY =? YEARLY) with true. cbv iota.
    rewrite Z.mul_1_r. set (y := y0 + k) in *.
    destruct (jan1_bounds y Hy) as [B1 B2]. pose proof (mdate_in_year y) as BY.
    assert (E1 : ord_of_ymd y 1 1 = days_before_year y + 1) by (unfold ord_of_ymd; rewrite dbm_1; lia).
    assert (E2 : ord_of_ymd (y + 1) 1 1 = days_before_year (y + 1) + 1) by (unfold ord_of_ymd; rewrite dbm_1; lia).
    rewrite E1, E2. cbv zeta.
    rewrite Z.max_l, Z.min_l by lia. rewrite period_times_rule.
    set (lo := days_before_year y + 1). set (hi1 := days_before_year (y + 1) + 1 - 1 + 1).
    set (D := mdate m w d y) in *.
    rewrite (zrange_split lo D hi1) by (unfold lo, hi1; lia).
    rewrite (zrange_split D (D + 1) hi1) by (unfold lo, hi1; lia).
    rewrite zrange_single, !flat_map_app.
    assert (NO : forall o, lo <= o < hi1 -> o <> D -> day_ok r o = false).
    { intros o Ho Hne. destruct (day_ok r o) eqn:E; [|reflexivity].
      apply (day_ok_iff m w d H M S y0 Hm Hw Hd o y) in E; [contradiction | unfold lo, hi1 in Ho; lia]. }
    rewrite (flat_map_nil_in _ _ _ (zrange lo D)).
    2:{ intros o Ho. apply in_zrange in Ho. rewrite NO by (unfold hi1; lia). reflexivity. }
    rewrite (flat_map_nil_in _ _ _ (zrange (D + 1) hi1)).
    2:{ intros o Ho. apply in_zrange in Ho. rewrite NO by lia. reflexivity. }
    cbn [flat_map app].
    assert (OK : day_ok r D = true) by (apply (day_ok_iff m w d H M S y0 Hm Hw Hd D y); [lia | reflexivity]).
    rewrite OK. reflexivity.
  Qed.
End Seq.

(* ---------------------------------------------------------------- the whole sequence *)
(* how many years the specification's loop yields: one per unit of fuel, until the limit is
   reached or the year passes 9999 *)
Fixpoint years_yielded (fuel : nat) (limit len y : Z) : nat :=
  match fuel with
  | O => O
  | S f => if limit <=? len then O else if 9999 <? y then O else S (years_yielded f limit (len + 1) (y + 1))
  end.

Section Loop.
  Variables m w d H M S y0 : Z.
  Hypothesis Hm : 1 <= m <= 12.
  Hypothesis Hw : 1 <= w <= 5.
  Hypothesis Hd : 0 <= d <= 6.
  Hypothesis Ht : valid_hms H M S = true.
  Hypothesis Hy0 : 1 <= y0 <= 9999.

  Local Notation r := (yearly_rule m w d H M S y0).
  Local Notation item := (item m w d H M S).

  Lemma sp_start_rule : sp_start r = item y0.
  Proof.
    unfold sp_start, sp_ord0, sp_sod0, sp_H0, sp_M0, sp_S0, item, tod.
    cbn [yearly_rule r_y r_m r_d r_isdate r_H r_M r_S]. f_equal. rewrite ord_first. lia.
  Qed.

  Lemma mdate_mono k : 0 <= k -> mdate m w d y0 <= mdate m w d (y0 + k).
  Proof.
    intros Hk. destruct (Z.eq_dec k 0) as [->|N]; [rewrite Z.add_0_r; lia|].
    pose proof (mdate_in_year m w d H M S Hm Hw Hd y0). pose proof (mdate_in_year m w d H M S Hm Hw Hd (y0 + k)).
    pose proof (days_before_year_mono (y0 + 1) (y0 + k) ltac:(lia)). lia.
  Qed.

  Lemma step_items_rule k : 0 <= k -> y0 + k <= 9999 -> step_items r k = [item (y0 + k)].
  Proof.
    intros Hk Hy. unfold step_items, is_coarse, select_pos.
    cbn [yearly_rule r_freq r_bysetpos]. change (YEARLY <=? DAILY) with true. cbv iota.
    rewrite (cands_year m w d H M S y0 Hm Hw Hd Ht k) by lia.
    cbn [filter]. rewrite sp_start_rule. unfold inst_le, LinkSpec.item. cbn [fst snd].
    pose proof (mdate_mono k Hk).
    destruct ((mdate m w d y0 <? mdate m w d (y0 + k)) ||
              (mdate m w d y0 =? mdate m w d (y0 + k)) && (tod H M S <=? tod H M S)) eqn:E; [reflexivity|lia].
  Qed.

  Lemma step_lo_rule k : step_lo r k = days_before_year (y0 + k) + 1.
  Proof.
    unfold step_lo, is_coarse, period_days. cbn [yearly_rule r_freq r_interval r_y].
    change (YEARLY <=? DAILY) with true. change (YEARLY =? YEARLY) with true. cbn [fst].
    rewrite Z.mul_1_r. unfold ord_of_ymd. rewrite dbm_1. lia.
  Qed.

  Lemma step_lo_beyond k : 0 <= k -> (max_ord <? step_lo r k) = (9999 <? y0 + k).
  Proof.
    intros Hk. rewrite step_lo_rule. apply Bool.eq_iff_eq_true. split; intros K.
    - destruct (Z_le_gt_dec (y0 + k) 9999) as [L|G]; [|lia].
      pose proof (days_before_year_mono (y0 + k) 9999 L). change (days_before_year 9999) with 3651694 in *.
      unfold max_ord in K. lia.
    - pose proof (days_before_year_mono 10000 (y0 + k) ltac:(lia)).
      change (days_before_year 10000) with 3652059 in *. unfold max_ord. lia.
  Qed.

  (* pzrange n y = [y; y+1; ...; y+n-1] is posix's zrange *)
  Lemma spec_loop_rule : forall fuel limit k acc, 0 <= k ->
    fst (spec_loop r limit fuel k None acc) =
    rev (map item (PosixThm.zrange (years_yielded fuel limit (zlen acc) (y0 + k)) (y0 + k))) ++ acc.
  Proof.
    induction fuel as [|f IH]; intros limit k acc Hk; [reflexivity|].
    cbn [spec_loop years_yielded].
    destruct (limit <=? zlen acc); [reflexivity|].
    rewrite (step_lo_beyond k Hk).
    destruct (9999 <? y0 + k) eqn:E9; [reflexivity|].
    unfold sp_after_until. cbn [yearly_rule r_until].
    rewrite (step_items_rule k Hk) by lia. cbn [sp_take sp_after_until].
    unfold sp_after_until. cbn [yearly_rule r_until].
    rewrite IH by lia. cbn [PosixThm.zrange map rev].
    replace (zlen (item (y0 + k) :: acc)) with (zlen acc + 1) by (unfold zlen; cbn [length]; lia).
    replace (y0 + (k + 1)) with (y0 + k + 1) by lia.
    rewrite <- app_assoc. reflexivity.
  Qed.

  (* THE LINK, specification side: the k-th instant of the sequence is the POSIX rule date of year
     y0 + k at the DTSTART's time of day *)
  Theorem spec_iter_is_posix_dates limit fuel :
    fst (spec_iter r limit fuel) = map item (PosixThm.zrange (years_yielded fuel limit 0 y0) y0).
  Proof.
    unfold spec_iter. cbn [yearly_rule r_count].
    pose proof (spec_loop_rule fuel limit 0 [] ltac:(lia)) as E.
    destruct (spec_loop r limit fuel 0 None []) as [acc t]. cbn [fst] in *.
    rewrite E, app_nil_r, rev_involutive, Z.add_0_r. reflexivity.
  Qed.
End Loop.

(* ---------------------------------------------------------------- closed forms *)
Lemma years_yielded_full : forall fuel limit len y, y <= 10000 ->
  10000 - y <= Z.of_nat fuel -> 10000 - y <= limit - len ->
  years_yielded fuel limit len y = Z.to_nat (10000 - y).
Proof.
  induction fuel as [|f IH]; intros limit len y Hy Hf Hl.
  - cbn [years_yielded]. change (Z.of_nat 0) with 0 in Hf. lia.
  - cbn [years_yielded]. rewrite Nat2Z.inj_succ in Hf.
    destruct (Z.eq_dec y 10000) as [->|N].
    + destruct (limit <=? len); reflexivity.
    + destruct (limit <=? len) eqn:E1; [lia|]. destruct (9999 <? y) eqn:E2; [lia|].
      rewrite IH by lia. lia.
Qed.

Lemma years_yielded_le : forall fuel limit len y, (years_yielded fuel limit len y <= fuel)%nat.
Proof.
  induction fuel as [|f IH]; intros; cbn [years_yielded]; [lia|].
  destruct (limit <=? len); [lia|]. destruct (9999 <? y); [lia|]. specialize (IH limit (len + 1) (y + 1)). lia.
Qed.

Lemma nth_pzrange : forall n lo k, (k < n)%nat -> nth_error (PosixThm.zrange n lo) k = Some (lo + Z.of_nat k).
Proof.
  induction n as [|n IH]; intros lo k Hk; [lia|].
  destruct k as [|k]; cbn [PosixThm.zrange nth_error]; [f_equal; lia|].
  rewrite IH by lia. f_equal. lia.
Qed.
