(* LINK (C17 <- C13 <- C01), text side: the RRULE value the C17 generator writes for a POSIX Mm.w.d
   rule, `FREQ=YEARLY;BYMONTH=<m>;BYDAY=<n><WD>`, is parsed by the model of rrulestr
   (rstr/RstrModel.v parse_rrule_kw = _parse_rfc_rrule's keyword dictionary) to exactly the keyword
   arguments of which LinkSpec.yearly_rule is the rr-side record. *)
From Coq Require Import String Ascii.
From Coq Require Import ZArith List Bool Lia.
From V Require Import rstr.RstrPrim rstr.RstrModel.
Import ListNotations.
Open Scope Z_scope.

Definition month_txt (m : Z) : str :=
  nth (Z.to_nat (m - 1)) [zs "1"; zs "2"; zs "3"; zs "4"; zs "5"; zs "6"; zs "7"; zs "8"; zs "9"; zs "10"; zs "11"; zs "12"]%string [].
(* harness/check_C17.py rrule_of: "-1" for w = 5, "+w" for odd w, "w" for even w *)
Definition nth_txt (w : Z) : str :=
  nth (Z.to_nat (w - 1)) [zs "+1"; zs "2"; zs "+3"; zs "4"; zs "-1"]%string [].
Definition day_txt (d : Z) : str :=
  nth (Z.to_nat d) [zs "SU"; zs "MO"; zs "TU"; zs "WE"; zs "TH"; zs "FR"; zs "SA"]%string [].

Definition rrule_text (m w d : Z) : str :=
  zs "FREQ=YEARLY;BYMONTH="%string ++ month_txt m ++ zs ";BYDAY="%string ++ nth_txt w ++ day_txt d.

(* the keyword dictionary: freq=YEARLY, bymonth=(m,), byweekday=(WD(n),) with WD = (d + 6) mod 7
   (POSIX 0 = Sunday, rrule 0 = Monday) and n = -1 for w = 5, else w *)
Definition kw_yearly (m w d : Z) : kwargs :=
  mkkw (Some 0) None None None None None (Some [m]) None None None None
       (Some [mkwd ((d + 6) mod 7) (Some (if w <? 5 then w else -1))]) None None None.

Theorem rrule_text_parses m w d : 1 <= m <= 12 -> 1 <= w <= 5 -> 0 <= d <= 6 ->
  parse_rrule_kw false (rrule_text m w d) = Ok (kw_yearly m w d).
Proof.
  intros Hm Hw Hd.
  assert (Cm : m = 1 \/ m = 2 \/ m = 3 \/ m = 4 \/ m = 5 \/ m = 6 \/ m = 7 \/ m = 8 \/ m = 9 \/
               m = 10 \/ m = 11 \/ m = 12) by lia.
  assert (Cw : w = 1 \/ w = 2 \/ w = 3 \/ w = 4 \/ w = 5) by lia.
  assert (Cd : d = 0 \/ d = 1 \/ d = 2 \/ d = 3 \/ d = 4 \/ d = 5 \/ d = 6) by lia.
  clear Hm Hw Hd.
  repeat (destruct Cm as [Cm | Cm]); subst m;
  (repeat (destruct Cw as [Cw | Cw]); subst w;
   (repeat (destruct Cd as [Cd | Cd]); subst d; vm_compute; reflexivity)).
Qed.

(* with the `RRULE:` prefix of the VTIMEZONE line as well *)
Theorem rrule_line_parses m w d : 1 <= m <= 12 -> 1 <= w <= 5 -> 0 <= d <= 6 ->
  parse_rrule_kw false (zs "RRULE:"%string ++ rrule_text m w d) = Ok (kw_yearly m w d).
Proof.
  intros Hm Hw Hd.
  assert (Cm : m = 1 \/ m = 2 \/ m = 3 \/ m = 4 \/ m = 5 \/ m = 6 \/ m = 7 \/ m = 8 \/ m = 9 \/
               m = 10 \/ m = 11 \/ m = 12) by lia.
  assert (Cw : w = 1 \/ w = 2 \/ w = 3 \/ w = 4 \/ w = 5) by lia.
  assert (Cd : d = 0 \/ d = 1 \/ d = 2 \/ d = 3 \/ d = 4 \/ d = 5 \/ d = 6) by lia.
  clear Hm Hw Hd.
  repeat (destruct Cm as [Cm | Cm]); subst m;
  (repeat (destruct Cw as [Cw | Cw]); subst w;
   (repeat (destruct Cd as [Cd | Cd]); subst d; vm_compute; reflexivity)).
Qed.
