(* LINK, the whole chain for one VTIMEZONE component:
     RRULE text --(rstr: parse_rrule_kw)--> keyword arguments --(raw_of_kw, glue)--> rr's argument
     record --(rr: normalize, iterate = spec_iter)--> occurrences = the POSIX rule dates.
   raw_of_kw is the only hand-written glue: it reads rstr's keyword dictionary + DTSTART as the
   argument record of rr's model, field by field (interval default 1, wkst default
   calendar.firstweekday() = 0, a weekday without n as n = 0: the conventions stated in rr/RRNorm.v). *)
From Coq Require Import String Ascii.
From Coq Require Import ZArith List Bool Lia.
From V Require Import base.Cal posix.PTime posix.PosixSpec posix.PosixThm.
From V Require Import rstr.RstrPrim rstr.RstrModel link.LinkText.
From V Require Import rr.RRBase rr.RRNorm rr.RRIter rr.RRSpec link.LinkSpec link.LinkModel.
Import ListNotations.
Open Scope Z_scope.

Definition raw_of_kw (st : dt) (k : kwargs) : option raw :=
  match k_freq k, k_until k with
  | Some f, None =>
      Some (mkRaw f false (dy st) (dmo st) (dd st) (dh st) (dmi st) (RstrModel.ds st)
                  (match k_interval k with Some i => i | None => 1 end)
                  (match k_wkst k with Some x => x | None => 0 end)
                  (k_count k) None false
                  (k_bysetpos k) (k_bymonth k) (k_bymonthday k) (k_byyearday k) (k_byeaster k) (k_byweekno k)
                  (option_map (map (fun x => (wday x, match wn x with Some n => n | None => 0 end))) (k_byweekday k))
                  (k_byhour k) (k_byminute k) (k_bysecond k))
  | _, _ => None       (* UNTIL needs the date conversion: not used by the VTIMEZONE generator *)
  end.

Lemma raw_of_kw_yearly m w d H M S y0 us tz :
  raw_of_kw (mkdt y0 m (mdate m w d y0 - ord_of_ymd y0 m 1 + 1) H M S us tz) (kw_yearly m w d)
  = Some (yearly_rule m w d H M S y0).
Proof. reflexivity. Qed.

(* text -> arguments -> occurrences *)
Theorem rrule_text_yields_posix_dates m w d H M S y0 us tz :
  1 <= m <= 12 -> 1 <= w <= 5 -> 0 <= d <= 6 -> valid_hms H M S = true -> 1 <= y0 <= 9999 ->
  exists k r rl,
    parse_rrule_kw false (zs "RRULE:"%string ++ rrule_text m w d) = RstrModel.Ok k /\
    raw_of_kw (mkdt y0 m (mdate m w d y0 - ord_of_ymd y0 m 1 + 1) H M S us tz) k = Some r /\
    normalize r = Ok rl /\
    forall limit n, fst (iterate rl limit n) =
                    map (item m w d H M S) (PosixThm.zrange (years_yielded n limit 0 y0) y0).
Proof.
  intros Hm Hw Hd Ht Hy.
  destruct (iterate_is_posix_dates m w d H M S y0 Hm Hw Hd Ht Hy) as (rl & E & K).
  exists (kw_yearly m w d), (yearly_rule m w d H M S y0), rl.
  split; [apply rrule_line_parses; assumption|]. split; [apply raw_of_kw_yearly|]. split; assumption.
Qed.
