(* LINK, the rruleset wrapper: tzical calls rrulestr(..., compatible=True), which puts the rule
   into an rruleset and adds DTSTART as an rdate.  DTSTART is the rule's first occurrence, so by
   rset's theorem (C10: the set iterates the sorted duplicate-free union) the set yields exactly the
   rule's own sequence -- the POSIX rule dates. *)
From Coq Require Import ZArith List Bool Lia ZifyBool.
From V Require Import base.Cal posix.PTime posix.PosixSpec posix.PosixThm.
From V Require Import rset.RSetModel rset.RSetSpec rset.RSetHist rset.RSetThm rset.RSetHeapq rset.RSetHeapqThm.
From V Require Import rr.RRBase rr.RRNorm rr.RRIter rr.RRSpec link.LinkSpec link.LinkModel.
Import ListNotations.
Open Scope Z_scope.

(* two strictly increasing lists with the same members are equal *)
Lemma strict_sorted_unique : forall a b, strict_sorted a -> strict_sorted b ->
  (forall x, In x a <-> In x b) -> a = b.
Proof.
  induction a as [|x a IH]; intros b Sa Sb H.
  - destruct b as [|y b]; [reflexivity|]. exfalso. apply (proj2 (H y)). left. reflexivity.
  - destruct b as [|y b]; [exfalso; apply (proj1 (H x)); left; reflexivity|].
    assert (x = y).
    { destruct (proj1 (H x) (or_introl eq_refl)) as [E|E]; [congruence|].
      destruct (proj2 (H y) (or_introl eq_refl)) as [E'|E']; [congruence|].
      pose proof (strict_sorted_head_lt _ _ _ Sb E). pose proof (strict_sorted_head_lt _ _ _ Sa E'). lia. }
    subst y. f_equal. apply IH; [eapply strict_sorted_tail; eassumption | eapply strict_sorted_tail; eassumption |].
    intros z. split; intros Hz.
    + destruct (proj1 (H z) (or_intror Hz)) as [E|E]; [|exact E].
      subst z. pose proof (strict_sorted_head_lt _ _ _ Sa Hz). lia.
    + destruct (proj2 (H z) (or_intror Hz)) as [E|E]; [|exact E].
      subst z. pose proof (strict_sorted_head_lt _ _ _ Sb Hz). lia.
Qed.

Lemma strict_sorted_map_range (g : Z -> Z) : forall n lo,
  (forall i j, lo <= i -> i < j -> g i < g j) -> strict_sorted (map g (PosixThm.zrange n lo)).
Proof.
  induction n as [|n IH]; intros lo Hg; [constructor|].
  cbn [PosixThm.zrange map]. destruct n as [|n'].
  - constructor.
  - cbn [PosixThm.zrange map]. constructor; [apply Hg; lia|].
    apply (IH (lo + 1)). intros i j Hi Hij. apply Hg; lia.
Qed.

Section Wrapper.
  Variables m w d H M S y0 : Z.
  Hypothesis Hm : 1 <= m <= 12.
  Hypothesis Hw : 1 <= w <= 5.
  Hypothesis Hd : 0 <= d <= 6.
  Hypothesis Ht : valid_hms H M S = true.
  Hypothesis Hy0 : 1 <= y0 <= 9999.

  Definition code (y : Z) : Z := inst_code (item m w d H M S y).

  Lemma code_incr i j : i < j -> code i < code j.
  Proof.
    intros Hij. unfold code, inst_code, item. cbn [fst snd].
    pose proof (mdate_in_year m w d H M S Hm Hw Hd i). pose proof (mdate_in_year m w d H M S Hm Hw Hd j).
    pose proof (days_before_year_mono (i + 1) j ltac:(lia)).
    unfold valid_hms in Ht. unfold tod. lia.
  Qed.

  Lemma codes_sorted n : strict_sorted (map code (PosixThm.zrange n y0)).
  Proof. apply strict_sorted_map_range. intros i j _ Hij. apply code_incr. exact Hij. Qed.

  (* the set {rule occurrences} U {DTSTART} is the rule's own sequence (when it is not empty) *)
  Lemma spec_set_wrapper n : (0 < n)%nat ->
    spec_set [map code (PosixThm.zrange n y0)] [code y0] [] [] = map code (PosixThm.zrange n y0).
  Proof.
    intros Hn. unfold spec_set. change (inclusion [] []) with (@nil Z). cbv zeta.
    unfold inclusion. cbn [concat]. rewrite app_nil_r.
    assert (F : forall l, filter (fun x => negb (RSetSpec.memZ x [])) l = l).
    { induction l as [|a l IH]; [reflexivity|]. cbn [filter].
      change (negb (RSetSpec.memZ a [])) with true. cbv iota. f_equal. exact IH. }
    rewrite F. apply strict_sorted_unique; [apply sort_set_sorted | apply codes_sorted|].
    intros x. rewrite sort_set_in, in_app_iff. split; [|tauto].
    intros [K|[K|[]]]; [exact K|]. subst x. destruct n as [|n']; [lia|]. left. reflexivity.
  Qed.

  (* the model of rruleset (_iter with heapq, C10) over the model of the rrule (C01): tzical's
     rrulestr(compatible=True) object yields the POSIX rule dates *)
  Theorem rruleset_wrapper_is_posix_dates rl limit n :
    normalize (yearly_rule m w d H M S y0) = Ok rl -> (0 < years_yielded n limit 0 y0)%nat ->
    let L := map inst_code (fst (iterate rl limit n)) in
    rset_iter heap_py [L] [code y0] [] [] = Some (L, Some (Z.of_nat (length L))) /\
    L = map (fun y => date_of (DM m w d) y * DAY + tod H M S) (PosixThm.zrange (years_yielded n limit 0 y0) y0).
  Proof.
    intros E Hn L.
    destruct (iterate_is_posix_dates m w d H M S y0 Hm Hw Hd Ht Hy0) as (rl' & E' & K).
    assert (rl' = rl) by congruence. subst rl'.
    assert (EL : L = map code (PosixThm.zrange (years_yielded n limit 0 y0) y0)).
    { unfold L. rewrite K, map_map. reflexivity. }
    split; [|rewrite EL; apply map_ext; intros y; reflexivity].
    rewrite (rset_iter_correct heap_py is_heap_py heap_py_contract [L] [code y0] [] []).
    - rewrite EL, spec_set_wrapper by exact Hn. reflexivity.
    - constructor; [|constructor]. apply strict_nondec. rewrite EL. apply codes_sorted.
    - constructor.
  Qed.
End Wrapper.
