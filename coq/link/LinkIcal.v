(* LINK (C17 <- C01), instantiation: the onset lists of the DAYLIGHT / STANDARD components of a
   VTIMEZONE whose components carry `DTSTART:<rule date of y0>` and
   `RRULE:FREQ=YEARLY;BYMONTH=m;BYDAY=<n><WD>` -- computed by the MODEL of rrule -- ARE the lists of
   POSIX start / end events that posix's C17 theorems assume (comp_daylight / comp_standard), so
   those theorems hold for the RRULE-defined zone. *)
From Coq Require Import ZArith List Bool Lia ZifyBool.
From V Require Import base.Cal posix.PTime posix.RDelta posix.TzParseModel posix.TzRangeModel posix.PosixSpec
  posix.TransThm posix.MainThm posix.PosixThm posix.IcalModel posix.IcalThm posix.IcalEquiv.
From V Require Import rr.RRBase rr.RRNorm rr.RRIter rr.RRSpec link.LinkSpec link.LinkModel.
Import ListNotations.
Open Scope Z_scope.

Section Ical.
  Variable z : posix.
  Variable ds : dstpart.
  Hypothesis Hdst : z.(p_dst) = Some ds.
  (* both transition rules are Mm.w.d rules with a time of day 0 <= t < 24 h (the generator of the
     C17 check writes the RRULE form only for such times) *)
  Variables ms ws dds Hs Ms Ss me we dde He Me Se : Z.
  Hypothesis Hstart : ds.(d_start) = mkPrule (DM ms ws dds) (tod Hs Ms Ss).
  Hypothesis Hend : ds.(d_end) = mkPrule (DM me we dde) (tod He Me Se).
  Hypothesis Rs : 1 <= ms <= 12 /\ 1 <= ws <= 5 /\ 0 <= dds <= 6 /\ valid_hms Hs Ms Ss = true.
  Hypothesis Re : 1 <= me <= 12 /\ 1 <= we <= 5 /\ 0 <= dde <= 6 /\ valid_hms He Me Se = true.
  Variable y0 : Z.
  Hypothesis Hy0 : 1 <= y0 <= 9999.

  (* DAYLIGHT: DTSTART = start date of y0 at the start time (local standard time);
     STANDARD: DTSTART = end date of y0 at the end time (local daylight time) *)
  Definition rule_daylight : raw := yearly_rule ms ws dds Hs Ms Ss y0.
  Definition rule_standard : raw := yearly_rule me we dde He Me Se y0.

  Theorem rrule_onsets_are_posix_events rlS rlE limit n :
    normalize rule_daylight = Ok rlS -> normalize rule_standard = Ok rlE ->
    map inst_code (fst (iterate rlS limit n)) = c_onsets (comp_daylight z ds y0 (years_yielded n limit 0 y0)) /\
    map inst_code (fst (iterate rlE limit n)) = c_onsets (comp_standard z ds y0 (years_yielded n limit 0 y0)).
  Proof.
    intros ES EE. destruct Rs as (A1 & A2 & A3 & A4). destruct Re as (B1 & B2 & B3 & B4).
    destruct (iterate_is_posix_dates ms ws dds Hs Ms Ss y0 A1 A2 A3 A4 Hy0) as (rl1 & E1 & K1).
    destruct (iterate_is_posix_dates me we dde He Me Se y0 B1 B2 B3 B4 Hy0) as (rl2 & E2 & K2).
    unfold rule_daylight, rule_standard in *.
    assert (rl1 = rlS) by congruence. assert (rl2 = rlE) by congruence. subst rl1 rl2.
    rewrite K1, K2, !map_map. unfold comp_daylight, comp_standard. cbn [c_onsets].
    split; apply map_ext; intros y; rewrite inst_code_item; unfold RS, RE; [rewrite Hstart | rewrite Hend]; reflexivity.
  Qed.

  (* the two rules are always accepted by the model of the constructor *)
  Lemma rules_normalize : exists rlS rlE, normalize rule_daylight = Ok rlS /\ normalize rule_standard = Ok rlE.
  Proof.
    destruct Rs as (A1 & A2 & A3 & A4). destruct Re as (B1 & B2 & B3 & B4).
    destruct (iterate_is_posix_dates ms ws dds Hs Ms Ss y0 A1 A2 A3 A4 Hy0) as (rl1 & E1 & _).
    destruct (iterate_is_posix_dates me we dde He Me Se y0 B1 B2 B3 B4 Hy0) as (rl2 & E2 & _).
    exists rl1, rl2. split; assumption.
  Qed.

  (* the component records tzical builds from such a VTIMEZONE: offsets, isdst and names from the
     TZOFFSETFROM / TZOFFSETTO / TZNAME lines (C17_parse_rfc_vtimezone), onsets from the rrule *)
  Definition rrule_comp_daylight rlS limit n : comp :=
    mkComp (map inst_code (fst (iterate rlS limit n))) (p_off z) (d_off ds) true (Some ds.(d_name)).
  Definition rrule_comp_standard rlE limit n : comp :=
    mkComp (map inst_code (fst (iterate rlE limit n))) (d_off ds) (p_off z) false (Some z.(p_name)).

  Hypothesis Hwf : wf_posix z = true.
  Hypothesis Hap : guard_apart z = true.

  (* posix's equivalence theorem with the RRULE-defined onsets *)
  Theorem ical_rrule_equiv_range rlS rlE limit n zone wl f cs :
    normalize rule_daylight = Ok rlS -> normalize rule_standard = Ok rlE ->
    zone_for z ds zone ->
    cs = [rrule_comp_daylight rlS limit n; rrule_comp_standard rlE limit n] \/
    cs = [rrule_comp_standard rlE limit n; rrule_comp_daylight rlS limit n] ->
    y0 < year_of_secs wl < y0 + Z.of_nat (years_yielded n limit 0 y0) ->
    ic_observe_wall cs wl f = observe_wall zone wl f.
  Proof.
    intros ES EE Hz Hcs Hy.
    destruct (rrule_onsets_are_posix_events rlS rlE limit n ES EE) as [O1 O2].
    unfold rrule_comp_daylight, rrule_comp_standard in Hcs. rewrite O1, O2 in Hcs.
    apply (ical_equiv_wall z ds Hdst Hwf Hap y0 (years_yielded n limit 0 y0) zone wl f cs Hz); [|exact Hy].
    unfold comp_daylight, comp_standard in *. cbn [c_onsets] in Hcs. exact Hcs.
  Qed.
End Ical.
