(* LINK (C17 <- C01), model side: through rr's headline theorem (the model of rrule.__init__ /
   _iter / _iterinfo yields the specification's sequence) the MODEL of the rrule a VTIMEZONE component
   states yields exactly the POSIX rule dates; instantiation of posix's VTIMEZONE components. *)
From Coq Require Import ZArith List Bool Lia ZifyBool.
From V Require Import base.Cal posix.PTime posix.PosixSpec posix.PosixThm.
From V Require Import rr.RRBase rr.RRNorm rr.RRIter rr.RRSpec rr.RRNoRaise rr.RRStripThm link.LinkSpec.
Import ListNotations.
Open Scope Z_scope.
Ltac Zify.zify_post_hook ::= Z.to_euclidean_division_equations.

Section Model.
  Variables m w d H M S y0 : Z.
  Hypothesis Hm : 1 <= m <= 12.
  Hypothesis Hw : 1 <= w <= 5.
  Hypothesis Hd : 0 <= d <= 6.
  Hypothesis Ht : valid_hms H M S = true.
  Hypothesis Hy0 : 1 <= y0 <= 9999.

  Local Notation r := (yearly_rule m w d H M S y0).

  Lemma yearly_rule_wf : spec_wf r = true.
  Proof.
    pose proof (mdate_in_month m w d y0 Hw Hd) as B. pose proof (dim_pos y0 m).
    unfold spec_wf, between, ne_opt, all_opt, sp_H0, sp_M0, sp_S0.
    cbn [yearly_rule r_freq r_interval r_wkst r_y r_m r_d r_isdate r_H r_M r_S r_until r_tzmix r_bysetpos
         r_bymonth r_bymonthday r_byyearday r_byeaster r_byweekno r_byweekday r_byhour r_byminute r_bysecond
         is_none negb andb forallb fst].
    rewrite Ht. unfold valid_ymd, rr_wd, YEARLY. lia.
  Qed.

  Lemma yearly_rule_guard n : coarse_guard_all r n.
  Proof.
    split; [exact yearly_rule_wf|]. split; [reflexivity|]. split; [reflexivity|]. left. reflexivity.
  Qed.

  (* THE LINK, model side *)
  Theorem iterate_is_posix_dates :
    exists rl, normalize r = Ok rl /\
      forall limit n, fst (iterate rl limit n) =
                      map (item m w d H M S) (PosixThm.zrange (years_yielded n limit 0 y0) y0).
  Proof.
    destruct (normalize_total_coarse r yearly_rule_wf eq_refl) as [rl E].
    exists rl. split; [exact E|]. intros limit n.
    rewrite (rrule_iter_correct_coarse_all r rl limit n E (yearly_rule_guard n)).
    apply (spec_iter_is_posix_dates m w d H M S y0 Hm Hw Hd Ht Hy0).
  Qed.

  (* the same, instant by instant: the k-th yielded instant is the rule date of year y0 + k *)
  Corollary iterate_nth rl limit n k : normalize r = Ok rl ->
    (k < years_yielded n limit 0 y0)%nat ->
    nth_error (fst (iterate rl limit n)) k = Some (mdate m w d (y0 + Z.of_nat k), tod H M S).
  Proof.
    intros E Hk. destruct iterate_is_posix_dates as (rl' & E' & K).
    assert (rl' = rl) by congruence. subst rl'. rewrite K.
    rewrite nth_error_map, nth_pzrange by exact Hk. reflexivity.
  Qed.

  (* as wall readings in seconds (posix/PTime.v): ordinal * 86400 + second of day *)
  Lemma inst_code_item y : inst_code (item m w d H M S y) = date_of (DM m w d) y * DAY + tod H M S.
  Proof. reflexivity. Qed.
End Model.
