(* Theorems tying the model REGENERATED from /repo/src/dateutil/easter.py (gen/EasterGen.v)
   to the independent specification.  The quantifier bounds are the property's own
   (documented validity ranges), so the finite reflection below is exhaustive. *)
From Coq Require Import ZArith List Bool Lia.
From V Require Import base.Cal gen.EasterGen easter.EasterSpec.
Open Scope Z_scope.

Definition zrange (lo hi : Z) : list Z := map (fun k => lo + Z.of_nat k) (seq 0 (Z.to_nat (hi - lo + 1))).

Lemma zrange_in lo hi y : lo <= y <= hi -> In y (zrange lo hi).
Proof.
  intros H. unfold zrange. apply in_map_iff. exists (Z.to_nat (y - lo)). split; [lia|].
  apply in_seq. lia.
Qed.

Lemma forall_range (P : Z -> bool) lo hi :
  forallb P (zrange lo hi) = true -> forall y, lo <= y <= hi -> P y = true.
Proof. intros H y Hy. rewrite forallb_forall in H. apply H, zrange_in, Hy. Qed.

Definition western_ok (y : Z) : bool :=
  match easter_gen y 3 with
  | Some (yy, m, d) =>
      let '(_, sm, sd) := spec_western y in
      (yy =? y) && (m =? sm) && (d =? sd) && is_sunday_ymd yy m d && in_mar22_apr25 m d
  | None => false
  end.

Definition julian_ok (y : Z) : bool :=
  match easter_gen y 1 with
  | Some (yy, m, d) =>
      let '(_, sm, sd) := spec_julian y in
      (yy =? y) && (m =? sm) && (d =? sd) && jdn_is_sunday (jdn_of_julian yy m d)
  | None => false
  end.

Definition orthodox_ok (y : Z) : bool :=
  match easter_gen y 2 with
  | Some (yy, m, d) =>
      let '(sy, sm, sd) := spec_orthodox y in
      (yy =? sy) && (m =? sm) && (d =? sd) && is_sunday_ymd yy m d
  | None => false
  end.

Lemma western_all : forall y, 1583 <= y <= 4099 -> western_ok y = true.
Proof. apply forall_range. vm_compute. reflexivity. Qed.

Lemma julian_all : forall y, 326 <= y <= 9999 -> julian_ok y = true.
Proof. apply forall_range. vm_compute. reflexivity. Qed.

Lemma orthodox_all : forall y, 1583 <= y <= 4099 -> orthodox_ok y = true.
Proof. apply forall_range. vm_compute. reflexivity. Qed.

Lemma easter_western_lemma : forall y, 1583 <= y <= 4099 ->
  exists m d, easter_gen y 3 = Some (y, m, d) /\ (m, d) = mjb y /\
              weekday y m d = 6 /\ in_mar22_apr25 m d = true.
Proof.
  intros y Hy. pose proof (western_all y Hy) as H. unfold western_ok, spec_western in H.
  destruct (easter_gen y 3) as [[[yy m] d]|]; [|discriminate].
  destruct (mjb y) as [sm sd].
  unfold is_sunday_ymd in H.
  repeat (apply andb_prop in H; destruct H as [H ?]).
  repeat match goal with E : (_ =? _) = true |- _ => apply Z.eqb_eq in E end. subst.
  exists sm, sd. auto.
Qed.

Lemma easter_julian_lemma : forall y, 326 <= y <= 9999 ->
  exists m d, easter_gen y 1 = Some (y, m, d) /\ (m, d) = meeus_julian y /\
              jdn_is_sunday (jdn_of_julian y m d) = true.
Proof.
  intros y Hy. pose proof (julian_all y Hy) as H. unfold julian_ok, spec_julian in H.
  destruct (easter_gen y 1) as [[[yy m] d]|]; [|discriminate].
  destruct (meeus_julian y) as [sm sd].
  repeat (apply andb_prop in H; destruct H as [H ?]).
  repeat match goal with E : (_ =? _) = true |- _ => apply Z.eqb_eq in E end. subst.
  exists sm, sd. auto.
Qed.

Lemma easter_orthodox_lemma : forall y, 1583 <= y <= 4099 ->
  exists gy gm gd, easter_gen y 2 = Some (gy, gm, gd) /\
    (gy, gm, gd) = (let '(m, d) := meeus_julian y in greg_of_julian y m d) /\
    weekday gy gm gd = 6.
Proof.
  intros y Hy. pose proof (orthodox_all y Hy) as H. unfold orthodox_ok in H.
  destruct (easter_gen y 2) as [[[yy m] d]|]; [|discriminate].
  unfold spec_orthodox in *. destruct (meeus_julian y) as [jm jd].
  destruct (greg_of_julian y jm jd) as [[sy sm] sd].
  unfold is_sunday_ymd in H.
  repeat (apply andb_prop in H; destruct H as [H ?]).
  repeat match goal with E : (_ =? _) = true |- _ => apply Z.eqb_eq in E end. subst.
  exists sy, sm, sd. auto.
Qed.

(* unbounded: every other method value is rejected, for every year *)
Lemma easter_bad_method_lemma : forall y m, m < 1 \/ m > 3 -> easter_gen y m = None.
Proof.
  (* robust to the spelling of the validity test (range test or membership in the three constants):
     only the guard of the first `if ... then None` is analysed *)
  intros y m H. unfold easter_gen, EASTER_JULIAN, EASTER_ORTHODOX, EASTER_WESTERN.
  match goal with |- (if ?c then None else _) = None => assert (c = true) as -> end; [|reflexivity].
  repeat match goal with
         | |- context [?a <=? ?b] => destruct (Z.leb_spec a b)
         | |- context [?a =? ?b] => destruct (Z.eqb_spec a b)
         end; cbn [andb orb negb]; try reflexivity; lia.
Qed.

(* the generated function agrees with the executable spec on the whole documented domain *)
Lemma easter_gen_eq_spec_lemma : forall y m,
  ((m = 3 \/ m = 2) /\ 1583 <= y <= 4099) \/ (m = 1 /\ 326 <= y <= 9999) \/ m < 1 \/ m > 3 ->
  easter_gen y m = easter_spec y m.
Proof.
  intros y m [[[-> | ->] Hy] | [[-> Hy] | Hm]].
  - destruct (easter_western_lemma y Hy) as (mm & d & E & S & _). rewrite E.
    unfold easter_spec, spec_western. cbn [Z.eqb Pos.eqb]. rewrite <- S. reflexivity.
  - destruct (easter_orthodox_lemma y Hy) as (gy & gm & gd & E & S & _). rewrite E.
    unfold easter_spec, spec_orthodox. cbn [Z.eqb Pos.eqb]. rewrite <- S. reflexivity.
  - destruct (easter_julian_lemma y Hy) as (mm & d & E & S & _). rewrite E.
    unfold easter_spec, spec_julian. cbn [Z.eqb Pos.eqb]. rewrite <- S. reflexivity.
  - rewrite (easter_bad_method_lemma y m Hm). unfold easter_spec.
    destruct (m =? 1) eqn:E1; [lia|]. destruct (m =? 2) eqn:E2; [lia|].
    destruct (m =? 3) eqn:E3; [lia|]. reflexivity.
Qed.

(* the default method is the western one *)
Lemma easter_default_lemma : easter_default_method = 3.
Proof. reflexivity. Qed.
