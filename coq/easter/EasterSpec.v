(* Independent specification of Easter: Meeus/Jones/Butcher (Gregorian), Meeus (Julian),
   and the Julian -> Gregorian conversion through Julian Day Numbers. *)
From Coq Require Import ZArith List Bool Lia.
From V Require Import base.Cal.
Open Scope Z_scope.

(* Meeus/Jones/Butcher "anonymous Gregorian algorithm": (month, day) *)
Definition mjb (y : Z) : Z * Z :=
  let a := y mod 19 in let b := y / 100 in let c := y mod 100 in
  let d := b / 4 in let e := b mod 4 in let f := (b + 8) / 25 in
  let g := (b - f + 1) / 3 in
  let h := (19 * a + b - d - g + 15) mod 30 in
  let i := c / 4 in let k := c mod 4 in
  let l := (32 + 2 * e + 2 * i - h - k) mod 7 in
  let m := (a + 11 * h + 22 * l) / 451 in
  let t := h + l - 7 * m + 114 in
  (t / 31, t mod 31 + 1).

(* Meeus' Julian algorithm: (month, day) in the Julian calendar *)
Definition meeus_julian (y : Z) : Z * Z :=
  let a := y mod 4 in let b := y mod 7 in let c := y mod 19 in
  let d := (19 * c + 15) mod 30 in
  let e := (2 * a + 4 * b - d + 34) mod 7 in
  let t := d + e + 114 in
  (t / 31, t mod 31 + 1).

(* Julian Day Number of a Julian-calendar date *)
Definition jdn_of_julian (y m d : Z) : Z :=
  let a := (14 - m) / 12 in let yy := y + 4800 - a in let mm := m + 12 * a - 3 in
  d + (153 * mm + 2) / 5 + 365 * yy + yy / 4 - 32083.

(* proleptic Gregorian ordinal 1 (0001-01-01) is JDN 1721426 *)
Definition ord_of_jdn (j : Z) : Z := j - 1721425.

(* JDN 0 is a Monday, so Sunday is JDN mod 7 = 6 *)
Definition jdn_is_sunday (j : Z) : bool := j mod 7 =? 6.

Definition greg_of_julian (y m d : Z) : Z * Z * Z := ymd_of_ord (ord_of_jdn (jdn_of_julian y m d)).

Definition is_sunday_ymd (y m d : Z) : bool := weekday y m d =? 6.

Definition spec_western (y : Z) : Z * Z * Z := let '(m, d) := mjb y in (y, m, d).
Definition spec_julian (y : Z) : Z * Z * Z := let '(m, d) := meeus_julian y in (y, m, d).
Definition spec_orthodox (y : Z) : Z * Z * Z := let '(m, d) := meeus_julian y in greg_of_julian y m d.

Definition in_mar22_apr25 (m d : Z) : bool :=
  ((m =? 3) && (22 <=? d) && (d <=? 31)) || ((m =? 4) && (1 <=? d) && (d <=? 25)).

(* executable spec of the whole function: None = ValueError *)
Definition easter_spec (y method : Z) : option (Z * Z * Z) :=
  if method =? 1 then Some (spec_julian y)
  else if method =? 2 then Some (spec_orthodox y)
  else if method =? 3 then Some (spec_western y)
  else None.

(* sanity: the JDN bridge agrees with the ordinal calendar on a Gregorian date *)
Example jdn_bridge : ymd_of_ord (ord_of_jdn 2451545) = (2000, 1, 1).
Proof. reflexivity. Qed.
