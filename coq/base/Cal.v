(* Proleptic Gregorian calendar, as CPython's datetime implements it.
   Closed forms only (no recursion over years) so that [lia] with the
   euclidean-division hook decides the inversion lemmas. *)
From Coq Require Import ZArith List Bool Lia ZifyBool.
Ltac Zify.zify_post_hook ::= Z.to_euclidean_division_equations.
Open Scope Z_scope.

Definition is_leap (y : Z) : bool :=
  (y mod 4 =? 0) && (negb (y mod 100 =? 0) || (y mod 400 =? 0)).

Definition year_len (y : Z) : Z := if is_leap y then 366 else 365.

(* number of days before January 1st of year y (CPython _days_before_year) *)
Definition days_before_year (y : Z) : Z :=
  365 * (y - 1) + (y - 1) / 4 - (y - 1) / 100 + (y - 1) / 400.

(* days in month (calendar.monthrange(y, m)[1]) *)
Definition dim (y m : Z) : Z :=
  if m =? 2 then (if is_leap y then 29 else 28)
  else if (m =? 4) || (m =? 6) || (m =? 9) || (m =? 11) then 30 else 31.

(* days in year y before the first of month m, 1 <= m <= 13 *)
Definition dbm (y m : Z) : Z :=
  (367 * m - 362) / 12 - (if m <=? 2 then 0 else if is_leap y then 1 else 2).

Definition valid_ymd (y m d : Z) : bool :=
  (1 <=? y) && (y <=? 9999) && (1 <=? m) && (m <=? 12) && (1 <=? d) && (d <=? dim y m).

Definition ord_of_ymd (y m d : Z) : Z := days_before_year y + dbm y m + d.

Definition max_ord : Z := 3652059.

(* CPython _ord2ymd, year part *)
Definition year_of_ord (o : Z) : Z :=
  let n := o - 1 in
  let n400 := n / 146097 in let n := n mod 146097 in
  let n100 := n / 36524 in let n := n mod 36524 in
  let n4 := n / 1461 in let n := n mod 1461 in
  let n1 := n / 365 in
  let y := n400 * 400 + n100 * 100 + n4 * 4 + n1 + 1 in
  if (n1 =? 4) || (n100 =? 4) then y - 1 else y.

(* month containing 1-based day-of-year n of year y *)
Definition month_of_yday (y n : Z) : Z :=
  if n <=? dbm y 2 then 1 else if n <=? dbm y 3 then 2 else
  if n <=? dbm y 4 then 3 else if n <=? dbm y 5 then 4 else
  if n <=? dbm y 6 then 5 else if n <=? dbm y 7 then 6 else
  if n <=? dbm y 8 then 7 else if n <=? dbm y 9 then 8 else
  if n <=? dbm y 10 then 9 else if n <=? dbm y 11 then 10 else
  if n <=? dbm y 12 then 11 else 12.

Definition ymd_of_ord (o : Z) : Z * Z * Z :=
  let y := year_of_ord o in
  let n := o - days_before_year y in
  let m := month_of_yday y n in
  (y, m, n - dbm y m).

(* datetime.weekday(): Monday = 0 *)
Definition weekday_of_ord (o : Z) : Z := (o + 6) mod 7.
Definition weekday (y m d : Z) : Z := weekday_of_ord (ord_of_ymd y m d).
Definition yday (y m d : Z) : Z := dbm y m + d.

(* ISO 8601 week calendar (date.isocalendar) *)
Definition iso_week1_monday (y : Z) : Z :=
  let first := ord_of_ymd y 1 1 in
  let wd := weekday_of_ord first in
  let wk1 := first - wd in
  if 3 <? wd then wk1 + 7 else wk1.

Definition isocalendar (o : Z) : Z * Z * Z :=
  let y := year_of_ord o in
  let w1 := iso_week1_monday y in
  let '(y, w1) :=
    if o <? w1 then (y - 1, iso_week1_monday (y - 1))
    else if iso_week1_monday (y + 1) <=? o then (y + 1, iso_week1_monday (y + 1))
    else (y, w1) in
  (y, (o - w1) / 7 + 1, (o - w1) mod 7 + 1).

(* ------------------------------------------------------------------ *)
(* Lemmas *)

Lemma is_leap_cases y : is_leap y = true \/ is_leap y = false.
Proof. destruct (is_leap y); auto. Qed.

Lemma days_before_year_succ y :
  days_before_year (y + 1) = days_before_year y + year_len y.
Proof.
  unfold days_before_year, year_len, is_leap.
  destruct (y mod 4 =? 0) eqn:E4; destruct (y mod 100 =? 0) eqn:E100;
    destruct (y mod 400 =? 0) eqn:E400; cbn [andb orb negb]; lia.
Qed.

Lemma days_before_year_mono y1 y2 : y1 <= y2 -> days_before_year y1 <= days_before_year y2.
Proof. unfold days_before_year. lia. Qed.

Lemma days_before_year_strict y1 y2 : y1 < y2 -> days_before_year y1 + 365 <= days_before_year y2.
Proof.
  intros H. assert (H1 : days_before_year (y1 + 1) <= days_before_year y2)
    by (apply days_before_year_mono; lia).
  rewrite days_before_year_succ in H1. unfold year_len in H1.
  destruct (is_leap y1); lia.
Qed.

Lemma year_of_ord_spec o :
  days_before_year (year_of_ord o) < o <= days_before_year (year_of_ord o + 1).
Proof.
  unfold year_of_ord. cbv zeta.
  destruct (_ || _)%bool eqn:E; unfold days_before_year; lia.
Qed.

Lemma year_of_ord_unique o y :
  days_before_year y < o <= days_before_year (y + 1) -> year_of_ord o = y.
Proof.
  intros H. pose proof (year_of_ord_spec o) as S.
  destruct (Z.lt_trichotomy (year_of_ord o) y) as [L | [E | G]]; [| exact E |].
  - assert (days_before_year (year_of_ord o + 1) <= days_before_year y)
      by (apply days_before_year_mono; lia). lia.
  - assert (days_before_year (y + 1) <= days_before_year (year_of_ord o))
      by (apply days_before_year_mono; lia). lia.
Qed.

Lemma dbm_succ y m : 1 <= m <= 12 -> dbm y (m + 1) = dbm y m + dim y m.
Proof.
  intros H. assert (C : m = 1 \/ m = 2 \/ m = 3 \/ m = 4 \/ m = 5 \/ m = 6 \/ m = 7 \/
    m = 8 \/ m = 9 \/ m = 10 \/ m = 11 \/ m = 12) by lia.
  unfold dbm, dim.
  repeat (destruct C as [C | C]; [subst m; destruct (is_leap y); reflexivity |]).
  subst m; destruct (is_leap y); reflexivity.
Qed.

Lemma dbm_13 y : dbm y 13 = year_len y.
Proof. unfold dbm, year_len. destruct (is_leap y); reflexivity. Qed.

Lemma dbm_1 y : dbm y 1 = 0.
Proof. reflexivity. Qed.

Lemma dim_pos y m : 28 <= dim y m <= 31.
Proof.
  unfold dim. destruct (m =? 2); [destruct (is_leap y); lia|].
  destruct (_ || _)%bool; lia.
Qed.

Lemma dbm_mono y m1 m2 : 1 <= m1 -> m1 <= m2 -> m2 <= 13 -> dbm y m1 <= dbm y m2.
Proof.
  intros. unfold dbm. destruct (Z.leb_spec m1 2); destruct (Z.leb_spec m2 2);
  destruct (is_leap y); lia.
Qed.

Lemma dbm_table y :
  dbm y 1 = 0 /\ dbm y 2 = 31 /\
  forall k, 3 <= k <= 13 -> dbm y k = (367 * k - 362) / 12 - (if is_leap y then 1 else 2).
Proof.
  split; [reflexivity|]. split; [reflexivity|]. intros k Hk. unfold dbm.
  destruct (Z.leb_spec k 2); [lia|reflexivity].
Qed.

Lemma month_of_yday_spec y n :
  1 <= n <= year_len y ->
  let m := month_of_yday y n in 1 <= m <= 12 /\ dbm y m < n <= dbm y (m + 1).
Proof.
  intros H. unfold month_of_yday, year_len in *.
  destruct (dbm_table y) as (D1 & D2 & D).
  pose proof (D 3 ltac:(lia)) as D3. pose proof (D 4 ltac:(lia)) as D4.
  pose proof (D 5 ltac:(lia)) as D5. pose proof (D 6 ltac:(lia)) as D6.
  pose proof (D 7 ltac:(lia)) as D7. pose proof (D 8 ltac:(lia)) as D8.
  pose proof (D 9 ltac:(lia)) as D9. pose proof (D 10 ltac:(lia)) as D10.
  pose proof (D 11 ltac:(lia)) as D11. pose proof (D 12 ltac:(lia)) as D12.
  pose proof (D 13 ltac:(lia)) as D13. clear D.
  cbv zeta.
  destruct (is_leap y) eqn:L;
  repeat match goal with
  | |- context [if ?a <=? ?b then _ else _] => destruct (Z.leb_spec a b)
  end; cbn [Z.add Pos.add Pos.succ]; lia.
Qed.

Lemma month_of_yday_unique y n m :
  1 <= m <= 12 -> dbm y m < n <= dbm y (m + 1) -> month_of_yday y n = m.
Proof.
  intros Hm H.
  assert (Hn : 1 <= n <= year_len y).
  { pose proof (dbm_mono y 1 m). pose proof (dbm_mono y (m+1) 13). rewrite dbm_13, dbm_1 in *. lia. }
  pose proof (month_of_yday_spec y n Hn) as S. cbv zeta in S.
  set (m' := month_of_yday y n) in *. destruct S as [S1 S2].
  destruct (Z.lt_trichotomy m' m) as [L | [E | G]]; [| exact E |].
  - pose proof (dbm_mono y (m'+1) m). lia.
  - pose proof (dbm_mono y (m+1) m'). lia.
Qed.

Theorem ymd_of_ord_of_ymd y m d :
  1 <= m <= 12 -> 1 <= d <= dim y m -> ymd_of_ord (ord_of_ymd y m d) = (y, m, d).
Proof.
  intros Hm Hd. unfold ymd_of_ord, ord_of_ymd.
  assert (Hy : year_of_ord (days_before_year y + dbm y m + d) = y).
  { apply year_of_ord_unique. rewrite days_before_year_succ.
    pose proof (dbm_mono y 1 m). pose proof (dbm_mono y (m+1) 13).
    rewrite dbm_13, dbm_1 in *. pose proof (dbm_succ y m Hm). lia. }
  rewrite Hy.
  replace (days_before_year y + dbm y m + d - days_before_year y) with (dbm y m + d) by lia.
  assert (Hmm : month_of_yday y (dbm y m + d) = m).
  { apply month_of_yday_unique; [exact Hm|]. rewrite (dbm_succ y m Hm). lia. }
  rewrite Hmm. f_equal. lia.
Qed.

Theorem ord_of_ymd_of_ord o :
  let '(y, m, d) := ymd_of_ord o in
  ord_of_ymd y m d = o /\ 1 <= m <= 12 /\ 1 <= d <= dim y m.
Proof.
  unfold ymd_of_ord, ord_of_ymd.
  pose proof (year_of_ord_spec o) as S. set (y := year_of_ord o) in *.
  rewrite days_before_year_succ in S.
  assert (Hn : 1 <= o - days_before_year y <= year_len y) by lia.
  pose proof (month_of_yday_spec y _ Hn) as M. cbv zeta in M.
  set (m := month_of_yday y (o - days_before_year y)) in *.
  destruct M as [M1 M2]. rewrite (dbm_succ y m M1) in M2. lia.
Qed.

Lemma ord_of_ymd_range y m d :
  valid_ymd y m d = true -> 1 <= ord_of_ymd y m d <= max_ord.
Proof.
  unfold valid_ymd. intros H.
  assert (Hy : 1 <= y <= 9999) by lia. assert (Hm : 1 <= m <= 12) by lia.
  assert (Hd : 1 <= d <= dim y m) by lia. clear H.
  unfold ord_of_ymd, max_ord.
  pose proof (dbm_mono y 1 m). pose proof (dbm_mono y (m+1) 13).
  rewrite dbm_13, dbm_1 in *. pose proof (dbm_succ y m Hm).
  assert (days_before_year 1 <= days_before_year y) by (apply days_before_year_mono; lia).
  assert (days_before_year (y+1) <= days_before_year 10000) by (apply days_before_year_mono; lia).
  rewrite days_before_year_succ in *.
  change (days_before_year 1) with 0 in *. change (days_before_year 10000) with 3652059 in *.
  lia.
Qed.

Lemma weekday_of_ord_range o : 0 <= weekday_of_ord o <= 6.
Proof. unfold weekday_of_ord. lia. Qed.

Lemma weekday_of_ord_add7 o : weekday_of_ord (o + 7) = weekday_of_ord o.
Proof. unfold weekday_of_ord. lia. Qed.

(* 400-year periodicity *)
Lemma is_leap_400 y : is_leap (y + 400) = is_leap y.
Proof. unfold is_leap.
  replace ((y + 400) mod 4) with (y mod 4) by lia.
  replace ((y + 400) mod 100) with (y mod 100) by lia.
  replace ((y + 400) mod 400) with (y mod 400) by lia. reflexivity.
Qed.

Lemma days_before_year_400 y : days_before_year (y + 400) = days_before_year y + 146097.
Proof. unfold days_before_year. lia. Qed.

Lemma weekday_400 y m d : weekday (y + 400) m d = weekday y m d.
Proof.
  unfold weekday, ord_of_ymd, weekday_of_ord, dbm.
  rewrite days_before_year_400, is_leap_400. lia.
Qed.
