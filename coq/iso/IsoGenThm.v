(* The functions generated from /repo/src/dateutil/parser/isoparser.py by harness/gen_iso.py
   (coq/gen/IsoGen.v, regenerated on every check) ARE the hand model (iso/IsoModel.v), for all
   inputs.  Every theorem about the model (IsoThm*.v) therefore speaks about the translated source;
   a change of the source changes IsoGen.v (or aborts the translator) and breaks an obligation here. *)
From Coq Require Import ZArith List Bool Lia ZifyBool.
From V Require Import base.Cal iso.IsoBase iso.IsoModel iso.IsoGenLib gen.IsoGen iso.IsoThmTz iso.IsoThmTime.
Import ListNotations.
Open Scope Z_scope.
(* ------------------------------------------------------------------ slices and lengths *)

Lemma zsl_sl s a b : 0 <= a -> 0 <= b -> zsl s a (Some b) = sl s (Z.to_nat a) (Z.to_nat b).
Proof.
  intros Ha Hb. unfold zsl, sl, clamp_idx, zlen.
  replace (a <? 0) with false by lia. replace (b <? 0) with false by lia.
  set (n := length s). assert (Hn : n = length s) by reflexivity. clearbody n.
  destruct (Z_lt_le_dec a (Z.of_nat n)) as [La|La].
  - rewrite (Z.min_l a) by lia.
    destruct (Z_lt_le_dec b (Z.of_nat n)) as [Lb|Lb].
    + rewrite (Z.min_l b) by lia. f_equal. lia.
    + rewrite (Z.min_r b) by lia.
      rewrite !firstn_all2; try reflexivity; rewrite skipn_length; lia.
  - rewrite (Z.min_r a) by lia.
    rewrite (skipn_all2 s (n := Z.to_nat a)) by lia.
    rewrite (skipn_all2 s (n := Z.to_nat (Z.of_nat n))) by lia.
    now rewrite !firstn_nil.
Qed.

Lemma zsl_none s a : 0 <= a -> zsl s a None = skipn (Z.to_nat a) s.
Proof.
  intros Ha. unfold zsl, clamp_idx, zlen. replace (a <? 0) with false by lia.
  set (n := length s). assert (Hn : n = length s) by reflexivity. clearbody n.
  destruct (Z_lt_le_dec a (Z.of_nat n)) as [La|La].
  - rewrite (Z.min_l a) by lia. apply firstn_all2. rewrite skipn_length. lia.
  - rewrite (Z.min_r a) by lia. rewrite (skipn_all2 s (n := Z.to_nat a)) by lia.
    rewrite (skipn_all2 s (n := Z.to_nat (Z.of_nat n))) by lia. apply firstn_nil.
Qed.

Lemma to_nat_if (c : bool) a b : Z.to_nat (if c then a else b) = if c then Z.to_nat a else Z.to_nat b.
Proof. now destruct c. Qed.

(* literal bounds: compute the nat *)
Ltac nonneg := first [lia | match goal with |- context [if ?c then _ else _] => destruct c end; lia].
Ltac slices :=
  repeat match goal with
  | |- context [zsl ?s ?a (Some ?b)] => rewrite (zsl_sl s a b) by nonneg
  | |- context [zsl ?s ?a None] => rewrite (zsl_none s a) by nonneg
  end;
  rewrite ?to_nat_if;
  repeat match goal with
  | |- context [Z.to_nat ?a] =>
      match a with
      | Zpos _ => let n := eval vm_compute in (Z.to_nat a) in change (Z.to_nat a) with n
      | Z0 => change (Z.to_nat 0) with 0%nat
      end
  end.

(* ------------------------------------------------------------------ _parse_digits *)

Theorem gen_parse_digits_eq field width : 0 <= width ->
  gen__parse_digits field width = parse_digits field (Z.to_nat width).
Proof.
  intros H. unfold gen__parse_digits, parse_digits, py_int, zlen.
  replace (Z.of_nat (length field) =? width) with (Nat.eqb (length field) (Z.to_nat width)).
  2:{ destruct (Nat.eqb (length field) (Z.to_nat width)) eqn:E;
        [apply Nat.eqb_eq in E | apply Nat.eqb_neq in E]; lia. }
  destruct (Nat.eqb (length field) (Z.to_nat width)); cbn [negb orb]; [|reflexivity].
  destruct (isdigit field); reflexivity.
Qed.

Ltac digits :=
  repeat match goal with
  | |- context [gen__parse_digits ?f ?w] => rewrite (gen_parse_digits_eq f w) by lia;
      let n := eval vm_compute in (Z.to_nat w) in change (Z.to_nat w) with n
  end.

(* case analysis shared by both sides; inconsistent combinations are arithmetic contradictions *)
Ltac contra := try (exfalso; unfold zlen in *; lia).
Ltac gsame :=
  repeat (cbn [bind];
          match goal with
          | |- ?x = ?x => reflexivity
          | |- context [parse_digits ?a ?b] => destruct (parse_digits a b) eqn:?
          | |- context [if ?c then _ else _] => destruct c eqn:?; contra
          end);
  try reflexivity; contra.

(* ------------------------------------------------------------------ _parse_tzstr *)

Theorem gen_parse_tzstr_raw_eq t z : gen__parse_tzstr t z = parse_tzstr_raw t z.
Proof.
  unfold gen__parse_tzstr, parse_tzstr_raw. cbv zeta. slices. digits.
  unfold TIME_SEP, cDASH, cPLUS, cCOLON, cZ, cz. rewrite !Z.gtb_ltb.
  Time gsame.
Qed.

(* ------------------------------------------------------------------ _calculate_weekdate *)

Theorem gen_calculate_weekdate_eq y w d : gen__calculate_weekdate y w d = calculate_weekdate y w d.
Proof.
  unfold gen__calculate_weekdate, calculate_weekdate, mk_date.
  destruct (negb ((0 <? w) && (w <? 54))); [reflexivity|].
  destruct (negb ((0 <? d) && (d <? 8))); [reflexivity|].
  destruct (valid_ymd y 1 4); cbn [bind]; [|reflexivity].
  unfold iso_idx at 1. destruct (isocalendar (ord_of_ymd y 1 4)) as [[a b] c].
  change (if 2 =? 0 then a else if 2 =? 1 then b else c) with c.
  destruct (date_add_days (y, 1, 4) (- (c - 1))) as [w1|e]; cbn [bind]; [|reflexivity].
  destruct (date_add_days w1 ((w - 1) * 7 + (d - 1))) as [[[ry rm] rd]|e]; cbn [bind try_except].
  - unfold iso_idx. destruct (isocalendar (ord_of_ymd ry rm rd)) as [[a' b'] c'].
    change (if 1 =? 0 then a' else if 1 =? 1 then b' else c') with b'. reflexivity.
  - destruct e; reflexivity.
Qed.

(* ------------------------------------------------------------------ the date scanners *)

(* the generated scanners count positions in Z, the hand model in nat *)
Definition pmap {A} (r : res (A * nat)) : res (A * Z) :=
  match r with Ok (a, p) => Ok (a, Z.of_nat p) | Err e => Err e end.

Ltac is_num a := lazymatch a with Zpos _ => idtac | Z0 => idtac | Zneg _ => idtac end.
Ltac fold_lits :=
  repeat match goal with
  | |- context [Z.add ?a ?b] =>
      is_num a; is_num b; let r := eval vm_compute in (Z.add a b) in change (Z.add a b) with r
  end.

Ltac noif t := lazymatch t with context [if _ then _ else _] => fail | _ => idtac end.
Ltac gsame2 :=
  repeat (cbn [bind pmap Nat.add];
          match goal with
          | |- ?x = ?x => reflexivity
          | |- context [if ?c then _ else _] => noif c; destruct c eqn:?; contra
          | |- context [parse_digits ?a ?b] => noif a; destruct (parse_digits a b) eqn:?
          end);
  try reflexivity; contra.

Theorem gen_parse_isodate_common_eq s : gen__parse_isodate_common s = pmap (parse_isodate_common s).
Proof.
  unfold gen__parse_isodate_common, parse_isodate_common. cbv zeta. unfold b2z, DATE_SEP, cDASH.
  fold_lits. slices. digits.
  Time gsame2.
Qed.

Ltac gsame3 :=
  repeat (cbn [bind pmap Nat.add try_except]; rewrite ?gen_calculate_weekdate_eq;
          match goal with
          | |- ?x = ?x => reflexivity
          | |- context [if ?c then _ else _] => noif c; destruct c eqn:?; contra
          | |- context [parse_digits ?a ?b] => noif a; destruct (parse_digits a b) eqn:?
          | |- context [bind ?x _] =>
              lazymatch x with Ok _ => fail | Err _ => fail | _ => noif x; destruct x eqn:? end
          end);
  repeat match goal with d : date3 |- _ => destruct d as [[? ?] ?] end;
  try reflexivity; contra.

Theorem gen_parse_isodate_uncommon_eq s : gen__parse_isodate_uncommon s = pmap (parse_isodate_uncommon s).
Proof.
  unfold gen__parse_isodate_uncommon, parse_isodate_uncommon. cbv zeta.
  unfold DATE_SEP, cDASH, cW. rewrite !Z.gtb_ltb.
  destruct (zlen s <? 4) eqn:L4; [replace (length s <? 4)%nat with true by (unfold zlen in *; lia); reflexivity|].
  replace (length s <? 4)%nat with false by (unfold zlen in *; lia).
  slices. digits. destruct (parse_digits (sl s 0 4) 4) as [year|e]; cbn [bind pmap]; [|reflexivity].
  destruct (beq (sl s 4 5) [45]) eqn:HS; unfold b2z; fold_lits; slices; digits; cbn [Nat.add];
    repeat rewrite gen_calculate_weekdate_eq.
  all: gsame3.
Qed.

Theorem gen_parse_isodate_raw_eq s : gen__parse_isodate s = pmap (parse_isodate_raw s).
Proof.
  unfold gen__parse_isodate, parse_isodate_raw.
  rewrite gen_parse_isodate_common_eq, gen_parse_isodate_uncommon_eq.
  destruct (parse_isodate_common s) as [[[[y m] d] p]|e]; cbn [pmap bind try_except]; [reflexivity|].
  destruct e; cbn [err_eqb]; try reflexivity.
  destruct (parse_isodate_uncommon s) as [[[[y m] d] p]|e]; reflexivity.
Qed.

Lemma bind_ok {A} (x : res A) : bind x (fun a => Ok a) = x.
Proof. destruct x; reflexivity. Qed.

(* ------------------------------------------------------------------ the decorator _takes_ascii *)

Lemma existsb_ge128 l : existsb (fun b => 128 <=? b) l = negb (all_ascii l).
Proof.
  unfold all_ascii. induction l as [|c l IH]; [reflexivity|]. cbn [existsb forallb]. rewrite IH.
  destruct (128 <=? c) eqn:E1, (c <? 128) eqn:E2; contra; reflexivity.
Qed.

(* str, bytes, and streams of either: after the decorator only the characters matter *)
Theorem gen_takes_ascii_eq {A} (i : pyin) (f : list Z -> res A) :
  gen_takes_ascii i f = takes_ascii (codes i) f.
Proof.
  unfold gen_takes_ascii, takes_ascii, codes. destruct (read_in i) as [l|l].
  - unfold encode_ascii. destruct (all_ascii l); reflexivity.
  - rewrite existsb_ge128. destruct (all_ascii l); reflexivity.
Qed.

(* ------------------------------------------------------------------ public entry points (dates, offsets) *)

Theorem gen_parse_tzstr_eq i z : gen_parse_tzstr i z = parse_tzstr (codes i) z.
Proof.
  unfold gen_parse_tzstr. rewrite gen_takes_ascii_eq. generalize (codes i) as s. intros s.
  unfold parse_tzstr, takes_ascii. destruct (all_ascii s); [|reflexivity].
  rewrite gen_parse_tzstr_raw_eq. apply bind_ok.
Qed.

Theorem gen_parse_isodate_eq i : gen_parse_isodate i = parse_isodate (codes i).
Proof.
  unfold gen_parse_isodate. rewrite gen_takes_ascii_eq. generalize (codes i) as s. intros s.
  unfold parse_isodate, takes_ascii. destruct (all_ascii s); [|reflexivity].
  rewrite gen_parse_isodate_raw_eq.
  destruct (parse_isodate_raw s) as [[[[y m] d] p]|e]; cbn [pmap bind]; [|reflexivity].
  destruct (Z.of_nat p <? zlen s) eqn:E1, (p <? length s)%nat eqn:E2; contra; try reflexivity.
  apply bind_ok.
Qed.
(* ------------------------------------------------------------------ _parse_isotime *)

Definition gstate : Type := (list Z * Z * Z * Z * Z * Z * tzv * Z * Z * bool)%type.
(* what the code after the loop reads from the final state *)
Definition gproj (r : res gstate) : res (list Z * Z * Z * (Z * Z * Z) * Z * tzv) :=
  match r with
  | Ok (t, l, h, m, s, us, tz, p, _, _) => Ok (t, l, p, (h, m, s), us, tz)
  | Err e => Err e
  end.
Definition zmap (t : list Z) (r : res (nat * (Z * Z * Z) * Z * tzv)) :
  res (list Z * Z * Z * (Z * Z * Z) * Z * tzv) :=
  match r with
  | Ok (p, hms, us, tz) => Ok (t, zlen t, Z.of_nat p, hms, us, tz)
  | Err e => Err e
  end.

Lemma zsl_nat t p k : 0 <= k -> zsl t (Z.of_nat p) (Some (Z.of_nat p + k)) = sl t p (p + Z.to_nat k).
Proof. intros H. rewrite zsl_sl by lia. f_equal; lia. Qed.
Lemma zsl_nat_none t p : zsl t (Z.of_nat p) None = skipn p t.
Proof. rewrite zsl_none by lia. f_equal. lia. Qed.
Lemma of_nat_plus p k : 0 <= k -> Z.of_nat p + k = Z.of_nat (p + Z.to_nat k).
Proof. lia. Qed.

Lemma frac_match_digits r ds : frac_match r = Some ds -> isdigit (firstn 6 ds) = true.
Proof.
  unfold frac_match. destruct r as [|c r]; [discriminate|].
  destruct ((c =? cDOT) || (c =? cCOMMA)); [|discriminate].
  destruct (span_digits r) as [d rest] eqn:SD. cbn [fst].
  destruct (span_digits_spec _ _ _ SD) as [_ D].
  destruct d as [|x d]; [discriminate|]. intros [= <-].
  unfold isdigit. cbn [firstn]. 
  rewrite <- (firstn_skipn 6 (x :: d)), forallb_app in D. apply andb_true_iff in D as [D _]. exact D.
Qed.

Lemma gproj_bind {A} (x : res A) f : gproj (bind x f) = bind x (fun a => gproj (f a)).
Proof. destruct x; reflexivity. Qed.

Lemma zsl_nn t a b : zsl t (Z.of_nat a) (Some (Z.of_nat b)) = sl t a b.
Proof. rewrite zsl_sl by lia. f_equal; lia. Qed.
Lemma of_nat_frac p ds : Z.of_nat p + (1 + zlen ds) = Z.of_nat (p + (1 + length ds)).
Proof. unfold zlen. lia. Qed.

Ltac fold_cmps :=
  repeat match goal with
  | |- context [Z.eqb ?a ?b] => is_num a; is_num b;
      let r := eval vm_compute in (Z.eqb a b) in change (Z.eqb a b) with r
  | |- context [Z.ltb ?a ?b] => is_num a; is_num b;
      let r := eval vm_compute in (Z.ltb a b) in change (Z.ltb a b) with r
  end.

Ltac loop_leaf IH :=
  match goal with
  | |- gproj (gen__parse_isotime_loop _ _ _ _ _ _ _ _ (Z.of_nat ?p) _ _) = zmap _ (time_loop _ _ ?q _ _ _ _ _) =>
      replace q with p by lia; apply IH; lia
  end.

Ltac loop_go IH :=
  repeat (cbn [bind gproj zmap andb orb negb set_comp]; fold_lits; fold_cmps;
          first
          [ reflexivity
          | loop_leaf IH
          | match goal with
            | |- context [if ?c then _ else _] => noif c; destruct c eqn:?; contra
            | |- context [parse_digits ?a ?b] => noif a; destruct (parse_digits a b) eqn:?
            | |- context [parse_tzstr_raw ?a ?b] => destruct (parse_tzstr_raw a b) eqn:?
            | |- context [frac_match ?a] =>
                let FM := fresh "FM" in
                destruct (frac_match a) as [?ds|] eqn:FM;
                [ let D := fresh "D" in pose proof (frac_match_digits _ _ FM) as D;
                  unfold py_int; rewrite ?(zsl_sl _ 0 6) by lia;
                  change (Z.to_nat 0) with 0%nat; change (Z.to_nat 6) with 6%nat;
                  unfold sl; cbn [Nat.sub skipn]; rewrite ?D, ?of_nat_frac; unfold zlen
                | ]
            end ]).

Theorem gen_loop_eq fuel : forall t pos comp hs h m s us tz, -1 <= comp ->
  gproj (gen__parse_isotime_loop fuel t (zlen t) h m s us tz (Z.of_nat pos) comp hs) =
  zmap t (time_loop fuel t pos comp hs (h, m, s) us tz).
Proof.
  induction fuel as [|fuel IH]; intros t pos comp hs h m s us tz Hc.
  - cbn [gen__parse_isotime_loop time_loop].
    destruct ((Z.of_nat pos <? zlen t) && (comp <? 5)) eqn:E1,
             (negb ((pos <? length t)%nat && (comp <? 5))) eqn:E2; contra; reflexivity.
  - cbn [gen__parse_isotime_loop time_loop]. cbv zeta.
    destruct ((Z.of_nat pos <? zlen t) && (comp <? 5)) eqn:E1,
             (negb ((pos <? length t)%nat && (comp <? 5))) eqn:E2; contra; try reflexivity.
    rewrite !Z.gtb_ltb. unfold TIME_SEP, cDASH, cPLUS, cCOLON, cZ, cz.
    rewrite !(of_nat_plus _ 1), !(of_nat_plus _ 2) by lia.
    change (Z.to_nat 1) with 1%nat. change (Z.to_nat 2) with 2%nat.
    rewrite ?zsl_nn, ?zsl_nat_none. digits. rewrite ?gen_parse_tzstr_raw_eq.
    assert (C : comp = -1 \/ comp = 0 \/ comp = 1 \/ comp = 2 \/ comp = 3 \/ comp = 4) by lia.
    destruct C as [-> | [-> | [-> | [-> | [-> | ->]]]]].
    all: loop_go IH.
Qed.

Theorem gen_parse_isotime_raw_eq t : gen__parse_isotime t = parse_isotime_raw t.
Proof.
  unfold gen__parse_isotime, parse_isotime_raw. cbv zeta.
  destruct (zlen t <? 2) eqn:L1, (length t <? 2)%nat eqn:L2; contra; try reflexivity.
  pose proof (gen_loop_eq 6 t 0 (-1) false 0 0 0 0 TzNone ltac:(lia)) as G.
  change (Z.of_nat 0) with 0 in G.
  destruct (gen__parse_isotime_loop 6 t (zlen t) 0 0 0 0 TzNone 0 (-1) false)
    as [[[[[[[[[[t' l'] h] m] s] us] tz] p] c] hs']|e];
    destruct (time_loop 6 t 0 (-1) false (0, 0, 0) 0 TzNone) as [[[[p' [[h' m'] s']] us'] tz']|e'];
    cbn [gproj zmap] in G; try discriminate.
  - injection G as -> -> -> -> -> -> -> ->. cbn [bind].
    destruct (Z.of_nat p' <? zlen t) eqn:E1, (p' <? length t)%nat eqn:E2; contra; try reflexivity.
    destruct (h' =? 24); cbn [andb]; [|reflexivity].
    destruct (negb (m' =? 0) || negb (s' =? 0) || negb (us' =? 0)); reflexivity.
  - injection G as ->. reflexivity.
Qed.

Theorem gen_parse_isotime_eq i : gen_parse_isotime i = parse_isotime (codes i).
Proof.
  unfold gen_parse_isotime. rewrite gen_takes_ascii_eq. generalize (codes i) as s. intros s.
  unfold parse_isotime, takes_ascii. destruct (all_ascii s); [|reflexivity].
  rewrite gen_parse_isotime_raw_eq.
  destruct (parse_isotime_raw s) as [[[[[h m] sec] us] tz]|e]; cbn [bind]; [|reflexivity].
  destruct (h =? 24); apply bind_ok.
Qed.

(* ------------------------------------------------------------------ isoparse *)

Definition sep_bytes (sep : option Z) : option (list Z) := option_map (fun c => [c]) sep.

Theorem gen_isoparse_eq sep i : gen_isoparse (sep_bytes sep) i = isoparse sep (codes i).
Proof.
  unfold gen_isoparse. rewrite gen_takes_ascii_eq. generalize (codes i) as s. intros s.
  unfold isoparse, takes_ascii. destruct (all_ascii s); [|reflexivity].
  rewrite gen_parse_isodate_raw_eq.
  destruct (parse_isodate_raw s) as [[[[y m] d] p]|e]; cbn [pmap bind]; [|reflexivity].
  rewrite Z.gtb_ltb.
  destruct (Z.of_nat p <? zlen s) eqn:E1, (p <? length s)%nat eqn:E2; contra; cbn [bind].
  2:{ apply bind_ok. }
  rewrite (of_nat_plus p 1) by lia. change (Z.to_nat 1) with 1%nat.
  rewrite zsl_nn, zsl_nat_none, gen_parse_isotime_raw_eq.
  assert (S : is_none (sep_bytes sep) || beq_opt (sl s p (p + 1)) (sep_bytes sep) =
              match sep with None => true | Some c => beq (sl s p (p + 1)) [c] end)
    by (destruct sep; reflexivity).
  rewrite S. destruct (match sep with None => true | Some c => beq (sl s p (p + 1)) [c] end); [|reflexivity].
  destruct (parse_isotime_raw (skipn (p + 1) s)) as [[[[[h mi] sec] us] tz]|e]; cbn [bind]; [|reflexivity].
  destruct (h =? 24).
  - unfold mk_datetime. destruct (valid_ymd y m d && valid_hmsu 0 mi sec us); cbn [bind try_except]; [|reflexivity].
    unfold datetime_add_days. destruct (date_add_days (y, m, d) 1) as [[[y' m'] d']|e]; cbn [bind try_except].
    + reflexivity.
    + destruct e; reflexivity.
  - apply bind_ok.
Qed.

(* ------------------------------------------------------------------ input kinds *)

(* "str, bytes and stream inputs are equivalent": the result of every entry point depends only on the
   characters of the input, not on its kind (any configured separator, any flag) *)
Theorem gen_input_kinds sep i j z : codes i = codes j ->
  gen_isoparse sep i = gen_isoparse sep j /\ gen_parse_isodate i = gen_parse_isodate j /\
  gen_parse_isotime i = gen_parse_isotime j /\ gen_parse_tzstr i z = gen_parse_tzstr j z.
Proof.
  intros E. unfold gen_isoparse, gen_parse_isodate, gen_parse_isotime, gen_parse_tzstr.
  rewrite !gen_takes_ascii_eq, E. repeat split; reflexivity.
Qed.

Lemma codes_kinds l :
  codes (InDirect (PText l)) = l /\ codes (InDirect (PBytes l)) = l /\
  codes (InStream (PText l)) = l /\ codes (InStream (PBytes l)) = l.
Proof. repeat split; reflexivity. Qed.
