(* The property theorems restated for the functions translated from the source (coq/gen/IsoGen.v). *)
From Coq Require Import ZArith List Bool.
From V Require Import base.Cal iso.IsoBase iso.IsoModel iso.IsoSpec iso.IsoGenLib gen.IsoGen iso.IsoGenThm
                      iso.IsoThmTz iso.IsoThmTime iso.IsoThmMain iso.IsoThmRender.
Import ListNotations.
Open Scope Z_scope.

Theorem gen_isoparse_equiv sep i : gen_isoparse (sep_bytes sep) i = lift (iso_denotes sep (codes i)).
Proof. rewrite gen_isoparse_eq. apply isoparse_equiv. Qed.

Theorem gen_aux_equiv i z :
  gen_parse_isodate i = lift (date_denotes (codes i)) /\ gen_parse_isotime i = lift (time_denotes (codes i)) /\
  gen_parse_tzstr i z = lift (tzstr_denotes z (codes i)).
Proof.
  rewrite gen_parse_isodate_eq, gen_parse_isotime_eq, gen_parse_tzstr_eq.
  repeat split; [apply parse_isodate_equiv | apply parse_isotime_equiv | apply parse_tzstr_equiv].
Qed.

Theorem gen_isoparse_render f sep o dt :
  wf_fmt f sep o = true -> valid_dt dt = true ->
  forall i, codes i = render_iso f dt o -> gen_isoparse (sep_bytes sep) i = Ok (expected f dt o).
Proof. intros W V i E. rewrite gen_isoparse_eq, E. now apply isoparse_render. Qed.

Theorem gen_isoparse_2400 f sep o y m d :
  wf_fmt_2400 f sep o = true -> valid_ymd y m d = true ->
  forall i, codes i = render_iso_2400 f (y, m, d) o ->
  gen_isoparse (sep_bytes sep) i = lift (expected_2400 (y, m, d) o).
Proof. intros W V i E. rewrite gen_isoparse_eq, E. now apply isoparse_2400. Qed.
