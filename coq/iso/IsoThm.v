(* Theorems about the isoparser model: digit fields, offsets (more below as the file grows). *)
From Coq Require Import ZArith List Bool Lia ZifyBool.
From V Require Import base.Cal iso.IsoBase iso.IsoModel iso.IsoSpec.
Import ListNotations.
Open Scope Z_scope.
Ltac Zify.zify_post_hook ::= Z.to_euclidean_division_equations.

(* ------------------------------------------------------------------ ASCII gate *)

Lemma non_ascii_isoparse sep s : all_ascii s = false -> isoparse sep s = Err ValueError.
Proof. intros H. unfold isoparse, takes_ascii. now rewrite H. Qed.
Lemma non_ascii_parse_isodate s : all_ascii s = false -> parse_isodate s = Err ValueError.
Proof. intros H. unfold parse_isodate, takes_ascii. now rewrite H. Qed.
Lemma non_ascii_parse_isotime s : all_ascii s = false -> parse_isotime s = Err ValueError.
Proof. intros H. unfold parse_isotime, takes_ascii. now rewrite H. Qed.
Lemma non_ascii_parse_tzstr s z : all_ascii s = false -> parse_tzstr s z = Err ValueError.
Proof. intros H. unfold parse_tzstr, takes_ascii. now rewrite H. Qed.

Lemma non_ascii_rejected_lemma sep s :
  (exists c, In c s /\ 128 <= c) ->
  isoparse sep s = Err ValueError /\ parse_isodate s = Err ValueError /\
  parse_isotime s = Err ValueError /\ (forall z, parse_tzstr s z = Err ValueError) /\
  iso_denotes sep s = None.
Proof.
  intros [c [Hin Hc]].
  assert (H : all_ascii s = false).
  { unfold all_ascii. destruct (forallb (fun c => c <? 128) s) eqn:E; [|reflexivity].
    rewrite forallb_forall in E. specialize (E c Hin). lia. }
  repeat split.
  - now apply non_ascii_isoparse.
  - now apply non_ascii_parse_isodate.
  - now apply non_ascii_parse_isotime.
  - intros z. now apply non_ascii_parse_tzstr.
  - unfold iso_denotes. now rewrite H.
Qed.

(* ------------------------------------------------------------------ digit fields *)

Lemma digits_n_length k n : length (digits_n k n) = k.
Proof.
  revert n. induction k; intros n; cbn [digits_n]; [reflexivity|].
  rewrite app_length, IHk. cbn. lia.
Qed.

Lemma is_digit_mod n : is_digit (48 + n mod 10) = true.
Proof. unfold is_digit. lia. Qed.

Lemma digits_n_all_digit k n : forallb is_digit (digits_n k n) = true.
Proof.
  revert n. induction k; intros n; cbn [digits_n]; [reflexivity|].
  rewrite forallb_app, IHk. cbn [forallb]. now rewrite is_digit_mod.
Qed.

Lemma int_acc_app a l1 l2 : int_acc a (l1 ++ l2) = int_acc (int_acc a l1) l2.
Proof. unfold int_acc. apply fold_left_app. Qed.

Lemma int_acc_digits k : forall n a, 0 <= n < 10 ^ Z.of_nat k ->
  int_acc a (digits_n k n) = a * 10 ^ Z.of_nat k + n.
Proof.
  induction k; intros n a H.
  - cbn in *. lia.
  - cbn [digits_n]. rewrite int_acc_app.
    rewrite Nat2Z.inj_succ, Z.pow_succ_r in * by lia.
    rewrite IHk.
    + unfold int_acc. cbn [fold_left]. pose proof (Z.div_mod n 10). nia.
    + split; [apply Z.div_pos; lia|]. apply Z.div_lt_upper_bound; lia.
Qed.

Lemma isdigit_digits k n : (0 < k)%nat -> isdigit (digits_n k n) = true.
Proof.
  intros Hk. unfold isdigit. pose proof (digits_n_length k n) as L.
  destruct (digits_n k n) eqn:E; [cbn in L; lia|]. rewrite <- E. apply digits_n_all_digit.
Qed.

Lemma parse_digits_digits k n : (0 < k)%nat -> 0 <= n < 10 ^ Z.of_nat k ->
  parse_digits (digits_n k n) k = Ok n.
Proof.
  intros Hk Hn. unfold parse_digits.
  rewrite digits_n_length, Nat.eqb_refl, isdigit_digits by assumption. cbn [negb orb].
  rewrite int_acc_digits by assumption. f_equal; lia.
Qed.

Lemma num_acc_digits k : forall n a r, 0 <= n < 10 ^ Z.of_nat k ->
  num_acc k a (digits_n k n ++ r) = Some (a * 10 ^ Z.of_nat k + n, r).
Proof.
  (* digits_n is built at the tail: go through int_acc and an auxiliary statement on lists *)
  assert (G : forall (l : list Z) a r, forallb is_digit l = true ->
              num_acc (length l) a (l ++ r) = Some (int_acc a l, r)).
  { induction l as [|c l IH]; intros a r H; [reflexivity|].
    cbn [forallb] in H. apply andb_true_iff in H as [Hc Hl].
    cbn [length num_acc app]. rewrite Hc. rewrite IH by assumption. reflexivity. }
  intros n a r H. pose proof (G (digits_n k n) a r (digits_n_all_digit k n)) as E.
  rewrite digits_n_length in E. rewrite E. now rewrite int_acc_digits.
Qed.

(* ------------------------------------------------------------------ offsets: rendering *)

Lemma digits2 n : digits_n 2 n = [48 + n / 10 mod 10; 48 + n mod 10].
Proof. reflexivity. Qed.
Lemma dig_lt128 n : (48 + n mod 10 <? 128) = true.
Proof. lia. Qed.
Lemma dig_ne_colon n : (48 + n mod 10 =? cCOLON) = false.
Proof. unfold cCOLON. lia. Qed.

Lemma pd2 n : 0 <= n < 100 -> parse_digits [48 + n / 10 mod 10; 48 + n mod 10] 2 = Ok n.
Proof. intros H. rewrite <- digits2. apply parse_digits_digits; [lia|]. change (10 ^ Z.of_nat 2) with 100. lia. Qed.

Lemma parse_tzstr_render_lemma o :
  o <> ONone -> wf_off o = true -> parse_tzstr (render_off o) true = Ok (tz_of o).
Proof.
  intros Hn Hw. unfold parse_tzstr, takes_ascii.
  destruct o as [|lower|neg h|neg h m|neg h m]; [congruence| | | |].
  - destruct lower; reflexivity.
  - cbn [wf_off] in Hw. unfold render_off. rewrite digits2.
    destruct neg; cbn -[Z.mul Z.add Z.div Z.modulo];
    rewrite ?dig_lt128; cbn [andb]; rewrite pd2 by lia; cbn [bind];
    destruct (h =? 0) eqn:E; cbn [andb]; try reflexivity;
    (destruct (23 <? h) eqn:E2; [lia|]); do 2 f_equal; lia.
  - cbn [wf_off] in Hw. unfold render_off. rewrite !digits2.
    destruct neg; cbn -[Z.mul Z.add Z.div Z.modulo];
    rewrite ?dig_lt128; cbn [andb]; rewrite pd2 by lia; cbn [bind];
    rewrite dig_ne_colon; cbn [andb skipn]; rewrite pd2 by lia; cbn [bind];
    (destruct ((h =? 0) && (m =? 0)) eqn:E; [reflexivity|]);
    (destruct (59 <? m) eqn:E1; [lia|]); (destruct (23 <? h) eqn:E2; [lia|]); do 2 f_equal; lia.
  - cbn [wf_off] in Hw. unfold render_off. rewrite !digits2.
    destruct neg; cbn -[Z.mul Z.add Z.div Z.modulo];
    rewrite ?dig_lt128; cbn [andb]; rewrite pd2 by lia; cbn [bind skipn];
    rewrite pd2 by lia; cbn [bind];
    (destruct ((h =? 0) && (m =? 0)) eqn:E; [reflexivity|]);
    (destruct (59 <? m) eqn:E1; [lia|]); (destruct (23 <? h) eqn:E2; [lia|]); do 2 f_equal; lia.
Qed.
