(* Independent executable SPECIFICATION of the ISO-8601 forms dateutil's isoparser supports.

   Part A (C20): [iso_denotes sep s] -- a recogniser written as the grammar reads: a list of
     date forms and time forms, each a sequence of fixed-width ASCII-digit fields and literal
     separators consumed from the front of the input; range checks on the fields; the value
     denoted.  No positions, no slicing, no fallbacks.
   Part B (C07): [render_iso fmt dt off] -- the ISO-8601 rendering of a datetime in every
     supported form, [wf_fmt] (exactly the supported combinations), [expected] (the datetime
     truncated to the rendered precision).
   No proofs in this file. *)
From Coq Require Import ZArith List Bool.
From V Require Import base.Cal iso.IsoBase.
Import ListNotations.
Open Scope Z_scope.

(* ------------------------------------------------------------------------------------ *)
(* Part A: grammar                                                                       *)

(* a parser consumes a prefix of the input and returns a value and the remaining input *)
Definition P (A : Type) : Type := list Z -> option (A * list Z).

Definition pret {A} (a : A) : P A := fun s => Some (a, s).
Definition pbind {A B} (p : P A) (f : A -> P B) : P B :=
  fun s => match p s with Some (a, r) => f a r | None => None end.
Notation "x <- p ;; q" := (pbind p (fun x => q)) (at level 61, p at next level, right associativity).
Notation "p ;;; q" := (pbind p (fun _ => q)) (at level 61, right associativity).

(* exactly k ASCII digits: their decimal value *)
Fixpoint num_acc (k : nat) (a : Z) (s : list Z) : option (Z * list Z) :=
  match k with
  | O => Some (a, s)
  | S k' => match s with
            | c :: r => if is_digit c then num_acc k' (a * 10 + (c - 48)) r else None
            | [] => None
            end
  end.
Definition num (k : nat) : P Z := num_acc k 0.

(* one literal byte *)
Definition lit (c : Z) : P unit :=
  fun s => match s with x :: r => if x =? c then Some (tt, r) else None | [] => None end.

Fixpoint first_some {A} (l : list (option A)) : option A :=
  match l with
  | [] => None
  | Some a :: _ => Some a
  | None :: r => first_some r
  end.

(* ---- dates *)

Inductive rawdate :=
| RCal (y m d : Z)       (* calendar date  *)
| RWeek (y w d : Z)      (* ISO week date  *)
| ROrd (y n : Z).        (* ordinal date   *)

Inductive dform :=
| FYear                  (* YYYY            *)
| FMonth                 (* YYYY-MM         *)
| FCalX | FCalB          (* YYYY-MM-DD   YYYYMMDD *)
| FWeekX | FWeekB        (* YYYY-Www     YYYYWww  *)
| FWeekDayX | FWeekDayB  (* YYYY-Www-D   YYYYWwwD *)
| FOrdX | FOrdB.         (* YYYY-DDD     YYYYDDD  *)

Definition all_dforms : list dform :=
  [FYear; FMonth; FCalX; FCalB; FWeekX; FWeekB; FWeekDayX; FWeekDayB; FOrdX; FOrdB].

Definition date_fields (f : dform) : P rawdate :=
  match f with
  | FYear => y <- num 4 ;; pret (RCal y 1 1)
  | FMonth => y <- num 4 ;; lit cDASH ;;; m <- num 2 ;; pret (RCal y m 1)
  | FCalX => y <- num 4 ;; lit cDASH ;;; m <- num 2 ;; lit cDASH ;;; d <- num 2 ;; pret (RCal y m d)
  | FCalB => y <- num 4 ;; m <- num 2 ;; d <- num 2 ;; pret (RCal y m d)
  | FWeekX => y <- num 4 ;; lit cDASH ;;; lit cW ;;; w <- num 2 ;; pret (RWeek y w 1)
  | FWeekB => y <- num 4 ;; lit cW ;;; w <- num 2 ;; pret (RWeek y w 1)
  | FWeekDayX => y <- num 4 ;; lit cDASH ;;; lit cW ;;; w <- num 2 ;; lit cDASH ;;; d <- num 1 ;;
                 pret (RWeek y w d)
  | FWeekDayB => y <- num 4 ;; lit cW ;;; w <- num 2 ;; d <- num 1 ;; pret (RWeek y w d)
  | FOrdX => y <- num 4 ;; lit cDASH ;;; n <- num 3 ;; pret (ROrd y n)
  | FOrdB => y <- num 4 ;; n <- num 3 ;; pret (ROrd y n)
  end.

(* only complete dates may be followed by a time *)
Definition complete (f : dform) : bool :=
  match f with FCalX | FCalB | FWeekDayX | FWeekDayB | FOrdX | FOrdB => true | _ => false end.

Definition zrange (lo hi : Z) : list Z :=
  map (fun k => lo + Z.of_nat k) (seq 0 (Z.to_nat (hi - lo + 1))).

Definition triple_eqb (a b : Z * Z * Z) : bool :=
  let '(a1, a2, a3) := a in let '(b1, b2, b3) := b in (a1 =? b1) && (a2 =? b2) && (a3 =? b3).

(* the date of 0001-01-01 .. 9999-12-31 whose ISO calendar triple is (y, w, d), if there is one.
   Week 1 starts within 3 days of 1 January, so the date lies in a 13-day window. *)
Definition weekdate_of (y w d : Z) : option date3 :=
  let base := days_before_year y + 1 + 7 * (w - 1) in
  match find (fun k => let o := base + k in
                       (1 <=? o) && (o <=? max_ord) && triple_eqb (isocalendar o) (y, w, d))
             (zrange (-3) 9) with
  | Some k => Some (ymd_of_ord (base + k))
  | None => None
  end.

Definition date_value (r : rawdate) : option date3 :=
  match r with
  | RCal y m d => if valid_ymd y m d then Some (y, m, d) else None
  | RWeek y w d => weekdate_of y w d
  | ROrd y n =>
      if (1 <=? y) && (y <=? 9999) && (1 <=? n) && (n <=? year_len y)
      then Some (ymd_of_ord (days_before_year y + n)) else None
  end.

(* ---- offsets *)

Inductive oform := OfZ | Ofz | OfHH | OfHHMM | OfHH_MM.
Definition all_oforms : list oform := [OfZ; Ofz; OfHH; OfHHMM; OfHH_MM].

Definition sign : P Z :=
  fun s => match s with
           | c :: r => if c =? cPLUS then Some (1, r) else if c =? cDASH then Some (-1, r) else None
           | [] => None
           end.

(* (sign, hours, minutes); None = the UTC designator *)
Definition off_fields (f : oform) : P (option (Z * Z * Z)) :=
  match f with
  | OfZ => lit cZ ;;; pret None
  | Ofz => lit cz ;;; pret None
  | OfHH => sg <- sign ;; h <- num 2 ;; pret (Some (sg, h, 0))
  | OfHHMM => sg <- sign ;; h <- num 2 ;; m <- num 2 ;; pret (Some (sg, h, m))
  | OfHH_MM => sg <- sign ;; h <- num 2 ;; lit cCOLON ;;; m <- num 2 ;; pret (Some (sg, h, m))
  end.

Definition off_value (zero_as_utc : bool) (o : option (Z * Z * Z)) : option tzv :=
  match o with
  | None => Some TzUTC
  | Some (sg, h, m) =>
      if zero_as_utc && (h =? 0) && (m =? 0) then Some TzUTC
      else if (h <=? 23) && (m <=? 59) then Some (TzOff (sg * (h * 3600 + m * 60)))
      else None
  end.

(* the whole of t is one offset *)
Definition tz_reading (zero_as_utc : bool) (f : oform) (t : list Z) : option tzv :=
  match off_fields f t with
  | Some (o, []) => off_value zero_as_utc o
  | _ => None
  end.

Definition tz_denotes (zero_as_utc : bool) (t : list Z) : option tzv :=
  first_some (map (fun f => tz_reading zero_as_utc f t) all_oforms).

(* ---- times *)

Inductive tform := THour | TMinX | TMinB | TSecX | TSecB | TFracX | TFracB.
Definition all_tforms : list tform := [THour; TMinX; TMinB; TSecX; TSecB; TFracX; TFracB].

(* decimal fraction: '.' or ',' then one or more digits; value = whole microseconds of 0.ds *)
Definition frac_us (ds : list Z) : Z := int_acc 0 ds * 1000000 / 10 ^ Z.of_nat (length ds).

Definition frac : P Z :=
  fun s => match s with
           | c :: r =>
               if (c =? cDOT) || (c =? cCOMMA) then
                 match span_digits r with
                 | ([], _) => None
                 | (ds, rest) => Some (frac_us ds, rest)
                 end
               else None
           | [] => None
           end.

Definition time_fields (f : tform) : P (Z * Z * Z * Z) :=
  match f with
  | THour => h <- num 2 ;; pret (h, 0, 0, 0)
  | TMinX => h <- num 2 ;; lit cCOLON ;;; m <- num 2 ;; pret (h, m, 0, 0)
  | TMinB => h <- num 2 ;; m <- num 2 ;; pret (h, m, 0, 0)
  | TSecX => h <- num 2 ;; lit cCOLON ;;; m <- num 2 ;; lit cCOLON ;;; s <- num 2 ;; pret (h, m, s, 0)
  | TSecB => h <- num 2 ;; m <- num 2 ;; s <- num 2 ;; pret (h, m, s, 0)
  | TFracX => h <- num 2 ;; lit cCOLON ;;; m <- num 2 ;; lit cCOLON ;;; s <- num 2 ;; us <- frac ;;
              pret (h, m, s, us)
  | TFracB => h <- num 2 ;; m <- num 2 ;; s <- num 2 ;; us <- frac ;; pret (h, m, s, us)
  end.

(* clock range; 24 only as 24:00:00.000000.  The hour 24 is kept in the raw value. *)
Definition clock_ok (h m s us : Z) : bool :=
  if h =? 24 then (m =? 0) && (s =? 0) && (us =? 0) else valid_hmsu h m s us.

Definition time_reading (f : tform) (t : list Z) : option time5 :=
  match time_fields f t with
  | None => None
  | Some ((h, m, s, us), rest) =>
      match (match rest with [] => Some TzNone | _ => tz_denotes true rest end) with
      | None => None
      | Some tz => if clock_ok h m s us then Some (h, m, s, us, tz) else None
      end
  end.

(* raw: hour may be 24 *)
Definition time_denotes_raw (t : list Z) : option time5 :=
  first_some (map (fun f => time_reading f t) all_tforms).

(* ---- the four entry points *)

(* separator between date and time: the configured byte, or any single byte.  An ordinal
   basic date YYYYDDD cannot be followed by a digit (YYYYDDDd reads as YYYYMMDD). *)
Definition sep_ok (sep : option Z) (f : dform) (c : Z) : bool :=
  (match sep with None => true | Some x => c =? x end) &&
  negb ((match f with FOrdB => true | _ => false end) && is_digit c).

Definition combine (ymd : date3) (tm : time5) : option dt8 :=
  let '(y, m, d) := ymd in
  let '(h, mi, s, us, tz) := tm in
  if h =? 24 then
    (* midnight at the end of the day = 00:00 of the following day *)
    let o := ord_of_ymd y m d + 1 in
    if o <=? max_ord then
      let '(y', m', d') := ymd_of_ord o in Some (y', m', d', 0, mi, s, us, tz)
    else None
  else Some (y, m, d, h, mi, s, us, tz).

Definition reading (sep : option Z) (f : dform) (s : list Z) : option dt8 :=
  match date_fields f s with
  | None => None
  | Some (raw, rest) =>
      match rest with
      | [] => match date_value raw with
              | Some (y, m, d) => Some (y, m, d, 0, 0, 0, 0, TzNone)
              | None => None
              end
      | c :: t =>
          if complete f && sep_ok sep f c then
            match date_value raw, time_denotes_raw t with
            | Some ymd, Some tm => combine ymd tm
            | _, _ => None
            end
          else None
      end
  end.

Definition iso_denotes (sep : option Z) (s : list Z) : option dt8 :=
  if all_ascii s then first_some (map (fun f => reading sep f s) all_dforms) else None.

Definition date_reading (f : dform) (s : list Z) : option date3 :=
  match date_fields f s with
  | Some (raw, []) => date_value raw
  | _ => None
  end.

Definition date_denotes (s : list Z) : option date3 :=
  if all_ascii s then first_some (map (fun f => date_reading f s) all_dforms) else None.

(* time-only entry point: 24:00 is 00:00 *)
Definition time_denotes (s : list Z) : option time5 :=
  if all_ascii s then
    match time_denotes_raw s with
    | Some (h, m, sec, us, tz) => Some (if h =? 24 then 0 else h, m, sec, us, tz)
    | None => None
    end
  else None.

Definition tzstr_denotes (zero_as_utc : bool) (s : list Z) : option tzv :=
  if all_ascii s then tz_denotes zero_as_utc s else None.

(* ------------------------------------------------------------------------------------ *)
(* Part B: rendering                                                                     *)

(* k decimal digits of n, most significant first *)
Fixpoint digits_n (k : nat) (n : Z) : list Z :=
  match k with
  | O => []
  | S k' => digits_n k' (n / 10) ++ [48 + n mod 10]
  end.

Definition render_date (f : dform) (y m d : Z) : list Z :=
  let '(iy, iw, id) := isocalendar (ord_of_ymd y m d) in
  match f with
  | FYear => digits_n 4 y
  | FMonth => digits_n 4 y ++ [cDASH] ++ digits_n 2 m
  | FCalX => digits_n 4 y ++ [cDASH] ++ digits_n 2 m ++ [cDASH] ++ digits_n 2 d
  | FCalB => digits_n 4 y ++ digits_n 2 m ++ digits_n 2 d
  | FWeekX => digits_n 4 iy ++ [cDASH; cW] ++ digits_n 2 iw
  | FWeekB => digits_n 4 iy ++ [cW] ++ digits_n 2 iw
  | FWeekDayX => digits_n 4 iy ++ [cDASH; cW] ++ digits_n 2 iw ++ [cDASH] ++ digits_n 1 id
  | FWeekDayB => digits_n 4 iy ++ [cW] ++ digits_n 2 iw ++ digits_n 1 id
  | FOrdX => digits_n 4 y ++ [cDASH] ++ digits_n 3 (yday y m d)
  | FOrdB => digits_n 4 y ++ digits_n 3 (yday y m d)
  end.

(* the date truncated to the precision of the form *)
Definition trunc_date (f : dform) (y m d : Z) : date3 :=
  match f with
  | FYear => (y, 1, 1)
  | FMonth => (y, m, 1)
  | FWeekX | FWeekB =>
      let o := ord_of_ymd y m d in ymd_of_ord (o - weekday_of_ord o)    (* Monday of that week *)
  | _ => (y, m, d)
  end.

(* time rendering: form, decimal sign, number of fraction digits k >= 1, and for k > 6 the
   k - 6 digits (values 0..9) that follow the microseconds *)
Inductive tspec := TS (tf : tform) (comma : bool) (k : nat) (extra : list Z).

Definition render_frac (comma : bool) (k : nat) (extra : list Z) (us : Z) : list Z :=
  [if comma then cCOMMA else cDOT] ++ firstn k (digits_n 6 us) ++ map (fun e => 48 + e) extra.

Definition render_time (ts : tspec) (h mi s us : Z) : list Z :=
  let '(TS tf comma k extra) := ts in
  match tf with
  | THour => digits_n 2 h
  | TMinX => digits_n 2 h ++ [cCOLON] ++ digits_n 2 mi
  | TMinB => digits_n 2 h ++ digits_n 2 mi
  | TSecX => digits_n 2 h ++ [cCOLON] ++ digits_n 2 mi ++ [cCOLON] ++ digits_n 2 s
  | TSecB => digits_n 2 h ++ digits_n 2 mi ++ digits_n 2 s
  | TFracX => digits_n 2 h ++ [cCOLON] ++ digits_n 2 mi ++ [cCOLON] ++ digits_n 2 s ++
              render_frac comma k extra us
  | TFracB => digits_n 2 h ++ digits_n 2 mi ++ digits_n 2 s ++ render_frac comma k extra us
  end.

Definition trunc_time (ts : tspec) (h mi s us : Z) : Z * Z * Z * Z :=
  let '(TS tf comma k extra) := ts in
  match tf with
  | THour => (h, 0, 0, 0)
  | TMinX | TMinB => (h, mi, 0, 0)
  | TSecX | TSecB => (h, mi, s, 0)
  | TFracX | TFracB =>
      let p := 10 ^ (6 - Z.of_nat (Nat.min k 6)) in (h, mi, s, us / p * p)
  end.

Definition is_frac (tf : tform) : bool := match tf with TFracX | TFracB => true | _ => false end.

Definition wf_tspec (ts : tspec) : bool :=
  let '(TS tf comma k extra) := ts in
  if is_frac tf then
    (1 <=? k)%nat && Nat.eqb (length extra) (k - 6) && forallb (fun e => (0 <=? e) && (e <=? 9)) extra
  else true.

(* offsets: none, Z / z, +-HH, +-HHMM, +-HH:MM *)
Inductive off :=
| ONone
| OZulu (lower : bool)
| OHH (neg : bool) (h : Z)
| OHHMM (neg : bool) (h m : Z)
| OHH_MM (neg : bool) (h m : Z).

Definition render_off (o : off) : list Z :=
  let sg (neg : bool) := if neg then cDASH else cPLUS in
  match o with
  | ONone => []
  | OZulu lower => [if lower then cz else cZ]
  | OHH neg h => [sg neg] ++ digits_n 2 h
  | OHHMM neg h m => [sg neg] ++ digits_n 2 h ++ digits_n 2 m
  | OHH_MM neg h m => [sg neg] ++ digits_n 2 h ++ [cCOLON] ++ digits_n 2 m
  end.

Definition wf_off (o : off) : bool :=
  match o with
  | ONone | OZulu _ => true
  | OHH _ h => (0 <=? h) && (h <=? 23)
  | OHHMM _ h m | OHH_MM _ h m => (0 <=? h) && (h <=? 23) && (0 <=? m) && (m <=? 59)
  end.

(* offset zero is UTC *)
Definition tz_of (o : off) : tzv :=
  let v (neg : bool) (h m : Z) :=
    if (h =? 0) && (m =? 0) then TzUTC else TzOff ((if neg then -1 else 1) * (h * 3600 + m * 60)) in
  match o with
  | ONone => TzNone
  | OZulu _ => TzUTC
  | OHH neg h => v neg h 0
  | OHHMM neg h m | OHH_MM neg h m => v neg h m
  end.

Record fmt := mkFmt { f_date : dform; f_time : option tspec; f_sep : Z }.

Definition render_iso (f : fmt) (dt : Z * Z * Z * Z * Z * Z * Z) (o : off) : list Z :=
  let '(y, m, d, h, mi, s, us) := dt in
  render_date (f_date f) y m d ++
  match f_time f with
  | None => []
  | Some ts => [f_sep f] ++ render_time ts h mi s us ++ render_off o
  end.

(* exactly the combinations the parser supports: reduced-precision dates (YYYY, YYYY-MM,
   week without day) stand alone; a time needs a complete date, a separator byte that is ASCII,
   equal to the configured one if one is configured, and not a digit after YYYYDDD. *)
Definition wf_fmt (f : fmt) (sep : option Z) (o : off) : bool :=
  match f_time f with
  | None => match o with ONone => true | _ => false end
  | Some ts =>
      complete (f_date f) && sep_ok sep (f_date f) (f_sep f) && (f_sep f <? 128) &&
      wf_tspec ts && wf_off o
  end.

Definition valid_dt (dt : Z * Z * Z * Z * Z * Z * Z) : bool :=
  let '(y, m, d, h, mi, s, us) := dt in valid_ymd y m d && valid_hmsu h mi s us.

(* what parsing the rendering must return *)
Definition expected (f : fmt) (dt : Z * Z * Z * Z * Z * Z * Z) (o : off) : dt8 :=
  let '(y, m, d, h, mi, s, us) := dt in
  let '(y', m', d') := trunc_date (f_date f) y m d in
  match f_time f with
  | None => (y', m', d', 0, 0, 0, 0, TzNone)
  | Some ts => let '(h', mi', s', us') := trunc_time ts h mi s us in
               (y', m', d', h', mi', s', us', tz_of o)
  end.

(* the 24:00 spelling of midnight at the END of day (y, m, d): same forms with hour 24 and
   every other time field zero; it denotes 00:00 of the following day (none after 9999-12-31) *)
Definition render_iso_2400 (f : fmt) (ymd : date3) (o : off) : list Z :=
  let '(y, m, d) := ymd in render_iso f (y, m, d, 24, 0, 0, 0) o.

Definition wf_fmt_2400 (f : fmt) (sep : option Z) (o : off) : bool :=
  wf_fmt f sep o &&
  match f_time f with
  | Some (TS _ _ _ extra) => forallb (Z.eqb 0) extra
  | None => false
  end.

Definition expected_2400 (ymd : date3) (o : off) : option dt8 :=
  let '(y, m, d) := ymd in
  let n := ord_of_ymd y m d + 1 in
  if n <=? max_ord then
    let '(y', m', d') := ymd_of_ord n in Some (y', m', d', 0, 0, 0, 0, tz_of o)
  else None.
