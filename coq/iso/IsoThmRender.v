(* C07: the recogniser (hence, by IsoThmMain, the model) reads every rendering back. *)
From Coq Require Import ZArith List Bool Lia ZifyBool.
From V Require Import base.Cal iso.IsoBase iso.IsoModel iso.IsoSpec iso.IsoThm iso.IsoThmTz iso.IsoThmTime
                      iso.IsoThmWeek iso.IsoThmDate iso.IsoThmMain.
Import ListNotations.
Open Scope Z_scope.
Ltac Zify.zify_post_hook ::= Z.to_euclidean_division_equations.

(* a form that reads the string and survives what follows is THE reading *)
Lemma live_form_pick {A} (g : dform -> option A) s f raw rest :
  (forall f', form_dead f' s = true -> g f' = None) ->
  date_fields f s = Some (raw, rest) -> live f rest = true ->
  first_some (map g all_dforms) = g f.
Proof.
  intros Hd DF L.
  assert (ND : form_dead f s = false) by (unfold form_dead; now rewrite DF, L).
  pose proof (date_ok_all s) as D. unfold date_ok in D.
  destruct (parse_raw s) as [[raw0 pos]|e].
  - destruct D as (f0 & _ & _ & U). rewrite forallb_forall in U.
    assert (f0 = f).
    { specialize (U f (all_dforms_in f)). apply orb_true_iff in U as [U|U]; [now apply form_eqb_eq | congruence]. }
    subst f0. apply first_some_pick; [|apply all_dforms_in].
    intros f' _. specialize (U f' (all_dforms_in f')). apply orb_true_iff in U as [U|U].
    + left. symmetry. now apply form_eqb_eq.
    + right. now apply Hd.
  - destruct D as [_ U]. rewrite forallb_forall in U. specialize (U f (all_dforms_in f)). congruence.
Qed.

(* ------------------------------------------------------------------ dates *)

Definition raw_of (f : dform) (y m d : Z) : rawdate :=
  let '(iy, iw, id) := isocalendar (ord_of_ymd y m d) in
  match f with
  | FYear => RCal y 1 1
  | FMonth => RCal y m 1
  | FCalX | FCalB => RCal y m d
  | FWeekX | FWeekB => RWeek iy iw 1
  | FWeekDayX | FWeekDayB => RWeek iy iw id
  | FOrdX | FOrdB => ROrd y (yday y m d)
  end.

Lemma num_digits k n r : 0 <= n < 10 ^ Z.of_nat k -> num k (digits_n k n ++ r) = Some (n, r).
Proof. intros H. unfold num. rewrite num_acc_digits by assumption. reflexivity. Qed.

Lemma iso_fields_range y m d : valid_ymd y m d = true ->
  let '(iy, iw, id) := isocalendar (ord_of_ymd y m d) in
  1 <= iy <= 9999 /\ 1 <= iw <= 53 /\ 1 <= id <= 7.
Proof.
  intros V. pose proof (ord_of_ymd_range _ _ _ V) as R.
  pose proof (iso_year_range _ R) as Y. pose proof (iso_range (ord_of_ymd y m d)) as I.
  destruct (isocalendar (ord_of_ymd y m d)) as [[iy iw] id].
  pose proof (w1m_succ iy). lia.
Qed.

Lemma yday_range y m d : valid_ymd y m d = true -> 1 <= yday y m d <= year_len y.
Proof.
  unfold valid_ymd, yday. intros V.
  assert (Hm : 1 <= m <= 12) by lia.
  pose proof (dbm_mono y 1 m). pose proof (dbm_mono y (m + 1) 13).
  rewrite dbm_13, dbm_1 in *. pose proof (dbm_succ y m Hm). lia.
Qed.

Lemma date_fields_render f y m d rest : valid_ymd y m d = true ->
  date_fields f (render_date f y m d ++ rest) = Some (raw_of f y m d, rest).
Proof.
  intros V. pose proof (iso_fields_range y m d V) as I. pose proof (yday_range y m d V) as YD.
  unfold render_date, raw_of. destruct (isocalendar (ord_of_ymd y m d)) as [[iy iw] id].
  assert (Hy : 0 <= y < 10 ^ Z.of_nat 4) by (unfold valid_ymd in V; cbn; lia).
  assert (Hm : 0 <= m < 10 ^ Z.of_nat 2) by (unfold valid_ymd in V; cbn; lia).
  assert (Hd : 0 <= d < 10 ^ Z.of_nat 2).
  { unfold valid_ymd in V. pose proof (dim_pos y m). cbn. lia. }
  assert (Hiy : 0 <= iy < 10 ^ Z.of_nat 4) by (cbn; lia).
  assert (Hiw : 0 <= iw < 10 ^ Z.of_nat 2) by (cbn; lia).
  assert (Hid : 0 <= id < 10 ^ Z.of_nat 1) by (cbn; lia).
  assert (Hyd : 0 <= yday y m d < 10 ^ Z.of_nat 3).
  { pose proof (year_len_cases y). cbn. lia. }
  destruct f; unfold date_fields, pbind, pret, lit; rewrite <- ?app_assoc;
    repeat (rewrite num_digits by assumption; cbn [app]; consts; rewrite ?Z.eqb_refl);
    reflexivity.
Qed.

Lemma w1m_pos y : 1 <= y -> 1 <= w1m y.
Proof.
  intros H. pose proof (w1m_bounds y).
  assert (days_before_year 1 <= days_before_year y) by (apply days_before_year_mono; lia).
  change (days_before_year 1) with 0 in *.
  destruct (Z.eq_dec y 1) as [->|N]; [vm_compute; discriminate|].
  assert (days_before_year (1 + 1) <= days_before_year y) by (apply days_before_year_mono; lia).
  change (days_before_year (1 + 1)) with 365 in *. lia.
Qed.

Lemma date_value_render f y m d : valid_ymd y m d = true ->
  date_value (raw_of f y m d) = Some (trunc_date f y m d).
Proof.
  intros V. pose proof (ord_of_ymd_range _ _ _ V) as R.
  pose proof (iso_fields_range y m d V) as I. pose proof (iso_range (ord_of_ymd y m d)) as IR.
  pose proof (yday_range y m d V) as YD.
  assert (INV : ymd_of_ord (ord_of_ymd y m d) = (y, m, d))
    by (apply ymd_of_ord_of_ymd; unfold valid_ymd in V; lia).
  unfold raw_of, trunc_date. set (o := ord_of_ymd y m d) in *.
  destruct (isocalendar o) as [[iy iw] id]. destruct IR as (IR & Ew & Ed).
  pose proof (w1m_pos iy ltac:(lia)) as WP. pose proof (w1m_bounds iy) as WB.
  assert (V1 : valid_ymd y 1 1 = true) by (unfold valid_ymd in *; change (dim y 1) with 31; lia).
  assert (Vm : valid_ymd y m 1 = true) by (unfold valid_ymd in *; pose proof (dim_pos y m); lia).
  assert (WK : forall d', 1 <= d' <= id ->
            weekdate_of iy iw d' = Some (ymd_of_ord (o - (id - d')))).
  { intros d' Hd'. rewrite weekdate_of_spec.
    assert (E : week_ord iy iw d' = o - (id - d')) by (unfold week_ord; lia).
    unfold week_ok. cbv zeta. rewrite E.
    replace ((1 <=? o - (id - d')) && (o - (id - d') <=? max_ord) && (w1m iy <=? o - (id - d')) &&
             (o - (id - d') <? w1m (iy + 1)) && (1 <=? d') && (d' <=? 7)) with true by lia.
    reflexivity. }
  destruct f; cbn [date_value].
  - now rewrite V1.
  - now rewrite Vm.
  - now rewrite V.
  - now rewrite V.
  - rewrite (WK 1) by lia. do 2 f_equal. unfold weekday_of_ord. lia.
  - rewrite (WK 1) by lia. do 2 f_equal. unfold weekday_of_ord. lia.
  - rewrite (WK id) by lia. replace (o - (id - id)) with o by lia. now rewrite INV.
  - rewrite (WK id) by lia. replace (o - (id - id)) with o by lia. now rewrite INV.
  - replace ((1 <=? y) && (y <=? 9999) && (1 <=? yday y m d) && (yday y m d <=? year_len y)) with true
      by (unfold valid_ymd in V; lia).
    replace (days_before_year y + yday y m d) with o by (unfold o, ord_of_ymd, yday; lia). now rewrite INV.
  - replace ((1 <=? y) && (y <=? 9999) && (1 <=? yday y m d) && (yday y m d <=? year_len y)) with true
      by (unfold valid_ymd in V; lia).
    replace (days_before_year y + yday y m d) with o by (unfold o, ord_of_ymd, yday; lia). now rewrite INV.
Qed.
(* ------------------------------------------------------------------ offsets *)

Lemma all_ascii_app a b : all_ascii (a ++ b) = all_ascii a && all_ascii b.
Proof. apply forallb_app. Qed.

Lemma all_ascii_digits k n : all_ascii (digits_n k n) = true.
Proof.
  revert n. induction k; intros n; cbn [digits_n]; [reflexivity|].
  rewrite all_ascii_app, IHk. unfold all_ascii. cbn [forallb]. lia.
Qed.

Lemma all_ascii_off o : all_ascii (render_off o) = true.
Proof.
  destruct o as [|l|n h|n h m|n h m]; unfold render_off; rewrite ?all_ascii_app, ?all_ascii_digits;
    try destruct l; try destruct n; reflexivity.
Qed.

Lemma tz_denotes_render o : o <> ONone -> wf_off o = true ->
  tz_denotes true (render_off o) = Some (tz_of o).
Proof.
  intros N W. pose proof (parse_tzstr_render_lemma o N W) as P.
  unfold parse_tzstr, takes_ascii in P. rewrite all_ascii_off, tz_equiv in P.
  destruct (tz_denotes true (render_off o)); cbn [lift] in P; congruence.
Qed.

Lemma tzpart_render o : wf_off o = true -> tzpart (render_off o) = Some (tz_of o).
Proof.
  intros W. destruct o as [|l|n h|n h m|n h m]; [reflexivity|..]; unfold tzpart.
  all: match goal with |- match render_off ?o with _ => _ end = _ =>
         pose proof (tz_denotes_render o ltac:(discriminate) W) as T;
         destruct (render_off o) eqn:E; [|exact T] end.
  all: exfalso; unfold render_off in E; try destruct l; try destruct n; discriminate.
Qed.

Lemma fin_spec_off h m s us o : wf_off o = true -> clock_ok h m s us = true ->
  fin_spec h m s us (render_off o) = Some (h, m, s, us, tz_of o).
Proof. intros W C. unfold fin_spec. now rewrite tzpart_render, C. Qed.

(* what follows a time is empty or starts with a character that is not a digit *)
Definition nondigit_head (r : list Z) : Prop := match r with [] => True | c :: _ => is_digit c = false end.

Lemma off_head o : nondigit_head (render_off o).
Proof. destruct o as [|l|n h|n h m|n h m]; cbn; try destruct l; try destruct n; auto. Qed.

Lemma tzc_digit n : tzc (48 + n mod 10) = false.
Proof. unfold tzc. cbn [existsb]. consts. lia. Qed.

Lemma fin_spec_nontz h m s us c r : tzc c = false -> fin_spec h m s us (c :: r) = None.
Proof. intros T. unfold fin_spec, tzpart. now rewrite tz_denotes_nontz. Qed.

Lemma val2 n : 0 <= n < 100 -> (0 * 10 + (48 + (n / 10) mod 10 - 48)) * 10 + (48 + n mod 10 - 48) = n.
Proof. lia. Qed.

Lemma dig_ne n c : c < 48 \/ 57 < c -> (48 + n mod 10 =? c) = false.
Proof. lia. Qed.

(* ------------------------------------------------------------------ fractions *)

Lemma span_digits_app ds r : forallb is_digit ds = true -> nondigit_head r ->
  span_digits (ds ++ r) = (ds, r).
Proof.
  intros Hd Hr. induction ds as [|c ds IH]; cbn [app].
  - destruct r as [|c r]; [reflexivity|]. cbn in Hr. unfold span_digits. now rewrite Hr.
  - cbn [forallb] in Hd. apply andb_true_iff in Hd as [Hc Hd].
    change (span_digits (c :: ds ++ r)) with
      (if is_digit c then let (a, b) := span_digits (ds ++ r) in (c :: a, b) else ([], c :: ds ++ r)).
    rewrite Hc, (IH Hd). reflexivity.
Qed.

Lemma frac_render (comma : bool) ds r : ds <> [] -> forallb is_digit ds = true -> nondigit_head r ->
  frac ((if comma then cCOMMA else cDOT) :: ds ++ r) = Some (frac_us ds, r).
Proof.
  intros N Hd Hr. unfold frac. rewrite span_digits_app by assumption.
  destruct comma; consts; cbn [Z.eqb Pos.eqb orb]; destruct ds; congruence.
Qed.

Lemma firstn_digits k : forall j n, (j <= k)%nat -> 0 <= n ->
  firstn j (digits_n k n) = digits_n j (n / 10 ^ Z.of_nat (k - j)).
Proof.
  induction k as [|k IH]; intros j n Hj Hn.
  - assert (j = 0%nat) by lia. subst. reflexivity.
  - destruct (Nat.eq_dec j (S k)) as [->|Nj].
    + rewrite Nat.sub_diag. change (10 ^ Z.of_nat 0) with 1. rewrite Z.div_1_r.
      apply firstn_all2. rewrite digits_n_length. lia.
    + cbn [digits_n]. rewrite firstn_app, digits_n_length.
      replace (j - k)%nat with 0%nat by lia. cbn [firstn]. rewrite app_nil_r.
      rewrite IH by (try lia; apply Z.div_pos; lia).
      f_equal. rewrite Z.div_div by (try lia; apply Z.pow_pos_nonneg; lia).
      f_equal. replace (S k - j)%nat with (S (k - j)) by lia.
      rewrite Nat2Z.inj_succ, Z.pow_succ_r by lia. reflexivity.
Qed.

Definition frac_digits (k : nat) (extra : list Z) (us : Z) : list Z :=
  firstn k (digits_n 6 us) ++ map (fun e => 48 + e) extra.

Lemma frac_digits_ok k extra us :
  (1 <=? k)%nat && Nat.eqb (length extra) (k - 6) && forallb (fun e => (0 <=? e) && (e <=? 9)) extra = true ->
  0 <= us < 1000000 ->
  frac_digits k extra us <> [] /\ forallb is_digit (frac_digits k extra us) = true /\
  all_ascii (frac_digits k extra us) = true /\
  frac_us (frac_digits k extra us) =
    us / 10 ^ (6 - Z.of_nat (Nat.min k 6)) * 10 ^ (6 - Z.of_nat (Nat.min k 6)).
Proof.
  intros W Hus. apply andb_true_iff in W as [W We]. apply andb_true_iff in W as [Wk Wl].
  apply Nat.leb_le in Wk. apply Nat.eqb_eq in Wl.
  assert (De : forallb is_digit (map (fun e => 48 + e) extra) = true).
  { rewrite forallb_forall in *. intros x Hx. apply in_map_iff in Hx as (e & <- & He).
    specialize (We e He). unfold is_digit. lia. }
  assert (Ae : all_ascii (map (fun e => 48 + e) extra) = true).
  { unfold all_ascii. rewrite forallb_forall in *. intros x Hx. apply in_map_iff in Hx as (e & <- & He).
    specialize (We e He). lia. }
  assert (Dd : forallb is_digit (firstn k (digits_n 6 us)) = true).
  { pose proof (digits_n_all_digit 6 us) as A. rewrite <- (firstn_skipn k (digits_n 6 us)), forallb_app in A.
    now apply andb_true_iff in A. }
  assert (Ad : all_ascii (firstn k (digits_n 6 us)) = true).
  { pose proof (all_ascii_digits 6 us) as A. rewrite <- (firstn_skipn k (digits_n 6 us)), all_ascii_app in A.
    now apply andb_true_iff in A. }
  assert (D : forallb is_digit (frac_digits k extra us) = true).
  { unfold frac_digits. now rewrite forallb_app, Dd, De. }
  split; [|split; [exact D | split]].
  - unfold frac_digits. pose proof (digits_n_length 6 us) as L.
    destruct (digits_n 6 us) as [|z l]; [cbn in L; lia|]. destruct k; [lia|]. cbn [firstn app]. discriminate.
  - unfold frac_digits. now rewrite all_ascii_app, Ad, Ae.
  - rewrite <- (frac_us_eq _ D). unfold frac_digits.
    destruct (Nat.leb k 6) eqn:K.
    + apply Nat.leb_le in K. replace (k - 6)%nat with 0%nat in Wl by lia.
      destruct extra; [|discriminate]. cbn [map]. rewrite app_nil_r.
      rewrite firstn_digits by lia. rewrite Nat.min_l by lia.
      rewrite firstn_all2 by (rewrite digits_n_length; lia). rewrite digits_n_length.
      rewrite int_acc_digits.
      * replace (Z.of_nat (6 - k)) with (6 - Z.of_nat k) by lia. lia.
      * split; [apply Z.div_pos; [lia | apply Z.pow_pos_nonneg; lia]|].
        apply Z.div_lt_upper_bound; [apply Z.pow_pos_nonneg; lia|].
        rewrite <- Z.pow_add_r by lia. replace (Z.of_nat (6 - k) + Z.of_nat k) with 6 by lia. lia.
    + apply Nat.leb_gt in K. rewrite Nat.min_r by lia.
      rewrite (firstn_all2 (n := k)) by (rewrite digits_n_length; lia).
      rewrite firstn_app, digits_n_length. rewrite (firstn_all2 (n := 6%nat)) by (rewrite digits_n_length; lia).
      replace (6 - 6)%nat with 0%nat by lia. cbn [firstn]. rewrite app_nil_r, digits_n_length.
      rewrite int_acc_digits by (cbn; lia). change (6 - Z.of_nat 6) with 0. cbn. 
      rewrite Z.div_1_r. lia.
Qed.
Ltac tcbn := cbn -[Z.mul Z.add Z.sub Z.pow Z.div Z.modulo fin_spec frac_digits].
Ltac nontzs := repeat (rewrite fin_spec_nontz by (first [apply tzc_digit | reflexivity])).
Ltac simp := tcbn; repeat (progress (repeat rewrite is_digit_mod; repeat rewrite (dig_ne _ 58) by lia;
                                     change (is_digit 58) with false; change (is_digit 46) with false;
                                     change (is_digit 44) with false; nontzs); tcbn).

Lemma time_render ts h mi s us o :
  wf_tspec ts = true -> wf_off o = true ->
  0 <= h < 100 -> 0 <= mi < 100 -> 0 <= s < 100 -> 0 <= us < 1000000 ->
  (let '(h', mi', s', us') := trunc_time ts h mi s us in clock_ok h' mi' s' us' = true) ->
  time_denotes_raw (render_time ts h mi s us ++ render_off o) =
  Some (let '(h', mi', s', us') := trunc_time ts h mi s us in (h', mi', s', us', tz_of o)).
Proof.
  intros W Wo Hh Hmi Hs Hus C. destruct ts as [tf comma k extra].
  unfold time_denotes_raw, all_tforms. cbn [map]. rewrite !time_reading_fin.
  unfold time_fields, pbind, num, lit, pret. consts.
  destruct tf; unfold render_time, trunc_time in *;
    change (render_frac comma k extra us) with ((if comma then cCOMMA else cDOT) :: frac_digits k extra us);
    rewrite ?digits2, <- ?app_assoc; cbn [app]; consts.
  1-5: simp; rewrite !val2 by lia; rewrite fin_spec_off by assumption; reflexivity.
  - cbn [wf_tspec is_frac] in W. destruct (frac_digits_ok k extra us W Hus) as (FN & FD & _ & FU).
    destruct comma; simp; rewrite !val2 by lia.
    + rewrite (frac_render true) by (try assumption; apply off_head).
      rewrite FU. rewrite fin_spec_off by assumption. reflexivity.
    + rewrite (frac_render false) by (try assumption; apply off_head).
      rewrite FU. rewrite fin_spec_off by assumption. reflexivity.
  - cbn [wf_tspec is_frac] in W. destruct (frac_digits_ok k extra us W Hus) as (FN & FD & _ & FU).
    destruct comma; simp; rewrite !val2 by lia.
    + rewrite (frac_render true) by (try assumption; apply off_head).
      rewrite FU. rewrite fin_spec_off by assumption. reflexivity.
    + rewrite (frac_render false) by (try assumption; apply off_head).
      rewrite FU. rewrite fin_spec_off by assumption. reflexivity.
Qed.

(* ------------------------------------------------------------------ ASCII-ness of renderings *)

Lemma all_ascii_date f y m d : all_ascii (render_date f y m d) = true.
Proof.
  unfold render_date. destruct (isocalendar (ord_of_ymd y m d)) as [[iy iw] id].
  destruct f; rewrite ?all_ascii_app, ?all_ascii_digits; reflexivity.
Qed.

Lemma all_ascii_time ts h mi s us : wf_tspec ts = true -> 0 <= us < 1000000 ->
  all_ascii (render_time ts h mi s us) = true.
Proof.
  intros W Hus. destruct ts as [tf comma k extra].
  destruct tf; unfold render_time;
    change (render_frac comma k extra us) with ((if comma then cCOMMA else cDOT) :: frac_digits k extra us);
    rewrite ?all_ascii_app, ?all_ascii_digits; try reflexivity.
  all: cbn [wf_tspec is_frac] in W; destruct (frac_digits_ok k extra us W Hus) as (_ & _ & FA & _).
  all: change (all_ascii ((if comma then cCOMMA else cDOT) :: frac_digits k extra us))
         with (((if comma then cCOMMA else cDOT) <? 128) && all_ascii (frac_digits k extra us)).
  all: rewrite FA; destruct comma; reflexivity.
Qed.

Lemma trunc_clock ts h mi s us : valid_hmsu h mi s us = true ->
  let '(h', mi', s', us') := trunc_time ts h mi s us in
  valid_hmsu h' mi' s' us' = true /\ clock_ok h' mi' s' us' = true.
Proof.
  intros V. destruct ts as [tf comma k extra]. unfold valid_hmsu in V.
  assert (P : 0 < 10 ^ (6 - Z.of_nat (Nat.min k 6))) by (apply Z.pow_pos_nonneg; lia).
  destruct tf; unfold trunc_time, clock_ok; replace (h =? 24) with false by lia; cbv iota; unfold valid_hmsu.
  1-5: split; lia.
  all: set (p := 10 ^ (6 - Z.of_nat (Nat.min k 6))) in *.
  all: assert (0 <= us / p * p <= us) by
    (split; [apply Z.mul_nonneg_nonneg; [apply Z.div_pos; lia | lia] | rewrite Z.mul_comm; apply Z.mul_div_le; lia]).
  all: split; lia.
Qed.

(* ------------------------------------------------------------------ C07: the inverse laws *)

Theorem parse_tzstr_render o :
  o <> ONone -> wf_off o = true -> parse_tzstr (render_off o) true = Ok (tz_of o).
Proof. exact (parse_tzstr_render_lemma o). Qed.

Theorem parse_isodate_render f y m d : valid_ymd y m d = true ->
  parse_isodate (render_date f y m d) = Ok (trunc_date f y m d).
Proof.
  intros V. rewrite parse_isodate_equiv. unfold date_denotes. rewrite all_ascii_date.
  pose proof (date_fields_render f y m d [] V) as DF. rewrite app_nil_r in DF.
  rewrite (live_form_pick (fun f' => date_reading f' (render_date f y m d)) _ f (raw_of f y m d) []
             (fun f' H => dead_date_reading f' _ H) DF eq_refl).
  unfold date_reading. rewrite DF, date_value_render by assumption. reflexivity.
Qed.
Theorem parse_isotime_render ts h mi s us o :
  wf_tspec ts = true -> wf_off o = true -> valid_hmsu h mi s us = true ->
  parse_isotime (render_time ts h mi s us ++ render_off o) =
  Ok (let '(h', mi', s', us') := trunc_time ts h mi s us in (h', mi', s', us', tz_of o)).
Proof.
  intros W Wo V. rewrite parse_isotime_equiv. unfold time_denotes.
  assert (B : 0 <= h < 100 /\ 0 <= mi < 100 /\ 0 <= s < 100 /\ 0 <= us < 1000000) by (unfold valid_hmsu in V; lia).
  destruct B as (Bh & Bm & Bs & Bu).
  rewrite all_ascii_app, all_ascii_time, all_ascii_off by assumption. cbn [andb].
  pose proof (trunc_clock ts h mi s us V) as TC.
  rewrite time_render; try assumption.
  - destruct (trunc_time ts h mi s us) as [[[h' mi'] s'] us']. destruct TC as [TV _].
    replace (h' =? 24) with false by (unfold valid_hmsu in TV; lia). reflexivity.
  - destruct (trunc_time ts h mi s us) as [[[h' mi'] s'] us']. apply TC.
Qed.

(* 24:00 through the time-only entry point is 00:00 *)
Theorem parse_isotime_2400_render ts o :
  wf_tspec ts = true -> wf_off o = true ->
  (let '(TS _ _ _ extra) := ts in forallb (Z.eqb 0) extra = true) ->
  parse_isotime (render_time ts 24 0 0 0 ++ render_off o) = Ok (0, 0, 0, 0, tz_of o).
Proof.
  intros W Wo _. rewrite parse_isotime_equiv. unfold time_denotes.
  rewrite all_ascii_app, all_ascii_time, all_ascii_off by (try assumption; lia). cbn [andb].
  assert (T : trunc_time ts 24 0 0 0 = (24, 0, 0, 0)).
  { destruct ts as [tf c k e]. destruct tf; cbn [trunc_time]; try reflexivity;
      now rewrite Z.div_0_l by (apply Z.pow_nonzero; lia). }
  rewrite time_render; try assumption; try lia; rewrite T; reflexivity.
Qed.

Definition tail_of (f : fmt) (h mi s us : Z) (o : off) : list Z :=
  match f_time f with
  | None => []
  | Some ts => [f_sep f] ++ render_time ts h mi s us ++ render_off o
  end.

Lemma render_iso_split f y m d h mi s us o :
  render_iso f (y, m, d, h, mi, s, us) o = render_date (f_date f) y m d ++ tail_of f h mi s us o.
Proof. reflexivity. Qed.

Lemma wf_live f sep o h mi s us : wf_fmt f sep o = true -> live (f_date f) (tail_of f h mi s us o) = true.
Proof.
  unfold wf_fmt, tail_of. destruct (f_time f) as [ts|]; [|reflexivity].
  intros W. cbn [app live]. unfold sep_ok in W.
  change (match f_date f with FOrdB => true | _ => false end) with (is_ordb (f_date f)) in W.
  destruct (complete (f_date f)); [|discriminate]. cbn [andb] in *.
  destruct (negb (is_ordb (f_date f) && is_digit (f_sep f))); [reflexivity|].
  rewrite andb_false_r in W. discriminate.
Qed.

Lemma all_ascii_iso f y m d h mi s us o sep : wf_fmt f sep o = true -> 0 <= us < 1000000 ->
  all_ascii (render_iso f (y, m, d, h, mi, s, us) o) = true.
Proof.
  intros W Hus. rewrite render_iso_split, all_ascii_app, all_ascii_date. cbn [andb].
  unfold tail_of. unfold wf_fmt in W. destruct (f_time f) as [ts|]; [|reflexivity].
  rewrite !all_ascii_app, all_ascii_off, andb_true_r.
  assert (Wt : wf_tspec ts = true) by (destruct (wf_tspec ts); [reflexivity | rewrite ?andb_false_r in W; discriminate]).
  rewrite all_ascii_time by assumption.
  assert (f_sep f <? 128 = true).
  { destruct (f_sep f <? 128); [reflexivity | rewrite ?andb_false_r in W; cbn in W; rewrite ?andb_false_r in W; discriminate]. }
  unfold all_ascii. cbn [forallb]. rewrite H. reflexivity.
Qed.

(* the recogniser reads every rendering back: generic over the hour (so that 24:00 is covered) *)
Lemma iso_denotes_render f sep o y m d h mi s us :
  wf_fmt f sep o = true -> valid_ymd y m d = true ->
  0 <= h < 100 -> 0 <= mi < 100 -> 0 <= s < 100 -> 0 <= us < 1000000 ->
  (forall ts, f_time f = Some ts ->
     let '(h', mi', s', us') := trunc_time ts h mi s us in clock_ok h' mi' s' us' = true) ->
  iso_denotes sep (render_iso f (y, m, d, h, mi, s, us) o) =
  match f_time f with
  | None => let '(y', m', d') := trunc_date (f_date f) y m d in Some (y', m', d', 0, 0, 0, 0, TzNone)
  | Some ts => let '(h', mi', s', us') := trunc_time ts h mi s us in
               combine (trunc_date (f_date f) y m d) (h', mi', s', us', tz_of o)
  end.
Proof.
  intros W V Bh Bm Bs Bu C. unfold iso_denotes. rewrite (all_ascii_iso _ _ _ _ _ _ _ _ _ _ W Bu).
  rewrite render_iso_split.
  pose proof (date_fields_render (f_date f) y m d (tail_of f h mi s us o) V) as DF.
  rewrite (live_form_pick (fun f' => reading sep f' _) _ (f_date f) _ _
             (fun f' H => dead_reading sep f' _ H) DF (wf_live _ _ _ _ _ _ _ W)).
  rewrite reading_tail, DF. unfold spec_tail. rewrite date_value_render by assumption.
  unfold tail_of in *. unfold wf_fmt in W. destruct (f_time f) as [ts|].
  - cbn [app]. 
    assert (W' : complete (f_date f) && sep_ok sep (f_date f) (f_sep f) = true /\ wf_tspec ts = true /\ wf_off o = true).
    { repeat (apply andb_true_iff in W as [W ?]). repeat split; try assumption. now rewrite W. }
    destruct W' as (W1 & Wt & Wo). rewrite W1.
    rewrite time_render by (try assumption; now apply C).
    destruct (trunc_date (f_date f) y m d) as [[y' m'] d'].
    destruct (trunc_time ts h mi s us) as [[[h' mi'] s'] us']. reflexivity.
  - destruct (trunc_date (f_date f) y m d) as [[y' m'] d']. reflexivity.
Qed.

Theorem isoparse_render f sep o dt :
  wf_fmt f sep o = true -> valid_dt dt = true ->
  isoparse sep (render_iso f dt o) = Ok (expected f dt o).
Proof.
  destruct dt as [[[[[[y m] d] h] mi] s] us]. intros W V. unfold valid_dt in V.
  apply andb_true_iff in V as [Vd Vt].
  apply isoparse_complete.
  rewrite iso_denotes_render; try assumption; try (unfold valid_hmsu in Vt; lia).
  - unfold expected. destruct (trunc_date (f_date f) y m d) as [[y' m'] d'].
    destruct (f_time f) as [ts|]; [|reflexivity].
    pose proof (trunc_clock ts h mi s us Vt) as TC.
    destruct (trunc_time ts h mi s us) as [[[h' mi'] s'] us']. destruct TC as [TV _].
    unfold combine. replace (h' =? 24) with false by (unfold valid_hmsu in TV; lia). reflexivity.
  - intros ts _. pose proof (trunc_clock ts h mi s us Vt) as TC.
    destruct (trunc_time ts h mi s us) as [[[h' mi'] s'] us']. apply TC.
Qed.

(* 24:00 = midnight at the end of the day: 00:00 of the following day, ValueError after 9999-12-31 *)
Theorem isoparse_2400 f sep o y m d :
  wf_fmt_2400 f sep o = true -> valid_ymd y m d = true ->
  isoparse sep (render_iso_2400 f (y, m, d) o) = lift (expected_2400 (y, m, d) o).
Proof.
  intros W V. unfold wf_fmt_2400 in W. apply andb_true_iff in W as [W W2].
  rewrite isoparse_equiv. f_equal. unfold render_iso_2400.
  assert (T : forall ts, trunc_time ts 24 0 0 0 = (24, 0, 0, 0)).
  { intros [tf c k e]. destruct tf; cbn [trunc_time]; try reflexivity;
      now rewrite Z.div_0_l by (apply Z.pow_nonzero; lia). }
  rewrite iso_denotes_render; try assumption; try lia.
  2:{ intros ts _. now rewrite T. }
  destruct (f_time f) as [ts|] eqn:FT; [|discriminate].
  rewrite T. unfold wf_fmt in W. rewrite FT in W.
  assert (Cm : complete (f_date f) = true) by (destruct (complete (f_date f)); [reflexivity | discriminate]).
  assert (TD : trunc_date (f_date f) y m d = (y, m, d)) by (destruct (f_date f); try discriminate; reflexivity).
  rewrite TD. unfold combine, expected_2400. cbn [Z.eqb Pos.eqb].
  destruct (ord_of_ymd y m d + 1 <=? max_ord); [|reflexivity].
  destruct (ymd_of_ord (ord_of_ymd y m d + 1)) as [[y' m'] d']. reflexivity.
Qed.
