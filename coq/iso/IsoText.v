(* The grammar of the PROPERTY TEXT (C20 / C07), written without looking at isoparser.py, next to the two
   places where the language of the implementation (= [IsoSpec.iso_denotes], proved equal to the model) differs
   from it.  Each difference is an OPEN known finding; the guarded theorems of IsoTextThm.v carry the finding's
   predicate as their guard, `_refuted` witnesses lie inside each guard.

   Property text, C20: "a well-formed ISO-8601 representation in one of the supported forms - every numeric field
   made of the required number of ASCII digits, separators used consistently, fields within calendar and clock
   range - and the value returned is the one that representation denotes";  C07: "any single separator character
   or the configured one", "fractions beyond microseconds are truncated", "24:00 meaning midnight of the
   following day".

   [variant] selects between the text's reading (both flags false = [text_grammar]) and the implementation's
   (both true = [impl_language]):
     v_trunc24   the end-of-day check "24:00:00 and nothing more" looks only at the fraction TRUNCATED to
                 microseconds, so 24:00:00.0000009 (an instant after the end of the day, not "within clock range")
                 passes as 24:00                                                        -> finding F-C20-2400-subus
     v_ordigit   a basic ordinal date YYYYDDD may not be followed by a DIGIT as the date/time separator
                 (the scanner reads YYYYDDDd as YYYYMMDD first), although "any single separator character"
                 is allowed when no separator is configured                    -> finding F-C07-ordinal-digit-sep
   Everything else is shared with IsoSpec.v Part A (field scanners, calendar / week / ordinal values, offsets).
   No proofs in this file. *)
From Coq Require Import ZArith List Bool.
From V Require Import base.Cal iso.IsoBase iso.IsoSpec.
Import ListNotations.
Open Scope Z_scope.

Definition isSome {A} (o : option A) : bool := match o with Some _ => true | None => false end.

Record variant := mkVariant { v_ordigit : bool; v_trunc24 : bool }.
Definition text_grammar : variant := mkVariant false false.
Definition impl_language : variant := mkVariant true true.

(* decimal fraction: '.' or ',' then one or more digits; the DIGITS are kept *)
Definition frac_t : P (list Z) :=
  fun s => match s with
           | c :: r =>
               if (c =? cDOT) || (c =? cCOMMA) then
                 match span_digits r with
                 | ([], _) => None
                 | (ds, rest) => Some (ds, rest)
                 end
               else None
           | [] => None
           end.

(* (hour, minute, second, fraction digits - [] when the form has no fraction) *)
Definition time_fields_t (f : tform) : P (Z * Z * Z * list Z) :=
  match f with
  | THour => h <- num 2 ;; pret (h, 0, 0, [])
  | TMinX => h <- num 2 ;; lit cCOLON ;;; m <- num 2 ;; pret (h, m, 0, [])
  | TMinB => h <- num 2 ;; m <- num 2 ;; pret (h, m, 0, [])
  | TSecX => h <- num 2 ;; lit cCOLON ;;; m <- num 2 ;; lit cCOLON ;;; s <- num 2 ;; pret (h, m, s, [])
  | TSecB => h <- num 2 ;; m <- num 2 ;; s <- num 2 ;; pret (h, m, s, [])
  | TFracX => h <- num 2 ;; lit cCOLON ;;; m <- num 2 ;; lit cCOLON ;;; s <- num 2 ;; ds <- frac_t ;;
              pret (h, m, s, ds)
  | TFracB => h <- num 2 ;; m <- num 2 ;; s <- num 2 ;; ds <- frac_t ;; pret (h, m, s, ds)
  end.

Definition all_zero (ds : list Z) : bool := forallb (Z.eqb 48) ds.

(* clock range.  Hour 24 only as 24:00:00 with a fraction that is zero: EVERY digit (text), or the digits
   that survive truncation to microseconds (implementation) *)
Definition clock_ok_t (trunc24 : bool) (h m s : Z) (ds : list Z) : bool :=
  if h =? 24 then (m =? 0) && (s =? 0) && (if trunc24 then frac_us ds =? 0 else all_zero ds)
  else valid_hmsu h m s (frac_us ds).

Definition time_reading_t (trunc24 : bool) (f : tform) (t : list Z) : option time5 :=
  match time_fields_t f t with
  | None => None
  | Some ((h, m, s, ds), rest) =>
      match (match rest with [] => Some TzNone | _ => tz_denotes true rest end) with
      | None => None
      | Some tz => if clock_ok_t trunc24 h m s ds then Some (h, m, s, frac_us ds, tz) else None
      end
  end.

Definition time_raw_t (trunc24 : bool) (t : list Z) : option time5 :=
  first_some (map (fun f => time_reading_t trunc24 f t) all_tforms).

Definition is_ordb (f : dform) : bool := match f with FOrdB => true | _ => false end.

(* separator between date and time: the configured byte, or any single byte *)
Definition sep_ok_t (ordigit : bool) (sep : option Z) (f : dform) (c : Z) : bool :=
  (match sep with None => true | Some x => c =? x end) && negb (ordigit && (is_ordb f && is_digit c)).

Definition reading_t (v : variant) (sep : option Z) (f : dform) (s : list Z) : option dt8 :=
  match date_fields f s with
  | None => None
  | Some (raw, rest) =>
      match rest with
      | [] => match date_value raw with
              | Some (y, m, d) => Some (y, m, d, 0, 0, 0, 0, TzNone)
              | None => None
              end
      | c :: t =>
          if complete f && sep_ok_t (v_ordigit v) sep f c then
            match date_value raw, time_raw_t (v_trunc24 v) t with
            | Some ymd, Some tm => combine ymd tm
            | _, _ => None
            end
          else None
      end
  end.

Definition iso_text_v (v : variant) (sep : option Z) (s : list Z) : option dt8 :=
  if all_ascii s then first_some (map (fun f => reading_t v sep f s) all_dforms) else None.

(* THE grammar of the property text *)
Definition iso_text : option Z -> list Z -> option dt8 := iso_text_v text_grammar.

(* time-only entry point: 24:00 is 00:00 *)
Definition time_text_v (trunc24 : bool) (s : list Z) : option time5 :=
  if all_ascii s then
    match time_raw_t trunc24 s with
    | Some (h, m, sec, us, tz) => Some (if h =? 24 then 0 else h, m, sec, us, tz)
    | None => None
    end
  else None.
Definition time_text : list Z -> option time5 := time_text_v false.

(* ---- the two findings as predicates on the input string *)

(* F-C20-2400-subus: the time part reads, in some supported time form, hour 24, minute 0, second 0 and a
   fraction that is below one microsecond but not zero ("24:00:00.0000009") *)
Definition subus24 (t : list Z) : bool :=
  existsb (fun f => match time_fields_t f t with
                    | Some ((h, m, s, ds), _) =>
                        (h =? 24) && (m =? 0) && (s =? 0) && (frac_us ds =? 0) && negb (all_zero ds)
                    | None => false
                    end) all_tforms.

Definition finding_2400_subus (s : list Z) : bool :=
  existsb (fun f => match date_fields f s with
                    | Some (_, _ :: t) => complete f && subus24 t
                    | _ => false
                    end) all_dforms.

(* F-C07-ordinal-digit-sep: the string is, by the text grammar, a well-formed basic ordinal date YYYYDDD
   followed by a DIGIT separator and a time *)
Definition finding_ordinal_digit (sep : option Z) (s : list Z) : bool :=
  match date_fields FOrdB s with
  | Some (_, c :: _) => is_digit c && isSome (reading_t text_grammar sep FOrdB s)
  | _ => false
  end.

(* Part B: the renderings of the property text = IsoSpec.wf_fmt without the digit carve-out *)
Definition sep_plain (sep : option Z) (c : Z) : bool := match sep with None => true | Some x => c =? x end.

Definition wf_fmt_text (f : fmt) (sep : option Z) (o : off) : bool :=
  match f_time f with
  | None => match o with ONone => true | _ => false end
  | Some ts => complete (f_date f) && sep_plain sep (f_sep f) && (f_sep f <? 128) && wf_tspec ts && wf_off o
  end.

(* the renderings the finding F-C07-ordinal-digit-sep is about *)
Definition fmt_ordinal_digit (f : fmt) : bool :=
  match f_time f with Some _ => is_ordb (f_date f) && is_digit (f_sep f) | None => false end.
