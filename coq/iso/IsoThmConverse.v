(* Converse of C07 for the recogniser (and, through C20's soundness, for the model): every
   string that is read IS a rendering -- in one of the supported forms -- of the value read. *)
From Coq Require Import ZArith List Bool Lia ZifyBool.
From V Require Import base.Cal iso.IsoBase iso.IsoModel iso.IsoSpec iso.IsoThm iso.IsoThmTz iso.IsoThmTime
                      iso.IsoThmWeek iso.IsoThmDate iso.IsoThmMain iso.IsoThmRender.
Import ListNotations.
Open Scope Z_scope.
Ltac Zify.zify_post_hook ::= Z.to_euclidean_division_equations.
(* ------------------------------------------------------------------ digit fields, inverted *)

Lemma digits_of_list l : forallb is_digit l = true -> l = digits_n (length l) (int_acc 0 l).
Proof.
  induction l as [|c l IH] using rev_ind; intros H; [reflexivity|].
  rewrite forallb_app in H. apply andb_true_iff in H as [Hl Hc]. cbn [forallb] in Hc.
  rewrite app_length. cbn [length]. replace (length l + 1)%nat with (S (length l)) by lia.
  cbn [digits_n]. rewrite int_acc_app. unfold int_acc at 1 3. cbn [fold_left]. fold (int_acc 0 l).
  unfold is_digit in Hc.
  replace ((int_acc 0 l * 10 + (c - 48)) / 10) with (int_acc 0 l) by lia.
  replace (48 + (int_acc 0 l * 10 + (c - 48)) mod 10) with c by lia.
  now rewrite <- IH.
Qed.

Lemma num_acc_inv k : forall a s v r, num_acc k a s = Some (v, r) ->
  exists l, s = l ++ r /\ length l = k /\ forallb is_digit l = true /\ v = int_acc a l.
Proof.
  induction k as [|k IH]; intros a s v r H.
  - cbn in H. injection H as <- <-. exists []. auto.
  - cbn [num_acc] in H. destruct s as [|c s]; [discriminate|].
    destruct (is_digit c) eqn:D; [|discriminate].
    destruct (IH _ _ _ _ H) as (l & -> & L & Dl & ->).
    exists (c :: l). cbn [app length forallb]. rewrite D, Dl. repeat split; auto.
Qed.

Lemma num_inv k s n r : num k s = Some (n, r) ->
  s = digits_n k n ++ r /\ 0 <= n < 10 ^ Z.of_nat k.
Proof.
  intros H. destruct (num_acc_inv _ _ _ _ _ H) as (l & -> & L & D & ->).
  pose proof (int_acc_bounds l 0 D ltac:(lia)) as B. rewrite L in B.
  split; [|lia]. f_equal. rewrite <- L. now apply digits_of_list.
Qed.

Lemma lit_inv c s u r : lit c s = Some (u, r) -> s = c :: r.
Proof.
  unfold lit. destruct s as [|x s]; [discriminate|]. destruct (x =? c) eqn:E; [|discriminate].
  intros [= _ <-]. f_equal. lia.
Qed.

(* ------------------------------------------------------------------ dates *)

Ltac inv_p H :=
  repeat (unfold pbind, pret in H;
          match type of H with
          | match ?p ?s with Some _ => _ | None => _ end = Some _ =>
              let E := fresh "E" in destruct (p s) as [[? ?]|] eqn:E; [|discriminate H]
          end);
  try (injection H as ? ?; subst).

Lemma week_value_inv y0 w0 d0 y m d : weekdate_of y0 w0 d0 = Some (y, m, d) ->
  valid_ymd y m d = true /\ isocalendar (ord_of_ymd y m d) = (y0, w0, d0) /\
  ord_of_ymd y m d = week_ord y0 w0 d0.
Proof.
  rewrite weekdate_of_spec. destruct (week_ok y0 w0 d0) eqn:OK; [|discriminate].
  unfold week_ok in OK. cbv zeta in OK. intros E.
  pose proof (ymd_of_ord_valid (week_ord y0 w0 d0) ltac:(lia)) as V.
  destruct (ymd_of_ord (week_ord y0 w0 d0)) as [[a b] c]. injection E as -> -> ->.
  destruct V as [V O]. rewrite O. repeat split; [exact V|]. apply iso_iff. unfold week_ord in *. lia.
Qed.

Lemma ord_value_inv y0 n0 y m d : date_value (ROrd y0 n0) = Some (y, m, d) ->
  valid_ymd y m d = true /\ y = y0 /\ yday y m d = n0.
Proof.
  cbn [date_value]. destruct ((1 <=? y0) && (y0 <=? 9999) && (1 <=? n0) && (n0 <=? year_len y0)) eqn:C; [|discriminate].
  intros E. set (o := days_before_year y0 + n0) in *.
  assert (R : 1 <= o <= max_ord).
  { assert (days_before_year 1 <= days_before_year y0) by (apply days_before_year_mono; lia).
    assert (days_before_year (y0 + 1) <= days_before_year 10000) by (apply days_before_year_mono; lia).
    rewrite days_before_year_succ in *.
    change (days_before_year 1) with 0 in *. change (days_before_year 10000) with 3652059 in *.
    unfold max_ord, o. lia. }
  assert (Y : year_of_ord o = y0).
  { apply year_of_ord_unique. rewrite days_before_year_succ. unfold o. lia. }
  assert (E' : ymd_of_ord o = (y, m, d)) by congruence. clear E.
  pose proof (ymd_of_ord_valid o R) as V. rewrite E' in V. destruct V as [V O].
  assert (y = y0). { unfold ymd_of_ord in E'. cbv zeta in E'. rewrite Y in E'. now injection E'. }
  subst y. repeat split; [exact V|]. unfold yday. unfold ord_of_ymd in O. unfold o in O. lia.
Qed.

Lemma date_fields_inv f s raw rest y m d :
  date_fields f s = Some (raw, rest) -> date_value raw = Some (y, m, d) ->
  valid_ymd y m d = true /\ s = render_date f y m d ++ rest /\ trunc_date f y m d = (y, m, d).
Proof.
  intros DF DV. pose proof (date_value_valid _ _ _ _ DV) as V. split; [exact V|].
  destruct f; unfold date_fields in DF; inv_p DF;
    repeat match goal with
    | E : num _ _ = Some _ |- _ => apply num_inv in E; destruct E as [-> ?]
    | E : lit _ _ = Some _ |- _ => apply lit_inv in E; subst
    end.
  (* calendar forms *)
  1-4: cbn [date_value] in DV;
       match type of DV with (if ?c then _ else _) = _ => destruct c; [|discriminate] end;
       injection DV as <- <- <-; unfold render_date, trunc_date;
       destruct (isocalendar _) as [[? ?] ?]; rewrite <- ?app_assoc; split; reflexivity.
  (* week forms *)
  1-4: cbn [date_value] in DV; destruct (week_value_inv _ _ _ _ _ _ DV) as (_ & I & O);
       unfold render_date, trunc_date; rewrite I, <- ?app_assoc; (split; [reflexivity|]); try reflexivity.
  1-2: rewrite O; unfold week_ord, weekday_of_ord;
       match goal with |- context [w1m ?yy] => pose proof (w1m_bounds yy) end;
       match goal with |- ymd_of_ord ?e = _ => replace e with (ord_of_ymd y m d) by (rewrite O; unfold week_ord; lia) end;
       apply ymd_of_ord_of_ymd; unfold valid_ymd in V; lia.
  (* ordinal forms *)
  all: destruct (ord_value_inv _ _ _ _ _ DV) as (_ & -> & <-);
       unfold render_date, trunc_date; destruct (isocalendar _) as [[? ?] ?]; rewrite <- ?app_assoc; split; reflexivity.
Qed.
(* ------------------------------------------------------------------ offsets *)

Lemma first_some_some {A} (l : list (option A)) v : first_some l = Some v -> In (Some v) l.
Proof.
  induction l as [|x l IH]; [discriminate|]. cbn [first_some]. destruct x as [a|].
  - intros [= ->]. now left.
  - intros H. right. now apply IH.
Qed.

Lemma sign_inv s sg r : sign s = Some (sg, r) ->
  (sg = 1 /\ s = cPLUS :: r) \/ (sg = -1 /\ s = cDASH :: r).
Proof.
  unfold sign. destruct s as [|c s]; [discriminate|].
  destruct (c =? cPLUS) eqn:E1; [intros [= <- <-]; left; split; [reflexivity | f_equal; lia]|].
  destruct (c =? cDASH) eqn:E2; [intros [= <- <-]; right; split; [reflexivity | f_equal; lia]|discriminate].
Qed.

Lemma off_value_inv sg h m tz :
  off_value true (Some (sg, h, m)) = Some tz -> 0 <= h -> 0 <= m ->
  tz = (if (h =? 0) && (m =? 0) then TzUTC else TzOff (sg * (h * 3600 + m * 60))) /\
  (0 <=? h) && (h <=? 23) && (0 <=? m) && (m <=? 59) = true.
Proof.
  unfold off_value. cbn [andb]. intros H Hh Hm. destruct ((h =? 0) && (m =? 0)) eqn:Z0.
  - injection H as <-. split; [reflexivity | lia].
  - destruct ((h <=? 23) && (m <=? 59)) eqn:R; [|discriminate]. injection H as <-. split; [reflexivity | lia].
Qed.

Ltac fin_off o := exists o; unfold wf_off, tz_of, render_off; cbn [app];
  repeat split; try discriminate; try assumption; try lia; try reflexivity.

Lemma tz_denotes_inv t tz : tz_denotes true t = Some tz ->
  exists o, o <> ONone /\ wf_off o = true /\ t = render_off o /\ tz = tz_of o.
Proof.
  intros H. unfold tz_denotes in H. apply first_some_some in H. unfold all_oforms in H. cbn [map In] in H.
  unfold tz_reading, off_fields in H.
  destruct H as [H | [H | [H | [H | [H | []]]]]].
  - destruct (pbind (lit cZ) _ t) as [[ov [|? ?]]|] eqn:E; try discriminate.
    inv_p E. apply lit_inv in E0. subst. cbn in H. injection H as <-. fin_off (OZulu false).
  - destruct (pbind (lit cz) _ t) as [[ov [|? ?]]|] eqn:E; try discriminate.
    inv_p E. apply lit_inv in E0. subst. cbn in H. injection H as <-. fin_off (OZulu true).
  - destruct (pbind sign _ t) as [[ov [|? ?]]|] eqn:E; try discriminate.
    inv_p E. apply num_inv in E1. destruct E1 as [-> B]. rewrite app_nil_r in *.
    apply off_value_inv in H; try lia. destruct H as [-> W].
    apply sign_inv in E0. destruct E0 as [[-> ->] | [-> ->]];
      match goal with |- context [digits_n 2 ?h] => first [solve [fin_off (OHH false h)] | solve [fin_off (OHH true h)]] end.
  - destruct (pbind sign _ t) as [[ov [|? ?]]|] eqn:E; try discriminate.
    inv_p E. apply num_inv in E1. destruct E1 as [-> B]. apply num_inv in E2. destruct E2 as [-> B2].
    rewrite app_nil_r in *.
    apply off_value_inv in H; try lia. destruct H as [-> W].
    apply sign_inv in E0. destruct E0 as [[-> ->] | [-> ->]];
      match goal with |- context [digits_n 2 ?h ++ digits_n 2 ?m] =>
        first [solve [fin_off (OHHMM false h m)] | solve [fin_off (OHHMM true h m)]] end.
  - destruct (pbind sign _ t) as [[ov [|? ?]]|] eqn:E; try discriminate.
    inv_p E. apply num_inv in E1. destruct E1 as [-> B]. apply lit_inv in E2. subst.
    apply num_inv in E3. destruct E3 as [-> B2].
    rewrite app_nil_r in *.
    apply off_value_inv in H; try lia. destruct H as [-> W].
    apply sign_inv in E0. destruct E0 as [[-> ->] | [-> ->]];
      match goal with |- context [digits_n 2 ?h ++ cCOLON :: digits_n 2 ?m] =>
        first [solve [fin_off (OHH_MM false h m)] | solve [fin_off (OHH_MM true h m)]] end.
Qed.
(* ------------------------------------------------------------------ fractions and times *)

Lemma frac_inv r us rest : frac r = Some (us, rest) ->
  exists (comma : bool) ds, r = (if comma then cCOMMA else cDOT) :: ds ++ rest /\ ds <> [] /\
                            forallb is_digit ds = true /\ us = frac_us ds.
Proof.
  unfold frac. destruct r as [|c r]; [discriminate|].
  destruct ((c =? cDOT) || (c =? cCOMMA)) eqn:E; [|discriminate].
  destruct (span_digits r) as [ds rest'] eqn:SD. destruct (span_digits_spec _ _ _ SD) as [-> D].
  destruct ds as [|d ds]; [discriminate|]. intros [= <- <-].
  exists (c =? cCOMMA), (d :: ds). repeat split; try assumption; try discriminate.
  f_equal. destruct (c =? cCOMMA) eqn:E2; consts; lia.
Qed.

Lemma frac_params ds : ds <> [] -> forallb is_digit ds = true ->
  let k := length ds in
  let extra := map (fun c => c - 48) (skipn 6 ds) in
  let us := frac_us ds in
  (1 <=? k)%nat && Nat.eqb (length extra) (k - 6) && forallb (fun e => (0 <=? e) && (e <=? 9)) extra = true /\
  frac_digits k extra us = ds /\ 0 <= us < 1000000 /\
  us / 10 ^ (6 - Z.of_nat (Nat.min k 6)) * 10 ^ (6 - Z.of_nat (Nat.min k 6)) = us.
Proof.
  intros N D. cbv zeta. rewrite <- (frac_us_eq ds D).
  assert (K1 : (1 <= length ds)%nat) by (destruct ds; [congruence | cbn; lia]).
  assert (Db : forallb is_digit (skipn 6 ds) = true).
  { rewrite <- (firstn_skipn 6 ds), forallb_app in D. now apply andb_true_iff in D. }
  assert (Da : forallb is_digit (firstn 6 ds) = true).
  { rewrite <- (firstn_skipn 6 ds), forallb_app in D. now apply andb_true_iff in D. }
  assert (WE : forallb (fun e => (0 <=? e) && (e <=? 9)) (map (fun c => c - 48) (skipn 6 ds)) = true).
  { rewrite forallb_forall in *. intros x Hx. apply in_map_iff in Hx as (c & <- & Hc).
    specialize (Db c Hc). unfold is_digit in Db. lia. }
  split; [|split; [|split]].
  - rewrite WE, andb_true_r. rewrite map_length, skipn_length. apply andb_true_iff. split.
    + now apply Nat.leb_le.
    + apply Nat.eqb_refl.
  - unfold frac_digits. destruct (Nat.leb (length ds) 6) eqn:K.
    + apply Nat.leb_le in K. rewrite (firstn_all2 (n := 6%nat)) by lia.
      rewrite skipn_all2 by lia. cbn [map]. rewrite app_nil_r.
      pose proof (int_acc_bounds ds 0 D ltac:(lia)) as B.
      rewrite firstn_digits; try lia;
        try (apply Z.mul_nonneg_nonneg; [lia | apply Z.pow_nonneg; lia]).
      replace (Z.of_nat (6 - length ds)) with (6 - Z.of_nat (length ds)) by lia.
      rewrite Z.div_mul by (apply Z.pow_nonzero; lia). symmetry. now apply digits_of_list.
    + apply Nat.leb_gt in K.
      assert (La : length (firstn 6 ds) = 6%nat) by (rewrite firstn_length; lia).
      rewrite La. change (6 - Z.of_nat 6) with 0. rewrite Z.pow_0_r, Z.mul_1_r.
      rewrite (firstn_all2 (n := length ds)) by (rewrite digits_n_length; lia).
      rewrite map_map. rewrite (map_ext _ (fun c => c)) by (intros; lia). rewrite map_id.
      rewrite <- (firstn_skipn 6 ds) at 3. f_equal.
      rewrite <- La at 1. symmetry. now apply digits_of_list.
  - pose proof (int_acc_bounds (firstn 6 ds) 0 Da ltac:(lia)) as B.
    assert (L6 : (length (firstn 6 ds) <= 6)%nat) by (rewrite firstn_length; lia).
    set (n := length (firstn 6 ds)) in *. set (A := int_acc 0 (firstn 6 ds)) in *.
    assert (P : 10 ^ Z.of_nat n * 10 ^ (6 - Z.of_nat n) = 1000000).
    { rewrite <- Z.pow_add_r by lia. replace (Z.of_nat n + (6 - Z.of_nat n)) with 6 by lia. reflexivity. }
    assert (0 < 10 ^ (6 - Z.of_nat n)) by (apply Z.pow_pos_nonneg; lia).
    assert (0 < 10 ^ Z.of_nat n) by (apply Z.pow_pos_nonneg; lia).
    nia.
  - destruct (Nat.leb (length ds) 6) eqn:K.
    + apply Nat.leb_le in K. rewrite (firstn_all2 (n := 6%nat)) by lia. rewrite Nat.min_l by lia.
      rewrite Z.div_mul by (apply Z.pow_nonzero; lia). reflexivity.
    + apply Nat.leb_gt in K. rewrite Nat.min_r by lia. change (6 - Z.of_nat 6) with 0.
      rewrite Z.pow_0_r, Z.div_1_r. lia.
Qed.

Lemma tzpart_inv rest tz : tzpart rest = Some tz ->
  exists o, wf_off o = true /\ rest = render_off o /\ tz = tz_of o.
Proof.
  unfold tzpart. destruct rest as [|c r].
  - intros [= <-]. exists ONone. repeat split.
  - intros H. destruct (tz_denotes_inv _ _ H) as (o & _ & W & E & T). exists o. auto.
Qed.

Lemma fin_spec_inv h m s us rest v : fin_spec h m s us rest = Some v ->
  exists o, wf_off o = true /\ rest = render_off o /\ v = (h, m, s, us, tz_of o) /\
            clock_ok h m s us = true.
Proof.
  unfold fin_spec. destruct (tzpart rest) as [tz|] eqn:T; [|discriminate].
  destruct (clock_ok h m s us) eqn:C; [|discriminate]. intros [= <-].
  destruct (tzpart_inv _ _ T) as (o & W & E & ->). exists o. auto.
Qed.

Lemma time_denotes_raw_inv t h mi s us tz : time_denotes_raw t = Some (h, mi, s, us, tz) ->
  exists ts o, wf_tspec ts = true /\ wf_off o = true /\
               t = render_time ts h mi s us ++ render_off o /\
               trunc_time ts h mi s us = (h, mi, s, us) /\ tz = tz_of o /\
               clock_ok h mi s us = true /\ 0 <= us < 1000000.
Proof.
  intros H. unfold time_denotes_raw in H. apply first_some_some in H.
  unfold all_tforms in H. cbn [map In] in H. rewrite !time_reading_fin in H.
  assert (US : forall h m s u, clock_ok h m s u = true -> 0 <= u < 1000000).
  { intros ? ? ? ? C. unfold clock_ok, valid_hmsu in C. destruct (_ =? 24); lia. }
  destruct H as [H | [H | [H | [H | [H | [H | [H | []]]]]]]];
    match type of H with match time_fields ?f t with _ => _ end = _ =>
      destruct (time_fields f t) as [[[[[h0 m0] s0] us0] rest]|] eqn:TF; [|discriminate];
      unfold time_fields in TF end;
    inv_p TF;
    repeat match goal with
    | E : num _ _ = Some _ |- _ => apply num_inv in E; destruct E as [-> ?]
    | E : lit _ _ = Some _ |- _ => apply lit_inv in E; subst
    end;
    destruct (fin_spec_inv _ _ _ _ _ _ H) as (o & Wo & -> & [= -> -> -> -> ->] & C).
  - exists (TS THour false 0 []), o. repeat split; auto; try (now apply US in C); try (cbn [render_time]; now rewrite <- ?app_assoc).
  - exists (TS TMinX false 0 []), o. repeat split; auto; try (now apply US in C); try (cbn [render_time]; now rewrite <- ?app_assoc).
  - exists (TS TMinB false 0 []), o. repeat split; auto; try (now apply US in C); try (cbn [render_time]; now rewrite <- ?app_assoc).
  - exists (TS TSecX false 0 []), o. repeat split; auto; try (now apply US in C); try (cbn [render_time]; now rewrite <- ?app_assoc).
  - exists (TS TSecB false 0 []), o. repeat split; auto; try (now apply US in C); try (cbn [render_time]; now rewrite <- ?app_assoc).
  - match goal with E : frac _ = Some _ |- _ => apply frac_inv in E; destruct E as (comma & ds & -> & N & D & ->) end.
    destruct (frac_params ds N D) as (W & FD & B & TR).
    exists (TS TFracX comma (length ds) (map (fun c => c - 48) (skipn 6 ds))), o.
    repeat split; auto.
    + cbn [render_time]. unfold render_frac. fold (frac_digits (length ds) (map (fun c => c - 48) (skipn 6 ds)) (frac_us ds)).
      rewrite FD. rewrite <- !app_assoc. reflexivity.
    + cbn [trunc_time]. now rewrite TR.
    + lia.
    + lia.
  - match goal with E : frac _ = Some _ |- _ => apply frac_inv in E; destruct E as (comma & ds & -> & N & D & ->) end.
    destruct (frac_params ds N D) as (W & FD & B & TR).
    exists (TS TFracB comma (length ds) (map (fun c => c - 48) (skipn 6 ds))), o.
    repeat split; auto.
    + cbn [render_time]. unfold render_frac. fold (frac_digits (length ds) (map (fun c => c - 48) (skipn 6 ds)) (frac_us ds)).
      rewrite FD. rewrite <- !app_assoc. reflexivity.
    + cbn [trunc_time]. now rewrite TR.
    + lia.
    + lia.
Qed.
(* ------------------------------------------------------------------ every recognised string is a rendering *)

Theorem denotes_is_render sep s v : iso_denotes sep s = Some v ->
  exists f o y m d h mi sec us,
    wf_fmt f sep o = true /\ valid_ymd y m d = true /\
    s = render_iso f (y, m, d, h, mi, sec, us) o /\
    ((valid_hmsu h mi sec us = true /\ v = expected f (y, m, d, h, mi, sec, us) o) \/
     (h = 24 /\ mi = 0 /\ sec = 0 /\ us = 0 /\ f_time f <> None /\ expected_2400 (y, m, d) o = Some v)).
Proof.
  unfold iso_denotes. destruct (all_ascii s) eqn:A; [|discriminate]. intros H.
  apply first_some_some in H. apply in_map_iff in H as (df & R & _).
  rewrite reading_tail in R. destruct (date_fields df s) as [[raw rest]|] eqn:DF; [|discriminate].
  unfold spec_tail in R. destruct rest as [|c t].
  - destruct (date_value raw) as [[[y m] d]|] eqn:DV; [|discriminate]. injection R as <-.
    destruct (date_fields_inv _ _ _ _ _ _ _ DF DV) as (V & -> & TD).
    exists (mkFmt df None 0), ONone, y, m, d, 0, 0, 0, 0.
    repeat split; try assumption. left. split; [reflexivity|]. unfold expected. cbn [f_date f_time]. now rewrite TD.
  - destruct (complete df && sep_ok sep df c) eqn:CS; [|discriminate].
    destruct (date_value raw) as [[[y m] d]|] eqn:DV; [|discriminate].
    destruct (time_denotes_raw t) as [[[[[h mi] sec] us] tz]|] eqn:TD; [|discriminate].
    destruct (date_fields_inv _ _ _ _ _ _ _ DF DV) as (V & -> & TDt).
    destruct (time_denotes_raw_inv _ _ _ _ _ _ TD) as (ts & o & Wt & Wo & -> & TT & -> & C & Bu).
    assert (C128 : c <? 128 = true).
    { rewrite all_ascii_app in A. apply andb_true_iff in A as [_ A]. unfold all_ascii in A. cbn [forallb] in A.
      now apply andb_true_iff in A as [A _]. }
    exists (mkFmt df (Some ts) c), o, y, m, d, h, mi, sec, us.
    split; [|split; [exact V|split; [reflexivity|]]].
    + unfold wf_fmt. cbn [f_time f_date f_sep]. now rewrite CS, C128, Wt, Wo.
    + unfold combine in R. unfold clock_ok in C. destruct (h =? 24) eqn:H24.
      * right. assert (h = 24 /\ mi = 0 /\ sec = 0 /\ us = 0) as (-> & -> & -> & ->) by lia.
        repeat split; try discriminate. unfold expected_2400.
        destruct (ord_of_ymd y m d + 1 <=? max_ord); [|discriminate].
        destruct (ymd_of_ord (ord_of_ymd y m d + 1)) as [[y' m'] d']. exact R.
      * left. split; [exact C|]. injection R as <-. unfold expected. cbn [f_date f_time].
        now rewrite TDt, TT.
Qed.

(* with C20's soundness: whatever isoparse accepts is a rendering of what it returns *)
Corollary isoparse_accepts_only_renderings sep s v : isoparse sep s = Ok v ->
  exists f o y m d h mi sec us,
    wf_fmt f sep o = true /\ valid_ymd y m d = true /\
    s = render_iso f (y, m, d, h, mi, sec, us) o /\
    ((valid_hmsu h mi sec us = true /\ v = expected f (y, m, d, h, mi, sec, us) o) \/
     (h = 24 /\ mi = 0 /\ sec = 0 /\ us = 0 /\ f_time f <> None /\ expected_2400 (y, m, d) o = Some v)).
Proof. intros H. apply denotes_is_render. now apply isoparse_sound. Qed.

Corollary parse_tzstr_accepts_only_renderings s tz : parse_tzstr s true = Ok tz ->
  exists o, o <> ONone /\ wf_off o = true /\ s = render_off o /\ tz = tz_of o.
Proof.
  rewrite parse_tzstr_equiv. unfold tzstr_denotes. destruct (all_ascii s); [|discriminate].
  destruct (tz_denotes true s) eqn:E; [|discriminate]. intros [= <-]. now apply tz_denotes_inv.
Qed.

Corollary parse_isodate_accepts_only_renderings s y m d : parse_isodate s = Ok (y, m, d) ->
  exists f, valid_ymd y m d = true /\ s = render_date f y m d /\ trunc_date f y m d = (y, m, d).
Proof.
  rewrite parse_isodate_equiv. unfold date_denotes. destruct (all_ascii s); [|discriminate].
  destruct (first_some _) eqn:E; [|discriminate]. intros [= ->].
  apply first_some_some in E. apply in_map_iff in E as (f & R & _). unfold date_reading in R.
  destruct (date_fields f s) as [[raw [|? ?]]|] eqn:DF; try discriminate.
  destruct (date_fields_inv _ _ _ _ _ _ _ DF R) as (V & S & T). rewrite app_nil_r in S. exists f. auto.
Qed.

Corollary parse_isotime_accepts_only_renderings s v : parse_isotime s = Ok v ->
  exists ts o h mi sec us,
    wf_tspec ts = true /\ wf_off o = true /\ s = render_time ts h mi sec us ++ render_off o /\
    trunc_time ts h mi sec us = (h, mi, sec, us) /\ clock_ok h mi sec us = true /\
    v = (if h =? 24 then 0 else h, mi, sec, us, tz_of o).
Proof.
  rewrite parse_isotime_equiv. unfold time_denotes. destruct (all_ascii s); [|discriminate].
  destruct (time_denotes_raw s) as [[[[[h mi] sec] us] tz]|] eqn:E; [|discriminate]. intros [= <-].
  destruct (time_denotes_raw_inv _ _ _ _ _ _ E) as (ts & o & Wt & Wo & S & T & -> & C & _).
  exists ts, o, h, mi, sec, us. auto 10.
Qed.
(* a separator other than the configured one is rejected, whatever follows it *)
Theorem wrong_separator_rejected x f y m d c t :
  valid_ymd y m d = true -> complete f = true -> (f = FOrdB -> is_digit c = false) -> c <> x ->
  isoparse (Some x) (render_date f y m d ++ c :: t) = Err ValueError.
Proof.
  intros V Cf Hd Hc. rewrite isoparse_equiv. unfold iso_denotes.
  destruct (all_ascii _); [|reflexivity].
  pose proof (date_fields_render f y m d (c :: t) V) as DF.
  assert (L : live f (c :: t) = true).
  { cbn [live]. rewrite Cf. destruct f; cbn [is_ordb andb negb]; try reflexivity. now rewrite Hd. }
  rewrite (live_form_pick (fun f' => reading (Some x) f' _) _ f _ _
             (fun f' H => dead_reading (Some x) f' _ H) DF L).
  rewrite reading_tail, DF. unfold spec_tail, sep_ok.
  replace (c =? x) with false by lia. now rewrite andb_false_r.
Qed.

(* trailing or leading garbage: a complete reading must consume the whole string *)
Example trailing_garbage_rejected :
  isoparse None (map Z.of_nat [50;48;49;52;45;48;49;45;48;49;84;49;50;58;51;48;90;120])%nat = Err ValueError /\
  isoparse None (map Z.of_nat [32;50;48;49;52;45;48;49;45;48;49])%nat = Err ValueError.
Proof. vm_compute. split; reflexivity. Qed.
