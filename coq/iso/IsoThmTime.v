(* Model = recogniser, part 2: the time-of-day parser.
   [tloop_r] is the while loop of _parse_isotime on the REMAINING input (instead of string +
   position); [time_loop_mp] shows they are the same function. *)
From Coq Require Import ZArith List Bool Lia ZifyBool.
From V Require Import base.Cal iso.IsoBase iso.IsoModel iso.IsoSpec iso.IsoThm iso.IsoThmTz.
Import ListNotations.
Open Scope Z_scope.
Ltac Zify.zify_post_hook ::= Z.to_euclidean_division_equations.

Definition nonnil (r : list Z) : bool := match r with [] => false | _ => true end.

Fixpoint tloop_r (fuel : nat) (r : list Z) (comp : Z) (has_sep : bool)
         (hms : Z * Z * Z) (us : Z) (tz : tzv) : res (list Z * (Z * Z * Z) * Z * tzv) :=
  if negb (nonnil r && (comp <? 5)) then Ok (r, hms, us, tz) else
  match fuel with
  | O => Err OutOfFuel
  | S fuel' =>
    let comp := comp + 1 in
    if (0 <? comp) && bytes_in1 (firstn 1 r) [cDASH; cPLUS; cZ; cz] then
      bind (parse_tzstr_raw r true) (fun tz' => Ok ([], hms, us, tz'))
    else
    bind (if (comp =? 1) && beq (firstn 1 r) TIME_SEP then Ok (true, skipn 1 r)
          else if (comp =? 2) && has_sep then
            (if negb (beq (firstn 1 r) TIME_SEP) then Err ValueError else Ok (has_sep, skipn 1 r))
          else Ok (has_sep, r)) (fun hp =>
    let '(has_sep, r) := hp in
    if comp <? 3 then
      bind (parse_digits (firstn 2 r) 2) (fun v =>
      tloop_r fuel' (skipn 2 r) comp has_sep (set_comp comp v hms) us tz)
    else if comp =? 3 then
      match frac_match r with
      | None => tloop_r fuel' r comp has_sep hms us tz
      | Some ds =>
          let us_str := firstn 6 ds in
          tloop_r fuel' (skipn (1 + length ds) r) comp has_sep hms
                    (int_acc 0 us_str * 10 ^ (6 - Z.of_nat (length us_str))) tz
      end
    else tloop_r fuel' r comp has_sep hms us tz)
  end.

Definition mp (t : list Z) (x : res (list Z * (Z * Z * Z) * Z * tzv)) : res (nat * (Z * Z * Z) * Z * tzv) :=
  match x with
  | Ok (r', a, b, c) => Ok ((length t - length r')%nat, a, b, c)
  | Err e => Err e
  end.

Lemma sl_skipn t a k : sl t a (a + k) = firstn k (skipn a t).
Proof. unfold sl. f_equal. lia. Qed.

Lemma nonnil_skipn t pos : (pos <= length t)%nat -> nonnil (skipn pos t) = (pos <? length t)%nat.
Proof.
  intros H. pose proof (skipn_length pos t) as L.
  destruct (skipn pos t) eqn:E; cbn [nonnil length] in *.
  - symmetry. apply Nat.ltb_ge. lia.
  - symmetry. apply Nat.ltb_lt. lia.
Qed.

Lemma skipn_add (t : list Z) a b : skipn (a + b) t = skipn b (skipn a t).
Proof.
  revert t. induction a as [|a IH]; intros t; [reflexivity|].
  destruct t as [|x t]; cbn [Nat.add skipn]; [now rewrite skipn_nil | apply IH].
Qed.

Lemma span_digits_length l : (length (fst (span_digits l)) <= length l)%nat.
Proof.
  induction l as [|c l IH]; cbn [span_digits]; [cbn; lia|].
  destruct (is_digit c); [|cbn; lia]. destruct (span_digits l) as [a b]. cbn [fst length] in *. lia.
Qed.

Lemma frac_match_length r ds : frac_match r = Some ds -> (1 + length ds <= length r)%nat.
Proof.
  unfold frac_match. destruct r as [|c r]; [discriminate|].
  destruct ((c =? cDOT) || (c =? cCOMMA)); [|discriminate].
  pose proof (span_digits_length r) as L.
  destruct (fst (span_digits r)) eqn:E; [discriminate|]. intros [= <-]. cbn [length] in *. lia.
Qed.

Lemma parse_digits_len f k v : parse_digits f k = Ok v -> length f = k.
Proof.
  unfold parse_digits. destruct (Nat.eqb (length f) k) eqn:E; cbn [negb orb]; [|discriminate].
  intros _. now apply Nat.eqb_eq.
Qed.

Lemma firstn_len_le (r : list Z) k : length (firstn k r) = k -> (k <= length r)%nat.
Proof. rewrite firstn_length. lia. Qed.

Lemma time_loop_mp fuel : forall t pos comp hs hms us tz, (pos <= length t)%nat ->
  time_loop fuel t pos comp hs hms us tz = mp t (tloop_r fuel (skipn pos t) comp hs hms us tz).
Proof.
  induction fuel as [|fuel IH]; intros t pos comp hs hms us tz Hp.
  - cbn [time_loop tloop_r]. rewrite nonnil_skipn by assumption.
    destruct (negb ((pos <? length t)%nat && (comp <? 5))); cbn [mp]; [|reflexivity].
    rewrite skipn_length. do 4 f_equal. lia.
  - cbn [time_loop tloop_r]. rewrite nonnil_skipn by assumption.
    destruct (negb ((pos <? length t)%nat && (comp <? 5))) eqn:E0; cbn [mp].
    { rewrite skipn_length. do 4 f_equal. lia. }
    cbv zeta. rewrite !sl_skipn. set (r := skipn pos t).
    destruct ((0 <? comp + 1) && bytes_in1 (firstn 1 r) [cDASH; cPLUS; cZ; cz]).
    { destruct (parse_tzstr_raw r true); cbn [bind mp length]; [do 4 f_equal; lia | reflexivity]. }
    assert (Hr1 : skipn 1 r = skipn (pos + 1) t) by (unfold r; now rewrite skipn_add).
    assert (Hlt : (pos < length t)%nat).
    { destruct (pos <? length t)%nat eqn:E; [now apply Nat.ltb_lt in E | discriminate]. }
    (* the separator step *)
    assert (STEP : forall hs' pos', (pos' <= length t)%nat ->
      (if comp + 1 <? 3
       then bind (parse_digits (sl t pos' (pos' + 2)) 2) (fun v =>
              time_loop fuel t (pos' + 2) (comp + 1) hs' (set_comp (comp + 1) v hms) us tz)
       else if comp + 1 =? 3
       then match frac_match (skipn pos' t) with
            | Some ds => time_loop fuel t (pos' + (1 + length ds)) (comp + 1) hs' hms
                           (int_acc 0 (firstn 6 ds) * 10 ^ (6 - Z.of_nat (length (firstn 6 ds)))) tz
            | None => time_loop fuel t pos' (comp + 1) hs' hms us tz
            end
       else time_loop fuel t pos' (comp + 1) hs' hms us tz) =
      mp t (let r := skipn pos' t in
        if comp + 1 <? 3
        then bind (parse_digits (firstn 2 r) 2) (fun v =>
               tloop_r fuel (skipn 2 r) (comp + 1) hs' (set_comp (comp + 1) v hms) us tz)
        else if comp + 1 =? 3
        then match frac_match r with
             | Some ds => tloop_r fuel (skipn (1 + length ds) r) (comp + 1) hs' hms
                           (int_acc 0 (firstn 6 ds) * 10 ^ (6 - Z.of_nat (length (firstn 6 ds)))) tz
             | None => tloop_r fuel r (comp + 1) hs' hms us tz
             end
        else tloop_r fuel r (comp + 1) hs' hms us tz)).
    { intros hs' pos' Hp'. cbv zeta. rewrite sl_skipn.
      destruct (comp + 1 <? 3).
      - destruct (parse_digits (firstn 2 (skipn pos' t)) 2) eqn:PD; cbn [bind mp]; [|reflexivity].
        apply parse_digits_len, firstn_len_le in PD. rewrite skipn_length in PD.
        rewrite IH by lia. now rewrite skipn_add.
      - destruct (comp + 1 =? 3).
        + destruct (frac_match (skipn pos' t)) eqn:FM.
          * apply frac_match_length in FM. rewrite skipn_length in FM.
            rewrite IH by lia. now rewrite skipn_add.
          * now apply IH.
        + now apply IH. }
    destruct ((comp + 1 =? 1) && beq (firstn 1 r) TIME_SEP).
    { cbn [bind]. rewrite Hr1. apply STEP. lia. }
    destruct ((comp + 1 =? 2) && hs).
    { destruct (negb (beq (firstn 1 r) TIME_SEP)); cbn [bind mp]; [reflexivity|].
      rewrite Hr1. apply STEP. lia. }
    cbn [bind]. apply STEP. lia.
Qed.

Lemma tloop_S fuel r comp has_sep hms us tz :
  tloop_r (S fuel) r comp has_sep hms us tz =
  if negb (nonnil r && (comp <? 5)) then Ok (r, hms, us, tz) else
    let comp := comp + 1 in
    if (0 <? comp) && bytes_in1 (firstn 1 r) [cDASH; cPLUS; cZ; cz] then
      bind (parse_tzstr_raw r true) (fun tz' => Ok ([], hms, us, tz'))
    else
    bind (if (comp =? 1) && beq (firstn 1 r) TIME_SEP then Ok (true, skipn 1 r)
          else if (comp =? 2) && has_sep then
            (if negb (beq (firstn 1 r) TIME_SEP) then Err ValueError else Ok (has_sep, skipn 1 r))
          else Ok (has_sep, r)) (fun hp =>
    let '(has_sep, r) := hp in
    if comp <? 3 then
      bind (parse_digits (firstn 2 r) 2) (fun v =>
      tloop_r fuel (skipn 2 r) comp has_sep (set_comp comp v hms) us tz)
    else if comp =? 3 then
      match frac_match r with
      | None => tloop_r fuel r comp has_sep hms us tz
      | Some ds =>
          let us_str := firstn 6 ds in
          tloop_r fuel (skipn (1 + length ds) r) comp has_sep hms
                    (int_acc 0 us_str * 10 ^ (6 - Z.of_nat (length us_str))) tz
      end
    else tloop_r fuel r comp has_sep hms us tz).
Proof. reflexivity. Qed.

Lemma tloop_0 r comp has_sep hms us tz :
  tloop_r 0 r comp has_sep hms us tz =
  if negb (nonnil r && (comp <? 5)) then Ok (r, hms, us, tz) else Err OutOfFuel.
Proof. reflexivity. Qed.

(* what parse_isotime_raw does with the loop result, followed by the clock-range check that
   every caller performs (datetime() / time() constructors) *)
Definition FIN (x : list Z * (Z * Z * Z) * Z * tzv) : res time5 :=
  let '(r', hms, us, tz) := x in
  let '(h, m, s) := hms in
  if nonnil r' then Err ValueError
  else lift (if clock_ok h m s us then Some (h, m, s, us, tz) else None).

Definition clock_check (v : time5) : res time5 :=
  let '(h, m, s, us, tz) := v in if clock_ok h m s us then Ok v else Err ValueError.

Lemma bind_ext {A B} (x : res A) (f g : A -> res B) : (forall a, f a = g a) -> bind x f = bind x g.
Proof. intros H. destruct x; cbn; [apply H | reflexivity]. Qed.

Lemma bind_bind {A B C} (x : res A) (f : A -> res B) (g : B -> res C) :
  bind (bind x f) g = bind x (fun a => bind (f a) g).
Proof. destruct x; reflexivity. Qed.

Lemma parse_isotime_raw_r t :
  bind (parse_isotime_raw t) clock_check =
  if (length t <? 2)%nat then Err ValueError
  else bind (tloop_r 6 t (-1) false (0, 0, 0) 0 TzNone) FIN.
Proof.
  unfold parse_isotime_raw. cbv zeta. destruct (length t <? 2)%nat eqn:L; [reflexivity|].
  rewrite time_loop_mp by (apply Nat.le_0_l). rewrite skipn_O.
  destruct (tloop_r 6 t (-1) false (0, 0, 0) 0 TzNone) as [[[[r' [[h m] s]] us] tz]|e]; cbn [mp bind]; [|reflexivity].
  assert (Hn : (length t - length r' <? length t)%nat = nonnil r').
  { apply Nat.ltb_ge in L. destruct r'; cbn [nonnil length].
    - apply Nat.ltb_ge. lia.
    - apply Nat.ltb_lt. lia. }
  rewrite Hn. unfold FIN. destruct (nonnil r'); [reflexivity|].
  unfold clock_check, lift.
  destruct (h =? 24) eqn:H24; cbn [andb].
  - destruct (m =? 0) eqn:E1, (s =? 0) eqn:E2, (us =? 0) eqn:E3; cbn [negb orb bind];
      unfold clock_ok; rewrite H24, ?E1, ?E2, ?E3; reflexivity.
  - cbn [bind]. destruct (clock_ok h m s us); reflexivity.
Qed.
Definition tzc (c : Z) : bool := existsb (Z.eqb c) [cDASH; cPLUS; cZ; cz].
Arguments tzc : simpl never.

Lemma tzc_facts c : tzc c = true ->
  is_digit c = false /\ (c =? 58) = false /\ (c =? 46) = false /\ (c =? 44) = false.
Proof. unfold tzc, is_digit. cbn. consts. lia. Qed.

Lemma tz_denotes_nontz z c r : tzc c = false -> tz_denotes z (c :: r) = None.
Proof.
  unfold tzc. cbn. consts. intros H.
  unfold tz_denotes, tz_reading, all_oforms, off_fields, sign, lit, pbind, pret. consts. cbn.
  assert ((c =? 90) = false) by lia. assert ((c =? 122) = false) by lia.
  assert ((c =? 43) = false) by lia. assert ((c =? 45) = false) by lia.
  rw_all. reflexivity.
Qed.

Lemma span_digits_spec l : forall ds rest, span_digits l = (ds, rest) ->
  l = ds ++ rest /\ forallb is_digit ds = true.
Proof.
  induction l as [|c l IH]; intros ds rest; cbn [span_digits].
  - intros [= <- <-]. split; reflexivity.
  - destruct (is_digit c) eqn:D.
    + destruct (span_digits l) as [a b]. intros [= <- <-].
      destruct (IH a b eq_refl) as [-> Hd]. split; [reflexivity|]. cbn [forallb]. now rewrite D, Hd.
    + intros [= <- <-]. split; reflexivity.
Qed.

Lemma int_acc_bounds l : forall a, forallb is_digit l = true -> 0 <= a ->
  a * 10 ^ Z.of_nat (length l) <= int_acc a l < (a + 1) * 10 ^ Z.of_nat (length l).
Proof.
  induction l as [|c l IH]; intros a H Ha.
  - cbn. lia.
  - cbn [forallb] in H. apply andb_true_iff in H as [Hc Hl].
    unfold int_acc in *. cbn [fold_left length]. rewrite Nat2Z.inj_succ, Z.pow_succ_r by lia.
    unfold is_digit in Hc.
    specialize (IH (a * 10 + (c - 48)) Hl ltac:(lia)).
    assert (0 < 10 ^ Z.of_nat (length l)) by (apply Z.pow_pos_nonneg; lia).
    nia.
Qed.

Lemma frac_us_eq ds : forallb is_digit ds = true ->
  int_acc 0 (firstn 6 ds) * 10 ^ (6 - Z.of_nat (length (firstn 6 ds))) = frac_us ds.
Proof.
  intros H. unfold frac_us.
  destruct (Nat.leb (length ds) 6) eqn:L.
  - apply Nat.leb_le in L. rewrite firstn_all2 by lia.
    replace 1000000 with (10 ^ (6 - Z.of_nat (length ds)) * 10 ^ Z.of_nat (length ds)).
    + rewrite Z.mul_assoc, Z.div_mul; [reflexivity|]. apply Z.pow_nonzero; lia.
    + rewrite <- Z.pow_add_r by lia.
      replace (6 - Z.of_nat (length ds) + Z.of_nat (length ds)) with 6 by lia. reflexivity.
  - apply Nat.leb_gt in L.
    rewrite <- (firstn_skipn 6 ds) at 3 4. set (a := firstn 6 ds). set (b := skipn 6 ds).
    assert (La : length a = 6%nat) by (unfold a; rewrite firstn_length; lia).
    rewrite La. change (6 - Z.of_nat 6) with 0. rewrite Z.pow_0_r, Z.mul_1_r.
    rewrite int_acc_app, app_length, La.
    assert (Hb : forallb is_digit b = true).
    { rewrite <- (firstn_skipn 6 ds), forallb_app in H. now apply andb_true_iff in H. }
    assert (Ha : forallb is_digit a = true).
    { rewrite <- (firstn_skipn 6 ds), forallb_app in H. now apply andb_true_iff in H. }
    pose proof (int_acc_bounds a 0 Ha ltac:(lia)) as Ba.
    pose proof (int_acc_bounds b (int_acc 0 a) Hb ltac:(lia)) as Bb.
    rewrite Nat2Z.inj_add, Z.pow_add_r by lia. change (Z.of_nat 6) with 6. change (10 ^ 6) with 1000000.
    set (A := int_acc 0 a) in *. set (P := 10 ^ Z.of_nat (length b)) in *.
    assert (0 < P) by (apply Z.pow_pos_nonneg; lia).
    apply Z.div_unique_pos with (r := (int_acc A b - A * P) * 1000000); nia.
Qed.

Definition tzpart (rest : list Z) : option tzv :=
  match rest with [] => Some TzNone | _ => tz_denotes true rest end.
Definition fin_spec (h m s us : Z) (rest : list Z) : option time5 :=
  match tzpart rest with
  | None => None
  | Some tz => if clock_ok h m s us then Some (h, m, s, us, tz) else None
  end.

Lemma time_reading_fin f t :
  time_reading f t = match time_fields f t with
                     | None => None
                     | Some ((h, m, s, us), rest) => fin_spec h m s us rest
                     end.
Proof. unfold time_reading. destruct (time_fields f t) as [[[[[h m] s] us] rest]|]; reflexivity. Qed.

Arguments tz_denotes : simpl never.
Arguments clock_ok : simpl never.
Arguments span_digits : simpl never.

Lemma bytes_in1_tzc c r : bytes_in1 (firstn 1 (c :: r)) [cDASH; cPLUS; cZ; cz] = tzc c.
Proof. reflexivity. Qed.

Arguments tloop_r : simpl never.

(* no offset character: the loop runs out of components and leaves the input unconsumed *)
Lemma no_tz_err c r hs hms us :
  tzc c = false -> bind (tloop_r 2 (c :: r) 3 hs hms us TzNone) FIN = Err ValueError.
Proof.
  intros T. rewrite tloop_S. cbv zeta. rewrite bytes_in1_tzc, T. cbn -[tloop_r].
  rewrite tloop_S. cbv zeta. rewrite bytes_in1_tzc, T. cbn -[tloop_r].
  rewrite tloop_0. cbn. destruct hms as [[h m] s]. reflexivity.
Qed.

Lemma after_frac rest hs h m s us :
  bind (tloop_r 2 rest 3 hs (h, m, s) us TzNone) FIN = lift (fin_spec h m s us rest).
Proof.
  destruct rest as [|c r].
  - rewrite tloop_S. cbn. unfold fin_spec, tzpart. destruct (clock_ok h m s us); reflexivity.
  - destruct (tzc c) eqn:T.
    + rewrite tloop_S. cbv zeta. rewrite bytes_in1_tzc, T. cbn -[tloop_r].
      rewrite tz_equiv. unfold fin_spec, tzpart.
      destruct (tz_denotes true (c :: r)); cbn; [|reflexivity].
      destruct (clock_ok h m s us); reflexivity.
    + rewrite no_tz_err by assumption. unfold fin_spec, tzpart. now rewrite tz_denotes_nontz.
Qed.

Lemma skipn_app_exact (a b : list Z) : skipn (length a) (a ++ b) = b.
Proof. induction a; [reflexivity | assumption]. Qed.

(* the loop after the seconds field: nothing, an offset, or a fraction and then nothing / an offset *)
Lemma sec_tail r hs h m s :
  bind (tloop_r 3 r 2 hs (h, m, s) 0 TzNone) FIN =
  lift (first_some [fin_spec h m s 0 r;
                    match frac r with None => None | Some (us, rest) => fin_spec h m s us rest end]).
Proof.
  destruct r as [|c r].
  - rewrite tloop_S. cbn. unfold fin_spec, tzpart. destruct (clock_ok h m s 0); reflexivity.
  - destruct (tzc c) eqn:T.
    + destruct (tzc_facts c T) as (_ & _ & F1 & F2).
      assert (FR : frac (c :: r) = None).
      { unfold frac. consts. now rewrite F1, F2. }
      rewrite FR.
      rewrite tloop_S. cbv zeta. rewrite bytes_in1_tzc, T. cbn -[tloop_r].
      rewrite tz_equiv. unfold fin_spec at 1, tzpart.
      destruct (tz_denotes true (c :: r)); cbn; [|reflexivity].
      destruct (clock_ok h m s 0); reflexivity.
    + rewrite tloop_S. cbv zeta. rewrite bytes_in1_tzc, T. cbn -[tloop_r frac_match frac firstn skipn int_acc length Z.pow Z.of_nat Z.sub Z.mul].
      unfold fin_spec at 1, tzpart. rewrite tz_denotes_nontz by assumption. cbn [first_some].
      unfold frac_match, frac.
      destruct ((c =? cDOT) || (c =? cCOMMA)).
      2:{ now apply no_tz_err. }
      destruct (span_digits r) as [ds rest] eqn:SD. cbn [fst].
      destruct ds as [|d ds].
      { now apply no_tz_err. }
      destruct (span_digits_spec _ _ _ SD) as [-> Hd].
      rewrite frac_us_eq by assumption.
      change (1 + length (d :: ds))%nat with (S (length (d :: ds))).
      rewrite skipn_cons, skipn_app_exact, after_frac.
      destruct (fin_spec h m s (frac_us (d :: ds)) rest); reflexivity.
Qed.

Arguments frac : simpl never.
Arguments frac_match : simpl never.

(* character classes that matter inside a time: offset start, digit, colon, anything else *)
Ltac cls c :=
  destruct (tzc c) eqn:?;
  [ let F := fresh in pose proof (tzc_facts c ltac:(assumption)) as F;
    destruct F as (? & ? & ? & ?)
  | destruct (is_digit c) eqn:?;
    [ assert ((c =? 58) = false) by (unfold is_digit in *; lia)
    | destruct (c =? 58) eqn:? ] ].

Ltac step ::= cbn -[Z.mul Z.add Z.sub Z.pow]; repeat (progress rw_all; cbn -[Z.mul Z.add Z.sub Z.pow]).
Ltac un := rewrite tloop_S; cbv zeta; rewrite ?bytes_in1_tzc;
  change (-1 + 1) with 0; change (0 + 1) with 1; change (1 + 1) with 2;
  unfold parse_digits, isdigit; consts; step; rewrite ?orb_true_r, ?andb_false_r; step.
Ltac scbn := cbn -[Z.mul Z.add Z.sub Z.pow].
Ltac nontz := repeat match goal with Hc : tzc ?c = false |- context [tz_denotes ?z (?c :: ?r)] =>
                       rewrite (tz_denotes_nontz z c r Hc) end.
Ltac leaf := try reflexivity; unfold fin_spec; cbn [tzpart]; nontz; scbn;
  repeat (match goal with
  | |- context [tz_denotes true ?r] => destruct (tz_denotes true r)
  | |- context [tzpart ?r] => destruct (tzpart r)
  | |- context [frac ?r] => destruct (frac r) as [[? ?]|]
  | |- context [if clock_ok ?h ?m ?s ?u then _ else _] => destruct (clock_ok h m s u)
  end; scbn); try reflexivity.

Lemma time_equiv t : bind (parse_isotime_raw t) clock_check = lift (time_denotes_raw t).
Proof.
  rewrite parse_isotime_raw_r. unfold time_denotes_raw, all_tforms. cbn [map]. rewrite !time_reading_fin.
  unfold time_fields, num, lit, pbind, pret. consts.
  destruct t as [|h1 [|h2 r2]].
  - reflexivity.
  - cbn. destruct (is_digit h1); reflexivity.
  - dig_split h1; dig_split h2; un; try reflexivity.
    destruct r2 as [|c3 r3].
    { un. leaf. }
    cls c3.
    + un. rewrite tz_equiv. leaf.
    + (* basic: hhmm... ; c3 = m1 *)
      destruct r3 as [|m2 r4]; [un; leaf|].
      dig_split m2; un; [|leaf].
      destruct r4 as [|c5 r5]; [un; leaf|].
      cls c5.
      * un. rewrite tz_equiv. leaf.
      * destruct r5 as [|s2 r6]; [un; leaf|].
        dig_split s2; un; [|leaf]. rewrite sec_tail. leaf.
      * un. leaf.
      * un. leaf.
    + (* extended: hh:mm... *)
      destruct r3 as [|m1 [|m2 r5]]; [un; leaf | dig_split m1; un; leaf |].
      dig_split m1; [dig_split m2|]; un; [|leaf|leaf].
      destruct r5 as [|c6 r6]; [un; leaf|].
      cls c6.
      * un. rewrite tz_equiv. leaf.
      * un. leaf.
      * destruct r6 as [|s1 [|s2 r8]]; [un; leaf | dig_split s1; un; leaf |].
        dig_split s1; [dig_split s2|]; un; [|leaf|leaf]. rewrite sec_tail. leaf.
      * un. leaf.
    + un. leaf.
Qed.

(* 24 is only ever returned as 24:00:00.000000 *)
Lemma parse_isotime_raw_24 t h m s us tz :
  parse_isotime_raw t = Ok (h, m, s, us, tz) -> h = 24 -> m = 0 /\ s = 0 /\ us = 0.
Proof.
  unfold parse_isotime_raw. cbv zeta. destruct (length t <? 2)%nat; [discriminate|].
  destruct (time_loop 6 t 0 (-1) false (0, 0, 0) 0 TzNone) as [[[[p [[h' m'] s']] us'] tz']|]; cbn [bind]; [|discriminate].
  destruct (p <? length t)%nat; [discriminate|].
  destruct ((h' =? 24) && (negb (m' =? 0) || negb (s' =? 0) || negb (us' =? 0))) eqn:E; [discriminate|].
  intros [= -> -> -> -> ->] ->. cbn in E. lia.
Qed.

Lemma bind_check (x : res time5) {B} (K : time5 -> res B) :
  (forall h m s us tz, x = Ok (h, m, s, us, tz) -> clock_ok h m s us = false ->
                       K (h, m, s, us, tz) = Err ValueError) ->
  bind x K = bind (bind x clock_check) K.
Proof.
  intros H. destruct x as [[[[[h m] s] us] tz]|e]; [|reflexivity].
  cbn [bind clock_check]. destruct (clock_ok h m s us) eqn:E; [reflexivity|].
  cbn [bind]. now apply H.
Qed.

Theorem parse_isotime_equiv s : parse_isotime s = lift (time_denotes s).
Proof.
  unfold parse_isotime, time_denotes, takes_ascii. destruct (all_ascii s); [|reflexivity].
  rewrite bind_check.
  - rewrite time_equiv. destruct (time_denotes_raw s) as [[[[[h m] sec] us] tz]|] eqn:E; [|reflexivity].
    cbn [lift bind]. unfold mk_time.
    (* the recogniser only returns values that pass clock_ok *)
    assert (C : clock_ok h m sec us = true).
    { pose proof (time_equiv s) as T. rewrite E in T.
      destruct (parse_isotime_raw s) as [[[[[h' m'] s'] us'] tz']|]; [|discriminate].
      cbn [bind clock_check lift] in T. destruct (clock_ok h' m' s' us') eqn:C'; [|discriminate].
      now injection T as -> -> -> -> ->. }
    unfold clock_ok in C. destruct (h =? 24) eqn:H24.
    + assert (m = 0 /\ sec = 0 /\ us = 0) as (-> & -> & ->) by lia. reflexivity.
    + now rewrite C.
  - intros h m sec us tz E C. unfold clock_ok in C. destruct (h =? 24) eqn:H24.
    + destruct (parse_isotime_raw_24 _ _ _ _ _ _ E ltac:(lia)) as (-> & -> & ->). discriminate.
    + unfold mk_time. now rewrite C.
Qed.

Theorem parse_tzstr_equiv s z : parse_tzstr s z = lift (tzstr_denotes z s).
Proof.
  unfold parse_tzstr, tzstr_denotes, takes_ascii. destruct (all_ascii s); [|reflexivity]. apply tz_equiv.
Qed.
