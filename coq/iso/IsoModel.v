(* Executable model of /repo/src/dateutil/parser/isoparser.py (state after commits
   262d2d7, 2b86223, 0081074, 40f9f8b, 77a358f), branch for branch.

   Strings are [list Z] of byte values (for text input: code points; _takes_ascii rejects
   anything >= 128 for both text and bytes).  Positions are [nat]; [sl s a b] is the Python
   slice s[a:b] with clamping.  One error constructor per exception class; [OutOfFuel] is the
   distinguished error of the fuelled while-loop of _parse_isotime (proved unreachable).
   No proofs in this file. *)
From Coq Require Import ZArith List Bool.
From V Require Import base.Cal iso.IsoBase.
Import ListNotations.
Open Scope Z_scope.

Inductive err := ValueError | OverflowError | OutOfFuel.

Inductive res (A : Type) : Type :=
| Ok (a : A)
| Err (e : err).
Arguments Ok {A} a.
Arguments Err {A} e.

Definition bind {A B} (r : res A) (f : A -> res B) : res B :=
  match r with Ok a => f a | Err e => Err e end.

(* ---------------------------------------------------------------- helpers *)

(* bytes.isdigit(): non-empty and every byte an ASCII digit *)
Definition isdigit (f : list Z) : bool :=
  match f with [] => false | _ => forallb is_digit f end.

(* def _parse_digits(field, width) *)
Definition parse_digits (field : list Z) (width : nat) : res Z :=
  if negb (Nat.eqb (length field) width) || negb (isdigit field) then Err ValueError
  else Ok (int_acc 0 field).

(* `x in pat` for a bytes x of length <= 1 (substring test; b'' is in everything) *)
Definition bytes_in1 (x pat : list Z) : bool :=
  match x with
  | [] => true
  | [c] => existsb (Z.eqb c) pat
  | _ => false
  end.

Definition DATE_SEP : list Z := [cDASH].
Definition TIME_SEP : list Z := [cCOLON].

(* datetime.date(y, m, d) *)
Definition mk_date (y m d : Z) : res date3 :=
  if valid_ymd y m d then Ok (y, m, d) else Err ValueError.

(* date + timedelta(days=n) *)
Definition date_add_days (dt : date3) (n : Z) : res date3 :=
  let '(y, m, d) := dt in
  let o := ord_of_ymd y m d + n in
  if (1 <=? o) && (o <=? max_ord) then Ok (ymd_of_ord o) else Err OverflowError.

(* datetime.datetime(y, m, d, h, mi, s, us, tz) *)
Definition mk_datetime (y m d h mi s us : Z) (tz : tzv) : res dt8 :=
  if valid_ymd y m d && valid_hmsu h mi s us then Ok (y, m, d, h, mi, s, us, tz)
  else Err ValueError.

(* datetime.time(h, mi, s, us, tz) *)
Definition mk_time (h mi s us : Z) (tz : tzv) : res time5 :=
  if valid_hmsu h mi s us then Ok (h, mi, s, us, tz) else Err ValueError.

(* ---------------------------------------------------------------- _calculate_weekdate *)

Definition calculate_weekdate (year week day : Z) : res date3 :=
  if negb ((0 <? week) && (week <? 54)) then Err ValueError else
  if negb ((0 <? day) && (day <? 8)) then Err ValueError else
  bind (mk_date year 1 4) (fun jan_4 =>
  let '(_, _, wd) := isocalendar (ord_of_ymd year 1 4) in
  bind (date_add_days jan_4 (- (wd - 1))) (fun week_1 =>
  let week_offset := (week - 1) * 7 + (day - 1) in
  match date_add_days week_1 week_offset with
  | Err OverflowError => Err ValueError                 (* except OverflowError -> ValueError *)
  | Err e => Err e
  | Ok result =>
      let '(ry, rm, rd) := result in
      let '(_, rw, _) := isocalendar (ord_of_ymd ry rm rd) in
      if negb (rw =? week) then Err ValueError else Ok result
  end)).

(* ---------------------------------------------------------------- _parse_isodate_common *)

Definition parse_isodate_common (s : list Z) : res (date3 * nat) :=
  let len_str := length s in
  if (len_str <? 4)%nat then Err ValueError else
  bind (parse_digits (sl s 0 4) 4) (fun y =>
  let pos := 4%nat in
  if (len_str <=? pos)%nat then Ok ((y, 1, 1), pos) else
  let has_sep := beq (sl s pos (pos + 1)) DATE_SEP in
  let pos := if has_sep then (pos + 1)%nat else pos in
  if Z.of_nat len_str - Z.of_nat pos <? 2 then Err ValueError else
  bind (parse_digits (sl s pos (pos + 2)) 2) (fun m =>
  let pos := (pos + 2)%nat in
  if (len_str <=? pos)%nat then
    (if has_sep then Ok ((y, m, 1), pos) else Err ValueError)
  else
  bind (if has_sep then
          (if negb (beq (sl s pos (pos + 1)) DATE_SEP) then Err ValueError else Ok (pos + 1)%nat)
        else Ok pos) (fun pos =>
  if Z.of_nat len_str - Z.of_nat pos <? 2 then Err ValueError else
  bind (parse_digits (sl s pos (pos + 2)) 2) (fun d =>
  Ok ((y, m, d), (pos + 2)%nat))))).

(* ---------------------------------------------------------------- _parse_isodate_uncommon *)

Definition parse_isodate_uncommon (s : list Z) : res (date3 * nat) :=
  if (length s <? 4)%nat then Err ValueError else
  bind (parse_digits (sl s 0 4) 4) (fun year =>
  let has_sep := beq (sl s 4 5) DATE_SEP in
  let pos := (4 + (if has_sep then 1 else 0))%nat in
  if beq (sl s pos (pos + 1)) [cW] then
    let pos := (pos + 1)%nat in
    bind (parse_digits (sl s pos (pos + 2)) 2) (fun weekno =>
    let pos := (pos + 2)%nat in
    bind (if (pos <? length s)%nat then
            if negb (Bool.eqb (beq (sl s pos (pos + 1)) DATE_SEP) has_sep) then Err ValueError
            else
              let pos := (pos + (if has_sep then 1 else 0))%nat in
              bind (parse_digits (sl s pos (pos + 1)) 1) (fun dayno => Ok (dayno, (pos + 1)%nat))
          else Ok (1, pos)) (fun dp =>
    let '(dayno, pos) := dp in
    bind (calculate_weekdate year weekno dayno) (fun base_date => Ok (base_date, pos))))
  else
    if Z.of_nat (length s) - Z.of_nat pos <? 3 then Err ValueError else
    bind (parse_digits (sl s pos (pos + 3)) 3) (fun ordinal_day =>
    let pos := (pos + 3)%nat in
    if (ordinal_day <? 1) || (365 + (if is_leap year then 1 else 0) <? ordinal_day)
    then Err ValueError else
    bind (mk_date year 1 1) (fun jan_1 =>
    bind (date_add_days jan_1 (ordinal_day - 1)) (fun base_date => Ok (base_date, pos))))).

(* def _parse_isodate: try common, `except ValueError:` uncommon *)
Definition parse_isodate_raw (s : list Z) : res (date3 * nat) :=
  match parse_isodate_common s with
  | Ok r => Ok r
  | Err ValueError => parse_isodate_uncommon s
  | Err e => Err e
  end.

(* ---------------------------------------------------------------- _parse_tzstr *)

Definition parse_tzstr_raw (t : list Z) (zero_as_utc : bool) : res tzv :=
  if beq t [cZ] || beq t [cz] then Ok TzUTC else
  let n := length t in
  if negb (Nat.eqb n 3 || Nat.eqb n 5 || Nat.eqb n 6) then Err ValueError else
  bind (if beq (sl t 0 1) [cDASH] then Ok (-1)
        else if beq (sl t 0 1) [cPLUS] then Ok 1
        else Err ValueError) (fun mult =>
  bind (parse_digits (sl t 1 3) 2) (fun hours =>
  bind (if Nat.eqb n 3 then Ok 0
        else parse_digits (skipn (if beq (sl t 3 4) TIME_SEP then 4 else 3)%nat t) 2) (fun minutes =>
  if zero_as_utc && (hours =? 0) && (minutes =? 0) then Ok TzUTC else
  if 59 <? minutes then Err ValueError else
  if 23 <? hours then Err ValueError else
  Ok (TzOff (mult * (hours * 60 + minutes) * 60))))).

(* ---------------------------------------------------------------- _parse_isotime *)

(* _FRACTION_REGEX = [\.,]([0-9]+) matched at the start of t: group(1) *)
Definition frac_match (t : list Z) : option (list Z) :=
  match t with
  | c :: r =>
      if (c =? cDOT) || (c =? cCOMMA) then
        match fst (span_digits r) with [] => None | ds => Some ds end
      else None
  | [] => None
  end.

Definition set_comp (comp v : Z) (hms : Z * Z * Z) : Z * Z * Z :=
  let '(h, m, s) := hms in
  if comp =? 0 then (v, m, s) else if comp =? 1 then (h, v, s) else (h, m, v).

(* the while loop; state = (pos, comp, has_sep, components) *)
Fixpoint time_loop (fuel : nat) (t : list Z) (pos : nat) (comp : Z) (has_sep : bool)
         (hms : Z * Z * Z) (us : Z) (tz : tzv) : res (nat * (Z * Z * Z) * Z * tzv) :=
  let len_str := length t in
  if negb ((pos <? len_str)%nat && (comp <? 5)) then Ok (pos, hms, us, tz) else
  match fuel with
  | O => Err OutOfFuel
  | S fuel' =>
    let comp := comp + 1 in
    if (0 <? comp) && bytes_in1 (sl t pos (pos + 1)) [cDASH; cPLUS; cZ; cz] then
      (* time zone boundary: parse the rest, pos = len_str, break *)
      bind (parse_tzstr_raw (skipn pos t) true) (fun tz' => Ok (len_str, hms, us, tz'))
    else
    bind (if (comp =? 1) && beq (sl t pos (pos + 1)) TIME_SEP then Ok (true, (pos + 1)%nat)
          else if (comp =? 2) && has_sep then
            (if negb (beq (sl t pos (pos + 1)) TIME_SEP) then Err ValueError
             else Ok (has_sep, (pos + 1)%nat))
          else Ok (has_sep, pos)) (fun hp =>
    let '(has_sep, pos) := hp in
    if comp <? 3 then
      bind (parse_digits (sl t pos (pos + 2)) 2) (fun v =>
      time_loop fuel' t (pos + 2)%nat comp has_sep (set_comp comp v hms) us tz)
    else if comp =? 3 then
      match frac_match (skipn pos t) with
      | None => time_loop fuel' t pos comp has_sep hms us tz           (* continue *)
      | Some ds =>
          let us_str := firstn 6 ds in
          time_loop fuel' t (pos + (1 + length ds))%nat comp has_sep hms
                    (int_acc 0 us_str * 10 ^ (6 - Z.of_nat (length us_str))) tz
      end
    else time_loop fuel' t pos comp has_sep hms us tz)
  end.

Definition parse_isotime_raw (t : list Z) : res time5 :=
  let len_str := length t in
  if (len_str <? 2)%nat then Err ValueError else
  bind (time_loop 6 t 0 (-1) false (0, 0, 0) 0 TzNone) (fun r =>
  let '(pos, hms, us, tz) := r in
  let '(h, m, s) := hms in
  if (pos <? len_str)%nat then Err ValueError else
  if (h =? 24) && (negb (m =? 0) || negb (s =? 0) || negb (us =? 0)) then Err ValueError
  else Ok (h, m, s, us, tz)).

(* ---------------------------------------------------------------- public entry points *)

(* _takes_ascii: text that does not encode to ASCII, or bytes with a byte >= 128 -> ValueError
   (a stream is read first; after that str / bytes / stream are the same byte string) *)
Definition takes_ascii {A} (s : list Z) (f : list Z -> res A) : res A :=
  if all_ascii s then f s else Err ValueError.

(* isoparser.__init__(sep): sep = None | a text string given as code points *)
Definition init_sep (sep : option (list Z)) : res (option Z) :=
  match sep with
  | None => Ok None
  | Some l =>
      match l with
      | [c] => if (128 <=? c) || is_digit c then Err ValueError else Ok (Some c)
      | _ => Err ValueError
      end
  end.

Definition isoparse (sep : option Z) (s0 : list Z) : res dt8 :=
  takes_ascii s0 (fun s =>
  bind (parse_isodate_raw s) (fun cp =>
  let '((y, m, d), pos) := cp in
  bind (if (pos <? length s)%nat then
          if (match sep with None => true | Some c => beq (sl s pos (pos + 1)) [c] end)
          then bind (parse_isotime_raw (skipn (pos + 1) s)) (fun t => Ok (Some t))
          else Err ValueError
        else Ok None) (fun tm =>
  match tm with
  | None => mk_datetime y m d 0 0 0 0 TzNone
  | Some (h, mi, sec, us, tz) =>
      if h =? 24 then
        bind (mk_datetime y m d 0 mi sec us tz) (fun dt =>
        match date_add_days (y, m, d) 1 with
        | Ok (y', m', d') => Ok (y', m', d', 0, mi, sec, us, tz)
        | Err OverflowError => Err ValueError          (* except OverflowError -> ValueError *)
        | Err e => Err e
        end)
      else mk_datetime y m d h mi sec us tz
  end))).

Definition parse_isodate (s0 : list Z) : res date3 :=
  takes_ascii s0 (fun s =>
  bind (parse_isodate_raw s) (fun cp =>
  let '((y, m, d), pos) := cp in
  if (pos <? length s)%nat then Err ValueError else mk_date y m d)).

Definition parse_isotime (s0 : list Z) : res time5 :=
  takes_ascii s0 (fun s =>
  bind (parse_isotime_raw s) (fun c =>
  let '(h, mi, sec, us, tz) := c in
  mk_time (if h =? 24 then 0 else h) mi sec us tz)).

Definition parse_tzstr (s0 : list Z) (zero_as_utc : bool) : res tzv :=
  takes_ascii s0 (fun s => parse_tzstr_raw s zero_as_utc).

(* isoparser(sep).isoparse(s) *)
Definition isoparser_isoparse (sep : option (list Z)) (s : list Z) : res dt8 :=
  bind (init_sep sep) (fun sp => isoparse sp s).
