(* Primitives shared by the isoparser model and the ISO-8601 specification:
   byte strings are [list Z]; ASCII digit test; int() of a digit string; bytes equality;
   Python slicing with clamping; the greedy digit run of the regex [0-9]+ ; result types. *)
From Coq Require Import ZArith List Bool Lia.
Import ListNotations.
Open Scope Z_scope.

Definition is_digit (c : Z) : bool := (48 <=? c) && (c <=? 57).

(* int(b"0123") for a string already known to consist of ASCII digits *)
Definition int_acc (a : Z) (l : list Z) : Z := fold_left (fun a c => a * 10 + (c - 48)) l a.

(* bytes == bytes *)
Fixpoint beq (a b : list Z) : bool :=
  match a, b with
  | [], [] => true
  | x :: a', y :: b' => (x =? y) && beq a' b'
  | _, _ => false
  end.

(* s[a:b] for 0 <= a <= b, clamped at the end of s exactly as Python does *)
Definition sl (s : list Z) (a b : nat) : list Z := firstn (b - a) (skipn a s).

(* longest prefix of ASCII digits, and what follows it *)
Fixpoint span_digits (l : list Z) : list Z * list Z :=
  match l with
  | c :: r => if is_digit c then let (a, b) := span_digits r in (c :: a, b) else ([], l)
  | [] => ([], [])
  end.

(* no element is a non-ASCII byte / code point (>= 128) *)
Definition all_ascii (s : list Z) : bool := forallb (fun c => c <? 128) s.

(* tzinfo of a result: None | tz.UTC | tz.tzoffset(None, secs) *)
Inductive tzv := TzNone | TzUTC | TzOff (secs : Z).

(* byte constants *)
Definition cDASH : Z := 45.   (* - *)
Definition cPLUS : Z := 43.   (* + *)
Definition cCOLON : Z := 58.  (* : *)
Definition cDOT : Z := 46.    (* . *)
Definition cCOMMA : Z := 44.  (* , *)
Definition cW : Z := 87.      (* W *)
Definition cZ : Z := 90.      (* Z *)
Definition cz : Z := 122.     (* z *)

(* values *)
Definition date3 := (Z * Z * Z)%type.                         (* year, month, day *)
Definition time5 := (Z * Z * Z * Z * tzv)%type.               (* hour, minute, second, microsecond, tzinfo *)
Definition dt8 := (Z * Z * Z * Z * Z * Z * Z * tzv)%type.     (* datetime *)

Definition valid_hmsu (h mi s us : Z) : bool :=
  (0 <=? h) && (h <=? 23) && (0 <=? mi) && (mi <=? 59) && (0 <=? s) && (s <=? 59) &&
  (0 <=? us) && (us <=? 999999).
