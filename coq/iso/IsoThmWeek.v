(* ISO week calendar: _calculate_weekdate is the inverse of date.isocalendar, and agrees with the
   specification's search [weekdate_of]. *)
From Coq Require Import ZArith List Bool Lia ZifyBool.
From V Require Import base.Cal iso.IsoBase iso.IsoModel iso.IsoSpec iso.IsoThm iso.IsoThmTz.
Import ListNotations.
Open Scope Z_scope.
Ltac Zify.zify_post_hook ::= Z.to_euclidean_division_equations.

Notation w1m := iso_week1_monday.

Lemma ord_jan y d : ord_of_ymd y 1 d = days_before_year y + d.
Proof. unfold ord_of_ymd. rewrite dbm_1. lia. Qed.

Lemma year_len_cases y : year_len y = 365 \/ year_len y = 366.
Proof. unfold year_len. destruct (is_leap y); auto. Qed.

Lemma w1m_bounds y :
  days_before_year y - 2 <= w1m y <= days_before_year y + 4 /\ (w1m y + 6) mod 7 = 0.
Proof.
  unfold iso_week1_monday, weekday_of_ord. rewrite ord_jan. cbv zeta.
  destruct (3 <? (days_before_year y + 1 + 6) mod 7) eqn:E; lia.
Qed.

Lemma w1m_succ y : w1m (y + 1) = w1m y + 364 \/ w1m (y + 1) = w1m y + 371.
Proof.
  pose proof (w1m_bounds y). pose proof (w1m_bounds (y + 1)).
  pose proof (days_before_year_succ y). pose proof (year_len_cases y). lia.
Qed.

(* every ordinal lies in the ISO year its isocalendar names, at the stated week and day *)
Lemma iso_range o :
  let '(y, w, d) := isocalendar o in
  w1m y <= o < w1m (y + 1) /\ w = (o - w1m y) / 7 + 1 /\ d = (o - w1m y) mod 7 + 1.
Proof.
  unfold isocalendar. cbv zeta. set (y0 := year_of_ord o).
  pose proof (year_of_ord_spec o) as S. fold y0 in S.
  pose proof (w1m_bounds (y0 - 1)). pose proof (w1m_bounds y0).
  pose proof (w1m_bounds (y0 + 1)). pose proof (w1m_bounds (y0 + 1 + 1)).
  pose proof (days_before_year_succ (y0 - 1)) as D1. replace (y0 - 1 + 1) with y0 in D1 by lia.
  pose proof (days_before_year_succ y0). pose proof (days_before_year_succ (y0 + 1)).
  pose proof (year_len_cases (y0 - 1)). pose proof (year_len_cases y0). pose proof (year_len_cases (y0 + 1)).
  destruct (o <? w1m y0) eqn:E1.
  - replace (y0 - 1 + 1) with y0 by lia. lia.
  - destruct (w1m (y0 + 1) <=? o) eqn:E2; lia.
Qed.

Lemma iso_of_range y o :
  w1m y <= o < w1m (y + 1) ->
  isocalendar o = (y, (o - w1m y) / 7 + 1, (o - w1m y) mod 7 + 1).
Proof.
  intros R. unfold isocalendar. cbv zeta. set (y0 := year_of_ord o).
  pose proof (year_of_ord_spec o) as S. fold y0 in S.
  pose proof (w1m_bounds y) as B0. pose proof (w1m_bounds (y + 1)) as B1.
  pose proof (days_before_year_succ (y - 1)) as D1. replace (y - 1 + 1) with y in D1 by lia.
  pose proof (days_before_year_succ y) as D2. pose proof (days_before_year_succ (y + 1)) as D3.
  pose proof (year_len_cases (y - 1)). pose proof (year_len_cases y). pose proof (year_len_cases (y + 1)).
  assert (Hlo : y - 1 <= y0).
  { destruct (Z_lt_le_dec y0 (y - 1)) as [L|L]; [|exact L].
    assert (days_before_year (y0 + 1) <= days_before_year (y - 1)) by (apply days_before_year_mono; lia). lia. }
  assert (Hhi : y0 <= y + 1).
  { destruct (Z_lt_le_dec (y + 1) y0) as [L|L]; [|lia].
    assert (days_before_year (y + 1 + 1) <= days_before_year y0) by (apply days_before_year_mono; lia). lia. }
  assert (C : y0 = y - 1 \/ y0 = y \/ y0 = y + 1) by lia.
  destruct C as [C | [C | C]]; rewrite C in *.
  - replace (y - 1 + 1) with y by lia.
    pose proof (w1m_bounds (y - 1)).
    destruct (o <? w1m (y - 1)) eqn:E1; [lia|].
    destruct (w1m y <=? o) eqn:E2; [reflexivity | lia].
  - destruct (o <? w1m y) eqn:E1; [lia|].
    destruct (w1m (y + 1) <=? o) eqn:E2; [lia | reflexivity].
  - replace (y + 1 - 1) with y by lia.
    destruct (o <? w1m (y + 1)) eqn:E1; [reflexivity | lia].
Qed.

Lemma iso_iff y w d o :
  isocalendar o = (y, w, d) <->
  (w1m y <= o < w1m (y + 1) /\ o = w1m y + 7 * (w - 1) + (d - 1) /\ 1 <= d <= 7).
Proof.
  split.
  - intros E. pose proof (iso_range o) as R. rewrite E in R. lia.
  - intros (R & -> & Hd). rewrite (iso_of_range y) by exact R. f_equal; [f_equal|]; lia.
Qed.
Lemma year_of_ord_range o : 1 <= o <= max_ord -> 1 <= year_of_ord o <= 9999.
Proof.
  intros H. pose proof (year_of_ord_spec o) as S. unfold max_ord in H.
  split.
  - destruct (Z_lt_le_dec (year_of_ord o) 1) as [L|L]; [|exact L].
    assert (days_before_year (year_of_ord o + 1) <= days_before_year 1) by (apply days_before_year_mono; lia).
    change (days_before_year 1) with 0 in *. lia.
  - destruct (Z_lt_le_dec 9999 (year_of_ord o)) as [L|L]; [|exact L].
    assert (days_before_year 10000 <= days_before_year (year_of_ord o)) by (apply days_before_year_mono; lia).
    change (days_before_year 10000) with 3652059 in *. lia.
Qed.

Lemma ymd_of_ord_valid o : 1 <= o <= max_ord ->
  let '(y, m, d) := ymd_of_ord o in valid_ymd y m d = true /\ ord_of_ymd y m d = o.
Proof.
  intros H. pose proof (ord_of_ymd_of_ord o) as P. pose proof (year_of_ord_range o H) as R.
  unfold ymd_of_ord in *. cbv zeta in *. unfold valid_ymd. lia.
Qed.

Definition week_ord (y w d : Z) : Z := w1m y + 7 * (w - 1) + (d - 1).

Lemma calculate_weekdate_spec y w d : 1 <= y <= 9999 -> 1 <= w <= 53 -> 1 <= d <= 7 ->
  calculate_weekdate y w d =
  if (week_ord y w d <=? max_ord) && (week_ord y w d <? w1m (y + 1))
  then Ok (ymd_of_ord (week_ord y w d)) else Err ValueError.
Proof.
  intros Hy Hw Hd. unfold calculate_weekdate.
  replace (negb ((0 <? w) && (w <? 54))) with false by lia.
  replace (negb ((0 <? d) && (d <? 8))) with false by lia.
  unfold mk_date. replace (valid_ymd y 1 4) with true by (unfold valid_ymd; change (dim y 1) with 31; lia).
  cbn [bind].
  pose proof (w1m_bounds y) as B0. pose proof (w1m_bounds (y + 1)) as B1.
  pose proof (days_before_year_succ y) as D2. pose proof (year_len_cases y).
  assert (J4 : w1m y <= ord_of_ymd y 1 4 < w1m (y + 1)) by (rewrite ord_jan; lia).
  rewrite (iso_of_range y _ J4). rewrite ord_jan in *.
  unfold date_add_days at 1. rewrite ord_jan.
  assert (W1 : days_before_year y + 4 + - ((days_before_year y + 4 - w1m y) mod 7 + 1 - 1) = w1m y) by lia.
  rewrite W1.
  assert (P1 : 1 <= w1m y).
  { assert (days_before_year 1 <= days_before_year y) by (apply days_before_year_mono; lia).
    change (days_before_year 1) with 0 in *.
    destruct (Z.eq_dec y 1) as [->|N]; [vm_compute; discriminate|].
    assert (days_before_year (1 + 1) <= days_before_year y) by (apply days_before_year_mono; lia).
    change (days_before_year (1 + 1)) with 365 in *. lia. }
  assert (P2 : w1m y <= max_ord).
  { assert (days_before_year y <= days_before_year 9999) by (apply days_before_year_mono; lia).
    change (days_before_year 9999) with 3651694 in *. unfold max_ord. lia. }
  replace ((1 <=? w1m y) && (w1m y <=? max_ord)) with true by lia. cbn [bind].
  pose proof (ymd_of_ord_valid (w1m y) ltac:(lia)) as V1.
  destruct (ymd_of_ord (w1m y)) as [[y1 m1] d1]. destruct V1 as [_ O1].
  unfold date_add_days. rewrite O1. fold (week_ord y w d).
  replace (w1m y + ((w - 1) * 7 + (d - 1))) with (week_ord y w d) by (unfold week_ord; lia).
  assert (P3 : 1 <= week_ord y w d) by (unfold week_ord; lia).
  replace (1 <=? week_ord y w d) with true by lia. cbn [andb].
  destruct (week_ord y w d <=? max_ord) eqn:E1; cbn [andb]; [|reflexivity].
  pose proof (ymd_of_ord_valid (week_ord y w d) ltac:(lia)) as V2.
  destruct (ymd_of_ord (week_ord y w d)) as [[y2 m2] d2]. destruct V2 as [_ O2]. rewrite O2.
  destruct (week_ord y w d <? w1m (y + 1)) eqn:E2.
  - assert (R : w1m y <= week_ord y w d < w1m (y + 1)) by (unfold week_ord in *; lia).
    rewrite (iso_of_range y _ R). unfold week_ord.
    replace (negb ((w1m y + 7 * (w - 1) + (d - 1) - w1m y) / 7 + 1 =? w)) with false by lia.
    reflexivity.
  - (* week 53 of a 52-week year: the date is in week 1 of the next ISO year *)
    pose proof (w1m_succ y) as S1. pose proof (w1m_succ (y + 1)) as S2.
    assert (R : w1m (y + 1) <= week_ord y w d < w1m (y + 1 + 1)) by (unfold week_ord in *; lia).
    rewrite (iso_of_range (y + 1) _ R). unfold week_ord in *.
    replace (negb ((w1m y + 7 * (w - 1) + (d - 1) - w1m (y + 1)) / 7 + 1 =? w)) with true by lia.
    reflexivity.
Qed.

Lemma triple_eqb_iff a b : triple_eqb a b = true <-> a = b.
Proof.
  destruct a as [[a1 a2] a3], b as [[b1 b2] b3]. unfold triple_eqb. split.
  - intros H. f_equal; [f_equal|]; lia.
  - intros [= -> -> ->]. lia.
Qed.

Lemma find_unique {A} (P : A -> bool) l k0 :
  In k0 l -> P k0 = true -> (forall k, In k l -> P k = true -> k = k0) -> find P l = Some k0.
Proof.
  induction l as [|x l IH]; intros Hin Hp Hu; [destruct Hin|].
  cbn [find]. destruct (P x) eqn:E.
  - f_equal. apply Hu; [now left | exact E].
  - destruct Hin as [->|Hin]; [congruence|]. apply IH; auto. intros k Hk. apply Hu. now right.
Qed.

Lemma find_none' {A} (P : A -> bool) l : (forall k, In k l -> P k = false) -> find P l = None.
Proof.
  induction l as [|x l IH]; intros H; [reflexivity|]. cbn [find].
  rewrite (H x) by now left. apply IH. intros k Hk. apply H. now right.
Qed.

Lemma in_window k : In k (zrange (-3) 9) <-> -3 <= k <= 9.
Proof. change (zrange (-3) 9) with [-3; -2; -1; 0; 1; 2; 3; 4; 5; 6; 7; 8; 9]. cbn [In]. lia. Qed.

Definition week_ok (y w d : Z) : bool :=
  let o := week_ord y w d in
  (1 <=? o) && (o <=? max_ord) && (w1m y <=? o) && (o <? w1m (y + 1)) && (1 <=? d) && (d <=? 7).

Lemma weekdate_of_spec y w d :
  weekdate_of y w d = if week_ok y w d then Some (ymd_of_ord (week_ord y w d)) else None.
Proof.
  unfold weekdate_of. cbv zeta. set (base := days_before_year y + 1 + 7 * (w - 1)).
  set (P := fun k : Z => (1 <=? base + k) && (base + k <=? max_ord) &&
                         triple_eqb (isocalendar (base + k)) (y, w, d)).
  assert (PI : forall k, P k = true <->
            (1 <= base + k <= max_ord /\ w1m y <= base + k < w1m (y + 1) /\
             base + k = week_ord y w d /\ 1 <= d <= 7)).
  { intros k. unfold P. rewrite !andb_true_iff, triple_eqb_iff, iso_iff. unfold week_ord. lia. }
  pose proof (w1m_bounds y) as B0.
  destruct (week_ok y w d) eqn:OK.
  - unfold week_ok in OK. cbv zeta in OK.
    rewrite (find_unique P _ (week_ord y w d - base)).
    + f_equal. f_equal. lia.
    + apply in_window. unfold week_ord, base in *. lia.
    + apply PI. replace (base + (week_ord y w d - base)) with (week_ord y w d) by lia. lia.
    + intros k _ Hk. apply PI in Hk. lia.
  - rewrite find_none'; [reflexivity|]. intros k _.
    destruct (P k) eqn:E; [|reflexivity]. apply PI in E. unfold week_ok in OK. cbv zeta in OK. lia.
Qed.

Theorem weekdate_equiv y w d : calculate_weekdate y w d = lift (weekdate_of y w d).
Proof.
  rewrite weekdate_of_spec.
  pose proof (w1m_bounds y) as B0. pose proof (w1m_bounds (y + 1)) as B1.
  pose proof (w1m_succ y) as S1.
  destruct (Z_lt_le_dec w 1) as [W1|W1].
  { unfold calculate_weekdate. replace (negb ((0 <? w) && (w <? 54))) with true by lia.
    replace (week_ok y w d) with false; [reflexivity|]. unfold week_ok, week_ord. lia. }
  destruct (Z_lt_le_dec 53 w) as [W2|W2].
  { unfold calculate_weekdate. replace (negb ((0 <? w) && (w <? 54))) with true by lia.
    replace (week_ok y w d) with false; [reflexivity|]. unfold week_ok, week_ord. lia. }
  destruct (Z_lt_le_dec d 1) as [D1|D1].
  { unfold calculate_weekdate. replace (negb ((0 <? w) && (w <? 54))) with false by lia.
    replace (negb ((0 <? d) && (d <? 8))) with true by lia.
    replace (week_ok y w d) with false; [reflexivity|]. unfold week_ok. lia. }
  destruct (Z_lt_le_dec 7 d) as [D2|D2].
  { unfold calculate_weekdate. replace (negb ((0 <? w) && (w <? 54))) with false by lia.
    replace (negb ((0 <? d) && (d <? 8))) with true by lia.
    replace (week_ok y w d) with false; [reflexivity|]. unfold week_ok. lia. }
  destruct (Z_lt_le_dec y 1) as [Y1|Y1].
  { unfold calculate_weekdate. replace (negb ((0 <? w) && (w <? 54))) with false by lia.
    replace (negb ((0 <? d) && (d <? 8))) with false by lia.
    unfold mk_date. replace (valid_ymd y 1 4) with false by (unfold valid_ymd; lia). cbn [bind].
    replace (week_ok y w d) with false; [reflexivity|]. unfold week_ok, week_ord. cbv zeta.
    assert (w1m (y + 1) <= 1).
    { destruct (Z.eq_dec y 0) as [->|N]; [vm_compute; discriminate|].
      assert (days_before_year (y + 1) <= days_before_year 0) by (apply days_before_year_mono; lia).
      change (days_before_year 0) with (-366) in *. lia. }
    lia. }
  destruct (Z_lt_le_dec 9999 y) as [Y2|Y2].
  { unfold calculate_weekdate. replace (negb ((0 <? w) && (w <? 54))) with false by lia.
    replace (negb ((0 <? d) && (d <? 8))) with false by lia.
    unfold mk_date. replace (valid_ymd y 1 4) with false by (unfold valid_ymd; lia). cbn [bind].
    replace (week_ok y w d) with false; [reflexivity|]. unfold week_ok, week_ord. cbv zeta.
    assert (max_ord < w1m y).
    { destruct (Z.eq_dec y 10000) as [->|N]; [vm_compute; reflexivity|].
      assert (days_before_year 10001 <= days_before_year y) by (apply days_before_year_mono; lia).
      change (days_before_year 10001) with 3652425 in *. unfold max_ord. lia. }
    lia. }
  rewrite calculate_weekdate_spec by lia. unfold week_ok. cbv zeta.
  assert (1 <= w1m y).
  { assert (days_before_year 1 <= days_before_year y) by (apply days_before_year_mono; lia).
    change (days_before_year 1) with 0 in *.
    destruct (Z.eq_dec y 1) as [->|N]; [vm_compute; discriminate|].
    assert (days_before_year (1 + 1) <= days_before_year y) by (apply days_before_year_mono; lia).
    change (days_before_year (1 + 1)) with 365 in *. lia. }
  assert (w1m y <= week_ord y w d) by (unfold week_ord; lia).
  destruct (week_ord y w d <=? max_ord) eqn:E1, (week_ord y w d <? w1m (y + 1)) eqn:E2; cbn [andb].
  - replace ((1 <=? week_ord y w d) && true && (w1m y <=? week_ord y w d) && true && (1 <=? d) && (d <=? 7))
      with true by lia. reflexivity.
  - replace ((1 <=? week_ord y w d) && true && (w1m y <=? week_ord y w d) && false && (1 <=? d) && (d <=? 7))
      with false by lia. reflexivity.
  - replace ((1 <=? week_ord y w d) && false && (w1m y <=? week_ord y w d) && true && (1 <=? d) && (d <=? 7))
      with false by lia. reflexivity.
  - replace ((1 <=? week_ord y w d) && false && (w1m y <=? week_ord y w d) && false && (1 <=? d) && (d <=? 7))
      with false by lia. reflexivity.
Qed.

(* ISO year of a representable date is representable *)
Lemma iso_year_range o : 1 <= o <= max_ord -> let '(y, w, d) := isocalendar o in 1 <= y <= 9999.
Proof.
  intros H. pose proof (iso_range o) as R. destruct (isocalendar o) as [[y w] d].
  destruct R as (R & _).
  pose proof (w1m_bounds y) as B0. pose proof (w1m_bounds (y + 1)) as B1. unfold max_ord in *.
  split.
  - destruct (Z_lt_le_dec y 1) as [L|L]; [|exact L]. exfalso.
    assert (w1m (y + 1) <= 1).
    { destruct (Z.eq_dec y 0) as [->|N]; [vm_compute; discriminate|].
      assert (days_before_year (y + 1) <= days_before_year 0) by (apply days_before_year_mono; lia).
      change (days_before_year 0) with (-366) in *. lia. }
    lia.
  - destruct (Z_lt_le_dec 9999 y) as [L|L]; [|exact L]. exfalso.
    assert (3652059 < w1m y).
    { destruct (Z.eq_dec y 10000) as [->|N]; [vm_compute; reflexivity|].
      assert (days_before_year 10001 <= days_before_year y) by (apply days_before_year_mono; lia).
      change (days_before_year 10001) with 3652425 in *. lia. }
    lia.
Qed.

(* _calculate_weekdate is the inverse of date.isocalendar *)
Theorem weekdate_inverse_ord o : 1 <= o <= max_ord ->
  let '(y, w, d) := isocalendar o in calculate_weekdate y w d = Ok (ymd_of_ord o).
Proof.
  intros H. pose proof (iso_range o) as R. pose proof (iso_year_range o H) as Y.
  destruct (isocalendar o) as [[y w] d]. destruct R as (R & Ew & Ed).
  pose proof (w1m_succ y) as S1.
  assert (O : week_ord y w d = o) by (unfold week_ord; lia).
  rewrite calculate_weekdate_spec by lia. rewrite O.
  replace ((o <=? max_ord) && (o <? w1m (y + 1))) with true by lia. reflexivity.
Qed.

Theorem weekdate_inverse_lemma y m d : valid_ymd y m d = true ->
  let '(iy, iw, id) := isocalendar (ord_of_ymd y m d) in calculate_weekdate iy iw id = Ok (y, m, d).
Proof.
  intros V. pose proof (ord_of_ymd_range y m d V) as R.
  pose proof (weekdate_inverse_ord _ R) as W.
  destruct (isocalendar (ord_of_ymd y m d)) as [[iy iw] id]. rewrite W. f_equal.
  apply ymd_of_ord_of_ymd; unfold valid_ymd in V; lia.
Qed.
