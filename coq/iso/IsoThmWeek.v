(* ISO week calendar: _calculate_weekdate is the inverse of date.isocalendar, and agrees with the
   specification's search [weekdate_of]. *)
From Coq Require Import ZArith List Bool Lia ZifyBool.
From V Require Import base.Cal iso.IsoBase iso.IsoModel iso.IsoSpec iso.IsoThm iso.IsoThmTz.
Import ListNotations.
Open Scope Z_scope.
Ltac Zify.zify_post_hook ::= Z.to_euclidean_division_equations.

Notation w1m := iso_week1_monday.

Lemma ord_jan y d : ord_of_ymd y 1 d = days_before_year y + d.
Proof. unfold ord_of_ymd. rewrite dbm_1. lia. Qed.

Lemma year_len_cases y : year_len y = 365 \/ year_len y = 366.
Proof. unfold year_len. destruct (is_leap y); auto. Qed.

Lemma w1m_bounds y :
  days_before_year y - 2 <= w1m y <= days_before_year y + 4 /\ (w1m y + 6) mod 7 = 0.
Proof.
  unfold iso_week1_monday, weekday_of_ord. rewrite ord_jan. cbv zeta.
  destruct (3 <? (days_before_year y + 1 + 6) mod 7) eqn:E; lia.
Qed.

Lemma w1m_succ y : w1m (y + 1) = w1m y + 364 \/ w1m (y + 1) = w1m y + 371.
Proof.
  pose proof (w1m_bounds y). pose proof (w1m_bounds (y + 1)).
  pose proof (days_before_year_succ y). pose proof (year_len_cases y). lia.
Qed.

(* every ordinal lies in the ISO year its isocalendar names, at the stated week and day *)
Lemma iso_range o :
  let '(y, w, d) := isocalendar o in
  w1m y <= o < w1m (y + 1) /\ w = (o - w1m y) / 7 + 1 /\ d = (o - w1m y) mod 7 + 1.
Proof.
  unfold isocalendar. cbv zeta. set (y0 := year_of_ord o).
  pose proof (year_of_ord_spec o) as S. fold y0 in S.
  pose proof (w1m_bounds (y0 - 1)). pose proof (w1m_bounds y0).
  pose proof (w1m_bounds (y0 + 1)). pose proof (w1m_bounds (y0 + 1 + 1)).
  pose proof (days_before_year_succ (y0 - 1)) as D1. replace (y0 - 1 + 1) with y0 in D1 by lia.
  pose proof (days_before_year_succ y0). pose proof (days_before_year_succ (y0 + 1)).
  pose proof (year_len_cases (y0 - 1)). pose proof (year_len_cases y0). pose proof (year_len_cases (y0 + 1)).
  destruct (o <? w1m y0) eqn:E1.
  - replace (y0 - 1 + 1) with y0 by lia. lia.
  - destruct (w1m (y0 + 1) <=? o) eqn:E2; lia.
Qed.

Lemma iso_of_range y o :
  w1m y <= o < w1m (y + 1) ->
  isocalendar o = (y, (o - w1m y) / 7 + 1, (o - w1m y) mod 7 + 1).
Proof.
  intros R. unfold isocalendar. cbv zeta. set (y0 := year_of_ord o).
  pose proof (year_of_ord_spec o) as S. fold y0 in S.
  pose proof (w1m_bounds y) as B0. pose proof (w1m_bounds (y + 1)) as B1.
  pose proof (days_before_year_succ (y - 1)) as D1. replace (y - 1 + 1) with y in D1 by lia.
  pose proof (days_before_year_succ y) as D2. pose proof (days_before_year_succ (y + 1)) as D3.
  pose proof (year_len_cases (y - 1)). pose proof (year_len_cases y). pose proof (year_len_cases (y + 1)).
  assert (Hlo : y - 1 <= y0).
  { destruct (Z_lt_le_dec y0 (y - 1)) as [L|L]; [|exact L].
    assert (days_before_year (y0 + 1) <= days_before_year (y - 1)) by (apply days_before_year_mono; lia). lia. }
  assert (Hhi : y0 <= y + 1).
  { destruct (Z_lt_le_dec (y + 1) y0) as [L|L]; [|lia].
    assert (days_before_year (y + 1 + 1) <= days_before_year y0) by (apply days_before_year_mono; lia). lia. }
  assert (C : y0 = y - 1 \/ y0 = y \/ y0 = y + 1) by lia.
  destruct C as [C | [C | C]]; rewrite C in *.
  - replace (y - 1 + 1) with y by lia.
    pose proof (w1m_bounds (y - 1)).
    destruct (o <? w1m (y - 1)) eqn:E1; [lia|].
    destruct (w1m y <=? o) eqn:E2; [reflexivity | lia].
  - destruct (o <? w1m y) eqn:E1; [lia|].
    destruct (w1m (y + 1) <=? o) eqn:E2; [lia | reflexivity].
  - replace (y + 1 - 1) with y by lia.
    destruct (o <? w1m (y + 1)) eqn:E1; [reflexivity | lia].
Qed.

Lemma iso_iff y w d o :
  isocalendar o = (y, w, d) <->
  (w1m y <= o < w1m (y + 1) /\ o = w1m y + 7 * (w - 1) + (d - 1) /\ 1 <= d <= 7).
Proof.
  split.
  - intros E. pose proof (iso_range o) as R. rewrite E in R. lia.
  - intros (R & -> & Hd). rewrite (iso_of_range y) by exact R. f_equal; [f_equal|]; lia.
Qed.
