(* Model = recogniser, part 1: tactics for the case analyses, and the offset parser.
   [lift] turns the recogniser's option into the model's result type (None = ValueError). *)
From Coq Require Import ZArith List Bool Lia ZifyBool.
From V Require Import base.Cal iso.IsoBase iso.IsoModel iso.IsoSpec iso.IsoThm.
Import ListNotations.
Open Scope Z_scope.
Ltac Zify.zify_post_hook ::= Z.to_euclidean_division_equations.

Definition lift {A} (o : option A) : res A := match o with Some a => Ok a | None => Err ValueError end.

Arguments is_digit : simpl never.

Ltac rw_all := repeat match goal with H : ?l = ?r |- context [?l] => rewrite H end.
Ltac consts1 := unfold cDASH, cPLUS, cCOLON, cDOT, cCOMMA, cW, cZ, cz, DATE_SEP, TIME_SEP in *.
Ltac consts := consts1; consts1.
Ltac step := cbn -[Z.mul Z.add Z.sub Z.pow]; rw_all; cbn -[Z.mul Z.add Z.sub Z.pow].
(* classify a character w.r.t. a literal *)
Ltac lit_split a k := destruct (a =? k) eqn:?.
Ltac dig_split a := destruct (is_digit a) eqn:?.
Ltac prune := try (exfalso; unfold is_digit in *; lia).
Ltac crunch1 := match goal with
  | |- context [if is_digit ?x then _ else _] => destruct (is_digit x) eqn:?
  | |- context [if (?x =? ?k) then _ else _] => destruct (x =? k) eqn:?
  | |- context [if ?c then _ else _] => destruct c eqn:?
  end.
Ltac crunch := step; repeat (crunch1; step); try reflexivity.
Ltac cls_a a := lit_split a 90; lit_split a 122; lit_split a 43; lit_split a 45; prune.
Ltac cls_d d := dig_split d; [assert ((d =? 58) = false) by (unfold is_digit in *; lia) | lit_split d 58].
Ltac fin := try reflexivity; try (exfalso; unfold is_digit in *; lia); try (do 2 f_equal; lia).

Lemma tz_equiv t z : parse_tzstr_raw t z = lift (tz_denotes z t).
Proof.
  unfold parse_tzstr_raw, tz_denotes, tz_reading, all_oforms, off_fields, off_value, lift, sign, lit, num, pbind, pret, sl, parse_digits, isdigit.
  consts.
  destruct t as [|a [|b [|c [|d [|e [|f [|g r]]]]]]].
  - reflexivity.
  - cls_a a; crunch.
  - cls_a a; crunch.
  - cls_a a; crunch; fin.
  - cls_a a; cls_d d; crunch; fin.
  - cls_a a; cls_d d; crunch; fin.
  - cls_a a; cls_d d; crunch; fin.
  - cls_a a; cls_d d; crunch; fin.
Qed.
