(* Model = recogniser, part 3: the date scanners.
   [common_raw] / [uncommon_raw] are _parse_isodate_common / _uncommon without the calendar
   arithmetic: they return the raw fields (RCal / RWeek / ROrd) and the position.  The model's
   scanners are these followed by [eval_raw]; [date_ok] relates the raw scan of ANY string to the
   grammar forms of the specification (exactly one live form, every other form dead). *)
From Coq Require Import ZArith List Bool Lia ZifyBool.
From V Require Import base.Cal iso.IsoBase iso.IsoModel iso.IsoSpec iso.IsoThm iso.IsoThmTz iso.IsoThmWeek.
Import ListNotations.
Open Scope Z_scope.
Ltac Zify.zify_post_hook ::= Z.to_euclidean_division_equations.

Definition common_raw (s : list Z) : res (rawdate * nat) :=
  let len_str := length s in
  if (len_str <? 4)%nat then Err ValueError else
  bind (parse_digits (sl s 0 4) 4) (fun y =>
  let pos := 4%nat in
  if (len_str <=? pos)%nat then Ok (RCal y 1 1, pos) else
  let has_sep := beq (sl s pos (pos + 1)) DATE_SEP in
  let pos := if has_sep then (pos + 1)%nat else pos in
  if (len_str <? pos + 2)%nat then Err ValueError else
  bind (parse_digits (sl s pos (pos + 2)) 2) (fun m =>
  let pos := (pos + 2)%nat in
  if (len_str <=? pos)%nat then
    (if has_sep then Ok (RCal y m 1, pos) else Err ValueError)
  else
  bind (if has_sep then
          (if negb (beq (sl s pos (pos + 1)) DATE_SEP) then Err ValueError else Ok (pos + 1)%nat)
        else Ok pos) (fun pos =>
  if (len_str <? pos + 2)%nat then Err ValueError else
  bind (parse_digits (sl s pos (pos + 2)) 2) (fun d =>
  Ok (RCal y m d, (pos + 2)%nat))))).

Definition uncommon_raw (s : list Z) : res (rawdate * nat) :=
  if (length s <? 4)%nat then Err ValueError else
  bind (parse_digits (sl s 0 4) 4) (fun year =>
  let has_sep := beq (sl s 4 5) DATE_SEP in
  let pos := (4 + (if has_sep then 1 else 0))%nat in
  if beq (sl s pos (pos + 1)) [cW] then
    let pos := (pos + 1)%nat in
    bind (parse_digits (sl s pos (pos + 2)) 2) (fun weekno =>
    let pos := (pos + 2)%nat in
    bind (if (pos <? length s)%nat then
            if negb (Bool.eqb (beq (sl s pos (pos + 1)) DATE_SEP) has_sep) then Err ValueError
            else
              let pos := (pos + (if has_sep then 1 else 0))%nat in
              bind (parse_digits (sl s pos (pos + 1)) 1) (fun dayno => Ok (dayno, (pos + 1)%nat))
          else Ok (1, pos)) (fun dp =>
    let '(dayno, pos) := dp in Ok (RWeek year weekno dayno, pos)))
  else
    if (length s <? pos + 3)%nat then Err ValueError else
    bind (parse_digits (sl s pos (pos + 3)) 3) (fun n => Ok (ROrd year n, (pos + 3)%nat))).

Definition parse_raw (s : list Z) : res (rawdate * nat) :=
  match common_raw s with
  | Ok r => Ok r
  | Err ValueError => uncommon_raw s
  | Err e => Err e
  end.

(* calendar arithmetic of the two scanners: none for calendar dates (datetime() validates
   later), _calculate_weekdate, date(year,1,1) + timedelta(days=n-1) *)
Definition eval_raw (raw : rawdate) : res date3 :=
  match raw with
  | RCal y m d => Ok (y, m, d)
  | _ => lift (date_value raw)
  end.

Lemma zlt_nat a b k : (Z.of_nat a - Z.of_nat b <? Z.of_nat k) = (a <? b + k)%nat.
Proof. destruct (a <? b + k)%nat eqn:E; [apply Nat.ltb_lt in E | apply Nat.ltb_ge in E]; lia. Qed.
Lemma zlt2 a b : (Z.of_nat a - Z.of_nat b <? 2) = (a <? b + 2)%nat.
Proof. apply (zlt_nat a b 2). Qed.
Lemma zlt3 a b : (Z.of_nat a - Z.of_nat b <? 3) = (a <? b + 3)%nat.
Proof. apply (zlt_nat a b 3). Qed.

Ltac same := repeat (cbn [bind]; rewrite ?zlt2, ?zlt3; match goal with
   | |- ?x = ?x => reflexivity
   | |- context [parse_digits ?a ?b] => destruct (parse_digits a b) eqn:?
   | |- context [if ?c then _ else _] => destruct c eqn:?
   end); try reflexivity.

Lemma common_raw_eq s :
  parse_isodate_common s =
  bind (common_raw s) (fun rp => match rp with
                                 | (RCal y m d, pos) => Ok ((y, m, d), pos)
                                 | _ => Err ValueError end).
Proof. unfold parse_isodate_common, common_raw. cbv zeta. same. Qed.
Lemma ord_equiv year n (pos : nat) :
  (if (n <? 1) || (365 + (if is_leap year then 1 else 0) <? n) then Err ValueError else
   bind (mk_date year 1 1) (fun jan_1 =>
   bind (date_add_days jan_1 (n - 1)) (fun base_date => Ok (base_date, pos)))) =
  bind (lift (date_value (ROrd year n))) (fun ymd => Ok (ymd, pos)).
Proof.
  unfold date_value. replace (365 + (if is_leap year then 1 else 0)) with (year_len year)
    by (unfold year_len; destruct (is_leap year); reflexivity).
  unfold mk_date, valid_ymd. change (dim year 1) with 31.
  assert (C : (1 <= year <= 9999) \/ ~ (1 <= year <= 9999)) by lia.
  destruct C as [Y|Y].
  - destruct ((n <? 1) || (year_len year <? n)) eqn:N.
    + replace ((1 <=? year) && (year <=? 9999) && (1 <=? n) && (n <=? year_len year)) with false by lia. reflexivity.
    + replace ((1 <=? year) && (year <=? 9999) && (1 <=? n) && (n <=? year_len year)) with true by lia.
      replace ((1 <=? year) && (year <=? 9999) && (1 <=? 1) && (1 <=? 12) && (1 <=? 1) && (1 <=? 31)) with true by lia.
      cbn [bind lift]. unfold date_add_days. rewrite ord_jan.
      assert (days_before_year 1 <= days_before_year year) by (apply days_before_year_mono; lia).
      assert (days_before_year (year + 1) <= days_before_year 10000) by (apply days_before_year_mono; lia).
      rewrite days_before_year_succ in *.
      change (days_before_year 1) with 0 in *. change (days_before_year 10000) with 3652059 in *.
      replace ((1 <=? days_before_year year + 1 + (n - 1)) && (days_before_year year + 1 + (n - 1) <=? max_ord))
        with true by (unfold max_ord; lia).
      cbn [bind]. do 3 f_equal. lia.
  - replace ((1 <=? year) && (year <=? 9999) && (1 <=? n) && (n <=? year_len year)) with false by lia.
    replace ((1 <=? year) && (year <=? 9999) && (1 <=? 1) && (1 <=? 12) && (1 <=? 1) && (1 <=? 31)) with false by lia.
    cbn [bind lift]. destruct ((n <? 1) || (year_len year <? n)); reflexivity.
Qed.

Lemma uncommon_raw_eq s :
  parse_isodate_uncommon s =
  bind (uncommon_raw s) (fun rp => let '(raw, pos) := rp in
                                   bind (eval_raw raw) (fun ymd => Ok (ymd, pos))).
Proof.
  unfold parse_isodate_uncommon, uncommon_raw. cbv zeta.
  destruct (length s <? 4)%nat; [reflexivity|].
  destruct (parse_digits (sl s 0 4) 4) as [year|]; cbn [bind]; [|reflexivity].
  destruct (beq (sl s (4 + (if beq (sl s 4 5) DATE_SEP then 1 else 0)) (4 + (if beq (sl s 4 5) DATE_SEP then 1 else 0) + 1)) [cW]).
  - destruct (parse_digits _ 2) as [weekno|]; cbn [bind]; [|reflexivity].
    match goal with |- bind ?x _ = _ => destruct x as [[dayno pos]|] end; cbn [bind]; [|reflexivity].
    unfold eval_raw. cbn [date_value]. now rewrite weekdate_equiv.
  - rewrite zlt3. destruct (_ <? _)%nat; [reflexivity|].
    destruct (parse_digits _ 3) as [n|]; cbn [bind]; [|reflexivity].
    unfold eval_raw. apply ord_equiv.
Qed.

Lemma parse_raw_eq s :
  parse_isodate_raw s =
  bind (parse_raw s) (fun rp => let '(raw, pos) := rp in
                                bind (eval_raw raw) (fun ymd => Ok (ymd, pos))).
Proof.
  unfold parse_isodate_raw, parse_raw. rewrite common_raw_eq, uncommon_raw_eq.
  assert (C : forall raw pos, common_raw s = Ok (raw, pos) -> exists y m d, raw = RCal y m d).
  { intros raw pos. unfold common_raw. cbv zeta.
    repeat (cbn [bind]; match goal with
      | |- Ok _ = Ok _ -> _ => intros [= <- <-]; eauto
      | |- Err _ = Ok _ -> _ => discriminate
      | |- context [parse_digits ?a ?b] => destruct (parse_digits a b) eqn:?
      | |- context [if ?c then _ else _] => destruct c eqn:?
      end). }
  destruct (common_raw s) as [[raw pos]|e] eqn:E; cbn [bind].
  - destruct (C raw pos eq_refl) as (y & m & d & ->). reflexivity.
  - destruct e; reflexivity.
Qed.

(* ------------------------------------------------------------------ raw scan vs grammar forms *)

Definition is_ordb (f : dform) : bool := match f with FOrdB => true | _ => false end.

(* a form's reading survives what follows it: nothing, or (for complete dates) a separator --
   which after YYYYDDD may not be a digit *)
Definition live (f : dform) (rest : list Z) : bool :=
  match rest with
  | [] => true
  | c :: _ => complete f && negb (is_ordb f && is_digit c)
  end.

Definition form_dead (f : dform) (s : list Z) : bool :=
  match date_fields f s with
  | None => true
  | Some (_, rest) => negb (live f rest)
  end.

Definition form_idx (f : dform) : nat :=
  match f with
  | FYear => 0 | FMonth => 1 | FCalX => 2 | FCalB => 3 | FWeekX => 4 | FWeekB => 5
  | FWeekDayX => 6 | FWeekDayB => 7 | FOrdX => 8 | FOrdB => 9
  end%nat.
Definition form_eqb (f g : dform) : bool := Nat.eqb (form_idx f) (form_idx g).

Definition date_ok (s : list Z) : Prop :=
  match parse_raw s with
  | Err e => e = ValueError /\ forallb (fun f => form_dead f s) all_dforms = true
  | Ok (raw, pos) =>
      exists f, date_fields f s = Some (raw, skipn pos s) /\ live f (skipn pos s) = true /\
                forallb (fun f' => form_eqb f f' || form_dead f' s) all_dforms = true
  end.
Ltac dcbn := cbn -[Z.mul Z.add Z.sub Z.pow].
Ltac dstep := dcbn; repeat (progress rw_all; dcbn); rewrite ?orb_true_r, ?andb_false_r, ?andb_true_r; dcbn.

Ltac dcls c :=
  destruct (is_digit c) eqn:?;
  [ assert ((c =? 45) = false) by (unfold is_digit in *; lia);
    assert ((c =? 87) = false) by (unfold is_digit in *; lia)
  | destruct (c =? 45) eqn:?;
    [ assert ((c =? 87) = false) by lia
    | destruct (c =? 87) eqn:? ] ].

Ltac solve_err := split; reflexivity.
Ltac try_form f := exists f; dstep; split; [reflexivity | split; reflexivity].
Ltac solve_ok := first [try_form FYear | try_form FMonth | try_form FCalX | try_form FCalB
                       | try_form FWeekX | try_form FWeekB | try_form FWeekDayX | try_form FWeekDayB
                       | try_form FOrdX | try_form FOrdB].
Ltac solve_leaf := first [solve_err | solve_ok].

Ltac go :=
  dstep;
  first [ solve_leaf
        | match goal with
          | |- context [is_digit ?c] => is_var c; dcls c; go
          | |- context [?c =? 45] => is_var c; dcls c; go
          | |- context [?c =? 87] => is_var c; dcls c; go
          | |- context [match ?r with [] => _ | _ :: _ => _ end] => is_var r; destruct r; go
          | |- context [length ?r] => is_var r; destruct r; go
          end ].

Lemma date_ok_short s : (length s < 4)%nat -> date_ok s.
Proof.
  intros H. destruct s as [|a [|b [|c [|d r]]]]; try (cbn in H; lia).
  all: unfold date_ok, parse_raw, common_raw, uncommon_raw, form_dead, live, date_fields, num, lit, pbind, pret, sl, parse_digits, isdigit; consts.
  all: go.
Qed.

Lemma date_ok_long c0 c1 c2 c3 r4 : date_ok (c0 :: c1 :: c2 :: c3 :: r4).
Proof.
  unfold date_ok, parse_raw, common_raw, uncommon_raw, form_dead, live, date_fields, num, lit, pbind, pret, sl, parse_digits, isdigit; consts.
  Time go.
Qed.

Theorem date_ok_all s : date_ok s.
Proof.
  destruct s as [|c0 [|c1 [|c2 [|c3 r4]]]].
  1-4: apply date_ok_short; cbn; lia.
  apply date_ok_long.
Qed.
