(* Model = recogniser, part 4: assembly.  isoparse / parse_isodate return exactly what the
   grammar-style recogniser reads, and ValueError for every other string. *)
From Coq Require Import ZArith List Bool Lia ZifyBool.
From V Require Import base.Cal iso.IsoBase iso.IsoModel iso.IsoSpec iso.IsoThm iso.IsoThmTz iso.IsoThmTime
                      iso.IsoThmWeek iso.IsoThmDate.
Import ListNotations.
Open Scope Z_scope.
Ltac Zify.zify_post_hook ::= Z.to_euclidean_division_equations.

(* ------------------------------------------------------------------ the two tails *)

Definition sepm (sep : option Z) (c : Z) : bool :=
  match sep with None => true | Some x => c =? x end.

(* what isoparse does once the date scanner returned (ymd, pos); rest = dt_str[pos:] *)
Definition model_tail (sep : option Z) (ymd : date3) (rest : list Z) : res dt8 :=
  let '(y, m, d) := ymd in
  bind (match rest with
        | [] => Ok None
        | c :: t => if sepm sep c then bind (parse_isotime_raw t) (fun tm => Ok (Some tm))
                    else Err ValueError
        end) (fun tm =>
  match tm with
  | None => mk_datetime y m d 0 0 0 0 TzNone
  | Some (h, mi, sec, us, tz) =>
      if h =? 24 then
        bind (mk_datetime y m d 0 mi sec us tz) (fun dt =>
        match date_add_days (y, m, d) 1 with
        | Ok (y', m', d') => Ok (y', m', d', 0, mi, sec, us, tz)
        | Err OverflowError => Err ValueError
        | Err e => Err e
        end)
      else mk_datetime y m d h mi sec us tz
  end).

(* what a reading does once the form's fields are consumed *)
Definition spec_tail (sep : option Z) (f : dform) (raw : rawdate) (rest : list Z) : option dt8 :=
  match rest with
  | [] => match date_value raw with
          | Some (y, m, d) => Some (y, m, d, 0, 0, 0, 0, TzNone)
          | None => None
          end
  | c :: t =>
      if complete f && sep_ok sep f c then
        match date_value raw, time_denotes_raw t with
        | Some ymd, Some tm => combine ymd tm
        | _, _ => None
        end
      else None
  end.

Lemma reading_tail sep f s :
  reading sep f s = match date_fields f s with
                    | None => None
                    | Some (raw, rest) => spec_tail sep f raw rest
                    end.
Proof. reflexivity. Qed.

Lemma nonnil_skipn' (t : list Z) pos : nonnil (skipn pos t) = (pos <? length t)%nat.
Proof.
  pose proof (skipn_length pos t) as L.
  destruct (skipn pos t) eqn:E; cbn [nonnil length] in *; symmetry.
  - apply Nat.ltb_ge. lia.
  - apply Nat.ltb_lt. lia.
Qed.

Lemma isoparse_tail sep s0 :
  isoparse sep s0 =
  takes_ascii s0 (fun s =>
    bind (parse_raw s) (fun rp => let '(raw, pos) := rp in
    bind (eval_raw raw) (fun ymd => model_tail sep ymd (skipn pos s)))).
Proof.
  unfold isoparse, takes_ascii. destruct (all_ascii s0); [|reflexivity].
  rewrite parse_raw_eq. destruct (parse_raw s0) as [[raw pos]|e]; cbn [bind]; [|reflexivity].
  destruct (eval_raw raw) as [[[y m] d]|e]; cbn [bind]; [|reflexivity].
  unfold model_tail. f_equal.
  rewrite <- nonnil_skipn'. rewrite sl_skipn, skipn_add.
  destruct (skipn pos s0) as [|c t]; cbn [nonnil]; [reflexivity|].
  unfold sepm. destruct sep as [x|]; [|reflexivity].
  cbn [firstn beq skipn]. now rewrite andb_true_r.
Qed.

(* ------------------------------------------------------------------ facts about the recognisers *)

Lemma time_denotes_raw_clock t h m s us tz :
  time_denotes_raw t = Some (h, m, s, us, tz) -> clock_ok h m s us = true.
Proof.
  intros E. pose proof (time_equiv t) as T. rewrite E in T.
  destruct (parse_isotime_raw t) as [[[[[h' m'] s'] us'] tz']|]; [|discriminate].
  cbn [bind clock_check lift] in T. destruct (clock_ok h' m' s' us') eqn:C'; [|discriminate].
  now injection T as -> -> -> -> ->.
Qed.

Lemma parse_isotime_raw_err t e : parse_isotime_raw t = Err e -> e = ValueError.
Proof.
  intros E. pose proof (time_equiv t) as T. rewrite E in T. cbn [bind] in T.
  destruct (time_denotes_raw t); cbn [lift] in T; congruence.
Qed.

Lemma date_value_valid raw y m d : date_value raw = Some (y, m, d) -> valid_ymd y m d = true.
Proof.
  destruct raw as [y0 m0 d0|y0 w0 d0|y0 n0]; cbn [date_value].
  - destruct (valid_ymd y0 m0 d0) eqn:V; [|discriminate]. now intros [= <- <- <-].
  - rewrite weekdate_of_spec. destruct (week_ok y0 w0 d0) eqn:OK; [|discriminate].
    unfold week_ok in OK. cbv zeta in OK.
    pose proof (ymd_of_ord_valid (week_ord y0 w0 d0) ltac:(lia)) as V.
    destruct (ymd_of_ord (week_ord y0 w0 d0)) as [[a b] c]. intros [= <- <- <-]. apply V.
  - destruct ((1 <=? y0) && (y0 <=? 9999) && (1 <=? n0) && (n0 <=? year_len y0)) eqn:C; [|discriminate].
    assert (R : 1 <= days_before_year y0 + n0 <= max_ord).
    { assert (days_before_year 1 <= days_before_year y0) by (apply days_before_year_mono; lia).
      assert (days_before_year (y0 + 1) <= days_before_year 10000) by (apply days_before_year_mono; lia).
      rewrite days_before_year_succ in *.
      change (days_before_year 1) with 0 in *. change (days_before_year 10000) with 3652059 in *.
      unfold max_ord. lia. }
    pose proof (ymd_of_ord_valid _ R) as V.
    destruct (ymd_of_ord (days_before_year y0 + n0)) as [[a b] c]. intros [= <- <- <-]. apply V.
Qed.

(* ------------------------------------------------------------------ tails agree *)

Definition after_time (y m d : Z) (tm : time5) : res dt8 :=
  let '(h, mi, sec, us, tz) := tm in
  if h =? 24 then
    bind (mk_datetime y m d 0 mi sec us tz) (fun dt =>
    match date_add_days (y, m, d) 1 with
    | Ok (y', m', d') => Ok (y', m', d', 0, mi, sec, us, tz)
    | Err OverflowError => Err ValueError
    | Err e => Err e
    end)
  else mk_datetime y m d h mi sec us tz.

Lemma model_tail_cons sep y m d c t :
  model_tail sep (y, m, d) (c :: t) =
  if sepm sep c then bind (parse_isotime_raw t) (after_time y m d) else Err ValueError.
Proof.
  unfold model_tail. destruct (sepm sep c); [|reflexivity].
  destruct (parse_isotime_raw t) as [[[[[h mi] sec] us] tz]|]; reflexivity.
Qed.

Lemma tail_equiv sep f raw y m d rest :
  date_value raw = Some (y, m, d) -> live f rest = true ->
  model_tail sep (y, m, d) rest = lift (spec_tail sep f raw rest).
Proof.
  intros DV L. pose proof (date_value_valid _ _ _ _ DV) as V.
  destruct rest as [|c t].
  - unfold model_tail, spec_tail. rewrite DV. cbn [bind]. unfold mk_datetime. rewrite V. reflexivity.
  - rewrite model_tail_cons. unfold spec_tail. rewrite DV.
    cbn [live] in L. apply andb_true_iff in L as [LC LD]. rewrite LC. cbn [andb].
    assert (SO : sep_ok sep f c = sepm sep c).
    { unfold sep_ok, sepm. change (match f with FOrdB => true | _ => false end) with (is_ordb f).
      rewrite LD. apply andb_true_r. }
    rewrite SO. destruct (sepm sep c); [|reflexivity].
    rewrite bind_check.
    2:{ intros h mi sec us tz E C. unfold after_time. unfold clock_ok in C. destruct (h =? 24) eqn:H24.
        - destruct (parse_isotime_raw_24 _ _ _ _ _ _ E ltac:(lia)) as (-> & -> & ->). discriminate.
        - unfold mk_datetime. rewrite C. now rewrite andb_false_r. }
    rewrite time_equiv.
    destruct (time_denotes_raw t) as [[[[[h mi] sec] us] tz]|] eqn:TD; cbn [lift bind]; [|reflexivity].
    pose proof (time_denotes_raw_clock _ _ _ _ _ _ TD) as C.
    unfold combine, after_time. unfold clock_ok in C. destruct (h =? 24) eqn:H24.
    + assert (mi = 0 /\ sec = 0 /\ us = 0) as (-> & -> & ->) by lia.
      unfold mk_datetime. rewrite V. change (valid_hmsu 0 0 0 0) with true. cbn [andb bind].
      unfold date_add_days. pose proof (ord_of_ymd_range _ _ _ V) as R.
      destruct (ord_of_ymd y m d + 1 <=? max_ord) eqn:E.
      * replace (1 <=? ord_of_ymd y m d + 1) with true by lia. cbn [andb].
        destruct (ymd_of_ord (ord_of_ymd y m d + 1)) as [[y' m'] d']. reflexivity.
      * replace (1 <=? ord_of_ymd y m d + 1) with true by lia. reflexivity.
    + unfold mk_datetime. rewrite V, C. reflexivity.
Qed.

Lemma tail_none sep f raw rest : date_value raw = None -> spec_tail sep f raw rest = None.
Proof.
  intros DV. unfold spec_tail. rewrite DV. destruct rest; [reflexivity|].
  destruct (complete f && sep_ok sep f z); reflexivity.
Qed.

Lemma tail_invalid sep y m d rest :
  valid_ymd y m d = false -> model_tail sep (y, m, d) rest = Err ValueError.
Proof.
  intros V. destruct rest as [|c t].
  - unfold model_tail. cbn [bind]. unfold mk_datetime. now rewrite V.
  - rewrite model_tail_cons. destruct (sepm sep c); [|reflexivity].
    destruct (parse_isotime_raw t) as [[[[[h mi] sec] us] tz]|e] eqn:P; cbn [bind].
    + unfold after_time, mk_datetime. rewrite V. cbn [andb bind]. destruct (h =? 24); reflexivity.
    + f_equal. now apply parse_isotime_raw_err in P.
Qed.

Lemma eval_tail sep f raw rest :
  live f rest = true ->
  bind (eval_raw raw) (fun ymd => model_tail sep ymd rest) = lift (spec_tail sep f raw rest).
Proof.
  intros L. destruct (date_value raw) as [[[y m] d]|] eqn:DV.
  - assert (E : eval_raw raw = Ok (y, m, d)).
    { destruct raw as [y0 m0 d0| |]; unfold eval_raw; [|now rewrite DV..].
      cbn [date_value] in DV. destruct (valid_ymd y0 m0 d0); [|discriminate]. now injection DV as -> -> ->. }
    rewrite E. cbn [bind]. now apply tail_equiv.
  - rewrite tail_none by assumption. destruct raw as [y0 m0 d0| |]; unfold eval_raw; [|now rewrite DV..].
    cbn [bind lift]. apply tail_invalid. cbn [date_value] in DV.
    destruct (valid_ymd y0 m0 d0); [discriminate | reflexivity].
Qed.

(* ------------------------------------------------------------------ dead forms, unique form *)

Lemma dead_reading sep f s : form_dead f s = true -> reading sep f s = None.
Proof.
  unfold form_dead. rewrite reading_tail. destruct (date_fields f s) as [[raw rest]|]; [|reflexivity].
  intros L. apply negb_true_iff in L. unfold spec_tail. destruct rest as [|c t]; [discriminate|].
  cbn [live] in L. unfold sep_ok. change (match f with FOrdB => true | _ => false end) with (is_ordb f).
  destruct (complete f); cbn [andb] in *; [|reflexivity]. rewrite L. now rewrite andb_false_r.
Qed.

Lemma form_eqb_eq f g : form_eqb f g = true -> f = g.
Proof. destruct f, g; cbn; intros H; try reflexivity; discriminate. Qed.

Lemma first_some_pick {A} (g : dform -> option A) f l :
  (forall f', In f' l -> f' = f \/ g f' = None) -> In f l -> first_some (map g l) = g f.
Proof.
  intros H Hin. destruct (g f) as [a|] eqn:Gf.
  - induction l as [|x l IH]; [destruct Hin|]. cbn [map first_some].
    destruct (H x (or_introl eq_refl)) as [->|N].
    + now rewrite Gf.
    + rewrite N. destruct Hin as [->|Hin]; [congruence|]. apply IH; [|exact Hin].
      intros f' Hf'. apply H. now right.
  - clear Hin. induction l as [|x l IH]; [reflexivity|]. cbn [map first_some].
    assert (N : g x = None) by (destruct (H x (or_introl eq_refl)) as [->|N]; assumption).
    rewrite N. apply IH. intros f' Hf'. apply H. now right.
Qed.

Lemma first_some_none {A} (g : dform -> option A) l :
  (forall f', In f' l -> g f' = None) -> first_some (map g l) = None.
Proof.
  induction l as [|x l IH]; intros H; [reflexivity|]. cbn [map first_some].
  rewrite (H x (or_introl eq_refl)). apply IH. intros f' Hf'. apply H. now right.
Qed.

Lemma all_dforms_in f : In f all_dforms.
Proof. destruct f; cbn; tauto. Qed.

(* ------------------------------------------------------------------ the main equivalences *)

Theorem isoparse_equiv sep s : isoparse sep s = lift (iso_denotes sep s).
Proof.
  rewrite isoparse_tail. unfold iso_denotes, takes_ascii. destruct (all_ascii s); [|reflexivity].
  pose proof (date_ok_all s) as D. unfold date_ok in D.
  destruct (parse_raw s) as [[raw pos]|e]; cbn [bind].
  - destruct D as (f & DF & L & U).
    rewrite (first_some_pick (fun f => reading sep f s) f).
    + rewrite reading_tail, DF. now apply eval_tail.
    + intros f' _. rewrite forallb_forall in U. specialize (U f' (all_dforms_in f')).
      apply orb_true_iff in U as [U|U]; [left; symmetry; now apply form_eqb_eq | right; now apply dead_reading].
    + apply all_dforms_in.
  - destruct D as [-> U]. rewrite first_some_none; [reflexivity|].
    intros f' _. apply dead_reading. rewrite forallb_forall in U. apply U, all_dforms_in.
Qed.

Lemma dead_date_reading f s : form_dead f s = true -> date_reading f s = None.
Proof.
  unfold form_dead, date_reading. destruct (date_fields f s) as [[raw rest]|]; [|reflexivity].
  intros L. destruct rest; [discriminate | reflexivity].
Qed.

Theorem parse_isodate_equiv s : parse_isodate s = lift (date_denotes s).
Proof.
  unfold parse_isodate, date_denotes, takes_ascii. destruct (all_ascii s); [|reflexivity].
  rewrite parse_raw_eq. pose proof (date_ok_all s) as D. unfold date_ok in D.
  destruct (parse_raw s) as [[raw pos]|e]; cbn [bind].
  - destruct D as (f & DF & L & U).
    rewrite (first_some_pick (fun f => date_reading f s) f).
    + unfold date_reading. rewrite DF.
      assert (EV : eval_raw raw = match raw with
                                  | RCal y m d => Ok (y, m, d)
                                  | _ => lift (date_value raw) end) by (destruct raw; reflexivity).
      destruct (date_value raw) as [[[y m] d]|] eqn:DV.
      * pose proof (date_value_valid _ _ _ _ DV) as V.
        assert (E : eval_raw raw = Ok (y, m, d)).
        { destruct raw as [y0 m0 d0| |]; rewrite EV; [|reflexivity..].
          cbn [date_value] in DV. destruct (valid_ymd y0 m0 d0); [|discriminate]. now injection DV as -> -> ->. }
        rewrite E. cbn [bind]. rewrite <- nonnil_skipn'.
        destruct (skipn pos s) as [|c t]; cbn [nonnil]; [|reflexivity].
        unfold mk_date. now rewrite V.
      * destruct raw as [y0 m0 d0| |]; rewrite EV; cbn [lift bind];
          [| destruct (skipn pos s); reflexivity ..].
        rewrite <- nonnil_skipn'. destruct (skipn pos s) as [|c t]; cbn [nonnil]; [|reflexivity].
        unfold mk_date. cbn [date_value] in DV.
        destruct (valid_ymd y0 m0 d0); [discriminate | reflexivity].
    + intros f' _. rewrite forallb_forall in U. specialize (U f' (all_dforms_in f')).
      apply orb_true_iff in U as [U|U]; [left; symmetry; now apply form_eqb_eq | right; now apply dead_date_reading].
    + apply all_dforms_in.
  - destruct D as [-> U]. rewrite first_some_none; [reflexivity|].
    intros f' _. apply dead_date_reading. rewrite forallb_forall in U. apply U, all_dforms_in.
Qed.

(* corollaries in the shape of the property text *)
Corollary isoparse_sound sep s v : isoparse sep s = Ok v -> iso_denotes sep s = Some v.
Proof. rewrite isoparse_equiv. destruct (iso_denotes sep s); cbn; congruence. Qed.

Corollary isoparse_complete sep s v : iso_denotes sep s = Some v -> isoparse sep s = Ok v.
Proof. rewrite isoparse_equiv. now intros ->. Qed.

Corollary isoparse_only_valueerror sep s e : isoparse sep s = Err e -> e = ValueError.
Proof. rewrite isoparse_equiv. destruct (iso_denotes sep s); cbn; congruence. Qed.

Corollary aux_only_valueerror s z e :
  (parse_isodate s = Err e -> e = ValueError) /\ (parse_isotime s = Err e -> e = ValueError) /\
  (parse_tzstr s z = Err e -> e = ValueError).
Proof.
  rewrite parse_isodate_equiv, parse_isotime_equiv, parse_tzstr_equiv.
  destruct (date_denotes s), (time_denotes s), (tzstr_denotes z s); cbn; repeat split; congruence.
Qed.

(* the constructor: isoparser(sep) accepts exactly one non-digit ASCII character *)
Corollary isoparser_init_only_valueerror sep s e : isoparser_isoparse sep s = Err e -> e = ValueError.
Proof.
  unfold isoparser_isoparse, init_sep. destruct sep as [[|c [|c' l]]|]; cbn [bind]; try congruence.
  - destruct ((128 <=? c) || is_digit c); cbn [bind]; [congruence | apply isoparse_only_valueerror].
  - apply isoparse_only_valueerror.
Qed.
