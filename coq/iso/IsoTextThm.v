(* The grammar of the property text (IsoText.v) against the model: equal outside the two findings,
   refuted inside each. *)
From Coq Require Import ZArith List Bool Lia.
From V Require Import base.Cal iso.IsoBase iso.IsoModel iso.IsoSpec iso.IsoText iso.IsoThm iso.IsoThmTz iso.IsoThmTime
                      iso.IsoThmMain iso.IsoThmRender.
Import ListNotations.
Open Scope Z_scope.

(* ---- the implementation's variant is IsoSpec's recogniser *)

Lemma frac_rel : forall t,
  frac t = match frac_t t with Some (ds, r) => Some (frac_us ds, r) | None => None end.
Proof.
  intros [|c r]; [reflexivity|]. unfold frac, frac_t.
  destruct ((c =? cDOT) || (c =? cCOMMA)); [|reflexivity].
  destruct (span_digits r) as [[|d ds] rest]; reflexivity.
Qed.

Lemma time_fields_rel : forall f t,
  time_fields f t =
  match time_fields_t f t with Some ((h, m, s, ds), r) => Some ((h, m, s, frac_us ds), r) | None => None end.
Proof.
  intros f t.
  assert (F0 : frac_us [] = 0) by reflexivity.
  destruct f; unfold time_fields, time_fields_t, pbind, pret;
    repeat match goal with
           | |- context [match num ?k ?x with _ => _ end] => destruct (num k x) as [[? ?]|]; [|reflexivity]
           | |- context [match lit ?c ?x with _ => _ end] => destruct (lit c x) as [[? ?]|]; [|reflexivity]
           end;
    try reflexivity;
    rewrite frac_rel; destruct (frac_t _) as [[? ?]|]; reflexivity.
Qed.

Lemma time_reading_impl : forall f t, time_reading_t true f t = time_reading f t.
Proof.
  intros f t. unfold time_reading_t, time_reading. rewrite time_fields_rel.
  destruct (time_fields_t f t) as [[[[[h m] s] ds] rest]|]; reflexivity.
Qed.

Lemma time_raw_impl : forall t, time_raw_t true t = time_denotes_raw t.
Proof.
  intros t. unfold time_raw_t, time_denotes_raw. f_equal. apply map_ext. intros f. apply time_reading_impl.
Qed.

Lemma reading_impl : forall sep f s, reading_t impl_language sep f s = reading sep f s.
Proof.
  intros sep f s. unfold reading_t, reading. cbn [impl_language v_ordigit v_trunc24].
  destruct (date_fields f s) as [[raw [|c t]]|]; try reflexivity.
  rewrite time_raw_impl. unfold sep_ok_t, sep_ok, is_ordb. cbn [andb]. reflexivity.
Qed.

Theorem impl_language_is_iso_denotes : forall sep s, iso_text_v impl_language sep s = iso_denotes sep s.
Proof.
  intros sep s. unfold iso_text_v, iso_denotes. destruct (all_ascii s); [|reflexivity].
  f_equal. apply map_ext. intros f. apply reading_impl.
Qed.

Theorem time_impl_is_time_denotes : forall s, time_text_v true s = time_denotes s.
Proof. intros s. unfold time_text_v, time_denotes. now rewrite time_raw_impl. Qed.

(* ---- outside F-C20-2400-subus the two end-of-day checks agree *)

Lemma all_zero_int : forall ds, all_zero ds = true -> int_acc 0 ds = 0.
Proof.
  unfold int_acc, all_zero. induction ds as [|c ds IH]; intros H; [reflexivity|].
  cbn [forallb] in H. apply andb_true_iff in H. destruct H as [Hc H]. apply Z.eqb_eq in Hc. subst c.
  cbn [fold_left]. change (0 * 10 + (48 - 48)) with 0. apply IH, H.
Qed.

Lemma all_zero_frac : forall ds, all_zero ds = true -> frac_us ds = 0.
Proof. intros ds H. unfold frac_us. now rewrite (all_zero_int ds H). Qed.

Lemma existsb_false_in : forall {A} (p : A -> bool) l x, existsb p l = false -> In x l -> p x = false.
Proof.
  intros A p l x H Hin. destruct (p x) eqn:E; [|reflexivity].
  assert (existsb p l = true) by (apply existsb_exists; exists x; split; assumption). congruence.
Qed.

Lemma all_tforms_in : forall f, In f all_tforms.
Proof. intros f. destruct f; cbn; tauto. Qed.
Lemma all_dforms_in : forall f, In f all_dforms.
Proof. intros f. destruct f; cbn; tauto. Qed.

Lemma time_reading_guard : forall f t, subus24 t = false ->
  time_reading_t false f t = time_reading_t true f t.
Proof.
  intros f t H. pose proof (existsb_false_in _ _ f H (all_tforms_in f)) as Hf. cbv beta in Hf.
  unfold time_reading_t. destruct (time_fields_t f t) as [[[[[h m] s] ds] rest]|]; [|reflexivity].
  assert (E : clock_ok_t false h m s ds = clock_ok_t true h m s ds).
  { unfold clock_ok_t. destruct (h =? 24); [|reflexivity].
    destruct (m =? 0); [|reflexivity]. destruct (s =? 0); [|reflexivity]. cbn [andb] in *.
    destruct (all_zero ds) eqn:Z.
    - rewrite (all_zero_frac ds Z). reflexivity.
    - destruct (frac_us ds =? 0); [discriminate Hf | reflexivity]. }
  now rewrite E.
Qed.

Lemma time_raw_guard : forall t, subus24 t = false -> time_raw_t false t = time_raw_t true t.
Proof.
  intros t H. unfold time_raw_t. f_equal. apply map_ext. intros f. now apply time_reading_guard.
Qed.

(* the time-only entry point *)
Theorem parse_isotime_text_equiv_guarded : forall s, subus24 s = false ->
  parse_isotime s = lift (time_text s).
Proof.
  intros s H. rewrite parse_isotime_equiv, <- time_impl_is_time_denotes.
  unfold time_text, time_text_v. now rewrite (time_raw_guard s H).
Qed.

(* ---- isoparse *)

Lemma reading_trunc_guard : forall o sep f s, finding_2400_subus s = false ->
  reading_t (mkVariant o false) sep f s = reading_t (mkVariant o true) sep f s.
Proof.
  intros o sep f s H. pose proof (existsb_false_in _ _ f H (all_dforms_in f)) as Hf. cbv beta in Hf.
  unfold reading_t. cbn [v_ordigit v_trunc24].
  destruct (date_fields f s) as [[raw [|c t]]|]; try reflexivity.
  destruct (complete f); [|reflexivity]. cbn [andb] in *.
  now rewrite (time_raw_guard t Hf).
Qed.

Lemma reading_ordigit_guard : forall sep f s, finding_ordinal_digit sep s = false ->
  reading_t (mkVariant false false) sep f s = reading_t (mkVariant true false) sep f s.
Proof.
  intros sep f s H.
  destruct (is_ordb f) eqn:Ef.
  - destruct f; try discriminate Ef. unfold finding_ordinal_digit in H. fold text_grammar.
    destruct (date_fields FOrdB s) as [[raw [|c t]]|] eqn:Ed.
    1,3: unfold reading_t; rewrite Ed; reflexivity.
    destruct (is_digit c) eqn:Dc.
    + cbn [andb] in H.
      destruct (reading_t text_grammar sep FOrdB s) eqn:R; [cbn in H; discriminate H|].
      unfold reading_t. rewrite Ed. unfold sep_ok_t. cbn [v_ordigit is_ordb andb]. rewrite Dc. cbn [negb].
      now rewrite andb_false_r.
    + unfold reading_t, text_grammar. rewrite Ed. unfold sep_ok_t. cbn [v_ordigit is_ordb andb]. now rewrite Dc.
  - unfold reading_t. cbn [v_ordigit v_trunc24]. unfold sep_ok_t. rewrite Ef. cbn [andb]. reflexivity.
Qed.

Theorem iso_text_equiv_guarded : forall sep s,
  finding_ordinal_digit sep s = false -> finding_2400_subus s = false ->
  iso_text sep s = iso_denotes sep s.
Proof.
  intros sep s Ha Hb. rewrite <- impl_language_is_iso_denotes. unfold iso_text, iso_text_v.
  destruct (all_ascii s); [|reflexivity]. f_equal. apply map_ext. intros f.
  unfold text_grammar, impl_language.
  rewrite (reading_ordigit_guard sep f s Ha). apply reading_trunc_guard, Hb.
Qed.

(* model = lift (text grammar) outside the two findings *)
Theorem isoparse_text_equiv_guarded : forall sep s,
  finding_ordinal_digit sep s = false -> finding_2400_subus s = false ->
  isoparse sep s = lift (iso_text sep s).
Proof. intros sep s Ha Hb. rewrite (iso_text_equiv_guarded sep s Ha Hb). apply isoparse_equiv. Qed.

(* soundness w.r.t. the text grammar needs only the guard of the C20 finding: rejecting a well-formed string
   (the C07 finding) is not a misreading *)
Lemma first_some_last : forall {A} (l : list (option A)) x x' v,
  (x = Some v -> x' = Some v) -> first_some (l ++ [x]) = Some v -> first_some (l ++ [x']) = Some v.
Proof.
  intros A l x x' v Hx. induction l as [|[a|] l IH]; cbn.
  - destruct x as [a|]; [|discriminate]. intros E. rewrite (Hx E). reflexivity.
  - trivial.
  - exact IH.
Qed.

Lemma reading_ordigit_mono : forall t sep s v,
  reading_t (mkVariant true t) sep FOrdB s = Some v -> reading_t (mkVariant false t) sep FOrdB s = Some v.
Proof.
  intros t sep s v. unfold reading_t. cbn [v_ordigit v_trunc24].
  destruct (date_fields FOrdB s) as [[raw [|c r]]|]; trivial.
  unfold sep_ok_t. cbn [is_ordb andb].
  destruct (is_digit c); cbn [negb]; [rewrite andb_false_r; discriminate | trivial].
Qed.

Lemma reading_ordigit_other : forall a b t sep f s, is_ordb f = false ->
  reading_t (mkVariant a t) sep f s = reading_t (mkVariant b t) sep f s.
Proof.
  intros a b t sep f s Ef. unfold reading_t. cbn [v_ordigit v_trunc24].
  destruct (date_fields f s) as [[raw [|c r]]|]; trivial.
  unfold sep_ok_t. rewrite Ef. cbn [andb]. now rewrite !andb_false_r.
Qed.

Theorem isoparse_text_sound_guarded : forall sep s v,
  finding_2400_subus s = false -> isoparse sep s = Ok v -> iso_text sep s = Some v.
Proof.
  intros sep s v Hb H. apply isoparse_sound in H. rewrite <- impl_language_is_iso_denotes in H.
  unfold iso_text, iso_text_v in *. destruct (all_ascii s); [|discriminate].
  unfold text_grammar, impl_language in *.
  assert (E : forall f, reading_t (mkVariant false false) sep f s = reading_t (mkVariant false true) sep f s)
    by (intros f; now apply reading_trunc_guard).
  rewrite (map_ext _ _ E).
  change all_dforms with ([FYear; FMonth; FCalX; FCalB; FWeekX; FWeekB; FWeekDayX; FWeekDayB; FOrdX] ++ [FOrdB]) in *.
  rewrite map_app in *. cbn [map] in *.
  repeat match goal with
         | |- context [reading_t (mkVariant false true) sep ?f s] =>
             lazymatch f with
             | FOrdB => fail
             | _ => rewrite (reading_ordigit_other false true true sep f s eq_refl)
             end
         end.
  eapply first_some_last; [|exact H]. apply reading_ordigit_mono.
Qed.

(* ---- witnesses inside the guards *)

(* '2014-01-01T24:00:00.0000009' *)
Definition w_subus : list Z :=
  [50;48;49;52;45;48;49;45;48;49;84;50;52;58;48;48;58;48;48;46;48;48;48;48;48;48;57].
(* '24:00:00.0000009' *)
Definition w_subus_time : list Z := [50;52;58;48;48;58;48;48;46;48;48;48;48;48;48;57].

Theorem isoparse_text_sound_refuted_2400_subus :
  finding_2400_subus w_subus = true /\
  isoparse None w_subus = Ok (2014, 1, 2, 0, 0, 0, 0, TzNone) /\ iso_text None w_subus = None /\
  subus24 w_subus_time = true /\
  parse_isotime w_subus_time = Ok (0, 0, 0, 0, TzNone) /\ time_text w_subus_time = None.
Proof. vm_compute. repeat split; reflexivity. Qed.

(* '2014123412' = 2014-123 (3 May), separator '4', 12 h *)
Definition w_ordigit : list Z := [50;48;49;52;49;50;51;52;49;50].
Definition w_ordigit_fmt : fmt := mkFmt FOrdB (Some (TS THour false 1 [])) 52.

Theorem isoparse_render_refuted_ordinal_digit :
  fmt_ordinal_digit w_ordigit_fmt = true /\ wf_fmt_text w_ordigit_fmt None ONone = true /\
  valid_dt (2014, 5, 3, 12, 0, 0, 0) = true /\
  render_iso w_ordigit_fmt (2014, 5, 3, 12, 0, 0, 0) ONone = w_ordigit /\
  finding_ordinal_digit None w_ordigit = true /\
  iso_text None w_ordigit = Some (expected w_ordigit_fmt (2014, 5, 3, 12, 0, 0, 0) ONone) /\
  isoparse None w_ordigit = Err ValueError.
Proof. vm_compute. repeat split; reflexivity. Qed.

(* ---- C07: the guard of the inverse law is exactly the complement of the finding *)

Lemma wf_fmt_split : forall f sep o,
  wf_fmt f sep o = wf_fmt_text f sep o && negb (fmt_ordinal_digit f).
Proof.
  intros f sep o. unfold wf_fmt, wf_fmt_text, fmt_ordinal_digit, sep_ok, sep_plain, is_ordb.
  destruct (f_time f); [|now rewrite andb_true_r].
  destruct (complete (f_date f)); [|reflexivity]. cbn [andb].
  destruct (match sep with None => true | Some x => f_sep f =? x end); [|reflexivity]. cbn [andb].
  destruct (negb _); cbn [andb]; [now rewrite andb_true_r|].
  now rewrite andb_false_r.
Qed.

Theorem isoparse_render_guarded : forall f sep o dt,
  wf_fmt_text f sep o = true -> fmt_ordinal_digit f = false -> valid_dt dt = true ->
  isoparse sep (render_iso f dt o) = Ok (expected f dt o).
Proof.
  intros f sep o dt W G V. apply isoparse_render; [|exact V]. rewrite wf_fmt_split, W, G. reflexivity.
Qed.

(* the zero_as_utc = False flag of parse_tzstr: the inverse law without the UTC normalisation *)
Definition tz_of_noutc (o : off) : tzv :=
  let v (neg : bool) (h m : Z) := TzOff ((if neg then -1 else 1) * (h * 3600 + m * 60)) in
  match o with
  | ONone => TzNone
  | OZulu _ => TzUTC
  | OHH neg h => v neg h 0
  | OHHMM neg h m | OHH_MM neg h m => v neg h m
  end.

Theorem parse_tzstr_render_noutc : forall o,
  o <> ONone -> wf_off o = true -> parse_tzstr (render_off o) false = Ok (tz_of_noutc o).
Proof.
  intros o Hn Hw. unfold parse_tzstr, takes_ascii.
  destruct o as [|lower|neg h|neg h m|neg h m]; [congruence| | | |].
  - destruct lower; reflexivity.
  - cbn [wf_off] in Hw. unfold render_off. rewrite IsoThm.digits2.
    destruct neg; cbn -[Z.mul Z.add Z.div Z.modulo];
    rewrite ?IsoThm.dig_lt128; cbn [andb]; rewrite IsoThm.pd2 by lia; cbn [bind andb];
    (destruct (23 <? h) eqn:E2; [lia|]); do 2 f_equal; lia.
  - cbn [wf_off] in Hw. unfold render_off. rewrite !IsoThm.digits2.
    destruct neg; cbn -[Z.mul Z.add Z.div Z.modulo];
    rewrite ?IsoThm.dig_lt128; cbn [andb]; rewrite IsoThm.pd2 by lia; cbn [bind];
    rewrite IsoThm.dig_ne_colon; cbn [andb skipn]; rewrite IsoThm.pd2 by lia; cbn [bind andb];
    (destruct (59 <? m) eqn:E1; [lia|]); (destruct (23 <? h) eqn:E2; [lia|]); do 2 f_equal; lia.
  - cbn [wf_off] in Hw. unfold render_off. rewrite !IsoThm.digits2.
    destruct neg; cbn -[Z.mul Z.add Z.div Z.modulo];
    rewrite ?IsoThm.dig_lt128; cbn [andb]; rewrite IsoThm.pd2 by lia; cbn [bind skipn];
    rewrite IsoThm.pd2 by lia; cbn [bind andb];
    (destruct (59 <? m) eqn:E1; [lia|]); (destruct (23 <? h) eqn:E2; [lia|]); do 2 f_equal; lia.
Qed.
