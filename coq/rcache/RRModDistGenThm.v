(* C01 -- rrule.__mod_distance REGENERATED from /repo's source (gen/RRInitGen.v, by harness/gen_rr_init.py)
   equals C01's hand-written model rr/RRIter.mod_distance, for ALL inputs.  Separate file because it imports
   the rr area's iteration model. *)
From Coq Require Import ZArith List Bool Lia.
From V Require Import base.Cal rr.RRBase rr.RRNorm rr.RRIter rcache.RReplace rcache.RRInitBase gen.RRInitGen.
Import ListNotations.
Open Scope Z_scope.

Lemma gen_mod_distance_loop_eq : forall n itv base byxxx value acc,
  gen_mod_distance_loop n itv base byxxx value acc = mod_distance_loop n itv base byxxx value acc.
Proof.
  induction n as [|k IH]; intros; [reflexivity|].
  cbn [gen_mod_distance_loop mod_distance_loop]. cbv zeta.
  destruct (memZ ((value + itv) mod base) byxxx); [reflexivity | apply IH].
Qed.

Theorem gen_mod_distance_is_model : forall rl value byxxx base,
  match gen_mod_distance (interval rl) value byxxx base with
  | Some p => Ok p
  | None => Err EType
  end = mod_distance rl value byxxx base.
Proof.
  intros. unfold gen_mod_distance, mod_distance. replace (base + 1 - 1) with base by lia.
  rewrite gen_mod_distance_loop_eq. reflexivity.
Qed.
