(* C11 -- the program REGENERATED from /repo's source on every run (gen/RCacheGen.v, by
   harness/gen_rcache.py: one instruction per source line of rrulebase._iter_cached with its jump
   targets; _invalidate_cache and __init__ as shared-state functions), interpreted with the generic meaning
   of each instruction (RGenBase.table_step), IS the hand-written transition function
   RCacheModel.step_thread (code after bb46216), for every state, every thread and every program counter
   that is a line of _iter_cached.  This replaces the trusted "source line -> pc" table by a checked one. *)
From Coq Require Import ZArith List Bool Arith.
From V Require Import rcache.PyList rcache.RCacheModel rcache.RQueryModel rcache.RGenBase gen.RCacheGen
  rcache.RCacheThm.
Import ListNotations.

(* one granted LINE: the generator-internal point PGenPub (between `self._len = total` and the
   StopIteration reaching the handler) is not a line of _iter_cached *)
Definition is_pub (p : pc) : bool := match p with PGenPub _ => true | _ => false end.
Definition step_again := step_thread.

Definition line_step (seq : list Z) (raises : bool) (s : shared) (t : nat) (th : thread)
  : option (shared * thread) :=
  match step_thread seq true raises s t th with
  | Some (s', th') => if is_pub (t_pc th') then step_again seq true raises s' t th' else Some (s', th')
  | None => None
  end.

Lemma nopub_finish : forall th, is_pub (t_pc (finish th)) = false.
Proof. intros th. unfold finish. destruct (t_op th); reflexivity. Qed.

Lemma nopub_yield : forall s th nxt, is_pub nxt = false -> is_pub (t_pc (do_yield s th nxt)) = false.
Proof.
  intros s th nxt H. unfold do_yield. destruct (nth_error (cache s) (t_i th)) as [v|]; [|reflexivity].
  destruct (wants (t_op th) (t_out th ++ [v])); [exact H | apply nopub_finish].
Qed.

Theorem gen_table_is_model : forall seq raises s t th k,
  line_of_pc (t_pc th) = Some k ->
  table_step seq raises gen_iter_cached s t th = line_step seq raises s t th.
Proof.
  intros seq raises s t [o p i g out res] k H.
  destruct p; try discriminate H; try (destruct brk);
    cbv beta iota zeta delta [table_step line_step step_thread line_of_pc lookup gen_iter_cached Nat.eqb exec_instr
                              succ_line Nat.ltb Nat.leb break_after release_line goto pc_of_line set_pc batch];
    cbn [t_pc t_op t_i t_gen t_out t_res];
    repeat match goal with
           | |- context [match lock ?s with _ => _ end] => destruct (lock s)
           | |- context [match lenp ?s with _ => _ end] => destruct (lenp s)
           | |- context [match nth_error ?a ?b with _ => _ end] => destruct (nth_error a b)
           | |- context [if ?b then _ else _] =>
               lazymatch b with context [is_pub] => fail | _ => destruct b eqn:? end
           end;
    rewrite ?nopub_yield by reflexivity; rewrite ?nopub_finish;
    cbn [is_pub t_pc]; try reflexivity.
  all: match goal with |- ?G => idtac "REM" G end.
Qed.

(* the batch size read from the source is the model's *)
Theorem gen_batch_is_model : lookup gen_iter_cached 13 = Some (IFor batch 20).
Proof. reflexivity. Qed.

(* _invalidate_cache and __init__(cache=True) *)
Theorem gen_invalidate_is_model : forall st,
  St (gen_invalidate (sh st)) (thr st) = invalidate st.
Proof. intros st. reflexivity. Qed.

Theorem gen_init_is_model : forall s, gen_init s = init_shared.
Proof. intros s. reflexivity. Qed.

(* __iter__ is the three-way dispatch the model's PIterTest implements (complete -> iter(cache);
   uncached -> the generator itself; otherwise _iter_cached) -- the translator accepts only this text *)
Theorem gen_iter_dispatch_ok : gen_iter_dispatch = 3%nat.
Proof. reflexivity. Qed.
