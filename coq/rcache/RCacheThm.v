(* C11 -- theorems about the transition system of RCacheModel.v. *)
From Coq Require Import ZArith List Bool Arith Lia.
From V Require Import rcache.RCacheModel rcache.RCacheSpec.
Import ListNotations.
Open Scope Z_scope.

(* The model can express the defect repaired by bb46216: with fixed = false (both `break`s leave the
   critical section without release()) two iterators over a 10-element rule deadlock. *)
Definition dl_seq : list Z := [1;2;3;4;5;6;7;8;9;10].
Definition dl_sched : list nat := repeat 1%nat 3 ++ repeat 0%nat 300 ++ repeat 1%nat 300.

Lemma prefix_code_deadlocks :
  let s := exec dl_seq false dl_sched (init [OList; OList]) in
  all_done s = false /\ stuck dl_seq false s = true.
Proof. vm_compute. split; reflexivity. Qed.

Lemma fixed_code_same_schedule_completes :
  let s := exec dl_seq true dl_sched (init [OList; OList]) in
  all_done s = true /\
  map t_res (thr s) = [Some (Ret dl_seq); Some (Ret dl_seq)].
Proof. vm_compute. split; reflexivity. Qed.
