(* C11 -- theorems about the transition system of RCacheModel.v (the code after fix bb46216,
   `fixed = true`), for an ARBITRARY underlying sequence `seq`, ANY set of operations and ANY
   schedule.

     Inv                  the invariant: cache = firstn gpos seq; generator finished -> cache = seq and
                          _len = |seq|; complete -> finished; lock held by t <-> t's pc is inside the
                          critical section; every iterator has delivered exactly a prefix of seq
                          (firstn i seq), its cursor never passes the cache, it never raises.
     inv_reachable        Inv holds in every state reachable under any schedule (induction over exec).
     observes_uncached    every thread's received values are a prefix of seq; a finished operation
                          returned what it returns on an uncached rule (spec_result).
     no_deadlock          in every reachable state that is not all-done some thread can step.
     crit_progress        a lock holder's steps are never blocked and strictly decrease a rank <= 31:
                          the lock is released within 31 of the holder's own steps.
   The pre-fix code (`fixed = false`) is shown to deadlock (prefix_code_deadlocks). *)
From Coq Require Import ZArith List Bool Arith Lia.
From V Require Import rcache.RCacheModel rcache.RCacheSpec.
Import ListNotations.
Open Scope Z_scope.

(* ------------------------------------------------------------------------------------------ *)
(* list facts (slices are only ever rewritten, never simplified) *)

Lemma firstn_snoc_nth : forall (l : list Z) n v,
  nth_error l n = Some v -> firstn (S n) l = firstn n l ++ [v].
Proof.
  induction l as [|x l IH]; intros [|n] v H; try discriminate.
  - inversion H; reflexivity.
  - change (firstn (S (S n)) (x :: l)) with (x :: firstn (S n) l).
    change (firstn (S n) (x :: l)) with (x :: firstn n l).
    change (nth_error (x :: l) (S n)) with (nth_error l n) in H.
    rewrite (IH _ _ H). reflexivity.
Qed.

Lemma skipn_nth : forall (l : list Z) n v,
  nth_error l n = Some v -> skipn n l = v :: skipn (S n) l.
Proof.
  induction l as [|x l IH]; intros [|n] v H; try discriminate.
  - inversion H; reflexivity.
  - change (skipn (S n) (x :: l)) with (skipn n l).
    change (skipn (S (S n)) (x :: l)) with (skipn (S n) l).
    apply IH. exact H.
Qed.

Lemma nth_error_firstn_lt : forall (l : list Z) n i,
  (i < n)%nat -> nth_error (firstn n l) i = nth_error l i.
Proof.
  induction l as [|x l IH]; intros n i H.
  - rewrite firstn_nil. reflexivity.
  - destruct n as [|n]; [lia|]. destruct i as [|i]; [reflexivity|].
    change (nth_error (firstn (S n) (x :: l)) (S i)) with (nth_error (firstn n l) i).
    change (nth_error (x :: l) (S i)) with (nth_error l i).
    apply IH. lia.
Qed.

Lemma nth_error_some_lt : forall (l : list Z) n v, nth_error l n = Some v -> (n < length l)%nat.
Proof. intros l n v H. apply nth_error_Some. rewrite H. discriminate. Qed.

Lemma nth_error_lt_some : forall (l : list Z) n, (n < length l)%nat -> exists v, nth_error l n = Some v.
Proof.
  intros l n H. destruct (nth_error l n) eqn:E; [eauto|].
  apply nth_error_None in E. lia.
Qed.

Lemma last_opt_snoc : forall l x, last_opt (l ++ [x]) = Some x.
Proof. intros. unfold last_opt. rewrite rev_app_distr. reflexivity. Qed.

(* ------------------------------------------------------------------------------------------ *)
(* consumers *)

Lemma consume_from_stop : forall o seen rest, wants o seen = false -> consume_from o seen rest = seen.
Proof. intros o seen [|x r] H; simpl; rewrite H; reflexivity. Qed.

Lemma consume_from_nil : forall o seen, consume_from o seen [] = seen.
Proof. intros. simpl. destruct (wants o seen); reflexivity. Qed.

Lemma consume_from_step : forall o seen x r,
  wants o seen = true -> consume_from o seen (x :: r) = consume_from o (seen ++ [x]) r.
Proof. intros. simpl. rewrite H. reflexivity. Qed.

Lemma consume_from_prefix : forall o rest seen,
  exists k, consume_from o seen rest = seen ++ firstn k rest.
Proof.
  induction rest as [|x r IH]; intros seen.
  - exists O. rewrite consume_from_nil, app_nil_r. reflexivity.
  - destruct (wants o seen) eqn:W.
    + rewrite consume_from_step by exact W. destruct (IH (seen ++ [x])) as [k Hk].
      exists (S k). rewrite Hk, <- app_assoc. reflexivity.
    + exists O. rewrite consume_from_stop by exact W. rewrite app_nil_r. reflexivity.
Qed.

Lemma consume_prefix : forall o l, is_prefix (consume o l) l.
Proof.
  intros o l. unfold is_prefix, consume. destruct (consume_from_prefix o l []) as [k Hk].
  rewrite Hk. cbn [app]. rewrite firstn_length.
  destruct (Nat.le_ge_cases k (length l)).
  - rewrite Nat.min_l by lia. reflexivity.
  - rewrite Nat.min_r by lia. rewrite firstn_all. rewrite firstn_all2 by lia. reflexivity.
Qed.

Lemma consume_from_all : forall o, (forall seen, wants o seen = true) ->
  forall rest seen, consume_from o seen rest = seen ++ rest.
Proof.
  intros o W. induction rest as [|x r IH]; intros seen.
  - rewrite consume_from_nil, app_nil_r. reflexivity.
  - rewrite consume_from_step by apply W. rewrite IH, <- app_assoc. reflexivity.
Qed.

Lemma consume_from_take : forall k rest seen, (length seen <= k)%nat ->
  consume_from (OTake k) seen rest = seen ++ firstn (k - length seen) rest.
Proof.
  intros k. induction rest as [|x r IH]; intros seen H.
  - rewrite consume_from_nil, firstn_nil, app_nil_r. reflexivity.
  - destruct (Nat.eq_dec (length seen) k) as [E|E].
    + rewrite consume_from_stop.
      * rewrite E, Nat.sub_diag. cbn [firstn]. rewrite app_nil_r. reflexivity.
      * cbn [wants]. apply Nat.ltb_ge. lia.
    + rewrite consume_from_step by (cbn [wants]; apply Nat.ltb_lt; lia).
      rewrite IH by (rewrite app_length; cbn [length]; lia).
      rewrite app_length. cbn [length].
      replace (k - length seen)%nat with (S (k - (length seen + 1)))%nat by lia.
      cbn [firstn]. rewrite <- app_assoc. reflexivity.
Qed.

Lemma consume_from_sliceto : forall k rest seen, (length seen <= k)%nat ->
  consume_from (OSliceTo k) seen rest = seen ++ firstn (k - length seen) rest.
Proof.
  intros k. induction rest as [|x r IH]; intros seen H.
  - rewrite consume_from_nil, firstn_nil, app_nil_r. reflexivity.
  - destruct (Nat.eq_dec (length seen) k) as [E|E].
    + rewrite consume_from_stop.
      * rewrite E, Nat.sub_diag. cbn [firstn]. rewrite app_nil_r. reflexivity.
      * cbn [wants]. apply Nat.ltb_ge. lia.
    + rewrite consume_from_step by (cbn [wants]; apply Nat.ltb_lt; lia).
      rewrite IH by (rewrite app_length; cbn [length]; lia).
      rewrite app_length. cbn [length].
      replace (k - length seen)%nat with (S (k - (length seen + 1)))%nat by lia.
      cbn [firstn]. rewrite <- app_assoc. reflexivity.
Qed.

Lemma consume_from_get : forall k rest seen, (length seen <= S k)%nat ->
  consume_from (OGet k) seen rest = seen ++ firstn (S k - length seen) rest.
Proof.
  intros k. induction rest as [|x r IH]; intros seen H.
  - rewrite consume_from_nil, firstn_nil, app_nil_r. reflexivity.
  - destruct (Nat.eq_dec (length seen) (S k)) as [E|E].
    + rewrite consume_from_stop.
      * rewrite E, Nat.sub_diag. cbn [firstn]. rewrite app_nil_r. reflexivity.
      * cbn [wants]. apply Nat.ltb_ge. lia.
    + rewrite consume_from_step by (cbn [wants]; apply Nat.ltb_lt; lia).
      rewrite IH by (rewrite app_length; cbn [length]; lia).
      rewrite app_length. cbn [length].
      replace (S k - length seen)%nat with (S (S k - (length seen + 1)))%nat by lia.
      cbn [firstn]. rewrite <- app_assoc. reflexivity.
Qed.

Lemma last_opt_firstn_S : forall (l : list Z) k v,
  nth_error l k = Some v -> last_opt (firstn (S k) l) = Some v.
Proof. intros l k v H. rewrite (firstn_snoc_nth _ _ _ H). apply last_opt_snoc. Qed.

(* what a finished consumer returns when run over the whole sequence = the uncached result *)
Lemma result_consume_spec : forall o l, o <> OCount -> result o (consume o l) = spec_result o l.
Proof.
  intros o l Hc. destruct o; try reflexivity; try congruence; unfold consume.
  - rewrite consume_from_all by reflexivity. reflexivity.
  - rewrite consume_from_take by (cbn [length]; lia). cbn [length app result spec_result].
    rewrite Nat.sub_0_r. reflexivity.
  - rewrite consume_from_get by (cbn [length]; lia). cbn [length app result spec_result].
    rewrite Nat.sub_0_r. destruct (nth_error l k) as [v|] eqn:E.
    + rewrite firstn_length_le by (apply nth_error_some_lt in E; lia).
      rewrite Nat.eqb_refl. rewrite (last_opt_firstn_S _ _ _ E). reflexivity.
    + apply nth_error_None in E. rewrite firstn_all2 by lia.
      destruct (length l =? S k)%nat eqn:E2; [apply Nat.eqb_eq in E2; lia | reflexivity].
  - rewrite consume_from_sliceto by (cbn [length]; lia). cbn [length app result spec_result].
    rewrite Nat.sub_0_r. reflexivity.
  - rewrite consume_from_all by reflexivity. reflexivity.
Qed.

(* ------------------------------------------------------------------------------------------ *)
(* the invariant *)

Definition in_crit (p : pc) : bool :=
  match p with
  | PTryO | PTestC | PBreakC | PTryI | PFor _ | PAdvance _ | PGenPub _ | PExcept | PSetGen
  | PSetC | PBreakE | PRelease _ | PExcX | PRelX => true
  | _ => false
  end.

Section Inv.
Variable seq : list Z.
Let N := length seq.

Definition shared_inv (s : shared) : Prop :=
  cache s = firstn (gpos s) seq /\
  (gpos s <= N)%nat /\
  (gdone s = true -> gpos s = N /\ lenp s = Some N) /\
  (forall n, lenp s = Some n -> gdone s = true) /\
  (sgen s = false -> gdone s = true) /\
  (complete s = true -> gdone s = true).

Definition gd (s : shared) : Prop := gdone s = true.

(* what a finished operation may have returned: the uncached result; for `x in rule` answered by the
   query's own fast path it is list membership (equal to the uncached early-exit scan when seq is
   strictly increasing, see contains_fast_ok) *)
Definition done_ok (o : op) (r : outcome) : Prop :=
  r = spec_result o seq \/
  exists x, o = OContains x /\ r = Ret [if existsb (Z.eqb x) seq then 1 else 0].

(* the consumer has received a prefix of seq and, continuing from here over the rest of seq, ends
   exactly where a run over an uncached rule ends *)
Definition pre (th : thread) : Prop :=
  is_prefix (t_out th) seq /\
  consume_from (t_op th) (t_out th) (skipn (length (t_out th)) seq) = consume (t_op th) seq.

Definition live (th : thread) : Prop :=
  pre th /\ length (t_out th) = t_i th /\ wants (t_op th) (t_out th) = true.

Definition fresh (th : thread) : Prop := t_out th = [] /\ t_i th = O.

Definition thread_inv (s : shared) (th : thread) : Prop :=
  is_prefix (t_out th) seq /\
  match t_pc th with
  | PQTest | PIterTest => fresh th
  | PLenTest => fresh th /\ t_op th = OCount
  | PInit | PGetGen => fresh th /\ wants (t_op th) [] = true
  | PGetCache | PGetAcq | PGetRel =>
      fresh th /\ wants (t_op th) [] = true /\ (t_gen th = false -> gd s)
  | PWhile | PIfLen | PAcquire | PTryO | PTestC | PTryI =>
      live th /\ (t_i th <= length (cache s))%nat /\ (t_gen th = false -> gd s)
  | PBreakC | PBreakE | PRelease true | PExcept | PGenPub _ | PSetGen | PSetC =>
      live th /\ (t_i th <= length (cache s))%nat /\ gd s
  | PFor j => live th /\ (t_i th + j <= length (cache s))%nat /\ (t_gen th = false -> gd s)
  | PAdvance j =>
      live th /\ (t_i th + j <= length (cache s))%nat /\ (j < batch)%nat /\ (t_gen th = false -> gd s)
  | PRelease false | PYield =>
      live th /\ (t_i th < length (cache s))%nat /\ (t_gen th = false -> gd s)
  | PIncr =>
      pre th /\ length (t_out th) = S (t_i th) /\ wants (t_op th) (t_out th) = true /\
      (S (t_i th) <= length (cache s))%nat /\ (t_gen th = false -> gd s)
  | PTWhile => live th /\ gd s /\ (t_i th <= N)%nat
  | PTYield => live th /\ gd s /\ (t_i th < N)%nat
  | PTIncr =>
      pre th /\ length (t_out th) = S (t_i th) /\ wants (t_op th) (t_out th) = true /\
      gd s /\ (S (t_i th) <= N)%nat
  | PRetLen => t_op th = OCount /\ gd s
  | PExcX | PRelX => False    (* only reachable when the generator raises *)
  | PDone => exists r, t_res th = Some r /\ done_ok (t_op th) r
  end.

Definition lock_inv (st : state) : Prop :=
  (forall t th, nth_error (thr st) t = Some th -> in_crit (t_pc th) = true -> lock (sh st) = Some t) /\
  (forall t, lock (sh st) = Some t ->
             exists th, nth_error (thr st) t = Some th /\ in_crit (t_pc th) = true).

Definition Inv (st : state) : Prop :=
  shared_inv (sh st) /\ lock_inv st /\
  (forall t th, nth_error (thr st) t = Some th -> thread_inv (sh st) th).

(* the shared state only grows *)
Definition sh_le (s s' : shared) : Prop :=
  (length (cache s) <= length (cache s'))%nat /\ (gdone s = true -> gdone s' = true).

Lemma sh_le_refl : forall s, sh_le s s.
Proof. intros; split; auto. Qed.

Lemma thread_inv_mono : forall s s' th, sh_le s s' -> thread_inv s th -> thread_inv s' th.
Proof.
  intros s s' th [Hl Hg] [Hp H]. split; [exact Hp|]. unfold gd in *.
  destruct (t_pc th); try exact H;
    try (match goal with b : bool |- _ => destruct b end);
    intuition (auto; try lia).
Qed.

(* ---- facts about a shared state satisfying the invariant *)

Lemma si_len_cache : forall s, shared_inv s -> length (cache s) = gpos s.
Proof.
  intros s (Hc & Hp & _). rewrite Hc. apply firstn_length_le. exact Hp.
Qed.

Lemma si_done_cache : forall s, shared_inv s -> gd s -> cache s = seq /\ lenp s = Some N.
Proof.
  intros s HS Hg. pose proof HS as (Hc & Hp & Hd & _). destruct (Hd Hg) as [E1 E2].
  split; [|exact E2]. rewrite Hc, E1. apply firstn_all.
Qed.

Lemma si_nth_cache : forall s i, shared_inv s -> (i < length (cache s))%nat ->
  exists v, nth_error (cache s) i = Some v /\ nth_error seq i = Some v.
Proof.
  intros s i HS Hi. pose proof (si_len_cache s HS) as Hl. destruct HS as (Hc & Hp & _).
  destruct (nth_error_lt_some seq i) as [v Hv]; [fold N; lia|].
  exists v. split; [|exact Hv]. rewrite Hc. rewrite nth_error_firstn_lt by lia. exact Hv.
Qed.

Lemma si_complete_gd : forall s, shared_inv s -> complete s = true -> gd s.
Proof. intros s (_ & _ & _ & _ & _ & H) C. exact (H C). Qed.
Lemma si_lenp_gd : forall s n, shared_inv s -> lenp s = Some n -> gd s.
Proof. intros s n (_ & _ & _ & H & _) L. exact (H n L). Qed.
Lemma si_sgen_gd : forall s, shared_inv s -> sgen s = false -> gd s.
Proof. intros s (_ & _ & _ & _ & H & _) L. exact (H L). Qed.
Lemma si_gpos_le : forall s, shared_inv s -> (gpos s <= N)%nat.
Proof. intros s (_ & H & _). exact H. Qed.

(* ---- the consumer side of a yield *)

Lemma pre_snoc : forall th v,
  pre th -> wants (t_op th) (t_out th) = true -> nth_error seq (length (t_out th)) = Some v ->
  forall p i g r, pre (Th (t_op th) p i g (t_out th ++ [v]) r).
Proof.
  intros th v [Hp Hc] W Hv p i g r. unfold pre, is_prefix in *. cbn [t_op t_out].
  rewrite app_length. cbn [length]. rewrite Nat.add_1_r. split.
  - rewrite (firstn_snoc_nth _ _ _ Hv). rewrite <- Hp. reflexivity.
  - rewrite <- Hc. rewrite (skipn_nth _ _ _ Hv). rewrite consume_from_step by exact W. reflexivity.
Qed.

Lemma pre_done_out : forall th,
  pre th -> (wants (t_op th) (t_out th) = false \/ (N <= length (t_out th))%nat) ->
  t_out th = consume (t_op th) seq.
Proof.
  intros th [Hp Hc] [W|L]; rewrite <- Hc.
  - rewrite consume_from_stop by exact W. reflexivity.
  - rewrite skipn_all2 by (fold N; lia). rewrite consume_from_nil. reflexivity.
Qed.

Lemma wants_count : forall l, wants OCount l = true.
Proof. reflexivity. Qed.

Lemma prefix_snoc : forall (out : list Z) v,
  is_prefix out seq -> nth_error seq (length out) = Some v -> is_prefix (out ++ [v]) seq.
Proof.
  unfold is_prefix. intros out v Hp Hv. rewrite app_length. cbn [length]. rewrite Nat.add_1_r.
  rewrite (firstn_snoc_nth _ _ _ Hv). rewrite <- Hp. reflexivity.
Qed.

(* finish: the consumer stops having received exactly what it receives from an uncached rule *)
Lemma finish_ok : forall s th,
  shared_inv s -> gd s \/ t_op th <> OCount ->
  is_prefix (t_out th) seq -> t_out th = consume (t_op th) seq ->
  thread_inv s (finish th).
Proof.
  intros s th HS Hg Hp He. unfold finish. destruct (t_op th) eqn:Eo;
    try (split; [exact Hp|]; cbn [t_pc t_res t_op]; eexists; split; [reflexivity|];
         left; rewrite He; apply result_consume_spec; congruence).
  split; [exact Hp|]. cbn [set_pc t_pc t_op]. split; [exact Eo|]. destruct Hg; [assumption|congruence].
Qed.

(* `yield cache[i]` *)
Lemma do_yield_ok : forall s th nxt v,
  shared_inv s -> live th ->
  nth_error (cache s) (t_i th) = Some v -> nth_error seq (t_i th) = Some v ->
  (forall th', t_pc th' = nxt -> t_op th' = t_op th -> t_i th' = t_i th -> t_gen th' = t_gen th ->
               pre th' -> length (t_out th') = S (t_i th) -> wants (t_op th') (t_out th') = true ->
               is_prefix (t_out th') seq -> thread_inv s th') ->
  thread_inv s (do_yield s th nxt).
Proof.
  intros s th nxt v HS (Hpre & Hlen & W) Hc Hs K. unfold do_yield. rewrite Hc.
  assert (Hv : nth_error seq (length (t_out th)) = Some v) by (rewrite Hlen; exact Hs).
  pose proof (pre_snoc th v Hpre W Hv nxt (t_i th) (t_gen th) (t_res th)) as Hpre'.
  pose proof (prefix_snoc _ _ (proj1 Hpre) Hv) as Hpf.
  destruct (wants (t_op th) (t_out th ++ [v])) eqn:W'.
  - apply K; cbn [t_pc t_op t_i t_gen t_out]; auto.
    rewrite app_length. cbn [length]. lia.
  - apply finish_ok; cbn [t_op t_out]; auto.
    + right. intro E. rewrite E in W'. discriminate.
    + apply (pre_done_out _ Hpre'). left. exact W'.
Qed.

(* the consumer runs over the complete cache list *)
Lemma fast_ok : forall s th, shared_inv s -> gd s -> thread_inv s (fast s th).
Proof.
  intros s th HS Hg. unfold fast. destruct (si_done_cache s HS Hg) as [Ec _].
  apply finish_ok; cbn [t_op t_out]; auto; rewrite Ec.
  - apply consume_prefix.
  - reflexivity.
Qed.

Lemma fastq_ok : forall s th, shared_inv s -> gd s -> is_prefix (t_out th) seq -> thread_inv s (fastq s th).
Proof.
  intros s th HS Hg Hp. unfold fastq. destruct (t_op th) eqn:Eo; try (apply fast_ok; assumption).
  split; [exact Hp|]. cbn [t_pc t_res t_op]. eexists. split; [reflexivity|].
  right. exists x. split; [reflexivity|]. destruct (si_done_cache s HS Hg) as [Ec _]. rewrite Ec. reflexivity.
Qed.

(* ------------------------------------------------------------------------------------------ *)
(* one line of one thread preserves the invariant *)

Ltac projs := cbn [t_pc t_op t_i t_gen t_out t_res set_pc cache complete sgen gpos gdone lock lenp] in *.
Ltac stepinv H := let E1 := fresh in let E2 := fresh in injection H as E1 E2; symmetry in E1; symmetry in E2; subst.
Ltac same HS := split; [exact HS | split; [apply sh_le_refl | ]].

Lemma step_thread_ok : forall s t th s' th',
  shared_inv s -> thread_inv s th ->
  step_thread seq true false s t th = Some (s', th') ->
  shared_inv s' /\ sh_le s s' /\ thread_inv s' th'.
Proof.
  intros s t th s' th' HS [Hpf HT] Hstep.
  pose proof (si_len_cache s HS) as Hlen. pose proof (si_gpos_le s HS) as Hp.
  unfold step_thread in Hstep. destruct th as [o p i g out res]. projs.
  destruct p; projs.
  - (* PQTest *)
    stepinv Hstep. same HS. destruct (complete s) eqn:C.
    + apply fastq_ok; auto. apply si_complete_gd; assumption.
    + split; [exact Hpf|]. projs. exact HT.
  - (* PLenTest *)
    stepinv Hstep. same HS. destruct HT as [HF Ho]. projs. subst o.
    destruct (lenp s) eqn:L; (split; [exact Hpf|]); projs.
    + split; [reflexivity|]. apply (si_lenp_gd _ _ HS L).
    + exact HF.
  - (* PIterTest *)
    stepinv Hstep. same HS. destruct HT as [Ho Hi]. projs. subst out i.
    destruct (complete s) eqn:C.
    + apply fast_ok; auto. apply si_complete_gd; assumption.
    + destruct (wants o []) eqn:W.
      * split; [exact Hpf|]. projs. split; [split; reflexivity | exact W].
      * apply finish_ok; projs; auto.
        -- right. intro E. subst o. discriminate.
        -- unfold consume. rewrite consume_from_stop by exact W. reflexivity.
  - (* PInit *)
    stepinv Hstep. same HS. split; [exact Hpf|]. projs. destruct HT as [[Ho Hi] W]. projs.
    split; [split; [exact Ho | reflexivity] | exact W].
  - (* PGetGen *)
    stepinv Hstep. same HS. split; [exact Hpf|]. projs. destruct HT as [HF W].
    split; [exact HF | split; [exact W | apply si_sgen_gd; exact HS]].
  - (* PGetCache *) stepinv Hstep. same HS. split; [exact Hpf|]. projs. exact HT.
  - (* PGetAcq *) stepinv Hstep. same HS. split; [exact Hpf|]. projs. exact HT.
  - (* PGetRel *)
    stepinv Hstep. same HS. split; [exact Hpf|]. projs. destruct HT as ([Ho Hi] & W & Hg). projs. subst out i.
    split; [|split; [lia | exact Hg]].
    split; [|split; [reflexivity | exact W]].
    split; [exact Hpf | reflexivity].
  - (* PWhile *)
    stepinv Hstep. same HS. split; [exact Hpf|]. destruct HT as (HL & Hi & Hg). projs.
    destruct g; projs.
    + split; [exact HL | split; [exact Hi | exact Hg]].
    + split; [exact HL | split; [apply Hg; reflexivity | fold N in Hp; lia]].
  - (* PIfLen *)
    stepinv Hstep. same HS. split; [exact Hpf|]. destruct HT as (HL & Hi & Hg). projs.
    destruct (i =? length (cache s))%nat eqn:E; projs.
    + split; [exact HL | split; [exact Hi | exact Hg]].
    + apply Nat.eqb_neq in E. split; [exact HL | split; [lia | exact Hg]].
  - (* PAcquire *)
    destruct (lock s); [discriminate|]. stepinv Hstep.
    split; [unfold shared_inv in *; projs; exact HS | split; [split; projs; auto |]].
    split; [exact Hpf|]. projs. exact HT.
  - (* PTryO *) stepinv Hstep. same HS. split; [exact Hpf|]. projs. exact HT.
  - (* PTestC *)
    stepinv Hstep. same HS. split; [exact Hpf|]. destruct HT as (HL & Hi & Hg). projs.
    destruct (complete s) eqn:C; projs.
    + split; [exact HL | split; [exact Hi | apply si_complete_gd; assumption]].
    + split; [exact HL | split; [exact Hi | exact Hg]].
  - (* PBreakC *) stepinv Hstep. same HS. split; [exact Hpf|]. projs. exact HT.
  - (* PTryI *)
    stepinv Hstep. same HS. split; [exact Hpf|]. destruct HT as (HL & Hi & Hg). projs.
    split; [exact HL | split; [lia | exact Hg]].
  - (* PFor j *)
    stepinv Hstep. same HS. split; [exact Hpf|]. destruct HT as (HL & Hi & Hg). projs.
    destruct (j <? batch)%nat eqn:E; projs.
    + apply Nat.ltb_lt in E. split; [exact HL | split; [exact Hi | split; [exact E | exact Hg]]].
    + apply Nat.ltb_ge in E. unfold batch in E. split; [exact HL | split; [lia | exact Hg]].
  - (* PAdvance j *)
    destruct HT as (HL & Hi & Hj & Hg). projs.
    pose proof HS as (Hc & _ & Hd & Hlp & Hsg & Hcm).
    destruct (gdone s) eqn:G.
    + stepinv Hstep. same HS. split; [exact Hpf|]. projs.
      split; [exact HL | split; [lia | exact G]].
    + destruct (nth_error seq (gpos s)) as [v|] eqn:E; stepinv Hstep.
      * assert (HS' : shared_inv (Sh (cache s ++ [v]) (complete s) (sgen s) (S (gpos s)) false (lock s) (lenp s))).
        { unfold shared_inv. projs. repeat split.
          - rewrite (firstn_snoc_nth _ _ _ E), <- Hc. reflexivity.
          - apply nth_error_some_lt in E. fold N in E. lia.
          - discriminate.
          - discriminate.
          - exact Hlp.
          - exact Hsg.
          - exact Hcm. }
        split; [exact HS'|]. split.
        { split; projs; [rewrite app_length; lia | intros X; rewrite X in G; discriminate]. }
        split; [exact Hpf|]. projs. rewrite app_length. cbn [length].
        split; [exact HL | split; [lia | intros X; specialize (Hg X); unfold gd in Hg; rewrite G in Hg; discriminate]].
      * apply nth_error_None in E. fold N in E.
        assert (HS' : shared_inv (Sh (cache s) (complete s) (sgen s) (gpos s) true (lock s) (Some (gpos s)))).
        { unfold shared_inv. projs. repeat split; auto; try lia. f_equal. lia. }
        split; [exact HS'|]. split.
        { split; projs; auto. }
        split; [exact Hpf|]. projs. split; [exact HL | split; [lia | reflexivity]].
  - (* PGenPub *) stepinv Hstep. same HS. split; [exact Hpf|]. projs. exact HT.
  - (* PExcept *) stepinv Hstep. same HS. split; [exact Hpf|]. projs. exact HT.
  - (* PSetGen *)
    stepinv Hstep. destruct HT as (HL & Hi & Hg). projs. unfold gd in Hg.
    pose proof HS as (Hc & _ & Hd & Hlp & Hsg & Hcm).
    split; [unfold shared_inv; projs; repeat split; auto; apply Hd; exact Hg|].
    split; [split; projs; auto|].
    split; [exact Hpf|]. projs. split; [exact HL | split; [exact Hi | exact Hg]].
  - (* PSetC *)
    stepinv Hstep. destruct HT as (HL & Hi & Hg). projs. unfold gd in Hg.
    pose proof HS as (Hc & _ & Hd & Hlp & Hsg & Hcm).
    split; [unfold shared_inv; projs; repeat split; auto; apply Hd; exact Hg|].
    split; [split; projs; auto|].
    split; [exact Hpf|]. projs. split; [exact HL | split; [exact Hi | exact Hg]].
  - (* PBreakE *) stepinv Hstep. same HS. split; [exact Hpf|]. projs. exact HT.
  - (* PRelease *)
    stepinv Hstep.
    split; [unfold shared_inv in *; projs; exact HS | split; [split; projs; auto |]].
    split; [exact Hpf|]. destruct brk; projs; destruct HT as (HL & Hi & Hg); projs.
    + split; [exact HL | split; [exact Hg | fold N in Hp; lia]].
    + split; [exact HL | split; [exact Hi | exact Hg]].
  - (* PExcX *) destruct HT.
  - (* PRelX *) destruct HT.
  - (* PYield *)
    stepinv Hstep. same HS. destruct HT as (HL & Hi & Hg). projs.
    destruct (si_nth_cache s i HS Hi) as (v & Hv1 & Hv2).
    apply (do_yield_ok s _ PIncr v); projs; auto.
    intros th' E1 E2 E3 E4 P1 P2 P3 P4. split; [exact P4|]. rewrite E1. rewrite E3, E4.
    split; [exact P1 | split; [exact P2 | split; [exact P3 | split; [lia | exact Hg]]]].
  - (* PIncr *)
    stepinv Hstep. same HS. split; [exact Hpf|]. projs.
    destruct HT as (HP & Hl & W & Hi & Hg). projs.
    split; [split; [exact HP | split; [exact Hl | exact W]] | split; [exact Hi | exact Hg]].
  - (* PTWhile *)
    destruct HT as (HL & Hg & Hi). projs.
    destruct (si_done_cache s HS Hg) as [Ec El]. rewrite El in Hstep. stepinv Hstep. same HS.
    destruct (i <? N)%nat eqn:E.
    + apply Nat.ltb_lt in E. split; [exact Hpf|]. projs. split; [exact HL | split; [exact Hg | exact E]].
    + apply Nat.ltb_ge in E. apply finish_ok; projs; auto.
      apply (pre_done_out _ (proj1 HL)). right. destruct HL as (_ & Hl & _). projs. lia.
  - (* PTYield *)
    stepinv Hstep. same HS. destruct HT as (HL & Hg & Hi). projs.
    destruct (si_done_cache s HS Hg) as [Ec El].
    destruct (nth_error_lt_some seq i Hi) as [v Hv].
    apply (do_yield_ok s _ PTIncr v); projs; auto.
    { rewrite Ec. exact Hv. }
    intros th' E1 E2 E3 E4 P1 P2 P3 P4. split; [exact P4|]. rewrite E1. rewrite E3.
    split; [exact P1 | split; [exact P2 | split; [exact P3 | split; [exact Hg | lia]]]].
  - (* PTIncr *)
    stepinv Hstep. same HS. split; [exact Hpf|]. projs.
    destruct HT as (HP & Hl & W & Hg & Hi). projs.
    split; [split; [exact HP | split; [exact Hl | exact W]] | split; [exact Hg | exact Hi]].
  - (* PRetLen *)
    stepinv Hstep. same HS. split; [exact Hpf|]. projs. destruct HT as [Ho Hg]. projs. subst o.
    destruct (si_done_cache s HS Hg) as [Ec El]. rewrite El.
    eexists. split; [reflexivity|]. left. reflexivity.
  - (* PDone *) discriminate.
Qed.

(* ---- the lock: who may change it, and how it relates to the program counter *)

Lemma step_thread_lock : forall s t th s' th',
  step_thread seq true false s t th = Some (s', th') ->
  (lock s' = lock s /\ in_crit (t_pc th') = in_crit (t_pc th)) \/
  (t_pc th = PAcquire /\ lock s = None /\ lock s' = Some t /\ in_crit (t_pc th') = true) \/
  (in_crit (t_pc th) = true /\ lock s' = None /\ in_crit (t_pc th') = false).
Proof.
  intros s t th s' th' Hstep. unfold step_thread in Hstep.
  destruct th as [o p i g out res]. projs.
  assert (Hfin : forall x, in_crit (t_pc (finish x)) = false).
  { intros x. unfold finish. destruct (t_op x); reflexivity. }
  assert (Hy : forall x nxt, in_crit nxt = false -> in_crit (t_pc (do_yield s x nxt)) = false).
  { intros x nxt Hn. unfold do_yield. destruct (nth_error (cache s) (t_i x)) as [z|]; [|reflexivity].
    destruct (wants (t_op x) (t_out x ++ [z])); [exact Hn | apply Hfin]. }
  destruct p; projs;
    try (stepinv Hstep; left; split; [reflexivity|]; projs;
         repeat match goal with
                | |- context [if ?b then _ else _] => destruct b
                | |- context [match ?b with Some _ => _ | None => _ end] => destruct b
                end; projs;
         first [reflexivity | apply Hfin | apply Hy; reflexivity
               | unfold fastq, fast; projs; destruct o; projs; first [reflexivity | apply Hfin]]).
  - (* PAcquire *)
    destruct (lock s) eqn:L; [discriminate|]. stepinv Hstep. right. left. projs. auto.
  - (* PAdvance *)
    destruct (gdone s); [stepinv Hstep; left; split; reflexivity|].
    destruct (nth_error seq (gpos s)); stepinv Hstep; left; split; reflexivity.
  - (* PRelease *)
    stepinv Hstep. right. right. projs. destruct brk; auto.
  - (* PRelX *)
    stepinv Hstep. right. right. projs. auto.
  - (* PTWhile *)
    destruct (lenp s); stepinv Hstep; left; (split; [reflexivity|]); projs; [|reflexivity].
    destruct (i <? n)%nat; [reflexivity | apply Hfin].
  - discriminate.
Qed.

Lemma nth_error_upd_same : forall (A : Type) (l : list A) t x y,
  nth_error l t = Some y -> nth_error (upd l t x) t = Some x.
Proof.
  induction l as [|a l IH]; intros [|t] x y H; try discriminate; cbn [upd nth_error] in *; eauto.
Qed.

Lemma nth_error_upd_other : forall (A : Type) (l : list A) t t' x,
  t <> t' -> nth_error (upd l t x) t' = nth_error l t'.
Proof.
  induction l as [|a l IH]; intros [|t] [|t'] x H; cbn [upd nth_error]; try reflexivity; try congruence.
  apply IH. congruence.
Qed.

Lemma length_upd : forall (A : Type) (l : list A) t x, length (upd l t x) = length l.
Proof. induction l as [|a l IH]; intros [|t] x; cbn [upd length]; auto. Qed.

Theorem step_inv : forall st t st', Inv st -> step seq true false st t = Some st' -> Inv st'.
Proof.
  intros st t st' (HS & (HL1 & HL2) & HT) Hstep. unfold step in Hstep.
  destruct (nth_error (thr st) t) as [th|] eqn:Et; [|discriminate].
  destruct (step_thread seq true false (sh st) t th) as [[s' th']|] eqn:Es; [|discriminate].
  injection Hstep as <-. cbn [sh thr].
  destruct (step_thread_ok _ _ _ _ _ HS (HT _ _ Et) Es) as (HS' & Hle & HT').
  pose proof (step_thread_lock _ _ _ _ _ Es) as HK.
  split; [exact HS'|]. split.
  - (* lock_inv *)
    unfold lock_inv. cbn [sh thr]. split.
    + intros u thu Hu Hcu. destruct (Nat.eq_dec t u) as [Eq|Ne]; [subst u|].
      * rewrite (nth_error_upd_same _ _ _ _ _ Et) in Hu. injection Hu as <-.
        destruct HK as [[E1 E2]|[(E1 & E2 & E3 & E4)|(E1 & E2 & E3)]].
        -- rewrite E1. apply (HL1 _ _ Et). rewrite <- E2. exact Hcu.
        -- exact E3.
        -- congruence.
      * rewrite nth_error_upd_other in Hu by exact Ne.
        pose proof (HL1 _ _ Hu Hcu) as Lu.
        destruct HK as [[E1 E2]|[(E1 & E2 & E3 & E4)|(E1 & E2 & E3)]].
        -- rewrite E1. exact Lu.
        -- congruence.
        -- pose proof (HL1 _ _ Et E1). congruence.
    + intros u Lu. destruct HK as [[E1 E2]|[(E1 & E2 & E3 & E4)|(E1 & E2 & E3)]].
      * rewrite E1 in Lu. destruct (HL2 _ Lu) as (thu & Hu & Hcu).
        destruct (Nat.eq_dec t u) as [Eq|Ne]; [subst u|].
        -- exists th'. split; [apply (nth_error_upd_same _ _ _ _ _ Et)|].
           rewrite Et in Hu. injection Hu as <-. congruence.
        -- exists thu. split; [rewrite nth_error_upd_other by exact Ne; exact Hu | exact Hcu].
      * rewrite E3 in Lu. injection Lu as <-. exists th'.
        split; [apply (nth_error_upd_same _ _ _ _ _ Et) | exact E4].
      * congruence.
  - cbn [sh thr]. intros u thu Hu. destruct (Nat.eq_dec t u) as [Eq|Ne]; [subst u|].
    + rewrite (nth_error_upd_same _ _ _ _ _ Et) in Hu. injection Hu as <-. exact HT'.
    + rewrite nth_error_upd_other in Hu by exact Ne.
      apply (thread_inv_mono _ _ _ Hle). apply (HT _ _ Hu).
Qed.

Lemma inv_init : forall ops, Inv (init ops).
Proof.
  intros ops. unfold Inv, lock_inv, init. cbn [sh thr]. split; [|split].
  - unfold shared_inv, init_shared. projs. repeat split; try discriminate; try lia.
  - split.
    + intros t th H Hc. rewrite nth_error_map in H. destruct (nth_error ops t); [|discriminate].
      injection H as <-. unfold init_thread in Hc. projs. destruct o; discriminate.
    + intros t H. discriminate.
  - intros t th H. rewrite nth_error_map in H. destruct (nth_error ops t) as [o|]; [|discriminate].
    injection H as <-. unfold init_thread. split; [reflexivity|]. projs.
    destruct o; cbn [start_pc]; repeat split.
Qed.

(* the invariant holds in every state reachable under ANY schedule *)
Theorem inv_exec : forall sched st, Inv st -> Inv (exec seq true false sched st).
Proof.
  induction sched as [|t r IH]; intros st H; cbn [exec]; [exact H|].
  apply IH. destruct (step seq true false st t) eqn:E; [eapply step_inv; eauto | exact H].
Qed.

Theorem inv_reachable : forall ops sched, Inv (exec seq true false sched (init ops)).
Proof. intros. apply inv_exec, inv_init. Qed.

(* ------------------------------------------------------------------------------------------ *)
(* consequences *)

Definition reach (ops : list op) (sched : list nat) : state := exec seq true false sched (init ops).

(* every thread has received a prefix of what the uncached rule yields; no operation ever raised
   or returned anything but the uncached answer *)
Theorem observes_uncached : forall ops sched t th,
  nth_error (thr (reach ops sched)) t = Some th ->
  is_prefix (t_out th) seq /\
  (forall r, t_res th = Some r -> t_pc th = PDone -> done_ok (t_op th) r) /\
  (t_pc th = PDone -> exists r, t_res th = Some r /\ done_ok (t_op th) r).
Proof.
  intros ops sched t th H. destruct (inv_reachable ops sched) as (_ & _ & HT).
  destruct (HT _ _ H) as [Hp Hpc]. split; [exact Hp|]. split.
  - intros r Hr E. rewrite E in Hpc. destruct Hpc as (r' & Hr' & Hok). congruence.
  - intros E. rewrite E in Hpc. exact Hpc.
Qed.

(* the cache is always a prefix of seq, complete means all of it, and the lock is held exactly by a
   thread inside the critical section *)
Theorem cache_inv : forall ops sched,
  let s := reach ops sched in
  cache (sh s) = firstn (length (cache (sh s))) seq /\
  (complete (sh s) = true -> cache (sh s) = seq /\ lenp (sh s) = Some (length seq)) /\
  (forall t th, nth_error (thr s) t = Some th -> (in_crit (t_pc th) = true <-> lock (sh s) = Some t)).
Proof.
  intros ops sched s. destruct (inv_reachable ops sched) as (HS & (HL1 & HL2) & HT). fold (reach ops sched) in *. fold s in HS, HL1, HL2, HT.
  split; [|split].
  - rewrite (si_len_cache _ HS). destruct HS as (Hc & _). exact Hc.
  - intros C. apply (si_done_cache _ HS). apply (si_complete_gd _ HS C).
  - intros t th H. split.
    + apply (HL1 _ _ H).
    + intros L. destruct (HL2 _ L) as (th2 & H2 & Hc). congruence.
Qed.

Lemma all_done_false : forall st, all_done st = false ->
  exists t th, nth_error (thr st) t = Some th /\ t_pc th <> PDone.
Proof.
  intros st H. unfold all_done in H.
  assert (G : forall l, forallb (fun th => match t_pc th with PDone => true | _ => false end) l = false ->
               exists t th, nth_error l t = Some th /\ t_pc th <> PDone).
  { induction l as [|a l IH]; intros Hf; [discriminate|]. cbn [forallb] in Hf.
    destruct (t_pc a) eqn:E; cbn [andb] in Hf;
      try (exists O, a; split; [reflexivity | congruence]).
    destruct (IH Hf) as (t & th & H1 & H2). exists (S t), th. split; assumption. }
  apply G. exact H.
Qed.

Lemma step_thread_enabled : forall s t th,
  t_pc th <> PDone -> (t_pc th = PAcquire -> lock s = None) ->
  step_thread seq true false s t th <> None.
Proof.
  intros s t th Hd Ha. unfold step_thread. destruct (t_pc th) eqn:E; try discriminate.
  - rewrite (Ha eq_refl). discriminate.
  - destruct (gdone s); [discriminate|]. destruct (nth_error seq (gpos s)); discriminate.
  - destruct (lenp s); discriminate.
  - congruence.
Qed.

(* no deadlock: in every reachable state in which some operation has not finished, some thread
   can take a step (a thread waiting in acquire() waits for a lock holder that can move) *)
Theorem no_deadlock : forall ops sched,
  all_done (reach ops sched) = false -> exists t, step seq true false (reach ops sched) t <> None.
Proof.
  intros ops sched Hnd. destruct (inv_reachable ops sched) as (HS & (HL1 & HL2) & HT).
  fold (reach ops sched) in *. set (st := reach ops sched) in *.
  destruct (all_done_false _ Hnd) as (t & th & Ht & Hpc).
  destruct (lock (sh st)) as [u|] eqn:L.
  - destruct (HL2 _ eq_refl) as (thu & Hu & Hcu). exists u. unfold step. rewrite Hu.
    pose proof (step_thread_enabled (sh st) u thu) as K.
    destruct (step_thread seq true false (sh st) u thu) as [[? ?]|]; [discriminate|].
    exfalso. apply K; [| |reflexivity]; intros E; rewrite E in Hcu; discriminate.
  - exists t. unfold step. rewrite Ht.
    pose proof (step_thread_enabled (sh st) t th Hpc (fun _ => L)) as K.
    destruct (step_thread seq true false (sh st) t th) as [[? ?]|]; [discriminate|]. congruence.
Qed.

(* bounded lock hold: inside the critical section a thread is never blocked, and each of its steps
   strictly decreases a rank that is at most 31 -- so the lock is released within 31 of the
   holder's own steps, whatever the other threads do (they cannot change its pc) *)
Definition crit_rank (p : pc) : nat :=
  match p with
  | PTryO => 31 | PTestC => 30 | PTryI => 29
  | PFor j => if (j <? batch)%nat then 2 * (batch - j) + 8 else 2
  | PAdvance j => 2 * (batch - j) + 7
  | PGenPub _ => 6 | PExcept => 5 | PSetGen => 4 | PSetC => 3
  | PBreakC | PBreakE | PExcX => 2
  | PRelease _ | PRelX => 1
  | _ => 0
  end.

Theorem crit_progress : forall s t th,
  in_crit (t_pc th) = true ->
  (crit_rank (t_pc th) <= 31)%nat /\
  exists s' th', step_thread seq true false s t th = Some (s', th') /\
                 (in_crit (t_pc th') = true -> (crit_rank (t_pc th') < crit_rank (t_pc th))%nat) /\
                 (crit_rank (t_pc th) = 1%nat -> lock s' = None /\ in_crit (t_pc th') = false).
Proof.
  intros s t th Hc. unfold step_thread. destruct th as [o p i g out res]. projs. unfold batch.
  destruct p; try discriminate; cbn [crit_rank]; unfold batch.
  - split; [lia|]. eexists _, _. split; [reflexivity|]. projs; cbn [crit_rank]; unfold batch. split; [lia|discriminate].
  - split; [lia|]. eexists _, _. split; [reflexivity|]. projs.
    destruct (complete s); cbn [crit_rank]; unfold batch; cbn [Nat.ltb Nat.leb]; split; try lia; discriminate.
  - split; [lia|]. eexists _, _. split; [reflexivity|]. projs; cbn [crit_rank]; unfold batch. split; [lia|discriminate].
  - split; [lia|]. eexists _, _. split; [reflexivity|]. projs; cbn [crit_rank]; unfold batch. unfold batch.
    cbn [Nat.ltb Nat.leb]. split; [lia|discriminate].
  - unfold batch. destruct (j <? 10)%nat eqn:E.
    + apply Nat.ltb_lt in E. split; [lia|]. eexists _, _. split; [reflexivity|]. projs.
      cbn [crit_rank]; unfold batch. split; [lia|]. lia.
    + split; [lia|]. eexists _, _. split; [reflexivity|]. projs; cbn [crit_rank]; unfold batch. split; [lia|discriminate].
  - split; [lia|]. destruct (gdone s).
    + eexists _, _. split; [reflexivity|]. projs; cbn [crit_rank]; unfold batch. split; lia.
    + destruct (nth_error seq (gpos s)); eexists _, _; (split; [reflexivity|]); projs; cbn [crit_rank]; unfold batch.
      * unfold batch. destruct (S j <? 10)%nat eqn:E; [apply Nat.ltb_lt in E|]; split; lia.
      * split; lia.
  - split; [lia|]. eexists _, _. split; [reflexivity|]. projs; cbn [crit_rank]; unfold batch. split; [lia|discriminate].
  - split; [lia|]. eexists _, _. split; [reflexivity|]. projs; cbn [crit_rank]; unfold batch. split; [lia|discriminate].
  - split; [lia|]. eexists _, _. split; [reflexivity|]. projs; cbn [crit_rank]; unfold batch. split; [lia|discriminate].
  - split; [lia|]. eexists _, _. split; [reflexivity|]. projs; cbn [crit_rank]; unfold batch. split; [lia|discriminate].
  - split; [lia|]. eexists _, _. split; [reflexivity|]. projs; cbn [crit_rank]; unfold batch. split; [lia|discriminate].
  - split; [lia|]. eexists _, _. split; [reflexivity|]. projs.
    split; [destruct brk; discriminate|]. intros _. split; [reflexivity | destruct brk; reflexivity].
  - split; [lia|]. eexists _, _. split; [reflexivity|]. projs; cbn [crit_rank]; unfold batch. split; [lia|discriminate].
  - split; [lia|]. eexists _, _. split; [reflexivity|]. projs. split; [discriminate|]. intros _. split; reflexivity.
Qed.

End Inv.

(* ------------------------------------------------------------------------------------------ *)
(* The model can express the defect repaired by bb46216: with fixed = false (both `break`s leave the
   critical section without release()) two iterators over a 10-element rule deadlock. *)
Definition dl_seq : list Z := [1;2;3;4;5;6;7;8;9;10].
Definition dl_sched : list nat := repeat 1%nat 3 ++ repeat 0%nat 300 ++ repeat 1%nat 300.

Lemma prefix_code_deadlocks :
  let s := exec dl_seq false false dl_sched (init [OList; OList]) in
  all_done s = false /\ stuck dl_seq false false s = true.
Proof. vm_compute. split; reflexivity. Qed.

(* Finding F-C11-raise: when the underlying generator raises (raises = true), the cached rule shows the
   ValueError only to the first iterator; the second gets TypeError (tail loop reads _len = None after the
   dead generator's StopIteration marked the cache complete), later ones see a "complete" cache -- while an
   uncached rule raises ValueError every time. *)
Definition rz_sched : list nat := repeat 0%nat 80 ++ repeat 1%nat 80 ++ repeat 2%nat 80.

Lemma raising_generator_differs :
  map t_res (thr (exec [] true true rz_sched (init [OList; OList; OList]))) =
    [Some (Raise EValueError); Some (Raise ETypeError); Some (Ret [])] /\
  map t_res (thr (exec [1;2;3] true true rz_sched (init [OList; OList; OList]))) =
    [Some (Raise EValueError); Some (Raise ETypeError); Some (Ret [1;2;3])] /\
  spec_result_raising OList [] = Raise EValueError /\ spec_result_raising OList [1;2;3] = Raise EValueError.
Proof. vm_compute. repeat split; reflexivity. Qed.

Lemma fixed_code_same_schedule_completes :
  let s := exec dl_seq true false dl_sched (init [OList; OList]) in
  all_done s = true /\
  map t_res (thr s) = [Some (Ret dl_seq); Some (Ret dl_seq)].
Proof. vm_compute. split; reflexivity. Qed.

(* ------------------------------------------------------------------------------------------ *)
(* `x in rule` answered by __contains__'s own fast path (`item in self._cache`) agrees with the
   uncached early-exit scan when the sequence is strictly increasing (always, for recurrences) *)
From V Require Import rcache.PyList rcache.RQueryModel rcache.RQuerySpec rcache.RQueryThm.

Lemma contains_consume : forall x rest seen,
  wants (OContains x) seen = true ->
  result (OContains x) (consume_from (OContains x) seen rest) =
  Ret [if contains_loop x rest then 1 else 0].
Proof.
  intros x. induction rest as [|y r IH]; intros seen W.
  - rewrite consume_from_nil. cbn [result contains_loop]. cbn [wants] in W.
    destruct (last_opt seen) as [z|]; [|reflexivity].
    destruct (z =? x) eqn:E; [|reflexivity]. apply Z.eqb_eq in E. apply Z.ltb_lt in W. lia.
  - rewrite consume_from_step by exact W. cbn [contains_loop].
    destruct (y =? x) eqn:E1.
    + rewrite consume_from_stop.
      * cbn [result]. rewrite last_opt_snoc, E1. reflexivity.
      * cbn [wants]. rewrite last_opt_snoc. apply Z.eqb_eq in E1. apply Z.ltb_ge. lia.
    + destruct (x <? y) eqn:E2.
      * rewrite consume_from_stop.
        -- cbn [result]. rewrite last_opt_snoc, E1. reflexivity.
        -- cbn [wants]. rewrite last_opt_snoc. apply Z.ltb_lt in E2. apply Z.ltb_ge. lia.
      * apply IH. cbn [wants]. rewrite last_opt_snoc. apply Z.ltb_lt.
        apply Z.eqb_neq in E1. apply Z.ltb_ge in E2. lia.
Qed.

Lemma contains_fast_ok : forall seq x, incr seq ->
  Ret [if existsb (Z.eqb x) seq then 1 else 0] = spec_result (OContains x) seq.
Proof.
  intros seq x H. cbn [spec_result]. unfold consume. rewrite contains_consume by reflexivity.
  rewrite (contains_loop_correct _ _ H). reflexivity.
Qed.

(* For a strictly increasing sequence every finished operation returned exactly the uncached answer. *)
Theorem results_match_uncached : forall seq ops sched t th,
  incr seq ->
  nth_error (thr (reach seq ops sched)) t = Some th -> t_pc th = PDone ->
  t_res th = Some (spec_result (t_op th) seq).
Proof.
  intros seq ops sched t th Hi H Hd.
  destruct (observes_uncached seq ops sched t th H) as (_ & _ & K).
  destruct (K Hd) as (r & Hr & [E|(x & Eo & Er)]).
  - rewrite Hr, E. reflexivity.
  - rewrite Hr, Er, Eo. rewrite (contains_fast_ok _ _ Hi). reflexivity.
Qed.

(* Iterators (list(rule), for x in rule) need no hypothesis on seq at all. *)
Theorem iterator_yields_seq : forall seq ops sched t th,
  nth_error (thr (reach seq ops sched)) t = Some th ->
  is_prefix (t_out th) seq /\
  (t_op th = OList -> t_pc th = PDone -> t_res th = Some (Ret seq)).
Proof.
  intros seq ops sched t th H.
  destruct (observes_uncached seq ops sched t th H) as (Hp & _ & K). split; [exact Hp|].
  intros Eo Hd. destruct (K Hd) as (r & Hr & [E|(x & Eo' & _)]).
  - rewrite Hr, E, Eo. reflexivity.
  - congruence.
Qed.

(* non-vacuity: the hypotheses are satisfiable and the statements are about real runs *)
Example reach_example :
  let s := reach [10;20;30] [OList; OGet 1; OCount; OContains 20; OBetween 10 30 false]
                 (flat_map (fun _ => [0;1;2;3;4]%nat) (seq 0 80)) in
  all_done s = true /\
  map t_res (thr s) = [Some (Ret [10;20;30]); Some (Ret [20]); Some (Ret [3]); Some (Ret [1]); Some (Ret [20])].
Proof. vm_compute. split; reflexivity. Qed.

(* ------------------------------------------------------------------------------------------ *)
(* Termination: every successful step strictly decreases a measure, so every run is finite, and
   (with no_deadlock) from every reachable state completion of ALL operations is reached by ANY way of
   continuing with enabled steps, within a bound that depends only on |seq| and the number of threads. *)
Section Term.
Variable seq : list Z.
Let N := length seq.

Definition K : nat := 64.

Definition rank (p : pc) : nat :=
  match p with
  | PQTest | PLenTest => 70 | PIterTest => 69
  | PInit => 65 | PGetGen => 64 | PGetCache => 63 | PGetAcq => 62 | PGetRel => 61
  | PWhile => 60 | PIfLen => 59 | PAcquire => 58 | PTryO => 57 | PTestC => 56 | PTryI => 55
  | PFor j => 34 + 2 * (batch - j) | PAdvance j => 33 + 2 * (batch - j)
  | PGenPub _ => 31 | PExcept => 30 | PSetGen => 29 | PSetC => 28 | PBreakE => 27 | PBreakC => 26
  | PExcX => 22 | PRelX => 21
  | PRelease _ => 20 | PYield => 19 | PIncr => 18
  | PTWhile => 10 | PTYield => 9 | PTIncr => 8
  | PRetLen => 1 | PDone => 0
  end.

Definition tm (th : thread) : nat :=
  match t_pc th with
  | PDone => 0
  | PRetLen => 1
  | p => (N + 1 - t_i th) * K + rank p + 2
  end.

Lemma tm_finish : forall x, (tm (finish x) <= 1)%nat.
Proof. intros x. unfold finish, tm. destruct (t_op x); cbn [t_pc set_pc]; lia. Qed.

Ltac tmsolve := unfold tm; cbn [t_pc t_i set_pc rank]; unfold K, batch; lia.
Ltac tmfin := eapply Nat.le_lt_trans; [apply tm_finish | tmsolve].

Lemma pc_eq_retlen : forall p, p = PRetLen \/ p <> PRetLen.
Proof. destruct p; (left; reflexivity) || (right; discriminate). Qed.

Lemma tm_live : forall th, t_pc th <> PDone -> t_pc th <> PRetLen ->
  tm th = ((N + 1 - t_i th) * K + rank (t_pc th) + 2)%nat.
Proof. intros th H1 H2. unfold tm. destruct (t_pc th) eqn:E; congruence. Qed.

Lemma tm_do_yield : forall s th nxt,
  t_pc th <> PDone -> t_pc th <> PRetLen -> (rank nxt < rank (t_pc th))%nat -> nxt <> PDone -> nxt <> PRetLen ->
  (tm (do_yield s th nxt) < tm th)%nat.
Proof.
  intros s th nxt H1 H2 H3 H4 H5. unfold do_yield. rewrite (tm_live th H1 H2).
  destruct (nth_error (cache s) (t_i th)) as [v|].
  - destruct (wants (t_op th) (t_out th ++ [v])).
    + rewrite tm_live by (cbn [t_pc]; assumption). cbn [t_pc t_i]. unfold K. lia.
    + eapply Nat.le_lt_trans; [apply tm_finish | unfold K; lia].
  - unfold tm at 1. cbn [t_pc]. unfold K. lia.
Qed.

Ltac projs := cbn [t_pc t_op t_i t_gen t_out t_res set_pc cache complete sgen gpos gdone lock lenp] in *.
Ltac stepinv H := let E1 := fresh in let E2 := fresh in injection H as E1 E2; symmetry in E1; symmetry in E2; subst.

Lemma step_thread_measure : forall s t th s' th',
  shared_inv seq s -> thread_inv seq s th ->
  step_thread seq true false s t th = Some (s', th') -> (tm th' < tm th)%nat.
Proof.
  intros s t th s' th' HS [Hpf HT] Hstep.
  pose proof (si_len_cache seq s HS) as Hlen. pose proof (si_gpos_le seq s HS) as Hp. fold N in Hp.
  unfold step_thread in Hstep. destruct th as [o p i g out res]. projs.
  destruct p; projs.
  - stepinv Hstep. destruct (complete s); [|tmsolve].
    unfold fastq. projs. destruct o; try (unfold fast; tmfin). tmsolve.
  - stepinv Hstep. destruct (lenp s); tmsolve.
  - stepinv Hstep. destruct (complete s); [unfold fast; tmfin|]. destruct (wants o []); [tmsolve | tmfin].
  - stepinv Hstep. destruct HT as [[_ Hi] _]. projs. subst i. tmsolve.
  - stepinv Hstep. tmsolve.
  - stepinv Hstep. tmsolve.
  - stepinv Hstep. tmsolve.
  - stepinv Hstep. tmsolve.
  - stepinv Hstep. destruct g; tmsolve.
  - stepinv Hstep. destruct (i =? length (cache s))%nat; tmsolve.
  - destruct (lock s); [discriminate|]. stepinv Hstep. tmsolve.
  - stepinv Hstep. tmsolve.
  - stepinv Hstep. destruct (complete s); tmsolve.
  - stepinv Hstep. tmsolve.
  - stepinv Hstep. tmsolve.
  - stepinv Hstep. destruct (j <? batch)%nat eqn:E; [apply Nat.ltb_lt in E; unfold batch in E|]; tmsolve.
  - destruct HT as (_ & _ & Hj & _). unfold batch in Hj.
    destruct (gdone s); [stepinv Hstep; tmsolve|].
    destruct (nth_error seq (gpos s)); stepinv Hstep; tmsolve.
  - stepinv Hstep. tmsolve.
  - stepinv Hstep. tmsolve.
  - stepinv Hstep. tmsolve.
  - stepinv Hstep. tmsolve.
  - stepinv Hstep. tmsolve.
  - stepinv Hstep. destruct brk; tmsolve.
  - destruct HT.
  - destruct HT.
  - stepinv Hstep. apply tm_do_yield; projs; cbn [rank]; try congruence; lia.
  - stepinv Hstep. destruct HT as (_ & _ & _ & Hi & _). projs. tmsolve.
  - destruct HT as (_ & Hg & _). destruct (si_done_cache seq s HS Hg) as [_ El]. rewrite El in Hstep.
    stepinv Hstep. destruct (i <? length seq)%nat; [tmsolve | tmfin].
  - stepinv Hstep. apply tm_do_yield; projs; cbn [rank]; try congruence; lia.
  - stepinv Hstep. destruct HT as (_ & _ & _ & _ & Hi). projs. fold N in Hi. tmsolve.
  - stepinv Hstep. tmsolve.
  - discriminate.
Qed.

(* per item: while the cursor i stays the same, every own step strictly decreases rank (<= 70); i moves
   only in `i += 1` right after a yield -- so an iterator delivers its next value (or finishes) within 71
   of its own steps, for any |seq| and whatever the other threads do in between *)
Lemma rank_le_70 : forall p, (rank p <= 70)%nat.
Proof. destruct p; cbn [rank]; unfold batch; lia. Qed.

Theorem steps_per_item_bounded : forall s t th s' th',
  shared_inv seq s -> thread_inv seq s th ->
  step_thread seq true false s t th = Some (s', th') ->
  t_i th' = t_i th -> t_pc th' <> PDone -> t_pc th' <> PRetLen ->
  (rank (t_pc th') < rank (t_pc th) <= 70)%nat.
Proof.
  intros s t th s' th' HS HT Hstep Hi H1 H2.
  pose proof (step_thread_measure s t th s' th' HS HT Hstep) as Hm.
  split; [|apply rank_le_70].
  assert (Hp : t_pc th <> PDone) by (intro E; unfold step_thread in Hstep; rewrite E in Hstep; discriminate).
  destruct (pc_eq_retlen (t_pc th)) as [E|E].
  - exfalso. unfold step_thread in Hstep. rewrite E in Hstep. injection Hstep as _ <-. apply H1. reflexivity.
  - rewrite (tm_live th' H1 H2), (tm_live th Hp E), Hi in Hm. lia.
Qed.

Definition total (st : state) : nat := fold_right (fun th a => (tm th + a)%nat) O (thr st).

Lemma total_upd : forall l t x y, nth_error l t = Some x -> (tm y < tm x)%nat ->
  (fold_right (fun th a => (tm th + a)%nat) O (upd l t y) < fold_right (fun th a => (tm th + a)%nat) O l)%nat.
Proof.
  induction l as [|a l IH]; intros [|t] x y H Hlt; try discriminate; cbn [upd fold_right nth_error] in *.
  - injection H as ->. lia.
  - specialize (IH _ _ _ H Hlt). lia.
Qed.

Theorem step_decreases : forall st t st',
  Inv seq st -> step seq true false st t = Some st' -> (total st' < total st)%nat.
Proof.
  intros st t st' (HS & _ & HT) Hstep. unfold step in Hstep.
  destruct (nth_error (thr st) t) as [th|] eqn:Et; [|discriminate].
  destruct (step_thread seq true false (sh st) t th) as [[s' th']|] eqn:Es; [|discriminate].
  injection Hstep as <-. unfold total. cbn [thr].
  apply (total_upd _ _ th th' Et). apply (step_thread_measure _ _ _ _ _ HS (HT _ _ Et) Es).
Qed.

(* number of entries of a schedule that actually moved a thread *)
Fixpoint taken (sched : list nat) (st : state) : nat :=
  match sched with
  | [] => O
  | t :: r => match step seq true false st t with
              | Some st' => S (taken r st')
              | None => taken r st
              end
  end.

Theorem taken_bounded : forall sched st, Inv seq st ->
  (taken sched st + total (exec seq true false sched st) <= total st)%nat.
Proof.
  induction sched as [|t r IH]; intros st H; cbn [taken exec]; [lia|].
  destruct (step seq true false st t) as [st'|] eqn:E.
  - pose proof (step_decreases _ _ _ H E). pose proof (IH st' (step_inv seq _ _ _ H E)). lia.
  - apply IH. exact H.
Qed.

Lemma exec_app : forall a b st, exec seq true false (a ++ b) st = exec seq true false b (exec seq true false a st).
Proof. induction a as [|t a IH]; intros b st; cbn [app exec]; [reflexivity | apply IH]. Qed.

(* from every reachable state, every operation completes: some continuation of at most `total` enabled
   steps reaches all_done -- and by taken_bounded NO continuation can take more than `total` steps, so
   any scheduler that keeps picking enabled threads finishes everything *)
Theorem completion_reachable : forall n st, Inv seq st -> (total st <= n)%nat ->
  exists ext, (length ext <= n)%nat /\ all_done (exec seq true false ext st) = true.
Proof.
  induction n as [|n IH]; intros st HI Hn.
  - exists []. split; [cbn; lia|]. cbn [exec].
    destruct (all_done st) eqn:A; [reflexivity|]. exfalso.
    destruct (all_done_false _ A) as (t & th & Ht & Hpc).
    assert (G : (1 <= total st)%nat).
    { unfold total. clear - Ht Hpc. revert t Ht. induction (thr st) as [|a l IHl]; intros [|t] Ht; try discriminate;
        cbn [nth_error fold_right] in *.
      - injection Ht as ->. unfold tm. destruct (t_pc th) eqn:E; try congruence; unfold K; lia.
      - specialize (IHl _ Ht). lia. }
    lia.
  - destruct (all_done st) eqn:A.
    + exists []. split; [cbn; lia | exact A].
    + assert (E : exists t st', step seq true false st t = Some st').
      { (* no_deadlock for an arbitrary state satisfying Inv *)
        destruct HI as (HS & (HL1 & HL2) & HT).
        destruct (all_done_false _ A) as (t & th & Ht & Hpc).
        destruct (lock (sh st)) as [u|] eqn:L.
        - destruct (HL2 _ eq_refl) as (thu & Hu & Hcu). exists u. unfold step. rewrite Hu.
          pose proof (step_thread_enabled seq (sh st) u thu) as Kx.
          destruct (step_thread seq true false (sh st) u thu) as [[s2 th2]|]; [eauto|].
          exfalso. apply Kx; [| |reflexivity]; intros E; rewrite E in Hcu; discriminate.
        - exists t. unfold step. rewrite Ht.
          pose proof (step_thread_enabled seq (sh st) t th Hpc (fun _ => L)) as Kx.
          destruct (step_thread seq true false (sh st) t th) as [[s2 th2]|]; [eauto|]. congruence. }
      destruct E as (t & st' & E).
      pose proof (step_decreases _ _ _ HI E) as D.
      destruct (IH st' (step_inv seq _ _ _ HI E)) as (ext & Hl & Hd); [lia|].
      exists (t :: ext). split; [cbn [length]; lia|]. cbn [exec]. rewrite E. exact Hd.
Qed.

(* the bound for a run from the initial state: 64*(|seq|+1) + 72 per thread *)
Lemma total_init : forall ops, (total (init ops) <= length ops * ((N + 1) * K + 72))%nat.
Proof.
  intros ops. unfold total, init. cbn [thr]. induction ops as [|o ops IH]; cbn [map fold_right length]; [lia|].
  assert (G : (tm (init_thread o) <= (N + 1) * K + 72)%nat).
  { unfold tm, init_thread. cbn [t_pc t_i]. destruct o; cbn [start_pc rank]; lia. }
  lia.
Qed.

Theorem every_operation_completes : forall ops sched,
  let bound := (length ops * ((length seq + 1) * 64 + 72))%nat in
  (taken sched (init ops) <= bound)%nat /\
  exists ext, (length ext <= bound)%nat /\
              all_done (exec seq true false (sched ++ ext) (init ops)) = true.
Proof.
  intros ops sched bound.
  pose proof (total_init ops) as TI. fold N in bound. unfold K in TI. fold bound in TI.
  pose proof (taken_bounded sched (init ops) (inv_init seq ops)) as TB.
  split; [lia|].
  destruct (completion_reachable bound (exec seq true false sched (init ops))) as (ext & Hl & Hd).
  - apply inv_exec, inv_init.
  - lia.
  - exists ext. split; [exact Hl|]. rewrite exec_app. exact Hd.
Qed.

(* ---- the fuelled drivers of single-threaded histories (run_next / run_done of RCacheModel.v) never run
   out of fuel and never report a deadlock: from a quiescent state (lock free) satisfying Inv, with
   fuel above the thread's measure, they return a value / StopIteration / a finished operation, in a
   state that again satisfies Inv and is quiescent -- so they compose along any history. *)

Definition quiet (st : state) : Prop := lock (sh st) = None.

Definition others_out (st : state) (t : nat) : Prop :=
  forall u th, u <> t -> nth_error (thr st) u = Some th -> in_crit (t_pc th) = false.

Lemma quiet_others_out : forall st t, Inv seq st -> quiet st -> others_out st t.
Proof.
  intros st t (_ & (HL1 & _) & _) Q u th _ Hu. destruct (in_crit (t_pc th)) eqn:E; [|reflexivity].
  unfold quiet in Q. rewrite (HL1 _ _ Hu E) in Q. discriminate.
Qed.

Lemma out_quiet : forall st t th, Inv seq st -> others_out st t ->
  nth_error (thr st) t = Some th -> in_crit (t_pc th) = false -> quiet st.
Proof.
  intros st t th (_ & (_ & HL2) & _) HO Ht Hc. unfold quiet.
  destruct (lock (sh st)) as [u|] eqn:L; [|reflexivity]. exfalso.
  destruct (HL2 _ eq_refl) as (thu & Hu & Hcu). destruct (Nat.eq_dec u t) as [->|Ne].
  - congruence.
  - rewrite (HO _ _ Ne Hu) in Hcu. discriminate.
Qed.

Lemma step_others_out : forall st t st', others_out st t -> step seq true false st t = Some st' -> others_out st' t.
Proof.
  intros st t st' HO Hstep u th Ne Hu. unfold step in Hstep.
  destruct (nth_error (thr st) t) as [th0|]; [|discriminate].
  destruct (step_thread seq true false (sh st) t th0) as [[s' th']|]; [|discriminate].
  injection Hstep as <-. cbn [thr] in Hu. rewrite nth_error_upd_other in Hu by congruence.
  apply (HO _ _ Ne Hu).
Qed.

Lemma step_thread_of : forall st t st' th, step seq true false st t = Some st' -> nth_error (thr st) t = Some th ->
  exists s' th', step_thread seq true false (sh st) t th = Some (s', th') /\ sh st' = s' /\
                 nth_error (thr st') t = Some th'.
Proof.
  intros st t st' th Hstep Ht. unfold step in Hstep. rewrite Ht in Hstep.
  destruct (step_thread seq true false (sh st) t th) as [[s' th']|]; [|discriminate].
  injection Hstep as <-. exists s', th'. cbn [sh thr]. split; [reflexivity|]. split; [reflexivity|].
  apply (nth_error_upd_same _ _ _ _ _ Ht).
Qed.

(* a thread running alone is never blocked *)
Lemma solo_enabled : forall st t th, Inv seq st -> others_out st t ->
  nth_error (thr st) t = Some th -> t_pc th <> PDone -> step seq true false st t <> None.
Proof.
  intros st t th HI HO Ht Hpc. pose proof HI as (_ & (HL1 & HL2) & _). unfold step. rewrite Ht.
  pose proof (step_thread_enabled seq (sh st) t th Hpc) as Kx.
  destruct (step_thread seq true false (sh st) t th) as [[s2 th2]|]; [discriminate|]. exfalso. apply Kx; [|reflexivity].
  intros Ea. destruct (lock (sh st)) as [u|] eqn:L; [|reflexivity]. exfalso.
  destruct (HL2 _ eq_refl) as (thu & Hu & Hcu). destruct (Nat.eq_dec u t) as [->|Ne].
  - rewrite Ht in Hu. injection Hu as <-. rewrite Ea in Hcu. discriminate.
  - rewrite (HO _ _ Ne Hu) in Hcu. discriminate.
Qed.

Theorem run_done_total : forall fuel st t th,
  Inv seq st -> others_out st t -> nth_error (thr st) t = Some th -> (tm th < fuel)%nat ->
  exists st' th', run_done seq true false fuel st t = Some (Some st') /\ Inv seq st' /\ quiet st' /\
                  nth_error (thr st') t = Some th' /\ t_pc th' = PDone.
Proof.
  induction fuel as [|f IH]; intros st t th HI HO Ht Hf; [lia|].
  cbn [run_done]. rewrite Ht. destruct (t_pc th) eqn:Epc;
    try (destruct (step seq true false st t) as [st1|] eqn:Es;
         [ destruct (step_thread_of _ _ _ _ Es Ht) as (s1 & th1 & Hs1 & _ & Ht1);
           pose proof HI as (HS0 & _ & HT0);
           pose proof (step_thread_measure _ _ _ _ _ HS0 (HT0 _ _ Ht) Hs1) as Hm;
           apply (IH st1 t th1 (step_inv seq _ _ _ HI Es) (step_others_out _ _ _ HO Es) Ht1); lia
         | exfalso; apply (solo_enabled st t th HI HO Ht); [congruence | exact Es] ]).
  exists st, th. split; [reflexivity|]. split; [exact HI|]. split; [|split; [exact Ht | exact Epc]].
  apply (out_quiet st t th HI HO Ht). rewrite Epc. reflexivity.
Qed.

(* in the critical section a thread receives nothing *)
Lemma crit_step_out : forall s t th s' th',
  step_thread seq true false s t th = Some (s', th') -> in_crit (t_pc th') = true -> t_out th' = t_out th.
Proof.
  intros s t th s' th' Hstep Hc. unfold step_thread in Hstep. destruct th as [o p i g out res]. projs.
  assert (Hfin : forall x, in_crit (t_pc (finish x)) = false).
  { intros x. unfold finish. destruct (t_op x); reflexivity. }
  assert (Hy : forall x nxt, in_crit nxt = false -> in_crit (t_pc (do_yield s x nxt)) = false).
  { intros x nxt Hn. unfold do_yield. destruct (nth_error (cache s) (t_i x)) as [z|]; [|reflexivity].
    destruct (wants (t_op x) (t_out x ++ [z])); [exact Hn | apply Hfin]. }
  destruct p; projs;
    try (stepinv Hstep; projs;
         repeat match goal with
                | H : context [if ?b then _ else _] |- _ => destruct b
                | H : context [match ?b with Some _ => _ | None => _ end] |- _ => destruct b
                | |- context [if ?b then _ else _] => destruct b
                | |- context [match ?b with Some _ => _ | None => _ end] => destruct b
                end; projs; try reflexivity; try discriminate;
         try (rewrite Hfin in Hc; discriminate); try (rewrite Hy in Hc by reflexivity; discriminate);
         try (unfold fastq, fast in Hc; projs; destruct o; projs; try discriminate; rewrite Hfin in Hc; discriminate)).
  - destruct (lock s); [discriminate|]. stepinv Hstep. reflexivity.
  - destruct (gdone s); [stepinv Hstep; reflexivity|].
    destruct (nth_error seq (gpos s)); stepinv Hstep; reflexivity.
  - destruct (lenp s); stepinv Hstep; projs; try discriminate.
    destruct (i <? n)%nat; projs; [discriminate | rewrite Hfin in Hc; discriminate].
  - discriminate.
Qed.

Theorem run_next_total : forall fuel st t th have,
  Inv seq st -> others_out st t -> nth_error (thr st) t = Some th -> (tm th < fuel)%nat ->
  (in_crit (t_pc th) = true -> (length (t_out th) <= have)%nat) ->
  exists st', Inv seq st' /\ quiet st' /\
              ((exists v, run_next seq true false fuel st t have = NValue v st') \/
               run_next seq true false fuel st t have = NStop st' \/
               (exists e, run_next seq true false fuel st t have = NRaise e st')).
Proof.
  induction fuel as [|f IH]; intros st t th have HI HO Ht Hf Hc; [lia|].
  cbn [run_next]. rewrite Ht. destruct (have <? length (t_out th))%nat eqn:Eh.
  - apply Nat.ltb_lt in Eh. destruct (nth_error_lt_some (t_out th) have Eh) as [v Hv]. rewrite Hv.
    exists st. split; [exact HI|]. split; [|left; exists v; reflexivity].
    apply (out_quiet st t th HI HO Ht). destruct (in_crit (t_pc th)) eqn:E; [|reflexivity].
    specialize (Hc eq_refl). lia.
  - apply Nat.ltb_ge in Eh. destruct (t_pc th) eqn:Epc;
      try (destruct (step seq true false st t) as [st1|] eqn:Es;
           [ destruct (step_thread_of _ _ _ _ Es Ht) as (s1 & th1 & Hs1 & _ & Ht1);
             pose proof HI as (HS0 & _ & HT0);
             pose proof (step_thread_measure _ _ _ _ _ HS0 (HT0 _ _ Ht) Hs1) as Hm;
             apply (IH st1 t th1 have (step_inv seq _ _ _ HI Es) (step_others_out _ _ _ HO Es) Ht1); [lia|];
             intros Hc1; rewrite (crit_step_out _ _ _ _ _ Hs1 Hc1); exact Eh
           | exfalso; apply (solo_enabled st t th HI HO Ht); [congruence | exact Es] ]).
    exists st. split; [exact HI|]. split; [apply (out_quiet st t th HI HO Ht); rewrite Epc; reflexivity|].
    destruct (t_res th) as [[l|e]|]; [right; left; reflexivity | right; right; eexists; reflexivity | right; left; reflexivity].
Qed.

Lemma tm_bound : forall th, (tm th <= 64 * (length seq + 1) + 72)%nat.
Proof.
  intros th. unfold tm. fold N. destruct (t_pc th); cbn [rank]; unfold K, batch; lia.
Qed.

(* what ExtractRcache.hist_run relies on: with fuel 64*(|seq|+1)+80, from a quiescent state, a next()
   returns a value / StopIteration / the operation's exception, a query runs to completion, and the
   state is quiescent again (never NFuel, never NDeadlock) *)
Theorem history_drivers_total : forall st t th have,
  Inv seq st -> quiet st -> nth_error (thr st) t = Some th ->
  let fuel := (64 * (length seq + 1) + 80)%nat in
  (exists st', Inv seq st' /\ quiet st' /\
               ((exists v, run_next seq true false fuel st t have = NValue v st') \/
                run_next seq true false fuel st t have = NStop st' \/
                (exists e, run_next seq true false fuel st t have = NRaise e st'))) /\
  (exists st' th', run_done seq true false fuel st t = Some (Some st') /\ Inv seq st' /\ quiet st' /\
                   nth_error (thr st') t = Some th' /\ t_pc th' = PDone).
Proof.
  intros st t th have HI Q Ht fuel. pose proof (tm_bound th) as B.
  pose proof (quiet_others_out st t HI Q) as HO. split.
  - apply (run_next_total fuel st t th have HI HO Ht); [unfold fuel; lia|].
    intros Hc. exfalso. destruct HI as (_ & (HL1 & _) & _). unfold quiet in Q. rewrite (HL1 _ _ Ht Hc) in Q. discriminate.
  - apply (run_done_total fuel st t th HI HO Ht). unfold fuel. lia.
Qed.

End Term.

(* ------------------------------------------------------------------------------------------ *)
(* _invalidate_cache (rrule.py 113-122; every rruleset mutator calls it): new empty cache list, flag
   cleared, a fresh generator, the lock released if held, _len = None.  Mutators are NOT operations of the
   transition system; this section states where the boundary is.
     invalidate_without_live_iterators : if no operation is in flight (every thread is still at its entry
        point), the invalidated state satisfies the invariant for the NEW sequence seq': the theorems of
        this file apply again from there.
     invalidate_live_iterator_refuted : with an iterator in its tail loop the next step raises TypeError
        (`i < self._len` with _len = None) -- one of the two faces of the open finding F-C10-stale (the other
        one, the stale iterator declaring the NEW cache complete, needs the identity of the old list and is
        modelled in coq/rset/RSetHist.v). *)

Definition invalidate (st : state) : state := St (Sh [] false true 0 false None None) (thr st).

Definition at_entry (th : thread) : bool :=
  match t_pc th with PQTest | PLenTest | PIterTest => true | _ => false end.

Theorem invalidate_without_live_iterators : forall seq seq' st,
  Inv seq st -> forallb at_entry (thr st) = true -> Inv seq' (invalidate st).
Proof.
  intros seq seq' st (HS & HL & HT) Hq. rewrite forallb_forall in Hq.
  assert (Hent : forall t th, nth_error (thr st) t = Some th -> at_entry th = true).
  { intros t th H. apply Hq. apply (nth_error_In _ _ H). }
  unfold Inv, invalidate. cbn [sh thr]. split; [|split].
  - unfold shared_inv. cbn [cache complete sgen gpos gdone lock lenp]. repeat split; try discriminate; try lia.
  - split; cbn [sh thr lock].
    + intros t th H Hc. specialize (Hent _ _ H). unfold at_entry in Hent.
      destruct (t_pc th); discriminate.
    + intros t H. discriminate.
  - intros t th H. specialize (Hent _ _ H). destruct (HT _ _ H) as [_ Hpc].
    split; unfold at_entry in Hent; destruct (t_pc th) eqn:E; try discriminate.
    + destruct Hpc as [Ho _]. rewrite Ho. reflexivity.
    + destruct Hpc as [[Ho _] _]. rewrite Ho. reflexivity.
    + destruct Hpc as [Ho _]. rewrite Ho. reflexivity.
    + exact Hpc.
    + exact Hpc.
    + exact Hpc.
Qed.

(* thread 0 lists a 3-element rule up to its tail loop (26 of its own steps: the fill that ends the generator, then `while i < self._len`), then the set is mutated *)
Definition iv_state : state := invalidate (exec [1;2;3] true false (repeat 0%nat 26) (init [OList])).

Lemma invalidate_live_iterator_refuted :
  (exists th, nth_error (thr (exec [1;2;3] true false (repeat 0%nat 26) (init [OList]))) 0 = Some th /\ t_pc th = PTWhile) /\
  (exists th', nth_error (thr (exec [1;2;3] true false (repeat 0%nat 1) iv_state)) 0 = Some th' /\
               t_res th' = Some (Raise ETypeError)).
Proof. split; eexists; (split; [vm_compute; reflexivity | reflexivity]). Qed.

(* ------------------------------------------------------------------------------------------ *)
(* iterate, let every operation finish, MUTATE (_invalidate_cache), iterate again.
   The threads of the first phase are finished (PDone: they never move again and hold no lock); the
   operations started after the mutator are new threads appended to the state.  InvFrom k is the invariant
   for the NEW sequence on the threads from index k on. *)

Definition InvFrom (k : nat) (seq : list Z) (st : state) : Prop :=
  shared_inv seq (sh st) /\ lock_inv st /\
  (forall t th, nth_error (thr st) t = Some th -> (t < k)%nat -> t_pc th = PDone) /\
  (forall t th, nth_error (thr st) t = Some th -> (k <= t)%nat -> thread_inv seq (sh st) th).

Lemma step_invfrom : forall k seq st t st',
  InvFrom k seq st -> step seq true false st t = Some st' -> InvFrom k seq st'.
Proof.
  intros k seq st t st' (HS & (HL1 & HL2) & HD & HT) Hstep. unfold step in Hstep.
  destruct (nth_error (thr st) t) as [th|] eqn:Et; [|discriminate].
  destruct (step_thread seq true false (sh st) t th) as [[s' th']|] eqn:Es; [|discriminate].
  injection Hstep as <-.
  assert (Hk : (k <= t)%nat).
  { destruct (Nat.le_gt_cases k t) as [H|H]; [exact H|]. exfalso.
    pose proof (HD _ _ Et H) as Hp. unfold step_thread in Es. rewrite Hp in Es. discriminate. }
  destruct (step_thread_ok seq _ _ _ _ _ HS (HT _ _ Et Hk) Es) as (HS' & Hle & HT').
  pose proof (step_thread_lock seq _ _ _ _ _ Es) as HK.
  unfold InvFrom. cbn [sh thr]. split; [exact HS'|]. split; [|split].
  - unfold lock_inv. cbn [sh thr]. split.
    + intros u thu Hu Hcu. destruct (Nat.eq_dec t u) as [Eq|Ne]; [subst u|].
      * rewrite (nth_error_upd_same _ _ _ _ _ Et) in Hu. injection Hu as <-.
        destruct HK as [[E1 E2]|[(E1 & E2 & E3 & E4)|(E1 & E2 & E3)]].
        -- rewrite E1. apply (HL1 _ _ Et). rewrite <- E2. exact Hcu.
        -- exact E3.
        -- congruence.
      * rewrite nth_error_upd_other in Hu by exact Ne.
        pose proof (HL1 _ _ Hu Hcu) as Lu.
        destruct HK as [[E1 E2]|[(E1 & E2 & E3 & E4)|(E1 & E2 & E3)]].
        -- rewrite E1. exact Lu.
        -- congruence.
        -- pose proof (HL1 _ _ Et E1). congruence.
    + intros u Lu. destruct HK as [[E1 E2]|[(E1 & E2 & E3 & E4)|(E1 & E2 & E3)]].
      * rewrite E1 in Lu. destruct (HL2 _ Lu) as (thu & Hu & Hcu).
        destruct (Nat.eq_dec t u) as [Eq|Ne]; [subst u|].
        -- exists th'. split; [apply (nth_error_upd_same _ _ _ _ _ Et)|].
           rewrite Et in Hu. injection Hu as <-. congruence.
        -- exists thu. split; [rewrite nth_error_upd_other by exact Ne; exact Hu | exact Hcu].
      * rewrite E3 in Lu. injection Lu as <-. exists th'.
        split; [apply (nth_error_upd_same _ _ _ _ _ Et) | exact E4].
      * congruence.
  - intros u thu Hu Hlt. destruct (Nat.eq_dec t u) as [Eq|Ne]; [subst u; lia|].
    rewrite nth_error_upd_other in Hu by exact Ne. apply (HD _ _ Hu Hlt).
  - intros u thu Hu Hge. destruct (Nat.eq_dec t u) as [Eq|Ne]; [subst u|].
    + rewrite (nth_error_upd_same _ _ _ _ _ Et) in Hu. injection Hu as <-. exact HT'.
    + rewrite nth_error_upd_other in Hu by exact Ne.
      apply (thread_inv_mono seq _ _ _ Hle). apply (HT _ _ Hu Hge).
Qed.

Lemma exec_invfrom : forall k seq sched st, InvFrom k seq st -> InvFrom k seq (exec seq true false sched st).
Proof.
  intros k seq. induction sched as [|t r IH]; intros st H; cbn [exec]; [exact H|].
  apply IH. destruct (step seq true false st t) eqn:E; [eapply step_invfrom; eauto | exact H].
Qed.

Lemma step_length : forall seq st t st', step seq true false st t = Some st' -> length (thr st') = length (thr st).
Proof.
  intros seq st t st' H. unfold step in H. destruct (nth_error (thr st) t); [|discriminate].
  destruct (step_thread seq true false (sh st) t t0) as [[s' th']|]; [|discriminate].
  injection H as <-. cbn [thr]. apply length_upd.
Qed.

Lemma exec_length : forall seq sched st, length (thr (exec seq true false sched st)) = length (thr st).
Proof.
  intros seq. induction sched as [|t r IH]; intros st; cbn [exec]; [reflexivity|].
  destruct (step seq true false st t) eqn:E; rewrite IH; [apply (step_length _ _ _ _ E) | reflexivity].
Qed.

Lemma all_done_true : forall st t th, all_done st = true -> nth_error (thr st) t = Some th -> t_pc th = PDone.
Proof.
  intros st t th H Ht. unfold all_done in H. rewrite forallb_forall in H.
  specialize (H th (nth_error_In _ _ Ht)). destruct (t_pc th); try discriminate. reflexivity.
Qed.

(* the state after the mutator, with the operations started afterwards *)
Definition after_invalidate (st : state) (ops2 : list op) : state :=
  St (sh (invalidate st)) (thr st ++ map init_thread ops2).

Theorem invalidate_then_iterate : forall seq seq' ops sched ops2 sched2,
  all_done (reach seq ops sched) = true ->
  let st := exec seq' true false sched2 (after_invalidate (reach seq ops sched) ops2) in
  InvFrom (length ops) seq' st /\
  forall t th, (length ops <= t)%nat -> nth_error (thr st) t = Some th ->
    is_prefix (t_out th) seq' /\
    (t_pc th = PDone -> exists r, t_res th = Some r /\ done_ok seq' (t_op th) r).
Proof.
  intros seq seq' ops sched ops2 sched2 Hd st.
  assert (Hlen : length (thr (reach seq ops sched)) = length ops).
  { unfold reach. rewrite exec_length. unfold init. cbn [thr]. apply map_length. }
  assert (H0 : InvFrom (length ops) seq' (after_invalidate (reach seq ops sched) ops2)).
  { unfold InvFrom, after_invalidate, invalidate. cbn [sh thr]. split; [|split; [|split]].
    - unfold shared_inv. cbn [cache complete sgen gpos gdone lock lenp]. repeat split; try discriminate; try lia.
    - split; cbn [sh thr lock].
      + intros t th H Hc. exfalso. destruct (Nat.lt_ge_cases t (length ops)) as [Hl|Hl].
        * rewrite nth_error_app1 in H by lia. rewrite (all_done_true _ _ _ Hd H) in Hc. discriminate.
        * rewrite nth_error_app2 in H by lia. rewrite nth_error_map in H.
          destruct (nth_error ops2 (t - length (thr (reach seq ops sched)))) as [o|]; [|discriminate].
          injection H as <-. unfold init_thread in Hc. cbn [t_pc] in Hc. destruct o; discriminate.
      + intros t H. discriminate.
    - intros t th H Hl. rewrite nth_error_app1 in H by lia. apply (all_done_true _ _ _ Hd H).
    - intros t th H Hl. rewrite nth_error_app2 in H by lia. rewrite nth_error_map in H.
      destruct (nth_error ops2 (t - length (thr (reach seq ops sched)))) as [o|]; [|discriminate].
      injection H as <-. unfold init_thread. split; [reflexivity|]. cbn [t_pc t_op t_i t_gen t_out t_res].
      destruct o; cbn [start_pc]; repeat split. }
  pose proof (exec_invfrom _ _ sched2 _ H0) as HI. fold st in HI. split; [exact HI|].
  intros t th Hl Ht. destruct HI as (_ & _ & _ & HT). destruct (HT _ _ Ht Hl) as [Hp Hpc].
  split; [exact Hp|]. intros E. rewrite E in Hpc. exact Hpc.
Qed.

(* count(): in every reachable state of the transition system a finished count() returned the NUMBER OF
   ITEMS THE GENERATOR YIELDED (|seq|) -- the published _len is the generator's own counter at exhaustion
   (PAdvance / PGenPub of the model), not a definition; no hypothesis on seq *)
Theorem count_returns_length : forall seq ops sched t th,
  nth_error (thr (reach seq ops sched)) t = Some th -> t_op th = OCount -> t_pc th = PDone ->
  t_res th = Some (Ret [Z.of_nat (length seq)]).
Proof.
  intros seq ops sched t th H Ho Hd.
  destruct (observes_uncached seq ops sched t th H) as (_ & _ & K).
  destruct (K Hd) as (r & Hr & [E|(x & Eo & _)]).
  - rewrite Hr, E, Ho. reflexivity.
  - congruence.
Qed.
