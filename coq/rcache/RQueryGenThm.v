(* C12 -- the query methods REGENERATED from /repo's source on every run (gen/RQueryGen.v, by
   harness/gen_rcache.py) equal the hand-written model (rcache/RQueryModel.v) for ALL inputs. *)
From Coq Require Import ZArith List Bool Lia.
From V Require Import rcache.PyList rcache.RCacheModel rcache.RQueryModel rcache.RGenBase gen.RQueryGen.
Import ListNotations.
Open Scope Z_scope.

(* ---- __getitem__ *)
Lemma gen_getitem_loop_spec : forall (l : list Z) (n : nat) (res : option Z),
  match gen_getitem_loop1 (S n) (res, l) with
  | LRet r => r
  | LExit st => of_opt (fst st)
  end = get_loop l (Z.of_nat n).
Proof.
  induction l as [|h t IH]; intros n res.
  - reflexivity.
  - cbn [gen_getitem_loop1 get_loop]. destruct n as [|m].
    + reflexivity.
    + replace (Z.of_nat (S m) =? 0) with false by (symmetry; apply Z.eqb_neq; lia).
      replace (Z.of_nat (S m) - 1) with (Z.of_nat m) by lia. apply IH.
Qed.

Theorem gen_getitem_eq : forall complete l it, gen_getitem complete l it = getitem complete l it.
Proof.
  intros complete l it. unfold gen_getitem, getitem. destruct complete; [reflexivity|].
  destruct it as [k|a b c].
  - destruct (0 <=? k) eqn:E; [|reflexivity]. apply Z.leb_le in E.
    replace (Z.to_nat (k + 1)) with (S (Z.to_nat k)) by lia.
    pose proof (gen_getitem_loop_spec l (Z.to_nat k) None) as H. rewrite Z2Nat.id in H by lia.
    rewrite <- H. destruct (gen_getitem_loop1 (S (Z.to_nat k)) (None, l)) as [r|[r' g']]; reflexivity.
  - reflexivity.
Qed.

(* ---- __contains__ *)
Lemma gen_contains_loop_spec : forall x l,
  match gen_contains_loop1 x tt l with LRet r => r | LExit _ => QBool false end = QBool (contains_loop x l).
Proof.
  intros x. induction l as [|y r IH]; [reflexivity|].
  cbn [gen_contains_loop1 contains_loop]. destruct (y =? x); [reflexivity|]. destruct (x <? y); [reflexivity|]. exact IH.
Qed.

Theorem gen_contains_eq : forall complete l x, gen_contains complete l x = QBool (contains complete l x).
Proof.
  intros complete l x. unfold gen_contains, contains. destruct complete; [reflexivity|].
  apply gen_contains_loop_spec.
Qed.

(* ---- count: self._len is None before the first full pass, |L| afterwards (C11) *)
Theorem gen_count_eq : forall len l, len = None \/ len = Some (zlen l) -> gen_count len l = QVal (count l).
Proof. intros len l [->| ->]; reflexivity. Qed.

(* ---- before *)
Lemma gen_before_loop1_spec : forall dt inc l st, gen_before_loop1 dt inc st l = LExit (before_loop dt true st l).
Proof.
  intros dt inc. induction l as [|y r IH]; intros st; [reflexivity|].
  cbn [gen_before_loop1 before_loop past]. destruct (dt <? y); [reflexivity | apply IH].
Qed.
Lemma gen_before_loop2_spec : forall dt inc l st, gen_before_loop2 dt inc st l = LExit (before_loop dt false st l).
Proof.
  intros dt inc. induction l as [|y r IH]; intros st; [reflexivity|].
  cbn [gen_before_loop2 before_loop past]. destruct (dt <=? y); [reflexivity | apply IH].
Qed.

Theorem gen_before_eq : forall complete l dt inc, gen_before complete l dt inc = before complete l dt inc.
Proof.
  intros complete l dt inc. unfold gen_before, before. destruct inc.
  - rewrite gen_before_loop1_spec. reflexivity.
  - rewrite gen_before_loop2_spec. reflexivity.
Qed.

(* ---- after *)
Lemma gen_after_loop1_spec : forall dt inc l,
  match gen_after_loop1 dt inc tt l with LRet r => r | LExit _ => QNone end = of_opt (after_loop dt true l).
Proof.
  intros dt inc. induction l as [|y r IH]; [reflexivity|].
  cbn [gen_after_loop1 after_loop reached]. destruct (dt <=? y); [reflexivity | exact IH].
Qed.
Lemma gen_after_loop2_spec : forall dt inc l,
  match gen_after_loop2 dt inc tt l with LRet r => r | LExit _ => QNone end = of_opt (after_loop dt false l).
Proof.
  intros dt inc. induction l as [|y r IH]; [reflexivity|].
  cbn [gen_after_loop2 after_loop reached]. destruct (dt <? y); [reflexivity | exact IH].
Qed.

Theorem gen_after_eq : forall complete l dt inc, gen_after complete l dt inc = after complete l dt inc.
Proof.
  intros complete l dt inc. unfold gen_after, after. destruct inc.
  - apply gen_after_loop1_spec.
  - apply gen_after_loop2_spec.
Qed.

(* ---- xafter *)
Lemma gen_xafter_loop_spec : forall dt cnt inc (comp : Z -> Z -> bool),
  (forall d, comp d dt = reached dt inc d) ->
  forall l n out, exists n', gen_xafter_loop1 dt cnt inc comp (n, out) l = LExit (n', out ++ xafter_loop dt cnt inc n l).
Proof.
  intros dt cnt inc comp Hc. induction l as [|d r IH]; intros n out.
  - exists n. cbn [gen_xafter_loop1 xafter_loop]. rewrite app_nil_r. reflexivity.
  - cbn [gen_xafter_loop1 xafter_loop]. rewrite Hc. destruct (reached dt inc d).
    + destruct cnt as [c|].
      * destruct (c <? n + 1).
        -- exists (n + 1). rewrite app_nil_r. reflexivity.
        -- destruct (IH (n + 1) (out ++ [d])) as [n' H]. exists n'. rewrite H, <- app_assoc. reflexivity.
      * destruct (IH n (out ++ [d])) as [n' H]. exists n'. rewrite H, <- app_assoc. reflexivity.
    + apply IH.
Qed.

Theorem gen_xafter_eq : forall complete l dt cnt inc, gen_xafter complete l dt cnt inc = xafter complete l dt cnt inc.
Proof.
  intros complete l dt cnt inc. unfold gen_xafter, xafter.
  destruct (gen_xafter_loop_spec dt cnt inc
              (if inc then (fun a_dc a_dtc => a_dtc <=? a_dc) else (fun a_dc a_dtc => a_dtc <? a_dc))
              ltac:(intros d; destruct inc; reflexivity) l 0 []) as [n' H].
  rewrite H. reflexivity.
Qed.

(* ---- between *)
Lemma gen_between_loop1_spec : forall a b inc l started acc,
  exists st', gen_between_loop1 a b inc (started, acc) l = LExit (st', acc ++ between_loop a b true started l).
Proof.
  intros a b inc. induction l as [|x r IH]; intros started acc.
  - exists started. cbn [gen_between_loop1 between_loop]. rewrite app_nil_r. reflexivity.
  - cbn [gen_between_loop1 between_loop past reached]. destruct (b <? x).
    + exists started. rewrite app_nil_r. reflexivity.
    + destruct started; cbn [negb].
      * destruct (IH true (acc ++ [x])) as [st' H]. exists st'. rewrite H, <- app_assoc. reflexivity.
      * destruct (a <=? x).
        -- destruct (IH true (acc ++ [x])) as [st' H]. exists st'. rewrite H, <- app_assoc. reflexivity.
        -- apply IH.
Qed.
Lemma gen_between_loop2_spec : forall a b inc l started acc,
  exists st', gen_between_loop2 a b inc (started, acc) l = LExit (st', acc ++ between_loop a b false started l).
Proof.
  intros a b inc. induction l as [|x r IH]; intros started acc.
  - exists started. cbn [gen_between_loop2 between_loop]. rewrite app_nil_r. reflexivity.
  - cbn [gen_between_loop2 between_loop past reached]. destruct (b <=? x).
    + exists started. rewrite app_nil_r. reflexivity.
    + destruct started; cbn [negb].
      * destruct (IH true (acc ++ [x])) as [st' H]. exists st'. rewrite H, <- app_assoc. reflexivity.
      * destruct (a <? x).
        -- destruct (IH true (acc ++ [x])) as [st' H]. exists st'. rewrite H, <- app_assoc. reflexivity.
        -- apply IH.
Qed.

Theorem gen_between_eq : forall complete l a b inc, gen_between complete l a b inc = between complete l a b inc.
Proof.
  intros complete l a b inc. unfold gen_between, between. destruct inc.
  - destruct (gen_between_loop1_spec a b true l false []) as [st' H]. rewrite H. reflexivity.
  - destruct (gen_between_loop2_spec a b false l false []) as [st' H]. rewrite H. reflexivity.
Qed.

(* ---- count on an UNCACHED rule: the only state is `_len`.  Every call that runs the generator to exhaustion
   (list, count with _len None, a failed `in`, before, between past the end, ...) executes the generator's
   final `self._len = total` (RGenBase.published: total = number of items yielded -- the assumption on the
   generator, rrule.py `_iter` of rrule and of rruleset; the cached path proves it from the `lenp` field of the
   transition system, RCacheThm.count_returns_length); every other call leaves `_len` alone.  So after ANY
   history `_len` is None or |L|, gen_count's hypothesis holds, and count() returns |L| whatever ran before. *)
Definition ulen_after (l : list Z) (h : list bool) : option Z :=
  fold_left (fun len (exhausted : bool) => if exhausted then published l else len) h None.

Theorem gen_count_after_any_history : forall l h, gen_count (ulen_after l h) l = QVal (zlen l).
Proof.
  intros l h. apply (gen_count_eq (ulen_after l h) l). unfold ulen_after.
  assert (G : forall h s0, (s0 = None \/ s0 = Some (zlen l)) ->
            fold_left (fun len (exhausted : bool) => if exhausted then published l else len) h s0 = None \/
            fold_left (fun len (exhausted : bool) => if exhausted then published l else len) h s0 = Some (zlen l)).
  { induction h0 as [|b r IH]; intros s0 H0; [exact H0|]. cbn [fold_left]. apply IH.
    destruct b; [right; reflexivity | exact H0]. }
  apply G. left. reflexivity.
Qed.
