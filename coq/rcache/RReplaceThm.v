(* C12 -- replace() returns a rule differing only in the named parameters: theorems about
   RReplace.v over C01's constructor model rr/RRNorm.normalize. *)
From Coq Require Import ZArith List Bool Lia.
From V Require Import base.Cal rr.RRBase rr.RRNorm rcache.RReplace.
Import ListNotations.
Open Scope Z_scope.

(* ------------------------------------------------------------------------------------------ *)
(* normalize, with the way it looks at each BY-part named (definitionally the same function) *)

Definition v_set (o : option (list Z)) : option (list Z) := option_map sort_set o.
Definition v_easter (o : option (list Z)) : option (list Z) := option_map sortZ o.
Definition v_md (o : option (list Z)) : list Z * list Z :=
  let md := sort_set (opt_list o) in (filter (fun x => 0 <? x) md, filter (fun x => x <? 0) md).
Definition v_wd (fr : Z) (o : option (list (Z * Z))) : option (list Z) * option (list (Z * Z)) :=
  match o with
  | None => (None, None)
  | Some l =>
    let '(plain, nth) := split_weekday fr l in
    let plain := sort_set plain in
    let nth := sort_set_pair nth in
    if negb (nonempty plain) then (None, Some nth)
    else if negb (nonempty nth) then (Some plain, None)
    else (Some plain, Some nth)
  end.
Definition v_time (o : option (list Z)) (below level : bool) (itv start base : Z) : res (option (list Z)) :=
  match o with
  | None => if below then Ok (Some [start]) else Ok None
  | Some l => if level then do c <- construct_byset itv start l base; Ok (Some (sort_set c))
              else Ok (Some (sort_set l))
  end.
Definition v_setpos_ok (o : option (list Z)) : bool :=
  match o with None => true | Some l => setpos_ok l end.

Definition v_zero (o : option (list Z)) : bool := memZ 0 (opt_list o).

Definition normalize2 (r : raw) : res rule :=
  let fr := r_freq r in
  let '(hh, mm, ss) := if r_isdate r then (0, 0, 0) else (r_H r, r_M r, r_S r) in
  if (negb (is_none (r_until r))) && r_tzmix r then Err EValue else
  if negb (v_setpos_ok (r_bysetpos r)) then Err EValue else
  let nodays := is_none (r_byweekno r) && is_none (r_byyearday r) && is_none (r_bymonthday r) &&
                is_none (r_byweekday r) && is_none (r_byeaster r) in
  let bymonth0 := if nodays && (fr =? YEARLY) && is_none (r_bymonth r) then Some [r_m r]
                  else r_bymonth r in
  let bymonthday0 := if nodays && ((fr =? YEARLY) || (fr =? MONTHLY)) then Some [r_d r]
                     else r_bymonthday r in
  let byweekday0 := if nodays && (fr =? WEEKLY) then Some [(Cal.weekday (r_y r) (r_m r) (r_d r), 0)]
                    else r_byweekday r in
  let bymonth1 := v_set bymonth0 in
  let byyearday1 := v_set (r_byyearday r) in
  let byeaster1 := v_easter (r_byeaster r) in
  let bymonthday1 := fst (v_md bymonthday0) in
  let bynmonthday1 := snd (v_md bymonthday0) in
  let byweekno1 := v_set (r_byweekno r) in
  let '(byweekday1, bynweekday1) := v_wd fr byweekday0 in
  do _ <- (if v_zero bymonthday0 then Err EValue else Ok tt);       (* fix 55654b4: `if 0 in bymonthday: raise` *)
  do byhour1 <- v_time (r_byhour r) (fr <? HOURLY) (fr =? HOURLY) (r_interval r) hh 24;
  do byminute1 <- v_time (r_byminute r) (fr <? MINUTELY) (fr =? MINUTELY) (r_interval r) mm 60;
  do bysecond1 <- v_time (r_bysecond r) (fr <? SECONDLY) (fr =? SECONDLY) (r_interval r) ss 60;
  do timeset1 <-
    (if HOURLY <=? fr then Ok None
     else do ts <- time_product (opt_list byhour1) (opt_list byminute1) (opt_list bysecond1);
          Ok (Some (sortZ ts)));
  Ok (mkRule fr (r_interval r) (r_wkst r) (r_count r) (r_until r)
             (r_y r) (r_m r) (r_d r) hh mm ss
             (r_bysetpos r) bymonth1 byyearday1 byeaster1 bymonthday1 bynmonthday1
             byweekno1 byweekday1 bynweekday1 byhour1 byminute1 bysecond1 timeset1).

Lemma normalize2_eq : forall r, normalize r = normalize2 r.
Proof. intros r. reflexivity. Qed.

(* ------------------------------------------------------------------------------------------ *)
(* sorted duplicate-free lists: sort_set is idempotent, commutes with filter, and two strictly sorted
   lists with the same members are equal *)

Fixpoint ssorted (l : list Z) : bool :=
  match l with [] => true | x :: t => forallb (Z.ltb x) t && ssorted t end.

Lemma forallb_ltb_trans a b l : a < b -> forallb (Z.ltb b) l = true -> forallb (Z.ltb a) l = true.
Proof.
  intros H. induction l as [|x t IH]; cbn [forallb]; [reflexivity|]. intros F.
  apply andb_true_iff in F. destruct F as [F1 F2]. rewrite (IH F2).
  apply Z.ltb_lt in F1. replace (a <? x) with true by (symmetry; apply Z.ltb_lt; lia). reflexivity.
Qed.

Lemma insert_uniq_sorted a l : ssorted l = true ->
  ssorted (insert_uniq a l) = true /\
  forall b, b < a -> forallb (Z.ltb b) l = true -> forallb (Z.ltb b) (insert_uniq a l) = true.
Proof.
  induction l as [|h t IH]; intros S; cbn [insert_uniq].
  - split; [reflexivity|]. intros b Hb _. cbn [forallb]. apply Z.ltb_lt in Hb. rewrite Hb. reflexivity.
  - cbn [ssorted] in S. apply andb_true_iff in S. destruct S as [S1 S2].
    destruct (a <? h) eqn:E1.
    + apply Z.ltb_lt in E1. split.
      * cbn [ssorted forallb]. replace (a <? h) with true by (symmetry; apply Z.ltb_lt; lia).
        rewrite (forallb_ltb_trans a h t E1 S1), S1, S2. reflexivity.
      * intros b Hb F. cbn [forallb] in *. apply Z.ltb_lt in Hb. rewrite Hb. exact F.
    + destruct (a =? h) eqn:E2.
      * split; [cbn [ssorted]; rewrite S1, S2; reflexivity|]. intros b Hb F. exact F.
      * apply Z.ltb_ge in E1. apply Z.eqb_neq in E2. destruct (IH S2) as [I1 I2]. split.
        -- cbn [ssorted]. rewrite I1, andb_true_r. apply I2; [lia | exact S1].
        -- intros b Hb F. cbn [forallb] in *. apply andb_true_iff in F. destruct F as [F1 F2].
           rewrite F1. cbn [andb]. apply I2; assumption.
Qed.

Lemma sort_set_sorted l : ssorted (sort_set l) = true.
Proof.
  unfold sort_set. induction l as [|h t IH]; cbn [fold_right]; [reflexivity|].
  apply (proj1 (insert_uniq_sorted h _ IH)).
Qed.

Lemma In_insert_uniq x a l : In x (insert_uniq a l) <-> a = x \/ In x l.
Proof.
  induction l as [|h t IH]; cbn [insert_uniq In]; [tauto|].
  destruct (a <? h); [cbn [In]; tauto|]. destruct (a =? h) eqn:E.
  - apply Z.eqb_eq in E. subst. cbn [In]. tauto.
  - cbn [In]. rewrite IH. tauto.
Qed.

Lemma In_sort_set x l : In x (sort_set l) <-> In x l.
Proof.
  unfold sort_set. induction l as [|h t IH]; cbn [fold_right In]; [tauto|].
  rewrite In_insert_uniq, IH. tauto.
Qed.

Lemma forallb_ltb_In a l : forallb (Z.ltb a) l = true -> forall x, In x l -> a < x.
Proof.
  intros F x Hx. rewrite forallb_forall in F. apply Z.ltb_lt. apply F. exact Hx.
Qed.

Lemma sorted_ext : forall a b, ssorted a = true -> ssorted b = true ->
  (forall x, In x a <-> In x b) -> a = b.
Proof.
  induction a as [|x a IH]; intros [|y b] Sa Sb H.
  - reflexivity.
  - exfalso. apply (proj2 (H y)). left. reflexivity.
  - exfalso. apply (proj1 (H x)). left. reflexivity.
  - cbn [ssorted] in Sa, Sb. apply andb_true_iff in Sa. apply andb_true_iff in Sb.
    destruct Sa as [Fa Sa]. destruct Sb as [Fb Sb].
    pose proof (forallb_ltb_In _ _ Fa) as La. pose proof (forallb_ltb_In _ _ Fb) as Lb.
    assert (E : x = y).
    { destruct (proj1 (H x) (or_introl eq_refl)) as [E|Hx]; [congruence|].
      destruct (proj2 (H y) (or_introl eq_refl)) as [E|Hy]; [congruence|].
      specialize (La _ Hy). specialize (Lb _ Hx). lia. }
    subst y. f_equal. apply IH; try assumption. intros z. split; intros Hz.
    + destruct (proj1 (H z) (or_intror Hz)) as [E|Hb]; [|exact Hb]. subst z. specialize (La _ Hz). lia.
    + destruct (proj2 (H z) (or_intror Hz)) as [E|Ha]; [|exact Ha]. subst z. specialize (Lb _ Hz). lia.
Qed.

Lemma sort_set_of_sorted l : ssorted l = true -> sort_set l = l.
Proof.
  intros S. apply sorted_ext; [apply sort_set_sorted | exact S | intros x; apply In_sort_set].
Qed.

Lemma sort_set_idem l : sort_set (sort_set l) = sort_set l.
Proof. apply sort_set_of_sorted, sort_set_sorted. Qed.

Lemma forallb_filter (p q : Z -> bool) l : forallb p l = true -> forallb p (filter q l) = true.
Proof.
  induction l as [|x t IH]; cbn [forallb filter]; [reflexivity|]. intros F.
  apply andb_true_iff in F. destruct F as [F1 F2]. destruct (q x); cbn [forallb]; [rewrite F1|]; auto.
Qed.

Lemma filter_ssorted (p : Z -> bool) l : ssorted l = true -> ssorted (filter p l) = true.
Proof.
  induction l as [|x t IH]; cbn [ssorted filter]; [reflexivity|]. intros S.
  apply andb_true_iff in S. destruct S as [S1 S2]. destruct (p x); [|auto].
  cbn [ssorted]. rewrite (forallb_filter _ p _ S1), (IH S2). reflexivity.
Qed.

Lemma sort_set_filter (p : Z -> bool) l : sort_set (filter p (sort_set l)) = sort_set (filter p l).
Proof.
  apply sorted_ext; try apply sort_set_sorted. intros x.
  rewrite !In_sort_set, !filter_In, In_sort_set. tauto.
Qed.

Lemma filter_sort_set_nil (p : Z -> bool) l : filter p (sort_set l) = [] <-> filter p l = [].
Proof.
  split; intros H.
  - destruct (filter p l) as [|y t] eqn:E; [reflexivity|]. exfalso.
    assert (Hy : In y (filter p l)) by (rewrite E; left; reflexivity).
    apply filter_In in Hy. destruct Hy as [Hy Py].
    assert (Hz : In y (filter p (sort_set l))) by (apply filter_In; split; [apply In_sort_set|]; assumption).
    rewrite H in Hz. destruct Hz.
  - destruct (filter p (sort_set l)) as [|y t] eqn:E; [reflexivity|]. exfalso.
    assert (Hy : In y (filter p (sort_set l))) by (rewrite E; left; reflexivity).
    apply filter_In in Hy. destruct Hy as [Hy Py]. pose proof (proj1 (In_sort_set y l) Hy) as Hy2.
    assert (Hz : In y (filter p l)) by (apply filter_In; split; [exact Hy2 | exact Py]).
    rewrite H in Hz. destruct Hz.
Qed.

(* sortZ (with duplicates): idempotent *)
Fixpoint wsorted (l : list Z) : bool :=
  match l with [] => true | x :: t => forallb (Z.leb x) t && wsorted t end.

Lemma forallb_leb_trans a b l : a <= b -> forallb (Z.leb b) l = true -> forallb (Z.leb a) l = true.
Proof.
  intros H. induction l as [|x t IH]; cbn [forallb]; [reflexivity|]. intros F.
  apply andb_true_iff in F. destruct F as [F1 F2]. rewrite (IH F2).
  apply Z.leb_le in F1. replace (a <=? x) with true by (symmetry; apply Z.leb_le; lia). reflexivity.
Qed.

Lemma insertZ_sorted a l : wsorted l = true ->
  wsorted (insertZ a l) = true /\
  forall b, b <= a -> forallb (Z.leb b) l = true -> forallb (Z.leb b) (insertZ a l) = true.
Proof.
  induction l as [|h t IH]; intros S; cbn [insertZ].
  - split; [reflexivity|]. intros b Hb _. cbn [forallb]. apply Z.leb_le in Hb. rewrite Hb. reflexivity.
  - cbn [wsorted] in S. apply andb_true_iff in S. destruct S as [S1 S2].
    destruct (a <=? h) eqn:E1.
    + apply Z.leb_le in E1. split.
      * cbn [wsorted forallb]. replace (a <=? h) with true by (symmetry; apply Z.leb_le; lia).
        rewrite (forallb_leb_trans a h t E1 S1), S1, S2. reflexivity.
      * intros b Hb F. cbn [forallb] in *. apply Z.leb_le in Hb. rewrite Hb. exact F.
    + apply Z.leb_gt in E1. destruct (IH S2) as [I1 I2]. split.
      * cbn [wsorted]. rewrite I1, andb_true_r. apply I2; [lia | exact S1].
      * intros b Hb F. cbn [forallb] in *. apply andb_true_iff in F. destruct F as [F1 F2].
        rewrite F1. cbn [andb]. apply I2; assumption.
Qed.

Lemma sortZ_sorted l : wsorted (sortZ l) = true.
Proof.
  unfold sortZ. induction l as [|h t IH]; cbn [fold_right]; [reflexivity|].
  apply (proj1 (insertZ_sorted h _ IH)).
Qed.

Lemma sortZ_of_sorted l : wsorted l = true -> sortZ l = l.
Proof.
  induction l as [|x t IH]; [reflexivity|]. cbn [wsorted]. intros S.
  apply andb_true_iff in S. destruct S as [S1 S2]. unfold sortZ in *. cbn [fold_right]. rewrite (IH S2).
  destruct t as [|y t']; [reflexivity|]. cbn [insertZ]. cbn [forallb] in S1.
  apply andb_true_iff in S1. destruct S1 as [S1 _]. rewrite S1. reflexivity.
Qed.

Lemma sortZ_idem l : sortZ (sortZ l) = sortZ l.
Proof. apply sortZ_of_sorted, sortZ_sorted. Qed.

(* ------------------------------------------------------------------------------------------ *)
(* (weekday, n) pairs *)

Fixpoint psorted (l : list (Z * Z)) : bool :=
  match l with [] => true | x :: t => forallb (pair_lt x) t && psorted t end.

Lemma pair_lt_trans a b c : pair_lt a b = true -> pair_lt b c = true -> pair_lt a c = true.
Proof.
  unfold pair_lt. destruct a as [a1 a2], b as [b1 b2], c as [c1 c2]. cbn [fst snd]. intros H1 H2.
  apply orb_true_iff in H1. apply orb_true_iff in H2. apply orb_true_iff.
  destruct H1 as [H1|H1], H2 as [H2|H2];
    repeat match goal with
           | H : _ && _ = true |- _ => apply andb_true_iff in H; destruct H
           | H : (_ <? _) = true |- _ => apply Z.ltb_lt in H
           | H : (_ =? _) = true |- _ => apply Z.eqb_eq in H
           end.
  - left. apply Z.ltb_lt. lia.
  - left. apply Z.ltb_lt. lia.
  - left. apply Z.ltb_lt. lia.
  - right. apply andb_true_iff. split; [apply Z.eqb_eq | apply Z.ltb_lt]; lia.
Qed.

Lemma pair_total a b : pair_lt a b = false -> pair_eq a b = false -> pair_lt b a = true.
Proof.
  unfold pair_lt, pair_eq. destruct a as [a1 a2], b as [b1 b2]. cbn [fst snd]. intros H1 H2.
  apply orb_false_iff in H1. destruct H1 as [H1 H3]. apply Z.ltb_ge in H1.
  apply orb_true_iff. destruct (Z.eq_dec a1 b1) as [E|E].
  - subst. rewrite Z.eqb_refl in *. cbn [andb] in *. apply Z.ltb_ge in H3. apply Z.eqb_neq in H2.
    right. apply Z.ltb_lt. lia.
  - left. apply Z.ltb_lt. lia.
Qed.

Lemma forallb_pair_lt_trans a b l : pair_lt a b = true -> forallb (pair_lt b) l = true -> forallb (pair_lt a) l = true.
Proof.
  intros H. induction l as [|x t IH]; cbn [forallb]; [reflexivity|]. intros F.
  apply andb_true_iff in F. destruct F as [F1 F2]. rewrite (IH F2), (pair_lt_trans _ _ _ H F1). reflexivity.
Qed.

Lemma insert_uniq_pair_sorted a l : psorted l = true ->
  psorted (insert_uniq_pair a l) = true /\
  forall b, pair_lt b a = true -> forallb (pair_lt b) l = true -> forallb (pair_lt b) (insert_uniq_pair a l) = true.
Proof.
  induction l as [|h t IH]; intros S; cbn [insert_uniq_pair].
  - split; [reflexivity|]. intros b Hb _. cbn [forallb]. rewrite Hb. reflexivity.
  - cbn [psorted] in S. apply andb_true_iff in S. destruct S as [S1 S2].
    destruct (pair_lt a h) eqn:E1.
    + split.
      * cbn [psorted forallb]. rewrite E1, (forallb_pair_lt_trans a h t E1 S1), S1, S2. reflexivity.
      * intros b Hb F. cbn [forallb] in *. rewrite Hb. exact F.
    + destruct (pair_eq a h) eqn:E2.
      * split; [cbn [psorted]; rewrite S1, S2; reflexivity|]. intros b Hb F. exact F.
      * destruct (IH S2) as [I1 I2]. split.
        -- cbn [psorted]. rewrite I1, andb_true_r. apply I2; [apply pair_total; assumption | exact S1].
        -- intros b Hb F. cbn [forallb] in *. apply andb_true_iff in F. destruct F as [F1 F2].
           rewrite F1. cbn [andb]. apply I2; assumption.
Qed.

Lemma sort_set_pair_sorted l : psorted (sort_set_pair l) = true.
Proof.
  unfold sort_set_pair. induction l as [|h t IH]; cbn [fold_right]; [reflexivity|].
  apply (proj1 (insert_uniq_pair_sorted h _ IH)).
Qed.

Lemma sort_set_pair_of_sorted l : psorted l = true -> sort_set_pair l = l.
Proof.
  induction l as [|x t IH]; [reflexivity|]. cbn [psorted]. intros S.
  apply andb_true_iff in S. destruct S as [S1 S2]. unfold sort_set_pair in *. cbn [fold_right]. rewrite (IH S2).
  destruct t as [|y t']; [reflexivity|]. cbn [insert_uniq_pair]. cbn [forallb] in S1.
  apply andb_true_iff in S1. destruct S1 as [S1 _]. rewrite S1. reflexivity.
Qed.

Lemma sort_set_pair_idem l : sort_set_pair (sort_set_pair l) = sort_set_pair l.
Proof. apply sort_set_pair_of_sorted, sort_set_pair_sorted. Qed.

Lemma pair_eq_eq a b : pair_eq a b = true -> a = b.
Proof.
  unfold pair_eq. destruct a, b. cbn [fst snd]. intros H. apply andb_true_iff in H. destruct H as [H1 H2].
  apply Z.eqb_eq in H1. apply Z.eqb_eq in H2. congruence.
Qed.

Lemma In_insert_uniq_pair x a l : In x (insert_uniq_pair a l) <-> a = x \/ In x l.
Proof.
  induction l as [|h t IH]; cbn [insert_uniq_pair In]; [tauto|].
  destruct (pair_lt a h); [cbn [In]; tauto|]. destruct (pair_eq a h) eqn:E.
  - apply pair_eq_eq in E. subst. cbn [In]. tauto.
  - cbn [In]. rewrite IH. tauto.
Qed.

Lemma In_sort_set_pair x l : In x (sort_set_pair l) <-> In x l.
Proof.
  unfold sort_set_pair. induction l as [|h t IH]; cbn [fold_right In]; [tauto|].
  rewrite In_insert_uniq_pair, IH. tauto.
Qed.

Definition isplain (fr : Z) (wn : Z * Z) : bool := (snd wn =? 0) || (MONTHLY <? fr).

Lemma split_char fr l :
  split_weekday fr l = (map fst (filter (isplain fr) l), filter (fun wn => negb (isplain fr wn)) l).
Proof.
  unfold split_weekday. induction l as [|[w n] t IH]; [reflexivity|].
  cbn [fold_right filter]. rewrite IH. unfold isplain. cbn [fst snd].
  destruct ((n =? 0) || (MONTHLY <? fr)); reflexivity.
Qed.

Lemma filter_all {A} (p : A -> bool) l : (forall x, In x l -> p x = true) -> filter p l = l.
Proof.
  induction l as [|x t IH]; intros H; [reflexivity|]. cbn [filter].
  rewrite (H x (or_introl eq_refl)). f_equal. apply IH. intros y Hy. apply H. right. exact Hy.
Qed.

Lemma filter_none {A} (p : A -> bool) l : (forall x, In x l -> p x = false) -> filter p l = [].
Proof.
  induction l as [|x t IH]; intros H; [reflexivity|]. cbn [filter].
  rewrite (H x (or_introl eq_refl)). apply IH. intros y Hy. apply H. right. exact Hy.
Qed.

(* ------------------------------------------------------------------------------------------ *)
(* what the constructor sees of each recorded BY-part is what it saw of the caller's value *)

Lemma ctx_if {A B : Type} (f : option A -> B) (a b : option A) :
  f a = f b -> forall (c : bool) (x : option A), f (if c then x else a) = f (if c then x else b).
Proof. intros H c x. destruct c; [reflexivity | exact H]. Qed.

Lemma ov_congr {A B : Type} (f : A -> B) (u : option A) (a b : A) : f a = f b -> f (ov u a) = f (ov u b).
Proof. intros H. destruct u; [reflexivity | exact H]. Qed.

Lemma given_view (o : option (list Z)) (g : list Z -> list Z) :
  (forall l, g (g l) = g l) ->
  option_map g (from_ent (given o g)) = option_map g o /\ is_none (from_ent (given o g)) = is_none o.
Proof. intros H. destruct o as [l|]; cbn; [rewrite H|]; split; reflexivity. Qed.

Definition nodays (r : raw) : bool :=
  is_none (r_byweekno r) && is_none (r_byyearday r) && is_none (r_bymonthday r) &&
  is_none (r_byweekday r) && is_none (r_byeaster r).

Lemma K_setpos r : r_bysetpos r <> Some [] -> from_ent (o_bysetpos (record r)) = r_bysetpos r.
Proof.
  intros H. unfold record. destruct (r_isdate r); cbn [o_bysetpos];
    (destruct (r_bysetpos r) as [[|x t]|]; [congruence | reflexivity | reflexivity]).
Qed.

Lemma K_month r :
  v_set (from_ent (o_bymonth (record r))) = v_set (r_bymonth r) /\
  is_none (from_ent (o_bymonth (record r))) = is_none (r_bymonth r).
Proof.
  unfold record. destruct (r_isdate r); cbn [o_bymonth]; fold (nodays r);
    (destruct (nodays r && (r_freq r =? YEARLY) && is_none (r_bymonth r)) eqn:E;
     [ apply andb_true_iff in E; destruct E as [_ E]; destruct (r_bymonth r); [discriminate | split; reflexivity]
     | apply (given_view _ sort_set sort_set_idem) ]).
Qed.

Lemma K_yearday r :
  v_set (from_ent (o_byyearday (record r))) = v_set (r_byyearday r) /\
  is_none (from_ent (o_byyearday (record r))) = is_none (r_byyearday r).
Proof. unfold record. destruct (r_isdate r); cbn [o_byyearday]; apply (given_view _ sort_set sort_set_idem). Qed.

Lemma K_weekno r :
  v_set (from_ent (o_byweekno (record r))) = v_set (r_byweekno r) /\
  is_none (from_ent (o_byweekno (record r))) = is_none (r_byweekno r).
Proof. unfold record. destruct (r_isdate r); cbn [o_byweekno]; apply (given_view _ sort_set sort_set_idem). Qed.

Lemma K_easter r :
  v_easter (from_ent (o_byeaster (record r))) = v_easter (r_byeaster r) /\
  is_none (from_ent (o_byeaster (record r))) = is_none (r_byeaster r).
Proof. unfold record. destruct (r_isdate r); cbn [o_byeaster]; apply (given_view _ sortZ sortZ_idem). Qed.

Lemma md_split l :
  let md := sort_set l in
  let P := filter (fun x => 0 <? x) md in
  let Q := filter (fun x => x <? 0) md in
  let md' := sort_set (P ++ Q) in
  filter (fun x => 0 <? x) md' = P /\ filter (fun x => x <? 0) md' = Q.
Proof.
  cbv zeta. split; apply sorted_ext;
    try (apply filter_ssorted, sort_set_sorted); intros x;
    rewrite !filter_In, In_sort_set, in_app_iff, !filter_In, In_sort_set.
  - split; [intros [[[H1 H2]|[H1 H2]] H3]; [tauto|] | tauto].
    apply Z.ltb_lt in H2. apply Z.ltb_lt in H3. lia.
  - split; [intros [[[H1 H2]|[H1 H2]] H3]; [|tauto] | tauto].
    apply Z.ltb_lt in H2. apply Z.ltb_lt in H3. lia.
Qed.

Lemma K_md r :
  v_md (from_ent (o_bymonthday (record r))) = v_md (r_bymonthday r) /\
  is_none (from_ent (o_bymonthday (record r))) = is_none (r_bymonthday r).
Proof.
  unfold record. destruct (r_isdate r); cbn [o_bymonthday]; fold (nodays r);
    (destruct (nodays r && ((r_freq r =? YEARLY) || (r_freq r =? MONTHLY))) eqn:E;
     [ apply andb_true_iff in E; destruct E as [E _]; unfold nodays in E;
       repeat (apply andb_true_iff in E; destruct E as [E ?]);
       destruct (r_bymonthday r); [discriminate | split; reflexivity]
     | destruct (r_bymonthday r) as [l|]; [|split; reflexivity];
       cbn [given from_ent is_none]; split; [|reflexivity];
       unfold v_md; cbn [opt_list]; destruct (md_split l) as [H1 H2]; cbv zeta in H1, H2;
       rewrite H1, H2; reflexivity ]).
Qed.

(* ---- the time-of-day BY-part at the rule's own level *)

Definition keep (itv start base num : Z) : bool :=
  (0 <=? num) && (num <? base) && (let g := Z.gcd itv base in (g =? 1) || ((num - start) mod g =? 0)).

Lemma construct_byset_eq itv start l base :
  construct_byset itv start l base =
  match filter (keep itv start base) l with [] => Err EValue | c => Ok c end.
Proof.
  unfold construct_byset, keep. cbv zeta.
  destruct (filter (fun num : Z => (0 <=? num) && (num <? base) &&
                                   ((Z.gcd itv base =? 1) || ((num - start) mod Z.gcd itv base =? 0))) l);
    reflexivity.
Qed.

Lemma CB_sort i s l b :
  (do c <- construct_byset i s (sort_set l) b; Ok (Some (sort_set c))) =
  (do c <- construct_byset i s l b; Ok (Some (sort_set c))).
Proof.
  rewrite !construct_byset_eq.
  destruct (filter (keep i s b) l) as [|y t] eqn:E.
  - rewrite (proj2 (filter_sort_set_nil _ _) E). reflexivity.
  - destruct (filter (keep i s b) (sort_set l)) as [|y' t'] eqn:E'.
    + pose proof (proj1 (filter_sort_set_nil _ _) E') as E2. rewrite E in E2. discriminate.
    + cbn [bind]. rewrite <- E', <- E, sort_set_filter. reflexivity.
Qed.

(* after fix 5b59678 the time-of-day parts are recorded as given (sorted set) *)
Lemma K_time o below' lvl' itv' start' base :
  v_time (from_ent (given o sort_set)) below' lvl' itv' start' base = v_time o below' lvl' itv' start' base /\
  is_none (from_ent (given o sort_set)) = is_none o.
Proof.
  destruct o as [l|]; [|split; reflexivity]. cbn [given from_ent]. split; [|reflexivity].
  cbn [v_time]. destruct lvl'; [apply CB_sort | rewrite sort_set_idem; reflexivity].
Qed.

(* ---- byweekday: plain weekdays are recorded without n, (weekday, n) pairs as they are *)

Definition wd_guard (r : raw) (fr' : Z) : Prop :=
  r_byweekday r = None \/ (MONTHLY <? r_freq r) = false \/ (MONTHLY <? fr') = true \/
  (forall l, r_byweekday r = Some l -> forall wn, In wn l -> snd wn = 0).

Lemma map_fst_tag (P : list Z) : map fst (map (fun w => (w, 0)) P) = P.
Proof. rewrite map_map. cbn [fst]. apply map_id. Qed.

Lemma In_tag wn (P : list Z) : In wn (map (fun w => (w, 0)) P) -> snd wn = 0.
Proof. intros H. apply in_map_iff in H. destruct H as (w & <- & _). reflexivity. Qed.

Lemma wd_recorded_view fr fr' l :
  ((MONTHLY <? fr) = false \/ (MONTHLY <? fr') = true \/ (forall wn, In wn l -> snd wn = 0)) ->
  let plain := map fst (filter (isplain fr) l) in
  let nth := filter (fun wn => negb (isplain fr wn)) l in
  let recd := map (fun w => (w, 0)) (sort_set plain) ++ sort_set_pair nth in
  sort_set (map fst (filter (isplain fr') recd)) = sort_set (map fst (filter (isplain fr') l)) /\
  sort_set_pair (filter (fun wn => negb (isplain fr' wn)) recd) =
  sort_set_pair (filter (fun wn => negb (isplain fr' wn)) l).
Proof.
  intros G plain nth recd.
  assert (Hnth : forall wn, In wn (sort_set_pair nth) -> In wn l /\ isplain fr wn = false).
  { intros wn H0. pose proof (proj1 (In_sort_set_pair _ _) H0) as H. unfold nth in H. apply filter_In in H. destruct H as [H1 H2].
    split; [exact H1|]. destruct (isplain fr wn); [discriminate | reflexivity]. }
  destruct (MONTHLY <? fr') eqn:B'.
  - (* every member is a plain weekday under the new freq *)
    assert (A1 : forall (m : list (Z * Z)), filter (isplain fr') m = m).
    { intros m. apply filter_all. intros x _. unfold isplain. rewrite B'. apply orb_true_r. }
    assert (A2 : forall (m : list (Z * Z)), filter (fun wn => negb (isplain fr' wn)) m = []).
    { intros m. apply filter_none. intros x _. unfold isplain. rewrite B', orb_true_r. reflexivity. }
    rewrite !A1, !A2. split; [|reflexivity].
    apply sorted_ext; try apply sort_set_sorted. intros x. rewrite !In_sort_set.
    unfold recd. rewrite map_app, map_fst_tag, in_app_iff, In_sort_set. unfold plain.
    rewrite !in_map_iff. split.
    + intros [(wn & E & H)|(wn & E & H)].
      * apply filter_In in H. exists wn. tauto.
      * apply Hnth in H. exists wn. tauto.
    + intros (wn & E & H). destruct (isplain fr wn) eqn:I.
      * left. exists wn. split; [exact E|]. apply filter_In. tauto.
      * right. exists wn. split; [exact E|]. apply In_sort_set_pair. unfold nth. apply filter_In.
        rewrite I. tauto.
  - (* n decides, as at construction *)
    assert (Iq : forall wn, isplain fr' wn = (snd wn =? 0)).
    { intros wn. unfold isplain. rewrite B'. apply orb_false_r. }
    assert (T1 : filter (isplain fr') (map (fun w => (w, 0)) (sort_set plain)) = map (fun w => (w, 0)) (sort_set plain)).
    { apply filter_all. intros wn H. rewrite Iq, (In_tag _ _ H). reflexivity. }
    assert (T2 : filter (fun wn => negb (isplain fr' wn)) (map (fun w => (w, 0)) (sort_set plain)) = []).
    { apply filter_none. intros wn H. rewrite Iq, (In_tag _ _ H). reflexivity. }
    destruct G as [B|[B|G]]; [|discriminate|].
    + (* the rule's own freq also went by n *)
      assert (Ip : forall wn, isplain fr wn = (snd wn =? 0)).
      { intros wn. unfold isplain. rewrite B. apply orb_false_r. }
      assert (N1 : filter (isplain fr') (sort_set_pair nth) = []).
      { apply filter_none. intros wn H. destruct (Hnth _ H) as [_ H2]. rewrite Iq, <- Ip. exact H2. }
      assert (N2 : filter (fun wn => negb (isplain fr' wn)) (sort_set_pair nth) = sort_set_pair nth).
      { apply filter_all. intros wn H. destruct (Hnth _ H) as [_ H2]. rewrite Iq, <- Ip, H2. reflexivity. }
      unfold recd. rewrite !filter_app, T1, T2, N1, N2, app_nil_r, app_nil_l, map_fst_tag.
      rewrite sort_set_idem, sort_set_pair_idem. unfold plain, nth. split.
      * f_equal. f_equal. apply filter_ext. intros wn. rewrite Ip, Iq. reflexivity.
      * f_equal. apply filter_ext. intros wn. rewrite Ip, Iq. reflexivity.
    + (* no member carries an n *)
      assert (L1 : filter (isplain fr') l = l).
      { apply filter_all. intros wn H. rewrite Iq, (G _ H). reflexivity. }
      assert (L2 : filter (fun wn => negb (isplain fr' wn)) l = []).
      { apply filter_none. intros wn H. rewrite Iq, (G _ H). reflexivity. }
      assert (P1 : filter (isplain fr) l = l).
      { apply filter_all. intros wn H. unfold isplain. rewrite (G _ H). reflexivity. }
      assert (P2 : nth = []).
      { unfold nth. apply filter_none. intros wn H. unfold isplain. rewrite (G _ H). reflexivity. }
      unfold recd. rewrite P2. change (sort_set_pair []) with (@nil (Z * Z)). rewrite app_nil_r, T1, T2, L1, L2.
      rewrite map_fst_tag, sort_set_idem. unfold plain. rewrite P1. split; reflexivity.
Qed.

Lemma K_wd r fr' : wd_guard r fr' ->
  v_wd fr' (from_ent (o_byweekday (record r))) = v_wd fr' (r_byweekday r) /\
  is_none (from_ent (o_byweekday (record r))) = is_none (r_byweekday r).
Proof.
  intros G. unfold wd_guard in G. unfold record. destruct (r_isdate r); cbn [o_byweekday]; fold (nodays r);
    (destruct (nodays r && (r_freq r =? WEEKLY)) eqn:E;
     [ apply andb_true_iff in E; destruct E as [E _]; unfold nodays in E;
       repeat (apply andb_true_iff in E; destruct E as [E ?]);
       destruct (r_byweekday r); [discriminate | split; reflexivity]
     | destruct (r_byweekday r) as [l|] eqn:El; [|split; reflexivity];
       cbn [given from_ent is_none]; split; [|reflexivity];
       assert (G' : (MONTHLY <? r_freq r) = false \/ (MONTHLY <? fr') = true \/ (forall wn, In wn l -> snd wn = 0))
         by (destruct G as [G|[G|[G|G]]]; [discriminate | tauto | tauto | right; right; apply (G l eq_refl)]);
       rewrite split_char; cbv iota beta;
       destruct (wd_recorded_view (r_freq r) fr' l G') as [H1 H2]; cbv zeta in H1, H2;
       unfold v_wd; rewrite !split_char; cbv iota beta zeta; rewrite H1, H2; reflexivity ]).
Qed.

(* ------------------------------------------------------------------------------------------ *)
(* the constructor cannot tell two argument records apart that it views the same way *)

Lemma normalize2_congr (a b : raw) :
  r_freq a = r_freq b -> r_interval a = r_interval b -> r_wkst a = r_wkst b -> r_count a = r_count b ->
  r_until a = r_until b -> r_tzmix a = r_tzmix b -> r_y a = r_y b -> r_m a = r_m b -> r_d a = r_d b ->
  (if r_isdate a then (0, 0, 0) else (r_H a, r_M a, r_S a)) =
  (if r_isdate b then (0, 0, 0) else (r_H b, r_M b, r_S b)) ->
  r_bysetpos a = r_bysetpos b ->
  is_none (r_byweekno a) = is_none (r_byweekno b) -> is_none (r_byyearday a) = is_none (r_byyearday b) ->
  is_none (r_bymonthday a) = is_none (r_bymonthday b) -> is_none (r_byweekday a) = is_none (r_byweekday b) ->
  is_none (r_byeaster a) = is_none (r_byeaster b) -> is_none (r_bymonth a) = is_none (r_bymonth b) ->
  v_set (r_bymonth a) = v_set (r_bymonth b) -> v_set (r_byyearday a) = v_set (r_byyearday b) ->
  v_easter (r_byeaster a) = v_easter (r_byeaster b) -> v_set (r_byweekno a) = v_set (r_byweekno b) ->
  v_md (r_bymonthday a) = v_md (r_bymonthday b) ->
  v_zero (r_bymonthday a) = v_zero (r_bymonthday b) ->
  v_wd (r_freq b) (r_byweekday a) = v_wd (r_freq b) (r_byweekday b) ->
  (forall bl lv i s, v_time (r_byhour a) bl lv i s 24 = v_time (r_byhour b) bl lv i s 24) ->
  (forall bl lv i s, v_time (r_byminute a) bl lv i s 60 = v_time (r_byminute b) bl lv i s 60) ->
  (forall bl lv i s, v_time (r_bysecond a) bl lv i s 60 = v_time (r_bysecond b) bl lv i s 60) ->
  normalize2 a = normalize2 b.
Proof.
  intros Hf Hi Hw Hc Hu Ht Hy Hm Hd Htr Hsp N1 N2 N3 N4 N5 N6 V1 V2 V3 V4 V5 Z0 V6 T1 T2 T3.
  unfold normalize2. rewrite Hf, Hi, Hw, Hc, Hu, Ht, Hy, Hm, Hd, Htr, Hsp, N1, N2, N3, N4, N5, N6.
  destruct (if r_isdate b then (0, 0, 0) else (r_H b, r_M b, r_S b)) as [[hh mm] ss].
  rewrite (ctx_if v_set _ _ V1), V2, V3, V4, (ctx_if v_md _ _ V5), (ctx_if v_zero _ _ Z0),
    (ctx_if (v_wd (r_freq b)) _ _ V6).
  rewrite T1, T2, T3. reflexivity.
Qed.

(* ------------------------------------------------------------------------------------------ *)
(* replace_only_named *)

(* the guard excludes exactly the open finding F-C12-replace-nth (an occurrence number on a weekday of a
   rule with freq > MONTHLY, and a new freq <= MONTHLY, byweekday itself not named) and the truthiness corner
   bysetpos=() (recorded as absent: None instead of ()), which is not a finding and is PROVED separately at the
   end of this file: replace_setpos_empty + normalize_setpos_empty *)
Definition replace_guard (r : raw) (u : upd) : Prop :=
  (u_bysetpos u <> None \/ r_bysetpos r <> Some []) /\
  (u_byweekday u <> None \/ wd_guard r (ov (u_freq u) (r_freq r))) /\
  (* the ORIGINAL rule exists: since fix 55654b4 the constructor rejects bymonthday containing 0 (the recording
     drops a 0, so without this the rebuilt rule would be accepted where the original arguments are not);
     constructible_no_zero: every r that normalize accepts satisfies it *)
  (u_bymonthday u <> None \/ v_zero (r_bymonthday r) = false).

Lemma memZ_app x l1 l2 : memZ x (l1 ++ l2) = memZ x l1 || memZ x l2.
Proof. unfold memZ. apply existsb_app. Qed.

Lemma memZ_filter_false x (f : Z -> bool) l : f x = false -> memZ x (filter f l) = false.
Proof.
  intros H. unfold memZ. induction l as [|y t IH]; [reflexivity|]. cbn [filter].
  destruct (f y) eqn:E; [|exact IH]. cbn [existsb]. rewrite IH.
  destruct (x =? y) eqn:E2; [|reflexivity]. apply Z.eqb_eq in E2. subst y. congruence.
Qed.

(* the recorded bymonthday never contains 0 *)
Lemma K_md0 r : v_zero (from_ent (o_bymonthday (record r))) = false.
Proof.
  unfold record. destruct (r_isdate r); cbn [o_bymonthday];
    (match goal with |- context [if ?c then RNone else _] => destruct c end; [reflexivity|];
     destruct (r_bymonthday r) as [l|]; [|reflexivity]; cbn [given from_ent]; unfold v_zero; cbn [opt_list];
     rewrite memZ_app, !memZ_filter_false by reflexivity; reflexivity).
Qed.

Lemma ov_some {A : Type} (u : option A) (a b : A) : u <> None -> ov u a = ov u b.
Proof. destruct u; [reflexivity | congruence]. Qed.

Lemma record_time r :
  o_byhour (record r) = given (r_byhour r) sort_set /\ o_byminute (record r) = given (r_byminute r) sort_set /\
  o_bysecond (record r) = given (r_bysecond r) sort_set.
Proof. unfold record. destruct (r_isdate r); cbn [o_byhour o_byminute o_bysecond]; repeat split. Qed.

Theorem replace_only_named : forall r u, replace_guard r u -> replace r u = replace_spec r u.
Proof.
  intros r u (Gs & Gw & Gz). unfold replace, replace_spec, replace_raw. rewrite !normalize2_eq.
  assert (HZ : v_zero (ov (u_bymonthday u) (from_ent (o_bymonthday (record r)))) =
               v_zero (ov (u_bymonthday u) (r_bymonthday r))).
  { destruct (u_bymonthday u) as [v|]; [reflexivity|]. destruct Gz as [Gz|Gz]; [congruence|].
    cbn [ov]. rewrite K_md0, Gz. reflexivity. }
  pose proof (K_month r) as [M1 M2]. pose proof (K_yearday r) as [Y1 Y2].
  pose proof (K_weekno r) as [W1 W2]. pose proof (K_easter r) as [E1 E2]. pose proof (K_md r) as [D1 D2].
  assert (HW : v_wd (ov (u_freq u) (r_freq r)) (ov (u_byweekday u) (from_ent (o_byweekday (record r)))) =
               v_wd (ov (u_freq u) (r_freq r)) (ov (u_byweekday u) (r_byweekday r)) /\
               is_none (ov (u_byweekday u) (from_ent (o_byweekday (record r)))) =
               is_none (ov (u_byweekday u) (r_byweekday r))).
  { destruct (u_byweekday u) as [v|]; [split; reflexivity|]. destruct Gw as [Gw|Gw]; [congruence|].
    apply K_wd. exact Gw. }
  assert (HS : ov (u_bysetpos u) (from_ent (o_bysetpos (record r))) = ov (u_bysetpos u) (r_bysetpos r)).
  { destruct (u_bysetpos u) as [v|]; [reflexivity|]. destruct Gs as [Gs|Gs]; [congruence|].
    cbn [ov]. apply K_setpos. exact Gs. }
  assert (HT : forall o bl lv i s base,
             v_time (ov o (from_ent (given (r_byhour r) sort_set))) bl lv i s base = v_time (ov o (r_byhour r)) bl lv i s base).
  { intros o bl lv i s base. destruct o; [reflexivity|]. apply K_time. }
  assert (HT2 : forall o bl lv i s base,
             v_time (ov o (from_ent (given (r_byminute r) sort_set))) bl lv i s base = v_time (ov o (r_byminute r)) bl lv i s base).
  { intros o bl lv i s base. destruct o; [reflexivity|]. apply K_time. }
  assert (HT3 : forall o bl lv i s base,
             v_time (ov o (from_ent (given (r_bysecond r) sort_set))) bl lv i s base = v_time (ov o (r_bysecond r)) bl lv i s base).
  { intros o bl lv i s base. destruct o; [reflexivity|]. apply K_time. }
  destruct HW as [HW1 HW2]. destruct (record_time r) as (Rh & Rm & Rs).
  unfold apply_upd, rebuild. rewrite Rh, Rm, Rs.
  destruct (r_isdate r) eqn:Ei;
  destruct (u_dtstart u) as [[[isd [[y m] d]] [[hh mm] ss]]|]; cbn [ov];
    (apply normalize2_congr; cbn [r_freq r_interval r_wkst r_count r_until r_tzmix r_y r_m r_d r_isdate r_H r_M r_S
                                   r_bysetpos r_bymonth r_bymonthday r_byyearday r_byeaster r_byweekno r_byweekday
                                   r_byhour r_byminute r_bysecond];
     try reflexivity; try assumption;
     try (apply (ov_congr is_none); assumption);
     try (apply (ov_congr v_set); assumption);
     try (apply (ov_congr v_easter); assumption);
     try (apply (ov_congr v_md); assumption);
     try exact HZ;
     try (intros; apply HT); try (intros; apply HT2); try (intros; apply HT3)).
Qed.

(* ---- the guard is needed, and it is satisfiable: F-C12-replace-nth as a witness, and a YEARLY rule with
   an explicit bymonth whose dtstart-derived day follows the new dtstart (the class of seeded change C12-2) *)

Definition mk_raw0 (fr : Z) (bymonth : option (list Z)) (byweekday : option (list (Z * Z))) : raw :=
  mkRaw fr false 1997 9 2 9 0 0 1 0 (Some 3) None false None bymonth None None None None byweekday None None None.

Definition upd0 : upd :=
  mkUpd None None None None None None None None None None None None None None None None None.

Definition upd_freq (f : Z) : upd :=
  mkUpd (Some f) None None None None None None None None None None None None None None None None.

Definition upd_dtstart (y m d : Z) : upd :=
  mkUpd None (Some (false, (y, m, d), (9, 0, 0))) None None None None None None None None None None None None None None None.

Lemma replace_nth_refuted :
  replace (mk_raw0 WEEKLY None (Some [(0, 1)])) (upd_freq MONTHLY) <>
  replace_spec (mk_raw0 WEEKLY None (Some [(0, 1)])) (upd_freq MONTHLY).
Proof. vm_compute. discriminate. Qed.

Example replace_guard_example :
  replace_guard (mk_raw0 YEARLY (Some [1; 3]) None) (upd_dtstart 1997 9 15) /\
  replace (mk_raw0 YEARLY (Some [1; 3]) None) (upd_dtstart 1997 9 15) =
  replace_spec (mk_raw0 YEARLY (Some [1; 3]) None) (upd_dtstart 1997 9 15) /\
  (exists ru, replace (mk_raw0 YEARLY (Some [1; 3]) None) (upd_dtstart 1997 9 15) = Ok ru /\ bymonthday ru = [15]).
Proof.
  split; [|split].
  - split; [right; discriminate | split; [right; left; reflexivity | right; reflexivity]].
  - reflexivity.
  - eexists. split; [vm_compute; reflexivity | reflexivity].
Qed.

(* ------------------------------------------------------------------------------------------ *)
(* the bysetpos=() corner of replace_guard, PROVED instead of excluded.
   A rule built with bysetpos=() records nothing (`if bysetpos:` is false, rrule.py 504), so replace() re-runs
   the constructor with bysetpos omitted: the result is EXACTLY the rule built from the original arguments with
   bysetpos omitted and the named ones changed (replace_setpos_empty), and that rule differs from the one the
   property demands in the single attribute `_bysetpos` (None instead of ()), errors included
   (normalize_setpos_empty).  rr/RRIter.v reads `bysetpos` only through `truthy` (346, 382: `if bysetpos and
   timeset`, `if freq == WEEKLY and bysetpos`-style tests), and truthy None = truthy (Some []) = false; the
   occurrences are compared by the replace stream (base rule with bysetpos=()). *)
Definition clear_setpos (r : raw) : raw :=
  mkRaw (r_freq r) (r_isdate r) (r_y r) (r_m r) (r_d r) (r_H r) (r_M r) (r_S r) (r_interval r) (r_wkst r)
        (r_count r) (r_until r) (r_tzmix r) None (r_bymonth r) (r_bymonthday r) (r_byyearday r) (r_byeaster r)
        (r_byweekno r) (r_byweekday r) (r_byhour r) (r_byminute r) (r_bysecond r).

Definition rule_clear_setpos (ru : rule) : rule :=
  mkRule (freq ru) (interval ru) (wkst ru) (count ru) (until ru) (s_y ru) (s_m ru) (s_d ru) (s_H ru) (s_M ru)
         (s_S ru) None (bymonth ru) (byyearday ru) (byeaster ru) (bymonthday ru) (bynmonthday ru) (byweekno ru)
         (byweekday ru) (bynweekday ru) (byhour ru) (byminute ru) (bysecond ru) (timeset ru).

Lemma rebuild_setpos_empty : forall r, r_bysetpos r = Some [] -> rebuild r = rebuild (clear_setpos r).
Proof. intros r H. unfold rebuild, record, clear_setpos. rewrite H. reflexivity. Qed.

Lemma wd_guard_clear : forall r f, wd_guard r f -> wd_guard (clear_setpos r) f.
Proof. intros r f H. exact H. Qed.

Lemma apply_upd_clear : forall r u, u_bysetpos u = None ->
  apply_upd (clear_setpos r) u = clear_setpos (apply_upd r u).
Proof.
  intros r u H. unfold apply_upd, clear_setpos. cbn [r_freq r_isdate r_y r_m r_d r_H r_M r_S r_interval r_wkst
    r_count r_until r_tzmix r_bysetpos r_bymonth r_bymonthday r_byyearday r_byeaster r_byweekno r_byweekday
    r_byhour r_byminute r_bysecond]. rewrite H.
  destruct (ov (u_dtstart u) (r_isdate r, (r_y r, r_m r, r_d r), (r_H r, r_M r, r_S r))) as [[isd [[y m] d]] [[hh mm] ss]].
  reflexivity.
Qed.

Theorem replace_setpos_empty : forall r u,
  r_bysetpos r = Some [] -> u_bysetpos u = None ->
  (u_byweekday u <> None \/ wd_guard r (ov (u_freq u) (r_freq r))) ->
  (u_bymonthday u <> None \/ v_zero (r_bymonthday r) = false) ->
  replace r u = replace_spec (clear_setpos r) u.
Proof.
  intros r u Hs Hu Gw Gz. unfold replace, replace_raw. rewrite (rebuild_setpos_empty r Hs).
  apply (replace_only_named (clear_setpos r) u). split; [|split].
  - right. cbn. discriminate.
  - destruct Gw as [Gw|Gw]; [left; exact Gw | right; exact Gw].
  - exact Gz.
Qed.

Theorem normalize_setpos_empty : forall x, r_bysetpos x = Some [] ->
  normalize (clear_setpos x) =
  match normalize x with Ok ru => Ok (rule_clear_setpos ru) | Err e => Err e end.
Proof.
  intros x H. rewrite (normalize2_eq x), (normalize2_eq (clear_setpos x)).
  destruct x as [fr isd y m d hh0 mm0 ss0 itv wk cnt unt tzm sp bm bmd byd be bwn bwd bh bmi bs].
  cbn [r_bysetpos] in H. subst sp. unfold normalize2, clear_setpos.
  cbn [r_freq r_isdate r_y r_m r_d r_H r_M r_S r_interval r_wkst r_count r_until r_tzmix r_bysetpos r_bymonth
       r_bymonthday r_byyearday r_byeaster r_byweekno r_byweekday r_byhour r_byminute r_bysecond].
  cbn [v_setpos_ok setpos_ok forallb negb].
  destruct (if isd then (0, 0, 0) else (hh0, mm0, ss0)) as [[hh mm] ss].
  destruct (negb (is_none unt) && tzm); [reflexivity|].
  match goal with |- context [v_wd ?a ?b] => destruct (v_wd a b) as [w1 w2] end.
  match goal with |- context [v_zero ?x] => destruct (v_zero x) end; [reflexivity|].
  unfold bind.
  repeat match goal with |- context [match ?e with Ok _ => _ | Err _ => _ end] =>
    lazymatch e with
    | match _ with _ => _ end => fail
    | _ => destruct e; try reflexivity
    end end.
  all: destruct (HOURLY <=? fr); reflexivity.
Qed.

Theorem replace_setpos_corner : forall r u,
  r_bysetpos r = Some [] -> u_bysetpos u = None ->
  (u_byweekday u <> None \/ wd_guard r (ov (u_freq u) (r_freq r))) ->
  (u_bymonthday u <> None \/ v_zero (r_bymonthday r) = false) ->
  replace r u = replace_spec (clear_setpos r) u /\
  apply_upd (clear_setpos r) u = clear_setpos (apply_upd r u).
Proof.
  intros r u Hs Hu Gw Gz. split; [exact (replace_setpos_empty r u Hs Hu Gw Gz) | exact (apply_upd_clear r u Hu)].
Qed.

(* non-vacuity: rrule(WEEKLY, bysetpos=(), byweekday=(MO,WE)).replace(interval=2) *)
Example replace_setpos_example :
  let r := mkRaw WEEKLY false 1997 9 2 9 0 0 1 0 (Some 3) None false (Some []) None None None None None
                 (Some [(0, 0); (2, 0)]) None None None in
  let u := mkUpd None None (Some 2) None None None None None None None None None None None None None None in
  (exists ru, replace r u = Ok ru /\ bysetpos ru = None /\ interval ru = 2) /\
  (exists ru', replace_spec r u = Ok ru' /\ bysetpos ru' = Some []).
Proof. split; eexists; (split; [vm_compute; reflexivity|]); repeat split. Qed.

(* the third conjunct of replace_guard excludes no existing rule: the constructor rejects a bymonthday with 0 *)
Theorem constructible_no_zero : forall r ru, normalize r = Ok ru -> v_zero (r_bymonthday r) = false.
Proof.
  intros r ru H. rewrite normalize2_eq in H. unfold normalize2 in H.
  destruct (if r_isdate r then (0, 0, 0) else (r_H r, r_M r, r_S r)) as [[hh mm] ss].
  destruct (negb (is_none (r_until r)) && r_tzmix r); [discriminate|].
  destruct (negb (v_setpos_ok (r_bysetpos r))); [discriminate|].
  match type of H with context [v_wd ?a ?b] => destruct (v_wd a b) as [w1 w2] end.
  destruct (r_bymonthday r) as [l|] eqn:E; [|reflexivity].
  cbn [is_none] in H. rewrite !andb_false_r, !andb_false_l in H. cbn [andb] in H.
  destruct (v_zero (Some l)); [discriminate H | reflexivity].
Qed.
