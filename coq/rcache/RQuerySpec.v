(* C12 -- specification: every query is the list-level operation on L = list(rule).

   L[i], L[a:b:c] (Python list semantics incl. negative indices, None, steps; IndexError /
   ValueError), membership, length, first / last element of a filter, sublist by a filter,
   first n of a filter.  Written with filter / hd / last / firstn only -- no early exits, no state. *)
From Coq Require Import ZArith List Bool.
From V Require Import rcache.PyList rcache.RCacheModel rcache.RQueryModel.
Import ListNotations.
Open Scope Z_scope.

(* strictly increasing, the shape of every recurrence sequence (C01 / C10) *)
Fixpoint incr_from (lo : Z) (l : list Z) : Prop :=
  match l with
  | [] => True
  | x :: r => lo < x /\ incr_from x r
  end.
Definition incr (l : list Z) : Prop :=
  match l with [] => True | x :: r => incr_from x r end.

Fixpoint incrb_from (lo : Z) (l : list Z) : bool :=
  match l with
  | [] => true
  | x :: r => (lo <? x) && incrb_from x r
  end.
Definition incrb (l : list Z) : bool :=
  match l with [] => true | x :: r => incrb_from x r end.

Definition spec_getitem (l : list Z) (it : item) : qres := py_getitem l it.

Definition spec_contains (l : list Z) (x : Z) : bool := existsb (Z.eqb x) l.

Definition spec_count (l : list Z) : Z := zlen l.

(* y is after dt / before dt, (non-)strictly *)
Definition is_after (dt : Z) (inc : bool) (y : Z) : bool := if inc then dt <=? y else dt <? y.
Definition is_before (dt : Z) (inc : bool) (y : Z) : bool := if inc then y <=? dt else y <? dt.

Definition spec_after (l : list Z) (dt : Z) (inc : bool) : qres :=
  of_opt (hd_error (filter (is_after dt inc) l)).

Definition spec_before (l : list Z) (dt : Z) (inc : bool) : qres :=
  of_opt (last_opt (filter (is_before dt inc) l)).

Definition spec_between (l : list Z) (a b : Z) (inc : bool) : qres :=
  QList (filter (fun y => is_after a inc y && is_before b inc y) l).

Definition spec_xafter (l : list Z) (dt : Z) (cnt : option Z) (inc : bool) : qres :=
  let f := filter (is_after dt inc) l in
  QList (match cnt with None => f | Some c => firstn (Z.to_nat c) f end).
