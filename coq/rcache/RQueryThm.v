(* C12 -- rrulebase query methods: the code paths of RQueryModel.v equal the list-level
   specification of RQuerySpec.v.

   Main results
     get_loop_correct, islice_correct, getitem_correct      (no sortedness needed)
     contains_loop_correct, contains_correct                (strictly increasing sequence)
     count_correct, after_correct, xafter_correct           (no sortedness needed)
     before_correct, between_correct                        (strictly increasing sequence)
     cached_path_eq_gen_path                                (cache fast path = generator path)
     incrb_sound, pinned examples, and refutation witnesses showing that the sortedness
     hypotheses cannot be dropped. *)
From Coq Require Import ZArith List Bool Lia ZifyBool.
From V Require Import rcache.PyList rcache.RCacheModel rcache.RQueryModel rcache.RQuerySpec.
Import ListNotations.
Open Scope Z_scope.
Ltac Zify.zify_post_hook ::= Z.to_euclidean_division_equations.

(* ------------------------------------------------------------------------------------------ *)
(* Small facts *)

Lemma zlen_nil : zlen [] = 0.
Proof. reflexivity. Qed.

Lemma zlen_cons : forall x r, zlen (x :: r) = zlen r + 1.
Proof. intros. unfold zlen. cbn [length]. rewrite Nat2Z.inj_succ. lia. Qed.

Lemma zlen_nonneg : forall l, 0 <= zlen l.
Proof. intros. unfold zlen. lia. Qed.

Lemma past_is_before : forall dt inc y, past dt inc y = negb (is_before dt inc y).
Proof.
  intros. unfold past, is_before. destruct inc.
  - apply Z.ltb_antisym.
  - apply Z.leb_antisym.
Qed.

Lemma reached_is_after : forall dt inc y, reached dt inc y = is_after dt inc y.
Proof. reflexivity. Qed.

Lemma is_before_mono : forall dt inc x y,
  is_before dt inc x = false -> x < y -> is_before dt inc y = false.
Proof. intros dt inc x y. unfold is_before. destruct inc; lia. Qed.

Lemma is_after_mono : forall dt inc x y,
  is_after dt inc x = true -> x < y -> is_after dt inc y = true.
Proof. intros dt inc x y. unfold is_after. destruct inc; lia. Qed.

Lemma last_opt_cons : forall x m,
  last_opt (x :: m) = match last_opt m with Some y => Some y | None => Some x end.
Proof.
  intros. unfold last_opt. cbn [rev]. destruct (rev m); reflexivity.
Qed.

Lemma last_opt_snoc : forall l x, last_opt (l ++ [x]) = Some x.
Proof. intros. unfold last_opt. rewrite rev_app_distr. reflexivity. Qed.

Lemma last_opt_cons_cons : forall x y r, last_opt (x :: y :: r) = last_opt (y :: r).
Proof.
  intros. rewrite (last_opt_cons x). rewrite (last_opt_cons y).
  destruct (last_opt r); reflexivity.
Qed.

Lemma incr_from_Forall : forall l lo, incr_from lo l -> Forall (fun y => lo < y) l.
Proof.
  induction l as [|x r IH]; intros lo H; cbn [incr_from] in H.
  - constructor.
  - destruct H as [H1 H2]. constructor; [exact H1|].
    apply IH in H2. eapply Forall_impl; [|exact H2]. cbv beta. intros. lia.
Qed.

Lemma incr_from_incr : forall l lo, incr_from lo l -> incr l.
Proof. destruct l; cbn [incr_from incr]; intros; tauto. Qed.

Lemma incr_tail : forall x r, incr (x :: r) -> incr r.
Proof. intros x r H. cbn [incr] in H. eapply incr_from_incr; exact H. Qed.

Lemma incr_head_lt : forall x r, incr (x :: r) -> Forall (fun y => x < y) r.
Proof. intros x r H. apply incr_from_Forall. exact H. Qed.

Lemma filter_nil_Forall : forall (f : Z -> bool) l,
  Forall (fun y => f y = false) l -> filter f l = [].
Proof.
  intros f l H. induction H as [|y r Hy Hr IH]; cbn [filter]; [reflexivity|].
  rewrite Hy. exact IH.
Qed.

Lemma filter_ext_Forall : forall (f g : Z -> bool) l,
  Forall (fun y => f y = g y) l -> filter f l = filter g l.
Proof.
  intros f g l H. induction H as [|y r Hy Hr IH]; cbn [filter]; [reflexivity|].
  rewrite Hy, IH. reflexivity.
Qed.

(* ------------------------------------------------------------------------------------------ *)
(* 1. rule[k], k >= 0 *)

Lemma py_index_cons_nonneg : forall x r k, 0 <= k ->
  py_index (x :: r) k = if k =? 0 then Some x else py_index r (k - 1).
Proof.
  intros x r k Hk. unfold py_index. rewrite zlen_cons.
  pose proof (zlen_nonneg r) as Hn.
  assert (E1 : (k <? 0) = false) by lia. rewrite E1.
  destruct (k =? 0) eqn:E0.
  - assert (k = 0) by lia. subst k.
    assert (E2 : (0 <=? 0) && (0 <? zlen r + 1) = true) by lia. rewrite E2. reflexivity.
  - assert (E3 : (k - 1 <? 0) = false) by lia. rewrite E3.
    assert (E4 : (0 <=? k) && (k <? zlen r + 1) = (0 <=? k - 1) && (k - 1 <? zlen r)) by lia.
    rewrite E4.
    replace (Z.to_nat k) with (S (Z.to_nat (k - 1))) by lia.
    reflexivity.
Qed.

Lemma py_index_nil : forall k, py_index [] k = None.
Proof.
  intros. unfold py_index. rewrite zlen_nil.
  destruct (k <? 0) eqn:E.
  - assert (E2 : (0 <=? k + 0) && (k + 0 <? 0) = false) by lia. rewrite E2. reflexivity.
  - assert (E2 : (0 <=? k) && (k <? 0) = false) by lia. rewrite E2. reflexivity.
Qed.

Theorem get_loop_correct : forall l k, 0 <= k -> get_loop l k = of_index (py_index l k).
Proof.
  induction l as [|x r IH]; intros k Hk.
  - rewrite py_index_nil. reflexivity.
  - cbn [get_loop]. rewrite py_index_cons_nonneg by exact Hk.
    destruct (k =? 0) eqn:E0; [reflexivity|].
    apply IH. lia.
Qed.

(* ------------------------------------------------------------------------------------------ *)
(* 4. x in rule *)

Lemma existsb_eqb_above : forall x r y, x <= y -> Forall (fun z => y < z) r ->
  existsb (Z.eqb x) r = false.
Proof.
  intros x r y Hxy H. induction H as [|z r Hz Hr IH]; cbn [existsb]; [reflexivity|].
  rewrite IH. assert (E : (x =? z) = false) by lia. rewrite E. reflexivity.
Qed.

Theorem contains_loop_correct : forall l x, incr l -> contains_loop x l = existsb (Z.eqb x) l.
Proof.
  induction l as [|y r IH]; intros x H.
  - reflexivity.
  - cbn [contains_loop existsb].
    destruct (y =? x) eqn:E1.
    + assert (E : (x =? y) = true) by lia. rewrite E. reflexivity.
    + assert (E : (x =? y) = false) by lia. rewrite E. cbn [orb].
      destruct (x <? y) eqn:E2.
      * symmetry. apply existsb_eqb_above with (y := y); [lia|].
        apply incr_head_lt. exact H.
      * apply IH. eapply incr_tail; exact H.
Qed.

Theorem contains_correct : forall complete l x, incr l -> contains complete l x = spec_contains l x.
Proof.
  intros complete l x H. unfold contains, spec_contains.
  destruct complete; [reflexivity|]. apply contains_loop_correct. exact H.
Qed.

(* ------------------------------------------------------------------------------------------ *)
(* 5. rule.count() *)

Theorem count_correct : forall l, count l = spec_count l.
Proof. reflexivity. Qed.

(* ------------------------------------------------------------------------------------------ *)
(* 6. rule.after(dt, inc) *)

Lemma after_loop_spec : forall l dt inc,
  after_loop dt inc l = hd_error (filter (is_after dt inc) l).
Proof.
  induction l as [|y r IH]; intros dt inc.
  - reflexivity.
  - cbn [after_loop filter]. rewrite reached_is_after.
    destruct (is_after dt inc y); [reflexivity|]. apply IH.
Qed.

Theorem after_correct : forall complete l dt inc, after complete l dt inc = spec_after l dt inc.
Proof. intros. unfold after, spec_after. rewrite after_loop_spec. reflexivity. Qed.

(* ------------------------------------------------------------------------------------------ *)
(* 7. rule.xafter(dt, count, inc) *)

Lemma xafter_loop_none : forall l dt inc n,
  xafter_loop dt None inc n l = filter (is_after dt inc) l.
Proof.
  induction l as [|d r IH]; intros dt inc n.
  - reflexivity.
  - cbn [xafter_loop filter]. rewrite reached_is_after.
    destruct (is_after dt inc d); rewrite IH; reflexivity.
Qed.

Lemma xafter_loop_some : forall l dt inc c n,
  xafter_loop dt (Some c) inc n l = firstn (Z.to_nat (c - n)) (filter (is_after dt inc) l).
Proof.
  induction l as [|d r IH]; intros dt inc c n.
  - rewrite firstn_nil. reflexivity.
  - cbn [xafter_loop filter]. rewrite reached_is_after.
    destruct (is_after dt inc d).
    + destruct (c <? n + 1) eqn:E.
      * replace (Z.to_nat (c - n)) with 0%nat by lia. reflexivity.
      * replace (Z.to_nat (c - n)) with (S (Z.to_nat (c - (n + 1)))) by lia.
        rewrite firstn_cons. rewrite IH. reflexivity.
    + apply IH.
Qed.

Theorem xafter_correct : forall complete l dt cnt inc,
  xafter complete l dt cnt inc = spec_xafter l dt cnt inc.
Proof.
  intros. unfold xafter, spec_xafter. destruct cnt as [c|].
  - rewrite xafter_loop_some. rewrite Z.sub_0_r. reflexivity.
  - rewrite xafter_loop_none. reflexivity.
Qed.

(* ------------------------------------------------------------------------------------------ *)
(* 8. rule.before(dt, inc) *)

Lemma filter_before_nil_above : forall dt inc x r,
  is_before dt inc x = false -> Forall (fun y => x < y) r -> filter (is_before dt inc) r = [].
Proof.
  intros dt inc x r Hx Hr. apply filter_nil_Forall.
  eapply Forall_impl; [|exact Hr]. cbv beta. intros y Hy.
  eapply is_before_mono; eauto.
Qed.

Lemma before_loop_spec : forall l dt inc lst, incr l ->
  before_loop dt inc lst l =
  match last_opt (filter (is_before dt inc) l) with Some y => Some y | None => lst end.
Proof.
  induction l as [|x r IH]; intros dt inc lst H.
  - reflexivity.
  - cbn [before_loop filter]. rewrite past_is_before.
    destruct (is_before dt inc x) eqn:E; cbn [negb].
    + rewrite IH by (eapply incr_tail; exact H).
      rewrite last_opt_cons.
      destruct (last_opt (filter (is_before dt inc) r)); reflexivity.
    + rewrite (filter_before_nil_above dt inc x r E (incr_head_lt x r H)). reflexivity.
Qed.

Theorem before_correct : forall complete l dt inc, incr l ->
  before complete l dt inc = spec_before l dt inc.
Proof.
  intros complete l dt inc H. unfold before, spec_before.
  rewrite before_loop_spec by exact H.
  destruct (last_opt (filter (is_before dt inc) l)); reflexivity.
Qed.

(* ------------------------------------------------------------------------------------------ *)
(* 9. rule.between(a, b, inc) *)

Definition is_between (a b : Z) (inc : bool) (y : Z) : bool :=
  is_after a inc y && is_before b inc y.

Lemma between_loop_started : forall l a b inc, incr l ->
  between_loop a b inc true l = filter (is_before b inc) l.
Proof.
  induction l as [|x r IH]; intros a b inc H.
  - reflexivity.
  - cbn [between_loop filter]. rewrite past_is_before.
    destruct (is_before b inc x) eqn:E; cbn [negb].
    + rewrite IH by (eapply incr_tail; exact H). reflexivity.
    + rewrite (filter_before_nil_above b inc x r E (incr_head_lt x r H)). reflexivity.
Qed.

Lemma between_loop_spec : forall l a b inc, incr l ->
  between_loop a b inc false l = filter (is_between a b inc) l.
Proof.
  induction l as [|x r IH]; intros a b inc H.
  - reflexivity.
  - cbn [between_loop filter]. rewrite past_is_before. rewrite reached_is_after.
    unfold is_between at 1.
    pose proof (incr_head_lt x r H) as Hlt.
    destruct (is_before b inc x) eqn:E; cbn [negb].
    + destruct (is_after a inc x) eqn:Ea; cbn [andb].
      * rewrite between_loop_started by (eapply incr_tail; exact H).
        f_equal. apply filter_ext_Forall.
        eapply Forall_impl; [|exact Hlt]. cbv beta. intros y Hy.
        unfold is_between. rewrite (is_after_mono a inc x y Ea Hy). reflexivity.
      * apply IH. eapply incr_tail; exact H.
    + rewrite andb_false_r.
      symmetry. apply filter_nil_Forall.
      eapply Forall_impl; [|exact Hlt]. cbv beta. intros y Hy.
      unfold is_between. rewrite (is_before_mono b inc x y E Hy). apply andb_false_r.
Qed.

Theorem between_correct : forall complete l a b inc, incr l ->
  between complete l a b inc = spec_between l a b inc.
Proof.
  intros complete l a b inc H. unfold between, spec_between.
  rewrite between_loop_spec by exact H. reflexivity.
Qed.

(* ------------------------------------------------------------------------------------------ *)
(* 2. itertools.islice = list slicing, for None / non-negative arguments *)

(* the closed form used by py_slice: indices d, d+step, ... below e *)
Definition sl (l : list Z) (d e step : Z) : list Z :=
  map (fun k => nth (Z.to_nat (d + Z.of_nat k * step)) l 0)
      (seq 0 (Z.to_nat (slice_len d e step))).

Lemma slice_len_shift1 : forall d e step,
  slice_len (d - 1) (e - 1) step = slice_len d e step.
Proof.
  intros. unfold slice_len.
  replace (e - 1 - (d - 1) - 1) with (e - d - 1) by lia.
  replace (d - 1 - (e - 1) - 1) with (d - e - 1) by lia.
  assert (E1 : (d - 1 <? e - 1) = (d <? e)) by lia.
  assert (E2 : (e - 1 <? d - 1) = (e <? d)) by lia.
  rewrite E1, E2. reflexivity.
Qed.

Lemma slice_len_nil : forall d e step, 0 < step -> e <= d -> slice_len d e step = 0.
Proof.
  intros d e step Hs H. unfold slice_len.
  assert (E1 : (0 <? step) = true) by lia.
  assert (E2 : (d <? e) = false) by lia.
  rewrite E1, E2. reflexivity.
Qed.

Lemma slice_len_0 : forall m step, 0 < step -> 0 <= m -> slice_len 0 (m + 1) step = m / step + 1.
Proof.
  intros m step Hs Hm. unfold slice_len.
  assert (E1 : (0 <? step) = true) by lia.
  assert (E2 : (0 <? m + 1) = true) by lia.
  rewrite E1, E2. replace (m + 1 - 0 - 1) with m by lia. reflexivity.
Qed.

Lemma slice_len_step : forall m step, 0 < step -> 0 <= m -> slice_len (step - 1) m step = m / step.
Proof.
  intros m step Hs Hm. unfold slice_len.
  assert (E1 : (0 <? step) = true) by lia. rewrite E1.
  destruct (step - 1 <? m) eqn:E2.
  - replace (m - (step - 1) - 1) with (m - step) by lia.
    rewrite <- (Z.div_add (m - step) 1 step) by lia.
    f_equal. lia.
  - symmetry. apply Z.div_small. lia.
Qed.

Lemma sl_nil : forall l d e step, 0 < step -> e <= d -> sl l d e step = [].
Proof. intros. unfold sl. rewrite slice_len_nil by assumption. reflexivity. Qed.

Lemma sl_skip : forall x r d e step, 0 < step -> 1 <= d ->
  sl (x :: r) d e step = sl r (d - 1) (e - 1) step.
Proof.
  intros x r d e step Hs Hd. unfold sl. rewrite slice_len_shift1.
  apply map_ext. intros k.
  assert (0 <= Z.of_nat k * step) by (apply Z.mul_nonneg_nonneg; lia).
  replace (Z.to_nat (d + Z.of_nat k * step)) with (S (Z.to_nat (d - 1 + Z.of_nat k * step))) by lia.
  reflexivity.
Qed.

Lemma sl_take : forall x r e step, 0 < step -> 1 <= e ->
  sl (x :: r) 0 e step = x :: sl r (step - 1) (e - 1) step.
Proof.
  intros x r e step Hs He. unfold sl.
  replace e with ((e - 1) + 1) at 1 by lia.
  rewrite slice_len_0 by lia. rewrite slice_len_step by lia.
  assert (Hq : 0 <= (e - 1) / step) by (apply Z.div_pos; lia).
  replace (Z.to_nat ((e - 1) / step + 1)) with (S (Z.to_nat ((e - 1) / step)))
    by (generalize dependent ((e - 1) / step); intros; lia).
  rewrite <- cons_seq. rewrite <- seq_shift. rewrite map_cons. rewrite map_map.
  f_equal.
  apply map_ext. intros k.
  assert (0 <= Z.of_nat k * step) by (apply Z.mul_nonneg_nonneg; lia).
  replace (Z.to_nat (0 + Z.of_nat (S k) * step))
    with (S (Z.to_nat (step - 1 + Z.of_nat k * step)))
    by (rewrite Nat2Z.inj_succ, Z.mul_succ_l; lia).
  reflexivity.
Qed.

Lemma sl_one : forall x r e step, 0 < step -> 1 <= e -> e <= step -> sl (x :: r) 0 e step = [x].
Proof.
  intros x r e step Hs H1 H2. rewrite sl_take by assumption.
  rewrite sl_nil by lia. reflexivity.
Qed.

Lemma sl_clamp : forall l d e step, 0 < step -> e <= zlen l ->
  sl l d e step = sl l (Z.min (zlen l) d) e step.
Proof.
  intros l d e step Hs He.
  destruct (Z.min_spec (zlen l) d) as [[H1 H2]|[H1 H2]]; rewrite H2.
  - rewrite !sl_nil by lia. reflexivity.
  - reflexivity.
Qed.

Lemma islice_go_none : forall l cnt next step, 0 < step -> cnt <= next ->
  islice_go l cnt next None step = sl l (next - cnt) (zlen l) step.
Proof.
  induction l as [|x r IH]; intros cnt next step Hs H.
  - cbn [islice_go]. symmetry. apply sl_nil; [exact Hs|]. rewrite zlen_nil. lia.
  - cbn [islice_go]. rewrite zlen_cons. pose proof (zlen_nonneg r) as Hn.
    destruct (cnt <? next) eqn:E.
    + rewrite IH by lia. rewrite sl_skip by lia. f_equal; lia.
    + assert (next = cnt) by lia. subst next.
      rewrite IH by lia. replace (cnt - cnt) with 0 by lia.
      rewrite sl_take by lia. f_equal. f_equal; lia.
Qed.

Lemma islice_go_stop_nil : forall l cnt next s step, s <= next -> cnt <= next ->
  islice_go l cnt next (Some s) step = [].
Proof.
  induction l as [|x r IH]; intros cnt next s step H1 H2.
  - reflexivity.
  - cbn [islice_go]. destruct (cnt <? next) eqn:E.
    + apply IH; lia.
    + assert (E2 : (s <=? cnt) = true) by lia. rewrite E2. reflexivity.
Qed.

Lemma islice_go_some : forall l cnt next s step, 0 < step -> cnt <= next ->
  islice_go l cnt next (Some s) step = sl l (next - cnt) (Z.min (zlen l) (s - cnt)) step.
Proof.
  induction l as [|x r IH]; intros cnt next s step Hs H.
  - cbn [islice_go]. symmetry. apply sl_nil; [exact Hs|]. rewrite zlen_nil. lia.
  - cbn [islice_go]. rewrite zlen_cons. pose proof (zlen_nonneg r) as Hn.
    destruct (cnt <? next) eqn:E.
    + rewrite IH by lia. rewrite sl_skip by lia. f_equal; lia.
    + assert (next = cnt) by lia. subst next.
      replace (cnt - cnt) with 0 by lia.
      destruct (s <=? cnt) eqn:E2.
      * symmetry. apply sl_nil; lia.
      * cbv zeta. destruct (s <? cnt + step) eqn:E3.
        -- rewrite islice_go_stop_nil by lia. symmetry. apply sl_one; lia.
        -- rewrite IH by lia. rewrite sl_take by lia. f_equal. f_equal; lia.
Qed.

Lemma adjust_nonneg : forall len step v, 0 < step -> 0 <= v -> adjust len step v = Z.min len v.
Proof.
  intros len step v Hs Hv. unfold adjust.
  assert (E1 : (v <? 0) = false) by lia.
  assert (E2 : (step <? 0) = false) by lia.
  rewrite E1, E2. destruct (len <=? v) eqn:E3; lia.
Qed.

Theorem islice_correct : forall l a b c,
  isneg a = false -> isneg b = false -> isneg c = false ->
  islice l a b c = py_slice l a b c.
Proof.
  intros l a b c Ha Hb Hc.
  unfold islice, py_slice, slice_indices.
  set (step := match c with None => 1 | Some s => s end).
  assert (Hs0 : 0 <= step) by (subst step; destruct c; cbn [isneg] in Hc; lia).
  destruct (step =? 0) eqn:E0; [reflexivity|].
  assert (Hs : 0 < step) by lia.
  assert (E1 : (step <? 0) = false) by lia.
  rewrite E1. cbv beta iota zeta.
  pose proof (zlen_nonneg l) as Hn.
  f_equal.
  destruct a as [va|]; destruct b as [vb|]; cbn [isneg] in Ha, Hb.
  - rewrite !adjust_nonneg by lia.
    rewrite islice_go_some by lia.
    rewrite sl_clamp by lia.
    unfold sl. rewrite !Z.sub_0_r. reflexivity.
  - rewrite !adjust_nonneg by lia.
    rewrite islice_go_none by lia.
    rewrite sl_clamp by lia.
    unfold sl. rewrite !Z.sub_0_r. reflexivity.
  - rewrite !adjust_nonneg by lia.
    rewrite islice_go_some by lia.
    unfold sl. rewrite !Z.sub_0_r. reflexivity.
  - rewrite islice_go_none by lia.
    unfold sl. rewrite !Z.sub_0_r. reflexivity.
Qed.

(* ------------------------------------------------------------------------------------------ *)
(* 3. rule[item] *)

Theorem getitem_correct : forall complete l it, getitem complete l it = spec_getitem l it.
Proof.
  intros complete l it. unfold getitem, spec_getitem.
  destruct complete; [reflexivity|].
  destruct it as [k|a b c].
  - destruct (0 <=? k) eqn:E; [|reflexivity].
    cbn [py_getitem]. apply get_loop_correct. lia.
  - destruct (isneg a || isneg b || isneg c) eqn:E; [reflexivity|].
    apply orb_false_elim in E. destruct E as [E Ec].
    apply orb_false_elim in E. destruct E as [Ea Eb].
    cbn [py_getitem]. rewrite islice_correct by assumption. reflexivity.
Qed.

(* ------------------------------------------------------------------------------------------ *)
(* 10. the `_cache_complete` fast path and the generator path agree *)

Theorem cached_path_eq_gen_path : forall l, incr l ->
  (forall it, getitem true l it = getitem false l it) /\
  (forall x, contains true l x = contains false l x) /\
  (forall dt inc, before true l dt inc = before false l dt inc) /\
  (forall dt inc, after true l dt inc = after false l dt inc) /\
  (forall a b inc, between true l a b inc = between false l a b inc) /\
  (forall dt c inc, xafter true l dt c inc = xafter false l dt c inc).
Proof.
  intros l H. repeat split; intros.
  - rewrite !getitem_correct. reflexivity.
  - rewrite !contains_correct by exact H. reflexivity.
Qed.

(* ------------------------------------------------------------------------------------------ *)
(* 11. decidable sortedness check, pinned examples *)

Lemma incrb_from_sound : forall l lo, incrb_from lo l = true -> incr_from lo l.
Proof.
  induction l as [|x r IH]; intros lo H; cbn [incrb_from incr_from] in *.
  - exact I.
  - apply andb_prop in H. destruct H as [H1 H2]. split; [lia|]. apply IH. exact H2.
Qed.

Theorem incrb_sound : forall l, incrb l = true -> incr l.
Proof.
  destruct l as [|x r]; cbn [incrb incr]; intros H.
  - exact I.
  - apply incrb_from_sound. exact H.
Qed.

Example incr_ex : incr [1; 3; 7].
Proof. apply incrb_sound. vm_compute. reflexivity. Qed.

Example slice_ex1 : py_slice [10;11;12;13;14] (Some (-3)) None None = Some [12;13;14].
Proof. vm_compute. reflexivity. Qed.
Example slice_ex2 : py_slice [10;11;12;13;14] None None (Some (-2)) = Some [14;12;10].
Proof. vm_compute. reflexivity. Qed.
Example slice_ex3 : py_slice [10;11;12;13;14] (Some 0) (Some 0) None = Some [].
Proof. vm_compute. reflexivity. Qed.
Example slice_ex4 : py_slice [10;11;12;13;14] (Some 1) (Some 100) (Some 2) = Some [11;13].
Proof. vm_compute. reflexivity. Qed.
Example slice_ex5 : py_slice [10;11;12;13;14] (Some 7) (Some 2) None = Some [].
Proof. vm_compute. reflexivity. Qed.
Example islice_ex1 : islice [10;11;12;13;14] (Some 1) (Some 100) (Some 2) = Some [11;13].
Proof. vm_compute. reflexivity. Qed.
Example islice_ex2 : islice [10;11;12;13;14] (Some 7) (Some 2) None = Some [].
Proof. vm_compute. reflexivity. Qed.
Example islice_ex3 : islice [10;11;12;13;14] None (Some 4) (Some 3) = Some [10;13].
Proof. vm_compute. reflexivity. Qed.
Example getitem_ex1 : getitem false [10;11;12] (ISlice (Some 0) (Some 0) None) = QList [].
Proof. vm_compute. reflexivity. Qed.
Example getitem_ex2 : getitem false [10;11;12] (IInt (-1)) = QVal 12.
Proof. vm_compute. reflexivity. Qed.
Example getitem_ex3 : getitem false [10;11;12] (IInt 3) = QIndexError.
Proof. vm_compute. reflexivity. Qed.
Example getitem_ex4 : getitem false [10;11;12] (ISlice None None (Some 0)) = QValueError.
Proof. vm_compute. reflexivity. Qed.
Example getitem_ex5 : getitem true [10;11;12] (ISlice None None (Some 0)) = QValueError.
Proof. vm_compute. reflexivity. Qed.
Example getitem_ex6 : getitem false [10;11;12] (IInt 1) = QVal 11.
Proof. vm_compute. reflexivity. Qed.
Example before_ex : before false [1;3;7] 7 false = QVal 3 /\ before false [1;3;7] 7 true = QVal 7
                    /\ before false [1;3;7] 1 false = QNone.
Proof. vm_compute. repeat split; reflexivity. Qed.
Example after_ex : after false [1;3;7] 3 false = QVal 7 /\ after false [1;3;7] 3 true = QVal 3
                   /\ after false [1;3;7] 7 false = QNone.
Proof. vm_compute. repeat split; reflexivity. Qed.
Example between_ex : between false [1;3;7;9] 1 7 false = QList [3]
                     /\ between false [1;3;7;9] 1 7 true = QList [1;3;7].
Proof. vm_compute. repeat split; reflexivity. Qed.
Example xafter_ex : xafter false [1;3;7;9] 1 (Some 2) false = QList [3;7]
                    /\ xafter false [1;3;7;9] 1 None true = QList [1;3;7;9]
                    /\ xafter false [1;3;7;9] 1 (Some 0) true = QList [].
Proof. vm_compute. repeat split; reflexivity. Qed.

(* ------------------------------------------------------------------------------------------ *)
(* 12. the sortedness hypotheses are needed: on an unsorted sequence the early-exit loops
       differ from the list-level specification *)

Theorem contains_needs_incr_refuted : exists l x, contains false l x <> spec_contains l x.
Proof. exists [3; 1], 1. vm_compute. discriminate. Qed.

Theorem before_needs_incr_refuted :
  exists l dt inc, before false l dt inc <> spec_before l dt inc.
Proof. exists [3; 1], 2, true. vm_compute. discriminate. Qed.

Theorem between_needs_incr_refuted :
  exists l a b inc, between false l a b inc <> spec_between l a b inc.
Proof. exists [5; 1], 0, 2, true. vm_compute. discriminate. Qed.
