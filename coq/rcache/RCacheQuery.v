(* C11 + C12 -- what a query returns under ANY interleaving with other iterators / queries on a cached
   rule is the list-level answer of C12's specification (for strictly increasing sequences). *)
From Coq Require Import ZArith List Bool Arith Lia.
From V Require Import rcache.PyList rcache.RCacheModel rcache.RCacheSpec rcache.RQueryModel
  rcache.RQuerySpec rcache.RQueryThm rcache.RCacheThm.
Import ListNotations.
Open Scope Z_scope.

(* the part of a sequence an early-exit consumer pulls: up to and including the first element at
   which it stops *)
Fixpoint cut (stop : Z -> bool) (l : list Z) : list Z :=
  match l with
  | [] => []
  | y :: r => if stop y then [y] else y :: cut stop r
  end.

Definition stop_wants (o : op) (stop : Z -> bool) : Prop :=
  forall seen, wants o seen = match last_opt seen with None => true | Some y => negb (stop y) end.

Lemma consume_cut : forall o stop, stop_wants o stop ->
  forall rest seen, wants o seen = true -> consume_from o seen rest = seen ++ cut stop rest.
Proof.
  intros o stop H. induction rest as [|y r IH]; intros seen W.
  - rewrite consume_from_nil, app_nil_r. reflexivity.
  - rewrite consume_from_step by exact W. cbn [cut]. destruct (stop y) eqn:E.
    + rewrite consume_from_stop; [reflexivity|]. rewrite H, last_opt_snoc, E. reflexivity.
    + rewrite IH by (rewrite H, last_opt_snoc, E; reflexivity). rewrite <- app_assoc. reflexivity.
Qed.

Lemma between_loop_cut : forall a b inc l st,
  between_loop a b inc st (cut (past b inc) l) = between_loop a b inc st l.
Proof.
  intros a b inc. induction l as [|y r IH]; intros st; [reflexivity|].
  cbn [cut]. destruct (past b inc y) eqn:E.
  - cbn [between_loop]. rewrite E. reflexivity.
  - cbn [between_loop]. rewrite E. destruct st; [rewrite IH; reflexivity|].
    destruct (reached a inc y); rewrite IH; reflexivity.
Qed.

Lemma before_loop_cut : forall x inc l lst,
  before_loop x inc lst (cut (past x inc) l) = before_loop x inc lst l.
Proof.
  intros x inc. induction l as [|y r IH]; intros lst; [reflexivity|].
  cbn [cut]. destruct (past x inc y) eqn:E; cbn [before_loop]; rewrite E; [reflexivity | apply IH].
Qed.

Lemma after_loop_cut : forall x inc l,
  after_loop x inc (cut (reached x inc) l) = after_loop x inc l.
Proof.
  intros x inc. induction l as [|y r IH]; [reflexivity|].
  cbn [cut]. destruct (reached x inc y) eqn:E; cbn [after_loop]; rewrite E; [reflexivity | apply IH].
Qed.

Lemma spec_between_loop : forall a b inc l,
  spec_result (OBetween a b inc) l = Ret (between_loop a b inc false l).
Proof.
  intros. cbn [spec_result]. unfold consume.
  rewrite (consume_cut _ (past b inc)) by (try reflexivity; intros seen; reflexivity).
  cbn [app result]. rewrite between_loop_cut. reflexivity.
Qed.

Lemma spec_before_loop : forall x inc l,
  spec_result (OBefore x inc) l = ret_opt (before_loop x inc None l).
Proof.
  intros. cbn [spec_result]. unfold consume.
  rewrite (consume_cut _ (past x inc)) by (try reflexivity; intros seen; reflexivity).
  cbn [app result]. rewrite before_loop_cut. reflexivity.
Qed.

Lemma spec_after_loop : forall x inc l,
  spec_result (OAfter x inc) l = ret_opt (after_loop x inc l).
Proof.
  intros. cbn [spec_result]. unfold consume.
  rewrite (consume_cut _ (reached x inc)) by (try reflexivity; intros seen; reflexivity).
  cbn [app result]. rewrite after_loop_cut. reflexivity.
Qed.

Lemma py_index_nat : forall l k, py_index l (Z.of_nat k) = nth_error l k.
Proof.
  intros l k. unfold py_index, zlen.
  destruct (Z.of_nat k <? 0) eqn:E; [apply Z.ltb_lt in E; lia|].
  destruct (0 <=? Z.of_nat k) eqn:E1; [|apply Z.leb_gt in E1; lia].
  destruct (Z.of_nat k <? Z.of_nat (length l)) eqn:E2; cbn [andb].
  - rewrite Nat2Z.id. reflexivity.
  - apply Z.ltb_ge in E2. symmetry. apply nth_error_None. lia.
Qed.

Lemma nth_error_rev : forall (l : list Z) k, (k < length l)%nat ->
  nth_error (rev l) k = nth_error l (length l - 1 - k).
Proof.
  induction l as [|x r IH]; intros k H; [cbn in H; lia|].
  cbn [rev length] in *. destruct (Nat.eq_dec k (length r)) as [->|Ne].
  - rewrite nth_error_app2 by (rewrite rev_length; lia). rewrite rev_length, Nat.sub_diag.
    replace (S (length r) - 1 - length r)%nat with O by lia. reflexivity.
  - rewrite nth_error_app1 by (rewrite rev_length; lia). rewrite IH by lia.
    replace (S (length r) - 1 - k)%nat with (S (length r - 1 - k)) by lia. reflexivity.
Qed.

(* L[-(k+1)] *)
Lemma py_index_neg : forall l k, py_index l (- Z.of_nat k - 1) = nth_error (rev l) k.
Proof.
  intros l k. unfold py_index, zlen.
  destruct (- Z.of_nat k - 1 <? 0) eqn:E; [|apply Z.ltb_ge in E; lia].
  destruct (Nat.lt_ge_cases k (length l)) as [H|H].
  - destruct (0 <=? - Z.of_nat k - 1 + Z.of_nat (length l)) eqn:E1; [|apply Z.leb_gt in E1; lia].
    destruct (- Z.of_nat k - 1 + Z.of_nat (length l) <? Z.of_nat (length l)) eqn:E2;
      [|apply Z.ltb_ge in E2; lia].
    cbn [andb]. rewrite nth_error_rev by exact H. f_equal. lia.
  - destruct (0 <=? - Z.of_nat k - 1 + Z.of_nat (length l)) eqn:E1; [apply Z.leb_le in E1; lia|].
    cbn [andb]. symmetry. apply nth_error_None. rewrite rev_length. lia.
Qed.

(* L[:k] *)
Lemma islice_go_step1 : forall l c s, c <= s ->
  islice_go l c c (Some s) 1 = firstn (Z.to_nat (s - c)) l.
Proof.
  induction l as [|x r IH]; intros c s H.
  - rewrite firstn_nil. reflexivity.
  - cbn [islice_go]. rewrite Z.ltb_irrefl. destruct (s <=? c) eqn:E.
    + apply Z.leb_le in E. replace (s - c) with 0 by lia. reflexivity.
    + apply Z.leb_gt in E. destruct (s <? c + 1) eqn:E2; [apply Z.ltb_lt in E2; lia|].
      rewrite IH by lia. replace (Z.to_nat (s - c)) with (S (Z.to_nat (s - (c + 1)))) by lia.
      reflexivity.
Qed.

Lemma py_slice_to : forall l k, py_slice l None (Some (Z.of_nat k)) None = Some (firstn k l).
Proof.
  intros l k. rewrite <- islice_correct;
    [| reflexivity | cbn [isneg]; apply Z.ltb_ge; lia | reflexivity].
  unfold islice. cbn [Z.eqb].
  rewrite islice_go_step1 by lia. rewrite Z.sub_0_r, Nat2Z.id. reflexivity.
Qed.

(* xafter: the consumer stops right after the (count+1)-th match; the first `count` matches of what it
   saw are the first `count` matches of the whole sequence *)
Lemma xafter_consume : forall x c inc rest seen,
  firstn (Z.to_nat c) (filter (reached x inc) (consume_from (OXafter x (Some c) inc) seen rest)) =
  firstn (Z.to_nat c) (filter (reached x inc) (seen ++ rest)).
Proof.
  intros x c inc. induction rest as [|y r IH]; intros seen.
  - rewrite consume_from_nil, app_nil_r. reflexivity.
  - destruct (wants (OXafter x (Some c) inc) seen) eqn:W.
    + rewrite consume_from_step by exact W. rewrite IH. rewrite <- app_assoc. reflexivity.
    + rewrite consume_from_stop by exact W. cbn [wants] in W. apply Z.leb_gt in W.
      rewrite filter_app. rewrite firstn_app.
      replace (Z.to_nat c - length (filter (reached x inc) seen))%nat with O by lia.
      cbn [firstn]. rewrite app_nil_r. reflexivity.
Qed.

Lemma xafter_consume_none : forall x inc l, consume (OXafter x None inc) l = l.
Proof. intros. unfold consume. rewrite consume_from_all by reflexivity. reflexivity. Qed.

(* C12's list-level reading of each operation *)
Definition op_list_spec (o : op) (l : list Z) : outcome :=
  match o with
  | OList => Ret l
  | OTake k => Ret (firstn k l)
  | OGet k => match py_index l (Z.of_nat k) with Some v => Ret [v] | None => Raise EIndexError end
  | OCount => Ret [zlen l]
  | OContains x => Ret [if spec_contains l x then 1 else 0]
  | OBetween a b inc => Ret (filter (fun y => is_after a inc y && is_before b inc y) l)
  | OBefore x inc => ret_opt (last_opt (filter (is_before x inc) l))
  | OAfter x inc => ret_opt (hd_error (filter (is_after x inc) l))
  | OSliceTo k => match py_slice l None (Some (Z.of_nat k)) None with
                  | Some r => Ret r
                  | None => Raise EValueError
                  end
  | ONegIdx k => match py_index l (- Z.of_nat k - 1) with Some v => Ret [v] | None => Raise EIndexError end
  | OXafter x cnt inc =>
      let f := filter (is_after x inc) l in
      Ret (match cnt with None => f | Some c => firstn (Z.to_nat c) f end)
  end.

Lemma of_opt_inj : forall a b, of_opt a = of_opt b -> a = b.
Proof. intros [a|] [b|] H; try discriminate; [injection H as ->|]; reflexivity. Qed.

Theorem spec_result_list_level : forall o l, incr l -> spec_result o l = op_list_spec o l.
Proof.
  intros o l Hi. destruct o.
  - reflexivity.
  - reflexivity.
  - cbn [spec_result op_list_spec]. rewrite py_index_nat. reflexivity.
  - reflexivity.
  - rewrite <- (contains_fast_ok _ _ Hi). reflexivity.
  - rewrite spec_between_loop. cbn [op_list_spec]. f_equal.
    pose proof (between_correct false l a b inc Hi) as H. unfold between, spec_between in H.
    injection H as H. exact H.
  - rewrite spec_before_loop. cbn [op_list_spec]. f_equal.
    pose proof (before_correct false l x inc Hi) as H. unfold before, spec_before in H.
    apply of_opt_inj in H. exact H.
  - rewrite spec_after_loop. cbn [op_list_spec]. f_equal.
    pose proof (after_correct false l x inc) as H. unfold after, spec_after in H.
    apply of_opt_inj in H. exact H.
  - cbn [spec_result op_list_spec]. rewrite py_slice_to. reflexivity.
  - cbn [spec_result op_list_spec]. rewrite py_index_neg. reflexivity.
  - cbn [spec_result op_list_spec]. destruct cnt as [c|].
    + cbn [result]. unfold consume. rewrite xafter_consume. cbn [app].
      rewrite (filter_ext _ _ (reached_is_after x inc)). reflexivity.
    + rewrite xafter_consume_none. cbn [result].
      rewrite (filter_ext _ _ (reached_is_after x inc)). reflexivity.
Qed.

(* Query order / interleaving is irrelevant: on a cached rule, whatever other iterators and queries
   run before or concurrently, under any schedule, a finished operation returned the list-level answer. *)
Theorem query_order_irrelevant : forall seq ops sched t th,
  incr seq ->
  nth_error (thr (reach seq ops sched)) t = Some th -> t_pc th = PDone ->
  t_res th = Some (op_list_spec (t_op th) seq).
Proof.
  intros seq ops sched t th Hi H Hd.
  rewrite (results_match_uncached seq ops sched t th Hi H Hd).
  rewrite (spec_result_list_level _ _ Hi). reflexivity.
Qed.

(* ------------------------------------------------------------------------------------------ *)
(* Sanity theorems pinning the meaning of PyList.py_slice independently of the CPython comparison:
   L[:] = L,  L[a:b] = firstn (b-a) (skipn a L)  for 0 <= a <= b. *)

Lemma islice_go_all : forall l c, islice_go l c c None 1 = l.
Proof.
  induction l as [|x r IH]; intros c; [reflexivity|].
  cbn [islice_go]. rewrite Z.ltb_irrefl. rewrite IH. reflexivity.
Qed.

Theorem py_slice_all : forall l, py_slice l None None None = Some l.
Proof.
  intros l. rewrite <- islice_correct by reflexivity. unfold islice. cbn [Z.eqb].
  rewrite islice_go_all. reflexivity.
Qed.

Lemma islice_go_skip : forall l c a s, c <= a ->
  islice_go l c a (Some s) 1 = islice_go (skipn (Z.to_nat (a - c)) l) a a (Some s) 1.
Proof.
  induction l as [|x r IH]; intros c a s H.
  - rewrite skipn_nil. reflexivity.
  - destruct (Z.eq_dec c a) as [->|Ne].
    + rewrite Z.sub_diag. reflexivity.
    + cbn [islice_go]. destruct (c <? a) eqn:E; [|apply Z.ltb_ge in E; lia].
      rewrite IH by lia. replace (Z.to_nat (a - c)) with (S (Z.to_nat (a - (c + 1)))) by lia.
      reflexivity.
Qed.

Theorem py_slice_ab : forall l a b, 0 <= a <= b ->
  py_slice l (Some a) (Some b) None = Some (firstn (Z.to_nat (b - a)) (skipn (Z.to_nat a) l)).
Proof.
  intros l a b H. rewrite <- islice_correct;
    [| cbn [isneg]; apply Z.ltb_ge; lia | cbn [isneg]; apply Z.ltb_ge; lia | reflexivity].
  unfold islice. cbn [Z.eqb]. rewrite islice_go_skip by lia. rewrite islice_go_step1 by lia.
  rewrite Z.sub_0_r. reflexivity.
Qed.

Example py_slice_sanity :
  py_slice [1;2;3;4;5] None None (Some (-1)) = Some [5;4;3;2;1] /\
  py_slice [1;2;3;4;5] (Some (-2)) None None = Some [4;5] /\
  py_slice [1;2;3;4;5] None (Some (-1)) None = Some [1;2;3;4] /\
  py_slice [1;2;3;4;5] (Some 4) (Some 0) (Some (-2)) = Some [5;3] /\
  py_slice [1;2;3;4;5] (Some 0) (Some 0) None = Some [] /\
  py_slice [1;2;3;4;5] None None (Some 0) = None /\
  py_index [1;2;3] (-1) = Some 3 /\ py_index [1;2;3] (-4) = None /\ py_index [1;2;3] 3 = None.
Proof. vm_compute. repeat split; reflexivity. Qed.

(* L[::-1] = reversed L *)
Lemma map_rev_nth : forall (l : list Z),
  map (fun k => nth (length l - 1 - k) l 0) (seq 0 (length l)) = rev l.
Proof.
  induction l as [|x r IH]; [reflexivity|].
  cbn [length rev]. rewrite seq_S, map_app. cbn [map plus]. f_equal.
  - rewrite <- IH. apply map_ext_in. intros k Hk. apply in_seq in Hk.
    replace (S (length r) - 1 - k)%nat with (S (length r - 1 - k)) by lia. reflexivity.
  - replace (S (length r) - 1 - length r)%nat with O by lia. reflexivity.
Qed.

Theorem py_slice_rev : forall l, py_slice l None None (Some (-1)) = Some (rev l).
Proof.
  intros l. unfold py_slice, slice_indices, zlen. cbn [Z.eqb Z.ltb Z.compare].
  f_equal. unfold slice_len. cbn [Z.ltb Z.compare Z.opp].
  destruct (-1 <? Z.of_nat (length l) - 1) eqn:E.
  - apply Z.ltb_lt in E. rewrite Z.div_1_r.
    replace (Z.to_nat (Z.of_nat (length l) - 1 - -1 - 1 + 1)) with (length l) by lia.
    rewrite <- map_rev_nth. apply map_ext_in. intros k Hk. apply in_seq in Hk. f_equal. lia.
  - apply Z.ltb_ge in E. destruct l; [reflexivity | cbn [length] in E; lia].
Qed.

Theorem slice_meaning : forall l,
  py_slice l None None None = Some l /\
  (forall a b, 0 <= a <= b ->
     py_slice l (Some a) (Some b) None = Some (firstn (Z.to_nat (b - a)) (skipn (Z.to_nat a) l))) /\
  (forall k, py_slice l None (Some (Z.of_nat k)) None = Some (firstn k l)) /\
  py_slice l None None (Some (-1)) = Some (rev l) /\
  py_slice l None None (Some 0) = None /\
  (forall k, py_index l (- Z.of_nat k - 1) = nth_error (rev l) k) /\
  (forall k, py_index l (Z.of_nat k) = nth_error l k).
Proof.
  intros l. split; [apply py_slice_all|]. split; [apply py_slice_ab|]. split; [apply py_slice_to|].
  split; [apply py_slice_rev|]. split; [reflexivity|].
  split; [apply py_index_neg | apply py_index_nat].
Qed.
