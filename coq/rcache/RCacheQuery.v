(* C11 + C12 -- what a query returns under ANY interleaving with other iterators / queries on a cached
   rule is the list-level answer of C12's specification (for strictly increasing sequences). *)
From Coq Require Import ZArith List Bool Arith Lia.
From V Require Import rcache.PyList rcache.RCacheModel rcache.RCacheSpec rcache.RQueryModel
  rcache.RQuerySpec rcache.RQueryThm rcache.RCacheThm.
Import ListNotations.
Open Scope Z_scope.

(* the part of a sequence an early-exit consumer pulls: up to and including the first element at
   which it stops *)
Fixpoint cut (stop : Z -> bool) (l : list Z) : list Z :=
  match l with
  | [] => []
  | y :: r => if stop y then [y] else y :: cut stop r
  end.

Definition stop_wants (o : op) (stop : Z -> bool) : Prop :=
  forall seen, wants o seen = match last_opt seen with None => true | Some y => negb (stop y) end.

Lemma consume_cut : forall o stop, stop_wants o stop ->
  forall rest seen, wants o seen = true -> consume_from o seen rest = seen ++ cut stop rest.
Proof.
  intros o stop H. induction rest as [|y r IH]; intros seen W.
  - rewrite consume_from_nil, app_nil_r. reflexivity.
  - rewrite consume_from_step by exact W. cbn [cut]. destruct (stop y) eqn:E.
    + rewrite consume_from_stop; [reflexivity|]. rewrite H, last_opt_snoc, E. reflexivity.
    + rewrite IH by (rewrite H, last_opt_snoc, E; reflexivity). rewrite <- app_assoc. reflexivity.
Qed.

Lemma between_loop_cut : forall a b inc l st,
  between_loop a b inc st (cut (past b inc) l) = between_loop a b inc st l.
Proof.
  intros a b inc. induction l as [|y r IH]; intros st; [reflexivity|].
  cbn [cut]. destruct (past b inc y) eqn:E.
  - cbn [between_loop]. rewrite E. reflexivity.
  - cbn [between_loop]. rewrite E. destruct st; [rewrite IH; reflexivity|].
    destruct (reached a inc y); rewrite IH; reflexivity.
Qed.

Lemma before_loop_cut : forall x inc l lst,
  before_loop x inc lst (cut (past x inc) l) = before_loop x inc lst l.
Proof.
  intros x inc. induction l as [|y r IH]; intros lst; [reflexivity|].
  cbn [cut]. destruct (past x inc y) eqn:E; cbn [before_loop]; rewrite E; [reflexivity | apply IH].
Qed.

Lemma after_loop_cut : forall x inc l,
  after_loop x inc (cut (reached x inc) l) = after_loop x inc l.
Proof.
  intros x inc. induction l as [|y r IH]; [reflexivity|].
  cbn [cut]. destruct (reached x inc y) eqn:E; cbn [after_loop]; rewrite E; [reflexivity | apply IH].
Qed.

Lemma spec_between_loop : forall a b inc l,
  spec_result (OBetween a b inc) l = Ret (between_loop a b inc false l).
Proof.
  intros. cbn [spec_result]. unfold consume.
  rewrite (consume_cut _ (past b inc)) by (try reflexivity; intros seen; reflexivity).
  cbn [app result]. rewrite between_loop_cut. reflexivity.
Qed.

Lemma spec_before_loop : forall x inc l,
  spec_result (OBefore x inc) l = ret_opt (before_loop x inc None l).
Proof.
  intros. cbn [spec_result]. unfold consume.
  rewrite (consume_cut _ (past x inc)) by (try reflexivity; intros seen; reflexivity).
  cbn [app result]. rewrite before_loop_cut. reflexivity.
Qed.

Lemma spec_after_loop : forall x inc l,
  spec_result (OAfter x inc) l = ret_opt (after_loop x inc l).
Proof.
  intros. cbn [spec_result]. unfold consume.
  rewrite (consume_cut _ (reached x inc)) by (try reflexivity; intros seen; reflexivity).
  cbn [app result]. rewrite after_loop_cut. reflexivity.
Qed.

Lemma py_index_nat : forall l k, py_index l (Z.of_nat k) = nth_error l k.
Proof.
  intros l k. unfold py_index, zlen.
  destruct (Z.of_nat k <? 0) eqn:E; [apply Z.ltb_lt in E; lia|].
  destruct (0 <=? Z.of_nat k) eqn:E1; [|apply Z.leb_gt in E1; lia].
  destruct (Z.of_nat k <? Z.of_nat (length l)) eqn:E2; cbn [andb].
  - rewrite Nat2Z.id. reflexivity.
  - apply Z.ltb_ge in E2. symmetry. apply nth_error_None. lia.
Qed.

(* C12's list-level reading of each operation *)
Definition op_list_spec (o : op) (l : list Z) : outcome :=
  match o with
  | OList => Ret l
  | OTake k => Ret (firstn k l)
  | OGet k => match py_index l (Z.of_nat k) with Some v => Ret [v] | None => Raise EIndexError end
  | OCount => Ret [zlen l]
  | OContains x => Ret [if spec_contains l x then 1 else 0]
  | OBetween a b inc => Ret (filter (fun y => is_after a inc y && is_before b inc y) l)
  | OBefore x inc => ret_opt (last_opt (filter (is_before x inc) l))
  | OAfter x inc => ret_opt (hd_error (filter (is_after x inc) l))
  end.

Lemma of_opt_inj : forall a b, of_opt a = of_opt b -> a = b.
Proof. intros [a|] [b|] H; try discriminate; [injection H as ->|]; reflexivity. Qed.

Theorem spec_result_list_level : forall o l, incr l -> spec_result o l = op_list_spec o l.
Proof.
  intros o l Hi. destruct o.
  - reflexivity.
  - reflexivity.
  - cbn [spec_result op_list_spec]. rewrite py_index_nat. reflexivity.
  - reflexivity.
  - rewrite <- (contains_fast_ok _ _ Hi). reflexivity.
  - rewrite spec_between_loop. cbn [op_list_spec]. f_equal.
    pose proof (between_correct false l a b inc Hi) as H. unfold between, spec_between in H.
    injection H as H. exact H.
  - rewrite spec_before_loop. cbn [op_list_spec]. f_equal.
    pose proof (before_correct false l x inc Hi) as H. unfold before, spec_before in H.
    apply of_opt_inj in H. exact H.
  - rewrite spec_after_loop. cbn [op_list_spec]. f_equal.
    pose proof (after_correct false l x inc) as H. unfold after, spec_after in H.
    apply of_opt_inj in H. exact H.
Qed.

(* Query order / interleaving is irrelevant: on a cached rule, whatever other iterators and queries
   run before or concurrently, under any schedule, a finished operation returned the list-level answer. *)
Theorem query_order_irrelevant : forall seq ops sched t th,
  incr seq ->
  nth_error (thr (reach seq ops sched)) t = Some th -> t_pc th = PDone ->
  t_res th = Some (op_list_spec (t_op th) seq).
Proof.
  intros seq ops sched t th Hi H Hd.
  rewrite (results_match_uncached seq ops sched t th Hi H Hd).
  rewrite (spec_result_list_level _ _ Hi). reflexivity.
Qed.
