(* C12 -- rrule.replace(): model of the `_original_rule` recording done by rrule.__init__
   (rrule.py 458, 504-688) and of replace() (767-779), on top of C01's constructor model
   rr/RRNorm.v (raw arguments, normalize).

     record r        the dictionary self._original_rule after rrule(args r): for each BY-key whether it
                     is absent, recorded as None (the value was DERIVED from dtstart: lines 512, 514, 517,
                     520) or recorded as a tuple (the caller's value after the constructor's
                     normalisation)
     replace_raw r u the arguments replace(u) passes to the constructor: the scalar attributes
                     (interval, count, dtstart, freq, until, wkst), updated by the recorded dictionary,
                     updated by the named parameters u
     apply_upd r u   the ORIGINAL arguments with the named parameters changed

   No proofs in this file. *)
From Coq Require Import ZArith List Bool.
From V Require Import base.Cal rr.RRBase rr.RRNorm.
Import ListNotations.
Open Scope Z_scope.

(* one key of the dictionary *)
Inductive ent (A : Type) : Type :=
| Absent                       (* key not in the dict: replace() leaves the constructor default (None) *)
| RNone                        (* key recorded with value None: derived from dtstart *)
| RVal (v : list A).           (* key recorded with a tuple *)
Arguments Absent {A}. Arguments RNone {A}. Arguments RVal {A} v.

Record orig := mkOrig {
  o_bysetpos : ent Z; o_bymonth : ent Z; o_bymonthday : ent Z; o_byyearday : ent Z;
  o_byeaster : ent Z; o_byweekno : ent Z; o_byweekday : ent (Z * Z);
  o_byhour : ent Z; o_byminute : ent Z; o_bysecond : ent Z
}.

Definition given {A : Type} (o : option (list A)) (f : list A -> list A) : ent A :=
  match o with None => Absent | Some l => RVal (f l) end.

Definition record (r : raw) : orig :=
  let fr := r_freq r in
  let '(hh, mm, ss) := if r_isdate r then (0, 0, 0) else (r_H r, r_M r, r_S r) in
  (* 507-520 *)
  let nodays := is_none (r_byweekno r) && is_none (r_byyearday r) && is_none (r_bymonthday r) &&
                is_none (r_byweekday r) && is_none (r_byeaster r) in
  let d_bymonth := nodays && (fr =? YEARLY) && is_none (r_bymonth r) in
  let d_bymonthday := nodays && ((fr =? YEARLY) || (fr =? MONTHLY)) in
  let d_byweekday := nodays && (fr =? WEEKLY) in
  mkOrig
    (* 504-505: only if truthy *)
    (if truthy (r_bysetpos r) then RVal (opt_list (r_bysetpos r)) else Absent)
    (* 512, 531-532 *)
    (if d_bymonth then RNone else given (r_bymonth r) sort_set)
    (* 514, 517, 571-573: positives first, then negatives *)
    (if d_bymonthday then RNone
     else given (r_bymonthday r) (fun l => let md := sort_set l in
                                           filter (fun x => 0 <? x) md ++ filter (fun x => x <? 0) md))
    (* 542 *)
    (given (r_byyearday r) sort_set)
    (* 553 *)
    (given (r_byeaster r) sortZ)
    (* 584 *)
    (given (r_byweekno r) sort_set)
    (* 520, 612-626: plain weekdays (n forgotten), then the (weekday, n) pairs *)
    (if d_byweekday then RNone
     else given (r_byweekday r)
            (fun l => let '(plain, nth) := split_weekday fr l in
                      map (fun w => (w, 0)) (sort_set plain) ++ sort_set_pair nth))
    (* 646, 666, 688 (after fix 5b59678): tuple(sorted(set(argument))), NOT the set filtered by
       __construct_byset against the current dtstart / interval *)
    (given (r_byhour r) sort_set)
    (given (r_byminute r) sort_set)
    (given (r_bysecond r) sort_set).

Definition from_ent {A : Type} (e : ent A) : option (list A) :=
  match e with RVal v => Some v | _ => None end.

(* new_kwargs before the caller's keywords: the attributes + the recorded dictionary *)
Definition rebuild (r : raw) : raw :=
  let o := record r in
  let '(hh, mm, ss) := if r_isdate r then (0, 0, 0) else (r_H r, r_M r, r_S r) in
  mkRaw (r_freq r) false (r_y r) (r_m r) (r_d r) hh mm ss (r_interval r) (r_wkst r) (r_count r)
        (r_until r) (r_tzmix r)
        (from_ent (o_bysetpos o)) (from_ent (o_bymonth o)) (from_ent (o_bymonthday o))
        (from_ent (o_byyearday o)) (from_ent (o_byeaster o)) (from_ent (o_byweekno o))
        (from_ent (o_byweekday o)) (from_ent (o_byhour o)) (from_ent (o_byminute o))
        (from_ent (o_bysecond o)).

(* the named parameters of replace(kw): None = not named *)
Record upd := mkUpd {
  u_freq : option Z;
  u_dtstart : option (bool * (Z * Z * Z) * (Z * Z * Z));      (* isdate, (y,m,d), (H,M,S) *)
  u_interval : option Z;
  u_wkst : option Z;
  u_count : option (option Z);
  u_until : option (option (Z * Z * Z));
  u_tzmix : option bool;                                       (* awareness mix after the change *)
  u_bysetpos : option (option (list Z)); u_bymonth : option (option (list Z));
  u_bymonthday : option (option (list Z)); u_byyearday : option (option (list Z));
  u_byeaster : option (option (list Z)); u_byweekno : option (option (list Z));
  u_byweekday : option (option (list (Z * Z)));
  u_byhour : option (option (list Z)); u_byminute : option (option (list Z));
  u_bysecond : option (option (list Z))
}.

Definition ov {A : Type} (u : option A) (old : A) : A := match u with Some v => v | None => old end.

Definition apply_upd (r : raw) (u : upd) : raw :=
  let '(isd, (y, m, d), (hh, mm, ss)) :=
    ov (u_dtstart u) (r_isdate r, (r_y r, r_m r, r_d r), (r_H r, r_M r, r_S r)) in
  mkRaw (ov (u_freq u) (r_freq r)) isd y m d hh mm ss
        (ov (u_interval u) (r_interval r)) (ov (u_wkst u) (r_wkst r)) (ov (u_count u) (r_count r))
        (ov (u_until u) (r_until r)) (ov (u_tzmix u) (r_tzmix r))
        (ov (u_bysetpos u) (r_bysetpos r)) (ov (u_bymonth u) (r_bymonth r))
        (ov (u_bymonthday u) (r_bymonthday r)) (ov (u_byyearday u) (r_byyearday r))
        (ov (u_byeaster u) (r_byeaster r)) (ov (u_byweekno u) (r_byweekno r))
        (ov (u_byweekday u) (r_byweekday r)) (ov (u_byhour u) (r_byhour r))
        (ov (u_byminute u) (r_byminute r)) (ov (u_bysecond u) (r_bysecond r)).

(* replace(u): rrule(new_kwargs) *)
Definition replace_raw (r : raw) (u : upd) : raw := apply_upd (rebuild r) u.

Definition replace (r : raw) (u : upd) : res rule := normalize (replace_raw r u).

(* what the property demands: the constructor on the original arguments with the named ones changed *)
Definition replace_spec (r : raw) (u : upd) : res rule := normalize (apply_upd r u).
