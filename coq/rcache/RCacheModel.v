(* C11 -- rrulebase result cache: executable transition system.

   Mirrors /repo/src/dateutil/rrule.py, class rrulebase:
     __init__ / _invalidate_cache   (initial shared state)
     __iter__                        (PIterTest: `if self._cache_complete:` fast path or _iter_cached())
     _iter_cached                    (one program counter per source LINE, in line order)
     count                           (PLenTest / PRetLen)
     __getitem__(int >= 0), __contains__, before, after, between  (PQTest fast-path test, then a
                                      consumer loop over `self`, i.e. over __iter__)
   and the place where `_len` is published: the last statement executed by the underlying
   generator (rrule._iter / rruleset._iter) before its StopIteration propagates.

   The underlying recurrence sequence `seq` is opaque (a list of integers standing for the
   occurrences an UNCACHED rule yields, in order); the underlying generator is a cursor `gpos` into it.

   `fixed = true`  : the code after commit bb46216 (lock released in a try/finally on every exit).
   `fixed = false` : the code before it (both `break`s leave the critical section without release()).

   No proofs in this file. *)
From Coq Require Import ZArith List Bool Arith.
Import ListNotations.
Open Scope Z_scope.

(* ------------------------------------------------------------------------------------------ *)
(* Consumers: what drives an iterator.  `wants o seen` = after having received the values `seen`
   (in order) the consumer calls next() again; `result o seen` = what it returns once it stopped
   or the iterator was exhausted. *)

Inductive op : Type :=
| OList                                  (* list(rule) / for x in rule: ... *)
| OTake (k : nat)                        (* it = iter(rule); k calls of next(it); iterator then abandoned *)
| OGet (k : nat)                         (* rule[k], k >= 0 *)
| OCount                                 (* rule.count() *)
| OContains (x : Z)                      (* x in rule *)
| OBetween (a b : Z) (inc : bool)        (* rule.between(a, b, inc) *)
| OBefore (x : Z) (inc : bool)           (* rule.before(x, inc) *)
| OAfter (x : Z) (inc : bool)            (* rule.after(x, inc) *)
| OSliceTo (k : nat)                     (* rule[:k]   -> list(islice(self, None, k, None)): pulls min(k, n) items *)
| ONegIdx (k : nat)                      (* rule[-(k+1)] -> list(iter(self))[-(k+1)] *)
| OXafter (x : Z) (cnt : option Z) (inc : bool).   (* list(rule.xafter(x, cnt, inc)) *)

Inductive exn : Type := EIndexError | ETypeError | EValueError.
Inductive outcome : Type := Ret (l : list Z) | Raise (e : exn).

Definition last_opt (l : list Z) : option Z :=
  match rev l with [] => None | y :: _ => Some y end.

(* `i > dt` (inc) / `i >= dt` (not inc) : the break test of before() and between() *)
Definition past (dt : Z) (inc : bool) (i : Z) : bool := if inc then dt <? i else dt <=? i.
(* `i >= dt` (inc) / `i > dt` (not inc) : the hit test of after() and between()'s start *)
Definition reached (dt : Z) (inc : bool) (i : Z) : bool := if inc then dt <=? i else dt <? i.

Definition wants (o : op) (seen : list Z) : bool :=
  match o with
  | OList => true
  | OTake k => (length seen <? k)%nat
  | OGet k => (length seen <? S k)%nat
  | OCount => true
  | OContains x => match last_opt seen with None => true | Some y => y <? x end
  | OBetween _ b inc => match last_opt seen with None => true | Some y => negb (past b inc y) end
  | OBefore x inc => match last_opt seen with None => true | Some y => negb (past x inc y) end
  | OAfter x inc => match last_opt seen with None => true | Some y => negb (reached x inc y) end
  | OSliceTo k => (length seen <? k)%nat
  | ONegIdx _ => true
  | OXafter x cnt inc =>
      (* n counts the matches; the loop breaks at the first match with n > count *)
      match cnt with
      | None => true
      | Some c => Z.of_nat (length (filter (reached x inc) seen)) <=? Z.max c 0
      end
  end.

Fixpoint between_loop (a b : Z) (inc started : bool) (l : list Z) : list Z :=
  match l with
  | [] => []
  | x :: r =>
      if past b inc x then []
      else if started then x :: between_loop a b inc true r
      else if reached a inc x then x :: between_loop a b inc true r
      else between_loop a b inc false r
  end.

Fixpoint before_loop (x : Z) (inc : bool) (lst : option Z) (l : list Z) : option Z :=
  match l with
  | [] => lst
  | y :: r => if past x inc y then lst else before_loop x inc (Some y) r
  end.

Fixpoint after_loop (x : Z) (inc : bool) (l : list Z) : option Z :=
  match l with
  | [] => None
  | y :: r => if reached x inc y then Some y else after_loop x inc r
  end.

Definition ret_opt (v : option Z) : outcome :=
  match v with Some y => Ret [1; y] | None => Ret [0] end.

Definition result (o : op) (seen : list Z) : outcome :=
  match o with
  | OList => Ret seen
  | OTake _ => Ret seen
  | OGet k => if (length seen =? S k)%nat
              then match last_opt seen with Some y => Ret [y] | None => Raise EIndexError end
              else Raise EIndexError
  | OCount => Ret []          (* count() returns self._len, read at PRetLen *)
  | OContains x => match last_opt seen with Some y => Ret [if y =? x then 1 else 0] | None => Ret [0] end
  | OBetween a b inc => Ret (between_loop a b inc false seen)
  | OBefore x inc => ret_opt (before_loop x inc None seen)
  | OAfter x inc => ret_opt (after_loop x inc seen)
  | OSliceTo _ => Ret seen
  | ONegIdx k => match nth_error (rev seen) k with Some y => Ret [y] | None => Raise EIndexError end
  | OXafter x cnt inc =>
      let f := filter (reached x inc) seen in
      Ret (match cnt with None => f | Some c => firstn (Z.to_nat c) f end)
  end.

(* the values a consumer takes from a source that would yield `rest` after `seen` *)
Fixpoint consume_from (o : op) (seen rest : list Z) : list Z :=
  if wants o seen then
    match rest with
    | [] => seen
    | x :: r => consume_from o (seen ++ [x]) r
    end
  else seen.

Definition consume (o : op) (l : list Z) : list Z := consume_from o [] l.

(* ------------------------------------------------------------------------------------------ *)
(* Program counters: one per source line that gets a `line` event (Python 3.12), in source order.
   Numbers in comments = line offset inside _iter_cached. *)

Inductive pc : Type :=
| PQTest                 (* query function: `if self._cache_complete:` *)
| PLenTest               (* count(): `if self._len is None:` *)
| PIterTest              (* __iter__: `if self._cache_complete:` *)
| PInit                  (*  1  i = 0 *)
| PGetGen                (*  2  gen = self._cache_gen *)
| PGetCache              (*  3  cache = self._cache *)
| PGetAcq                (*  4  acquire = self._cache_lock.acquire *)
| PGetRel                (*  5  release = self._cache_lock.release *)
| PWhile                 (*  6  while gen: *)
| PIfLen                 (*  7  if i == len(cache): *)
| PAcquire               (*  8  acquire() *)
| PTryO                  (*  9  try: *)
| PTestC                 (* 10  if self._cache_complete: *)
| PBreakC                (* 11  break *)
| PTryI                  (* 12  try: *)
| PFor (j : nat)         (* 13  for j in range(10):   j = iterations already done *)
| PAdvance (j : nat)     (* 14  cache.append(advance_iterator(gen)) *)
| PGenPub (j : nat)      (*     inside the generator: `_len` published, StopIteration not yet raised *)
| PExcept                (* 15  except StopIteration: *)
| PSetGen                (* 16  self._cache_gen = gen = None *)
| PSetC                  (* 17  self._cache_complete = True *)
| PBreakE                (* 18  break *)
| PRelease (brk : bool)  (* 20  release()   (finally); brk = reached through a break *)
| PExcX                  (* 15  except StopIteration:   evaluated for another exception class: no match *)
| PRelX                  (* 20  release()   (finally) while an exception of the generator propagates *)
| PYield                 (* 21  yield cache[i] *)
| PIncr                  (* 22  i += 1 *)
| PTWhile                (* 23  while i < self._len: *)
| PTYield                (* 24  yield cache[i] *)
| PTIncr                 (* 25  i += 1 *)
| PRetLen                (* count(): `return self._len` *)
| PDone.

Definition batch : nat := 10.

Record thread : Type := Th {
  t_op : op;
  t_pc : pc;
  t_i : nat;              (* local i *)
  t_gen : bool;           (* local gen is not None *)
  t_out : list Z;         (* values received by the consumer so far *)
  t_res : option outcome  (* what the operation returned / raised *)
}.

Record shared : Type := Sh {
  cache : list Z;         (* self._cache *)
  complete : bool;        (* self._cache_complete *)
  sgen : bool;            (* self._cache_gen is not None *)
  gpos : nat;             (* how many items the shared generator has yielded *)
  gdone : bool;           (* the shared generator has finished *)
  lock : option nat;      (* owner of self._cache_lock *)
  lenp : option nat       (* self._len *)
}.

Record state : Type := St { sh : shared; thr : list thread }.

Definition start_pc (o : op) : pc :=
  match o with
  | OList | OTake _ => PIterTest
  | OCount => PLenTest
  | _ => PQTest
  end.

Definition init_thread (o : op) : thread := Th o (start_pc o) 0 false [] None.
(* rrulebase.__init__(cache=True) -> _invalidate_cache() *)
Definition init_shared : shared := Sh [] false true 0 false None None.
Definition init (ops : list op) : state := St init_shared (map init_thread ops).

Definition set_pc (th : thread) (p : pc) : thread :=
  Th (t_op th) p (t_i th) (t_gen th) (t_out th) (t_res th).

(* the consumer stops (it does not want more, or the iterator raised StopIteration) *)
Definition finish (th : thread) : thread :=
  match t_op th with
  | OCount => set_pc th PRetLen
  | o => Th o PDone (t_i th) (t_gen th) (t_out th) (Some (result o (t_out th)))
  end.

(* fast path: the consumer runs over the complete cache list *)
Definition fast (s : shared) (th : thread) : thread :=
  finish (Th (t_op th) (t_pc th) (t_i th) (t_gen th) (consume (t_op th) (cache s)) (t_res th)).

(* fast path of the query method itself (PQTest).  It is the consumer loop over the list
   `self._cache` for every query except __contains__, which is `item in self._cache`. *)
Definition fastq (s : shared) (th : thread) : thread :=
  match t_op th with
  | OContains x =>
      Th (t_op th) PDone (t_i th) (t_gen th) (t_out th)
         (Some (Ret [if existsb (Z.eqb x) (cache s) then 1 else 0]))
  | _ => fast s th
  end.

(* `yield cache[i]`, continuing at `nxt` when the consumer calls next() again *)
Definition do_yield (s : shared) (th : thread) (nxt : pc) : thread :=
  match nth_error (cache s) (t_i th) with
  | None => Th (t_op th) PDone (t_i th) (t_gen th) (t_out th) (Some (Raise EIndexError))
  | Some v =>
      let th' := Th (t_op th) nxt (t_i th) (t_gen th) (t_out th ++ [v]) (t_res th) in
      if wants (t_op th) (t_out th ++ [v]) then th' else finish th'
  end.

Section Step.
Variable seq : list Z.
Variable fixed : bool.
(* raises = true: the underlying generator, after yielding seq, RAISES (ValueError of an impossible
   interval/byhour combination, rrule.py 1017) instead of finishing; `_len` is then never assigned and
   the generator object is dead (a later next() on it raises StopIteration).  The theorems of C11 are
   about raises = false; raises = true is the recorded finding F-C11-raise. *)
Variable raises : bool.

(* one line of thread `t`; None = blocked in acquire() (or the thread is done) *)
Definition step_thread (s : shared) (t : nat) (th : thread) : option (shared * thread) :=
  match t_pc th with
  | PQTest => Some (s, if complete s then fastq s th else set_pc th PIterTest)
  | PLenTest => Some (s, match lenp s with Some _ => set_pc th PRetLen | None => set_pc th PIterTest end)
  | PIterTest =>
      Some (s, if complete s then fast s th
               else if wants (t_op th) [] then set_pc th PInit else finish th)
  | PInit => Some (s, Th (t_op th) PGetGen 0 (t_gen th) (t_out th) (t_res th))
  | PGetGen => Some (s, Th (t_op th) PGetCache (t_i th) (sgen s) (t_out th) (t_res th))
  | PGetCache => Some (s, set_pc th PGetAcq)
  | PGetAcq => Some (s, set_pc th PGetRel)
  | PGetRel => Some (s, set_pc th PWhile)
  | PWhile => Some (s, set_pc th (if t_gen th then PIfLen else PTWhile))
  | PIfLen => Some (s, set_pc th (if (t_i th =? length (cache s))%nat then PAcquire else PYield))
  | PAcquire =>
      match lock s with
      | None => Some (Sh (cache s) (complete s) (sgen s) (gpos s) (gdone s) (Some t) (lenp s),
                      set_pc th PTryO)
      | Some _ => None
      end
  | PTryO => Some (s, set_pc th PTestC)
  | PTestC => Some (s, set_pc th (if complete s then PBreakC else PTryI))
  | PBreakC => Some (s, set_pc th (if fixed then PRelease true else PTWhile))
  | PTryI => Some (s, set_pc th (PFor 0))
  | PFor j => Some (s, set_pc th (if (j <? batch)%nat then PAdvance j else PRelease false))
  | PAdvance j =>
      if gdone s then Some (s, set_pc th PExcept)
      else match nth_error seq (gpos s) with
           | Some v => Some (Sh (cache s ++ [v]) (complete s) (sgen s) (S (gpos s)) (gdone s) (lock s) (lenp s),
                             set_pc th (PFor (S j)))
           | None =>
               if raises
               then Some (Sh (cache s) (complete s) (sgen s) (gpos s) true (lock s) (lenp s), set_pc th PExcX)
               else Some (Sh (cache s) (complete s) (sgen s) (gpos s) true (lock s) (Some (gpos s)),
                          set_pc th (PGenPub j))
           end
  | PGenPub _ => Some (s, set_pc th PExcept)
  | PExcept => Some (s, set_pc th PSetGen)
  | PSetGen => Some (Sh (cache s) (complete s) false (gpos s) (gdone s) (lock s) (lenp s),
                     Th (t_op th) PSetC (t_i th) false (t_out th) (t_res th))
  | PSetC => Some (Sh (cache s) true (sgen s) (gpos s) (gdone s) (lock s) (lenp s), set_pc th PBreakE)
  | PBreakE => Some (s, set_pc th (if fixed then PRelease true else PTWhile))
  | PRelease brk =>
      Some (Sh (cache s) (complete s) (sgen s) (gpos s) (gdone s) None (lenp s),
            set_pc th (if brk then PTWhile else PYield))
  | PExcX => Some (s, set_pc th PRelX)
  | PRelX =>
      Some (Sh (cache s) (complete s) (sgen s) (gpos s) (gdone s) (if fixed then None else lock s) (lenp s),
            Th (t_op th) PDone (t_i th) (t_gen th) (t_out th) (Some (Raise EValueError)))
  | PYield => Some (s, do_yield s th PIncr)
  | PIncr => Some (s, Th (t_op th) PWhile (S (t_i th)) (t_gen th) (t_out th) (t_res th))
  | PTWhile =>
      match lenp s with
      | None => Some (s, Th (t_op th) PDone (t_i th) (t_gen th) (t_out th) (Some (Raise ETypeError)))
      | Some n => Some (s, if (t_i th <? n)%nat then set_pc th PTYield else finish th)
      end
  | PTYield => Some (s, do_yield s th PTIncr)
  | PTIncr => Some (s, Th (t_op th) PTWhile (S (t_i th)) (t_gen th) (t_out th) (t_res th))
  | PRetLen =>
      Some (s, Th (t_op th) PDone (t_i th) (t_gen th) (t_out th)
                  (Some (match lenp s with Some n => Ret [Z.of_nat n] | None => Ret [-1] end)))
  | PDone => None
  end.

Fixpoint upd {A : Type} (l : list A) (n : nat) (x : A) : list A :=
  match l, n with
  | [], _ => []
  | _ :: r, O => x :: r
  | y :: r, S m => y :: upd r m x
  end.

Definition step (s : state) (t : nat) : option state :=
  match nth_error (thr s) t with
  | None => None
  | Some th =>
      match step_thread (sh s) t th with
      | None => None
      | Some (s', th') => Some (St s' (upd (thr s) t th'))
      end
  end.

(* a schedule is a list of thread ids; an entry naming a blocked / finished / absent thread is skipped *)
Fixpoint exec (sched : list nat) (s : state) : state :=
  match sched with
  | [] => s
  | t :: r => exec r (match step s t with Some s' => s' | None => s end)
  end.

Definition pc_of (s : state) (t : nat) : option pc :=
  match nth_error (thr s) t with Some th => Some (t_pc th) | None => None end.

Definition all_done (s : state) : bool :=
  forallb (fun th => match t_pc th with PDone => true | _ => false end) (thr s).

Definition stuck (s : state) : bool :=
  forallb (fun t => match step s t with None => true | Some _ => false end) (List.seq 0 (length (thr s))).

(* ------------------------------------------------------------------------------------------ *)
(* Single-threaded histories (correspondence layer (i)): operations are executed one after the
   other by one thread; next(it) runs iterator thread `t` until it has delivered one more value. *)

Inductive next_res : Type :=
| NValue (v : Z) (s : state)
| NStop (s : state)                   (* StopIteration *)
| NRaise (e : exn) (s : state)
| NDeadlock                           (* acquire() on a lock nobody will release *)
| NFuel.                              (* out of fuel: proved unreachable for fuel >= next_fuel *)

(* run thread t until its output grows beyond `have` values or it is done *)
Fixpoint run_next (fuel : nat) (s : state) (t : nat) (have : nat) : next_res :=
  match nth_error (thr s) t with
  | None => NFuel
  | Some th =>
      if (have <? length (t_out th))%nat then
        match nth_error (t_out th) have with Some v => NValue v s | None => NFuel end
      else
        match t_pc th with
        | PDone => match t_res th with
                   | Some (Raise e) => NRaise e s
                   | _ => NStop s
                   end
        | _ =>
            match fuel with
            | O => NFuel
            | S f => match step s t with
                     | None => NDeadlock
                     | Some s' => run_next f s' t have
                     end
            end
        end
  end.

(* run thread t to completion *)
Fixpoint run_done (fuel : nat) (s : state) (t : nat) : option (option state) :=
  (* None = out of fuel; Some None = deadlock; Some (Some s') = done *)
  match nth_error (thr s) t with
  | None => None
  | Some th =>
      match t_pc th with
      | PDone => Some (Some s)
      | _ => match fuel with
             | O => None
             | S f => match step s t with
                      | None => Some None
                      | Some s' => run_done f s' t
                      end
             end
      end
  end.

End Step.

Arguments upd {A} l n x.
