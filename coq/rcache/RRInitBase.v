(* Vocabulary of coq/gen/RRInitGen.v, the translation of rrule.__init__ / __construct_byset / replace
   (rrule.py 431-701, 1050-1083, 767-779) REGENERATED from the source by harness/gen_rr_init.py.
   Hand-written, no proofs.

   The constructor's arguments as Python passes them -- one level less abstract than rr/RRNorm.raw: a
   BY-argument is omitted, a bare integer or a sequence (the code's `isinstance(x, integer_types)` tests
   are real tests here); a byweekday member is an int or a weekday object; wkst is None, an int or a
   weekday object.  `erase` maps them to RRNorm.raw (bare integer = 1-tuple, int weekday = (w, 0)). *)
From Coq Require Import ZArith List Bool.
From V Require Import base.Cal rr.RRBase rr.RRNorm rcache.RReplace.
Import ListNotations.
Open Scope Z_scope.

Inductive iarg : Type := INone | IOne (k : Z) | IMany (l : list Z).
Inductive wdm : Type := WInt (w : Z) | WObj (w n : Z).          (* n = 0: weekday object without n *)
Inductive warg : Type := WNone | WOne (m : wdm) | WMany (l : list wdm).
Inductive karg : Type := KNone | KInt (w : Z) | KObj (w : Z).

Record args := mkArgs {
  a_freq : Z;
  a_isdate : bool; a_y : Z; a_m : Z; a_d : Z; a_H : Z; a_M : Z; a_S : Z;      (* dtstart, microsecond dropped *)
  a_interval : Z;
  a_wkst : karg; a_firstweekday : Z;                                          (* calendar.firstweekday() *)
  a_count : option Z;
  a_until : option (Z * Z * Z);
  a_tzmix : bool;
  a_bysetpos : iarg; a_bymonth : iarg; a_bymonthday : iarg; a_byyearday : iarg; a_byeaster : iarg;
  a_byweekno : iarg; a_byweekday : warg; a_byhour : iarg; a_byminute : iarg; a_bysecond : iarg
}.

Definition erase_i (i : iarg) : option (list Z) :=
  match i with INone => None | IOne k => Some [k] | IMany l => Some l end.
Definition erase_m (m : wdm) : Z * Z := match m with WInt w => (w, 0) | WObj w n => (w, n) end.
Definition erase_w (w : warg) : option (list (Z * Z)) :=
  match w with WNone => None | WOne m => Some [erase_m m] | WMany l => Some (map erase_m l) end.
Definition erase_k (k : karg) (first : Z) : Z :=
  match k with KNone => first | KInt w => w | KObj w => w end.

Definition erase (a : args) : raw :=
  mkRaw (a_freq a) (a_isdate a) (a_y a) (a_m a) (a_d a) (a_H a) (a_M a) (a_S a) (a_interval a)
        (erase_k (a_wkst a) (a_firstweekday a)) (a_count a) (a_until a) (a_tzmix a)
        (erase_i (a_bysetpos a)) (erase_i (a_bymonth a)) (erase_i (a_bymonthday a)) (erase_i (a_byyearday a))
        (erase_i (a_byeaster a)) (erase_i (a_byweekno a)) (erase_w (a_byweekday a))
        (erase_i (a_byhour a)) (erase_i (a_byminute a)) (erase_i (a_bysecond a)).

(* Python sets of integers are carried as lists; only their sorted view is ever used *)
Definition is_inone (i : iarg) : bool := match i with INone => true | _ => false end.
Definition is_wnone (w : warg) : bool := match w with WNone => true | _ => false end.
Definition wd_plain (w : Z) : Z * Z := (w, 0).

(* what the constructor leaves behind: the rule attributes and the _original_rule dictionary *)
Definition built := (rule * orig)%type.
