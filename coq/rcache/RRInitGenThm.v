(* C01 / C12 -- the constructor REGENERATED from /repo's source on every run (gen/RRInitGen.v, by
   harness/gen_rr_init.py: rrule.__init__ executed symbolically, one definition per top-level statement,
   __construct_byset, replace) equals C01's hand-written model rr/RRNorm.normalize and the recording model
   rcache/RReplace.record, for ALL argument records:
     gen_init a = (do ru <- normalize (erase a); Ok (ru, record (erase a))). *)
From Coq Require Import ZArith List Bool Lia.
From V Require Import base.Cal rr.RRBase rr.RRNorm rcache.RReplace rcache.RReplaceThm rcache.RRInitBase gen.RRInitGen.
Import ListNotations.
Open Scope Z_scope.

(* ---- small facts *)
Lemma is_none_erase_i x : is_none (erase_i x) = is_inone x.
Proof. destruct x; reflexivity. Qed.
Lemma is_none_erase_w x : is_none (erase_w x) = is_wnone x.
Proof. destruct x; reflexivity. Qed.

Lemma fold_filter (p : Z -> bool) l :
  fold_right (fun e acc => if p e then e :: acc else acc) [] l = filter p l.
Proof. induction l as [|x t IH]; [reflexivity|]. cbn [fold_right filter]. rewrite IH. reflexivity. Qed.

(* `if not c: continue` in front of the accumulating if (fix e1e7505) *)
Lemma fold_skip_filter (c q : Z -> bool) l :
  fold_right (fun e acc => if negb (c e) then acc else if q e then e :: acc else acc) [] l =
  filter (fun e => c e && q e) l.
Proof.
  induction l as [|x t IH]; [reflexivity|]. cbn [fold_right filter]. rewrite IH.
  destruct (c x), (q x); reflexivity.
Qed.

Lemma zlen_eqb_0 {A} (l : list A) : (RRBase.zlen l =? 0) = match l with [] => true | _ => false end.
Proof. destruct l; [reflexivity|]. unfold RRBase.zlen. cbn [length]. apply Z.eqb_neq. lia. Qed.

Lemma sort_set_filter_comm (p : Z -> bool) l : sort_set (filter p l) = filter p (sort_set l).
Proof.
  apply sorted_ext; [apply sort_set_sorted | apply filter_ssorted, sort_set_sorted |].
  intros x. rewrite In_sort_set, !filter_In, In_sort_set. tauto.
Qed.

Lemma sort_set_nil_inv l : sort_set l = [] -> l = [].
Proof.
  intros H. destruct l as [|x t]; [reflexivity|]. exfalso.
  assert (Hx : In x (sort_set (x :: t))) by (apply In_sort_set; left; reflexivity).
  rewrite H in Hx. destruct Hx.
Qed.

Lemma nonempty_sort_set l : nonempty (sort_set l) = nonempty l.
Proof.
  destruct l as [|x t]; [reflexivity|]. destruct (sort_set (x :: t)) eqn:E; [|reflexivity].
  apply sort_set_nil_inv in E. discriminate.
Qed.

Lemma nonempty_sort_set_pair l : nonempty (sort_set_pair l) = nonempty l.
Proof.
  destruct l as [|x t]; [reflexivity|]. destruct (sort_set_pair (x :: t)) eqn:E; [|reflexivity].
  exfalso. assert (H : In x (sort_set_pair (x :: t))) by (apply In_sort_set_pair; left; reflexivity).
  rewrite E in H. destruct H.
Qed.

(* ---- __construct_byset *)
Theorem gen_construct_byset_eq : forall itv start l base,
  gen_construct_byset itv start (IMany l) base = construct_byset itv start l base.
Proof.
  intros. unfold gen_construct_byset, construct_byset. cbv zeta.
  rewrite (fold_skip_filter (fun e_num => (0 <=? e_num) && (e_num <? base))
             (fun e_num => (Z.gcd itv base =? 1) || ((e_num - start) mod Z.gcd itv base =? 0)) l).
  rewrite zlen_eqb_0.
  destruct (filter _ l); reflexivity.
Qed.

Theorem gen_construct_byset_one : forall itv start k base,
  gen_construct_byset itv start (IOne k) base = construct_byset itv start [k] base.
Proof.
  intros. unfold gen_construct_byset, construct_byset. cbv zeta.
  rewrite (fold_skip_filter (fun e_num => (0 <=? e_num) && (e_num <? base))
             (fun e_num => (Z.gcd itv base =? 1) || ((e_num - start) mod Z.gcd itv base =? 0)) [k]).
  rewrite zlen_eqb_0.
  destruct (filter _ [k]); reflexivity.
Qed.

(* ---- bysetpos *)
Lemma setpos_exists l :
  existsb (fun e => (e =? 0) || negb ((-366 <=? e) && (e <=? 366))) l = negb (setpos_ok l).
Proof.
  unfold setpos_ok. induction l as [|x t IH]; [reflexivity|]. cbn [existsb forallb]. rewrite IH.
  destruct (x =? 0), (-366 <=? x), (x <=? 366), (forallb _ t); reflexivity.
Qed.

Lemma B_bysetpos a :
  gen_blk_bysetpos a =
  if negb (match erase_i (a_bysetpos a) with None => true | Some l => setpos_ok l end) then Err EValue
  else Ok (erase_i (a_bysetpos a)).
Proof.
  unfold gen_blk_bysetpos. destruct (a_bysetpos a) as [|k|l]; cbn [erase_i].
  - reflexivity.
  - rewrite <- setpos_exists. cbn [existsb]. rewrite orb_false_r. reflexivity.
  - rewrite <- setpos_exists. reflexivity.
Qed.

Lemma B_bysetpos2 a s : gen_blk_bysetpos2 a s = Ok (if truthy s then RVal (opt_list s) else Absent).
Proof. unfold gen_blk_bysetpos2. destruct (truthy s); reflexivity. Qed.

(* ---- the defaults derived from dtstart *)
Definition nod (a : args) : bool :=
  is_inone (a_byweekno a) && is_inone (a_byyearday a) && is_inone (a_bymonthday a) &&
  is_wnone (a_byweekday a) && is_inone (a_byeaster a).
Definition d_md (a : args) : bool := nod a && ((a_freq a =? YEARLY) || (a_freq a =? MONTHLY)).
Definition d_m (a : args) : bool := nod a && (a_freq a =? YEARLY) && is_inone (a_bymonth a).
Definition d_wd (a : args) : bool := nod a && (a_freq a =? WEEKLY).

Lemma B_defaults a :
  gen_blk_bymonthday a =
  Ok (if d_md a then IOne (a_d a) else a_bymonthday a, if d_md a then RNone else Absent,
      if d_m a then IOne (a_m a) else a_bymonth a, if d_m a then RNone else Absent,
      if d_wd a then WOne (WInt (Cal.weekday (a_y a) (a_m a) (a_d a))) else a_byweekday a,
      if d_wd a then RNone else Absent).
Proof.
  unfold gen_blk_bymonthday, d_md, d_m, d_wd. fold (nod a). destruct (nod a); cbn [andb]; [|reflexivity].
  destruct (Z.eqb_spec (a_freq a) YEARLY) as [E|E].
  - rewrite E. cbn. destruct (a_bymonth a); reflexivity.
  - destruct (Z.eqb_spec (a_freq a) MONTHLY) as [E2|E2].
    + rewrite E2. cbn. reflexivity.
    + cbn [orb andb]. destruct (a_freq a =? WEEKLY); reflexivity.
Qed.

(* ---- the BY-parts *)
Lemma B_bymonth a bm o :
  gen_blk_bymonth a bm o =
  Ok (option_map sort_set (erase_i bm),
      match erase_i bm with
      | None => o
      | Some l => match o with Absent => RVal (sort_set l) | _ => o end
      end).
Proof. unfold gen_blk_bymonth. destruct bm, o; reflexivity. Qed.

Lemma B_byyearday a :
  gen_blk_byyearday a = Ok (option_map sort_set (erase_i (a_byyearday a)), given (erase_i (a_byyearday a)) sort_set).
Proof. unfold gen_blk_byyearday. destruct (a_byyearday a); reflexivity. Qed.

Lemma B_byweekno a :
  gen_blk_byweekno a = Ok (option_map sort_set (erase_i (a_byweekno a)), given (erase_i (a_byweekno a)) sort_set).
Proof. unfold gen_blk_byweekno. destruct (a_byweekno a); reflexivity. Qed.

Lemma B_byeaster a :
  gen_blk_byeaster a = Ok (given (erase_i (a_byeaster a)) sortZ, option_map sortZ (erase_i (a_byeaster a))).
Proof. unfold gen_blk_byeaster. destruct (a_byeaster a); reflexivity. Qed.

Definition md_rec (l : list Z) : list Z :=
  let md := sort_set l in filter (fun x => 0 <? x) md ++ filter (fun x => x <? 0) md.

Lemma B_bymonthday2 a bmd o :
  gen_blk_bymonthday2 a bmd o =
  if memZ 0 (opt_list (erase_i bmd)) then Err EValue else       (* fix 55654b4 *)
  Ok (filter (fun x => 0 <? x) (sort_set (opt_list (erase_i bmd))),
      filter (fun x => x <? 0) (sort_set (opt_list (erase_i bmd))),
      match erase_i bmd with
      | None => o
      | Some l => match o with Absent => RVal (md_rec l) | _ => o end
      end).
Proof.
  unfold gen_blk_bymonthday2, md_rec. destruct bmd as [|k|l]; cbn [erase_i opt_list]; [reflexivity| |];
    (match goal with |- context [memZ 0 ?x] => destruct (memZ 0 x) end; [reflexivity|]);
    rewrite !sort_set_filter_comm; destruct o; reflexivity.
Qed.

(* ---- byweekday *)
Definition wd_fold (fr : Z) (l : list wdm) : list Z * list (Z * Z) :=
  fold_right (fun e_wday acc =>
    match e_wday with
    | WInt w_e => (w_e :: fst acc, snd acc)
    | WObj w_e n_e => if negb (negb (n_e =? 0)) || (MONTHLY <? fr) then (w_e :: fst acc, snd acc)
                      else (fst acc, (w_e, n_e) :: snd acc)
    end) ([], []) l.

Lemma wd_fold_split fr l : wd_fold fr l = split_weekday fr (map erase_m l).
Proof.
  unfold wd_fold, split_weekday. induction l as [|m t IH]; [reflexivity|].
  cbn [fold_right map]. rewrite IH. destruct m as [w|w n]; cbn [erase_m].
  - reflexivity.
  - rewrite negb_involutive. reflexivity.
Qed.

Definition wd_rec (fr : Z) (l : list (Z * Z)) : list (Z * Z) :=
  let '(plain, nth) := split_weekday fr l in map (fun w => (w, 0)) (sort_set plain) ++ sort_set_pair nth.

Lemma wd_core fr (lm : list wdm) o :
  (let f_1 := wd_fold fr lm in
   if negb (nonempty (fst f_1)) then
     if match o with Absent => true | _ => false end
     then Ok (None, Some (sort_set_pair (snd f_1)), RVal ([] ++ sort_set_pair (snd f_1)))
     else Ok (None, Some (sort_set_pair (snd f_1)), o)
   else if negb (nonempty (snd f_1)) then
     if match o with Absent => true | _ => false end
     then Ok (Some (sort_set (fst f_1)), None, RVal (map wd_plain (sort_set (fst f_1)) ++ []))
     else Ok (Some (sort_set (fst f_1)), None, o)
   else
     if match o with Absent => true | _ => false end
     then Ok (Some (sort_set (fst f_1)), Some (sort_set_pair (snd f_1)),
              RVal (map wd_plain (sort_set (fst f_1)) ++ sort_set_pair (snd f_1)))
     else Ok (Some (sort_set (fst f_1)), Some (sort_set_pair (snd f_1)), o)) =
  (let v := v_wd fr (Some (map erase_m lm)) in
   Ok (fst v, snd v, match o with Absent => RVal (wd_rec fr (map erase_m lm)) | _ => o end)
   : res (option (list Z) * option (list (Z * Z)) * ent (Z * Z))).
Proof.
  cbv zeta. unfold v_wd, wd_rec. rewrite wd_fold_split.
  destruct (split_weekday fr (map erase_m lm)) as [plain nth]. cbn [fst snd].
  rewrite nonempty_sort_set, nonempty_sort_set_pair.
  destruct plain as [|p pt].
  - cbn [nonempty negb]. change (sort_set []) with (@nil Z). cbn [map app]. destruct o; reflexivity.
  - cbn [nonempty negb]. destruct nth as [|q qt].
    + cbn [nonempty negb]. change (sort_set_pair []) with (@nil (Z * Z)). destruct o; reflexivity.
    + cbn [nonempty negb]. destruct o; reflexivity.
Qed.

Lemma B_byweekday a bw o :
  gen_blk_byweekday a bw o =
  Ok (fst (v_wd (a_freq a) (erase_w bw)), snd (v_wd (a_freq a) (erase_w bw)),
      match erase_w bw with
      | None => o
      | Some l => match o with Absent => RVal (wd_rec (a_freq a) l) | _ => o end
      end).
Proof.
  unfold gen_blk_byweekday. destruct bw as [|[w|w n]|l]; cbn [erase_w].
  - reflexivity.
  - exact (wd_core (a_freq a) [WInt w] o).
  - exact (wd_core (a_freq a) [WObj w n] o).
  - exact (wd_core (a_freq a) l o).
Qed.

(* ---- byhour / byminute / bysecond *)
Lemma B_time (blk : res (option (list Z) * ent Z)) (arg : iarg) (below level : bool) (itv start base : Z) :
  blk = match arg with
        | INone => if below then Ok (Some [start], Absent) else Ok (None, Absent)
        | IOne k => if level then do c <- gen_construct_byset itv start (IMany [k]) base;
                                  Ok (Some (sort_set c), RVal (sort_set [k]))
                    else Ok (Some (sort_set [k]), RVal (sort_set [k]))
        | IMany l => if level then do c <- gen_construct_byset itv start (IMany l) base;
                                   Ok (Some (sort_set c), RVal (sort_set l))
                     else Ok (Some (sort_set l), RVal (sort_set l))
        end ->
  blk = (do v <- v_time (erase_i arg) below level itv start base; Ok (v, given (erase_i arg) sort_set)).
Proof.
  intros ->. destruct arg as [|k|l]; cbn [erase_i v_time given].
  - destruct below; reflexivity.
  - destruct level; [|reflexivity]. rewrite gen_construct_byset_eq.
    destruct (construct_byset itv start [k] base); reflexivity.
  - destruct level; [|reflexivity]. rewrite gen_construct_byset_eq.
    destruct (construct_byset itv start l base); reflexivity.
Qed.

Lemma B_byhour a hh :
  gen_blk_byhour a hh =
  (do v <- v_time (erase_i (a_byhour a)) (a_freq a <? HOURLY) (a_freq a =? HOURLY) (a_interval a) hh 24;
   Ok (v, given (erase_i (a_byhour a)) sort_set)).
Proof. apply B_time. reflexivity. Qed.
Lemma B_byminute a mm :
  gen_blk_byminute a mm =
  (do v <- v_time (erase_i (a_byminute a)) (a_freq a <? MINUTELY) (a_freq a =? MINUTELY) (a_interval a) mm 60;
   Ok (v, given (erase_i (a_byminute a)) sort_set)).
Proof. apply B_time. reflexivity. Qed.
Lemma B_bysecond a ss :
  gen_blk_bysecond a ss =
  (do v <- v_time (erase_i (a_bysecond a)) (a_freq a <? SECONDLY) (a_freq a =? SECONDLY) (a_interval a) ss 60;
   Ok (v, given (erase_i (a_bysecond a)) sort_set)).
Proof. apply B_time. reflexivity. Qed.

(* ------------------------------------------------------------------------------------------ *)
Lemma erase_i_if (c : bool) k x : erase_i (if c then IOne k else x) = if c then Some [k] else erase_i x.
Proof. destruct c; reflexivity. Qed.
Lemma erase_w_if (c : bool) w x : erase_w (if c then WOne (WInt w) else x) = if c then Some [(w, 0)] else erase_w x.
Proof. destruct c; reflexivity. Qed.

Theorem gen_init_is_model : forall a,
  gen_init a = (do ru <- normalize (erase a); Ok (ru, record (erase a))).
Proof.
  intros a. rewrite normalize2_eq. unfold gen_init, normalize2, record.
  cbn [erase r_freq r_isdate r_y r_m r_d r_H r_M r_S r_interval r_wkst r_count r_until r_tzmix r_bysetpos r_bymonth
       r_bymonthday r_byyearday r_byeaster r_byweekno r_byweekday r_byhour r_byminute r_bysecond].
  rewrite !is_none_erase_i, !is_none_erase_w.
  rewrite B_bysetpos, B_defaults. unfold v_setpos_ok.
  fold (nod a). change (nod a && (a_freq a =? YEARLY) && is_inone (a_bymonth a)) with (d_m a).
  change (nod a && ((a_freq a =? YEARLY) || (a_freq a =? MONTHLY))) with (d_md a).
  change (nod a && (a_freq a =? WEEKLY)) with (d_wd a).
  destruct (a_isdate a);
    (destruct (negb (is_none (a_until a)) && a_tzmix a); [reflexivity|];
     destruct (negb match erase_i (a_bysetpos a) with None => true | Some l => setpos_ok l end); [reflexivity|];
     cbn [bind]; rewrite B_bysetpos2; cbn [bind];
     rewrite B_bymonth, B_byyearday, B_byeaster; cbn [bind];
     rewrite B_bymonthday2; rewrite ?erase_i_if; unfold v_zero;
     (* fix 55654b4: the source raises here, the model among its later binds; in between only total blocks *)
     match goal with |- context [memZ 0 ?x] => destruct (memZ 0 x) end;
     [ cbn [bind]; match goal with |- context [v_wd ?f ?x] => destruct (v_wd f x) end; reflexivity |];
     cbn [bind]; rewrite B_byweekno, B_byweekday; cbn [bind];
     rewrite B_byhour, B_byminute, B_bysecond;
     rewrite ?erase_i_if, ?erase_w_if;
     generalize (d_m a) (d_md a) (d_wd a); intros c1 c2 c3;
     match goal with |- context [v_wd ?f ?x] => destruct (v_wd f x) as [wd1 wd2] end; cbn [fst snd];
     match goal with |- context [v_time ?o ?b ?l ?i ?s 24] => destruct (v_time o b l i s 24) as [h1|e1]; [|reflexivity] end; cbn [bind];
     match goal with |- context [v_time ?o ?b ?l ?i ?s 60] => destruct (v_time o b l i s 60) as [m1|e2]; [|reflexivity] end; cbn [bind];
     match goal with |- context [v_time ?o ?b ?l ?i ?s 60] => destruct (v_time o b l i s 60) as [s1|e3]; [|reflexivity] end; cbn [bind];
     match goal with |- context [time_product ?x ?y ?z] => destruct (HOURLY <=? a_freq a); [|destruct (time_product x y z)] end; cbn [bind];
     try reflexivity;
     destruct c1, c2, c3; destruct (a_bymonth a), (a_bymonthday a), (a_byweekday a) as [|[?|? ?]|?]; reflexivity).
Qed.

(* ---- corollaries *)
Theorem gen_init_normalize : forall a ru o, gen_init a = Ok (ru, o) -> normalize (erase a) = Ok ru /\ o = record (erase a).
Proof.
  intros a ru o H. rewrite gen_init_is_model in H. destruct (normalize (erase a)) as [ru'|e]; cbn [bind] in H; [|discriminate].
  injection H as <- <-. split; reflexivity.
Qed.

Theorem gen_init_error : forall a e, gen_init a = Err e <-> normalize (erase a) = Err e.
Proof.
  intros a e. rewrite gen_init_is_model. destruct (normalize (erase a)) as [ru'|e']; cbn [bind].
  - split; intros H; discriminate H.
  - split; intros H; injection H as ->; reflexivity.
Qed.

(* replace(): the translator accepts only `attributes, .update(_original_rule), .update(kwargs), rrule(..)` *)
Theorem gen_replace_raw_is_model : forall r u, gen_replace_raw r u = replace_raw r u.
Proof. reflexivity. Qed.

(* the whole chain read from the source: for a rule built from arguments a, replace(u) constructs what the
   constructor builds from the original arguments with the named ones changed *)
Theorem gen_replace_only_named : forall a u,
  replace_guard (erase a) u ->
  normalize (gen_replace_raw (erase a) u) = normalize (apply_upd (erase a) u).
Proof. intros a u G. rewrite gen_replace_raw_is_model. exact (replace_only_named (erase a) u G). Qed.

(* non-vacuity: a concrete constructor call through the generated definitions *)
Definition args0 : args :=
  mkArgs HOURLY false 1997 9 2 9 0 0 2 (KObj 6) 0 (Some 4) None false
         (IOne (-1)) INone INone INone INone INone (WMany [WInt 1; WObj 3 0]) (IMany [4; 1; 3; 2; 3]) INone INone.
Example gen_init_example :
  exists ru o, gen_init args0 = Ok (ru, o) /\ byhour ru = Some [1; 3] /\ wkst ru = 6 /\ byweekday ru = Some [1; 3] /\
               o_byhour o = RVal [1; 2; 3; 4] /\ o_bysetpos o = RVal [-1].
Proof. eexists _, _. split; [vm_compute; reflexivity|]. repeat split. Qed.
