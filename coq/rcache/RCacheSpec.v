(* C11 -- specification: what an iterator / query observes over an UNCACHED rule.

   An uncached rule's __iter__ returns the underlying generator itself, which yields `seq` in order;
   there is no shared state, so the observation depends on nothing but `seq`:
     - the j-th next() of any iterator returns the j-th element of seq, StopIteration afterwards;
     - list / first-k / index / count are the plain list functions;
     - contains / between / before / after are their own early-exit loops run over seq
       (their agreement with list-level definitions is C12's subject, not C11's). *)
From Coq Require Import ZArith List Bool Arith.
From V Require Import rcache.RCacheModel.
Import ListNotations.
Open Scope Z_scope.

Definition spec_next (seq : list Z) (j : nat) : option Z := nth_error seq j.

Definition spec_result (o : op) (seq : list Z) : outcome :=
  match o with
  | OList => Ret seq
  | OTake k => Ret (firstn k seq)
  | OGet k => match nth_error seq k with Some v => Ret [v] | None => Raise EIndexError end
  | OCount => Ret [Z.of_nat (length seq)]
  | OContains _ | OBetween _ _ _ | OBefore _ _ | OAfter _ _ | OXafter _ _ _ => result o (consume o seq)
  | OSliceTo k => Ret (firstn k seq)
  | ONegIdx k => match nth_error (rev seq) k with Some v => Ret [v] | None => Raise EIndexError end
  end.

(* what an iterator may have delivered at any moment: a prefix of seq *)
Definition is_prefix (l seq : list Z) : Prop := l = firstn (length l) seq.

(* An uncached rule whose generator RAISES after yielding seq (finding F-C11-raise): an operation that
   consumes all of seq and asks for more gets the ValueError, every time; one that stops earlier does not. *)
Definition spec_result_raising (o : op) (seq : list Z) : outcome :=
  let c := consume o seq in
  if (length c =? length seq)%nat && wants o c then Raise EValueError else result o c.
