(* C12 -- an INDEPENDENT characterisation of Python indexing and slicing, not built from PyList.py_slice:
     index  : L[k] is nth_error at k (k >= 0) or at n + k (k < 0), IndexError outside -n..n-1;
     slice  : the Python reference ("s[i:j:k]: the items with index x = i + m*k, m = 0, 1, 2, ..., stopping when
              j is reached, never including j; negative i, j are relative to the end; i, j are clipped; omitted
              i, j become end values that depend on the sign of k; k = 0 is an error") written as explicit index
              arithmetic: clamped bounds (ap_bounds) and the selection predicate of the arithmetic progression
              (ap_sel).  py_slice_is_ap: PyList.py_slice returns exactly that progression, for ALL lists and ALL
              None / negative / positive components and steps. *)
From Coq Require Import ZArith List Bool Lia.
From V Require Import rcache.PyList.
Import ListNotations.
Open Scope Z_scope.

Definition clampZ (lo hi x : Z) : Z := Z.max lo (Z.min hi x).
Definition rel (n v : Z) : Z := if v <? 0 then v + n else v.

Definition ap_bounds (n : Z) (a b c : option Z) : option (Z * Z * Z) :=
  let k := match c with None => 1 | Some k => k end in
  if k =? 0 then None
  else
    let clip v := if 0 <? k then clampZ 0 n (rel n v) else clampZ (-1) (n - 1) (rel n v) in
    let i := match a with None => if 0 <? k then 0 else n - 1 | Some v => clip v end in
    let j := match b with None => if 0 <? k then n else -1 | Some v => clip v end in
    Some (i, j, k).

(* the m-th index of the progression has not reached j *)
Definition ap_sel (i j k : Z) (m : nat) : bool :=
  let x := i + Z.of_nat m * k in if 0 <? k then x <? j else j <? x.

Definition spec_index (l : list Z) (k : Z) : option Z :=
  let n := zlen l in
  if (0 <=? k) && (k <? n) then nth_error l (Z.to_nat k)
  else if (- n <=? k) && (k <? 0) then nth_error l (Z.to_nat (n + k))
  else None.

Lemma py_index_is_spec : forall l k, py_index l k = spec_index l k.
Proof.
  intros l k. unfold py_index, spec_index. pose proof (Zle_0_nat (length l)) as Hn. fold (zlen l) in Hn.
  destruct (k <? 0) eqn:E.
  - apply Z.ltb_lt in E. replace (0 <=? k) with false by (symmetry; apply Z.leb_gt; lia). cbn [andb].
    rewrite andb_true_r. destruct (0 <=? k + zlen l) eqn:E1.
    + apply Z.leb_le in E1. replace (k + zlen l <? zlen l) with true by (symmetry; apply Z.ltb_lt; lia).
      replace (- zlen l <=? k) with true by (symmetry; apply Z.leb_le; lia). cbn [andb].
      replace (zlen l + k) with (k + zlen l) by lia. reflexivity.
    + apply Z.leb_gt in E1. replace (- zlen l <=? k) with false by (symmetry; apply Z.leb_gt; lia). reflexivity.
  - apply Z.ltb_ge in E. replace (0 <=? k) with true by (symmetry; apply Z.leb_le; lia). cbn [andb].
    destruct (k <? zlen l); [reflexivity|]. rewrite andb_false_r. reflexivity.
Qed.

Lemma adjust_clamp : forall n k v, 0 <= n -> k <> 0 ->
  adjust n k v = if 0 <? k then clampZ 0 n (rel n v) else clampZ (-1) (n - 1) (rel n v).
Proof.
  intros n k v Hn Hk. unfold adjust, clampZ, rel.
  destruct (v <? 0) eqn:E1; destruct (0 <? k) eqn:E2; destruct (k <? 0) eqn:E3;
    try (apply Z.ltb_lt in E1); try (apply Z.ltb_ge in E1); try (apply Z.ltb_lt in E2); try (apply Z.ltb_ge in E2);
    try (apply Z.ltb_lt in E3); try (apply Z.ltb_ge in E3); try lia.
  - destruct (v + n <? 0) eqn:E4; [apply Z.ltb_lt in E4 | apply Z.ltb_ge in E4]; lia.
  - destruct (v + n <? 0) eqn:E4; [apply Z.ltb_lt in E4 | apply Z.ltb_ge in E4]; lia.
  - destruct (n <=? v) eqn:E4; [apply Z.leb_le in E4 | apply Z.leb_gt in E4]; lia.
  - destruct (n <=? v) eqn:E4; [apply Z.leb_le in E4 | apply Z.leb_gt in E4]; lia.
Qed.

Lemma bounds_eq : forall l a b c, slice_indices (zlen l) a b c = ap_bounds (zlen l) a b c.
Proof.
  intros l a b c. unfold slice_indices, ap_bounds. pose proof (Zle_0_nat (length l)) as Hn. fold (zlen l) in Hn.
  set (k := match c with Some s => s | None => 1 end).
  destruct (k =? 0) eqn:E; [reflexivity|]. apply Z.eqb_neq in E.
  assert (Hs : (k <? 0) = negb (0 <? k)).
  { destruct (k <? 0) eqn:A; destruct (0 <? k) eqn:B; try reflexivity;
      try (apply Z.ltb_lt in A); try (apply Z.ltb_ge in A); try (apply Z.ltb_lt in B); try (apply Z.ltb_ge in B); lia. }
  cbv zeta.
  replace (match a with Some v => adjust (zlen l) k v | None => if k <? 0 then zlen l - 1 else 0 end)
    with (match a with
          | Some v => if 0 <? k then clampZ 0 (zlen l) (rel (zlen l) v) else clampZ (-1) (zlen l - 1) (rel (zlen l) v)
          | None => if 0 <? k then 0 else zlen l - 1 end).
  2:{ destruct a as [v|]; [symmetry; apply adjust_clamp; assumption|]. rewrite Hs. destruct (0 <? k); reflexivity. }
  replace (match b with Some v => adjust (zlen l) k v | None => if k <? 0 then -1 else zlen l end)
    with (match b with
          | Some v => if 0 <? k then clampZ 0 (zlen l) (rel (zlen l) v) else clampZ (-1) (zlen l - 1) (rel (zlen l) v)
          | None => if 0 <? k then zlen l else -1 end).
  2:{ destruct b as [v|]; [symmetry; apply adjust_clamp; assumption|]. rewrite Hs. destruct (0 <? k); reflexivity. }
  reflexivity.
Qed.

Lemma slice_len_sel : forall i j k (m : nat), k <> 0 ->
  (Z.of_nat m <? slice_len i j k) = ap_sel i j k m.
Proof.
  intros i j k m Hk. unfold slice_len, ap_sel. pose proof (Zle_0_nat m) as Hm.
  destruct (0 <? k) eqn:E; [apply Z.ltb_lt in E | apply Z.ltb_ge in E].
  - destruct (i <? j) eqn:E1; [apply Z.ltb_lt in E1 | apply Z.ltb_ge in E1].
    + destruct (i + Z.of_nat m * k <? j) eqn:E2; [apply Z.ltb_lt in E2 | apply Z.ltb_ge in E2].
      * apply Z.ltb_lt. assert (Z.of_nat m <= (j - i - 1) / k); [|lia].
        apply Z.div_le_lower_bound; [lia | nia].
      * apply Z.ltb_ge. assert ((j - i - 1) / k < Z.of_nat m); [|lia].
        apply Z.div_lt_upper_bound; [lia | nia].
    + replace (i + Z.of_nat m * k <? j) with false by (symmetry; apply Z.ltb_ge; nia).
      apply Z.ltb_ge. lia.
  - assert (Hk' : 0 < - k) by lia.
    destruct (j <? i) eqn:E1; [apply Z.ltb_lt in E1 | apply Z.ltb_ge in E1].
    + destruct (j <? i + Z.of_nat m * k) eqn:E2; [apply Z.ltb_lt in E2 | apply Z.ltb_ge in E2].
      * apply Z.ltb_lt. assert (Z.of_nat m <= (i - j - 1) / (- k)); [|lia].
        apply Z.div_le_lower_bound; [lia | nia].
      * apply Z.ltb_ge. assert ((i - j - 1) / (- k) < Z.of_nat m); [|lia].
        apply Z.div_lt_upper_bound; [lia | nia].
    + replace (j <? i + Z.of_nat m * k) with false by (symmetry; apply Z.ltb_ge; nia).
      apply Z.ltb_ge. lia.
Qed.

Lemma nth_error_map_seq : forall (f : nat -> Z) cnt m,
  nth_error (map f (seq 0 cnt)) m = if (m <? cnt)%nat then Some (f m) else None.
Proof.
  intros f cnt m. destruct (m <? cnt)%nat eqn:E.
  - apply Nat.ltb_lt in E. rewrite nth_error_map. rewrite (nth_error_nth' (seq 0 cnt) 0%nat) by (rewrite seq_length; exact E).
    cbn [option_map]. rewrite seq_nth by exact E. reflexivity.
  - apply Nat.ltb_ge in E. apply nth_error_None. rewrite map_length, seq_length. exact E.
Qed.

(* PyList.py_slice IS the arithmetic progression of the Python reference *)
Theorem py_slice_is_ap : forall l a b c,
  match ap_bounds (zlen l) a b c, py_slice l a b c with
  | None, None => True                                    (* step 0: ValueError *)
  | Some (i, j, k), Some r =>
      forall m : nat, nth_error r m =
                      if ap_sel i j k m then nth_error l (Z.to_nat (i + Z.of_nat m * k)) else None
  | _, _ => False
  end.
Proof.
  intros l a b c. unfold py_slice. rewrite bounds_eq.
  destruct (ap_bounds (zlen l) a b c) as [[[i j] k]|] eqn:EB; [|exact I].
  intros m. rewrite nth_error_map_seq.
  assert (Hk : k <> 0).
  { unfold ap_bounds in EB. destruct (match c with Some k0 => k0 | None => 1 end =? 0) eqn:E; [discriminate|].
    injection EB as _ _ <-. apply Z.eqb_neq in E. exact E. }
  pose proof (slice_len_sel i j k m Hk) as HS.
  assert (Hcnt : (m <? Z.to_nat (slice_len i j k))%nat = (Z.of_nat m <? slice_len i j k)).
  { destruct (Z.of_nat m <? slice_len i j k) eqn:E; [apply Z.ltb_lt in E; apply Nat.ltb_lt; lia
                                                     | apply Z.ltb_ge in E; apply Nat.ltb_ge; lia]. }
  rewrite Hcnt, HS. destruct (ap_sel i j k m) eqn:Sel; [|reflexivity].
  (* a selected index lies inside the list *)
  pose proof (Zle_0_nat (length l)) as Hn. fold (zlen l) in Hn. pose proof (Zle_0_nat m) as Hm.
  assert (Hr : 0 <= i + Z.of_nat m * k < zlen l).
  { unfold ap_bounds in EB. destruct (match c with Some k0 => k0 | None => 1 end =? 0); [discriminate|].
    injection EB as Ei Ej Ek. subst k. unfold ap_sel in Sel. set (k := match c with Some k0 => k0 | None => 1 end) in *.
    unfold clampZ, rel in *.
    destruct (0 <? k) eqn:E; [apply Z.ltb_lt in E; apply Z.ltb_lt in Sel | apply Z.ltb_ge in E; apply Z.ltb_lt in Sel].
    - destruct a as [va|], b as [vb|]; subst i j;
        repeat match goal with |- context [if ?x <? 0 then _ else _] => destruct (x <? 0) end;
        repeat match goal with H : context [if ?x <? 0 then _ else _] |- _ => destruct (x <? 0) end; nia.
    - destruct a as [va|], b as [vb|]; subst i j;
        repeat match goal with |- context [if ?x <? 0 then _ else _] => destruct (x <? 0) end;
        repeat match goal with H : context [if ?x <? 0 then _ else _] |- _ => destruct (x <? 0) end; nia. }
  symmetry. apply nth_error_nth'. unfold zlen in Hr. lia.
Qed.

(* ------------------------------------------------------------------------------------------ *)
(* rule[item] against the independent reference (both code paths of rrulebase.__getitem__) *)
From V Require Import rcache.RQueryModel rcache.RQuerySpec rcache.RQueryThm.

Theorem getitem_python_reference : forall complete l it,
  match it with
  | IInt k =>
      getitem complete l it = match spec_index l k with Some v => QVal v | None => QIndexError end
  | ISlice a b c =>
      match ap_bounds (zlen l) a b c with
      | None => getitem complete l it = QValueError
      | Some (i, j, k) =>
          exists r, getitem complete l it = QList r /\
                    forall m : nat, nth_error r m =
                                    if ap_sel i j k m then nth_error l (Z.to_nat (i + Z.of_nat m * k)) else None
      end
  end.
Proof.
  intros complete l it. rewrite getitem_correct. unfold spec_getitem, py_getitem.
  destruct it as [k|a b c].
  - rewrite py_index_is_spec. unfold of_index. destruct (spec_index l k); reflexivity.
  - pose proof (py_slice_is_ap l a b c) as H.
    destruct (ap_bounds (zlen l) a b c) as [[[i j] k]|]; destruct (py_slice l a b c) as [r|]; try contradiction.
    + exists r. split; [reflexivity | exact H].
    + reflexivity.
Qed.

(* non-vacuity: [10;20;30;40;50][-2::-2] = [40;20], [..][7] raises, [..][::0] raises *)
Example getitem_reference_example :
  ap_bounds 5 (Some (-2)) None (Some (-2)) = Some (3, -1, -2) /\
  getitem false [10; 20; 30; 40; 50] (ISlice (Some (-2)) None (Some (-2))) = QList [40; 20] /\
  getitem false [10; 20; 30; 40; 50] (IInt 7) = QIndexError /\
  getitem false [10; 20; 30; 40; 50] (IInt (-5)) = QVal 10 /\
  getitem true [10; 20; 30; 40; 50] (ISlice None None (Some 0)) = QValueError.
Proof. repeat split; reflexivity. Qed.
