(* Python list / iterator primitives used by rrulebase's query methods.

   py_index, py_slice : CPython list.__getitem__ for an int / a slice object
                        (PySlice_Unpack + PySlice_AdjustIndices + list_subscript), i.e. L[i], L[a:b:c].
   islice             : itertools.islice(iterable, start, stop, step) for None / non-negative
                        arguments (islice_next of Modules/itertoolsmodule.c), collected by list().

   These are runtime primitives (trusted base: "list slicing", "itertools.islice"); harness/check_C12.py
   compares both against the running CPython on exhaustive small domains every run.
   No proofs in this file. *)
From Coq Require Import ZArith List Bool.
Import ListNotations.
Open Scope Z_scope.

Definition zlen (l : list Z) : Z := Z.of_nat (length l).

(* L[k] : None = IndexError *)
Definition py_index (l : list Z) (k : Z) : option Z :=
  let k' := if k <? 0 then k + zlen l else k in
  if (0 <=? k') && (k' <? zlen l) then nth_error l (Z.to_nat k') else None.

(* PySlice_AdjustIndices for one bound *)
Definition adjust (len step v : Z) : Z :=
  if v <? 0 then
    let v' := v + len in
    if v' <? 0 then (if step <? 0 then -1 else 0) else v'
  else if len <=? v then (if step <? 0 then len - 1 else len)
  else v.

(* slice(a,b,c).indices(len) : None = ValueError (slice step cannot be zero) *)
Definition slice_indices (len : Z) (a b c : option Z) : option (Z * Z * Z) :=
  let step := match c with None => 1 | Some s => s end in
  if step =? 0 then None
  else
    let start := match a with
                 | None => if step <? 0 then len - 1 else 0
                 | Some v => adjust len step v
                 end in
    let stop := match b with
                | None => if step <? 0 then -1 else len
                | Some v => adjust len step v
                end in
    Some (start, stop, step).

(* PySlice_AdjustIndices' return value: number of selected indices *)
Definition slice_len (start stop step : Z) : Z :=
  if 0 <? step then (if start <? stop then (stop - start - 1) / step + 1 else 0)
  else (if stop <? start then (start - stop - 1) / (- step) + 1 else 0).

(* L[a:b:c] : None = ValueError *)
Definition py_slice (l : list Z) (a b c : option Z) : option (list Z) :=
  match slice_indices (zlen l) a b c with
  | None => None
  | Some (s, e, st) =>
      Some (map (fun k => nth (Z.to_nat (s + Z.of_nat k * st)) l 0)
                (seq 0 (Z.to_nat (slice_len s e st))))
  end.

(* itertools.islice: `cnt` items consumed so far, `next` = index of the next item to deliver.
   Mirrors islice_next: skip while cnt < next; stop when cnt >= stop; deliver; next += step,
   clamped to stop. *)
Fixpoint islice_go (l : list Z) (cnt next : Z) (stop : option Z) (step : Z) : list Z :=
  match l with
  | [] => []
  | x :: r =>
      if cnt <? next then islice_go r (cnt + 1) next stop step
      else
        match stop with
        | Some s =>
            if s <=? cnt then []
            else let n' := next + step in
                 x :: islice_go r (cnt + 1) (if s <? n' then s else n') stop step
        | None => x :: islice_go r (cnt + 1) (next + step) stop step
        end
  end.

(* list(islice(iter(l), a, b, c)) for a, b, c each None or >= 0 : None = ValueError (step 0) *)
Definition islice (l : list Z) (a b c : option Z) : option (list Z) :=
  let start := match a with None => 0 | Some v => v end in
  let step := match c with None => 1 | Some v => v end in
  if step =? 0 then None else Some (islice_go l 0 start b step).
