(* Vocabulary of the definitions REGENERATED from /repo/src/dateutil/rrule.py by harness/gen_rcache.py
   (coq/gen/RQueryGen.v, coq/gen/RCacheGen.v).  Hand-written, no proofs.

   Part (a), query methods: a `for x in gen:` loop becomes a Fixpoint over the abstract sequence that
   returns  LRet r  (a `return` inside the loop)  or  LExit st  (`break`, or the sequence is exhausted)
   with st = the tuple of the loop's state variables.

   Part (b), _iter_cached / __iter__ / _invalidate_cache / __init__: one `instr` per source line (its
   effect on i, cache, complete, gen, lock, _len and where control goes next, as line offsets from the
   `def` line); `table_step` interprets a table of instructions on the state of RCacheModel.v. *)
From Coq Require Import ZArith List Bool Arith.
From V Require Import rcache.PyList rcache.RCacheModel rcache.RQueryModel.
Import ListNotations.
Open Scope Z_scope.

Inductive lres (S R : Type) : Type :=
| LRet (r : R)
| LExit (s : S).
Arguments LRet {S R} r.
Arguments LExit {S R} s.

(* contract of the underlying generator (rrule._iter / rruleset._iter), C11: a pass over the whole rule
   leaves self._len = number of items *)
Definition published (l : list Z) : option Z := Some (zlen l).

(* ------------------------------------------------------------------------------------------ *)
(* instructions: what one source line of _iter_cached does.  Targets are line offsets. *)

Inductive instr : Type :=
| IAssignI0                              (* i = 0 *)
| IGetGen                                (* gen = self._cache_gen *)
| ILocal                                 (* <local> = self.<attribute that never changes> *)
| IWhileGen (exit : nat)                 (* while gen:            else -> exit *)
| IIfILen (els : nat)                    (* if i == len(cache):   else -> els *)
| IAcquire                               (* acquire() *)
| ITry                                   (* try: *)
| IIfComplete (els : nat)                (* if self._cache_complete:   else -> els *)
| IBreak (fin after : nat)               (* break inside try/finally: run line fin, continue at after *)
| IFor (n : nat) (fin : nat)             (* for j in range(n):    exhausted -> fin (the finally line) *)
| IAppendNext (back handler : nat)       (* cache.append(advance_iterator(gen)); loop back / StopIteration -> handler *)
| IExcept                                (* except StopIteration: *)
| ISetGenNone                            (* self._cache_gen = gen = None *)
| ISetComplete                           (* self._cache_complete = True *)
| IRelease (next : nat)                  (* release()   (finally); falls through to next *)
| IYield                                 (* yield cache[i] *)
| IIncr (back : nat)                     (* i += 1; loop back *)
| IWhileLen (exit : nat).                (* while i < self._len:   else -> exit (end of the generator) *)

Definition table := list (nat * instr).

Fixpoint lookup (tb : table) (line : nat) : option instr :=
  match tb with
  | [] => None
  | (k, ins) :: r => if (k =? line)%nat then Some ins else lookup r line
  end.

Definition instr_eqb (a b : instr) : bool :=
  match a, b with
  | IAssignI0, IAssignI0 | IGetGen, IGetGen | ILocal, ILocal | IAcquire, IAcquire | ITry, ITry
  | IExcept, IExcept | ISetGenNone, ISetGenNone | ISetComplete, ISetComplete | IYield, IYield => true
  | IWhileGen x, IWhileGen y | IIfILen x, IIfILen y | IIfComplete x, IIfComplete y
  | IRelease x, IRelease y | IIncr x, IIncr y | IWhileLen x, IWhileLen y => (x =? y)%nat
  | IBreak x1 x2, IBreak y1 y2 | IFor x1 x2, IFor y1 y2 | IAppendNext x1 x2, IAppendNext y1 y2 =>
      (x1 =? y1)%nat && (x2 =? y2)%nat
  | _, _ => false
  end.

Fixpoint table_eqb (a b : table) : bool :=
  match a, b with
  | [], [] => true
  | (k, x) :: r, (k', y) :: r' => (k =? k')%nat && instr_eqb x y && table_eqb r r'
  | _, _ => false
  end.

(* shared-state effects of single statements of _invalidate_cache / __init__ *)
Definition set_cache (v : list Z) (s : shared) : shared := Sh v (complete s) (sgen s) (gpos s) (gdone s) (lock s) (lenp s).
Definition set_complete (v : bool) (s : shared) : shared := Sh (cache s) v (sgen s) (gpos s) (gdone s) (lock s) (lenp s).
(* self._cache_gen = self._iter(): a fresh generator at position 0 *)
Definition set_newgen (s : shared) : shared := Sh (cache s) (complete s) true 0 false (lock s) (lenp s).
Definition set_len (v : option nat) (s : shared) : shared := Sh (cache s) (complete s) (sgen s) (gpos s) (gdone s) (lock s) v.
Definition set_lock (v : option nat) (s : shared) : shared := Sh (cache s) (complete s) (sgen s) (gpos s) (gdone s) v (lenp s).
(* if self._cache_lock.locked(): self._cache_lock.release() *)
Definition release_if_locked (s : shared) : shared := set_lock None s.

(* ------------------------------------------------------------------------------------------ *)
(* interpreter of a table: one granted source line of thread t.  Each instruction has its generic
   meaning (what that kind of Python statement does to the locals and to self); where control goes is
   taken from the table (next entry, or the recorded jump target); `pc_of_line` names the program
   counter of RCacheModel.v that sits at a line offset. *)

(* how the `finally: release()` line is being executed *)
Inductive fmode : Type := FNormal | FBreak | FExc.

Definition pc_of_line (line j : nat) (m : fmode) : pc :=
  match line with
  | 1 => PInit | 2 => PGetGen | 3 => PGetCache | 4 => PGetAcq | 5 => PGetRel | 6 => PWhile
  | 7 => PIfLen | 8 => PAcquire | 9 => PTryO | 10 => PTestC | 11 => PBreakC | 12 => PTryI
  | 13 => PFor j | 14 => PAdvance j
  | 15 => match m with FExc => PExcX | _ => PExcept end
  | 16 => PSetGen | 17 => PSetC | 18 => PBreakE
  | 20 => match m with FNormal => PRelease false | FBreak => PRelease true | FExc => PRelX end
  | 21 => PYield | 22 => PIncr | 23 => PTWhile | 24 => PTYield | 25 => PTIncr
  | _ => PDone
  end%nat.

(* line, loop counter and finally-mode of a program counter that is a line of _iter_cached *)
Definition line_of_pc (p : pc) : option (nat * nat * fmode) :=
  match p with
  | PInit => Some (1, 0, FNormal) | PGetGen => Some (2, 0, FNormal) | PGetCache => Some (3, 0, FNormal)
  | PGetAcq => Some (4, 0, FNormal) | PGetRel => Some (5, 0, FNormal) | PWhile => Some (6, 0, FNormal)
  | PIfLen => Some (7, 0, FNormal) | PAcquire => Some (8, 0, FNormal) | PTryO => Some (9, 0, FNormal)
  | PTestC => Some (10, 0, FNormal) | PBreakC => Some (11, 0, FNormal) | PTryI => Some (12, 0, FNormal)
  | PFor j => Some (13, j, FNormal) | PAdvance j => Some (14, j, FNormal)
  | PExcept => Some (15, 0, FNormal) | PExcX => Some (15, 0, FExc)
  | PSetGen => Some (16, 0, FNormal) | PSetC => Some (17, 0, FNormal) | PBreakE => Some (18, 0, FNormal)
  | PRelease false => Some (20, 0, FNormal) | PRelease true => Some (20, 0, FBreak) | PRelX => Some (20, 0, FExc)
  | PYield => Some (21, 0, FNormal) | PIncr => Some (22, 0, FNormal) | PTWhile => Some (23, 0, FNormal)
  | PTYield => Some (24, 0, FNormal) | PTIncr => Some (25, 0, FNormal)
  | _ => None
  end%nat.

(* the entry that follows `line` in the table (tables are sorted by line) *)
Fixpoint succ_line (tb : table) (line : nat) : nat :=
  match tb with
  | [] => O
  | (k, _) :: r => if (line <? k)%nat then k else succ_line r line
  end.

(* where a `break` that runs the finally line `fin` continues *)
Fixpoint break_after (tb : table) (fin : nat) : nat :=
  match tb with
  | [] => O
  | (_, IBreak f a) :: r => if (f =? fin)%nat then a else break_after r fin
  | _ :: r => break_after r fin
  end.

(* the finally line of the try statement *)
Fixpoint release_line (tb : table) : nat :=
  match tb with
  | [] => O
  | (k, IRelease _) :: _ => k
  | _ :: r => release_line r
  end.

Section Interp.
Variable seq : list Z.
Variable raises : bool.
Variable tb : table.

Definition goto (th : thread) (line j : nat) (m : fmode) : thread := set_pc th (pc_of_line line j m).

Definition exec_instr (ins : instr) (line j : nat) (m : fmode) (s : shared) (t : nat) (th : thread)
  : option (shared * thread) :=
  let nxt := succ_line tb line in
  match ins with
  | IAssignI0 => Some (s, Th (t_op th) (pc_of_line nxt 0 FNormal) 0 (t_gen th) (t_out th) (t_res th))
  | IGetGen => Some (s, Th (t_op th) (pc_of_line nxt 0 FNormal) (t_i th) (sgen s) (t_out th) (t_res th))
  | ILocal => Some (s, goto th nxt 0 FNormal)
  | IWhileGen ex => Some (s, goto th (if t_gen th then nxt else ex) 0 FNormal)
  | IIfILen els => Some (s, goto th (if (t_i th =? length (cache s))%nat then nxt else els) 0 FNormal)
  | IAcquire =>
      match lock s with
      | None => Some (Sh (cache s) (complete s) (sgen s) (gpos s) (gdone s) (Some t) (lenp s), goto th nxt 0 FNormal)
      | Some _ => None
      end
  | ITry => Some (s, goto th nxt 0 FNormal)
  | IIfComplete els => Some (s, goto th (if complete s then nxt else els) 0 FNormal)
  | IBreak fin _ => Some (s, goto th fin 0 FBreak)
  | IFor n fin => Some (s, if (j <? n)%nat then goto th nxt j FNormal else goto th fin 0 FNormal)
  | IAppendNext back handler =>
      (* advance_iterator(gen): a finished generator raises StopIteration; otherwise the next item is
         appended; at the end of seq the generator publishes _len and raises StopIteration (or, when
         `raises`, raises ValueError, which the handler line does not catch) *)
      if gdone s then Some (s, goto th handler 0 FNormal)
      else match nth_error seq (gpos s) with
           | Some v => Some (Sh (cache s ++ [v]) (complete s) (sgen s) (S (gpos s)) (gdone s) (lock s) (lenp s),
                             goto th back (S j) FNormal)
           | None =>
               if raises
               then Some (Sh (cache s) (complete s) (sgen s) (gpos s) true (lock s) (lenp s), goto th handler 0 FExc)
               else Some (Sh (cache s) (complete s) (sgen s) (gpos s) true (lock s) (Some (gpos s)),
                          goto th handler 0 FNormal)
           end
  | IExcept =>
      match m with
      | FExc => Some (s, goto th (release_line tb) 0 FExc)       (* not a StopIteration: propagate through finally *)
      | _ => Some (s, goto th nxt 0 FNormal)
      end
  | ISetGenNone =>
      Some (Sh (cache s) (complete s) false (gpos s) (gdone s) (lock s) (lenp s),
            Th (t_op th) (pc_of_line nxt 0 FNormal) (t_i th) false (t_out th) (t_res th))
  | ISetComplete => Some (Sh (cache s) true (sgen s) (gpos s) (gdone s) (lock s) (lenp s), goto th nxt 0 FNormal)
  | IRelease next =>
      let s' := Sh (cache s) (complete s) (sgen s) (gpos s) (gdone s) None (lenp s) in
      match m with
      | FNormal => Some (s', goto th next 0 FNormal)
      | FBreak => Some (s', goto th (break_after tb line) 0 FNormal)
      | FExc => Some (s', Th (t_op th) PDone (t_i th) (t_gen th) (t_out th) (Some (Raise EValueError)))
      end
  | IYield => Some (s, do_yield s th (pc_of_line nxt 0 FNormal))
  | IIncr back => Some (s, Th (t_op th) (pc_of_line back 0 FNormal) (S (t_i th)) (t_gen th) (t_out th) (t_res th))
  | IWhileLen _ =>
      match lenp s with
      | None => Some (s, Th (t_op th) PDone (t_i th) (t_gen th) (t_out th) (Some (Raise ETypeError)))
      | Some n => Some (s, if (t_i th <? n)%nat then goto th nxt 0 FNormal else finish th)
      end
  end.

Definition table_step (s : shared) (t : nat) (th : thread) : option (shared * thread) :=
  match line_of_pc (t_pc th) with
  | None => None
  | Some (line, j, m) =>
      match lookup tb line with
      | Some ins => exec_instr ins line j m s t th
      | None => None
      end
  end.

End Interp.
