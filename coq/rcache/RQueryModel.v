(* C12 -- rrulebase query methods as functions of the recurrence sequence.

   Mirrors /repo/src/dateutil/rrule.py (after fix 11f01f8), class rrulebase:
     __getitem__ (151-172), __contains__ (174-183), count (186-192), before (194-213),
     after (215-231), xafter (233-272), between (274-305).

   `l` is the sequence the rule's underlying generator yields (`self._iter()`), as integers.
   `complete : bool` selects the path the code takes:
     true  : `self._cache_complete` -- the method works on the list `self._cache` (= l, C11's invariant);
     false : the method iterates `self` (`iter(self)`: the generator, or `_iter_cached()`, which by
             C11 yields exactly l).
   The early-exit loops (between_loop, before_loop, after_loop, past, reached) are the ones the
   thread model of C11 uses for its consumers (RCacheModel.v).  No proofs in this file. *)
From Coq Require Import ZArith List Bool.
From V Require Import rcache.PyList rcache.RCacheModel.
Import ListNotations.
Open Scope Z_scope.

Inductive item : Type :=
| IInt (k : Z)                       (* rule[k] *)
| ISlice (a b c : option Z).         (* rule[a:b:c], None = omitted *)

Inductive qres : Type :=
| QVal (v : Z)
| QNone
| QList (l : list Z)
| QBool (b : bool)
| QIndexError
| QValueError.

Definition of_index (r : option Z) : qres :=
  match r with Some v => QVal v | None => QIndexError end.
Definition of_slice (r : option (list Z)) : qres :=
  match r with Some l => QList l | None => QValueError end.
Definition of_opt (r : option Z) : qres :=
  match r with Some v => QVal v | None => QNone end.

(* list.__getitem__ *)
Definition py_getitem (l : list Z) (it : item) : qres :=
  match it with
  | IInt k => of_index (py_index l k)
  | ISlice a b c => of_slice (py_slice l a b c)
  end.

(* `x is not None and x < 0` *)
Definition isneg (x : option Z) : bool :=
  match x with Some v => v <? 0 | None => false end.

(* `for i in range(item+1): res = advance_iterator(gen)` ; StopIteration -> IndexError *)
Fixpoint get_loop (l : list Z) (k : Z) : qres :=
  match l with
  | [] => QIndexError
  | x :: r => if k =? 0 then QVal x else get_loop r (k - 1)
  end.

Definition getitem (complete : bool) (l : list Z) (it : item) : qres :=
  if complete then py_getitem l it                                  (* 152-153 *)
  else
    match it with
    | ISlice a b c =>                                               (* 154 *)
        if isneg a || isneg b || isneg c                            (* 155-156 *)
        then py_getitem l it                                        (* 157  list(iter(self))[item] *)
        else of_slice (islice l a b c)                              (* 159-162 *)
    | IInt k =>
        if 0 <=? k then get_loop l k                                (* 163-170 *)
        else py_getitem l it                                        (* 172  list(iter(self))[item] *)
    end.

(* 178-183: for i in self: if i == item: return True; elif i > item: return False *)
Fixpoint contains_loop (x : Z) (l : list Z) : bool :=
  match l with
  | [] => false
  | y :: r => if y =? x then true else if x <? y then false else contains_loop x r
  end.

Definition contains (complete : bool) (l : list Z) (x : Z) : bool :=
  if complete then existsb (Z.eqb x) l        (* 176  item in self._cache *)
  else contains_loop x l.

(* 189-192: a full iteration publishes `_len` = number of yielded items *)
Definition count (l : list Z) : Z := zlen l.

(* before / after / between run the same loop on `self._cache` or on `self` *)
Definition before (complete : bool) (l : list Z) (dt : Z) (inc : bool) : qres :=
  of_opt (before_loop dt inc None l).

Definition after (complete : bool) (l : list Z) (dt : Z) (inc : bool) : qres :=
  of_opt (after_loop dt inc l).

Definition between (complete : bool) (l : list Z) (a b : Z) (inc : bool) : qres :=
  QList (between_loop a b inc false l).

(* 264-272: n = 0; for d in gen: if comp(d, dt): if count is not None: n += 1; if n > count: break
                                                  yield d *)
Fixpoint xafter_loop (dt : Z) (cnt : option Z) (inc : bool) (n : Z) (l : list Z) : list Z :=
  match l with
  | [] => []
  | d :: r =>
      if reached dt inc d then
        match cnt with
        | Some c => if c <? n + 1 then [] else d :: xafter_loop dt cnt inc (n + 1) r
        | None => d :: xafter_loop dt cnt inc n r
        end
      else xafter_loop dt cnt inc n r
  end.

Definition xafter (complete : bool) (l : list Z) (dt : Z) (cnt : option Z) (inc : bool) : qres :=
  QList (xafter_loop dt cnt inc 0 l).
