(* C18 -- lock discipline of the factory transition system (current code, `step`):
   a lock is held exactly by the thread whose program counter is inside the corresponding
   critical section; hence mutual exclusion, locks released on every path (also the exception
   paths), and no deadlock (lock order gettz -> tzstr only). *)
From Coq Require Import ZArith List Bool Lia.
From V Require Import factory.FacModel.
Import ListNotations.
Open Scope Z_scope.

Arguments lru_touch : simpl never.
Arguments wget : simpl never.
Arguments alive : simpl never.
Arguments set_slot : simpl never.
Arguments adel : simpl never.
Arguments alook : simpl never.
Arguments Z.of_nat : simpl never.
Arguments Z.gtb : simpl never.
Arguments Z.add : simpl never.
Arguments static_id : simpl never.

(* ---------------------------------------------------------------- lists *)

Lemma nth_error_upd_eq : forall A (l : list A) n x, (n < length l)%nat -> nth_error (upd l n x) n = Some x.
Proof.
  induction l as [|a l IH]; intros [|n] x H; cbn in *; try lia; try reflexivity.
  apply IH; lia.
Qed.

Lemma nth_error_upd_neq : forall A (l : list A) n m x, n <> m -> nth_error (upd l n x) m = nth_error l m.
Proof.
  induction l as [|a l IH]; intros [|n] [|m] x H; cbn in *; try reflexivity; try congruence.
  apply IH; congruence.
Qed.

Lemma length_upd : forall A (l : list A) n x, length (upd l n x) = length l.
Proof. induction l as [|a l IH]; intros [|n] x; cbn; try reflexivity; now rewrite IH. Qed.

Lemma nth_error_some_lt : forall A (l : list A) n x, nth_error l n = Some x -> (n < length l)%nat.
Proof. intros A l n x H. apply nth_error_Some. congruence. Qed.

Lemma nth_error_upd : forall A (l : list A) n m x y,
  nth_error (upd l n x) m = Some y -> (n = m /\ y = x) \/ (n <> m /\ nth_error l m = Some y).
Proof.
  intros A l n m x y H. destruct (Nat.eq_dec n m) as [->|Hne].
  - left. split; [reflexivity|].
    assert (m < length l)%nat.
    { apply nth_error_some_lt in H. now rewrite length_upd in H. }
    rewrite nth_error_upd_eq in H by assumption. congruence.
  - right. split; [assumption|]. now rewrite nth_error_upd_neq in H.
Qed.

Arguments nth_error : simpl never.
Arguments upd : simpl never.

(* ---------------------------------------------------------------- program-counter classes *)

Definition body_pc (p : pc) : bool :=
  match p with
  | PKey | PAcq | PGet | PChk | PCons | PSdRead | PSdWrite | PTouch | PLen | PPop | PRel | PExcRel => true
  | _ => false
  end.

Definition crit_body (p : pc) : bool :=
  match p with
  | PGet | PChk | PCons | PSdRead | PSdWrite | PTouch | PLen | PPop | PRel | PExcRel => true
  | _ => false
  end.

Definition g_pc (p : pc) : bool :=
  match p with
  | GAcq | GGet | GChk | GNoc | GCacheable | GSet | GEarlyRel | GEarlyRet | GExcRel => true
  | _ => false
  end.

Definition crit_g (p : pc) : bool :=
  match p with
  | GGet | GChk | GNoc | GCacheable | GSet | GEarlyRel | GExcRel => true
  | _ => false
  end.

Definition is_tzstr (kd : kind) : bool := match kd with KTzstr _ _ => true | _ => false end.

(* thread th is inside the critical section of factory f *)
Definition holds (th : thr) (f : fac) : bool :=
  match tpc th with
  | PIdle => false
  | p =>
      match prog th with
      | OCall f0 _ _ _ :: _ =>
          if nested th then fac_eqb f FGet || (fac_eqb f FStr && crit_body p)
          else (fac_eqb f f0 && crit_body p) || (fac_eqb f FGet && crit_g p)
      | OClear :: _ => fac_eqb f FGet && match p with CNew | CClr | CRel => true | _ => false end
      | OSetSize _ :: _ => fac_eqb f FGet && match p with SSet | SLoop | SRel | SExcRel => true | _ => false end
      | _ => false
      end
  end.

(* the program counter fits the operation being executed *)
Definition pc_ok (th : thr) : bool :=
  match tpc th with
  | PIdle => negb (nested th)
  | p =>
      match prog th with
      | OCall f0 _ kd _ :: _ =>
          if nested th then fac_eqb f0 FGet && is_tzstr kd && body_pc p
          else body_pc p || match p with PRet | PExc => true | _ => false end || (fac_eqb f0 FGet && g_pc p)
      | OClear :: _ => negb (nested th) && match p with CAcq | CNew | CClr | CRel | PDone => true | _ => false end
      | OSetSize _ :: _ =>
          negb (nested th) && match p with SAcq | SSet | SLoop | SRel | SExcRel | PExc | PDone => true | _ => false end
      | OUtc _ :: _ => negb (nested th) && match p with UChk | UNew | URet | UDel => true | _ => false end
      | _ => false
      end
  end.

Definition linv (s : state) : Prop :=
  (forall t th, nth_error (thrs s) t = Some th ->
                pc_ok th = true /\ forall f, holds th f = true <-> lock (facs s f) = Some t)
  /\ (forall f t, lock (facs s f) = Some t -> (t < length (thrs s))%nat).

(* ---------------------------------------------------------------- frame lemma *)

Definition lock_change (s s' : state) (t : nat) : Prop :=
  forall f, lock (facs s' f) = lock (facs s f)
            \/ (lock (facs s' f) = Some t /\ lock (facs s f) = None)
            \/ (lock (facs s' f) = None /\ lock (facs s f) = Some t).

Lemma linv_frame : forall s s' t th th',
  linv s -> nth_error (thrs s) t = Some th -> thrs s' = upd (thrs s) t th' ->
  pc_ok th' = true ->
  (forall f, holds th' f = true <-> lock (facs s' f) = Some t) ->
  lock_change s s' t ->
  linv s'.
Proof.
  intros s s' t th th' [Hth Hlk] Hnth Hthrs Hok Hholds Hch. split.
  - intros t1 th1 H1. rewrite Hthrs in H1. apply nth_error_upd in H1 as [[<- ->]|[Hne H1]].
    + split; assumption.
    + destruct (Hth _ _ H1) as [Hok1 Hh1]. split; [assumption|]. intros f.
      rewrite Hh1. destruct (Hch f) as [E|[[E1 E2]|[E1 E2]]].
      * now rewrite E.
      * rewrite E1, E2. split; intros X; inversion X; congruence.
      * rewrite E1, E2. split; intros X; inversion X; congruence.
  - intros f t1 H1. rewrite Hthrs, length_upd.
    destruct (Hch f) as [E|[[E1 E2]|[E1 E2]]].
    + rewrite E in H1. eauto.
    + rewrite E1 in H1. inversion H1; subst. eapply nth_error_some_lt; eauto.
    + congruence.
Qed.

Lemma lock_change_refl : forall s t, lock_change s s t.
Proof. intros s t f. now left. Qed.

(* ---------------------------------------------------------------- case analysis of one step *)

Ltac break_hyp H :=
  repeat match type of H with
         | context [match ?x with _ => _ end] => destruct x eqn:?
         | context [if ?x then _ else _] => destruct x eqn:?
         end.

Ltac fac_cases :=
  repeat match goal with
         | f : fac |- _ => destruct f
         end.

Lemma fac_eqb_refl : forall f, fac_eqb f f = true.
Proof. destruct f; reflexivity. Qed.

(* the stepping thread's own obligations, after everything has been made concrete *)
Ltac own_holds Hh :=
  let f := fresh "f" in
  intros f;
  pose proof (Hh FOff) as ?HO; pose proof (Hh FStr) as ?HS; pose proof (Hh FGet) as ?HG;
  destruct f; cbn in *; intuition (try congruence; try discriminate).

Ltac own_change Hh :=
  let f := fresh "f" in
  intros f;
  pose proof (Hh FOff) as ?HO; pose proof (Hh FStr) as ?HS; pose proof (Hh FGet) as ?HG;
  destruct f; cbn in *;
  first [ left; reflexivity
        | right; left; split; [reflexivity | assumption]
        | right; right; split; [reflexivity | intuition (try congruence; try discriminate)] ].

Ltac finish_frame Hh :=
  unfold log_bind;
  try match goal with |- context [match wget ?a ?b ?c with _ => _ end] => destruct (wget a b c) end;
  (eapply linv_frame;
   [ eassumption | eassumption | cbn; reflexivity
   | unfold pc_ok; cbn in *; try assumption; try reflexivity
   | own_holds Hh
   | own_change Hh ]).

Lemma upd_same : forall A (l : list A) n x, nth_error l n = Some x -> upd l n x = l.
Proof.
  induction l as [|a l IH]; intros [|n] x H; unfold upd; fold (@upd A); unfold nth_error in H; fold (@nth_error A) in H;
    try reflexivity; try discriminate.
  - congruence.
  - f_equal. now apply IH.
Qed.

Theorem step_preserves_linv : forall s t s', linv s -> step s t = Some s' -> linv s'.
Proof.
  intros s t s' Hinv Hstep.
  unfold step, step_gen in Hstep.
  destruct (nth_error (thrs s) t) as [th|] eqn:Hnth; [|inversion Hstep; subst; assumption].
  destruct (proj1 Hinv _ _ Hnth) as [Hok Hh].
  destruct th as [pr p ne ins tm te]. unfold pc_ok in Hok. cbn in Hok, Hstep.
  destruct pr as [|o rest]; [inversion Hstep; subst; assumption|].
  destruct ne; destruct p; cbn in Hok; try discriminate Hok; cbn in Hstep.
  all: destruct o as [f0 k kd slot|slot|slot|slot| |n]; cbn in Hok;
    try discriminate Hok; try (inversion Hstep; subst; assumption).
  all: try (destruct f0; cbn in Hok; try discriminate Hok).
  all: try (destruct kd; cbn in Hok; try discriminate Hok).
  all: unfold step_idle, step_call, step_clear, step_size, step_utc, acquire, release, goto, cur_fac, cur_key,
         cons_raises in Hstep;
    cbn in Hstep; break_hyp Hstep; inversion Hstep; subst; clear Hstep; try assumption.
  all: try (finish_frame Hh).
  (* set_cache_size's loop body: only the strong cache changes *)
  eapply linv_frame; [eassumption|eassumption|cbn; symmetry; apply upd_same; eassumption
                     |reflexivity|unfold holds in *; own_holds Hh|unfold holds in *; own_change Hh].
Qed.
