(* C18 -- zone factories: executable model of
     dateutil/tz/_factories.py  _TzSingleton.__call__, _TzOffsetFactory.__call__, _TzStrFactory.__call__
     dateutil/tz/tz.py          GettzFunc.__call__ / set_cache_size / cache_clear (and the call of
                                tzstr(name) made by GettzFunc.nocache while the gettz lock is held)
   at statement granularity, for any number of threads.  No proofs in this file.

   Heap: objects are integers.  id < 0 : permanent objects (tz.UTC = -1, zones of the bundled
   tarball); id > 0 : allocated by a constructor (`next` is the allocation counter, ids are never
   reused).  An object is ALIVE iff a strong reference to it exists: a client slot, a strong-cache
   (OrderedDict) entry of one of the three factories, a local variable (`instance`/`rv`, or the
   freshly constructed argument of setdefault) of a running call, the tzutc class attribute, or it
   is permanent.  The WeakValueDictionary contract is "an entry is visible iff its referent is
   alive": `wget` filters by `alive`, so entries of dead objects need not be deleted.

   `step_gen false` = the current code (lookup-or-create under the lock);
   `step_gen true`  = the code before /repo commit e7e8908 (lookup-or-create before the lock). *)
From Coq Require Import ZArith List Bool.
Import ListNotations.
Open Scope Z_scope.

Definition key := Z.
Definition obj := Z.

Inductive fac := FOff | FStr | FGet.

Definition fac_eqb (a b : fac) : bool :=
  match a, b with FOff, FOff | FStr, FStr | FGet, FGet => true | _, _ => false end.

(* what the constructor / GettzFunc.nocache does for this request (decided by the environment) *)
Inductive kind :=
| KFresh                         (* builds a new object *)
| KRaise                         (* raises (tzstr('bogus') -> ValueError; nocache(b'x') -> TypeError) *)
| KStatic (n : Z)                (* gettz: nocache returns a permanent object (tz.UTC, tarball zone) *)
| KLocal                         (* gettz: a fresh object that is never cached (tzlocal(), name None) *)
| KNone                          (* gettz: nocache returns None (never cached) *)
| KTzstr (k' : key) (raises : bool).  (* gettz: nocache calls tzstr(name) (ValueError is caught) *)

Inductive op :=
| OCall (f : fac) (k : key) (kd : kind) (slot : Z)   (* slot = factory(key) *)
| OInstance (slot : Z)             (* slot = cls.instance(..) / gettz.nocache(..): fresh object *)
| OUtc (slot : Z)                  (* slot = tz.tzutc() *)
| ODrop (slot : Z)                 (* del slot *)
| OClear                           (* tz.gettz.cache_clear() *)
| OSetSize (n : Z).                (* tz.gettz.set_cache_size(n) *)

Inductive pc :=
| PIdle
(* _TzOffsetFactory.__call__ / _TzStrFactory.__call__ (also when called from nocache) *)
| PKey | PAcq | PGet | PChk | PCons | PSdRead | PSdWrite
| PTouch | PLen | PPop | PRel | PRet | PExcRel | PExc
(* GettzFunc.__call__ *)
| GAcq | GGet | GChk | GNoc | GCacheable | GSet | GEarlyRel | GEarlyRet | GExcRel
(* cache_clear *)
| CAcq | CNew | CClr | CRel
(* set_cache_size *)
| SAcq | SSet | SLoop | SRel | SExcRel
(* _TzSingleton.__call__ *)
| UChk | UNew | URet | UDel
(* the call has returned (or raised): the client receives the result *)
| PDone.

Record fstate := mkF {
  wmap : list (key * obj);      (* WeakValueDictionary: newest binding first *)
  lru : list (key * obj);       (* OrderedDict, oldest first *)
  csize : Z;
  lock : option nat;
  epoch : Z                     (* number of cache_clear()s so far *)
}.

Record thr := mkT {
  prog : list op;
  tpc : pc;
  nested : bool;                (* inside tzstr(name) called by gettz's nocache *)
  inst : option obj;            (* local `instance` / `rv` *)
  tmp : option obj;             (* the constructed argument of setdefault *)
  tep : Z                       (* epoch of the weak map the lookup used *)
}.

Inductive ev :=
| ERet (t : nat) (f : fac) (k : key) (o : obj) (e : Z) (held : list obj)
    (* factory call returned o on the cached path; e = epoch of the lookup; held = the objects the
       clients referenced at that moment *)
| EBind (t : nat) (f : fac) (k : key) (o : obj) (e : Z)
    (* ghost: thread t found or put the binding k -> o in the weak map of f (epoch e) *)
| EUncached (t : nat) (k : key) (o : option obj)       (* gettz returned without caching *)
| EExc (t : nat)
| EFresh (t : nat) (o : obj)
| EUtc (t : nat) (o : option obj).

Record state := mkS {
  facs : fac -> fstate;
  single : option obj;          (* tzutc.__instance *)
  next : obj;
  refs : list (Z * obj);        (* client variables *)
  thrs : list thr;
  log : list ev                 (* newest first *)
}.

(* ---------------------------------------------------------------- small list functions *)

Fixpoint alook (l : list (Z * obj)) (k : Z) : option obj :=
  match l with
  | [] => None
  | (k', o) :: r => if k' =? k then Some o else alook r k
  end.

Definition adel (l : list (Z * obj)) (k : Z) : list (Z * obj) :=
  filter (fun e => negb (fst e =? k)) l.

Definition has_obj (l : list (Z * obj)) (o : obj) : bool :=
  existsb (fun e => snd e =? o) l.

(* cache[key] = cache.pop(key, v) *)
Definition lru_touch (l : list (Z * obj)) (k : Z) (v : obj) : list (Z * obj) :=
  adel l k ++ [(k, match alook l k with Some v' => v' | None => v end)].

Definition set_slot (r : list (Z * obj)) (slot : Z) (o : option obj) : list (Z * obj) :=
  match o with Some x => (slot, x) :: adel r slot | None => adel r slot end.

Definition opt_is (x : option obj) (o : obj) : bool :=
  match x with Some y => y =? o | None => false end.

Fixpoint upd {A} (l : list A) (n : nat) (x : A) : list A :=
  match l, n with
  | [], _ => []
  | _ :: r, O => x :: r
  | a :: r, S m => a :: upd r m x
  end.

Definition static_id (n : Z) : obj := - Z.abs n - 1.

(* ---------------------------------------------------------------- liveness, weak lookup *)

Definition thr_refs (o : obj) (th : thr) : bool := opt_is (inst th) o || opt_is (tmp th) o.

Definition alive (s : state) (o : obj) : bool :=
  (o <? 0) || opt_is (single s) o || has_obj (refs s) o
  || has_obj (lru (facs s FOff)) o || has_obj (lru (facs s FStr)) o || has_obj (lru (facs s FGet)) o
  || existsb (thr_refs o) (thrs s).

Definition wget (s : state) (f : fac) (k : key) : option obj :=
  match alook (wmap (facs s f)) k with
  | Some o => if alive s o then Some o else None
  | None => None
  end.

(* ---------------------------------------------------------------- state updates *)

Definition set_fac (s : state) (f : fac) (x : fstate) : state :=
  mkS (fun f' => if fac_eqb f' f then x else facs s f') (single s) (next s) (refs s) (thrs s) (log s).
Definition set_thr (s : state) (t : nat) (th : thr) : state :=
  mkS (facs s) (single s) (next s) (refs s) (upd (thrs s) t th) (log s).
Definition set_refs (s : state) (r : list (Z * obj)) : state :=
  mkS (facs s) (single s) (next s) r (thrs s) (log s).
Definition set_single (s : state) (x : option obj) : state :=
  mkS (facs s) x (next s) (refs s) (thrs s) (log s).
Definition bump (s : state) : state :=
  mkS (facs s) (single s) (next s + 1) (refs s) (thrs s) (log s).
Definition add_log (s : state) (e : ev) : state :=
  mkS (facs s) (single s) (next s) (refs s) (thrs s) (e :: log s).

Definition log_bind (s : state) (t : nat) (f : fac) (k : key) (o : option obj) (e : Z) : state :=
  match o with Some x => add_log s (EBind t f k x e) | None => s end.

Definition f_wmap (x : fstate) (w : list (key * obj)) := mkF w (lru x) (csize x) (lock x) (epoch x).
Definition f_lru (x : fstate) (l : list (key * obj)) := mkF (wmap x) l (csize x) (lock x) (epoch x).
Definition f_size (x : fstate) (n : Z) := mkF (wmap x) (lru x) n (lock x) (epoch x).
Definition f_lock (x : fstate) (l : option nat) := mkF (wmap x) (lru x) (csize x) l (epoch x).
Definition f_clear (x : fstate) := mkF [] (lru x) (csize x) (lock x) (epoch x + 1).

Definition t_pc (th : thr) (p : pc) := mkT (prog th) p (nested th) (inst th) (tmp th) (tep th).
Definition t_inst (th : thr) (i : option obj) := mkT (prog th) (tpc th) (nested th) i (tmp th) (tep th).
Definition t_tmp (th : thr) (i : option obj) := mkT (prog th) (tpc th) (nested th) (inst th) i (tep th).
Definition t_tep (th : thr) (e : Z) := mkT (prog th) (tpc th) (nested th) (inst th) (tmp th) e.
Definition t_nested (th : thr) (b : bool) := mkT (prog th) (tpc th) b (inst th) (tmp th) (tep th).
(* the operation is over: back to idle with the rest of the program, no locals *)
Definition t_done (th : thr) : thr := mkT (tl (prog th)) PIdle false None None 0.

(* goto: only the program counter of thread t changes *)
Definition goto (s : state) (t : nat) (th : thr) (p : pc) : state := set_thr s t (t_pc th p).

(* ---------------------------------------------------------------- the factory the thread works on *)

Definition cur_fac (th : thr) (f : fac) : fac := if nested th then FStr else f.
Definition cur_key (th : thr) (k : key) (kd : kind) : key :=
  if nested th then match kd with KTzstr k' _ => k' | _ => k end else k.
Definition cons_raises (th : thr) (kd : kind) : bool :=
  if nested th then match kd with KTzstr _ r => r | _ => false end
  else match kd with KRaise => true | _ => false end.

Definition acquire (s : state) (t : nat) (th : thr) (f : fac) (p : pc) : option state :=
  match lock (facs s f) with
  | None => Some (goto (set_fac s f (f_lock (facs s f) (Some t))) t th p)
  | Some _ => None
  end.

Definition release (s : state) (t : nat) (th : thr) (f : fac) (p : pc) : state :=
  goto (set_fac s f (f_lock (facs s f) None)) t th p.

(* ---------------------------------------------------------------- one statement of a factory call *)

Definition step_call (old : bool) (s : state) (t : nat) (th : thr)
           (f : fac) (k : key) (kd : kind) (slot : Z) : option state :=
  let cf := cur_fac th f in
  let ck := cur_key th k kd in
  let fs := facs s cf in
  match tpc th with
  (* ---- tzoffset / tzstr body *)
  | PKey => Some (goto s t th (if old then PGet else PAcq))
  | PAcq => acquire s t th cf (if old then PTouch else PGet)
  | PGet => Some (log_bind (set_thr s t (t_tep (t_inst (t_pc th PChk) (wget s cf ck)) (epoch fs)))
                           t cf ck (wget s cf ck) (epoch fs))
  | PChk => Some (goto s t th (match inst th with
                               | None => PCons
                               | Some _ => if old then PAcq else PTouch end))
  | PCons =>
      if cons_raises th kd then Some (goto s t th (if old then PExc else PExcRel))
      else Some (bump (set_thr s t (t_tmp (t_pc th PSdRead) (Some (next s)))))
  | PSdRead =>
      match wget s cf ck with
      | Some o => Some (log_bind (set_thr s t (t_tmp (t_inst (t_pc th (if old then PAcq else PTouch)) (Some o)) None))
                                 t cf ck (Some o) (tep th))
      | None => Some (goto s t th PSdWrite)
      end
  | PSdWrite =>
      match tmp th with
      | Some n => Some (log_bind (set_thr (set_fac s cf (f_wmap fs ((ck, n) :: wmap fs))) t
                                   (t_tmp (t_inst (t_pc th (if old then PAcq else PTouch)) (Some n)) None))
                                 t cf ck (Some n) (tep th))
      | None => Some s
      end
  | PTouch =>
      match inst th with
      | Some o => Some (goto (set_fac s cf (f_lru fs (lru_touch (lru fs) ck o))) t th PLen)
      | None => Some (goto s t th PLen)
      end
  | PLen => Some (goto s t th (if Z.of_nat (length (lru fs)) >? csize fs then PPop else PRel))
  | PPop => Some (goto (set_fac s cf (f_lru fs (tl (lru fs)))) t th PRel)
  | PRel =>
      (* a nested tzstr(name) returns into nocache, which returns into GettzFunc.__call__ *)
      if nested th then Some (release s t (t_nested th false) cf GCacheable)
      else Some (release s t th cf PRet)
  | PRet =>
      match inst th with
      | Some o => Some (add_log (set_refs (set_thr s t (t_done th)) (set_slot (refs s) slot (Some o)))
                                (ERet t f k o (tep th) (map snd (refs s))))
      | None => Some (set_thr s t (t_done th))
      end
  | PExcRel =>
      (* nocache catches the ValueError of tzstr(name): rv = None *)
      if nested th then Some (release s t (t_inst (t_nested th false) None) cf GCacheable)
      else Some (release s t th cf PExc)
  | PExc => Some (add_log (set_thr s t (t_done th)) (EExc t))
  (* ---- GettzFunc.__call__ (f = FGet, not nested) *)
  | GAcq => acquire s t th FGet GGet
  | GGet => Some (log_bind (set_thr s t (t_tep (t_inst (t_pc th GChk) (wget s FGet k)) (epoch (facs s FGet))))
                           t FGet k (wget s FGet k) (epoch (facs s FGet)))
  | GChk => Some (goto s t th (match inst th with None => GNoc | Some _ => PTouch end))
  | GNoc =>
      match kd with
      | KFresh | KLocal => Some (bump (set_thr s t (t_inst (t_pc th GCacheable) (Some (next s)))))
      | KStatic n => Some (set_thr s t (t_inst (t_pc th GCacheable) (Some (static_id n))))
      | KNone => Some (set_thr s t (t_inst (t_pc th GCacheable) None))
      | KRaise => Some (goto s t th GExcRel)
      | KTzstr _ _ => Some (set_thr s t (t_nested (t_pc th PKey) true))
      end
  | GCacheable =>
      Some (goto s t th (match inst th, kd with
                         | None, _ => GEarlyRel
                         | Some _, KLocal => GEarlyRel
                         | Some _, _ => GSet end))
  | GSet =>
      match inst th with
      | Some o =>
          (* (after a nested tzstr call `tep` is the epoch of tzstr's map: take gettz's again) *)
          Some (log_bind (set_thr (set_fac s FGet (f_wmap (facs s FGet) ((k, o) :: wmap (facs s FGet)))) t
                                  (t_tep (t_pc th PTouch) (epoch (facs s FGet))))
                         t FGet k (Some o) (epoch (facs s FGet)))
      | None => Some s
      end
  | GEarlyRel => Some (release s t th FGet GEarlyRet)
  | GEarlyRet =>
      Some (add_log (set_refs (set_thr s t (t_done th)) (set_slot (refs s) slot (inst th)))
                    (EUncached t k (inst th)))
  | GExcRel => Some (release s t th FGet PExc)
  | _ => Some s
  end.

Definition step_clear (s : state) (t : nat) (th : thr) : option state :=
  let g := facs s FGet in
  match tpc th with
  | CAcq => acquire s t th FGet CNew
  | CNew => Some (goto (set_fac s FGet (f_clear g)) t th CClr)
  | CClr => Some (goto (set_fac s FGet (f_lru g [])) t th CRel)
  | CRel => Some (release s t th FGet PDone)
  | PDone => Some (set_thr s t (t_done th))
  | _ => Some s
  end.

Definition step_size (s : state) (t : nat) (th : thr) (n : Z) : option state :=
  let g := facs s FGet in
  match tpc th with
  | SAcq => acquire s t th FGet SSet
  | SSet => Some (goto (set_fac s FGet (f_size g n)) t th SLoop)
  | SLoop =>
      if Z.of_nat (length (lru g)) >? csize g then
        match lru g with
        | [] => Some (goto s t th SExcRel)          (* popitem() on an empty dict: KeyError *)
        | _ :: r => Some (set_fac s FGet (f_lru g r))
        end
      else Some (goto s t th SRel)
  | SRel => Some (release s t th FGet PDone)
  | PDone => Some (set_thr s t (t_done th))
  | SExcRel => Some (release s t th FGet PExc)
  | PExc => Some (add_log (set_thr s t (t_done th)) (EExc t))
  | _ => Some s
  end.

Definition step_utc (s : state) (t : nat) (th : thr) (slot : Z) : option state :=
  match tpc th with
  | UChk => Some (goto s t th (match single s with None => UNew | Some _ => URet end))
  | UNew => Some (bump (set_single (goto s t th URet) (Some (next s))))
  | URet => Some (set_thr s t (t_inst (t_pc th UDel) (single s)))      (* return cls.__instance *)
  | UDel => Some (add_log (set_refs (set_thr s t (t_done th)) (set_slot (refs s) slot (inst th)))
                          (EUtc t (inst th)))
  | _ => Some s
  end.

(* first statement of an operation, entered from PIdle *)
Definition step_idle (s : state) (t : nat) (th : thr) (o : op) : option state :=
  match o with
  | OCall FGet _ _ _ => Some (goto s t th GAcq)
  | OCall _ _ _ _ => Some (goto s t th PKey)
  | OInstance slot =>
      Some (bump (add_log (set_refs (set_thr s t (t_done th)) (set_slot (refs s) slot (Some (next s))))
                          (EFresh t (next s))))
  | OUtc _ => Some (goto s t th UChk)
  | ODrop slot => Some (set_refs (set_thr s t (t_done th)) (set_slot (refs s) slot None))
  | OClear => Some (goto s t th CAcq)
  | OSetSize _ => Some (goto s t th SAcq)
  end.

(* None = blocked on a lock.  A finished or unknown thread does nothing. *)
Definition step_gen (old : bool) (s : state) (t : nat) : option state :=
  match nth_error (thrs s) t with
  | None => Some s
  | Some th =>
      match prog th with
      | [] => Some s
      | o :: _ =>
          match tpc th with
          | PIdle => step_idle s t th o
          | _ =>
              match o with
              | OCall f k kd slot => step_call old s t th f k kd slot
              | OClear => step_clear s t th
              | OSetSize n => step_size s t th n
              | OUtc slot => step_utc s t th slot
              | _ => Some s
              end
          end
      end
  end.

Definition step := step_gen false.
Definition step_old := step_gen true.

(* ---------------------------------------------------------------- runs *)

Definition fstate0 : fstate := mkF [] [] 8 None 0.
Definition thr0 (p : list op) : thr := mkT p PIdle false None None 0.

(* after `import dateutil.tz`: UTC = tzutc() has run, so tzutc.__instance = the permanent object -1 *)
Definition init_gen (single0 : option obj) (progs : list (list op)) : state :=
  mkS (fun _ => fstate0) single0 1 [] (map thr0 progs) [].
Definition init := init_gen (Some (-1)).

(* a schedule is a list of thread ids; a blocked step leaves the state unchanged *)
Definition step_or_stay (old : bool) (s : state) (t : nat) : state :=
  match step_gen old s t with Some s' => s' | None => s end.

Definition run_gen (old : bool) (s : state) (sched : list nat) : state :=
  fold_left (step_or_stay old) sched s.

Definition run := run_gen false.
Definition run_old := run_gen true.

Definition finished (s : state) : bool := forallb (fun th => match prog th with [] => true | _ => false end) (thrs s).
