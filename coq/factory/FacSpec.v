(* C18 -- executable specification, independent of the factories' algorithm.

   An observation is one completed cached-path factory call: which factory (0 tzoffset, 1 tzstr,
   2 gettz), which key, which object came back, the cache epoch (number of gettz.cache_clear()
   calls before the lookup; always 0 for tzoffset/tzstr, which have no cache_clear), and the
   objects the clients referenced when it returned.

   Abstract map: (factory, key, epoch) |-> the objects returned so far.  A call must return the
   mapped object if that object is still referenced:
     for every earlier observation of the same (factory, key, epoch) whose object is still held by
     a client when the later call returns, the later call returns that very object.
   Nothing is said about the strong cache (retention is not pinned), so the same predicate is
   evaluated on the implementation's observed histories and proved of the model's. *)
From Coq Require Import ZArith List Bool.
Import ListNotations.
Open Scope Z_scope.

Record obsret := mkO { o_fac : Z; o_key : Z; o_obj : Z; o_epoch : Z; o_held : list Z }.

Definition zmem (x : Z) (l : list Z) : bool := existsb (Z.eqb x) l.

Definition same_req (a b : obsret) : bool :=
  (o_fac a =? o_fac b) && (o_key a =? o_key b) && (o_epoch a =? o_epoch b).

(* r is the later observation, r' an earlier one *)
Definition agrees (r r' : obsret) : bool :=
  if same_req r r' && zmem (o_obj r') (o_held r) then o_obj r' =? o_obj r else true.

(* history newest first *)
Fixpoint spec_identity (h : list obsret) : bool :=
  match h with
  | [] => true
  | r :: earlier => forallb (agrees r) earlier && spec_identity earlier
  end.

(* the same, ignoring epochs: what the property text demands ("cache_clear only affects
   retention"); it coincides with spec_identity on histories without cache_clear *)
Definition forget_epoch (r : obsret) : obsret := mkO (o_fac r) (o_key r) (o_obj r) 0 (o_held r).
Definition spec_identity_strict (h : list obsret) : bool := spec_identity (map forget_epoch h).

(* no two different live objects for one key: among the objects the clients hold at the end,
   those returned for the same request are one object *)
Fixpoint spec_one_live (h : list obsret) (held : list Z) : bool :=
  match h with
  | [] => true
  | r :: earlier =>
      forallb (fun r' => if same_req r r' && zmem (o_obj r) held && zmem (o_obj r') held
                         then o_obj r' =? o_obj r else true) earlier
      && spec_one_live earlier held
  end.
