(* Fixed-offset zones: the methods regenerated from the source (gen/FixedGen.v) are the hand model
   (factory/FacFixed.v), and the hand model is what the fixed-zone theorems of the tzfile area
   (tzfile/TzFixedThm.v: C04_fixed_roundtrip, C05_fixed_classify) are about. *)
From Coq Require Import ZArith List Bool Lia.
From V Require Import factory.FacFixed gen.FixedGen tzfile.TzModel.
Open Scope Z_scope.

Lemma gen_fixed_tzoffset_lemma : forall self dt,
  gen_tzoffset_utcoffset self dt = fx_utcoffset self dt /\ gen_tzoffset_dst self dt = fx_dst self dt /\
  gen_tzoffset_tzname self dt = fx_tzname self dt /\ gen_tzoffset_is_ambiguous self dt = fx_is_ambiguous self dt /\
  gen_tzoffset_fromutc self dt = fx_fromutc self dt.
Proof. intros. repeat split; reflexivity. Qed.

Lemma gen_fixed_tzutc_lemma : forall dt,
  gen_tzutc_utcoffset dt = ux_utcoffset dt /\ gen_tzutc_dst dt = ux_dst dt /\ gen_tzutc_tzname dt = ux_tzname dt /\
  gen_tzutc_is_ambiguous dt = ux_is_ambiguous dt /\ gen_tzutc_fromutc dt = ux_fromutc dt.
Proof. intros. repeat split; reflexivity. Qed.

Lemma gen_fixed_init_lemma : forall name o, gen_tzoffset_init name o = fx_init name o.
Proof. reflexivity. Qed.

Lemma gen_enfold_lemma : forall dt f, gen_enfold dt f = fx_enfold dt f.
Proof. reflexivity. Qed.

(* tzoffset(name, s) and tzoffset(name, timedelta(seconds=s)) are built alike *)
Lemma fixed_init_seconds_lemma : forall name s, fx_init name (ONum s) = fx_init name (OTd (s * 1000000)).
Proof. reflexivity. Qed.

(* bridge to the definitions the C04/C05 fixed-zone theorems quantify over *)
Lemma fixed_bridge_tzoffset_lemma : forall self w f,
  gen_tzoffset_utcoffset self (w, f) = fixed_utcoffset (fz_offset self) w f /\
  gen_tzoffset_fromutc self (w, f) = fixed_fromutc (fz_offset self) w /\
  gen_tzoffset_is_ambiguous self (w, f) = fixed_is_ambiguous (fz_offset self) w.
Proof. intros. repeat split; reflexivity. Qed.

(* tzutc is the fixed zone of offset 0; its fromutc returns its argument, which datetime.astimezone
   passes with fold = 0 *)
Lemma fixed_bridge_tzutc_lemma : forall w f,
  gen_tzutc_utcoffset (w, f) = fixed_utcoffset 0 w f /\
  gen_tzutc_fromutc (w, false) = fixed_fromutc 0 w /\
  gen_tzutc_is_ambiguous (w, f) = fixed_is_ambiguous 0 w.
Proof. intros. unfold gen_tzutc_fromutc, fixed_fromutc. rewrite Z.add_0_r. repeat split; reflexivity. Qed.
