(* Run-time library of the source translator harness/gen_factory.py (-> gen/FacEqGen.v):
   isinstance tests and attribute reads on FacEq.zone.  An attribute getter applied to a zone of
   a class without that attribute returns 0 / false; the translator accepts an attribute read
   only where the isinstance tests around it guarantee the class (flow typing), so these
   defaults are never what a translated method returns.  Hand-written, no proofs. *)
From Coq Require Import ZArith List Bool.
From V Require Import factory.FacEq.
Open Scope Z_scope.

Definition is_tzutc (z : zone) : bool := match z with ZUtc _ => true | _ => false end.
Definition is_tzoffset (z : zone) : bool := match z with ZOffset _ _ _ => true | _ => false end.
Definition is_tzlocal (z : zone) : bool := match z with ZLocal _ _ _ _ => true | _ => false end.
(* isinstance(x, tzrange) also holds for a tzstr; isinstance(x, tzfile) for a zoneinfo.tzfile *)
Definition is_tzrange (z : zone) : bool := match z with ZRange _ _ _ _ _ _ _ _ => true | _ => false end.
Definition is_tzfile (z : zone) : bool := match z with ZFile _ _ _ _ _ => true | _ => false end.

Definition a_name (z : zone) : Z := match z with ZOffset _ n _ => n | _ => 0 end.
Definition a_offset (z : zone) : Z := match z with ZOffset _ _ o => o | _ => 0 end.
Definition a_std_offset (z : zone) : Z :=
  match z with ZLocal _ std _ _ => std | ZRange _ _ _ _ so _ _ _ => so | _ => 0 end.
Definition a_dst_offset (z : zone) : Z :=
  match z with ZLocal _ _ dst _ => dst | ZRange _ _ _ _ _ dof _ _ => dof | _ => 0 end.
(* tzlocal.__init__: self._hasdst = bool(self._dst_offset - self._std_offset) *)
Definition a_hasdst (z : zone) : bool := match z with ZLocal _ std dst _ => hasdst std dst | _ => false end.
Definition a_tznames0 (z : zone) : Z := match z with ZLocal _ _ _ n0 => n0 | _ => 0 end.
Definition a_std_abbr (z : zone) : Z := match z with ZRange _ _ sa _ _ _ _ _ => sa | _ => 0 end.
Definition a_dst_abbr (z : zone) : Z := match z with ZRange _ _ _ da _ _ _ _ => da | _ => 0 end.
Definition a_start_delta (z : zone) : Z := match z with ZRange _ _ _ _ _ _ sd _ => sd | _ => 0 end.
Definition a_end_delta (z : zone) : Z := match z with ZRange _ _ _ _ _ _ _ ed => ed | _ => 0 end.
Definition a_trans_list (z : zone) : Z := match z with ZFile _ _ fl _ _ => fl | _ => 0 end.
Definition a_trans_idx (z : zone) : Z := match z with ZFile _ _ _ fi _ => fi | _ => 0 end.
Definition a_ttinfo_list (z : zone) : Z := match z with ZFile _ _ _ _ ft => ft | _ => 0 end.
