(* C18 -- the nocache / instance constructors return FRESH objects: an object handed out by
   `OInstance` is never an object that any factory call looked up, created, cached or returned,
   is not the tzutc singleton, and no two instance() calls return the same object. *)
From Coq Require Import ZArith List Bool Lia.
From V Require Import factory.FacModel factory.FacObs factory.FacLock factory.FacAlive factory.FacInv factory.FacThm
  factory.FacThm2.
Import ListNotations.
Open Scope Z_scope.

Arguments nth_error : simpl never.
Arguments upd : simpl never.
Arguments has_obj : simpl never.
Arguments existsb : simpl never.
Arguments opt_is : simpl never.

Definition fresh_objs (l : list ev) : list obj :=
  flat_map (fun e => match e with EFresh _ o => [o] | _ => [] end) l.

(* every place a factory keeps or has kept an object *)
Definition src (s : state) (x : obj) : Prop :=
  (exists t f k e, In (EBind t f k x e) (log s)) \/
  (exists f k, In (k, x) (wmap (facs s f))) \/
  (exists t th, nth_error (thrs s) t = Some th /\ (inst th = Some x \/ tmp th = Some x)) \/
  single s = Some x.

Lemma static_neg : forall n, static_id n < 0.
Proof. intros. unfold static_id. lia. Qed.

Ltac src_old_bind H := left; left; do 4 eexists; exact H.
Ltac src_wget :=
  match goal with
  | Hw : wget ?s ?f ?k = Some ?x |- _ =>
      left; right; left; exists f, k; apply alook_in; eapply wget_alook; exact Hw
  end.
Ltac src_own Hnth := left; right; right; left; do 2 eexists; split; [exact Hnth | cbn; first [left; reflexivity | right; reflexivity]].

Ltac val_leaf Hnth :=
  first [ src_own Hnth
        | src_wget
        | right; left; reflexivity
        | right; right; apply static_neg
        | left; right; right; right; cbn; congruence ].

Ltac src_case Hnth :=
  let x := fresh "x" in
  intros x [ (t0 & f1 & k1 & e1 & H) | [ (f1 & k1 & H) | [ (t2 & th2 & Hn2 & H) | H ] ] ];
  [ cbn in H;
    first [ src_old_bind H
          | destruct H as [H|H]; [ first [discriminate H | inversion H; subst; val_leaf Hnth] | src_old_bind H ] ]
  | destruct f1; cbn in H;
    first [ left; right; left; do 2 eexists; exact H
          | destruct H as [H|H];
            [ inversion H; subst; val_leaf Hnth | left; right; left; do 2 eexists; exact H ]
          | contradiction ]
  | cbn in Hn2;
    first [ apply nth_error_upd in Hn2 as [[<- ->]|[_ Hn2]];
            [ cbn in H; destruct H as [H|H]; first [discriminate H | inversion H; subst; val_leaf Hnth
                                                   | left; right; right; left; do 2 eexists; split; [exact Hnth | cbn; first [left; exact H | right; exact H]] ]
            | left; right; right; left; do 2 eexists; split; [exact Hn2 | exact H] ]
          | left; right; right; left; do 2 eexists; split; [exact Hn2 | exact H] ]
  | cbn in H; first [ left; right; right; right; exact H
                    | inversion H; subst; right; left; reflexivity ] ].

Lemma step_fresh : forall s t s' th,
  nth_error (thrs s) t = Some th -> pc_ok th = true -> step s t = Some s' ->
  (fresh_objs (log s') = fresh_objs (log s) /\ forall x, src s' x -> src s x \/ x = next s \/ x < 0) \/
  (fresh_objs (log s') = next s :: fresh_objs (log s) /\ next s' = next s + 1 /\
   forall x, src s' x -> src s x \/ x = next s \/ x < 0).
Proof.
  intros s t s' th Hnth Hok Hstep. unfold step, step_gen in Hstep. rewrite Hnth in Hstep.
  step_cases Hstep Hok.
  { inversion Hstep; subst. left. split; [reflexivity | intros x H; now left]. }
  all: first [ left; split; [reflexivity | src_case Hnth]
             | right; split; [reflexivity | split; [reflexivity | src_case Hnth]] ].
Qed.
