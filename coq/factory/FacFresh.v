(* C18 -- the nocache / instance constructors return FRESH objects: an object handed out by
   `OInstance` is never an object that any factory call looked up, created, cached or returned,
   is not the tzutc singleton, and no two instance() calls return the same object. *)
From Coq Require Import ZArith List Bool Lia.
From V Require Import factory.FacModel factory.FacObs factory.FacLock factory.FacAlive factory.FacInv factory.FacThm
  factory.FacThm2.
Import ListNotations.
Open Scope Z_scope.

Arguments nth_error : simpl never.
Arguments upd : simpl never.
Arguments has_obj : simpl never.
Arguments existsb : simpl never.
Arguments opt_is : simpl never.

Definition fresh_objs (l : list ev) : list obj :=
  flat_map (fun e => match e with EFresh _ o => [o] | _ => [] end) l.

(* every place a factory keeps or has kept an object *)
Definition src (s : state) (x : obj) : Prop :=
  (exists t f k e, In (EBind t f k x e) (log s)) \/
  (exists f k, In (k, x) (wmap (facs s f))) \/
  (exists t th, nth_error (thrs s) t = Some th /\ (inst th = Some x \/ tmp th = Some x)) \/
  single s = Some x.

Lemma static_neg : forall n, static_id n < 0.
Proof. intros. unfold static_id. lia. Qed.

Ltac src_old_bind H := left; left; do 4 eexists; exact H.
Ltac src_wget :=
  match goal with
  | Hw : wget ?s ?f ?k = Some ?x |- _ =>
      left; right; left; exists f, k; apply alook_in; eapply wget_alook; exact Hw
  end.
Ltac src_own Hnth := left; right; right; left; do 2 eexists; split; [exact Hnth | cbn; first [left; reflexivity | right; reflexivity]].

Ltac val_leaf Hnth :=
  first [ src_own Hnth
        | src_wget
        | right; left; reflexivity
        | right; right; apply static_neg
        | left; right; right; right; cbn; congruence ].

Ltac src_case Hnth :=
  let x := fresh "x" in
  intros x [ (t0 & f1 & k1 & e1 & H) | [ (f1 & k1 & H) | [ (t2 & th2 & Hn2 & H) | H ] ] ];
  [ cbn in H;
    first [ src_old_bind H
          | destruct H as [H|H]; [ first [discriminate H | inversion H; subst; val_leaf Hnth] | src_old_bind H ] ]
  | destruct f1; cbn in H;
    first [ left; right; left; do 2 eexists; exact H
          | destruct H as [H|H];
            [ inversion H; subst; val_leaf Hnth | left; right; left; do 2 eexists; exact H ]
          | contradiction ]
  | cbn in Hn2;
    first [ apply nth_error_upd in Hn2 as [[<- ->]|[_ Hn2]];
            [ cbn in H; destruct H as [H|H]; first [discriminate H | inversion H; subst; val_leaf Hnth
                                                   | left; right; right; left; do 2 eexists; split; [exact Hnth | cbn; first [left; exact H | right; exact H]] ]
            | left; right; right; left; do 2 eexists; split; [exact Hn2 | exact H] ]
          | left; right; right; left; do 2 eexists; split; [exact Hn2 | exact H] ]
  | cbn in H; first [ left; right; right; right; exact H
                    | inversion H; subst; right; left; reflexivity ] ].

Ltac src_strict Hnth :=
  let x := fresh "x" in
  intros x [ (t0 & f1 & k1 & e1 & H) | [ (f1 & k1 & H) | [ (t2 & th2 & Hn2 & H) | H ] ] ];
  [ cbn in H; destruct H as [H|H]; [discriminate H | left; do 4 eexists; exact H]
  | destruct f1; cbn in H; right; left; do 2 eexists; exact H
  | cbn in Hn2; apply nth_error_upd in Hn2 as [[<- ->]|[_ Hn2]];
    [ cbn in H; destruct H as [H|H]; discriminate H
    | right; right; left; do 2 eexists; split; [exact Hn2 | exact H] ]
  | cbn in H; right; right; right; exact H ].

Lemma step_fresh : forall s t s' th,
  nth_error (thrs s) t = Some th -> pc_ok th = true -> step s t = Some s' ->
  (fresh_objs (log s') = fresh_objs (log s) /\ forall x, src s' x -> src s x \/ x = next s \/ x < 0) \/
  (fresh_objs (log s') = next s :: fresh_objs (log s) /\ next s' = next s + 1 /\
   forall x, src s' x -> src s x).
Proof.
  intros s t s' th Hnth Hok Hstep. unfold step, step_gen in Hstep. rewrite Hnth in Hstep.
  step_cases Hstep Hok.
  { inversion Hstep; subst. left. split; [reflexivity | intros x H; now left]. }
  all: first [ left; split; [reflexivity | src_case Hnth]
             | right; split; [reflexivity | split; [reflexivity | src_strict Hnth]] ].
Qed.

(* ---------------------------------------------------------------- the freshness invariant *)

Definition finv (s : state) : Prop :=
  (forall o, In o (fresh_objs (log s)) -> 0 < o < next s) /\
  NoDup (fresh_objs (log s)) /\
  (forall x, src s x -> ~ In x (fresh_objs (log s))).

Lemma src_lt : forall s x, inv s -> src s x -> x < next s.
Proof.
  intros s x [_ [Hg Ht]] [ (t0 & f & k & e & H) | [ (f & k & H) | [ (t2 & th2 & Hn & H) | H ] ] ].
  - eapply g_bind_lt; eauto.
  - eapply g_wmap_lt; eauto.
  - destruct (Ht _ _ Hn) as (T0 & T1 & _). destruct H; [now apply T0 | now apply T1].
  - eapply g_single; eauto.
Qed.

Lemma finv_step : forall s t s', inv s -> finv s -> step s t = Some s' -> finv s'.
Proof.
  intros s t s' Hi (F1 & F2 & F3) Hstep.
  destruct (nth_error (thrs s) t) as [th|] eqn:Hnth.
  2:{ unfold step, step_gen in Hstep. rewrite Hnth in Hstep. inversion Hstep; subst. split; [assumption | split; assumption]. }
  destruct (proj1 (proj1 Hi) _ _ Hnth) as [Hok _].
  pose proof (step_next _ _ _ Hstep) as Hn.
  destruct (step_fresh _ _ _ _ Hnth Hok Hstep) as [[E Hs]|[E [En Hs]]]; unfold finv; rewrite E.
  - split; [intros o Ho; apply F1 in Ho; lia|]. split; [assumption|].
    intros x Hx Hf. destruct (Hs _ Hx) as [H|[->|H]].
    + eapply F3; eauto.
    + apply F1 in Hf. lia.
    + apply F1 in Hf. lia.
  - pose proof (g_next _ (proj1 (proj2 Hi))) as Hpos.
    split; [intros o [<-|Ho]; [lia | apply F1 in Ho; lia]|].
    split; [constructor; [intros Hin; apply F1 in Hin; lia | assumption]|].
    intros x Hx [<-|Hf].
    + apply Hs in Hx. pose proof (src_lt _ _ Hi Hx). lia.
    + eapply F3; eauto.
Qed.

Lemma finv_run : forall sched s, inv s -> finv s -> finv (run s sched).
Proof.
  unfold run, run_gen. induction sched as [|t r IH]; intros s Hi Hf; cbn; [assumption|].
  apply IH; [now apply inv_step_or_stay|].
  unfold step_or_stay. destruct (step_gen false s t) eqn:E; [|assumption].
  eapply finv_step; eauto.
Qed.

Lemma finv_init : forall progs, finv (init progs).
Proof.
  intros progs. split; [intros o []|]. split; [constructor|]. intros x _ [].
Qed.

Lemma fresh_in : forall l t o, In (EFresh t o) l -> In o (fresh_objs l).
Proof.
  intros l t o H. unfold fresh_objs. apply in_flat_map. exists (EFresh t o). split; [assumption|now left].
Qed.

(* an object returned by instance()/nocache() is never one a factory call returned, looked up or
   created; it is not the tzutc singleton; instance() results are pairwise different objects *)
Lemma instance_fresh_lemma : forall progs sched t o,
  let s := run (init progs) sched in
  In (EFresh t o) (log s) ->
  (forall t' f k o' e h, In (ERet t' f k o' e h) (log s) -> o' <> o) /\
  (forall t' f k o' e, In (EBind t' f k o' e) (log s) -> o' <> o) /\
  ~ In (Some o) (utc_results (log s)) /\
  NoDup (fresh_objs (log s)).
Proof.
  intros progs sched t o s Hin.
  assert (Hi : inv s) by apply inv_reachable.
  destruct (finv_run sched _ (inv_reachable progs []) (finv_init progs)) as (F1 & F2 & F3). fold s in F1, F2, F3.
  apply fresh_in in Hin.
  assert (Hb : forall t' f k o' e, In (EBind t' f k o' e) (log s) -> o' <> o).
  { intros t' f k o' e H ->. eapply F3; [|exact Hin]. left. eauto. }
  split; [|split; [exact Hb|split; [|exact F2]]].
  - intros t' f k o' e h H. destruct (g_ret _ (proj1 (proj2 Hi)) _ _ _ _ _ _ H) as [t'' B]. eapply Hb; eauto.
  - intros Hu. apply tzutc_identity_lemma in Hu. inversion Hu. apply F1 in Hin. lia.
Qed.
