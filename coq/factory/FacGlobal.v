(* C18 -- the global part of the data invariant is preserved by every kind of step effect. *)
From Coq Require Import ZArith List Bool Lia.
From V Require Import factory.FacModel factory.FacLock factory.FacAlive factory.FacAlive2 factory.FacInv.
Import ListNotations.
Open Scope Z_scope.

Arguments nth_error : simpl never.
Arguments upd : simpl never.
Arguments has_obj : simpl never.
Arguments existsb : simpl never.
Arguments opt_is : simpl never.

Lemma alook_cons_eq : forall l k o, alook ((k, o) :: l) k = Some o.
Proof. intros. unfold alook. now rewrite Z.eqb_refl. Qed.

Lemma alook_cons_neq : forall l k k' o, k <> k' -> alook ((k, o) :: l) k' = alook l k'.
Proof. intros l k k' o H. unfold alook; fold alook. apply Z.eqb_neq in H. now rewrite H. Qed.

Lemma fac_eqb_eq : forall a b, fac_eqb a b = true <-> a = b.
Proof. destruct a, b; cbn; split; intros; congruence. Qed.

Section Step.
  Variables (s s' : state) (t : nat).
  Hypothesis Hg : ginv s.
  Hypothesis Hres : forall o, alive s' o = true -> alive s o = true \/ o = next s.
  Hypothesis Hnext : next s <= next s'.
  Hypothesis Hsingle : forall o, single s' = Some o -> o < next s'.
  Hypothesis Hmono : forall e, In e (log s) -> In e (log s').

  Lemma alive_back : forall o, o < next s -> alive s' o = true -> alive s o = true.
  Proof. intros o Hlt Ha. destruct (Hres _ Ha); [assumption|lia]. Qed.

  Lemma wget_some_now : forall f k o, alook (wmap (facs s f)) k = Some o -> alive s o = true -> wget s f k = Some o.
  Proof. intros f k o E A. unfold wget. now rewrite E, A. Qed.

  Lemma ginv_quiet : same_maps s s' -> (log s' = log s \/ exists e, log s' = e :: log s /\ quiet_ev e) -> ginv s'.
  Proof.
    intros Hm Hl0.
    assert (Hl : forall e, In e (log s') -> In e (log s) \/ quiet_ev e).
    { intros e H. destruct Hl0 as [E|[e0 [E Q]]]; rewrite E in H; [now left|].
      destruct H as [<-|H]; [now right|now left]. }
    assert (HB : forall t0 f k o e, In (EBind t0 f k o e) (log s') -> In (EBind t0 f k o e) (log s)).
    { intros t0 f k o e H. destruct (Hl _ H) as [|Q]; [assumption|destruct Q]. }
    constructor.
    - pose proof (g_next _ Hg). lia.
    - assumption.
    - intros t0 f k o e H. apply HB in H. pose proof (g_bind_lt _ Hg _ _ _ _ _ H). lia.
    - intros f k o H. destruct (Hm f) as [E _]. rewrite E in H. pose proof (g_wmap_lt _ Hg _ _ _ H). lia.
    - intros t0 f k o H A. destruct (Hm f) as [E1 E2]. rewrite E2 in H. rewrite E1. apply HB in H.
      eapply g_cur; eauto. eapply alive_back; eauto. eapply g_bind_lt; eauto.
    - intros t1 t2 f k e o1 o2 H1 H2 A1 A2. apply HB in H1. apply HB in H2.
      eapply (g_pair _ Hg); eauto; eapply alive_back; eauto; eapply g_bind_lt; eauto.
    - intros t0 f k o e H. apply HB in H. destruct (Hm f) as [_ E]. rewrite E. eapply g_le; eauto.
    - intros f. destruct (Hm f) as [_ E]. rewrite E. apply (g_epoch _ Hg).
    - intros t0 f k o e h H. destruct (Hl _ H) as [H'|Q]; [|destruct Q].
      destruct (g_ret _ Hg _ _ _ _ _ _ H') as [t' B]. exists t'. now apply Hmono.
  Qed.

  Lemma ginv_bind : forall f k o, same_maps s s' -> log s' = EBind t f k o (epoch (facs s f)) :: log s ->
                                  wget s f k = Some o -> ginv s'.
  Proof.
    intros f k o Hm Hl Hw.
    pose proof (wget_alook _ _ _ _ Hw) as Hlook. pose proof (wget_alive _ _ _ _ Hw) as Hal.
    assert (Hlt : o < next s) by (apply alook_in in Hlook; eapply g_wmap_lt; eauto).
    assert (HB : forall t0 f0 k0 o0 e, In (EBind t0 f0 k0 o0 e) (log s') ->
                 (t0 = t /\ f0 = f /\ k0 = k /\ o0 = o /\ e = epoch (facs s f)) \/ In (EBind t0 f0 k0 o0 e) (log s)).
    { intros t0 f0 k0 o0 e H. rewrite Hl in H. destruct H as [H|H]; [left; inversion H; auto|now right]. }
    constructor.
    - pose proof (g_next _ Hg). lia.
    - assumption.
    - intros t0 f0 k0 o0 e H. apply HB in H as [(-> & -> & -> & -> & ->)|H]; [lia|].
      pose proof (g_bind_lt _ Hg _ _ _ _ _ H). lia.
    - intros f0 k0 o0 H. destruct (Hm f0) as [E _]. rewrite E in H. pose proof (g_wmap_lt _ Hg _ _ _ H). lia.
    - intros t0 f0 k0 o0 H A. destruct (Hm f0) as [E1 E2]. rewrite E1. rewrite E2 in H.
      apply HB in H as [(-> & -> & -> & -> & _)|H]; [assumption|].
      eapply g_cur; eauto. eapply alive_back; eauto. eapply g_bind_lt; eauto.
    - intros t1 t2 f0 k0 e o1 o2 H1 H2 A1 A2.
      apply HB in H1 as [(-> & -> & -> & -> & ->)|H1]; apply HB in H2 as [(E1 & E2 & E3 & E4 & E5)|H2].
      + congruence.
      + assert (alive s o2 = true) by (eapply alive_back; eauto; eapply g_bind_lt; eauto).
        pose proof (g_cur _ Hg _ _ _ _ H2 H). congruence.
      + subst. assert (alive s o1 = true) by (eapply alive_back; eauto; eapply g_bind_lt; eauto).
        pose proof (g_cur _ Hg _ _ _ _ H1 H). congruence.
      + eapply (g_pair _ Hg); eauto; eapply alive_back; eauto; eapply g_bind_lt; eauto.
    - intros t0 f0 k0 o0 e H. destruct (Hm f0) as [_ E]. rewrite E.
      apply HB in H as [(-> & -> & -> & -> & ->)|H]; [pose proof (g_epoch _ Hg f); lia|]. eapply g_le; eauto.
    - intros f0. destruct (Hm f0) as [_ E]. rewrite E. apply (g_epoch _ Hg).
    - intros t0 f0 k0 o0 e h H. rewrite Hl in H. destruct H as [H|H]; [discriminate|].
      destruct (g_ret _ Hg _ _ _ _ _ _ H) as [t' B]. exists t'. rewrite Hl. now right.
  Qed.

  Lemma ginv_write : forall f k o,
    (forall f', wmap (facs s' f') = if fac_eqb f' f then (k, o) :: wmap (facs s f) else wmap (facs s f')) ->
    (forall f', epoch (facs s' f') = epoch (facs s f')) ->
    log s' = EBind t f k o (epoch (facs s f)) :: log s ->
    wget s f k = None -> o < next s -> ginv s'.
  Proof.
    intros f k o Hw He Hl Hnone Hlt.
    assert (HB : forall t0 f0 k0 o0 e, In (EBind t0 f0 k0 o0 e) (log s') ->
                 (t0 = t /\ f0 = f /\ k0 = k /\ o0 = o /\ e = epoch (facs s f)) \/ In (EBind t0 f0 k0 o0 e) (log s)).
    { intros t0 f0 k0 o0 e H. rewrite Hl in H. destruct H as [H|H]; [left; inversion H; auto|now right]. }
    (* nothing alive is bound to k in the current epoch *)
    assert (Hdead : forall t0 o0, In (EBind t0 f k o0 (epoch (facs s f))) (log s) -> alive s' o0 = true -> False).
    { intros t0 o0 H A. assert (alive s o0 = true) by (eapply alive_back; eauto; eapply g_bind_lt; eauto).
      pose proof (g_cur _ Hg _ _ _ _ H H0) as E. pose proof (wget_some_now _ _ _ E H0). congruence. }
    constructor.
    - pose proof (g_next _ Hg). lia.
    - assumption.
    - intros t0 f0 k0 o0 e H. apply HB in H as [(-> & -> & -> & -> & ->)|H]; [lia|].
      pose proof (g_bind_lt _ Hg _ _ _ _ _ H). lia.
    - intros f0 k0 o0 H. rewrite Hw in H. destruct (fac_eqb f0 f).
      + destruct H as [H|H]; [inversion H; subst; lia|]. pose proof (g_wmap_lt _ Hg _ _ _ H). lia.
      + pose proof (g_wmap_lt _ Hg _ _ _ H). lia.
    - intros t0 f0 k0 o0 H A. rewrite He in H. rewrite Hw.
      apply HB in H as [(-> & -> & -> & -> & _)|H].
      + rewrite fac_eqb_refl. apply alook_cons_eq.
      + destruct (fac_eqb f0 f) eqn:Ef.
        * apply fac_eqb_eq in Ef. subst f0. destruct (Z.eq_dec k k0) as [->|Hne].
          -- exfalso. eapply Hdead; eauto.
          -- rewrite alook_cons_neq by assumption. eapply g_cur; eauto. eapply alive_back; eauto. eapply g_bind_lt; eauto.
        * eapply g_cur; eauto. eapply alive_back; eauto. eapply g_bind_lt; eauto.
    - intros t1 t2 f0 k0 e o1 o2 H1 H2 A1 A2.
      apply HB in H1 as [(-> & -> & -> & -> & ->)|H1]; apply HB in H2 as [(E1 & E2 & E3 & E4 & E5)|H2].
      + congruence.
      + exfalso. eapply Hdead; eauto.
      + subst. exfalso. eapply Hdead; eauto.
      + eapply (g_pair _ Hg); eauto; eapply alive_back; eauto; eapply g_bind_lt; eauto.
    - intros t0 f0 k0 o0 e H. rewrite He.
      apply HB in H as [(-> & -> & -> & -> & ->)|H]; [pose proof (g_epoch _ Hg f); lia|]. eapply g_le; eauto.
    - intros f0. rewrite He. apply (g_epoch _ Hg).
    - intros t0 f0 k0 o0 e h H. rewrite Hl in H. destruct H as [H|H]; [discriminate|].
      destruct (g_ret _ Hg _ _ _ _ _ _ H) as [t' B]. exists t'. rewrite Hl. now right.
  Qed.

  Lemma ginv_clear :
    wmap (facs s' FGet) = [] -> epoch (facs s' FGet) = epoch (facs s FGet) + 1 ->
    (forall f', f' <> FGet -> wmap (facs s' f') = wmap (facs s f') /\ epoch (facs s' f') = epoch (facs s f')) ->
    log s' = log s -> ginv s'.
  Proof.
    intros Hw He Ho Hl. constructor.
    - pose proof (g_next _ Hg). lia.
    - assumption.
    - intros t0 f k o e H. rewrite Hl in H. pose proof (g_bind_lt _ Hg _ _ _ _ _ H). lia.
    - intros f k o H. destruct f; try (destruct (Ho FOff ltac:(discriminate)) as [E _]);
        try (destruct (Ho FStr ltac:(discriminate)) as [E' _]).
      + rewrite E in H. pose proof (g_wmap_lt _ Hg _ _ _ H). lia.
      + rewrite E' in H. pose proof (g_wmap_lt _ Hg _ _ _ H). lia.
      + rewrite Hw in H. destruct H.
    - intros t0 f k o H A. rewrite Hl in H. destruct f.
      + destruct (Ho FOff ltac:(discriminate)) as [E1 E2]. rewrite E1. rewrite E2 in H.
        eapply g_cur; eauto. eapply alive_back; eauto. eapply g_bind_lt; eauto.
      + destruct (Ho FStr ltac:(discriminate)) as [E1 E2]. rewrite E1. rewrite E2 in H.
        eapply g_cur; eauto. eapply alive_back; eauto. eapply g_bind_lt; eauto.
      + rewrite He in H. pose proof (g_le _ Hg _ _ _ _ _ H). lia.
    - intros t1 t2 f k e o1 o2 H1 H2 A1 A2. rewrite Hl in H1, H2.
      eapply (g_pair _ Hg); eauto; eapply alive_back; eauto; eapply g_bind_lt; eauto.
    - intros t0 f k o e H. rewrite Hl in H. pose proof (g_le _ Hg _ _ _ _ _ H). destruct f.
      + destruct (Ho FOff ltac:(discriminate)) as [_ E2]. now rewrite E2.
      + destruct (Ho FStr ltac:(discriminate)) as [_ E2]. now rewrite E2.
      + rewrite He. lia.
    - intros f. pose proof (g_epoch _ Hg f). destruct f.
      + destruct (Ho FOff ltac:(discriminate)) as [_ E2]. now rewrite E2.
      + destruct (Ho FStr ltac:(discriminate)) as [_ E2]. now rewrite E2.
      + rewrite He. lia.
    - intros t0 f k o e h H. rewrite Hl in H |- *. eapply g_ret; eauto.
  Qed.

  Lemma ginv_ret : forall f k o e h t', same_maps s s' -> log s' = ERet t f k o e h :: log s ->
                                        In (EBind t' f k o e) (log s) -> ginv s'.
  Proof.
    intros f k o e h t' Hm Hl Hb.
    assert (HB : forall t0 f0 k0 o0 e0, In (EBind t0 f0 k0 o0 e0) (log s') -> In (EBind t0 f0 k0 o0 e0) (log s)).
    { intros t0 f0 k0 o0 e0 H. rewrite Hl in H. destruct H as [H|H]; [discriminate|assumption]. }
    constructor.
    - pose proof (g_next _ Hg). lia.
    - assumption.
    - intros t0 f0 k0 o0 e0 H. apply HB in H. pose proof (g_bind_lt _ Hg _ _ _ _ _ H). lia.
    - intros f0 k0 o0 H. destruct (Hm f0) as [E _]. rewrite E in H. pose proof (g_wmap_lt _ Hg _ _ _ H). lia.
    - intros t0 f0 k0 o0 H A. destruct (Hm f0) as [E1 E2]. rewrite E2 in H. rewrite E1. apply HB in H.
      eapply g_cur; eauto. eapply alive_back; eauto. eapply g_bind_lt; eauto.
    - intros t1 t2 f0 k0 e0 o1 o2 H1 H2 A1 A2. apply HB in H1. apply HB in H2.
      eapply (g_pair _ Hg); eauto; eapply alive_back; eauto; eapply g_bind_lt; eauto.
    - intros t0 f0 k0 o0 e0 H. apply HB in H. destruct (Hm f0) as [_ E]. rewrite E. eapply g_le; eauto.
    - intros f0. destruct (Hm f0) as [_ E]. rewrite E. apply (g_epoch _ Hg).
    - intros t0 f0 k0 o0 e0 h0 H. rewrite Hl in H. destruct H as [H|H].
      + inversion H; subst. exists t'. rewrite Hl. now right.
      + destruct (g_ret _ Hg _ _ _ _ _ _ H) as [t'' B]. exists t''. rewrite Hl. now right.
  Qed.

  Lemma ginv_effect : effect s s' t -> ginv s'.
  Proof.
    intros [Hm Hl|f k o Hm Hl Hw|f k o Hw He Hl Hn Hlt|Hw He Ho Hl|f k o e h t' Hm Hl Hb _ _].
    - now apply ginv_quiet.
    - eapply ginv_bind; eauto.
    - eapply ginv_write; eauto.
    - now apply ginv_clear.
    - eapply ginv_ret; eauto.
  Qed.
End Step.
