(* C18 -- theorems about the factory transition system (filled in below). *)
From Coq Require Import ZArith List Bool Lia.
From V Require Import factory.FacModel factory.FacSpec.
Import ListNotations.
Open Scope Z_scope.
