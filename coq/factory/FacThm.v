(* C18 -- the invariant holds in every state reachable under ANY schedule, and what follows:
   factory_identity (the spec on the returned identities), no two live objects per key,
   retention-only for eviction / set_cache_size, tzutc identity. *)
From Coq Require Import ZArith List Bool Lia.
From V Require Import factory.FacModel factory.FacSpec factory.FacObs factory.FacLock factory.FacLock2
  factory.FacAlive factory.FacAlive2 factory.FacInv factory.FacGlobal factory.FacOwn factory.FacOwn2.
Import ListNotations.
Open Scope Z_scope.

Arguments nth_error : simpl never.
Arguments upd : simpl never.
Arguments has_obj : simpl never.
Arguments existsb : simpl never.
Arguments opt_is : simpl never.

(* ---------------------------------------------------------------- small step facts *)

Ltac plain_cases Hstep :=
  unfold step, step_gen in Hstep;
  match type of Hstep with
  | context [nth_error (thrs ?s) ?t] =>
      let th := fresh "th" in let Hnth := fresh "Hnth" in
      destruct (nth_error (thrs s) t) as [th|] eqn:Hnth;
      [ destruct th as [pr p ne ins tm te]; cbn in Hstep;
        destruct pr as [|o rest];
        [ | destruct p; cbn in Hstep; destruct o as [f0 k kd slot|slot|slot|slot| |n];
            try destruct f0;
            unfold step_idle, step_call, step_clear, step_size, step_utc, acquire, release, goto, cur_fac,
              cur_key, cons_raises, log_bind in Hstep;
            cbn in Hstep; break_hyp Hstep ]
      | ]
  end; inversion Hstep; subst; clear Hstep.

Lemma step_single : forall s t s',
  step s t = Some s' -> single s' = single s \/ (single s' = Some (next s) /\ next s' = next s + 1).
Proof.
  intros s t s' Hstep. plain_cases Hstep; cbn; auto.
Qed.

Lemma step_epoch : forall s t s',
  step s t = Some s' ->
  (forall f, epoch (facs s' f) = epoch (facs s f)) \/
  (exists th rest, nth_error (thrs s) t = Some th /\ prog th = OClear :: rest).
Proof.
  intros s t s' Hstep. plain_cases Hstep; cbn;
    try (left; intros f; destruct f; reflexivity);
    try (right; eexists; eexists; split; [first [eassumption | reflexivity] | reflexivity]).
Qed.

Lemma step_progs : forall s t s' t2 th2',
  step s t = Some s' -> nth_error (thrs s') t2 = Some th2' ->
  exists th2, nth_error (thrs s) t2 = Some th2 /\ (prog th2' = prog th2 \/ prog th2' = tl (prog th2)).
Proof.
  intros s t s' t2 th2' Hstep H2. plain_cases Hstep; cbn in H2;
    try (eexists; split; [eassumption | left; reflexivity]).
  all: apply nth_error_upd in H2 as [[<- ->]|[_ H2]];
    [ eexists; split; [eassumption | cbn; auto] | eexists; split; [eassumption | left; reflexivity] ].
Qed.

(* ---------------------------------------------------------------- the invariant *)

Definition inv (s : state) : Prop := linv s /\ dinv s.

Theorem step_preserves_inv : forall s t s', inv s -> step s t = Some s' -> inv s'.
Proof.
  intros s t s' [Hl [Hg Ht]] Hstep. split; [eapply step_preserves_linv; eauto|].
  destruct (nth_error (thrs s) t) as [th|] eqn:Hnth.
  2:{ unfold step, step_gen in Hstep. rewrite Hnth in Hstep. inversion Hstep; subst. split; assumption. }
  destruct (proj1 Hl _ _ Hnth) as [Hok _].
  pose proof (Ht _ _ Hnth) as Hti.
  pose proof (step_effect _ _ _ _ Hnth Hok Hti Hstep) as Heff.
  pose proof (no_resurrect _ _ _ _ Hnth Hok Hstep) as Hres.
  pose proof (step_next _ _ _ Hstep) as Hnext.
  pose proof (fun e => step_log_mono _ _ _ e Hstep) as Hmono.
  pose proof (step_fac_frame _ _ _ _ Hnth Hok Hstep) as Hframe.
  destruct (step_thrs _ _ _ _ Hnth Hok Hstep) as [th' Hthrs].
  assert (Hsingle : forall o, single s' = Some o -> o < next s').
  { intros o H. destruct (step_single _ _ _ Hstep) as [E|[E1 E2]].
    - rewrite E in H. apply (g_single _ Hg) in H. lia.
    - rewrite E1 in H. inversion H. lia. }
  split.
  - eapply ginv_effect; eauto. lia.
  - intros t2 th2 H2. destruct (Nat.eq_dec t2 t) as [->|Hne].
    + eapply tinv_own; eauto.
    + assert (H2' : nth_error (thrs s) t2 = Some th2).
      { rewrite Hthrs in H2. rewrite nth_error_upd_neq in H2 by congruence. assumption. }
      eapply tinv_other with (t := t) (t2 := t2); eauto. lia.
Qed.

Lemma tinv_idle : forall s p, 0 < next s -> tinv s (thr0 p).
Proof.
  intros s p Hn. unfold tinv, thr0. cbn. split; [discriminate|]. split; [discriminate|].
  destruct p as [|[f k kd slot| | | | |] r]; try exact I.
  cbn. repeat split; intros; try discriminate. intuition (discriminate || congruence).
Qed.

Lemma inv_init : forall s0 progs, (forall o, s0 = Some o -> o < 1) -> inv (init_gen s0 progs).
Proof.
  intros s0 progs H0. split; [apply linv_init|]. split.
  - constructor; cbn; intros; try contradiction; try lia; auto.
  - intros t th H. cbn in H. rewrite nth_error_map in H.
    destruct (nth_error progs t); cbn in H; inversion H; subst. apply tinv_idle. cbn. lia.
Qed.

Lemma inv_step_or_stay : forall s t, inv s -> inv (step_or_stay false s t).
Proof.
  intros s t H. unfold step_or_stay. destruct (step_gen false s t) eqn:E; [|assumption].
  eapply step_preserves_inv; eauto.
Qed.

Lemma inv_run : forall sched s, inv s -> inv (run s sched).
Proof.
  unfold run, run_gen. induction sched as [|t r IH]; intros s H; cbn; [assumption|].
  apply IH. now apply inv_step_or_stay.
Qed.

Lemma inv_reachable : forall progs sched, inv (run (init progs) sched).
Proof. intros. apply inv_run, inv_init. intros o H. inversion H. lia. Qed.

(* ---------------------------------------------------------------- no two live objects per key *)

Lemma no_two_live_lemma : forall progs sched t1 t2 f k e o1 o2 h1 h2,
  let s := run (init progs) sched in
  In (ERet t1 f k o1 e h1) (log s) -> In (ERet t2 f k o2 e h2) (log s) ->
  alive s o1 = true -> alive s o2 = true -> o1 = o2.
Proof.
  intros progs sched t1 t2 f k e o1 o2 h1 h2 s H1 H2 A1 A2.
  destruct (inv_reachable progs sched) as [_ [Hg _]]. fold s in Hg.
  destruct (g_ret _ Hg _ _ _ _ _ _ H1) as [t1' B1]. destruct (g_ret _ Hg _ _ _ _ _ _ H2) as [t2' B2].
  eapply (g_pair _ Hg); eauto.
Qed.

(* the same for bindings a thread has looked up or created but not yet returned *)
Lemma no_two_live_bound_lemma : forall progs sched t1 t2 f k e o1 o2,
  let s := run (init progs) sched in
  In (EBind t1 f k o1 e) (log s) -> In (EBind t2 f k o2 e) (log s) ->
  alive s o1 = true -> alive s o2 = true -> o1 = o2.
Proof.
  intros progs sched t1 t2 f k e o1 o2 s H1 H2 A1 A2.
  destruct (inv_reachable progs sched) as [_ [Hg _]]. fold s in Hg.
  eapply (g_pair _ Hg); eauto.
Qed.

(* ---------------------------------------------------------------- the spec holds of every run *)

Definition sinv (s : state) : Prop := spec_identity (obs_of_log (log s)) = true.

Lemma zmem_in : forall x l, zmem x l = true <-> In x l.
Proof.
  intros x l. unfold zmem. rewrite existsb_exists. split.
  - intros [y [Hi He]]. apply Z.eqb_eq in He. now subst.
  - intros H. exists x. split; [assumption|apply Z.eqb_refl].
Qed.

Lemma obs_in : forall l r, In r (obs_of_log l) ->
  exists t f k o e h, In (ERet t f k o e h) l /\ r = mkO (fac_code f) k o e h.
Proof.
  intros l r H. unfold obs_of_log in H. apply in_flat_map in H as [ev [Hi Hr]].
  destruct ev; cbn in Hr; try contradiction. destruct Hr as [<-|[]]. repeat eexists. eassumption.
Qed.

Lemma fac_code_inj : forall a b, fac_code a = fac_code b -> a = b.
Proof. destruct a, b; cbn; intros; congruence. Qed.

Lemma refs_alive : forall s o, In o (map snd (refs s)) -> alive s o = true.
Proof.
  intros s o H. apply alive_refs. apply has_obj_in. apply in_map_iff in H as [[k x] [E Hi]].
  cbn in E. subst. eauto.
Qed.

Lemma obs_of_log_ret : forall t f k o e h l,
  obs_of_log (ERet t f k o e h :: l) = mkO (fac_code f) k o e h :: obs_of_log l.
Proof. reflexivity. Qed.

Lemma spec_identity_cons : forall r l, spec_identity (r :: l) = forallb (agrees r) l && spec_identity l.
Proof. reflexivity. Qed.

Lemma step_preserves_sinv : forall s t s', inv s -> sinv s -> step s t = Some s' -> sinv s'.
Proof.
  intros s t s' [Hl [Hg Ht]] Hs Hstep. unfold sinv in *.
  destruct (nth_error (thrs s) t) as [th|] eqn:Hnth.
  2:{ unfold step, step_gen in Hstep. rewrite Hnth in Hstep. inversion Hstep; subst. assumption. }
  destruct (proj1 Hl _ _ Hnth) as [Hok _].
  pose proof (step_effect _ _ _ _ Hnth Hok (Ht _ _ Hnth) Hstep) as Heff.
  destruct Heff as [Hm Hlg|f k o Hm Hlg Hw|f k o Hw He Hlg Hn Hlt|Hw He Ho Hlg|f k o e h t' Hm Hlg Hb Hh Ha].
  - destruct Hlg as [E|[e0 [E Q]]]; rewrite E; [assumption|].
    cbn. destruct e0; cbn in Q; try contradiction; cbn; assumption.
  - rewrite Hlg. cbn. assumption.
  - rewrite Hlg. cbn. assumption.
  - rewrite Hlg. assumption.
  - rewrite Hlg, obs_of_log_ret, spec_identity_cons, Hs, andb_true_r. apply forallb_forall. intros r Hr.
    apply obs_in in Hr as (t0 & f0 & k0 & o0 & e0 & h0 & Hi & ->).
    unfold agrees, same_req. cbn.
    destruct ((fac_code f =? fac_code f0) && (k =? k0) && (e =? e0) && zmem o0 h) eqn:C; [|reflexivity].
    apply andb_prop in C as [C C4]. apply andb_prop in C as [C C3]. apply andb_prop in C as [C1 C2].
    apply Z.eqb_eq in C1, C2, C3. apply fac_code_inj in C1. subst f0 k0 e0.
    apply zmem_in in C4. subst h. apply refs_alive in C4.
    destruct (g_ret _ Hg _ _ _ _ _ _ Hi) as [t0' B0].
    apply Z.eqb_eq. eapply (g_pair _ Hg); eauto.
Qed.

Lemma inv_sinv_run : forall sched s, inv s -> sinv s -> sinv (run s sched).
Proof.
  unfold run, run_gen. induction sched as [|t r IH]; intros s Hi Hs; cbn; [assumption|].
  apply IH; [now apply inv_step_or_stay|].
  unfold step_or_stay. destruct (step_gen false s t) eqn:E; [|assumption].
  eapply step_preserves_sinv; eauto.
Qed.

Lemma factory_identity_lemma : forall progs sched,
  spec_identity (obs_of_log (log (run (init progs) sched))) = true.
Proof.
  intros. apply inv_sinv_run; [apply inv_init; intros o H; inversion H; lia | reflexivity].
Qed.

(* what spec_identity says, spelled out: the later of two returns for one request in one epoch
   is the earlier object whenever a client still holds the earlier object *)
Lemma spec_identity_sound : forall later r earlier,
  spec_identity (later ++ r :: earlier) = true ->
  forall r', In r' earlier -> o_fac r' = o_fac r -> o_key r' = o_key r -> o_epoch r' = o_epoch r ->
             In (o_obj r') (o_held r) -> o_obj r = o_obj r'.
Proof.
  induction later as [|a l IH]; intros r earlier H r' Hi Hf Hk He Hh; cbn in H.
  - apply andb_prop in H as [H _]. rewrite forallb_forall in H. specialize (H _ Hi).
    unfold agrees, same_req in H. rewrite Hf, Hk, He, !Z.eqb_refl in H. cbn in H.
    apply zmem_in in Hh. rewrite Hh in H. apply Z.eqb_eq in H. congruence.
  - apply andb_prop in H as [_ H]. eapply IH; eauto.
Qed.

Lemma factory_identity_explicit_lemma : forall progs sched later r earlier r',
  obs_of_log (log (run (init progs) sched)) = later ++ r :: earlier ->
  In r' earlier -> o_fac r' = o_fac r -> o_key r' = o_key r -> o_epoch r' = o_epoch r ->
  In (o_obj r') (o_held r) -> o_obj r = o_obj r'.
Proof.
  intros progs sched later r earlier r' E. intros. eapply spec_identity_sound; eauto.
  rewrite <- E. apply factory_identity_lemma.
Qed.
