(* C18 -- liveness facts: a step never makes a dead object alive again (the only new strong
   references are to objects already alive or freshly allocated), allocation is monotone, the
   ghost log only grows, and a factory's weak map / epoch change only under its lock. *)
From Coq Require Import ZArith List Bool Lia.
From V Require Import factory.FacModel factory.FacLock.
Import ListNotations.
Open Scope Z_scope.

Arguments nth_error : simpl never.
Arguments upd : simpl never.
Arguments has_obj : simpl never.
Arguments existsb : simpl never.

(* ---------------------------------------------------------------- small lists *)

Lemma alook_in : forall l k o, alook l k = Some o -> In (k, o) l.
Proof.
  induction l as [|[k' o'] l IH]; unfold alook; fold alook; intros k o H; [discriminate|].
  destruct (k' =? k) eqn:E.
  - apply Z.eqb_eq in E. inversion H; subst. now left.
  - right. now apply IH.
Qed.

Lemma has_obj_in : forall l o, has_obj l o = true <-> exists k, In (k, o) l.
Proof.
  intros l o. unfold has_obj. rewrite existsb_exists. split.
  - intros [[k x] [Hi He]]. cbn in He. apply Z.eqb_eq in He. subst. eauto.
  - intros [k Hi]. exists (k, o). split; [assumption|]. cbn. apply Z.eqb_refl.
Qed.

Lemma has_obj_adel : forall l k o, has_obj (adel l k) o = true -> has_obj l o = true.
Proof.
  intros l k o H. apply has_obj_in in H as [k' Hi]. apply has_obj_in. exists k'.
  unfold adel in Hi. apply filter_In in Hi. tauto.
Qed.

Lemma has_obj_set_slot : forall r slot x o,
  has_obj (set_slot r slot x) o = true -> opt_is x o = true \/ has_obj r o = true.
Proof.
  intros r slot x o H. unfold set_slot in H. destruct x as [y|].
  - apply has_obj_in in H as [k0 [Hi|Hi]].
    + inversion Hi; subst. left. cbn. apply Z.eqb_refl.
    + right. eapply has_obj_adel. apply has_obj_in. eauto.
  - right. eapply has_obj_adel; eauto.
Qed.

Lemma has_obj_lru_touch : forall l k v o,
  has_obj (lru_touch l k v) o = true -> has_obj l o = true \/ v = o.
Proof.
  intros l k v o H. unfold lru_touch in H. apply has_obj_in in H as [k' Hi].
  apply in_app_or in Hi as [Hi|[Hi|[]]].
  - left. eapply has_obj_adel. apply has_obj_in. eauto.
  - destruct (alook l k) as [v'|] eqn:E.
    + apply alook_in in E. inversion Hi; subst. left. apply has_obj_in. eauto.
    + inversion Hi; subst. now right.
Qed.

Lemma has_obj_tl : forall l o, has_obj (tl l) o = true -> has_obj l o = true.
Proof.
  intros [|a l] o H; [assumption|]. cbn in H. apply has_obj_in in H as [k Hi]. apply has_obj_in.
  exists k. now right.
Qed.

Lemma has_obj_nil : forall o, has_obj [] o = false.
Proof. reflexivity. Qed.

Lemma existsb_upd : forall A (p : A -> bool) l t x,
  existsb p (upd l t x) = true -> p x = true \/ existsb p l = true.
Proof.
  intros A p l t x H. apply existsb_exists in H as [y [Hi Hy]].
  apply In_nth_error in Hi as [n Hn]. apply nth_error_upd in Hn as [[_ ->]|[_ Hn]].
  - now left.
  - right. apply existsb_exists. exists y. split; [eapply nth_error_In; eauto|assumption].
Qed.

Lemma existsb_nth : forall A (p : A -> bool) l t x,
  nth_error l t = Some x -> p x = true -> existsb p l = true.
Proof.
  intros A p l t x Hn Hp. apply existsb_exists. exists x. split; [eapply nth_error_In; eauto|assumption].
Qed.

(* ---------------------------------------------------------------- alive: introduction rules *)

Lemma alive_neg : forall s o, o < 0 -> alive s o = true.
Proof. intros s o H. unfold alive. apply Z.ltb_lt in H. now rewrite H. Qed.

Lemma alive_static : forall s n, alive s (static_id n) = true.
Proof. intros. apply alive_neg. unfold static_id. lia. Qed.

Lemma alive_single : forall s o, opt_is (single s) o = true -> alive s o = true.
Proof. intros s o H. unfold alive. rewrite H. now rewrite orb_true_r. Qed.

Lemma alive_refs : forall s o, has_obj (refs s) o = true -> alive s o = true.
Proof. intros s o H. unfold alive. rewrite H. now rewrite !orb_true_r. Qed.

Lemma alive_lru : forall s f o, has_obj (lru (facs s f)) o = true -> alive s o = true.
Proof. intros s f o H. unfold alive. destruct f; rewrite H; now rewrite !orb_true_r. Qed.

Lemma alive_thr : forall s t th o, nth_error (thrs s) t = Some th -> thr_refs o th = true -> alive s o = true.
Proof. intros s t th o Hn H. unfold alive. erewrite existsb_nth; eauto. now rewrite !orb_true_r. Qed.

Lemma alive_inst : forall s t th o, nth_error (thrs s) t = Some th -> opt_is (inst th) o = true -> alive s o = true.
Proof. intros. eapply alive_thr; eauto. unfold thr_refs. now rewrite H0. Qed.

Lemma alive_tmp : forall s t th o, nth_error (thrs s) t = Some th -> opt_is (tmp th) o = true -> alive s o = true.
Proof. intros. eapply alive_thr; eauto. unfold thr_refs. rewrite H0. now rewrite orb_true_r. Qed.

Lemma opt_is_some : forall x o, opt_is (Some x) o = true -> x = o.
Proof. intros x o H. cbn in H. now apply Z.eqb_eq. Qed.

Lemma opt_is_eq : forall x o, opt_is x o = true <-> x = Some o.
Proof.
  intros [y|] o; cbn; split; intros H; try discriminate.
  - apply Z.eqb_eq in H. now subst.
  - inversion H. apply Z.eqb_refl.
Qed.

Lemma wget_alive : forall s f k o, wget s f k = Some o -> alive s o = true.
Proof.
  intros s f k o H. unfold wget in H. destruct (alook (wmap (facs s f)) k); [|discriminate].
  destruct (alive s o0) eqn:E; inversion H; subst; assumption.
Qed.

Lemma wget_alook : forall s f k o, wget s f k = Some o -> alook (wmap (facs s f)) k = Some o.
Proof.
  intros s f k o H. unfold wget in H. destruct (alook (wmap (facs s f)) k); [|discriminate].
  destruct (alive s o0); inversion H; subst; reflexivity.
Qed.

Lemma wget_none : forall s f k, wget s f k = None ->
  forall o, alook (wmap (facs s f)) k = Some o -> alive s o = false.
Proof.
  intros s f k H o E. unfold wget in H. rewrite E in H. destruct (alive s o); [discriminate|reflexivity].
Qed.

(* the components of alive, for elimination *)
Lemma alive_cases : forall s o, alive s o = true ->
  o < 0 \/ opt_is (single s) o = true \/ has_obj (refs s) o = true
  \/ (exists f, has_obj (lru (facs s f)) o = true) \/ existsb (thr_refs o) (thrs s) = true.
Proof.
  intros s o H. unfold alive in H. repeat (apply orb_true_iff in H; destruct H as [H|H]).
  - left. now apply Z.ltb_lt.
  - tauto.
  - tauto.
  - right; right; right; left. now exists FOff.
  - right; right; right; left. now exists FStr.
  - right; right; right; left. now exists FGet.
  - tauto.
Qed.

(* ---------------------------------------------------------------- one step: case analysis *)

Ltac step_cases Hstep Hok :=
  match type of Hok with
  | pc_ok ?th = true =>
      destruct th as [pr p ne ins tm te]; unfold pc_ok in Hok; cbn in Hok, Hstep;
      destruct pr as [|o rest];
      [ | destruct ne; destruct p; cbn in Hok; try discriminate Hok; cbn in Hstep;
          destruct o as [f0 k kd slot|slot|slot|slot| |n]; cbn in Hok; try discriminate Hok;
          try (destruct f0; cbn in Hok; try discriminate Hok);
          try (destruct kd; cbn in Hok; try discriminate Hok);
          unfold step_idle, step_call, step_clear, step_size, step_utc, acquire, release, goto, cur_fac,
            cur_key, cons_raises, log_bind in Hstep;
          cbn in Hstep; break_hyp Hstep; inversion Hstep; subst; clear Hstep ]
  end.

Lemma step_thrs : forall s t s' th,
  nth_error (thrs s) t = Some th -> pc_ok th = true -> step s t = Some s' ->
  exists th', thrs s' = upd (thrs s) t th'.
Proof.
  intros s t s' th Hnth Hok Hstep. unfold step, step_gen in Hstep. rewrite Hnth in Hstep.
  step_cases Hstep Hok.
  { inversion Hstep; subst. eexists. symmetry. apply upd_same. eassumption. }
  all: try (eexists; cbn; reflexivity).
  all: eexists; symmetry; apply upd_same; eassumption.
Qed.

Lemma step_next : forall s t s', step s t = Some s' -> next s <= next s' <= next s + 1.
Proof.
  intros s t s' Hstep. unfold step, step_gen in Hstep.
  destruct (nth_error (thrs s) t) as [th|] eqn:Hnth; [|inversion Hstep; subst; lia].
  destruct th as [pr p ne ins tm te]. cbn in Hstep.
  destruct pr as [|o rest]; [inversion Hstep; subst; lia|].
  destruct p; cbn in Hstep; destruct o as [f0 k kd slot|slot|slot|slot| |n];
    try (inversion Hstep; subst; lia).
  all: try destruct f0.
  all: unfold step_idle, step_call, step_clear, step_size, step_utc, acquire, release, goto, cur_fac,
         cur_key, cons_raises, log_bind in Hstep;
    cbn in Hstep; break_hyp Hstep; inversion Hstep; subst; clear Hstep; cbn; lia.
Qed.

Lemma step_log_mono : forall s t s' e, step s t = Some s' -> In e (log s) -> In e (log s').
Proof.
  intros s t s' e Hstep Hin. unfold step, step_gen in Hstep.
  destruct (nth_error (thrs s) t) as [th|] eqn:Hnth; [|inversion Hstep; subst; assumption].
  destruct th as [pr p ne ins tm te]. cbn in Hstep.
  destruct pr as [|o rest]; [inversion Hstep; subst; assumption|].
  destruct p; cbn in Hstep; destruct o as [f0 k kd slot|slot|slot|slot| |n];
    try (inversion Hstep; subst; assumption).
  all: try destruct f0.
  all: unfold step_idle, step_call, step_clear, step_size, step_utc, acquire, release, goto, cur_fac,
         cur_key, cons_raises, log_bind in Hstep;
    cbn in Hstep; break_hyp Hstep; inversion Hstep; subst; clear Hstep; cbn; auto.
Qed.
