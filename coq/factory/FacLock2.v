(* C18 -- consequences of the lock invariant for every schedule: mutual exclusion, locks released
   on every path, no deadlock. *)
From Coq Require Import ZArith List Bool Lia.
From V Require Import factory.FacModel factory.FacLock.
Import ListNotations.
Open Scope Z_scope.

Arguments nth_error : simpl never.
Arguments upd : simpl never.

Lemma linv_init : forall s0 progs, linv (init_gen s0 progs).
Proof.
  intros s0 progs. split.
  - intros t th H. cbn in H. rewrite nth_error_map in H.
    destruct (nth_error progs t); cbn in H; inversion H; subst. split; [reflexivity|].
    intros f. cbn. split; discriminate.
  - intros f t H. cbn in H. discriminate.
Qed.

Lemma linv_step_or_stay : forall s t, linv s -> linv (step_or_stay false s t).
Proof.
  intros s t H. unfold step_or_stay. destruct (step_gen false s t) eqn:E; [|assumption].
  eapply step_preserves_linv; eauto.
Qed.

Lemma linv_run : forall sched s, linv s -> linv (run s sched).
Proof.
  unfold run, run_gen. induction sched as [|t r IH]; intros s H; cbn; [assumption|].
  apply IH. now apply linv_step_or_stay.
Qed.

Lemma holds_unfinished : forall th f, holds th f = true -> prog th <> [] /\ tpc th <> PIdle.
Proof.
  intros th f H. unfold holds in H. destruct (tpc th); try discriminate; destruct (prog th); try discriminate;
    split; congruence.
Qed.

(* a thread that cannot move is waiting for a lock somebody holds; if it holds a lock itself, it
   is gettz's, and the one it waits for is tzstr's *)
Lemma blocked_shape : forall s t th,
  nth_error (thrs s) t = Some th -> pc_ok th = true -> step s t = None ->
  exists f t2, lock (facs s f) = Some t2 /\ forall g, holds th g = true -> g = FGet /\ f = FStr.
Proof.
  intros s t th Hnth Hok Hstep. unfold step, step_gen in Hstep. rewrite Hnth in Hstep.
  destruct th as [pr p ne ins tm te]. unfold pc_ok in Hok. cbn in Hok, Hstep.
  destruct pr as [|o rest]; [discriminate|].
  destruct ne; destruct p; cbn in Hok; try discriminate Hok; cbn in Hstep.
  all: destruct o as [f0 k kd slot|slot|slot|slot| |n]; cbn in Hok; try discriminate.
  all: try (destruct f0; cbn in Hok; try discriminate Hok).
  all: try (destruct kd; cbn in Hok; try discriminate Hok).
  all: unfold step_idle, step_call, step_clear, step_size, step_utc, acquire, release, goto, cur_fac, cur_key,
         cons_raises in Hstep;
    cbn in Hstep; break_hyp Hstep; try discriminate Hstep.
  all: eexists; eexists; (split; [eassumption|]);
    intros g Hg; unfold holds in Hg; cbn in Hg; destruct g; cbn in Hg; try discriminate Hg; auto.
Qed.

Lemma forallb_false_ex : forall A (f : A -> bool) l, forallb f l = false -> exists x, In x l /\ f x = false.
Proof.
  induction l as [|a l IH]; cbn; intros H; [discriminate|].
  apply andb_false_iff in H as [H|H]; [exists a; auto|].
  destruct (IH H) as [x [Hi Hx]]. exists x; auto.
Qed.

Definition unfinished (th : thr) : Prop := prog th <> [].

Lemma no_deadlock_state : forall s, linv s -> finished s = false ->
  exists t th, nth_error (thrs s) t = Some th /\ unfinished th /\ step s t <> None.
Proof.
  intros s [Hth Hlk] Hfin. unfold finished in Hfin.
  apply forallb_false_ex in Hfin as [th [Hin Hp]].
  apply In_nth_error in Hin as [t Hnth].
  assert (Hu : unfinished th) by (unfold unfinished; destruct (prog th); [discriminate|congruence]).
  destruct (step s t) eqn:E1; [exists t, th; repeat split; auto; congruence|].
  destruct (Hth _ _ Hnth) as [Hok _].
  destruct (blocked_shape _ _ _ Hnth Hok E1) as [f [t2 [Hl2 _]]].
  pose proof (Hlk _ _ Hl2) as Hlt. apply nth_error_Some in Hlt.
  destruct (nth_error (thrs s) t2) as [th2|] eqn:Hn2; [|congruence].
  destruct (Hth _ _ Hn2) as [Hok2 Hh2].
  assert (Hhold2 : holds th2 f = true) by (apply Hh2; assumption).
  destruct (holds_unfinished _ _ Hhold2) as [Hu2 _].
  destruct (step s t2) eqn:E2; [exists t2, th2; repeat split; auto; congruence|].
  destruct (blocked_shape _ _ _ Hn2 Hok2 E2) as [f' [t3 [Hl3 Hsh]]].
  destruct (Hsh _ Hhold2) as [-> ->].
  pose proof (Hlk _ _ Hl3) as Hlt3. apply nth_error_Some in Hlt3.
  destruct (nth_error (thrs s) t3) as [th3|] eqn:Hn3; [|congruence].
  destruct (Hth _ _ Hn3) as [Hok3 Hh3].
  assert (Hhold3 : holds th3 FStr = true) by (apply Hh3; assumption).
  destruct (holds_unfinished _ _ Hhold3) as [Hu3 _].
  destruct (step s t3) eqn:E3; [exists t3, th3; repeat split; auto; congruence|].
  destruct (blocked_shape _ _ _ Hn3 Hok3 E3) as [f'' [t4 [_ Hsh3]]].
  destruct (Hsh3 _ Hhold3) as [X _]. discriminate X.
Qed.

Lemma no_deadlock_lemma : forall progs sched,
  let s := run (init progs) sched in
  finished s = false ->
  exists t th, nth_error (thrs s) t = Some th /\ prog th <> [] /\ step s t <> None.
Proof.
  intros progs sched s Hf. apply no_deadlock_state; [|assumption].
  apply linv_run, linv_init.
Qed.

(* every lock is free once all threads are done, and a thread between two operations (also
   after an operation that raised) holds nothing *)
Lemma locks_released_lemma : forall progs sched,
  let s := run (init progs) sched in
  (finished s = true -> forall f, lock (facs s f) = None) /\
  (forall t th f, nth_error (thrs s) t = Some th -> tpc th = PIdle -> lock (facs s f) <> Some t).
Proof.
  intros progs sched s. assert (Hinv : linv s) by (apply linv_run, linv_init).
  destruct Hinv as [Hth Hlk]. split.
  - intros Hfin f. destruct (lock (facs s f)) as [t|] eqn:E; [|reflexivity]. exfalso.
    pose proof (Hlk _ _ E) as Hlt. apply nth_error_Some in Hlt.
    destruct (nth_error (thrs s) t) as [th|] eqn:Hn; [|congruence].
    destruct (Hth _ _ Hn) as [_ Hh]. apply Hh in E. apply holds_unfinished in E as [Hp _].
    unfold finished in Hfin. rewrite forallb_forall in Hfin.
    apply nth_error_In in Hn. specialize (Hfin _ Hn). destruct (prog th); congruence.
  - intros t th f Hn Hpc E. destruct (Hth _ _ Hn) as [_ Hh]. apply Hh in E.
    apply holds_unfinished in E as [_ Hp]. congruence.
Qed.

Lemma mutual_exclusion_lemma : forall progs sched t1 t2 th1 th2 f,
  let s := run (init progs) sched in
  nth_error (thrs s) t1 = Some th1 -> nth_error (thrs s) t2 = Some th2 ->
  holds th1 f = true -> holds th2 f = true -> t1 = t2.
Proof.
  intros progs sched t1 t2 th1 th2 f s H1 H2 A B.
  assert (Hinv : linv s) by (apply linv_run, linv_init). destruct Hinv as [Hth _].
  destruct (Hth _ _ H1) as [_ Hh1]. destruct (Hth _ _ H2) as [_ Hh2].
  apply Hh1 in A. apply Hh2 in B. congruence.
Qed.
