(* C18 -- progress: every step of an unfinished, non-blocked thread strictly decreases a
   well-founded measure (no livelock); with no_deadlock: from every reachable state the system
   can run to completion, and every run that keeps granting enabled threads terminates. *)
From Coq Require Import ZArith List Bool Lia Arith Wellfounded Relation_Operators.
From V Require Import factory.FacModel factory.FacLock factory.FacLock2 factory.FacAlive factory.FacThm.
Import ListNotations.

Local Open Scope nat_scope.

Arguments nth_error : simpl never.
Arguments upd : simpl never.

Definition rank (th : thr) : nat :=
  if nested th then
    match tpc th with
    | PKey => 5 | PAcq => 6 | PGet => 7 | PChk => 8 | PCons => 9 | PSdRead => 10 | PSdWrite => 11
    | PTouch => 12 | PLen => 13 | PPop => 14 | PRel => 15 | PExcRel => 15 | _ => 0
    end
  else
    match tpc th with
    | PIdle => 0 | PKey => 1 | PAcq => 2 | PGet => 3 | PChk => 4 | PCons => 5 | PSdRead => 6 | PSdWrite => 7
    | PExcRel => 8 | GAcq => 1 | GGet => 2 | GChk => 3 | GNoc => 4 | GCacheable => 20 | GSet => 21
    | GEarlyRel => 21 | GExcRel => 21 | GEarlyRet => 22 | PTouch => 30 | PLen => 31 | PPop => 32
    | PRel => 33 | PRet => 34 | PExc => 34 | CAcq => 1 | CNew => 2 | CClr => 3 | CRel => 4
    | SAcq => 1 | SSet => 2 | SLoop => 3 | SRel => 4 | SExcRel => 4 | PDone => 5
    | UChk => 1 | UNew => 2 | URet => 3 | UDel => 4
    end.

(* remaining work of a thread: 40 per pending operation, minus the progress inside the current one *)
Definition mt (th : thr) : nat := 40 * length (prog th) - rank th.

Definition total (l : list thr) : nat := fold_right (fun th a => mt th + a) 0 l.

Definition measure (s : state) : nat * nat := (total (thrs s), length (lru (facs s FGet))).

Definition mlt : nat * nat -> nat * nat -> Prop := slexprod nat nat lt lt.

Lemma mlt_wf : well_founded mlt.
Proof. apply wf_slexprod; apply lt_wf. Qed.

Lemma total_upd : forall l t th th', nth_error l t = Some th -> total (upd l t th') + mt th = total l + mt th'.
Proof.
  induction l as [|a l IH]; intros [|t] th th' H; unfold nth_error in H; fold (@nth_error thr) in H;
    try discriminate; unfold upd; fold (@upd thr); cbn [total fold_right].
  - inversion H; subst. lia.
  - fold (total l). fold (total (upd l t th')). specialize (IH _ _ th' H). lia.
Qed.

(* the two places where the model would idle if a local were missing *)
Definition pinv (s : state) : Prop :=
  forall t th, nth_error (thrs s) t = Some th ->
    (tpc th = PSdRead \/ tpc th = PSdWrite -> tmp th <> None) /\ (tpc th = GSet -> inst th <> None).

Lemma pinv_step : forall s t s', pinv s -> step s t = Some s' -> pinv s'.
Proof.
  intros s t s' Hp Hstep.
  plain_cases Hstep; try assumption.
  all: intros t2 th2 H2; cbn in H2;
    first [ apply nth_error_upd in H2 as [[<- ->]|[_ H2]];
            [ cbn; split; [intros [X|X]; try discriminate X | intros X; try discriminate X];
              try discriminate;
              try (apply (proj1 (Hp _ _ Hnth)); cbn; auto)
            | eapply Hp; eassumption ]
          | eapply Hp; eassumption ].
Qed.

Lemma pinv_init : forall s0 progs, pinv (init_gen s0 progs).
Proof.
  intros s0 progs t th H. cbn in H. rewrite nth_error_map in H.
  destruct (nth_error progs t); cbn in H; inversion H; subst. cbn. split; [intros [X|X]|intros X]; discriminate.
Qed.

Lemma pinv_run : forall sched s, pinv s -> pinv (run s sched).
Proof.
  unfold run, run_gen. induction sched as [|t r IH]; intros s H; cbn; [assumption|].
  apply IH. unfold step_or_stay. destruct (step_gen false s t) eqn:E; [|assumption].
  eapply pinv_step; eauto.
Qed.

Ltac dec_tac Hnth :=
  match goal with
  | |- mlt (total (upd _ _ ?th'), _) _ =>
      apply left_slex; pose proof (total_upd _ _ _ th' Hnth) as Htot;
      unfold mt, rank in Htot |- *; cbn [prog tpc nested length t_done t_pc t_inst t_tmp t_tep t_nested tl] in Htot |- *; lia
  end.

Theorem step_progress : forall s t s' th,
  linv s -> pinv s -> nth_error (thrs s) t = Some th -> prog th <> [] -> step s t = Some s' ->
  mlt (measure s') (measure s).
Proof.
  intros s t s' th [Hth _] Hp Hnth Hne Hstep.
  destruct (Hth _ _ Hnth) as [Hok _]. destruct (Hp _ _ Hnth) as [P1 P2].
  unfold step, step_gen in Hstep. rewrite Hnth in Hstep.
  step_cases Hstep Hok.
  { cbn in Hne. congruence. }
  all: cbn in P1, P2; try (exfalso; apply P1; auto; fail); try (exfalso; apply P2; auto; fail).
  all: unfold measure; cbn [thrs facs lru set_thr set_fac set_refs set_single bump add_log goto release f_lock f_lru f_wmap
                          f_size f_clear fac_eqb].
  all: try dec_tac Hnth.
  (* set_cache_size's popitem: the strong cache shrinks *)
  all: match goal with H : lru (facs _ FGet) = _ |- _ => rewrite H end; apply right_slex; cbn; lia.
Qed.

Lemma finish_from : forall s, linv s -> pinv s -> exists more, finished (run s more) = true.
Proof.
  intros s. remember (measure s) as m eqn:Hm. revert s Hm.
  induction (mlt_wf m) as [m _ IH]. intros s -> Hl Hp.
  destruct (finished s) eqn:F; [exists []; exact F|].
  destruct (no_deadlock_state s Hl F) as (t & th & Hn & Hu & He).
  destruct (step s t) as [s'|] eqn:E; [|congruence].
  assert (Hlt : mlt (measure s') (measure s)) by (eapply step_progress; eauto).
  destruct (IH _ Hlt s' eq_refl (step_preserves_linv _ _ _ Hl E) (pinv_step _ _ _ Hp E)) as [more Hmore].
  exists (t :: more). unfold run, run_gen. cbn [fold_left]. unfold step_or_stay at 2.
  unfold step in E. rewrite E. exact Hmore.
Qed.

Lemma run_app : forall s a b, run s (a ++ b) = run (run s a) b.
Proof. intros. unfold run, run_gen. apply fold_left_app. Qed.

Lemma progress_lemma : forall progs sched t th s',
  let s := run (init progs) sched in
  nth_error (thrs s) t = Some th -> prog th <> [] -> step s t = Some s' -> mlt (measure s') (measure s).
Proof.
  intros progs sched t th s' s Hn Hu E. eapply step_progress; eauto.
  - apply linv_run, linv_init.
  - apply pinv_run, pinv_init.
Qed.

Lemma can_always_finish_lemma : forall progs sched,
  exists more, finished (run (init progs) (sched ++ more)) = true.
Proof.
  intros progs sched. destruct (finish_from (run (init progs) sched)) as [more H].
  - apply linv_run, linv_init.
  - apply pinv_run, pinv_init.
  - exists more. now rewrite run_app.
Qed.
