(* C18 -- "threads never observe an exception": if no request is one whose constructor / nocache
   raises and every set_cache_size argument is >= 0, no operation ends with an exception, under
   any schedule.  (A ValueError of the nested tzstr(name) inside nocache is caught there.) *)
From Coq Require Import ZArith List Bool Lia.
From V Require Import factory.FacModel factory.FacLock factory.FacThm.
Import ListNotations.
Open Scope Z_scope.

Arguments nth_error : simpl never.
Arguments upd : simpl never.

Definition ok_op (o : op) : Prop :=
  match o with
  | OCall _ _ KRaise _ => False
  | OSetSize n => 0 <= n
  | _ => True
  end.

Definition exc_free (th : thr) : Prop :=
  match tpc th with
  | PExc | GExcRel | SExcRel => False
  | PExcRel => nested th = true
  | _ => True
  end.

Definition no_exc (l : list ev) : Prop := forall t, ~ In (EExc t) l.

Definition einv (s : state) : Prop :=
  0 <= csize (facs s FGet) /\
  (forall t th, nth_error (thrs s) t = Some th -> (forall o, In o (prog th) -> ok_op o) /\ exc_free th) /\
  no_exc (log s).

Lemma gtb_nil : forall c, 0 <= c -> (Z.of_nat (@length (key * obj) []) >? c) = true -> False.
Proof. intros c H G. cbn in G. rewrite Z.gtb_ltb in G. apply Z.ltb_lt in G. lia. Qed.

Lemma einv_step : forall s t s', einv s -> step s t = Some s' -> einv s'.
Proof.
  intros s t s' (Hc & Ht & Hl) Hstep.
  plain_cases Hstep; try (split; [|split]; assumption).
  all: destruct (Ht _ _ Hnth) as [Hops Hfree]; cbn in Hops; unfold exc_free in Hfree; cbn in Hfree;
    try contradiction;
    pose proof (Hops _ (or_introl eq_refl)) as Hhead; cbn in Hhead; try contradiction.
  all: try (exfalso; eapply gtb_nil; [exact Hc | eassumption]).
  all: try match goal with
           | H : (if ?b then _ else _) = true |- _ =>
               destruct b; destruct kd; try discriminate H; try contradiction
           end.
  all: try discriminate Hfree.
  all: split; [cbn; first [assumption | lia] | split].
  all: try (intros t2 th2 H2; cbn in H2;
            first [ apply nth_error_upd in H2 as [[<- ->]|[_ H2]];
                    [ split; [ cbn; intros o0 Ho0; apply Hops; first [exact Ho0 | right; exact Ho0]
                             | unfold exc_free; cbn; first [exact I | reflexivity | assumption] ]
                    | eapply Ht; eassumption ]
                  | eapply Ht; eassumption ]).
  all: try (intros t0 H0; cbn in H0; first [ eapply Hl; exact H0
                                           | destruct H0 as [H0|H0]; [discriminate H0 | eapply Hl; exact H0] ]).
Qed.

Lemma einv_run : forall sched s, einv s -> einv (run s sched).
Proof.
  unfold run, run_gen. induction sched as [|t r IH]; intros s H; cbn; [assumption|].
  apply IH. unfold step_or_stay. destruct (step_gen false s t) eqn:E; [|assumption].
  eapply einv_step; eauto.
Qed.

Lemma no_exception_lemma : forall progs sched t,
  (forall p o, In p progs -> In o p -> ok_op o) ->
  ~ In (EExc t) (log (run (init progs) sched)).
Proof.
  intros progs sched t H.
  assert (E : einv (init progs)).
  { split; [cbn; lia|]. split; [|intros t0 []].
    intros t0 th Hn. cbn in Hn. rewrite nth_error_map in Hn.
    destruct (nth_error progs t0) eqn:En; cbn in Hn; inversion Hn; subst. split; [|exact I].
    cbn. intros o Ho. eapply H; eauto. eapply nth_error_In; eauto. }
  destruct (einv_run sched _ E) as (_ & _ & Hl). apply Hl.
Qed.
