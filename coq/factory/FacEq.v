(* C18 -- equality layer: `a == b` between zone objects of the tz classes, with Python's protocol
   (a.__eq__(b); if NotImplemented the reflected b.__eq__(a); if NotImplemented identity).
   tz.py: tzutc.__eq__ 108-113, tzoffset.__eq__ 182-186, tzlocal.__eq__ 302-315,
   tzfile.__eq__ 853-858, tzrange.__eq__ 1021-1030 (tzstr inherits it; zoneinfo.tzfile inherits
   tzfile's; _tzicalvtz defines none).  No subclass overrides __eq__, so the "reflected method of
   a proper subclass first" rule never fires.  No proofs in this file. *)
From Coq Require Import ZArith List Bool.
Import ListNotations.
Open Scope Z_scope.

Inductive zone :=
| ZUtc (id : Z)
| ZOffset (id : Z) (name : Z) (off : Z)          (* _name, _offset *)
| ZLocal (id : Z) (std dst : Z) (name0 : Z)      (* _std_offset, _dst_offset, _tznames[0] *)
| ZRange (id : Z) (sub : Z) (sa da so dof sd ed : Z)
    (* tzrange (sub=0) / tzstr (sub=1); _std_abbr _dst_abbr _std_offset _dst_offset _start_delta _end_delta,
       each attribute value abstracted to the number of its ==-class *)
| ZFile (id : Z) (sub : Z) (fl fi ft : Z)        (* tz.tzfile / zoneinfo.tzfile; _trans_list _trans_idx _ttinfo_list *)
| ZIcal (id : Z).

Definition zid (z : zone) : Z :=
  match z with ZUtc i | ZOffset i _ _ | ZLocal i _ _ _ | ZRange i _ _ _ _ _ _ _ | ZFile i _ _ _ _ | ZIcal i => i end.

(* name codes fixed by the harness: 1 = 'UTC', 2 = 'GMT' *)
Definition utc_name (n : Z) : bool := (n =? 1) || (n =? 2).
Definition hasdst (std dst : Z) : bool := negb (dst =? std).

(* cls.__eq__(self, other): None = NotImplemented *)
Definition meth_eq (self other : zone) : option bool :=
  match self with
  | ZUtc _ =>
      match other with
      | ZUtc _ => Some true
      | ZOffset _ _ off => Some (off =? 0)
      | _ => None
      end
  | ZOffset _ _ off =>
      match other with
      | ZOffset _ _ off' => Some (off =? off')
      | _ => None
      end
  | ZLocal _ std dst n0 =>
      match other with
      | ZLocal _ std' dst' _ => Some ((std =? std') && (dst =? dst'))
      | ZUtc _ => Some (negb (hasdst std dst) && utc_name n0 && (std =? 0))
      | ZOffset _ nm off => Some (negb (hasdst std dst) && (n0 =? nm) && (std =? off))
      | _ => None
      end
  | ZRange _ _ sa da so dof sd ed =>
      match other with
      | ZRange _ _ sa' da' so' dof' sd' ed' =>
          Some ((sa =? sa') && (da =? da') && (so =? so') && (dof =? dof') && (sd =? sd') && (ed =? ed'))
      | _ => None
      end
  | ZFile _ _ fl fi ft =>
      match other with
      | ZFile _ _ fl' fi' ft' => Some ((fl =? fl') && (fi =? fi') && (ft =? ft'))
      | _ => None
      end
  | ZIcal _ => None
  end.

Definition zone_eq (a b : zone) : bool :=
  match meth_eq a b with
  | Some r => r
  | None =>
      match meth_eq b a with
      | Some r => r
      | None => zid a =? zid b
      end
  end.

(* `a != b` is `not (a == b)` in every class *)
Definition zone_ne (a b : zone) : bool := negb (zone_eq a b).

Definition zone_of (c a x y z u v w t : Z) : zone :=
  if c =? 0 then ZUtc a else if c =? 1 then ZOffset a x y else if c =? 2 then ZLocal a x y z
  else if c =? 3 then ZRange a x y z u v w t else if c =? 4 then ZFile a x y z u else ZIcal a.
