(* C18 -- the control-flow tables regenerated from the Python source are the tables `step` is
   proved to follow (factory/FacCfg.v). *)
From Coq Require Import List.
From V Require Import factory.FacModel factory.FacCfg gen.FacCfgGen.
Import ListNotations.

Lemma gen_cfg_lemma :
  gen_cfg_single = cfg_single /\ gen_cfg_offset = cfg_factory /\ gen_cfg_str = cfg_factory /\
  gen_cfg_str_nested = cfg_nested /\ gen_cfg_gettz = cfg_gettz /\ gen_cfg_clear = cfg_clear /\
  gen_cfg_size = cfg_size.
Proof. repeat split; reflexivity. Qed.
