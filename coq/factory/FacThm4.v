(* C18 -- every factory call that reaches its `return` statement returns an object: in every
   reachable state a thread standing at PRet executes a factory call and holds a result, and its
   next step delivers that object to the client and logs the return.  (So "a call finishes without
   a result" is not a behaviour of the model: the identity theorems are not vacuous for that reason.) *)
From Coq Require Import ZArith List Bool Lia.
From V Require Import factory.FacModel factory.FacLock factory.FacLock2 factory.FacAlive factory.FacInv factory.FacThm.
Import ListNotations.
Open Scope Z_scope.

Arguments nth_error : simpl never.
Arguments upd : simpl never.

Lemma call_returns_lemma : forall progs sched t th,
  let s := run (init progs) sched in
  nth_error (thrs s) t = Some th -> tpc th = PRet ->
  exists f k kd slot rest o,
    prog th = OCall f k kd slot :: rest /\ nested th = false /\ inst th = Some o /\
    step s t = Some (add_log (set_refs (set_thr s t (t_done th)) (set_slot (refs s) slot (Some o)))
                             (ERet t f k o (tep th) (map snd (refs s)))).
Proof.
  intros progs sched t th s Hn Hpc.
  destruct (inv_reachable progs sched) as [[Hth _] [_ Ht]]. fold s in Hth, Ht.
  destruct (Hth _ _ Hn) as [Hok _]. pose proof (Ht _ _ Hn) as (_ & _ & D).
  destruct th as [pr p ne ins tm te]. cbn in Hpc. subst p. unfold pc_ok in Hok. cbn in Hok.
  destruct pr as [|[f k kd slot| | | | |] rest]; cbn in Hok; try discriminate Hok.
  - destruct ne; cbn in Hok; [rewrite !andb_false_r in Hok; discriminate Hok|].
    cbn in D. destruct D as (_ & _ & D3 & _). destruct (D3 eq_refl) as (o & t' & Hi & _). cbn in Hi. subst ins.
    exists f, k, kd, slot, rest, o. repeat split.
    unfold step, step_gen. rewrite Hn. cbn. destruct f; reflexivity.
  - rewrite andb_false_r in Hok. discriminate Hok.
  - rewrite andb_false_r in Hok. discriminate Hok.
  - rewrite andb_false_r in Hok. discriminate Hok.
Qed.
