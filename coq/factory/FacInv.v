(* C18 -- the data invariant of the factory transition system and the classification of the
   effect of one step on the weak maps and the ghost log. *)
From Coq Require Import ZArith List Bool Lia.
From V Require Import factory.FacModel factory.FacLock factory.FacAlive factory.FacAlive2.
Import ListNotations.
Open Scope Z_scope.

Arguments nth_error : simpl never.
Arguments upd : simpl never.
Arguments has_obj : simpl never.
Arguments existsb : simpl never.
Arguments opt_is : simpl never.

Definition post_pc (p : pc) : bool := match p with PTouch | PLen | PPop | PRel | PRet => true | _ => false end.
Definition chk_pc (p : pc) : bool := match p with PChk | GChk => true | _ => false end.
Definition pre_pc (p : pc) : bool := match p with PChk | PCons | PSdRead | PSdWrite => true | _ => false end.
Definition g_mid (p : pc) : bool := match p with GNoc | GCacheable | GSet => true | _ => false end.

(* what a thread knows at its program counter *)
Definition tinv (s : state) (th : thr) : Prop :=
  (forall o, inst th = Some o -> o < next s) /\
  (forall o, tmp th = Some o -> o < next s) /\
  match prog th with
  | OCall f0 k kd _ :: _ =>
      let cf := cur_fac th f0 in
      let ck := cur_key th k kd in
      (pre_pc (tpc th) = true -> tep th = epoch (facs s cf)) /\
      (tpc th = PSdWrite -> wget s cf ck = None) /\
      (post_pc (tpc th) = true ->
       exists o t', inst th = Some o /\ In (EBind t' cf ck o (tep th)) (log s)) /\
      (chk_pc (tpc th) = true ->
       forall o, inst th = Some o -> exists t', In (EBind t' cf ck o (tep th)) (log s)) /\
      (f0 = FGet -> nested th = true \/ g_mid (tpc th) = true \/ (tpc th = GChk /\ inst th = None) ->
       wget s FGet k = None)
  | _ => True
  end.

Record ginv (s : state) : Prop := {
  g_next : 0 < next s;
  g_single : forall o, single s = Some o -> o < next s;
  g_bind_lt : forall t f k o e, In (EBind t f k o e) (log s) -> o < next s;
  g_wmap_lt : forall f k o, In (k, o) (wmap (facs s f)) -> o < next s;
  (* an alive object bound in the current epoch is what the weak map holds for its key *)
  g_cur : forall t f k o, In (EBind t f k o (epoch (facs s f))) (log s) -> alive s o = true ->
                          alook (wmap (facs s f)) k = Some o;
  (* two alive objects bound to one key in one epoch are one object *)
  g_pair : forall t1 t2 f k e o1 o2, In (EBind t1 f k o1 e) (log s) -> In (EBind t2 f k o2 e) (log s) ->
                                      alive s o1 = true -> alive s o2 = true -> o1 = o2;
  g_le : forall t f k o e, In (EBind t f k o e) (log s) -> 0 <= e <= epoch (facs s f);
  g_epoch : forall f, 0 <= epoch (facs s f);
  g_ret : forall t f k o e h, In (ERet t f k o e h) (log s) -> exists t', In (EBind t' f k o e) (log s)
}.

Definition dinv (s : state) : Prop :=
  ginv s /\ forall t th, nth_error (thrs s) t = Some th -> tinv s th.

Definition quiet_ev (e : ev) : Prop :=
  match e with EBind _ _ _ _ _ | ERet _ _ _ _ _ _ => False | _ => True end.

Definition same_maps (s s' : state) : Prop :=
  forall f, wmap (facs s' f) = wmap (facs s f) /\ epoch (facs s' f) = epoch (facs s f).

Inductive effect (s s' : state) (t : nat) : Prop :=
| EfQuiet : same_maps s s' -> (log s' = log s \/ exists e, log s' = e :: log s /\ quiet_ev e) -> effect s s' t
| EfBind f k o : same_maps s s' -> log s' = EBind t f k o (epoch (facs s f)) :: log s ->
                 wget s f k = Some o -> effect s s' t
| EfWrite f k o :
    (forall f', wmap (facs s' f') = if fac_eqb f' f then (k, o) :: wmap (facs s f) else wmap (facs s f')) ->
    (forall f', epoch (facs s' f') = epoch (facs s f')) ->
    log s' = EBind t f k o (epoch (facs s f)) :: log s ->
    wget s f k = None -> o < next s -> effect s s' t
| EfClear :
    wmap (facs s' FGet) = [] -> epoch (facs s' FGet) = epoch (facs s FGet) + 1 ->
    (forall f', f' <> FGet -> wmap (facs s' f') = wmap (facs s f') /\ epoch (facs s' f') = epoch (facs s f')) ->
    log s' = log s -> effect s s' t
| EfRet f k o e h t' : same_maps s s' -> log s' = ERet t f k o e h :: log s ->
                       In (EBind t' f k o e) (log s) -> h = map snd (refs s) -> alive s o = true ->
                       effect s s' t.

Ltac quiet_tac :=
  apply EfQuiet;
  [ let f := fresh "f" in intros f; destruct f; split; reflexivity
  | cbn; first [ left; reflexivity | right; eexists; split; [reflexivity | exact I] ] ].

Ltac same_tac := let f := fresh "f" in intros f; destruct f; split; reflexivity.

Lemma step_effect : forall s t s' th,
  nth_error (thrs s) t = Some th -> pc_ok th = true -> tinv s th -> step s t = Some s' ->
  effect s s' t.
Proof.
  intros s t s' th Hnth Hok Hti Hstep. unfold step, step_gen in Hstep. rewrite Hnth in Hstep.
  step_cases Hstep Hok.
  { inversion Hstep; subst. apply EfQuiet; [intros f; auto | left; reflexivity]. }
  all: try quiet_tac.
  all: unfold tinv in Hti; cbn in Hti; try (destruct Hti as (T0 & T1 & D1 & D2 & D3 & D3' & D4)).
  all: try (specialize (D1 eq_refl)); try (specialize (D2 eq_refl)); try (specialize (D3 eq_refl)).
  (* lookups that found a binding *)
  all: try (eapply EfBind; [same_tac | cbn; try (rewrite D1 by reflexivity); reflexivity | eassumption]).
  (* setdefault's write / gettz's assignment *)
  all: try (eapply EfWrite; cycle 2;
            [ cbn; try (rewrite D1 by reflexivity); reflexivity
            | first [ exact D2 | apply D4; [reflexivity | right; left; reflexivity] ]
            | first [ apply T1; reflexivity | apply T0; reflexivity ]
            | let f := fresh "f" in intros f; destruct f; reflexivity
            | let f := fresh "f" in intros f; destruct f; reflexivity ]).
  (* cache_clear *)
  all: try (apply EfClear; [reflexivity | reflexivity
                           | let f := fresh "f" in let H := fresh "H" in
                             intros f H; destruct f; try congruence; split; reflexivity
                           | reflexivity]).
  (* return *)
  all: try (destruct D3 as (o1 & t1 & Hi1 & Hb1); inversion Hi1; subst;
            eapply EfRet; [same_tac | cbn; reflexivity | exact Hb1 | reflexivity
                          | eapply alive_inst; [eassumption | apply opt_is_eq; reflexivity] ]).
Qed.
