(* C18 -- retention only (no cache_clear: set_cache_size and eviction never change identities)
   and the tzutc singleton. *)
From Coq Require Import ZArith List Bool Lia.
From V Require Import factory.FacModel factory.FacSpec factory.FacObs factory.FacLock factory.FacLock2
  factory.FacAlive factory.FacAlive2 factory.FacInv factory.FacThm.
Import ListNotations.
Open Scope Z_scope.

Arguments nth_error : simpl never.
Arguments upd : simpl never.

(* ---------------------------------------------------------------- no cache_clear => epoch 0 *)

Definition no_clear (s : state) : Prop := forall t th, nth_error (thrs s) t = Some th -> ~ In OClear (prog th).

Definition epochs0 (s : state) : Prop := forall f, epoch (facs s f) = 0.

Lemma no_clear_step : forall s t s', no_clear s -> step s t = Some s' -> no_clear s'.
Proof.
  intros s t s' H Hstep t2 th2' H2 Hin.
  destruct (step_progs _ _ _ _ _ Hstep H2) as [th2 [Hn [E|E]]]; rewrite E in Hin.
  - eapply H; eauto.
  - eapply H; eauto. destruct (prog th2); [assumption|now right].
Qed.

Lemma epochs0_step : forall s t s', no_clear s -> epochs0 s -> step s t = Some s' -> epochs0 s'.
Proof.
  intros s t s' Hc H0 Hstep f. destruct (step_epoch _ _ _ Hstep) as [E|[th [rest [Hn Hp]]]].
  - rewrite E. apply H0.
  - exfalso. eapply Hc; eauto. rewrite Hp. now left.
Qed.

Lemma no_clear_run : forall sched s, no_clear s -> epochs0 s -> no_clear (run s sched) /\ epochs0 (run s sched).
Proof.
  unfold run, run_gen. induction sched as [|t r IH]; intros s Hc H0; cbn; [split; assumption|].
  assert (X : no_clear (step_or_stay false s t) /\ epochs0 (step_or_stay false s t)).
  { unfold step_or_stay. destruct (step_gen false s t) eqn:E; [|split; assumption].
    split; [eapply no_clear_step; eauto | eapply epochs0_step; eauto]. }
  destruct X. apply IH; assumption.
Qed.

Lemma no_clear_init : forall progs, (forall p, In p progs -> ~ In OClear p) -> no_clear (init progs).
Proof.
  intros progs H t th Hn. cbn in Hn. rewrite nth_error_map in Hn.
  destruct (nth_error progs t) eqn:E; cbn in Hn; inversion Hn; subst. cbn.
  apply H. eapply nth_error_In; eauto.
Qed.

Lemma forget_epoch_id : forall h, (forall r, In r h -> o_epoch r = 0) -> map forget_epoch h = h.
Proof.
  induction h as [|r h IH]; intros H; cbn; [reflexivity|].
  rewrite IH by (intros; apply H; now right). f_equal.
  destruct r as [f k o e hd]. unfold forget_epoch. cbn. specialize (H _ (or_introl eq_refl)). cbn in H. now subst.
Qed.

Lemma retention_only_lemma : forall progs sched,
  (forall p, In p progs -> ~ In OClear p) ->
  spec_identity_strict (obs_of_log (log (run (init progs) sched))) = true.
Proof.
  intros progs sched H. unfold spec_identity_strict.
  destruct (no_clear_run sched (init progs) (no_clear_init _ H) (fun f => eq_refl)) as [_ H0].
  destruct (inv_reachable progs sched) as [_ [Hg _]].
  rewrite forget_epoch_id; [apply factory_identity_lemma|].
  intros r Hr. apply obs_in in Hr as (t & f & k & o & e & h & Hi & ->). cbn.
  destruct (g_ret _ Hg _ _ _ _ _ _ Hi) as [t' B]. pose proof (g_le _ Hg _ _ _ _ _ B) as L.
  rewrite (H0 f) in L. lia.
Qed.

(* ---------------------------------------------------------------- tzutc *)

Definition uinv (s : state) : Prop :=
  single s = Some (-1) /\
  (forall t th slot rest, nth_error (thrs s) t = Some th -> prog th = OUtc slot :: rest ->
                          tpc th <> UNew /\ (tpc th = UDel -> inst th = Some (-1))) /\
  (forall o, In o (utc_results (log s)) -> o = Some (-1)).

Lemma uinv_step : forall s t s', uinv s -> step s t = Some s' -> uinv s'.
Proof.
  intros s t s' (Hs & Ht & Hl) Hstep.
  plain_cases Hstep; try (split; [|split]; assumption).
  all: try (exfalso; eapply (proj1 (Ht _ _ _ _ Hnth eq_refl)); reflexivity).
  all: (split; [cbn; congruence | split]).
  all: try (intros t2 th2 slot2 rest2 H2 Hp; cbn in H2;
            first [ apply nth_error_upd in H2 as [[<- ->]|[_ H2]];
                    [ cbn in Hp |- *; first [ discriminate Hp
                                            | split; [discriminate | intros X; try discriminate X; cbn; try congruence;
                                                                    try (apply (proj2 (Ht _ _ _ _ Hnth eq_refl)); reflexivity)] ]
                    | eapply Ht; eauto ]
                  | eapply Ht; eauto ]).
  all: try (intros o0 Ho; cbn in Ho; first [ apply Hl; exact Ho
                                           | destruct Ho as [<-|Ho]; [|apply Hl; exact Ho];
                                             apply (proj2 (Ht _ _ _ _ Hnth eq_refl)); reflexivity ]).
Qed.

Lemma uinv_run : forall sched s, uinv s -> uinv (run s sched).
Proof.
  unfold run, run_gen. induction sched as [|t r IH]; intros s H; cbn; [assumption|].
  apply IH. unfold step_or_stay. destruct (step_gen false s t) eqn:E; [|assumption].
  eapply uinv_step; eauto.
Qed.

Lemma uinv_init : forall progs, uinv (init progs).
Proof.
  intros progs. split; [reflexivity|]. split.
  - intros t th slot rest Hn Hp. cbn in Hn. rewrite nth_error_map in Hn.
    destruct (nth_error progs t); cbn in Hn; inversion Hn; subst. cbn. split; discriminate.
  - intros o []. 
Qed.

Lemma tzutc_identity_lemma : forall progs sched o,
  In o (utc_results (log (run (init progs) sched))) -> o = Some (-1).
Proof. intros progs sched o H. destruct (uinv_run sched _ (uinv_init progs)) as (_ & _ & Hl). auto. Qed.
