(* C18 -- statements that are FALSE, with concrete witnesses (vm_compute):
   - of the pre-fix factories (lookup-or-create outside the lock): what the fix bought;
   - of the current gettz with cache_clear (finding F-C18-a);
   - of a _TzSingleton class whose instance was not created at import time. *)
From Coq Require Import ZArith List Bool.
From V Require Import factory.FacModel factory.FacSpec factory.FacObs.
Import ListNotations.
Open Scope Z_scope.

(* two threads ask tzoffset for the same fresh key; thread 0 is pre-empted inside setdefault,
   between its read and its write *)
Definition race_progs : list (list op) := [[OCall FOff 5 KFresh 0]; [OCall FOff 5 KFresh 10]].
Definition race_sched : list nat := repeat 0%nat 6 ++ repeat 1%nat 20 ++ repeat 0%nat 20.

Lemma old_factory_identity_refuted_lemma :
  exists progs sched,
    finished (run_old (init progs) sched) = true /\
    spec_identity (obs_of_log (log (run_old (init progs) sched))) = false.
Proof. exists race_progs, race_sched. split; vm_compute; reflexivity. Qed.

(* the same schedule on the current code is harmless (thread 1 just waits for the lock, then runs) *)
Lemma race_schedule_now_fine :
  finished (run (init race_progs) (race_sched ++ repeat 1%nat 20)) = true /\
  spec_identity (obs_of_log (log (run (init race_progs) (race_sched ++ repeat 1%nat 20)))) = true.
Proof. split; vm_compute; reflexivity. Qed.

(* F-C18-a: one thread, gettz(k); cache_clear(); gettz(k) with the first result still held *)
Definition clear_progs : list (list op) := [[OCall FGet 7 KFresh 0; OClear; OCall FGet 7 KFresh 1]].
Definition clear_sched : list nat := repeat 0%nat 40.

Lemma retention_cache_clear_refuted_lemma :
  exists progs sched,
    finished (run (init progs) sched) = true /\
    spec_identity_strict (obs_of_log (log (run (init progs) sched))) = false.
Proof. exists clear_progs, clear_sched. split; vm_compute; reflexivity. Qed.

(* tzutc's metaclass takes no lock: had `UTC = tzutc()` not run at import, two first calls could
   each build an instance *)
Definition utc_progs : list (list op) := [[OUtc 0]; [OUtc 10]].
Definition utc_sched : list nat := [0; 0; 1; 1; 0; 0; 0; 1; 1; 1]%nat.

Lemma singleton_uninitialised_refuted_lemma :
  exists progs sched a b,
    utc_results (log (run (init_gen None progs) sched)) = [Some a; Some b] /\ a <> b.
Proof. exists utc_progs, utc_sched, 2, 1. split; [vm_compute; reflexivity | discriminate]. Qed.
