(* Run-time library of harness/gen_rr_iter.py (-> gen/RRIterGen.v): Python's boolean operators on
   expressions that may raise, in the result monad of rr/RRBase.v.  r_and / r_or evaluate the left
   operand first and the right one only when needed, like `and` / `or`.  Hand-written, no proofs. *)
From Coq Require Import ZArith List Bool.
From V Require Import rr.RRBase rr.RRNorm.
Open Scope Z_scope.

Definition r_and (a b : res bool) : res bool :=
  match a with Ok true => b | Ok false => Ok false | Err e => Err e end.
Definition r_or (a b : res bool) : res bool :=
  match a with Ok true => Ok true | Ok false => b | Err e => Err e end.
Definition r_not (a : res bool) : res bool := match a with Ok v => Ok (negb v) | Err e => Err e end.
(* x in t / x not in t *)
Definition r_in (x : res Z) (l : list Z) : res bool := match x with Ok v => Ok (memZ v l) | Err e => Err e end.
Definition r_notin (x : res Z) (l : list Z) : res bool :=
  match x with Ok v => Ok (negb (memZ v l)) | Err e => Err e end.
(* truthiness of an integer *)
Definition r_truth (x : res Z) : res bool := match x with Ok v => Ok (negb (v =? 0)) | Err e => Err e end.
(* m[i] where the attribute m may hold None: subscripting None is a TypeError *)
Definition nth_opt (m : option (list Z)) (i : Z) : res Z :=
  match m with None => Err EType | Some l => py_nth l i end.
