(* C18 -- the statement-level control flow of the factory bodies as tables over FacModel's
   program counters, and the theorem that `step` follows them: from a program counter that has an
   entry in the table of the operation being executed, a step leads to one of the listed
   successors, which again has an entry (or the thread is idle).  The same tables are regenerated
   from the Python source on every check (gen/FacCfgGen.v, factory/FacCfgThm.v). *)
From Coq Require Import ZArith List Bool Lia.
From V Require Import factory.FacModel factory.FacLock factory.FacLock2 factory.FacAlive.
Import ListNotations.

Arguments nth_error : simpl never.
Arguments upd : simpl never.

Definition cfg := list (pc * list pc).

Definition cfg_single : cfg :=
  [(PIdle, [UChk]); (UChk, [UNew; URet]); (UNew, [URet]); (URet, [UDel]); (UDel, [PIdle])].

(* _TzOffsetFactory.__call__ and _TzStrFactory.__call__ *)
Definition cfg_factory : cfg :=
  [(PIdle, [PKey]); (PKey, [PAcq]); (PAcq, [PGet]); (PGet, [PChk]); (PChk, [PCons; PTouch]);
   (PCons, [PSdRead; PExcRel]); (PSdRead, [PSdWrite; PTouch]); (PSdWrite, [PTouch]); (PTouch, [PLen]);
   (PLen, [PPop; PRel]); (PPop, [PRel]); (PRel, [PRet]); (PRet, [PIdle]); (PExcRel, [PExc]); (PExc, [PIdle])].

(* _TzStrFactory.__call__ when called by GettzFunc.nocache: returns (or raises ValueError, which
   nocache swallows) into GettzFunc.__call__ at the cacheability test *)
Definition cfg_nested : cfg :=
  [(PKey, [PAcq]); (PAcq, [PGet]); (PGet, [PChk]); (PChk, [PCons; PTouch]); (PCons, [PSdRead; PExcRel]);
   (PSdRead, [PSdWrite; PTouch]); (PSdWrite, [PTouch]); (PTouch, [PLen]); (PLen, [PPop; PRel]); (PPop, [PRel]);
   (PRel, [GCacheable]); (PExcRel, [GCacheable])].

Definition cfg_gettz : cfg :=
  [(PIdle, [GAcq]); (PTouch, [PLen]); (PLen, [PPop; PRel]); (PPop, [PRel]); (PRel, [PRet]); (PRet, [PIdle]);
   (PExc, [PIdle]); (GAcq, [GGet]); (GGet, [GChk]); (GChk, [PTouch; GNoc]); (GNoc, [PKey; GCacheable; GExcRel]);
   (GCacheable, [GSet; GEarlyRel]); (GSet, [PTouch]); (GEarlyRel, [GEarlyRet]); (GEarlyRet, [PIdle]);
   (GExcRel, [PExc])].

Definition cfg_clear : cfg :=
  [(PIdle, [CAcq]); (CAcq, [CNew]); (CNew, [CClr]); (CClr, [CRel]); (CRel, [PDone]); (PDone, [PIdle])].

Definition cfg_size : cfg :=
  [(PIdle, [SAcq]); (PExc, [PIdle]); (SAcq, [SSet]); (SSet, [SLoop]); (SLoop, [SLoop; SRel; SExcRel]);
   (SRel, [PDone]); (SExcRel, [PExc]); (PDone, [PIdle])].

(* single-statement operations (client code, not factory code) *)
Definition cfg_atomic : cfg := [(PIdle, [PIdle])].

Definition pc_eqb (a b : pc) : bool :=
  match a, b with
  | PIdle, PIdle | PKey, PKey | PAcq, PAcq | PGet, PGet | PChk, PChk | PCons, PCons | PSdRead, PSdRead
  | PSdWrite, PSdWrite | PTouch, PTouch | PLen, PLen | PPop, PPop | PRel, PRel | PRet, PRet
  | PExcRel, PExcRel | PExc, PExc | GAcq, GAcq | GGet, GGet | GChk, GChk | GNoc, GNoc
  | GCacheable, GCacheable | GSet, GSet | GEarlyRel, GEarlyRel | GEarlyRet, GEarlyRet | GExcRel, GExcRel
  | CAcq, CAcq | CNew, CNew | CClr, CClr | CRel, CRel | SAcq, SAcq | SSet, SSet | SLoop, SLoop
  | SRel, SRel | SExcRel, SExcRel | UChk, UChk | UNew, UNew | URet, URet | UDel, UDel | PDone, PDone => true
  | _, _ => false
  end.

Fixpoint succs (c : cfg) (p : pc) : option (list pc) :=
  match c with
  | [] => None
  | (q, l) :: r => if pc_eqb q p then Some l else succs r p
  end.

Definition in_dom (c : cfg) (p : pc) : bool := match succs c p with Some _ => true | None => false end.
Definition allowed (c : cfg) (p p' : pc) : bool :=
  match succs c p with Some l => existsb (pc_eqb p') l | None => false end.

(* the table that governs a thread: by the operation it executes (and whether it is inside the
   nested tzstr call) *)
Definition cfg_of (th : thr) : cfg :=
  match prog th with
  | OCall f _ _ _ :: _ => if nested th then cfg_nested else match f with FGet => cfg_gettz | _ => cfg_factory end
  | OClear :: _ => cfg_clear
  | OSetSize _ :: _ => cfg_size
  | OUtc _ :: _ => cfg_single
  | OInstance _ :: _ | ODrop _ :: _ => cfg_atomic
  | [] => []
  end.

Theorem step_follows_cfg : forall s t s' th th',
  nth_error (thrs s) t = Some th -> pc_ok th = true -> in_dom (cfg_of th) (tpc th) = true ->
  step s t = Some s' -> nth_error (thrs s') t = Some th' ->
  (th' = th \/ allowed (cfg_of th) (tpc th) (tpc th') = true) /\
  (prog th' = [] \/ in_dom (cfg_of th') (tpc th') = true).
Proof.
  intros s t s' th th' Hnth Hok Hdom Hstep Hnth'.
  assert (Hlt : (t < length (thrs s))%nat) by (eapply nth_error_some_lt; eauto).
  unfold step, step_gen in Hstep. rewrite Hnth in Hstep.
  step_cases Hstep Hok.
  { inversion Hstep; subst. rewrite Hnth in Hnth'. inversion Hnth'; subst. split; [now left|now left]. }
  all: cbn in Hdom; try discriminate Hdom.
  all: cbn in Hnth'; try (rewrite nth_error_upd_eq in Hnth' by assumption); try (rewrite Hnth in Hnth');
    inversion Hnth'; try subst th'; clear Hnth'.
  all: split; [ first [ right; reflexivity | left; reflexivity ]
              | cbn; first [ right; reflexivity
                           | destruct rest as [|[f1 k1 kd1 sl1| | | | |] rest']; cbn;
                             first [left; reflexivity | right; try destruct f1; reflexivity] ] ].
Qed.

(* every thread of every reachable state stands at a program counter of its table *)
Definition cfg_inv (s : state) : Prop :=
  forall t th, nth_error (thrs s) t = Some th -> prog th = [] \/ in_dom (cfg_of th) (tpc th) = true.

Lemma cfg_inv_init : forall s0 progs, cfg_inv (init_gen s0 progs).
Proof.
  intros s0 progs t th H. cbn in H. rewrite nth_error_map in H.
  destruct (nth_error progs t) as [p|]; cbn in H; inversion H; subst.
  destruct p as [|[f k kd slot| | | | |] r]; cbn; auto. destruct f; auto.
Qed.

Lemma cfg_inv_step : forall s t s', linv s -> cfg_inv s -> step s t = Some s' -> cfg_inv s'.
Proof.
  intros s t s' Hl Hc Hstep t2 th2 H2.
  destruct (nth_error (thrs s) t) as [th|] eqn:Hnth.
  2:{ unfold step, step_gen in Hstep. rewrite Hnth in Hstep. inversion Hstep; subst. eauto. }
  destruct (proj1 Hl _ _ Hnth) as [Hok _].
  destruct (step_thrs _ _ _ _ Hnth Hok Hstep) as [th' Hthrs].
  destruct (Nat.eq_dec t2 t) as [->|Hne].
  - destruct (Hc _ _ Hnth) as [He|Hd].
    + unfold step, step_gen in Hstep. rewrite Hnth, He in Hstep. inversion Hstep; subst.
      rewrite Hnth in H2. inversion H2; subst. now left.
    + eapply step_follows_cfg; eauto.
  - rewrite Hthrs, nth_error_upd_neq in H2 by congruence. eauto.
Qed.

Lemma cfg_inv_run : forall sched s0, linv s0 -> cfg_inv s0 -> linv (run s0 sched) /\ cfg_inv (run s0 sched).
Proof.
  unfold run, run_gen. induction sched as [|a r IH]; intros s0 Hl Hc; cbn; [split; assumption|].
  unfold step_or_stay at 2 4. destruct (step_gen false s0 a) eqn:E; [|apply IH; assumption].
  apply IH; [eapply step_preserves_linv; eauto | eapply cfg_inv_step; eauto].
Qed.

Lemma run_follows_cfg_lemma : forall progs sched t th s' th',
  let s := run (init progs) sched in
  nth_error (thrs s) t = Some th -> prog th <> [] -> step s t = Some s' -> nth_error (thrs s') t = Some th' ->
  th' = th \/ allowed (cfg_of th) (tpc th) (tpc th') = true.
Proof.
  intros progs sched t th s' th' s Hn Hu Hstep Hn'.
  destruct (cfg_inv_run sched (init progs) (FacLock2.linv_init _ _) (cfg_inv_init _ _)) as [Hl Hc].
  fold s in Hl, Hc. destruct (Hc _ _ Hn) as [He|Hd]; [congruence|].
  destruct (proj1 Hl _ _ Hn) as [Hok _].
  eapply step_follows_cfg; eauto.
Qed.
