(* C18 -- equality layer theorems: == between zones is reflexive and symmetric, and zones that
   compare equal report equal UTC offsets at every instant. *)
From Coq Require Import ZArith List Bool Lia.
From V Require Import factory.FacEq.
Open Scope Z_scope.

Lemma zone_eq_refl_lemma : forall z, zone_eq z z = true.
Proof.
  intros z; destruct z; unfold zone_eq; cbn; rewrite ?Z.eqb_refl; reflexivity.
Qed.

Lemma zone_eq_sym_lemma : forall a b, zone_eq a b = zone_eq b a.
Proof.
  intros a b; destruct a, b; unfold zone_eq; cbn;
    repeat match goal with
           | |- context [?x =? ?y] => lazymatch goal with
                                      | |- context [y =? x] => rewrite (Z.eqb_sym y x)
                                      end
           end; try reflexivity.
  all: try (rewrite (Z.eqb_sym off off0); reflexivity).
Qed.

(* Offsets.  tzutc: 0.  tzoffset: _offset.  tzlocal: _dst_offset when it has DST and the C
   library says the instant is in DST (one process-wide predicate `isdst`), else _std_offset.
   tzrange/tzstr and tzfile: some function of exactly the compared fields. *)
Section Offsets.
  Variable isdst : Z -> bool.
  Variable range_off : Z -> Z -> Z -> Z -> Z -> Z -> Z -> Z.
  Variable file_off : Z -> Z -> Z -> Z -> Z.
  Variable ical_off : Z -> Z -> Z.

  Definition utcoffset (z : zone) (i : Z) : Z :=
    match z with
    | ZUtc _ => 0
    | ZOffset _ _ off => off
    | ZLocal _ std dst _ => if hasdst std dst && isdst i then dst else std
    | ZRange _ _ sa da so dof sd ed => range_off sa da so dof sd ed i
    | ZFile _ _ fl fi ft => file_off fl fi ft i
    | ZIcal id => ical_off id i
    end.

  Lemma eq_zones_equal_offsets_lemma :
    forall a b i, (zid a = zid b -> a = b) ->     (* object identity: one id, one object *)
                  zone_eq a b = true -> utcoffset a i = utcoffset b i.
  Proof.
    intros a b i; destruct a, b; unfold zone_eq; cbn; intros Hid H;
      repeat match goal with
             | H : _ && _ = true |- _ => apply andb_prop in H; destruct H
             | H : negb _ = true |- _ => apply negb_true_iff in H
             | H : (_ =? _) = true |- _ => apply Z.eqb_eq in H
             end; subst; try reflexivity; try discriminate.
    all: unfold hasdst in *;
      repeat match goal with
             | H : negb (_ =? _) = false |- _ => apply negb_false_iff in H; apply Z.eqb_eq in H
             end; subst; rewrite ?Z.eqb_refl; cbn; try reflexivity.
    all: try (specialize (Hid eq_refl); discriminate).
    all: specialize (Hid eq_refl); inversion Hid; subst; reflexivity.
  Qed.
End Offsets.
