(* C18 -- which kind of zone GettzFunc.nocache(name) returns, as a decision function over the facts
   the code consults, in the order it consults them (tz.py nocache, POSIX branch: tzwin is None).
   Hand-written; compared with the real gettz.nocache on a name pool by check_C18 (differential
   only: nocache is loops over the file system with try/except and is not translated). *)
From Coq Require Import ZArith List Bool.
Open Scope Z_scope.

Record facts := mkFacts {
  k_falsy : bool;          (* not name  (None or '') *)
  k_env : bool;            (* 'TZ' in os.environ  (then name = os.environ['TZ']) *)
  k_none_or_colon : bool;  (* after that: name is None or name in ('', ':') *)
  k_localfile : bool;      (* one of TZFILES exists (under TZPATHS if relative) and parses *)
  k_abs : bool;            (* os.path.isabs(name) after stripping one leading ':' *)
  k_abs_isfile : bool;
  k_path : bool;           (* some TZPATHS entry has the file (also with ' ' -> '_') and it parses *)
  k_tarball : bool;        (* the bundled zoneinfo tarball has the name *)
  k_digit : bool;          (* the name contains a digit *)
  k_tzstr_ok : bool;       (* tzstr(name) does not raise ValueError *)
  k_gmt_utc : bool;        (* name in ('GMT', 'UTC') *)
  k_tzname : bool          (* name in time.tzname *)
}.

Inductive zkind := ZkFile | ZkLocal | ZkNone | ZkTarball | ZkTzstr | ZkUtc.

Definition gettz_kind (f : facts) : zkind :=
  if k_none_or_colon f then (if k_localfile f then ZkFile else ZkLocal)
  else if k_abs f then (if k_abs_isfile f then ZkFile else ZkNone)
  else if k_path f then ZkFile
  else if k_tarball f then ZkTarball
  else if k_digit f then (if k_tzstr_ok f then ZkTzstr else ZkNone)
  else if k_gmt_utc f then ZkUtc
  else if k_tzname f then ZkLocal
  else ZkNone.

(* GettzFunc.__call__ stores the result in the weak map unless the name is None, the zone is a
   tzlocal, or there is no zone *)
Definition gettz_caches (name_is_none : bool) (k : zkind) : bool :=
  negb name_is_none && match k with ZkLocal | ZkNone => false | _ => true end.

Definition zkind_code (k : zkind) : Z :=
  match k with ZkFile => 0 | ZkLocal => 1 | ZkNone => 2 | ZkTarball => 3 | ZkTzstr => 4 | ZkUtc => 5 end.
