(* C18 -- per-thread knowledge is preserved: for the stepping thread (case analysis) and for
   every other thread (whose facts concern factories whose lock it holds). *)
From Coq Require Import ZArith List Bool Lia.
From V Require Import factory.FacModel factory.FacLock factory.FacAlive factory.FacAlive2 factory.FacInv.
Import ListNotations.
Open Scope Z_scope.

Arguments nth_error : simpl never.
Arguments upd : simpl never.
Arguments has_obj : simpl never.
Arguments existsb : simpl never.
Arguments opt_is : simpl never.

Lemma wget_none_stable : forall s s' f k,
  (forall o, alive s' o = true -> alive s o = true \/ o = next s) ->
  wmap (facs s' f) = wmap (facs s f) ->
  (forall k o, In (k, o) (wmap (facs s f)) -> o < next s) ->
  wget s f k = None -> wget s' f k = None.
Proof.
  intros s s' f k Hres Hw Hlt Hn. unfold wget. rewrite Hw.
  destruct (alook (wmap (facs s f)) k) as [o|] eqn:E; [|reflexivity].
  destruct (alive s' o) eqn:A; [|reflexivity]. exfalso.
  pose proof (wget_none _ _ _ Hn _ E) as D. apply alook_in in E. apply Hlt in E.
  destruct (Hres _ A); [congruence|lia].
Qed.

Lemma holds_pre : forall th f0 k kd slot rest,
  prog th = OCall f0 k kd slot :: rest -> pre_pc (tpc th) = true -> holds th (cur_fac th f0) = true.
Proof.
  intros [pr p ne ins tm te] f0 k kd slot rest Hp H. cbn in *. subst pr. unfold holds, cur_fac. cbn.
  destruct p; try discriminate H; destruct ne; cbn; try reflexivity; destruct f0; reflexivity.
Qed.

Lemma holds_g : forall th k kd slot rest,
  pc_ok th = true -> prog th = OCall FGet k kd slot :: rest ->
  nested th = true \/ g_mid (tpc th) = true \/ (tpc th = GChk /\ inst th = None) -> holds th FGet = true.
Proof.
  intros [pr p ne ins tm te] k kd slot rest Hok Hp H. cbn in *. subst pr. unfold holds, pc_ok in *. cbn in *.
  destruct H as [->|[H|[-> _]]].
  - destruct p; cbn in *; try discriminate Hok; reflexivity.
  - destruct p; try discriminate H; destruct ne; cbn in *; try discriminate Hok; reflexivity.
  - destruct ne; cbn in *; try discriminate Hok; reflexivity.
Qed.

(* facts about factories whose lock another thread holds survive the step of thread t *)
Lemma tinv_other : forall s s' t th t2 th2,
  linv s -> ginv s -> t2 <> t ->
  nth_error (thrs s) t = Some th -> nth_error (thrs s) t2 = Some th2 ->
  (forall f, holds th f = false -> wmap (facs s' f) = wmap (facs s f) /\ epoch (facs s' f) = epoch (facs s f)) ->
  (forall o, alive s' o = true -> alive s o = true \/ o = next s) ->
  next s <= next s' -> (forall e, In e (log s) -> In e (log s')) ->
  tinv s th2 -> tinv s' th2.
Proof.
  intros s s' t th t2 th2 [Hth _] Hg Hne Hn Hn2 Hframe Hres Hnext Hmono (T0 & T1 & D).
  destruct (Hth _ _ Hn) as [Hok Hh]. destruct (Hth _ _ Hn2) as [Hok2 Hh2].
  assert (Hnot : forall f, holds th2 f = true -> holds th f = false).
  { intros f H. apply Hh2 in H. destruct (holds th f) eqn:E; [|reflexivity]. apply Hh in E. congruence. }
  split; [intros o H; apply T0 in H; lia|]. split; [intros o H; apply T1 in H; lia|].
  destruct (prog th2) as [|[f0 k kd slot| | | | |] rest] eqn:Hp; try exact I.
  destruct D as (D1 & D2 & D3 & D3' & D4). cbn zeta in *.
  repeat split.
  - intros H. rewrite (D1 H). symmetry. apply Hframe. apply Hnot. eapply holds_pre; eauto.
  - intros H. assert (Hpre : pre_pc (tpc th2) = true) by (rewrite H; reflexivity).
    eapply wget_none_stable; eauto.
    + apply Hframe. apply Hnot. eapply holds_pre; eauto.
    + apply (g_wmap_lt _ Hg).
  - intros H. destruct (D3 H) as (o & t' & Hi & Hb). exists o, t'. auto.
  - intros H o Hi. destruct (D3' H o Hi) as [t' Hb]. exists t'. auto.
  - intros Hf H. subst f0. eapply wget_none_stable; eauto.
    + apply Hframe. apply Hnot. eapply holds_g; eauto.
    + apply (g_wmap_lt _ Hg).
Qed.
