(* C18 -- a step never revives a dead object; weak map and epoch of a factory change only while
   the stepping thread is inside that factory's critical section. *)
From Coq Require Import ZArith List Bool Lia.
From V Require Import factory.FacModel factory.FacLock factory.FacAlive.
Import ListNotations.
Open Scope Z_scope.

Arguments nth_error : simpl never.
Arguments upd : simpl never.
Arguments has_obj : simpl never.
Arguments existsb : simpl never.
Arguments opt_is : simpl never.

Lemma step_fac_frame : forall s t s' th,
  nth_error (thrs s) t = Some th -> pc_ok th = true -> step s t = Some s' ->
  forall f, holds th f = false ->
            wmap (facs s' f) = wmap (facs s f) /\ epoch (facs s' f) = epoch (facs s f).
Proof.
  intros s t s' th Hnth Hok Hstep. unfold step, step_gen in Hstep. rewrite Hnth in Hstep.
  step_cases Hstep Hok.
  { inversion Hstep; subst. auto. }
  all: intros f Hf; unfold holds in Hf; destruct f; cbn in Hf |- *; try discriminate Hf; split; reflexivity.
Qed.

Ltac leaf Ha :=
  first [ discriminate Ha
        | left; eapply alive_inst; [eassumption | exact Ha]
        | left; eapply alive_tmp; [eassumption | exact Ha]
        | right; symmetry; apply opt_is_some; exact Ha
        | left; apply opt_is_some in Ha; subst; eapply wget_alive; eassumption
        | left; apply opt_is_some in Ha; subst; apply alive_static
        | left; apply alive_single; exact Ha ].

Ltac lru_leaf Ha :=
  first [ left; eapply alive_lru; eassumption
        | apply has_obj_tl in Ha; left; eapply alive_lru; eassumption
        | apply has_obj_lru_touch in Ha as [Ha|Ha];
          [ left; eapply alive_lru; eassumption
          | subst; left; eapply alive_inst; [eassumption | apply opt_is_eq; reflexivity] ]
        | rewrite has_obj_nil in Ha; discriminate Ha ].

Ltac resurrect_case :=
  let o := fresh "o" in let Ha := fresh "Ha" in
  intros o Ha; apply alive_cases in Ha; cbn in Ha;
  destruct Ha as [Ha|[Ha|[Ha|[[f Ha]|Ha]]]];
  [ left; apply alive_neg; assumption
  | leaf Ha
  | first [ left; apply alive_refs; assumption
          | apply has_obj_set_slot in Ha as [Ha|Ha]; [leaf Ha | left; apply alive_refs; assumption] ]
  | destruct f; cbn in Ha; lru_leaf Ha
  | apply existsb_upd in Ha as [Ha|Ha];
    [ unfold thr_refs in Ha; cbn in Ha; apply orb_true_iff in Ha as [Ha|Ha]; leaf Ha
    | left; unfold alive; rewrite Ha; rewrite !orb_true_r; reflexivity ] ].

Lemma no_resurrect : forall s t s' th,
  nth_error (thrs s) t = Some th -> pc_ok th = true -> step s t = Some s' ->
  forall o, alive s' o = true -> alive s o = true \/ o = next s.
Proof.
  intros s t s' th Hnth Hok Hstep. unfold step, step_gen in Hstep. rewrite Hnth in Hstep.
  step_cases Hstep Hok.
  { inversion Hstep; subst. auto. }
  all: try (intros o0 Ha0; left; exact Ha0).
  all: try resurrect_case.
  (* set_cache_size's popitem *)
  intros o Ha. left. apply alive_cases in Ha. cbn in Ha.
  destruct Ha as [Ha|[Ha|[Ha|[[f Ha]|Ha]]]].
  - now apply alive_neg.
  - now apply alive_single.
  - now apply alive_refs.
  - destruct f; cbn in Ha; try (eapply alive_lru; eassumption).
    apply alive_lru with (f := FGet).
    match goal with H : lru (facs s FGet) = _ |- _ => rewrite H end.
    apply has_obj_in in Ha as [k0 Hi]. apply has_obj_in. exists k0. now right.
  - unfold alive. rewrite Ha. now rewrite !orb_true_r.
Qed.
