(* C18 -- the equality methods regenerated from the source (gen/FacEqGen.v) ARE the hand model
   FacEq.meth_eq, class by class, for every operand; != is the negation of ==; no class is hashable. *)
From Coq Require Import ZArith List Bool.
From V Require Import factory.FacEq factory.FacEqGenBase gen.FacEqGen.
Open Scope Z_scope.

Ltac eq_tac := intros; match goal with other : zone |- _ => destruct other end; cbn; unfold utc_name; rewrite ?andb_true_r, ?andb_assoc; reflexivity.

Lemma gen_eq_tzutc_lemma : forall id other, gen_eq_tzutc (ZUtc id) other = meth_eq (ZUtc id) other.
Proof. eq_tac. Qed.

Lemma gen_eq_tzoffset_lemma : forall id n o other,
  gen_eq_tzoffset (ZOffset id n o) other = meth_eq (ZOffset id n o) other.
Proof. eq_tac. Qed.

Lemma gen_eq_tzlocal_lemma : forall id std dst n0 other,
  gen_eq_tzlocal (ZLocal id std dst n0) other = meth_eq (ZLocal id std dst n0) other.
Proof. eq_tac. Qed.

Lemma gen_eq_tzrange_lemma : forall id sub sa da so dof sd ed other,
  gen_eq_tzrange (ZRange id sub sa da so dof sd ed) other = meth_eq (ZRange id sub sa da so dof sd ed) other.
Proof. eq_tac. Qed.

Lemma gen_eq_tzfile_lemma : forall id sub fl fi ft other,
  gen_eq_tzfile (ZFile id sub fl fi ft) other = meth_eq (ZFile id sub fl fi ft) other.
Proof. eq_tac. Qed.

Lemma gen_ne_lemma : forall a b,
  gen_ne_tzutc a b = zone_ne a b /\ gen_ne_tzoffset a b = zone_ne a b /\ gen_ne_tzlocal a b = zone_ne a b /\
  gen_ne_tzrange a b = zone_ne a b /\ gen_ne_tzfile a b = zone_ne a b.
Proof. intros. repeat split; reflexivity. Qed.

Lemma gen_unhashable_lemma :
  gen_hashable_tzutc = false /\ gen_hashable_tzoffset = false /\ gen_hashable_tzlocal = false /\
  gen_hashable_tzrange = false /\ gen_hashable_tzfile = false.
Proof. repeat split; reflexivity. Qed.
