(* C01 -- the parts of rrule._iter regenerated from the source (gen/RRIterGen.v, by
   harness/gen_rr_iter.py) are the hand model coq/rr/RRIter.v of the `rr` area. *)
From Coq Require Import ZArith List Bool Lia.
From V Require Import base.Cal gen.RrTables rr.RRBase rr.RRNorm rr.RRMasks rr.RRIter factory.RRGenLib gen.RRIterGen.
Import ListNotations.
Open Scope Z_scope.

Ltac cmp_lia :=
  repeat match goal with
         | H : (_ <? _) = true |- _ => apply Z.ltb_lt in H
         | H : (_ <? _) = false |- _ => apply Z.ltb_ge in H
         | H : (_ <=? _) = true |- _ => apply Z.leb_le in H
         | H : (_ <=? _) = false |- _ => apply Z.leb_gt in H
         end; exfalso; lia.

Ltac crunch :=
  repeat match goal with
         | |- context [match ?x with _ => _ end] =>
             lazymatch x with
             | context [match _ with _ => _ end] => fail
             | _ => destruct x eqn:?; cbn [bind negb andb orb]
             end
         end; rewrite ?negb_involutive; try reflexivity; try discriminate; try (cbn [opt_list] in *; congruence); try cmp_lia.

Lemma gen_cl_1_lemma : forall rl ii i, gen_cl_1 rl ii i = cl_month rl ii i.
Proof. intros. unfold gen_cl_1, cl_month, r_and, r_notin, bind. crunch. Qed.

Lemma gen_cl_2_lemma : forall rl ii i, gen_cl_2 rl ii i = cl_weekno rl ii i.
Proof. intros. unfold gen_cl_2, cl_weekno, r_and, r_not, r_truth, nth_opt, bind. crunch. Qed.

Lemma gen_cl_3_lemma : forall rl ii i, gen_cl_3 rl ii i = cl_weekday rl ii i.
Proof. intros. unfold gen_cl_3, cl_weekday, r_and, r_or, r_not, r_in, r_truth, nth_opt, bind. crunch. Qed.

Lemma gen_cl_4_lemma : forall rl ii i, gen_cl_4 rl ii i = cl_easter rl ii i.
Proof. intros. unfold gen_cl_4, cl_easter, r_and, r_not, r_truth, nth_opt, bind. crunch. Qed.

Lemma gen_cl_5_lemma : forall rl ii i, gen_cl_5 rl ii i = cl_monthday rl ii i.
Proof. intros. unfold gen_cl_5, cl_monthday, r_and, r_or, r_notin, bind. crunch. Qed.

Lemma gen_cl_6_lemma : forall rl ii i, gen_cl_6 rl ii i = cl_yearday rl ii i.
Proof. intros. unfold gen_cl_6, cl_yearday, r_and, r_or, r_notin, bind. crunch. Qed.

Lemma r_or_assoc : forall a b c, r_or a (r_or b c) = r_or (r_or a b) c.
Proof. intros [[|]|] b c; reflexivity. Qed.

Lemma gen_day_rejected_lemma : forall rl ii i, gen_day_rejected rl ii i = day_rejected rl ii i.
Proof.
  intros. unfold gen_day_rejected, day_rejected.
  rewrite gen_cl_1_lemma, gen_cl_2_lemma, gen_cl_3_lemma, gen_cl_4_lemma, gen_cl_5_lemma, gen_cl_6_lemma.
  unfold r_or.
  destruct (cl_month rl ii i) as [[|]|]; try reflexivity;
  destruct (cl_weekno rl ii i) as [[|]|]; try reflexivity;
  destruct (cl_weekday rl ii i) as [[|]|]; try reflexivity;
  destruct (cl_easter rl ii i) as [[|]|]; try reflexivity;
  destruct (cl_monthday rl ii i) as [[|]|]; reflexivity.
Qed.

(* ---------------------------------------------------------------- the period advance *)
Ltac adv_tac H :=
  intros; unfold advance; rewrite H; cbn [Z.eqb YEARLY MONTHLY WEEKLY DAILY HOURLY MINUTELY SECONDLY Pos.eqb];
  cbv zeta.

Lemma gen_adv_YEARLY_lemma : forall rl s filtered cnt out,
  freq rl = YEARLY -> gen_adv_YEARLY rl s filtered cnt out = advance rl s filtered cnt out.
Proof. intros rl s filtered cnt out H. unfold gen_adv_YEARLY, advance. rewrite H. cbn. reflexivity. Qed.

Lemma gen_adv_MONTHLY_lemma : forall rl s filtered cnt out,
  freq rl = MONTHLY -> gen_adv_MONTHLY rl s filtered cnt out = advance rl s filtered cnt out.
Proof.
  intros rl s filtered cnt out H. unfold gen_adv_MONTHLY, advance. rewrite H. cbn [Z.eqb YEARLY MONTHLY Pos.eqb]. cbv zeta.
  destruct (12 <? c_month s + interval rl); [|reflexivity].
  destruct ((c_month s + interval rl) mod 12 =? 0); cbv zeta beta iota; reflexivity.
Qed.

Lemma gen_adv_WEEKLY_lemma : forall rl s filtered cnt out,
  freq rl = WEEKLY -> gen_adv_WEEKLY rl s filtered cnt out = advance rl s filtered cnt out.
Proof.
  intros rl s filtered cnt out H. unfold gen_adv_WEEKLY, advance. rewrite H. cbn [Z.eqb YEARLY MONTHLY WEEKLY Pos.eqb]. cbv zeta.
  destruct (c_weekday s <? wkst rl); rewrite Z.add_assoc; reflexivity.
Qed.

Lemma gen_adv_DAILY_lemma : forall rl s filtered cnt out,
  freq rl = DAILY -> gen_adv_DAILY rl s filtered cnt out = advance rl s filtered cnt out.
Proof. intros rl s filtered cnt out H. unfold gen_adv_DAILY, advance. rewrite H. cbn. reflexivity. Qed.

Lemma gen_adv_HOURLY_lemma : forall rl s filtered cnt out,
  freq rl = HOURLY -> gen_adv_HOURLY rl s filtered cnt out = advance rl s filtered cnt out.
Proof.
  intros rl s filtered cnt out H. unfold gen_adv_HOURLY, advance. rewrite H.
  cbn [Z.eqb YEARLY MONTHLY WEEKLY DAILY HOURLY Pos.eqb]. cbv zeta.
  destruct filtered; destruct (truthy (byhour rl)); cbn [bind].
  all: try (match goal with |- context [mod_distance ?a ?b ?c ?d] => destruct (mod_distance a b c d) as [[nd hh]|] end;
            cbn [bind fst snd]; [|reflexivity]).
  all: match goal with |- context [negb (?x =? 0)] => destruct (negb (x =? 0)) end; reflexivity.
Qed.

(* ---------------------------------------------------------------- the gate *)
Lemma gen_gate_one_lemma : forall rl x cnt out, gen_gate_one rl x cnt out = gate_one rl x cnt out.
Proof. intros. unfold gen_gate_one, gate_one. destruct cnt; reflexivity. Qed.

(* ---------------------------------------------------------------- MINUTELY / SECONDLY: the
   `rep_rate // gcd` loops.  Loop bodies that agree pointwise give the same loop (no functional
   extensionality needed). *)
Lemma iter_until_ext : forall (A : Type) (f g : A -> lp A), (forall a, f a = g a) ->
  forall p a, iter_until p f a = iter_until p g a.
Proof.
  intros A f g H. induction p as [p IH|p IH|]; intros a; cbn.
  - rewrite H. destruct (g a) as [a1| |]; try reflexivity. rewrite IH.
    destruct (iter_until p g a1); try reflexivity. apply IH.
  - rewrite IH. destruct (iter_until p g a); try reflexivity. apply IH.
  - apply H.
Qed.

Lemma for_range_ext : forall (A : Type) (f g : A -> lp A) k a, (forall x, f x = g x) ->
  for_range k f a = for_range k g a.
Proof. intros. unfold for_range. destruct (k <=? 0); [reflexivity|]. now apply iter_until_ext. Qed.

Lemma gen_adv_MINUTELY_lemma : forall rl s filtered cnt out,
  freq rl = MINUTELY -> gen_adv_MINUTELY rl s filtered cnt out = advance rl s filtered cnt out.
Proof.
  intros rl s filtered cnt out H. unfold gen_adv_MINUTELY, gen_jump_MINUTELY, advance. rewrite H.
  cbn [Z.eqb YEARLY MONTHLY WEEKLY DAILY HOURLY MINUTELY Pos.eqb]. cbv zeta.
  change (24 * 60) with 1440.
  erewrite for_range_ext; [reflexivity|].
  intros [[[mi ho] da] fx]. cbv beta iota zeta.
  destruct (truthy (byminute rl)).
  - destruct (mod_distance rl mi (opt_list (byminute rl)) 60) as [[nh mi']|]; [|reflexivity].
    cbn [fst snd]. destruct (negb ((ho + nh) / 24 =? 0)); reflexivity.
  - destruct (negb ((ho + (mi + interval rl) / 60) / 24 =? 0)); reflexivity.
Qed.

Lemma gen_adv_SECONDLY_lemma : forall rl s filtered cnt out,
  freq rl = SECONDLY -> gen_adv_SECONDLY rl s filtered cnt out = advance rl s filtered cnt out.
Proof.
  intros rl s filtered cnt out H. unfold gen_adv_SECONDLY, gen_jump_SECONDLY, advance. rewrite H.
  cbn [Z.eqb YEARLY MONTHLY WEEKLY DAILY HOURLY MINUTELY SECONDLY Pos.eqb]. cbv zeta.
  change (24 * 3600) with 86400.
  erewrite for_range_ext; [reflexivity|].
  intros [[[[se mi] ho] da] fx]. cbv beta iota zeta.
  destruct (truthy (bysecond rl)).
  - destruct (mod_distance rl se (opt_list (bysecond rl)) 60) as [[nm se']|]; [|reflexivity].
    cbn [fst snd]. destruct (negb ((mi + nm) / 60 =? 0)); [|reflexivity].
    destruct (negb ((ho + (mi + nm) / 60) / 24 =? 0)); reflexivity.
  - destruct (negb ((mi + (se + interval rl) / 60) / 60 =? 0)); [|reflexivity].
    destruct (negb ((ho + (mi + (se + interval rl) / 60) / 60) / 24 =? 0)); reflexivity.
Qed.

(* ---------------------------------------------------------------- the `filtered` day jump of the
   sub-hourly frequencies: the model's advance = (the generated jump) then the advance of an
   unfiltered period *)
Definition with_minute (s : state) (v : Z) : state :=
  mkSt (c_year s) (c_month s) (c_day s) (c_hour s) v (c_second s) (c_weekday s) (c_ii s) (c_timeset s)
       (c_count s) (c_out s).
Definition with_second (s : state) (v : Z) : state :=
  mkSt (c_year s) (c_month s) (c_day s) (c_hour s) (c_minute s) v (c_weekday s) (c_ii s) (c_timeset s)
       (c_count s) (c_out s).

Lemma gen_jump_MINUTELY_lemma : forall rl s filtered cnt out,
  freq rl = MINUTELY ->
  advance rl s filtered cnt out =
  advance rl (with_minute s (gen_jump_MINUTELY rl filtered (c_hour s) (c_minute s) (c_second s))) false cnt out.
Proof.
  intros rl s filtered cnt out H. unfold advance, gen_jump_MINUTELY. rewrite H.
  cbn [Z.eqb YEARLY MONTHLY WEEKLY DAILY HOURLY MINUTELY Pos.eqb]. cbv zeta.
  destruct filtered; reflexivity.
Qed.

Lemma gen_jump_SECONDLY_lemma : forall rl s filtered cnt out,
  freq rl = SECONDLY ->
  advance rl s filtered cnt out =
  advance rl (with_second s (gen_jump_SECONDLY rl filtered (c_hour s) (c_minute s) (c_second s))) false cnt out.
Proof.
  intros rl s filtered cnt out H. unfold advance, gen_jump_SECONDLY. rewrite H.
  cbn [Z.eqb YEARLY MONTHLY WEEKLY DAILY HOURLY MINUTELY SECONDLY Pos.eqb]. cbv zeta.
  destruct filtered; reflexivity.
Qed.

(* ---------------------------------------------------------------- the fixday month/year carry:
   one pass of `while day > daysinmonth:` is the generated step *)
Lemma gen_fix_step_lemma : forall k year month day dm,
  fix_loop (S k) year month day dm =
  if dm <? day then
    match gen_fix_step year month day dm with
    | None => FixMax
    | Some (y, m, d, dm') => fix_loop k y m d dm'
    end
  else FixOk year month day.
Proof.
  intros. cbn [fix_loop]. unfold gen_fix_step. destruct (dm <? day); [|reflexivity].
  destruct (month + 1 =? 13); [|reflexivity]. destruct (T_MAXYEAR <? year + 1); reflexivity.
Qed.

(* rrule.__mod_distance: one pass of its for-loop is the generated step *)
Lemma gen_md_step_lemma : forall rl k base byxxx value acc,
  mod_distance_loop (S k) (interval rl) base byxxx value acc =
  let '(a, v, hit) := gen_md_step rl base byxxx value acc in
  if hit then Some (a, v) else mod_distance_loop k (interval rl) base byxxx v a.
Proof. intros. cbn [mod_distance_loop]. unfold gen_md_step. reflexivity. Qed.

(* ---------------------------------------------------------------- bundles for props/C01.v *)
Lemma gen_filter_clauses_lemma : forall rl ii i,
  gen_cl_1 rl ii i = cl_month rl ii i /\ gen_cl_2 rl ii i = cl_weekno rl ii i /\
  gen_cl_3 rl ii i = cl_weekday rl ii i /\ gen_cl_4 rl ii i = cl_easter rl ii i /\
  gen_cl_5 rl ii i = cl_monthday rl ii i /\ gen_cl_6 rl ii i = cl_yearday rl ii i.
Proof.
  intros. split; [apply gen_cl_1_lemma|]. split; [apply gen_cl_2_lemma|]. split; [apply gen_cl_3_lemma|].
  split; [apply gen_cl_4_lemma|]. split; [apply gen_cl_5_lemma|apply gen_cl_6_lemma].
Qed.

Lemma gen_advance_lemma : forall rl s filtered cnt out,
  (freq rl = YEARLY -> gen_adv_YEARLY rl s filtered cnt out = advance rl s filtered cnt out) /\
  (freq rl = MONTHLY -> gen_adv_MONTHLY rl s filtered cnt out = advance rl s filtered cnt out) /\
  (freq rl = WEEKLY -> gen_adv_WEEKLY rl s filtered cnt out = advance rl s filtered cnt out) /\
  (freq rl = DAILY -> gen_adv_DAILY rl s filtered cnt out = advance rl s filtered cnt out) /\
  (freq rl = HOURLY -> gen_adv_HOURLY rl s filtered cnt out = advance rl s filtered cnt out) /\
  (freq rl = MINUTELY -> gen_adv_MINUTELY rl s filtered cnt out = advance rl s filtered cnt out) /\
  (freq rl = SECONDLY -> gen_adv_SECONDLY rl s filtered cnt out = advance rl s filtered cnt out).
Proof.
  intros. split; [apply gen_adv_YEARLY_lemma|]. split; [apply gen_adv_MONTHLY_lemma|].
  split; [apply gen_adv_WEEKLY_lemma|]. split; [apply gen_adv_DAILY_lemma|]. split; [apply gen_adv_HOURLY_lemma|].
  split; [apply gen_adv_MINUTELY_lemma|apply gen_adv_SECONDLY_lemma].
Qed.

(* ---------------------------------------------------------------- the prologue's WEEKLY+BYSETPOS
   week start: init_state is "the generated week start, then rebuild and the initial time set" *)
Lemma gen_week_start_lemma : forall rl,
  init_state rl =
  let hour := s_H rl in let minute := s_M rl in let second := s_S rl in
  let '(year, month, day, wd) :=
    gen_week_start rl (s_y rl) (s_m rl) (s_d rl) (Cal.weekday (s_y rl) (s_m rl) (s_d rl)) in
  do ii <- rebuild rl ii_init year month;
  do ts <-
    (if freq rl <? HOURLY then
       match timeset rl with Some l => Ok l | None => Err EType end
     else if ((HOURLY <=? freq rl) && truthy (byhour rl) && negb (memZ hour (opt_list (byhour rl)))) ||
             ((MINUTELY <=? freq rl) && truthy (byminute rl) && negb (memZ minute (opt_list (byminute rl)))) ||
             ((SECONDLY <=? freq rl) && truthy (bysecond rl) && negb (memZ second (opt_list (bysecond rl))))
          then Ok []
          else gettimeset rl hour minute second);
  Ok (mkSt year month day hour minute second wd ii ts (count rl) []).
Proof.
  intros rl. unfold init_state, gen_week_start. cbv zeta.
  destruct ((freq rl =? WEEKLY) && truthy (bysetpos rl)); [|reflexivity].
  destruct (negb ((Cal.weekday (s_y rl) (s_m rl) (s_d rl) - wkst rl) mod 7 =? 0)); [|reflexivity].
  destruct (ymd_of_ord (Z.max (ord_of_ymd (s_y rl) (s_m rl) (s_d rl) -
                               (Cal.weekday (s_y rl) (s_m rl) (s_d rl) - wkst rl) mod 7) 1)) as [[y m] d].
  reflexivity.
Qed.
