(* C18 / C04 / C05 -- fixed-offset zones (tzutc, tzoffset): hand model of their methods and of
   tzoffset.__init__, in the vocabulary the source translator harness/gen_fixedzones.py targets
   (gen/FixedGen.v).  Times are integers (microseconds); a datetime handed to a tzinfo method is
   its wall value and its fold attribute; names are numbers (1 = 'UTC').  No proofs. *)
From Coq Require Import ZArith List Bool.
Open Scope Z_scope.

Record fz := mkFz { fz_name : Z; fz_offset : Z }.     (* self._name, self._offset *)
Definition dtv : Type := (Z * bool)%type.             (* wall value, fold *)

(* the `offset` argument of tzoffset(name, offset): a number of seconds or a timedelta *)
Inductive oarg := ONum (seconds : Z) | OTd (microseconds : Z).

(* offset.total_seconds() if offset is a timedelta (AttributeError/TypeError otherwise: kept as is) *)
Definition total_seconds_or_self (o : oarg) : oarg := o.
(* _get_supported_offset on Python >= 3.6 is the identity; datetime.timedelta(seconds=x) *)
Definition td_of_seconds (o : oarg) : Z := match o with ONum s => s * 1000000 | OTd us => us end.
(* dt + timedelta: the sum of a datetime and a timedelta has fold = 0 *)
Definition dt_add (d : dtv) (delta : Z) : dtv := (fst d + delta, false).
(* dt.replace(fold=f) *)
Definition dt_replace_fold (d : dtv) (f : bool) : dtv := (fst d, f).

Definition fx_init (name : Z) (o : oarg) : fz := mkFz name (td_of_seconds o).
Definition fx_utcoffset (self : fz) (d : dtv) : Z := fz_offset self.
Definition fx_dst (self : fz) (d : dtv) : Z := 0.
Definition fx_tzname (self : fz) (d : dtv) : Z := fz_name self.
Definition fx_is_ambiguous (self : fz) (d : dtv) : bool := false.
Definition fx_fromutc (self : fz) (d : dtv) : dtv := (fst d + fz_offset self, false).

(* tzutc *)
Definition ux_utcoffset (d : dtv) : Z := 0.
Definition ux_dst (d : dtv) : Z := 0.
Definition ux_tzname (d : dtv) : Z := 1.
Definition ux_is_ambiguous (d : dtv) : bool := false.
Definition ux_fromutc (d : dtv) : dtv := d.

Definition fx_enfold (d : dtv) (f : bool) : dtv := (fst d, f).
