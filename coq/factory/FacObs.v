(* C18 -- what of a run is observable by clients: the cached-path returns, as records of the spec *)
From Coq Require Import ZArith List Bool.
From V Require Import factory.FacModel factory.FacSpec.
Import ListNotations.
Open Scope Z_scope.

Definition fac_code (f : fac) : Z := match f with FOff => 0 | FStr => 1 | FGet => 2 end.

Definition obs_of_ev (e : ev) : list obsret :=
  match e with ERet _ f k o ep held => [mkO (fac_code f) k o ep held] | _ => [] end.

(* log and result are newest first *)
Definition obs_of_log (l : list ev) : list obsret := flat_map obs_of_ev l.

Definition utc_results (l : list ev) : list (option obj) :=
  flat_map (fun e => match e with EUtc _ o => [o] | _ => [] end) l.
