(* C18 -- the stepping thread's knowledge at its new program counter. *)
From Coq Require Import ZArith List Bool Lia.
From V Require Import factory.FacModel factory.FacLock factory.FacAlive factory.FacAlive2 factory.FacInv factory.FacOwn.
Import ListNotations.
Open Scope Z_scope.

Arguments nth_error : simpl never.
Arguments upd : simpl never.
Arguments has_obj : simpl never.
Arguments existsb : simpl never.
Arguments opt_is : simpl never.

Lemma wget_lt : forall s f k o, ginv s -> wget s f k = Some o -> o < next s.
Proof. intros s f k o Hg H. apply wget_alook, alook_in in H. eapply g_wmap_lt; eauto. Qed.

Lemma static_lt : forall s n, ginv s -> static_id n < next s.
Proof. intros s n Hg. pose proof (g_next _ Hg). unfold static_id. lia. Qed.

Ltac lt_tac Hg T0 T1 :=
  let o := fresh "o" in let Ho := fresh "Ho" in
  intros o Ho; cbn in Ho |- *;
  first [ discriminate Ho
        | apply T0 in Ho; lia
        | apply T1 in Ho; lia
        | inversion Ho; subst; first [ lia | apply static_lt; exact Hg ]
        | eapply wget_lt in Ho; [lia | exact Hg]
        | apply (g_single _ Hg) in Ho; lia
        | inversion Ho; subst;
          match goal with H : wget _ _ _ = Some _ |- _ => eapply wget_lt in H; [lia | exact Hg] end ].

Lemma tinv_own : forall s t s' th th',
  ginv s -> nth_error (thrs s) t = Some th -> pc_ok th = true -> tinv s th ->
  step s t = Some s' -> nth_error (thrs s') t = Some th' ->
  (forall o, alive s' o = true -> alive s o = true \/ o = next s) ->
  tinv s' th'.
Proof.
  intros s t s' th th' Hg Hnth Hok Hti Hstep Hnth' Hres.
  assert (Hlt : (t < length (thrs s))%nat) by (eapply nth_error_some_lt; eauto).
  unfold step, step_gen in Hstep. rewrite Hnth in Hstep.
  step_cases Hstep Hok.
  { inversion Hstep; subst. rewrite Hnth in Hnth'. inversion Hnth'; subst. assumption. }
  all: cbn in Hnth'; try (rewrite nth_error_upd_eq in Hnth' by assumption); try (rewrite Hnth in Hnth');
    inversion Hnth'; try subst th'; clear Hnth'.
  all: unfold tinv in Hti |- *; cbn in Hti; destruct Hti as (T0 & T1 & D).
  all: (split; [lt_tac Hg T0 T1 | split; [lt_tac Hg T0 T1 | ]]).
  all: cbn; try exact I.
  (* the operation is over: an idle thread knows nothing *)
  all: try (destruct rest as [|[f1 k1 kd1 sl1| | | | |] rest']; cbn; try exact I;
            repeat split; intros; try discriminate; intuition (discriminate || congruence)).
  all: try (destruct D as (D1 & D2 & D3 & D3' & D4)).
  all: repeat split.
  all: try (intros X; discriminate X).
  all: try assumption.
  all: try solve [ intros _; first [reflexivity | apply D1; reflexivity] ].
  all: try solve [ intros _; apply D3; reflexivity ].
  all: try solve [ intros _; destruct (D3' eq_refl _ eq_refl) as [t' Hb]; eexists; eexists; split; [reflexivity | exact Hb] ].
  all: try solve [ intros _; destruct (D3 eq_refl) as (? & ? & X & _); discriminate X ].
  all: try solve [ intros _; eexists; eexists; split; [reflexivity | left; reflexivity] ].
  all: try solve [ intros _; destruct (D3 eq_refl) as (o1 & t1 & X & Hb); inversion X; subst;
                   eexists; eexists; split; [reflexivity | first [exact Hb | right; exact Hb]] ].
  all: try solve [ intros _ o0 X; first [discriminate X | inversion X; subst; eexists; left; reflexivity] ].
  all: try solve [ intros _ o0 X; destruct (D3' eq_refl _ X) as [t' Hb]; eexists; first [exact Hb | right; exact Hb] ].
  all: try solve [ intros _; eapply wget_none_stable;
                   [exact Hres | reflexivity | apply (g_wmap_lt _ Hg) | first [eassumption | apply D2; reflexivity]] ].
  all: try solve [ intros _ [X|[X|[X Y]]]; try discriminate X; try discriminate Y;
                   (eapply wget_none_stable;
                    [ exact Hres | reflexivity | apply (g_wmap_lt _ Hg)
                    | first [ eassumption
                            | apply D4; [reflexivity | left; reflexivity]
                            | apply D4; [reflexivity | right; left; reflexivity]
                            | apply D4; [reflexivity | right; right; split; reflexivity] ] ]) ].
Qed.
