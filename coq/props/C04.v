(* C04 -- every tzinfo converts UTC -> local -> UTC without loss.
   Statements only; proofs are in coq/tzfile/*Thm.v.  `good d` is the executable decoder
   invariant (TzData.good; C06_decoder_invariant shows every decoded file has it, the harness
   also evaluates it on every zone), wf_zone the executable well-formedness of the zone
   (strictly increasing transitions, consecutive transitions at least as far apart as the two
   adjacent offset changes, offsets within a day).  Non-vacuity: tzfile/TzExamples.v. *)
From Coq Require Import ZArith List Bool.
From V Require Import tzfile.TzModel tzfile.TzSpec tzfile.TzData tzfile.TzFixedThm tzfile.TzFinalThm.
Open Scope Z_scope.

(* fromutc yields the wall reading u + off(u) with fold = "an earlier instant has the same wall
   reading"; the reported utcoffset is the offset in force at u; the way back returns u *)
Theorem C04_tzfile_roundtrip : forall d, good d = true -> wf_zone (zone_of d) = true -> forall u,
  exists w f, fromutc d u = Ok (w, f) /\ dt_utcoffset d w f = Ok (off (zone_of d) u) /\
              to_utc d w f = Ok u /\ w = local (zone_of d) u /\ f = fold_spec (zone_of d) u.
Proof. exact tzfile_roundtrip_lemma. Qed.
Print Assumptions C04_tzfile_roundtrip.

(* two different instants never map to the same (wall time, fold) pair *)
Theorem C04_distinct_instants_distinct_wall_fold : forall d, good d = true ->
  wf_zone (zone_of d) = true -> forall u1 u2, fromutc d u1 = fromutc d u2 -> u1 = u2.
Proof. exact tzfile_injective_lemma. Qed.
Print Assumptions C04_distinct_instants_distinct_wall_fold.

Theorem C04_fixed_roundtrip : forall o u,
  let (w, f) := fixed_fromutc o u in
  fixed_utcoffset o w f = off (fixed_zone o) u /\ w - fixed_utcoffset o w f = u /\
  w = local (fixed_zone o) u /\ f = fold_spec (fixed_zone o) u.
Proof. exact fixed_roundtrip_lemma. Qed.
Print Assumptions C04_fixed_roundtrip.
