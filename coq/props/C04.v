(* C04 -- every tzinfo converts UTC -> local -> UTC without loss.
   Statements only; proofs are in coq/tzfile/*Thm.v.  `good d` is the executable decoder
   invariant (TzData.good; C06_decoder_invariant shows every decoded file has it, the harness
   also evaluates it on every zone), wf_zone the executable well-formedness of the zone
   (strictly increasing transitions, every offset regime at least as long as the repeated intervals at
   its two ends together and as the gap at either end, offsets within a day; its complement is the open
   finding F-C04-short-regime, witness C05_short_regime_refuted).  Non-vacuity: tzfile/TzExamples.v.
   STATED SCOPE: "the offset in force" is claimed against the raw data on [first, last) (C06's theorems);
   from the last transition on dateutil applies ttinfo_std BY DESIGN (version-1 data does not determine local
   time after its last transition, RFC 8536 3.2; the footer is ignored): there the theorems are about
   zone_of d (round trip, fold, self-consistency) and the check compares implementation with model. *)
From Coq Require Import ZArith List Bool.
Import ListNotations.
From V Require Import tzfile.TzModel tzfile.TzSpec tzfile.TzData tzfile.TzFixedThm tzfile.TzFinalThm
  tzfile.TzC06Thm tzfile.TzGenericModel tzfile.TzGenericThm tzfile.TzSameThm
  tzfile.TzZoneThm tzfile.TzGenericInstThm.
Open Scope Z_scope.

(* fromutc yields the wall reading u + off(u) with fold = "an earlier instant has the same wall
   reading"; the reported utcoffset is the offset in force at u; the way back returns u *)
Theorem C04_tzfile_roundtrip : forall d, good d = true -> wf_zone (zone_of d) = true -> forall u,
  exists w f, fromutc d u = Ok (w, f) /\ dt_utcoffset d w f = Ok (off (zone_of d) u) /\
              to_utc d w f = Ok u /\ w = local (zone_of d) u /\ f = fold_spec (zone_of d) u.
Proof. exact tzfile_roundtrip_lemma. Qed.
Print Assumptions C04_tzfile_roundtrip.

(* two different instants never map to the same (wall time, fold) pair *)
Theorem C04_distinct_instants_distinct_wall_fold : forall d, good d = true ->
  wf_zone (zone_of d) = true -> forall u1 u2, fromutc d u1 = fromutc d u2 -> u1 = u2.
Proof. exact tzfile_injective_lemma. Qed.
Print Assumptions C04_distinct_instants_distinct_wall_fold.

(* the offset and abbreviation reported for the converted datetime are those of the ttinfo in force
   at the instant (ttinfo_at = _get_ttinfo(_find_last_transition(u, in_utc=True))) *)
Theorem C04_reports_ttinfo_in_force : forall d, good d = true -> wf_zone (zone_of d) = true -> forall u,
  exists w f tt, fromutc d u = Ok (w, f) /\ ttinfo_at d u = Ok (Some tt) /\
    find_ttinfo d w f = Ok (Some tt) /\ w = u + tt_off tt /\
    utcoffset d w f = Ok (tt_off tt) /\ tzname d w f = Ok (Some (tt_abbr tt)).
Proof. exact same_ttinfo_lemma. Qed.
Print Assumptions C04_reports_ttinfo_in_force.

(* the same for a file as it is read: the decoder invariant is discharged (C06_decoder_invariant) *)
Theorem C04_read_tzfile_roundtrip : forall bytes r d, parse_tzif bytes = Ok r -> build r = Ok d ->
  r_types r <> [] -> wf_zone (zone_of d) = true -> forall u,
  exists w f, fromutc d u = Ok (w, f) /\ dt_utcoffset d w f = Ok (off (zone_of d) u) /\
              to_utc d w f = Ok u /\ w = local (zone_of d) u /\ f = fold_spec (zone_of d) u.
Proof. exact read_roundtrip_lemma. Qed.
Print Assumptions C04_read_tzfile_roundtrip.

(* the generic layer _tzinfo.fromutc / _fold_status under the five obligations a zone class using it has to
   meet (see tzfile/TzGenericThm.v).  Scope, honestly: this is the algorithm with the GENERIC is_ambiguous
   (_tzinfo.is_ambiguous, used by the iCalendar zones).  tzlocal OVERRIDES is_ambiguous, which _fold_status calls:
   tzlocal is NOT covered by this theorem (differential only).  For tzical the identification of
   _find_comp / dst() with the piecewise lookups is differential (C05 generated stream).  tzrange / tzstr have
   their own fromutc (tzrangebase): C08 proves their POSIX semantics, no C04 / C05 theorem is derived here. *)
Theorem C04_generic_roundtrip : forall (UO DST : Z -> bool -> Z) (z : zone) (so : Z),
  wf_zone z = true ->
  (forall x f, UO x f - DST x f = so) ->
  (forall u, DST (u + so) true = off z u - so) ->
  (forall w, g_is_ambiguous UO w = true <-> length (preimages z w) = 2%nat) ->
  (forall a b, a < b -> local z a = local z b -> off z b = so) ->
  (forall u, UO (local z u) (fold_spec z u) = off z u) ->
  forall u, let (w, f) := g_fromutc UO DST u in
            w = local z u /\ f = fold_spec z u /\ UO w f = off z u /\ w - UO w f = u.
Proof. exact generic_roundtrip_lemma. Qed.
Print Assumptions C04_generic_roundtrip.

(* ... and those five obligations are met by every piecewise-constant zone with constant standard
   offset so and alternating standard / daylight periods (positive savings, any number of eras with
   different rules and savings) whose utcoffset()/dst() are the PEP-495 wall lookups A_utcoffset
   (what tzfile computes, and what an iCalendar zone's _find_comp computes on its onset list):
   the generic _tzinfo.fromutc is correct on all of them *)
Theorem C04_generic_on_piecewise_zone : forall (so p : Z) (tr : list (Z * Z)),
  wf_zone (mkZone p tr) = true -> alt_from so p tr = true -> so <= p -> forall u,
  let (w, f) := g_fromutc (A_utcoffset p tr) (fun x f => A_utcoffset p tr x f - so) u in
  w = local (mkZone p tr) u /\ f = fold_spec (mkZone p tr) u /\
  A_utcoffset p tr w f = off (mkZone p tr) u /\ w - A_utcoffset p tr w f = u.
Proof. exact generic_on_piecewise_lemma. Qed.
Print Assumptions C04_generic_on_piecewise_zone.

(* ... while a zone whose STANDARD offset changes breaks the first obligation and the generic layer with it:
   finding F-C04/C05-tzical-std-change (+3 h -> +4 h, an instant half an hour after the change) *)
From V Require Import tzfile.TzRefuted.
Theorem C04_generic_std_change_refuted : exists (p : Z) (tr : list (Z * Z)) (u : Z),
  wf_zone (mkZone p tr) = true /\
  fst (g_fromutc (A_utcoffset p tr) (fun _ _ => 0) u) <> local (mkZone p tr) u.
Proof. exact generic_std_change_refuted_lemma. Qed.
Print Assumptions C04_generic_std_change_refuted.

Theorem C04_fixed_roundtrip : forall o u,
  let (w, f) := fixed_fromutc o u in
  fixed_utcoffset o w f = off (fixed_zone o) u /\ w - fixed_utcoffset o w f = u /\
  w = local (fixed_zone o) u /\ f = fold_spec (fixed_zone o) u.
Proof. exact fixed_roundtrip_lemma. Qed.
Print Assumptions C04_fixed_roundtrip.
From V Require Import tzfile.TzGenLib gen.TzGen tzfile.TzGenThm tzfile.TzGenericModel tzfile.TzBeforeThm.

(* ---- regenerated model = hand model (coq/gen/TzGen.v is re-translated from /repo on every run) ---- *)
Theorem C04_gen_find_last_transition : forall d dt b, gen_find_last_transition d dt b = find_last d (fst dt) b.
Proof. exact gen_find_last_transition_lemma. Qed.
Print Assumptions C04_gen_find_last_transition.

Theorem C04_gen_get_ttinfo : forall d idx, shape d -> gen_get_ttinfo d idx = Ok (get_ttinfo d idx).
Proof. exact gen_get_ttinfo_lemma. Qed.
Print Assumptions C04_gen_get_ttinfo.

Theorem C04_gen_is_ambiguous : forall d dt idx, shape d -> (forall i, idx = Some i -> i < len (d_wall d)) ->
  gen_is_ambiguous d dt idx = is_ambiguous d (fst dt) idx.
Proof. exact gen_is_ambiguous_lemma. Qed.
Print Assumptions C04_gen_is_ambiguous.

Theorem C04_gen_resolve_ambiguous_time : forall d dt, shape d ->
  gen_resolve_ambiguous_time d dt = resolve_idx d (fst dt) (snd dt).
Proof. exact gen_resolve_ambiguous_time_lemma. Qed.
Print Assumptions C04_gen_resolve_ambiguous_time.

Theorem C04_gen_find_ttinfo : forall d dt, shape d -> gen_find_ttinfo d dt = find_ttinfo d (fst dt) (snd dt).
Proof. exact gen_find_ttinfo_lemma. Qed.
Print Assumptions C04_gen_find_ttinfo.

Theorem C04_gen_fromutc : forall d dt, shape d -> gen_fromutc d dt = fromutc d (fst dt).
Proof. exact gen_fromutc_lemma. Qed.
Print Assumptions C04_gen_fromutc.

Theorem C04_gen_utcoffset : forall d dt, shape d -> gen_utcoffset d dt = utcoffset d (fst dt) (snd dt).
Proof. exact gen_utcoffset_lemma. Qed.
Print Assumptions C04_gen_utcoffset.

Theorem C04_gen_dst : forall d dt, shape d -> gen_dst d dt = dst d (fst dt) (snd dt).
Proof. exact gen_dst_lemma. Qed.
Print Assumptions C04_gen_dst.

Theorem C04_gen_tzname : forall d dt, shape d -> gen_tzname d dt = tzname d (fst dt) (snd dt).
Proof. exact gen_tzname_lemma. Qed.
Print Assumptions C04_gen_tzname.

Theorem C04_gen_datetime_to_timestamp : forall dt, gen_datetime_to_timestamp dt = fst dt.
Proof. exact gen_datetime_to_timestamp_lemma. Qed.
Print Assumptions C04_gen_datetime_to_timestamp.

Theorem C04_gen_shape_of_decoded : forall d, good d = true -> shape d.
Proof. exact good_shape. Qed.
Print Assumptions C04_gen_shape_of_decoded.

Theorem C04_gen_generic_fromutc : forall (tz : tzobj) (UO DST : Z -> bool -> Z),
  (forall dt, tz_utcoffset tz dt = Ok (UO (fst dt) (snd dt))) ->
  (forall dt, tz_dst tz dt = Ok (DST (fst dt) (snd dt))) ->
  (forall dt, tz_is_ambiguous tz dt = Ok (g_is_ambiguous UO (fst dt))) ->
  forall u, gen_generic_fromutc tz (u, false) = Ok (g_fromutc UO DST u).
Proof. exact gen_generic_fromutc_lemma. Qed.
Print Assumptions C04_gen_generic_fromutc.

Theorem C04_gen_generic__fromutc : forall (tz : tzobj) (UO DST : Z -> bool -> Z),
  (forall dt, tz_utcoffset tz dt = Ok (UO (fst dt) (snd dt))) ->
  (forall dt, tz_dst tz dt = Ok (DST (fst dt) (snd dt))) ->
  forall u, gen_generic__fromutc tz (u, false) = Ok (g_fromutc_wall UO DST u, false).
Proof. exact gen_generic__fromutc_lemma. Qed.
Print Assumptions C04_gen_generic__fromutc.

Theorem C04_gen_generic_fold_status : forall (tz : tzobj) (UO DST : Z -> bool -> Z),
  (forall dt, tz_utcoffset tz dt = Ok (UO (fst dt) (snd dt))) ->
  (forall dt, tz_dst tz dt = Ok (DST (fst dt) (snd dt))) ->
  (forall dt, tz_is_ambiguous tz dt = Ok (g_is_ambiguous UO (fst dt))) ->
  forall u w f, gen_generic_fold_status tz (u, false) (w, f) = Ok (py_int_of_bool (g_fold_status UO DST u w)).
Proof. exact gen_generic_fold_status_lemma. Qed.
Print Assumptions C04_gen_generic_fold_status.

Theorem C04_gen_generic_is_ambiguous : forall (tz : tzobj) (UO : Z -> bool -> Z),
  (forall dt, tz_utcoffset tz dt = Ok (UO (fst dt) (snd dt))) ->
  forall dt, gen_generic_is_ambiguous tz dt = Ok (g_is_ambiguous UO (fst dt)).
Proof. exact gen_generic_is_ambiguous_lemma. Qed.
Print Assumptions C04_gen_generic_is_ambiguous.

From V Require Import tzfile.TzGenLoopThm tzfile.TzDecodeThm.

(* ---- round 4: the derivation loops of _read_tzfile, regenerated from the source ---- *)
Theorem C04_gen_scan_std_dst : forall types idx,
  gen_scan types idx (len idx) =
  Ok (let sd := scan_sd types (rev idx) None None in
      (match fst sd with None => snd sd | Some k => Some k end, snd sd)).
Proof. exact gen_scan_lemma. Qed.
Print Assumptions C04_gen_scan_std_dst.

Theorem C04_gen_wall_transition_loop : forall types utc idx kb ks heap0, length utc = length idx ->
  exists a b c,
    gen_wall_loop types utc idx (len idx) (Some kb) (Some ks) heap0 =
    Ok (a, b, c, wall_pass types (tt_off (nth_tt types ks)) utc idx (tt_off (nth_tt types kb)),
        dst_pass types idx None 0 0 heap0).
Proof. exact gen_wall_loop_lemma. Qed.
Print Assumptions C04_gen_wall_transition_loop.

(* the decoder of the hand model uses exactly the results of the regenerated loops *)
Theorem C04_gen_build_uses_regenerated_loops : forall r d, build r = Ok d -> r_types r <> [] -> r_times r <> [] ->
  length (r_idx r) = length (r_times r) ->
  let types0 := mk_types (r_abbr r) (r_isstd r) (r_isgmt r) O (r_types r) in
  exists ks kdo a b c ds,
    gen_scan types0 (r_idx r) (len (r_idx r)) = Ok (Some ks, kdo) /\
    gen_wall_loop types0 (r_times r) (r_idx r) (len (r_idx r)) (Some (gen_ttinfo_before_index types0)) (Some ks)
                  (map (fun _ => 0) types0) = Ok (a, b, c, d_wall d, ds) /\
    d_utc d = r_times r /\ d_idx d = r_idx r /\ d_tt d = set_dstoffs types0 ds /\
    d_std d = Some (nth_tt (d_tt d) ks) /\ d_dst d = opt_tt (d_tt d) kdo /\
    d_before d = Some (nth_tt (d_tt d) (gen_ttinfo_before_index types0)).
Proof. exact build_uses_gen_lemma. Qed.
Print Assumptions C04_gen_build_uses_regenerated_loops.

(* hand-modelled fragments (struct decoding and the derivation loops of _read_tzfile, one-line methods, glue)
   are unchanged since the hand model was validated against them *)
From V Require Import tzfile.TzPinC04.
Theorem C04_pinned_fragments_unchanged :
  pinned_tz_tzfile__read_tzfile = true /\
  pinned_tz_tzutc_utcoffset = true /\
  pinned_tz_tzutc_dst = true /\
  pinned_tz_tzutc_fromutc = true /\
  pinned_tz_tzoffset___init__ = true /\
  pinned_tz_tzoffset_utcoffset = true /\
  pinned_tz_tzoffset_dst = true /\
  pinned_tz_tzoffset_fromutc = true /\
  pinned__common__tzinfo__fold = true.
Proof. exact pins_C04_lemma. Qed.
Print Assumptions C04_pinned_fragments_unchanged.
