(* C04 -- every tzinfo converts UTC -> local -> UTC without loss.
   Statements only; proofs are in coq/tzfile/*Thm.v.  `good d` is the executable decoder
   invariant (TzData.good; C06_decoder_invariant shows every decoded file has it, the harness
   also evaluates it on every zone), wf_zone the executable well-formedness of the zone
   (strictly increasing transitions, consecutive transitions at least as far apart as the two
   adjacent offset changes, offsets within a day).  Non-vacuity: tzfile/TzExamples.v. *)
From Coq Require Import ZArith List Bool.
Import ListNotations.
From V Require Import tzfile.TzModel tzfile.TzSpec tzfile.TzData tzfile.TzFixedThm tzfile.TzFinalThm
  tzfile.TzC06Thm tzfile.TzGenericModel tzfile.TzGenericThm tzfile.TzSameThm
  tzfile.TzZoneThm tzfile.TzGenericInstThm.
Open Scope Z_scope.

(* fromutc yields the wall reading u + off(u) with fold = "an earlier instant has the same wall
   reading"; the reported utcoffset is the offset in force at u; the way back returns u *)
Theorem C04_tzfile_roundtrip : forall d, good d = true -> wf_zone (zone_of d) = true -> forall u,
  exists w f, fromutc d u = Ok (w, f) /\ dt_utcoffset d w f = Ok (off (zone_of d) u) /\
              to_utc d w f = Ok u /\ w = local (zone_of d) u /\ f = fold_spec (zone_of d) u.
Proof. exact tzfile_roundtrip_lemma. Qed.
Print Assumptions C04_tzfile_roundtrip.

(* two different instants never map to the same (wall time, fold) pair *)
Theorem C04_distinct_instants_distinct_wall_fold : forall d, good d = true ->
  wf_zone (zone_of d) = true -> forall u1 u2, fromutc d u1 = fromutc d u2 -> u1 = u2.
Proof. exact tzfile_injective_lemma. Qed.
Print Assumptions C04_distinct_instants_distinct_wall_fold.

(* the offset and abbreviation reported for the converted datetime are those of the ttinfo in force
   at the instant (ttinfo_at = _get_ttinfo(_find_last_transition(u, in_utc=True))) *)
Theorem C04_reports_ttinfo_in_force : forall d, good d = true -> wf_zone (zone_of d) = true -> forall u,
  exists w f tt, fromutc d u = Ok (w, f) /\ ttinfo_at d u = Ok (Some tt) /\
    find_ttinfo d w f = Ok (Some tt) /\ w = u + tt_off tt /\
    utcoffset d w f = Ok (tt_off tt) /\ tzname d w f = Ok (Some (tt_abbr tt)).
Proof. exact same_ttinfo_lemma. Qed.
Print Assumptions C04_reports_ttinfo_in_force.

(* the same for a file as it is read: the decoder invariant is discharged (C06_decoder_invariant) *)
Theorem C04_read_tzfile_roundtrip : forall bytes r d, parse_tzif bytes = Ok r -> build r = Ok d ->
  r_types r <> [] -> wf_zone (zone_of d) = true -> forall u,
  exists w f, fromutc d u = Ok (w, f) /\ dt_utcoffset d w f = Ok (off (zone_of d) u) /\
              to_utc d w f = Ok u /\ w = local (zone_of d) u /\ f = fold_spec (zone_of d) u.
Proof. exact read_roundtrip_lemma. Qed.
Print Assumptions C04_read_tzfile_roundtrip.

(* the generic layer _tzinfo.fromutc / _fold_status (tzical, tzlocal) under the five obligations
   a zone class using it has to meet (see tzfile/TzGenericThm.v) *)
Theorem C04_generic_roundtrip : forall (UO DST : Z -> bool -> Z) (z : zone) (so : Z),
  wf_zone z = true ->
  (forall x f, UO x f - DST x f = so) ->
  (forall u, DST (u + so) true = off z u - so) ->
  (forall w, g_is_ambiguous UO w = true <-> length (preimages z w) = 2%nat) ->
  (forall a b, a < b -> local z a = local z b -> off z b = so) ->
  (forall u, UO (local z u) (fold_spec z u) = off z u) ->
  forall u, let (w, f) := g_fromutc UO DST u in
            w = local z u /\ f = fold_spec z u /\ UO w f = off z u /\ w - UO w f = u.
Proof. exact generic_roundtrip_lemma. Qed.
Print Assumptions C04_generic_roundtrip.

(* ... and those five obligations are met by every piecewise-constant zone with constant standard
   offset so and alternating standard / daylight periods (positive savings, any number of eras with
   different rules and savings) whose utcoffset()/dst() are the PEP-495 wall lookups A_utcoffset
   (what tzfile computes, and what an iCalendar zone's _find_comp computes on its onset list):
   the generic _tzinfo.fromutc is correct on all of them *)
Theorem C04_generic_on_piecewise_zone : forall (so p : Z) (tr : list (Z * Z)),
  wf_zone (mkZone p tr) = true -> alt_from so p tr = true -> so <= p -> forall u,
  let (w, f) := g_fromutc (A_utcoffset p tr) (fun x f => A_utcoffset p tr x f - so) u in
  w = local (mkZone p tr) u /\ f = fold_spec (mkZone p tr) u /\
  A_utcoffset p tr w f = off (mkZone p tr) u /\ w - A_utcoffset p tr w f = u.
Proof. exact generic_on_piecewise_lemma. Qed.
Print Assumptions C04_generic_on_piecewise_zone.

Theorem C04_fixed_roundtrip : forall o u,
  let (w, f) := fixed_fromutc o u in
  fixed_utcoffset o w f = off (fixed_zone o) u /\ w - fixed_utcoffset o w f = u /\
  w = local (fixed_zone o) u /\ f = fold_spec (fixed_zone o) u.
Proof. exact fixed_roundtrip_lemma. Qed.
Print Assumptions C04_fixed_roundtrip.
