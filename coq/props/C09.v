(* C09 -- relativedelta(dt1, dt2) is the calendar difference that carries dt2 onto dt1.
   Statements only; proofs are in rd/RdDiffThm.v.
   Operands: any two valid dates / datetimes (PD / PDT), mixed kinds coerced to two datetimes
   exactly as the constructor does (coerce_pair).  Aware datetimes of one zone object behave as
   naive ones in CPython and are covered by the correspondence only. *)
From Coq Require Import ZArith List Bool.
From V Require Import base.Cal gen.RdTables rd.RdBase rd.RdModel rd.RdSpec rd.RdAddThm rd.RdDiffThm.
Open Scope Z_scope.

(* dt2 + relativedelta(dt1, dt2) = dt1, with the model of __add__ *)
Theorem C09_diff_inverse : forall dt1 dt2, valid_dt dt1 = true -> valid_dt dt2 = true ->
  exists d, mk_diff dt1 dt2 = Ok d /\
    add_dt d (snd (coerce_pair dt1 dt2)) = Ok (fst (coerce_pair dt1 dt2)).
Proof. exact diff_inverse. Qed.
Print Assumptions C09_diff_inverse.

(* the full property predicate: only relative fields, normalised, the documented addition
   (spec_add) carries dt2 onto dt1, the months part is the largest whole-month shift of dt2 that
   does not pass dt1 (and years, months have one sign) *)
Theorem C09_diff_correct : forall dt1 dt2, valid_dt dt1 = true -> valid_dt dt2 = true ->
  exists d, mk_diff dt1 dt2 = Ok d /\ diff_ok dt1 dt2 d = true /\
    add_dt d (snd (coerce_pair dt1 dt2)) = Ok (fst (coerce_pair dt1 dt2)).
Proof. exact diff_correct. Qed.
Print Assumptions C09_diff_correct.

(* the overshoot loop needs at most one correction: the model's out-of-fuel error is unreachable *)
Theorem C09_diff_loop_terminates : forall dt1 dt2, valid_dt dt1 = true -> valid_dt dt2 = true ->
  mk_diff dt1 dt2 <> Err EFuel.
Proof. exact diff_loop_terminates. Qed.
Print Assumptions C09_diff_loop_terminates.

Theorem C09_diff_only_relative : forall dt1 dt2 d, mk_diff dt1 dt2 = Ok d -> only_relative d = true.
Proof. exact diff_only_relative. Qed.
Print Assumptions C09_diff_only_relative.

Theorem C09_diff_normalised : forall dt1 dt2 d, valid_dt dt1 = true -> valid_dt dt2 = true ->
  mk_diff dt1 dt2 = Ok d -> diff_normalised_b d = true.
Proof. exact diff_normalised. Qed.
Print Assumptions C09_diff_normalised.

Theorem C09_diff_months_maximal : forall dt1 dt2 d, valid_dt dt1 = true -> valid_dt dt2 = true ->
  mk_diff dt1 dt2 = Ok d ->
  months_maximal (fst (coerce_pair dt1 dt2)) (snd (coerce_pair dt1 dt2)) d = true.
Proof. exact diff_months_maximal. Qed.
Print Assumptions C09_diff_months_maximal.

Theorem C09_diff_self_empty : forall dt1 dt2, valid_dt dt1 = true -> valid_dt dt2 = true ->
  fst (coerce_pair dt1 dt2) = snd (coerce_pair dt1 dt2) ->
  exists d, mk_diff dt1 dt2 = Ok d /\ rd_empty d = true.
Proof. exact diff_self_empty. Qed.
Print Assumptions C09_diff_self_empty.
