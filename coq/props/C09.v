(* C09 -- relativedelta(dt1, dt2) is the calendar difference that carries dt2 onto dt1.
   Statements only; proofs are in rd/RdDiffThm.v.
   Operands: any two valid dates / datetimes (PD / PDT), mixed kinds coerced to two datetimes
   exactly as the constructor does (coerce_pair).  Aware datetimes of one zone object behave as
   naive ones in CPython and are covered by the correspondence only. *)
From Coq Require Import ZArith List Bool.
From V Require Import base.Cal gen.RdTables rd.RdBase rd.RdModel rd.RdSpec rd.RdAddThm rd.RdDiffThm
  rd.RdAwareModel rd.RdAwareThm.
Open Scope Z_scope.

(* dt2 + relativedelta(dt1, dt2) = dt1, with the model of __add__ *)
Theorem C09_diff_inverse : forall dt1 dt2, valid_dt dt1 = true -> valid_dt dt2 = true ->
  exists d, mk_diff dt1 dt2 = Ok d /\
    add_dt d (snd (coerce_pair dt1 dt2)) = Ok (fst (coerce_pair dt1 dt2)).
Proof. exact diff_inverse. Qed.
Print Assumptions C09_diff_inverse.

(* the full property predicate: only relative fields, normalised, the documented addition
   (spec_add) carries dt2 onto dt1, the months part is the largest whole-month shift of dt2 that
   does not pass dt1 (and years, months have one sign) *)
Theorem C09_diff_correct : forall dt1 dt2, valid_dt dt1 = true -> valid_dt dt2 = true ->
  exists d, mk_diff dt1 dt2 = Ok d /\ diff_ok dt1 dt2 d = true /\
    add_dt d (snd (coerce_pair dt1 dt2)) = Ok (fst (coerce_pair dt1 dt2)).
Proof. exact diff_correct. Qed.
Print Assumptions C09_diff_correct.

(* the overshoot loop needs at most one correction: the model's out-of-fuel error is unreachable *)
Theorem C09_diff_loop_terminates : forall dt1 dt2, valid_dt dt1 = true -> valid_dt dt2 = true ->
  mk_diff dt1 dt2 <> Err EFuel.
Proof. exact diff_loop_terminates. Qed.
Print Assumptions C09_diff_loop_terminates.

Theorem C09_diff_only_relative : forall dt1 dt2 d, mk_diff dt1 dt2 = Ok d -> only_relative d = true.
Proof. exact diff_only_relative. Qed.
Print Assumptions C09_diff_only_relative.

Theorem C09_diff_normalised : forall dt1 dt2 d, valid_dt dt1 = true -> valid_dt dt2 = true ->
  mk_diff dt1 dt2 = Ok d -> diff_normalised_b d = true.
Proof. exact diff_normalised. Qed.
Print Assumptions C09_diff_normalised.

Theorem C09_diff_months_maximal : forall dt1 dt2 d, valid_dt dt1 = true -> valid_dt dt2 = true ->
  mk_diff dt1 dt2 = Ok d ->
  months_maximal (fst (coerce_pair dt1 dt2)) (snd (coerce_pair dt1 dt2)) d = true.
Proof. exact diff_months_maximal. Qed.
Print Assumptions C09_diff_months_maximal.

Theorem C09_diff_self_empty : forall dt1 dt2, valid_dt dt1 = true -> valid_dt dt2 = true ->
  fst (coerce_pair dt1 dt2) = snd (coerce_pair dt1 dt2) ->
  exists d, mk_diff dt1 dt2 = Ok d /\ rd_empty d = true.
Proof. exact diff_self_empty. Qed.
Print Assumptions C09_diff_self_empty.

(* the law on the operands as given: a date dt2 stays a date unless the difference carries time.
   READING of "equals dt1 exactly" for MIXED date/datetime pairs: equality after promoting a date to
   the datetime at its midnight (`promote`).  Literally a Python datetime never == a date, so the
   text cannot be meant field-for-field there; for operands of one kind `promote` changes nothing and
   the equality is literal (C09_diff_inverse).  check_C09.py compares with the same reading. *)
Theorem C09_diff_inverse_uncoerced : forall dt1 dt2, valid_dt dt1 = true -> valid_dt dt2 = true ->
  exists d r, mk_diff dt1 dt2 = Ok d /\ add_dt d dt2 = Ok r /\ promote r = promote dt1.
Proof. exact diff_inverse_uncoerced. Qed.
Print Assumptions C09_diff_inverse_uncoerced.

(* the model's comparison of operands (position on the time line) is CPython's lexicographic order *)
Theorem C09_order_date : forall y m d y' m' d',
  valid_dt (PD y m d) = true -> valid_dt (PD y' m' d') = true ->
  (lin (PD y m d) < lin (PD y' m' d') <-> lex_lt_ymd y m d y' m' d').
Proof. exact lin_lt_lex_date. Qed.
Print Assumptions C09_order_date.

Theorem C09_order_datetime : forall y m d hh mi ss us y' m' d' hh' mi' ss' us',
  valid_dt (PDT y m d hh mi ss us) = true -> valid_dt (PDT y' m' d' hh' mi' ss' us') = true ->
  (lin (PDT y m d hh mi ss us) < lin (PDT y' m' d' hh' mi' ss' us') <->
   lex_lt_ymd y m d y' m' d' \/
   ((y, m, d) = (y', m', d') /\
    (hh < hh' \/ (hh = hh' /\ (mi < mi' \/ (mi = mi' /\ (ss < ss' \/ (ss = ss' /\ us < us')))))))).
Proof. exact lin_lt_lex_datetime. Qed.
Print Assumptions C09_order_datetime.

(* aware operands whose tzinfo attributes are DISTINCT objects of one zone (RdAwareModel: CPython
   then compares/subtracts UTC instants).  Guard: the zone's utcoffset is constant -> the result is
   the naive one and every theorem above applies.  Without the guard the inverse law is refuted
   (finding F-C09-distinct-tzinfo: New York, 7 March 12:00 -> 9 March 12:00 across the DST start). *)
Theorem C09_aware_distinct_const_offset :
  forall off f y1 m1 d1 hh1 mi1 ss1 us1 y2 m2 d2 hh2 mi2 ss2 us2,
  (forall l, off l = Some f) ->
  mk_diff_aware off (PDT y1 m1 d1 hh1 mi1 ss1 us1) (PDT y2 m2 d2 hh2 mi2 ss2 us2)
  = mk_diff (PDT y1 m1 d1 hh1 mi1 ss1 us1) (PDT y2 m2 d2 hh2 mi2 ss2 us2).
Proof. exact mk_diff_aware_const. Qed.
Print Assumptions C09_aware_distinct_const_offset.

Theorem C09_diff_inverse_distinct_tzinfo_refuted :
  exists off dt1 dt2 d r,
    valid_dt dt1 = true /\ valid_dt dt2 = true /\
    mk_diff_aware off dt1 dt2 = Ok d /\ add_dt d dt2 = Ok r /\ r <> dt1.
Proof. exact diff_inverse_distinct_tzinfo_refuted. Qed.
Print Assumptions C09_diff_inverse_distinct_tzinfo_refuted.

(* the sharper guard, for any zone: same utcoffset at dt1, at dt2 and at the (at most 7) whole-month
   shifts of dt2 the constructor can reach -- exactly the wall values whose utcoffsets the check
   records as "utcoffsets_us_consulted" *)
Theorem C09_aware_distinct_local :
  forall off f y1 m1 d1 hh1 mi1 ss1 us1 y2 m2 d2 hh2 mi2 ss2 us2,
  let dt1 := PDT y1 m1 d1 hh1 mi1 ss1 us1 in
  let dt2 := PDT y2 m2 d2 hh2 mi2 ss2 us2 in
  valid_dt dt2 = true -> off (lin dt1) = Some f -> off (lin dt2) = Some f ->
  (forall k, Z.abs (k - (mi dt1 - mi dt2)) <= 3 -> off (lin (shifted dt2 k)) = Some f) ->
  mk_diff_aware off dt1 dt2 = mk_diff dt1 dt2.
Proof. exact mk_diff_aware_local. Qed.
Print Assumptions C09_aware_distinct_local.

(* THE GUARD = the complement of finding F-C09-distinct-tzinfo's matcher: whenever the utcoffset at
   dt1 equals the utcoffset at dt2 shifted by the result's years/months (the value the residual is
   taken from), dt2 + relativedelta(dt1, dt2) = dt1 also for distinct tzinfo objects -- nothing is
   assumed about the offsets at dt2 or at the other month shifts the loop visits.  (The matcher in
   check_C09.py excuses an inverse-law failure only when these two offsets differ.) *)
Theorem C09_aware_distinct_inverse :
  forall off f y1 m1 d1 hh1 mi1 ss1 us1 y2 m2 d2 hh2 mi2 ss2 us2 d,
  let dt1 := PDT y1 m1 d1 hh1 mi1 ss1 us1 in
  let dt2 := PDT y2 m2 d2 hh2 mi2 ss2 us2 in
  valid_dt dt1 = true -> valid_dt dt2 = true ->
  mk_diff_aware off dt1 dt2 = Ok d ->
  off (lin dt1) = Some f -> off (lin (shifted dt2 (rel_months (rel d)))) = Some f ->
  add_dt d dt2 = Ok dt1.
Proof. exact mk_diff_aware_inverse. Qed.
Print Assumptions C09_aware_distinct_inverse.

(* ======== model <-> code tie by TRANSLATION: gen/RdAddGen.v is regenerated from
   /repo/src/dateutil/relativedelta.py on every run by harness/gen_rd_add.py (fail-closed Python-ast
   translator); the generated two-datetime constructor (with its `while` loop as a Fixpoint on fuel)
   and __add__ equal the hand model used by all theorems above, for ALL inputs.  (Imported here, after
   the model theorems, so that a change of the source breaks only the C09_gen_* obligations.) *)
From V Require Import rd.RdGenBase gen.RdMethodsGen rd.RdGenThm rd.RdAddGenBase gen.RdAddGen rd.RdAddGenThm.

Theorem C09_gen_init_diff : forall dt1 dt2, gen_init_diff dt1 dt2 = lift_rd (mk_diff dt1 dt2).
Proof. exact gen_init_diff_correct. Qed.
Print Assumptions C09_gen_init_diff.

Theorem C09_gen_add_dt : forall d o, gen_add_dt (obj_of_rd d) o = add_dt d o.
Proof. exact gen_add_dt_correct. Qed.
Print Assumptions C09_gen_add_dt.

(* the inverse law and the full predicate, stated directly about the translated source *)
Theorem C09_gen_diff_inverse : forall dt1 dt2, valid_dt dt1 = true -> valid_dt dt2 = true ->
  exists d, gen_init_diff dt1 dt2 = Ok (obj_of_rd d) /\ diff_ok dt1 dt2 d = true /\
    gen_add_dt (obj_of_rd d) (snd (coerce_pair dt1 dt2)) = Ok (fst (coerce_pair dt1 dt2)).
Proof. exact gen_diff_inverse. Qed.
Print Assumptions C09_gen_diff_inverse.
