(* C14 -- parse() is total: a datetime, ParserError or OverflowError, always terminating.
   Statements only; proofs are in parse/{TotalThm,BuildThm,LexThm}.v over the hand model
   coq/parse/{Lex,Prim,Ymd,Parse,Build}.v.  Termination is by construction: every function of the
   model is structurally recursive, the only fuelled loop is parse_loop whose out-of-fuel error is
   shown unreachable here (C14_parse_total covers OutOfFuel as an escape). *)
From Coq Require Import ZArith List Bool.
From V Require Import base.Cal gen.ParseTables parse.Lex parse.Prim parse.Ymd parse.Parse parse.Build
                      parse.BuildThm parse.LexThm parse.TotalThm.
Import ListNotations.
Open Scope Z_scope.

(* for ALL code-point lists and all well-formed options the outcome is a datetime, ParserError or
   OverflowError -- no IndexError, ValueError, AssertionError, TypeError, UnboundLocalError or
   OutOfFuel escapes -- EXCEPT the defect class of open finding F-C14-bigmonth: the month handed to
   calendar.monthrange has more digits than sys.get_int_max_str_digits(), IllegalMonthError cannot
   be formatted and a plain ValueError (ValueErrorNoStr in the model) leaves parse().
   wf: tzinfos values are int | TZ string | tzinfo | None, parserinfo._year >= 50 *)
Theorem C14_parse_total : forall o s,
  wf_tzinfos (o_tzinfos o) = true -> 50 <= o_cur_year o ->
  match parse o s with OutEscape e => e = ValueErrorNoStr | _ => True end.
Proof. exact parse_total_lemma. Qed.
Print Assumptions C14_parse_total.

(* the guard is exactly the defect class: an escape happens only through _build_naive's
   unprintable IllegalMonthError *)
Theorem C14_escape_characterised : forall o s e,
  wf_tzinfos (o_tzinfos o) = true -> 50 <= o_cur_year o -> parse o s = OutEscape e ->
  e = ValueErrorNoStr /\
  exists r toks,
    parse_res (o_fuzzy o) (o_fwt o) (oflag (o_yearfirst o) (o_info_yearfirst o))
              (oflag (o_dayfirst o) (o_info_dayfirst o)) (o_cur_year o) s = Ok (Some (r, toks)) /\
    build_naive r (o_default o) = Err ValueErrorNoStr.
Proof. exact escape_characterised. Qed.
Print Assumptions C14_escape_characterised.

(* ... and the class is inhabited: the unguarded statement is false of the faithful model.
   Concrete text: "60 " + "1"*4301 (replayed on the implementation and the extracted model by
   check_C14 from corpus/regressions/C14.jsonl) *)
Theorem C14_parse_total_unguarded_refuted :
  exists r d, valid_dt d = true /\ build_naive r d = Err ValueErrorNoStr.
Proof. exact parse_total_unguarded_refuted_lemma. Qed.
Print Assumptions C14_parse_total_unguarded_refuted.

(* _parse itself never raises: every internal exception is an IndexError or ValueError and is caught *)
Theorem C14_parse_res_never_raises : forall fz fwt yf df cur s,
  50 <= cur -> exists v, parse_res fz fwt yf df cur s = Ok v.
Proof. exact parse_res_total. Qed.
Print Assumptions C14_parse_res_never_raises.

(* termination argument of the while loop: each successful iteration moves the index forward and
   keeps the number of tokens *)
Theorem C14_parse_step_progress : forall fz cur st st',
  50 <= cur -> ymd_inv (p_y st) -> parse_step fz cur st = Ok st' ->
  (p_i st < p_i st')%nat /\ length (p_l st') = length (p_l st).
Proof. exact parse_step_progress_lemma. Qed.
Print Assumptions C14_parse_step_progress.

(* the lexer is linear *)
Theorem C14_lex_linear : forall s, (length (timelex s) <= length s)%nat.
Proof. exact lex_linear_lemma. Qed.
Print Assumptions C14_lex_linear.

Theorem C14_build_naive_kinds : forall r d e,
  build_naive r d = Err e -> e = ValueError \/ e = OverflowError \/ e = ValueErrorNoStr.
Proof. exact build_naive_kind. Qed.
Print Assumptions C14_build_naive_kinds.

Theorem C14_build_tzaware_kinds : forall o r e,
  wf_tzinfos (o_tzinfos o) = true -> build_tzaware o r = Err e -> e = OverflowError.
Proof. exact build_tzaware_kind. Qed.
Print Assumptions C14_build_tzaware_kinds.

(* non-vacuity: well-formed options exist and all three outcome classes occur *)
Theorem C14_parse_total_example :
  wf_tzinfos (o_tzinfos ex_opts) = true /\ 50 <= o_cur_year ex_opts /\
  (exists toks, parse ex_opts [49; 48; 58; 52; 57; 58; 52; 49; 32; 45; 48; 51; 58; 48; 48; 32; 120]
     = OutOk (mkDt 2003 9 25 10 49 41 0) (ZOffset None (-10800)) 0 false toks) /\
  parse ex_opts [49; 48; 58; 58; 58] = OutParserError /\
  parse ex_opts ([49; 48; 58] ++ repeat 49 30) = OutOverflow.
Proof. exact parse_total_example. Qed.
Print Assumptions C14_parse_total_example.
