(* C14 -- parse() is total: a datetime, ParserError or OverflowError, always terminating.
   Statements only; proofs are in parse/{TotalThm,BuildThm,LexThm}.v over the hand model
   coq/parse/{Lex,Prim,Ymd,Parse,Build}.v.  Termination is by construction: every function of the
   model is structurally recursive, the only fuelled loop is parse_loop whose out-of-fuel error is
   shown unreachable here (C14_parse_total covers OutOfFuel as an escape). *)
From Coq Require Import ZArith List Bool.
From V Require Import base.Cal gen.ParseTables parse.Lex parse.Prim parse.Ymd parse.Parse parse.Build
                      parse.BuildThm parse.LexThm parse.TotalThm
                      parse.ParseSpec parse.ZoneThm parse.Local parse.LocalThm parse.Full.
Import ListNotations.
Open Scope Z_scope.

(* ALPHABET.  The model's character classes are Python's on Sigma = ASCII + the non-ASCII code points (70) of
   gen/ParseTables.tbl_chars (Lex.in_sigma); any other code point is lexed as "other", unlike Python.  The
   statements below hold of the model for every list of integers, but they describe dateutil only for texts
   over Sigma, so the headline theorems carry `over_sigma s`.  Real Unicode coverage, proved and tested
   alike, is those 70 code points (+ an implementation-only outcome-class test outside the table).

   for all texts over Sigma and all well-formed options the outcome is a datetime, ParserError or
   OverflowError -- no IndexError, ValueError, AssertionError, TypeError, UnboundLocalError or
   OutOfFuel escapes -- EXCEPT the defect class of open finding F-C14-bigmonth: the month handed to
   calendar.monthrange has more digits than sys.get_int_max_str_digits(), IllegalMonthError cannot
   be formatted and a plain ValueError (ValueErrorNoStr in the model) leaves parse().
   wf: tzinfos values are int | VALID TZ string | tzinfo | None (DESIGN's wf_opts), parserinfo._year >= 50;
   this is `parse` = the runs in which tz.tzlocal answers; all option combinations: C14_parse_full_total *)
Theorem C14_parse_total : forall o s,
  over_sigma s -> wf_tzinfos (o_tzinfos o) = true -> 50 <= o_cur_year o ->
  match parse o s with OutEscape e => e = ValueErrorNoStr | _ => True end.
Proof. exact parse_total_sigma_lemma. Qed.
Print Assumptions C14_parse_total.

(* the same without the alphabet hypothesis (a statement about the model only, see ALPHABET) *)
Theorem C14_parse_total_model : forall o s,
  wf_tzinfos (o_tzinfos o) = true -> 50 <= o_cur_year o ->
  match parse o s with OutEscape e => e = ValueErrorNoStr | _ => True end.
Proof. exact parse_total_lemma. Qed.
Print Assumptions C14_parse_total_model.

(* EVERY option combination (tzinfos values of any type, TZ strings tz.tzstr rejects, failing tz.tzlocal):
   parse_full (parse/Full.v).  Besides ParserError / OverflowError exactly three exception classes leave
   parse(), each with its exact trigger (escape_class): F-C14-bigmonth (plain ValueError, above),
   F-C14-tzinfos-type (TypeError: the tzinfos value the text resolves to is not int/str/tzinfo/None, although the
   docstring promises ParserError "if the provided tzinfo is not in a valid format"), F-C14-tzstr (plain ValueError:
   tz.tzstr rejects the TZ string).  Option restrictions that remain (NOT modelled, stated here): `default` is a
   naive datetime.datetime (a date or None-with-clock is outside), the text is str / decodable bytes / text
   stream (undecodable bytes: F-C14-undecodable, implementation-only), user tzinfo objects do not raise. *)

Theorem C14_parse_full_total : forall o lz bad s,
  over_sigma s -> 50 <= o_cur_year o ->
  match parse_full o lz bad s with OutEscape e => escape_class o bad s e | _ => True end.
Proof. exact parse_full_total_sigma_lemma. Qed.
Print Assumptions C14_parse_full_total.

Theorem C14_parse_full_wf : forall o lz s, parse_full o lz [] s = parse_lz o lz s.
Proof. exact parse_full_wf. Qed.
Print Assumptions C14_parse_full_wf.

Theorem C14_parse_full_escapes_refuted :
  parse_full (fx_opts TVBad) (mkLocalz 0 false) [] fx_text = OutEscape TypeError /\
  parse_full (fx_opts (TVStr 100)) (mkLocalz 0 false) [100] fx_text = OutEscape ValueError /\
  parse_full (fx_opts (TVStr 100)) (mkLocalz 0 false) [] fx_text = OutOk (mkDt 2003 9 25 10 0 0 0) (ZStr 100) 0 false [].
Proof. exact parse_full_escapes_refuted_lemma. Qed.
Print Assumptions C14_parse_full_escapes_refuted.

(* the guard is exactly the defect class: an escape happens only through _build_naive's
   unprintable IllegalMonthError *)
Theorem C14_escape_characterised : forall o s e,
  wf_tzinfos (o_tzinfos o) = true -> 50 <= o_cur_year o -> parse o s = OutEscape e ->
  e = ValueErrorNoStr /\
  exists r toks,
    parse_res (o_fuzzy o) (o_fwt o) (oflag (o_yearfirst o) (o_info_yearfirst o))
              (oflag (o_dayfirst o) (o_info_dayfirst o)) (o_cur_year o) s = Ok (Some (r, toks)) /\
    build_naive r (o_default o) = Err ValueErrorNoStr.
Proof. exact escape_characterised. Qed.
Print Assumptions C14_escape_characterised.

(* ... and the class is inhabited: the unguarded statement is false of the faithful model.
   Concrete text: "60 " + "1"*4301 (replayed on the implementation and the extracted model by
   check_C14 from corpus/regressions/C14.jsonl) *)
Theorem C14_parse_total_unguarded_refuted :
  exists r d, valid_dt d = true /\ build_naive r d = Err ValueErrorNoStr.
Proof. exact parse_total_unguarded_refuted_lemma. Qed.
Print Assumptions C14_parse_total_unguarded_refuted.

(* _parse itself never raises: every internal exception is an IndexError or ValueError and is caught *)
Theorem C14_parse_res_never_raises : forall fz fwt yf df cur s,
  50 <= cur -> exists v, parse_res fz fwt yf df cur s = Ok v.
Proof. exact parse_res_total. Qed.
Print Assumptions C14_parse_res_never_raises.

(* termination argument of the while loop: each successful iteration moves the index forward and
   keeps the number of tokens *)
Theorem C14_parse_step_progress : forall fz cur st st',
  50 <= cur -> ymd_inv (p_y st) -> parse_step fz cur st = Ok st' ->
  (p_i st < p_i st')%nat /\ length (p_l st') = length (p_l st).
Proof. exact parse_step_progress_lemma. Qed.
Print Assumptions C14_parse_step_progress.

(* the lexer is linear *)
Theorem C14_lex_linear : forall s, (length (timelex s) <= length s)%nat.
Proof. exact lex_linear_lemma. Qed.
Print Assumptions C14_lex_linear.

Theorem C14_build_naive_kinds : forall r d e,
  build_naive r d = Err e -> e = ValueError \/ e = OverflowError \/ e = ValueErrorNoStr.
Proof. exact build_naive_kind. Qed.
Print Assumptions C14_build_naive_kinds.

Theorem C14_build_tzaware_kinds : forall o r e,
  wf_tzinfos (o_tzinfos o) = true -> build_tzaware o r = Err e -> e = OverflowError.
Proof. exact build_tzaware_kind. Qed.
Print Assumptions C14_build_tzaware_kinds.

(* non-vacuity: well-formed options exist and all three outcome classes occur *)
Theorem C14_parse_total_example :
  wf_tzinfos (o_tzinfos ex_opts) = true /\ 50 <= o_cur_year ex_opts /\
  (exists toks, parse ex_opts [49; 48; 58; 52; 57; 58; 52; 49; 32; 45; 48; 51; 58; 48; 48; 32; 120]
     = OutOk (mkDt 2003 9 25 10 49 41 0) (ZOffset None (-10800)) 0 false toks) /\
  parse ex_opts [49; 48; 58; 58; 58] = OutParserError /\
  parse ex_opts ([49; 48; 58] ++ repeat 49 30) = OutOverflow.
Proof. exact parse_total_example. Qed.
Print Assumptions C14_parse_total_example.

(* tz.tzlocal can fail (parse/Local.v: `dt - self._dst_saved` in tzlocal.is_ambiguous overflows next to
   datetime.min / datetime.max); the model with that failure, parse_lz, only adds OverflowError outcomes *)
From V Require Import parse.ZoneThm parse.Local parse.LocalThm.

Theorem C14_parse_lz_total : forall o lz s,
  wf_tzinfos (o_tzinfos o) = true -> 50 <= o_cur_year o ->
  match parse_lz o lz s with OutEscape e => e = ValueErrorNoStr | _ => True end.
Proof. exact parse_lz_total_lemma. Qed.
Print Assumptions C14_parse_lz_total.

Theorem C14_parse_lz_only_adds_overflow : forall o lz s,
  parse_lz o lz s = parse o s \/ parse_lz o lz s = OutOverflow.
Proof. exact parse_lz_cases. Qed.
Print Assumptions C14_parse_lz_only_adds_overflow.

Theorem C14_parse_lz_nodst : forall o lz s, lz_dst_saved lz = 0 -> parse_lz o lz s = parse o s.
Proof. exact parse_lz_nodst. Qed.
Print Assumptions C14_parse_lz_nodst.

(* token-shape invariant of the lexer (audit): every token is a single character, or letters / digits / '.' / ','
   with no letter next to a digit (tok_good, parse/LexShape.v).  On tokens of this shape Python's
   int() / float() / Decimal() accept exactly digits+ [. digits*] and the words inf / nan / infinity, which is
   what the acceptance predicates of parse/Prim.v model (no sign, underscore, exponent or padding forms). *)
From V Require Import parse.LexShape.

Theorem C14_lex_token_shape : forall s, Forall (fun p => tok_good p = true) (timelex s).
Proof. exact lex_token_shape_lemma. Qed.
Print Assumptions C14_lex_token_shape.

(* ------------------------------------------------------------------------------------------------
   Model <-> source (iso builder, notes/parse_gen.md).  coq/gen/ParseGen.v is regenerated from
   /repo/src/dateutil/parser/_parser.py by the fail-closed translator harness/gen_parse.py on every run; each
   translated function equals the corresponding function of the hand model for all inputs (parse/ParseGenThm*.v;
   statements in parse/ParseGenProps.v).  The untranslated parts of _parser.py are pinned by AST hash in the translator:
   any edit of them, or a translated function whose meaning changes, makes these theorems fail. *)
From V Require Import parse.ParseGenLib gen.ParseGen parse.ParseGenThm parse.ParseGenThm2 parse.ParseGenProps.

Theorem C14_gen_parserinfo_lookups : gen_parserinfo_lookups_stmt.
Proof. exact gen_parserinfo_lookups. Qed.
Print Assumptions C14_gen_parserinfo_lookups.

Theorem C14_gen_convertyear : gen_convertyear_stmt.
Proof. exact pg_convertyear_eq. Qed.
Print Assumptions C14_gen_convertyear.

Theorem C14_gen_validate : gen_validate_stmt.
Proof. exact pg_validate_eq. Qed.
Print Assumptions C14_gen_validate.

Theorem C14_gen_could_be_day : gen_could_be_day_stmt.
Proof. exact pg_could_be_day_eq. Qed.
Print Assumptions C14_gen_could_be_day.

Theorem C14_gen_resolve_ymd : gen_resolve_ymd_stmt.
Proof. exact pg_resolve_ymd_eq. Qed.
Print Assumptions C14_gen_resolve_ymd.

Theorem C14_gen_append : gen_append_stmt.
Proof. exact gen_append. Qed.
Print Assumptions C14_gen_append.

Theorem C14_gen_ampm : gen_ampm_stmt.
Proof. exact gen_ampm. Qed.
Print Assumptions C14_gen_ampm.

Theorem C14_gen_could_be_tzname : gen_could_be_tzname_stmt.
Proof. exact pg_could_be_tzname_eq. Qed.
Print Assumptions C14_gen_could_be_tzname.

Theorem C14_gen_parse_min_sec : gen_parse_min_sec_stmt.
Proof. exact pg_parse_min_sec_eq. Qed.
Print Assumptions C14_gen_parse_min_sec.

Theorem C14_gen_parsems : gen_parsems_stmt.
Proof. exact pg_parsems_eq. Qed.
Print Assumptions C14_gen_parsems.

Theorem C14_gen_assign_hms : gen_assign_hms_stmt.
Proof. exact pg_assign_hms_eq. Qed.
Print Assumptions C14_gen_assign_hms.

Theorem C14_gen_find_hms_idx : gen_find_hms_idx_stmt.
Proof. exact pg_find_hms_idx_eq. Qed.
Print Assumptions C14_gen_find_hms_idx.

Theorem C14_gen_parse_hms : gen_parse_hms_stmt.
Proof. exact pg_parse_hms_eq. Qed.
Print Assumptions C14_gen_parse_hms.

Theorem C14_gen_parse_numeric_token : gen_parse_numeric_stmt.
Proof. exact pg_parse_numeric_eq. Qed.
Print Assumptions C14_gen_parse_numeric_token.
