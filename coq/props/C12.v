(* C12 -- recurrence queries agree with the listed sequence.
   Statements only; proofs are in rcache/RQueryThm.v.  L = list(rule) as integers (whole seconds);
   `complete` selects the code path (true: cache-complete list fast path, false: generator path).
   spec_* are list-level definitions (Python list indexing / slicing, filter, hd, last, firstn). *)
From Coq Require Import ZArith List Bool.
From V Require Import rcache.PyList rcache.RCacheModel rcache.RCacheSpec rcache.RQueryModel rcache.RQuerySpec
  rcache.RQueryThm rcache.RCacheThm rcache.RCacheQuery rcache.RSliceSpec.
From V Require rr.RRBase rr.RRNorm rcache.RReplace rcache.RReplaceThm rcache.RRInitBase gen.RRInitGen rcache.RRInitGenThm.
From V Require Import rcache.RGenBase gen.RQueryGen rcache.RQueryGenThm.
Import ListNotations.
Open Scope Z_scope.

(* rule[i], rule[a:b:c] -- the MAIN statement, against a reference that is NOT built from PyList.py_slice /
   py_index (rcache/RSliceSpec.v, written from the Python language reference):
     rule[k]     = nth_error L k for 0 <= k < n, nth_error L (n + k) for -n <= k < 0, IndexError otherwise;
     rule[a:b:c] = ValueError when c = 0; otherwise the list whose m-th element is L[i + m*k] for exactly the m
                   with i + m*k before j (k > 0: < j, k < 0: > j), where k = c or 1, and i, j are a, b made
                   relative to the end when negative and clamped to [0, n] (k > 0) / [-1, n-1] (k < 0), or the
                   end values 0 / n (k > 0), n-1 / -1 (k < 0) when omitted (ap_bounds, ap_sel).
   For ALL lists, ALL ints, ALL None / negative / positive components and steps, BOTH code paths (cache-complete
   list path and generator path: get_loop, islice, list(iter(self))[item]). *)
Theorem C12_getitem_python_reference : forall complete l it,
  match it with
  | IInt k =>
      getitem complete l it = match spec_index l k with Some v => QVal v | None => QIndexError end
  | ISlice a b c =>
      match ap_bounds (zlen l) a b c with
      | None => getitem complete l it = QValueError
      | Some (i, j, k) =>
          exists r, getitem complete l it = QList r /\
                    forall m : nat, nth_error r m =
                                    if ap_sel i j k m then nth_error l (Z.to_nat (i + Z.of_nat m * k)) else None
      end
  end.
Proof. exact getitem_python_reference. Qed.
Print Assumptions C12_getitem_python_reference.

(* the list primitives of PyList.v (used by the model AND by spec_getitem) are that reference *)
Theorem C12_slice_is_arithmetic_progression : forall l a b c,
  match ap_bounds (zlen l) a b c, py_slice l a b c with
  | None, None => True
  | Some (i, j, k), Some r =>
      forall m : nat, nth_error r m =
                      if ap_sel i j k m then nth_error l (Z.to_nat (i + Z.of_nat m * k)) else None
  | _, _ => False
  end.
Proof. exact py_slice_is_ap. Qed.
Print Assumptions C12_slice_is_arithmetic_progression.

Theorem C12_index_is_reference : forall l k, py_index l k = spec_index l k.
Proof. exact py_index_is_spec. Qed.
Print Assumptions C12_index_is_reference.

(* TIE ONLY (evidence: tie_only).  spec_getitem IS py_getitem, and the model returns py_getitem itself on the
   complete path, for negative ints and for slices with a negative component: for those cases this statement is
   x = x.  Its content is get_loop = py_index (k >= 0) and islice = py_slice (non-negative components); the
   meaning of py_index / py_slice is C12_getitem_python_reference above. *)
Theorem C12_getitem : forall complete l it, getitem complete l it = spec_getitem l it.
Proof. exact getitem_correct. Qed.
Print Assumptions C12_getitem.

(* the islice path of the fixed __getitem__ is list slicing for non-negative components *)
Theorem C12_islice_is_slice : forall l a b c,
  isneg a = false -> isneg b = false -> isneg c = false -> islice l a b c = py_slice l a b c.
Proof. exact islice_correct. Qed.
Print Assumptions C12_islice_is_slice.

Theorem C12_contains : forall complete l x, incr l -> contains complete l x = spec_contains l x.
Proof. exact contains_correct. Qed.
Print Assumptions C12_contains.

(* count() == len(L).  Cached rule: `_len` is a FIELD (lenp) of C11's shared state, None until the generator's
   last statement publishes the number of items it yielded; in every state reachable under ANY schedule and ANY
   other operations a finished count() returned |seq| -- read from that field, not assumed. *)
Theorem C12_count_is_number_yielded : forall seq ops sched t th,
  nth_error (thr (reach seq ops sched)) t = Some th -> t_op th = OCount -> t_pc th = PDone ->
  t_res th = Some (Ret [Z.of_nat (length seq)]).
Proof. exact count_returns_length. Qed.
Print Assumptions C12_count_is_number_yielded.

(* Uncached rule: the only state is `_len`.  After ANY history of calls (true = the call ran the generator to
   exhaustion and so executed its final `self._len = total`, false = it did not) the GENERATED count() returns
   |L|.  ASSUMPTION carried by RGenBase.published: an exhausted generator assigns total = number of items it
   yielded (rrule._iter / rruleset._iter, last statement) -- proved for the cached path above, checked
   differentially for the uncached one (check_C12 modes uncached / uncached_mid / *_len_known_by_*: count()
   among shuffled queries on one shared object). *)
Theorem C12_gen_count_after_any_history : forall l h, gen_count (ulen_after l h) l = QVal (zlen l).
Proof. exact gen_count_after_any_history. Qed.
Print Assumptions C12_gen_count_after_any_history.

(* TIE ONLY (evidence: tie_only): count l and spec_count l are both zlen l; kept as the name the extraction and
   the harness use.  The content of "count() is len(L)" is the two theorems above. *)
Theorem C12_count : forall l, count l = spec_count l.
Proof. exact count_correct. Qed.
Print Assumptions C12_count.

Theorem C12_before : forall complete l dt inc, incr l -> before complete l dt inc = spec_before l dt inc.
Proof. exact before_correct. Qed.
Print Assumptions C12_before.

Theorem C12_after : forall complete l dt inc, after complete l dt inc = spec_after l dt inc.
Proof. exact after_correct. Qed.
Print Assumptions C12_after.

Theorem C12_xafter : forall complete l dt cnt inc, xafter complete l dt cnt inc = spec_xafter l dt cnt inc.
Proof. exact xafter_correct. Qed.
Print Assumptions C12_xafter.

Theorem C12_between : forall complete l a b inc, incr l ->
  between complete l a b inc = spec_between l a b inc.
Proof. exact between_correct. Qed.
Print Assumptions C12_between.

(* PARTLY TIE (evidence: tie_only): before / after / between / xafter run the SAME loop on `self._cache` or on
   `self` (faithful to the source), so four of the six conjuncts are reflexivity; the content is the getitem
   and contains conjuncts (list indexing / `in` on the complete cache vs get_loop / islice / the early-exit
   loop of the generator path). *)
Theorem C12_cached_path_eq_gen_path : forall l, incr l ->
  (forall it, getitem true l it = getitem false l it) /\
  (forall x, contains true l x = contains false l x) /\
  (forall dt inc, before true l dt inc = before false l dt inc) /\
  (forall dt inc, after true l dt inc = after false l dt inc) /\
  (forall a b inc, between true l a b inc = between false l a b inc) /\
  (forall dt c inc, xafter true l dt c inc = xafter false l dt c inc).
Proof. exact cached_path_eq_gen_path. Qed.
Print Assumptions C12_cached_path_eq_gen_path.

(* answers do not depend on which iterators / queries ran before or run concurrently on a cached rule:
   in every state reachable under ANY schedule of the C11 transition system, a finished operation
   returned C12's list-level answer (op_list_spec: L, L[:k], L[k], len(L), x in L, filter / last / first) *)
Theorem C12_query_order_irrelevant : forall seq ops sched t th,
  incr seq ->
  nth_error (thr (reach seq ops sched)) t = Some th -> t_pc th = PDone ->
  t_res th = Some (op_list_spec (t_op th) seq).
Proof. exact query_order_irrelevant. Qed.
Print Assumptions C12_query_order_irrelevant.

(* the slicing primitive means what Python means: L[:] = L, L[a:b] = firstn (b-a) (skipn a L),
   L[:k] = firstn k L, L[::-1] = rev L, L[::0] raises, L[-(k+1)] and L[k] are nth_error of rev L / L *)
Theorem C12_slice_meaning : forall l,
  py_slice l None None None = Some l /\
  (forall a b, 0 <= a <= b ->
     py_slice l (Some a) (Some b) None = Some (firstn (Z.to_nat (b - a)) (skipn (Z.to_nat a) l))) /\
  (forall k, py_slice l None (Some (Z.of_nat k)) None = Some (firstn k l)) /\
  py_slice l None None (Some (-1)) = Some (rev l) /\
  py_slice l None None (Some 0) = None /\
  (forall k, py_index l (- Z.of_nat k - 1) = nth_error (rev l) k) /\
  (forall k, py_index l (Z.of_nat k) = nth_error l k).
Proof. exact slice_meaning. Qed.
Print Assumptions C12_slice_meaning.

(* replace() returns a rule differing only in the named parameters: over C01's constructor model
   rr/RRNorm.normalize, rcache/RReplace.v models the recording of `_original_rule` (which keys are absent,
   recorded as None because the value was derived from dtstart, or recorded as the normalised tuple) and
   replace() = constructor (attributes + recorded dictionary + named parameters).  For ALL argument records
   r and ALL updates u (any subset of freq, dtstart, interval, wkst, count, until, every BY-part set / changed /
   removed) the replaced rule is the constructor applied to the original arguments with the named ones
   changed.  replace_guard excludes exactly the open finding F-C12-replace-nth (weekday occurrence number
   on a rule with freq > MONTHLY, new freq <= MONTHLY, byweekday not named: refuted below) and the bysetpos=()
   corner, which is no finding and is proved below (C12_replace_setpos_empty).  Its third conjunct says that the
   ORIGINAL rule exists: since fix 55654b4 the constructor rejects a bymonthday containing 0, and every argument
   record the constructor accepts satisfies it (C12_constructible_no_zero), so it excludes no replace() call. *)
Theorem C12_replace_only_named : forall r u,
  RReplaceThm.replace_guard r u -> RReplace.replace r u = RReplace.replace_spec r u.
Proof. exact RReplaceThm.replace_only_named. Qed.
Print Assumptions C12_replace_only_named.

(* the bysetpos=() corner excluded by replace_guard: a rule built with bysetpos=() records nothing
   (`if bysetpos:`), so replace() yields EXACTLY the rule built from the original arguments with bysetpos
   omitted and the named ones changed; that rule differs from the one built with bysetpos=() in the single
   attribute `_bysetpos` (None instead of ()), errors included.  rr/RRIter.v reads that attribute only through
   its truthiness, false for both; the replace stream compares the occurrences (base rule with bysetpos=()). *)
Theorem C12_replace_setpos_empty : forall r u,
  RRNorm.r_bysetpos r = Some [] -> RReplace.u_bysetpos u = None ->
  (RReplace.u_byweekday u <> None \/ RReplaceThm.wd_guard r (RReplace.ov (RReplace.u_freq u) (RRNorm.r_freq r))) ->
  (RReplace.u_bymonthday u <> None \/ RReplaceThm.v_zero (RRNorm.r_bymonthday r) = false) ->
  RReplace.replace r u = RReplace.replace_spec (RReplaceThm.clear_setpos r) u /\
  RReplace.apply_upd (RReplaceThm.clear_setpos r) u = RReplaceThm.clear_setpos (RReplace.apply_upd r u).
Proof. exact RReplaceThm.replace_setpos_corner. Qed.
Print Assumptions C12_replace_setpos_empty.

Theorem C12_normalize_setpos_empty : forall x, RRNorm.r_bysetpos x = Some [] ->
  RRNorm.normalize (RReplaceThm.clear_setpos x) =
  match RRNorm.normalize x with
  | RRBase.Ok ru => RRBase.Ok (RReplaceThm.rule_clear_setpos ru)
  | RRBase.Err e => RRBase.Err e
  end.
Proof. exact RReplaceThm.normalize_setpos_empty. Qed.
Print Assumptions C12_normalize_setpos_empty.

Theorem C12_constructible_no_zero : forall r ru,
  RRNorm.normalize r = RRBase.Ok ru -> RReplaceThm.v_zero (RRNorm.r_bymonthday r) = false.
Proof. exact RReplaceThm.constructible_no_zero. Qed.
Print Assumptions C12_constructible_no_zero.

Theorem C12_replace_nth_refuted :
  RReplace.replace (RReplaceThm.mk_raw0 RRBase.WEEKLY None (Some [(0, 1)])) (RReplaceThm.upd_freq RRBase.MONTHLY) <>
  RReplace.replace_spec (RReplaceThm.mk_raw0 RRBase.WEEKLY None (Some [(0, 1)])) (RReplaceThm.upd_freq RRBase.MONTHLY).
Proof. exact RReplaceThm.replace_nth_refuted. Qed.
Print Assumptions C12_replace_nth_refuted.

(* non-vacuity, the class of seeded change C12-2: YEARLY with explicit bymonth, replace(dtstart=15 Sep):
   the guard holds, and the dtstart-derived day of month follows the new dtstart *)
Theorem C12_replace_example :
  RReplaceThm.replace_guard (RReplaceThm.mk_raw0 RRBase.YEARLY (Some [1; 3]) None) (RReplaceThm.upd_dtstart 1997 9 15) /\
  RReplace.replace (RReplaceThm.mk_raw0 RRBase.YEARLY (Some [1; 3]) None) (RReplaceThm.upd_dtstart 1997 9 15) =
  RReplace.replace_spec (RReplaceThm.mk_raw0 RRBase.YEARLY (Some [1; 3]) None) (RReplaceThm.upd_dtstart 1997 9 15) /\
  (exists ru, RReplace.replace (RReplaceThm.mk_raw0 RRBase.YEARLY (Some [1; 3]) None) (RReplaceThm.upd_dtstart 1997 9 15)
              = RRBase.Ok ru /\ RRNorm.bymonthday ru = [15]).
Proof. exact RReplaceThm.replace_guard_example. Qed.
Print Assumptions C12_replace_example.

(* ---- the model is the code: gen/RQueryGen.v is REGENERATED from /repo/src/dateutil/rrule.py (class
   rrulebase) by harness/gen_rcache.py on every run; each generated method equals the hand-written model
   for ALL inputs (so every C12 theorem above is about the function the translator reads from the source) *)
Theorem C12_gen_getitem : forall complete l it, gen_getitem complete l it = getitem complete l it.
Proof. exact gen_getitem_eq. Qed.
Print Assumptions C12_gen_getitem.

Theorem C12_gen_contains : forall complete l x, gen_contains complete l x = QBool (contains complete l x).
Proof. exact gen_contains_eq. Qed.
Print Assumptions C12_gen_contains.

(* hypothesis discharged for every history by C12_gen_count_after_any_history *)
Theorem C12_gen_count : forall len l, len = None \/ len = Some (zlen l) -> gen_count len l = QVal (count l).
Proof. exact gen_count_eq. Qed.
Print Assumptions C12_gen_count.

Theorem C12_gen_before : forall complete l dt inc, gen_before complete l dt inc = before complete l dt inc.
Proof. exact gen_before_eq. Qed.
Print Assumptions C12_gen_before.

Theorem C12_gen_after : forall complete l dt inc, gen_after complete l dt inc = after complete l dt inc.
Proof. exact gen_after_eq. Qed.
Print Assumptions C12_gen_after.

Theorem C12_gen_xafter : forall complete l dt cnt inc, gen_xafter complete l dt cnt inc = xafter complete l dt cnt inc.
Proof. exact gen_xafter_eq. Qed.
Print Assumptions C12_gen_xafter.

Theorem C12_gen_between : forall complete l a b inc, gen_between complete l a b inc = between complete l a b inc.
Proof. exact gen_between_eq. Qed.
Print Assumptions C12_gen_between.

(* ---- replace() and the constructor it re-runs are the code: gen/RRInitGen.v is REGENERATED from /repo's
   AST by harness/gen_rr_init.py on every run (rrule.__init__ executed symbolically statement by statement,
   incl. every `self._original_rule[...] = ...`; replace accepted only as attributes + .update(_original_rule)
   + .update(kwargs) + rrule(..)).  The generated constructor leaves exactly the rule of RRNorm.normalize and
   the dictionary of RReplace.record, for ALL argument records (RRInitBase.args, erase) -- so
   C12_replace_only_named is about the recording the translator reads from the source *)
Theorem C12_gen_replace_record : forall a ru o,
  RRInitGen.gen_init a = RRBase.Ok (ru, o) ->
  RRNorm.normalize (RRInitBase.erase a) = RRBase.Ok ru /\ o = RReplace.record (RRInitBase.erase a).
Proof. exact RRInitGenThm.gen_init_normalize. Qed.
Print Assumptions C12_gen_replace_record.

Theorem C12_gen_replace_raw : forall r u, RRInitGen.gen_replace_raw r u = RReplace.replace_raw r u.
Proof. exact RRInitGenThm.gen_replace_raw_is_model. Qed.
Print Assumptions C12_gen_replace_raw.

Theorem C12_gen_replace_only_named : forall a u,
  RReplaceThm.replace_guard (RRInitBase.erase a) u ->
  RRNorm.normalize (RRInitGen.gen_replace_raw (RRInitBase.erase a) u) =
  RRNorm.normalize (RReplace.apply_upd (RRInitBase.erase a) u).
Proof. exact RRInitGenThm.gen_replace_only_named. Qed.
Print Assumptions C12_gen_replace_only_named.

(* the hypothesis `incr l` is satisfiable and decidable, and it is needed: *)
Theorem C12_incr_nonvacuous : incr [1; 3; 7] /\ (forall l, incrb l = true -> incr l).
Proof. exact (conj incr_ex incrb_sound). Qed.
Print Assumptions C12_incr_nonvacuous.

Theorem C12_contains_needs_incr_refuted : exists l x, contains false l x <> spec_contains l x.
Proof. exact contains_needs_incr_refuted. Qed.
Print Assumptions C12_contains_needs_incr_refuted.
