(* C20 -- isoparse never misreads: accepted text is an ISO-8601 spelling of the result; every
   other input is rejected with ValueError.
   Statements only; proofs are in iso/IsoThm*.v over the hand-written model iso/IsoModel.v
   (regenerated from /repo/src/dateutil/parser/isoparser.py, see the last section; tied to the running
   code by harness/check_C20.py).  [lift None = Err ValueError], [lift (Some v) = Ok v].

   THE GRAMMAR THE THEOREMS ARE ABOUT.  Two recognisers appear:
   * [iso_text] / [time_text] (iso/IsoText.v) is the grammar of the property TEXT, written from it;
   * [iso_denotes] / [date_denotes] / [time_denotes] / [tzstr_denotes] (iso/IsoSpec.v) is the language of the
     IMPLEMENTATION, proved equal to the model for all strings (C20_isoparse_equiv ...).  It is [iso_text] with
     exactly two changes (C20_impl_language_is_recogniser), each an OPEN finding of known_findings.json:
       F-C20-2400-subus         '...T24:00:00.0000009' is read as next-day midnight: the end-of-day check looks at
                                the fraction truncated to microseconds.  An instant after 24:00 is not "within
                                clock range": a misreading.  Guard [finding_2400_subus] / [subus24], witness
                                C20_isoparse_text_sound_refuted_2400_subus.
       F-C07-ordinal-digit-sep  'YYYYDDD' + a DIGIT as separator + time ('2014123412') is rejected although it has
                                exactly one well-formed reading.  Rejecting is no misreading (C20's soundness
                                needs no guard for it: C20_isoparse_text_sound_guarded); it is a finding of C07.
   Choices of the text grammar that follow the property text and the parser's documentation, decided here:
   * "separators used consistently" is per component: the date, the time and the offset are each entirely basic
     or entirely extended, but may be combined freely ('20140101T12:30', '2014-01-01T1230+05:30'); C07 quantifies
     over date form x time form x offset form as independent dimensions, so these are renderings it demands;
   * the UTC designator is 'Z' or 'z' (the parser implements both; C07: "documents or implements");
   * '-00:00' / '-00' / '-0000' are offset zero, hence UTC (C07: "offset zero represented as UTC");
   * with no configured separator ANY single ASCII byte separates date and time (C07: "any single separator
     character"), including '+', '-', 'Z', ':', NUL, LF and digits: '2014-01-01-12-05' is 2014-01-01, separator
     '-', 12 h, offset -05:00.  That is the value this representation denotes under "any single character";
     pass sep='T' for strict ISO-8601 (then every other separator is rejected: C20_wrong_separator_rejected);
   * a configured separator is a one-character TEXT string; isoparser(sep=b'T') raises TypeError in Python 3
     (`sep in '0123456789'`) before any input is seen: a wrongly typed constructor argument is outside the
     property (its quantifier ranges over input strings x configured separator characters). *)
From Coq Require Import ZArith List Bool.
From V Require Import base.Cal iso.IsoBase iso.IsoModel iso.IsoSpec iso.IsoThm iso.IsoThmTz iso.IsoThmTime
                      iso.IsoThmMain iso.IsoThmRender iso.IsoThmConverse iso.IsoText iso.IsoTextThm.
Import ListNotations.
Open Scope Z_scope.

(* soundness: whatever isoparse returns is what the recogniser reads from the string
   (all strings, all configured separators) *)
Theorem C20_isoparse_sound : forall sep s v,
  isoparse sep s = Ok v -> iso_denotes sep s = Some v.
Proof. exact isoparse_sound. Qed.
Print Assumptions C20_isoparse_sound.

(* completeness: every string the recogniser reads is accepted with that value *)
Theorem C20_isoparse_complete : forall sep s v,
  iso_denotes sep s = Some v -> isoparse sep s = Ok v.
Proof. exact isoparse_complete. Qed.
Print Assumptions C20_isoparse_complete.

(* both at once, including the error side: model = recogniser as functions *)
Theorem C20_isoparse_equiv : forall sep s, isoparse sep s = lift (iso_denotes sep s).
Proof. exact isoparse_equiv. Qed.
Print Assumptions C20_isoparse_equiv.

(* no exception class other than ValueError (in particular no OverflowError, and the loop of
   _parse_isotime never runs out of fuel), also through the constructor isoparser(sep) *)
Theorem C20_isoparse_only_valueerror : forall sep s e, isoparse sep s = Err e -> e = ValueError.
Proof. exact isoparse_only_valueerror. Qed.
Print Assumptions C20_isoparse_only_valueerror.

Theorem C20_isoparser_only_valueerror : forall sep s e,
  isoparser_isoparse sep s = Err e -> e = ValueError.
Proof. exact isoparser_init_only_valueerror. Qed.
Print Assumptions C20_isoparser_only_valueerror.

(* the three auxiliary entry points: same equivalence, same single exception class *)
Theorem C20_parse_isodate_equiv : forall s, parse_isodate s = lift (date_denotes s).
Proof. exact parse_isodate_equiv. Qed.
Print Assumptions C20_parse_isodate_equiv.

Theorem C20_parse_isotime_equiv : forall s, parse_isotime s = lift (time_denotes s).
Proof. exact parse_isotime_equiv. Qed.
Print Assumptions C20_parse_isotime_equiv.

Theorem C20_parse_tzstr_equiv : forall s z, parse_tzstr s z = lift (tzstr_denotes z s).
Proof. exact parse_tzstr_equiv. Qed.
Print Assumptions C20_parse_tzstr_equiv.

Theorem C20_aux_only_valueerror : forall s z e,
  (parse_isodate s = Err e -> e = ValueError) /\ (parse_isotime s = Err e -> e = ValueError) /\
  (parse_tzstr s z = Err e -> e = ValueError).
Proof. exact aux_only_valueerror. Qed.
Print Assumptions C20_aux_only_valueerror.

(* non-ASCII text (any code point / byte >= 128 anywhere) is rejected with ValueError by all
   four entry points, and denotes nothing *)
Theorem C20_non_ascii_rejected : forall sep s,
  (exists c, In c s /\ 128 <= c) ->
  isoparse sep s = Err ValueError /\ parse_isodate s = Err ValueError /\
  parse_isotime s = Err ValueError /\ (forall z, parse_tzstr s z = Err ValueError) /\
  iso_denotes sep s = None.
Proof. exact non_ascii_rejected_lemma. Qed.
Print Assumptions C20_non_ascii_rejected.

(* "accepted text is an ISO-8601 spelling of the result": whatever isoparse accepts IS the rendering,
   in one of the supported forms (render_iso of IsoSpec.v Part B: fixed-width digit fields, consistent
   separators, a single separator byte equal to the configured one, supported offset form), of a valid
   date and time, and the value returned is the value that rendering denotes -- the datetime itself, or
   for the hour-24 spelling midnight of the following day.  (Fraction digits beyond microseconds are
   free: '24:00:00.0000009' is read as 24:00 -- the open finding F-C20-2400-subus.) *)
Theorem C20_accepted_is_rendering : forall sep s v, isoparse sep s = Ok v ->
  exists f o y m d h mi sec us,
    wf_fmt f sep o = true /\ valid_ymd y m d = true /\
    s = render_iso f (y, m, d, h, mi, sec, us) o /\
    ((valid_hmsu h mi sec us = true /\ v = expected f (y, m, d, h, mi, sec, us) o) \/
     (h = 24 /\ mi = 0 /\ sec = 0 /\ us = 0 /\ f_time f <> None /\ expected_2400 (y, m, d) o = Some v)).
Proof. exact isoparse_accepts_only_renderings. Qed.
Print Assumptions C20_accepted_is_rendering.

Theorem C20_aux_accepted_is_rendering :
  (forall s y m d, parse_isodate s = Ok (y, m, d) ->
     exists f, valid_ymd y m d = true /\ s = render_date f y m d /\ trunc_date f y m d = (y, m, d)) /\
  (forall s v, parse_isotime s = Ok v ->
     exists ts o h mi sec us,
       wf_tspec ts = true /\ wf_off o = true /\ s = render_time ts h mi sec us ++ render_off o /\
       trunc_time ts h mi sec us = (h, mi, sec, us) /\ clock_ok h mi sec us = true /\
       v = (if h =? 24 then 0 else h, mi, sec, us, tz_of o)) /\
  (forall s tz, parse_tzstr s true = Ok tz ->
     exists o, o <> ONone /\ wf_off o = true /\ s = render_off o /\ tz = tz_of o).
Proof.
  exact (conj parse_isodate_accepts_only_renderings
        (conj parse_isotime_accepts_only_renderings parse_tzstr_accepts_only_renderings)).
Qed.
Print Assumptions C20_aux_accepted_is_rendering.

(* a separator other than the configured one is rejected, whatever follows *)
Theorem C20_wrong_separator_rejected : forall x f y m d c t,
  valid_ymd y m d = true -> complete f = true -> (f = FOrdB -> is_digit c = false) -> c <> x ->
  isoparse (Some x) (render_date f y m d ++ c :: t) = Err ValueError.
Proof. exact wrong_separator_rejected. Qed.
Print Assumptions C20_wrong_separator_rejected.

(* ------------------------------------------------------------------------------------------------
   The same statements against the grammar of the property TEXT (iso/IsoText.v); guards = the open findings. *)

(* the implementation's language is the text grammar with the two listed variants switched on *)
Theorem C20_impl_language_is_recogniser : forall sep s,
  iso_text_v impl_language sep s = iso_denotes sep s.
Proof. exact impl_language_is_iso_denotes. Qed.
Print Assumptions C20_impl_language_is_recogniser.

(* never misreads, guard = complement of F-C20-2400-subus only *)
Theorem C20_isoparse_text_sound_guarded : forall sep s v,
  finding_2400_subus s = false -> isoparse sep s = Ok v -> iso_text sep s = Some v.
Proof. exact isoparse_text_sound_guarded. Qed.
Print Assumptions C20_isoparse_text_sound_guarded.

(* model = text grammar as functions (acceptance, value, ValueError) outside both findings *)
Theorem C20_isoparse_text_equiv_guarded : forall sep s,
  finding_ordinal_digit sep s = false -> finding_2400_subus s = false ->
  isoparse sep s = lift (iso_text sep s).
Proof. exact isoparse_text_equiv_guarded. Qed.
Print Assumptions C20_isoparse_text_equiv_guarded.

Theorem C20_parse_isotime_text_equiv_guarded : forall s,
  subus24 s = false -> parse_isotime s = lift (time_text s).
Proof. exact parse_isotime_text_equiv_guarded. Qed.
Print Assumptions C20_parse_isotime_text_equiv_guarded.

(* inside the guard the unguarded statement is false: '2014-01-01T24:00:00.0000009', '24:00:00.0000009' *)
Theorem C20_isoparse_text_sound_refuted_2400_subus :
  finding_2400_subus w_subus = true /\
  isoparse None w_subus = Ok (2014, 1, 2, 0, 0, 0, 0, TzNone) /\ iso_text None w_subus = None /\
  subus24 w_subus_time = true /\
  parse_isotime w_subus_time = Ok (0, 0, 0, 0, TzNone) /\ time_text w_subus_time = None.
Proof. exact isoparse_text_sound_refuted_2400_subus. Qed.
Print Assumptions C20_isoparse_text_sound_refuted_2400_subus.

(* non-vacuity: concrete strings on both sides of each statement *)
Example C20_ex_accept :
  isoparse None (map Z.of_nat [50;48;49;52;45;87;48;49;45;49;84;49;50;58;51;48;43;48;53;58;51;48])%nat
  = Ok (2013, 12, 30, 12, 30, 0, 0, TzOff 19800).          (* '2014-W01-1T12:30+05:30' *)
Proof. vm_compute. reflexivity. Qed.
Example C20_ex_reject_underscore :
  isoparse None (map Z.of_nat [50;95;49;52])%nat = Err ValueError          (* '2_14' *)
  /\ iso_denotes None (map Z.of_nat [50;95;49;52])%nat = None.
Proof. vm_compute. split; reflexivity. Qed.
Example C20_ex_reject_wrong_sep :                                       (* '2014-01-01 12' with sep='T' *)
  isoparse (Some 84) (map Z.of_nat [50;48;49;52;45;48;49;45;48;49;32;49;50])%nat = Err ValueError
  /\ isoparse (Some 32) (map Z.of_nat [50;48;49;52;45;48;49;45;48;49;32;49;50])%nat
     = Ok (2014, 1, 1, 12, 0, 0, 0, TzNone).
Proof. vm_compute. split; reflexivity. Qed.
Example C20_ex_non_ascii : exists c, In c [50;48;49;52;233] /\ 128 <= c.
Proof. exists 233. split; [cbn; tauto | discriminate]. Qed.
Example C20_ex_garbage :                       (* '2014-01-01T12:30Zx' and ' 2014-01-01' *)
  isoparse None (map Z.of_nat [50;48;49;52;45;48;49;45;48;49;84;49;50;58;51;48;90;120])%nat = Err ValueError /\
  isoparse None (map Z.of_nat [32;50;48;49;52;45;48;49;45;48;49])%nat = Err ValueError.
Proof. exact trailing_garbage_rejected. Qed.
Example C20_ex_wrong_sep_hyps :
  valid_ymd 2014 1 1 = true /\ complete FCalX = true /\ 32 <> 84.
Proof. repeat split; discriminate. Qed.

(* ------------------------------------------------------------------------------------------------
   Model <-> source.  coq/gen/IsoGen.v is regenerated from /repo/src/dateutil/parser/isoparser.py by
   harness/gen_iso.py on every run (fail-closed Python-ast translator); the translated functions are
   the hand model, for all inputs, so every theorem above is a theorem about the translated source. *)
From V Require Import iso.IsoGenLib gen.IsoGen iso.IsoGenThm iso.IsoGenCor.

Theorem C20_gen_parse_digits : forall field width, 0 <= width ->
  gen__parse_digits field width = parse_digits field (Z.to_nat width).
Proof. exact gen_parse_digits_eq. Qed.
Print Assumptions C20_gen_parse_digits.

Theorem C20_gen_parse_tzstr_raw : forall t z, gen__parse_tzstr t z = parse_tzstr_raw t z.
Proof. exact gen_parse_tzstr_raw_eq. Qed.
Print Assumptions C20_gen_parse_tzstr_raw.

Theorem C20_gen_calculate_weekdate : forall y w d, gen__calculate_weekdate y w d = calculate_weekdate y w d.
Proof. exact gen_calculate_weekdate_eq. Qed.
Print Assumptions C20_gen_calculate_weekdate.

Theorem C20_gen_parse_isodate_common : forall s, gen__parse_isodate_common s = pmap (parse_isodate_common s).
Proof. exact gen_parse_isodate_common_eq. Qed.
Print Assumptions C20_gen_parse_isodate_common.

Theorem C20_gen_parse_isodate_uncommon : forall s, gen__parse_isodate_uncommon s = pmap (parse_isodate_uncommon s).
Proof. exact gen_parse_isodate_uncommon_eq. Qed.
Print Assumptions C20_gen_parse_isodate_uncommon.

Theorem C20_gen_parse_isodate_raw : forall s, gen__parse_isodate s = pmap (parse_isodate_raw s).
Proof. exact gen_parse_isodate_raw_eq. Qed.
Print Assumptions C20_gen_parse_isodate_raw.

(* the while loop of _parse_isotime, as recursion on fuel, for any starting state with comp >= -1 *)
Theorem C20_gen_parse_isotime_loop : forall fuel t pos comp hs h m s us tz, -1 <= comp ->
  gproj (gen__parse_isotime_loop fuel t (zlen t) h m s us tz (Z.of_nat pos) comp hs) =
  zmap t (time_loop fuel t pos comp hs (h, m, s) us tz).
Proof. exact gen_loop_eq. Qed.
Print Assumptions C20_gen_parse_isotime_loop.

Theorem C20_gen_parse_isotime_raw : forall t, gen__parse_isotime t = parse_isotime_raw t.
Proof. exact gen_parse_isotime_raw_eq. Qed.
Print Assumptions C20_gen_parse_isotime_raw.

(* the decorator _takes_ascii, translated as well: [pyin] = a str, a bytes object, or a stream whose read()
   returns either; [codes i] = its characters / bytes.  The entry points see only [codes i]. *)
Theorem C20_gen_takes_ascii : forall (A : Type) (i : pyin) (f : list Z -> res A),
  gen_takes_ascii i f = takes_ascii (codes i) f.
Proof. exact (fun A => @gen_takes_ascii_eq A). Qed.
Print Assumptions C20_gen_takes_ascii.

Theorem C20_gen_isoparse : forall sep i, gen_isoparse (sep_bytes sep) i = isoparse sep (codes i).
Proof. exact gen_isoparse_eq. Qed.
Print Assumptions C20_gen_isoparse.

Theorem C20_gen_entry_points : forall i z,
  gen_parse_isodate i = parse_isodate (codes i) /\ gen_parse_isotime i = parse_isotime (codes i) /\
  gen_parse_tzstr i z = parse_tzstr (codes i) z.
Proof. exact (fun i z => conj (gen_parse_isodate_eq i) (conj (gen_parse_isotime_eq i) (gen_parse_tzstr_eq i z))). Qed.
Print Assumptions C20_gen_entry_points.

(* hence, for the translated source itself and every kind of input: accepted text = recognised text,
   ValueError otherwise *)
Theorem C20_gen_isoparse_equiv : forall sep i,
  gen_isoparse (sep_bytes sep) i = lift (iso_denotes sep (codes i)).
Proof. exact gen_isoparse_equiv. Qed.
Print Assumptions C20_gen_isoparse_equiv.

Theorem C20_gen_aux_equiv : forall i z,
  gen_parse_isodate i = lift (date_denotes (codes i)) /\ gen_parse_isotime i = lift (time_denotes (codes i)) /\
  gen_parse_tzstr i z = lift (tzstr_denotes z (codes i)).
Proof. exact gen_aux_equiv. Qed.
Print Assumptions C20_gen_aux_equiv.
