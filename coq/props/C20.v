(* C20 -- isoparse never misreads.
   Statements only; proofs are in iso/IsoThm*.v over the hand-written model iso/IsoModel.v
   (tied to /repo/src/dateutil/parser/isoparser.py by harness/check_C20.py). *)
From Coq Require Import ZArith List Bool.
From V Require Import base.Cal iso.IsoBase iso.IsoModel iso.IsoSpec iso.IsoThm iso.IsoThmTz iso.IsoThmTime.
Import ListNotations.
Open Scope Z_scope.

(* non-ASCII text (any code point / byte >= 128 anywhere) is rejected with ValueError by all
   four entry points, and denotes nothing *)
Theorem C20_non_ascii_rejected : forall sep s,
  (exists c, In c s /\ 128 <= c) ->
  isoparse sep s = Err ValueError /\ parse_isodate s = Err ValueError /\
  parse_isotime s = Err ValueError /\ (forall z, parse_tzstr s z = Err ValueError) /\
  iso_denotes sep s = None.
Proof. exact non_ascii_rejected_lemma. Qed.
Print Assumptions C20_non_ascii_rejected.

(* time-only and offset-only entry points: the model returns exactly what the recogniser reads
   (soundness AND completeness), and ValueError for everything else *)
Theorem C20_parse_isotime_equiv : forall s, parse_isotime s = lift (time_denotes s).
Proof. exact parse_isotime_equiv. Qed.
Print Assumptions C20_parse_isotime_equiv.

Theorem C20_parse_tzstr_equiv : forall s z, parse_tzstr s z = lift (tzstr_denotes z s).
Proof. exact parse_tzstr_equiv. Qed.
Print Assumptions C20_parse_tzstr_equiv.
