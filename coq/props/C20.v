(* C20 -- isoparse never misreads: accepted text is an ISO-8601 spelling of the result; every
   other input is rejected with ValueError.
   Statements only; proofs are in iso/IsoThm*.v over the hand-written model iso/IsoModel.v
   (tied to /repo/src/dateutil/parser/isoparser.py by harness/check_C20.py).
   [iso_denotes] / [date_denotes] / [time_denotes] / [tzstr_denotes] are the grammar-style
   recognisers of iso/IsoSpec.v; [lift None = Err ValueError], [lift (Some v) = Ok v]. *)
From Coq Require Import ZArith List Bool.
From V Require Import base.Cal iso.IsoBase iso.IsoModel iso.IsoSpec iso.IsoThm iso.IsoThmTz iso.IsoThmTime
                      iso.IsoThmMain iso.IsoThmRender iso.IsoThmConverse.
Import ListNotations.
Open Scope Z_scope.

(* soundness: whatever isoparse returns is what the recogniser reads from the string
   (all strings, all configured separators) *)
Theorem C20_isoparse_sound : forall sep s v,
  isoparse sep s = Ok v -> iso_denotes sep s = Some v.
Proof. exact isoparse_sound. Qed.
Print Assumptions C20_isoparse_sound.

(* completeness: every string the recogniser reads is accepted with that value *)
Theorem C20_isoparse_complete : forall sep s v,
  iso_denotes sep s = Some v -> isoparse sep s = Ok v.
Proof. exact isoparse_complete. Qed.
Print Assumptions C20_isoparse_complete.

(* both at once, including the error side: model = recogniser as functions *)
Theorem C20_isoparse_equiv : forall sep s, isoparse sep s = lift (iso_denotes sep s).
Proof. exact isoparse_equiv. Qed.
Print Assumptions C20_isoparse_equiv.

(* no exception class other than ValueError (in particular no OverflowError, and the loop of
   _parse_isotime never runs out of fuel), also through the constructor isoparser(sep) *)
Theorem C20_isoparse_only_valueerror : forall sep s e, isoparse sep s = Err e -> e = ValueError.
Proof. exact isoparse_only_valueerror. Qed.
Print Assumptions C20_isoparse_only_valueerror.

Theorem C20_isoparser_only_valueerror : forall sep s e,
  isoparser_isoparse sep s = Err e -> e = ValueError.
Proof. exact isoparser_init_only_valueerror. Qed.
Print Assumptions C20_isoparser_only_valueerror.

(* the three auxiliary entry points: same equivalence, same single exception class *)
Theorem C20_parse_isodate_equiv : forall s, parse_isodate s = lift (date_denotes s).
Proof. exact parse_isodate_equiv. Qed.
Print Assumptions C20_parse_isodate_equiv.

Theorem C20_parse_isotime_equiv : forall s, parse_isotime s = lift (time_denotes s).
Proof. exact parse_isotime_equiv. Qed.
Print Assumptions C20_parse_isotime_equiv.

Theorem C20_parse_tzstr_equiv : forall s z, parse_tzstr s z = lift (tzstr_denotes z s).
Proof. exact parse_tzstr_equiv. Qed.
Print Assumptions C20_parse_tzstr_equiv.

Theorem C20_aux_only_valueerror : forall s z e,
  (parse_isodate s = Err e -> e = ValueError) /\ (parse_isotime s = Err e -> e = ValueError) /\
  (parse_tzstr s z = Err e -> e = ValueError).
Proof. exact aux_only_valueerror. Qed.
Print Assumptions C20_aux_only_valueerror.

(* non-ASCII text (any code point / byte >= 128 anywhere) is rejected with ValueError by all
   four entry points, and denotes nothing *)
Theorem C20_non_ascii_rejected : forall sep s,
  (exists c, In c s /\ 128 <= c) ->
  isoparse sep s = Err ValueError /\ parse_isodate s = Err ValueError /\
  parse_isotime s = Err ValueError /\ (forall z, parse_tzstr s z = Err ValueError) /\
  iso_denotes sep s = None.
Proof. exact non_ascii_rejected_lemma. Qed.
Print Assumptions C20_non_ascii_rejected.

(* "accepted text is an ISO-8601 spelling of the result": whatever isoparse accepts IS the rendering,
   in one of the supported forms (render_iso of IsoSpec.v Part B: fixed-width digit fields, consistent
   separators, a single separator byte equal to the configured one, supported offset form), of a valid
   date and time, and the value returned is the value that rendering denotes -- the datetime itself, or
   for the hour-24 spelling midnight of the following day.  (Fraction digits beyond microseconds are
   free: '24:00:00.0000009' is read as 24:00.) *)
Theorem C20_accepted_is_rendering : forall sep s v, isoparse sep s = Ok v ->
  exists f o y m d h mi sec us,
    wf_fmt f sep o = true /\ valid_ymd y m d = true /\
    s = render_iso f (y, m, d, h, mi, sec, us) o /\
    ((valid_hmsu h mi sec us = true /\ v = expected f (y, m, d, h, mi, sec, us) o) \/
     (h = 24 /\ mi = 0 /\ sec = 0 /\ us = 0 /\ f_time f <> None /\ expected_2400 (y, m, d) o = Some v)).
Proof. exact isoparse_accepts_only_renderings. Qed.
Print Assumptions C20_accepted_is_rendering.

Theorem C20_aux_accepted_is_rendering :
  (forall s y m d, parse_isodate s = Ok (y, m, d) ->
     exists f, valid_ymd y m d = true /\ s = render_date f y m d /\ trunc_date f y m d = (y, m, d)) /\
  (forall s v, parse_isotime s = Ok v ->
     exists ts o h mi sec us,
       wf_tspec ts = true /\ wf_off o = true /\ s = render_time ts h mi sec us ++ render_off o /\
       trunc_time ts h mi sec us = (h, mi, sec, us) /\ clock_ok h mi sec us = true /\
       v = (if h =? 24 then 0 else h, mi, sec, us, tz_of o)) /\
  (forall s tz, parse_tzstr s true = Ok tz ->
     exists o, o <> ONone /\ wf_off o = true /\ s = render_off o /\ tz = tz_of o).
Proof.
  exact (conj parse_isodate_accepts_only_renderings
        (conj parse_isotime_accepts_only_renderings parse_tzstr_accepts_only_renderings)).
Qed.
Print Assumptions C20_aux_accepted_is_rendering.

(* a separator other than the configured one is rejected, whatever follows *)
Theorem C20_wrong_separator_rejected : forall x f y m d c t,
  valid_ymd y m d = true -> complete f = true -> (f = FOrdB -> is_digit c = false) -> c <> x ->
  isoparse (Some x) (render_date f y m d ++ c :: t) = Err ValueError.
Proof. exact wrong_separator_rejected. Qed.
Print Assumptions C20_wrong_separator_rejected.

(* non-vacuity: concrete strings on both sides of each statement *)
Example C20_ex_accept :
  isoparse None (map Z.of_nat [50;48;49;52;45;87;48;49;45;49;84;49;50;58;51;48;43;48;53;58;51;48])%nat
  = Ok (2013, 12, 30, 12, 30, 0, 0, TzOff 19800).          (* '2014-W01-1T12:30+05:30' *)
Proof. vm_compute. reflexivity. Qed.
Example C20_ex_reject_underscore :
  isoparse None (map Z.of_nat [50;95;49;52])%nat = Err ValueError          (* '2_14' *)
  /\ iso_denotes None (map Z.of_nat [50;95;49;52])%nat = None.
Proof. vm_compute. split; reflexivity. Qed.
Example C20_ex_reject_wrong_sep :                                       (* '2014-01-01 12' with sep='T' *)
  isoparse (Some 84) (map Z.of_nat [50;48;49;52;45;48;49;45;48;49;32;49;50])%nat = Err ValueError
  /\ isoparse (Some 32) (map Z.of_nat [50;48;49;52;45;48;49;45;48;49;32;49;50])%nat
     = Ok (2014, 1, 1, 12, 0, 0, 0, TzNone).
Proof. vm_compute. split; reflexivity. Qed.
Example C20_ex_non_ascii : exists c, In c [50;48;49;52;233] /\ 128 <= c.
Proof. exists 233. split; [cbn; tauto | discriminate]. Qed.
Example C20_ex_garbage :                       (* '2014-01-01T12:30Zx' and ' 2014-01-01' *)
  isoparse None (map Z.of_nat [50;48;49;52;45;48;49;45;48;49;84;49;50;58;51;48;90;120])%nat = Err ValueError /\
  isoparse None (map Z.of_nat [32;50;48;49;52;45;48;49;45;48;49])%nat = Err ValueError.
Proof. exact trailing_garbage_rejected. Qed.
Example C20_ex_wrong_sep_hyps :
  valid_ymd 2014 1 1 = true /\ complete FCalX = true /\ 32 <> 84.
Proof. repeat split; discriminate. Qed.

(* ------------------------------------------------------------------------------------------------
   Model <-> source.  coq/gen/IsoGen.v is regenerated from /repo/src/dateutil/parser/isoparser.py by
   harness/gen_iso.py on every run (fail-closed Python-ast translator); the translated functions are
   the hand model, for all inputs, so every theorem above is a theorem about the translated source. *)
From V Require Import iso.IsoGenLib gen.IsoGen iso.IsoGenThm iso.IsoGenCor.

Theorem C20_gen_parse_digits : forall field width, 0 <= width ->
  gen__parse_digits field width = parse_digits field (Z.to_nat width).
Proof. exact gen_parse_digits_eq. Qed.
Print Assumptions C20_gen_parse_digits.

Theorem C20_gen_parse_tzstr_raw : forall t z, gen__parse_tzstr t z = parse_tzstr_raw t z.
Proof. exact gen_parse_tzstr_raw_eq. Qed.
Print Assumptions C20_gen_parse_tzstr_raw.

Theorem C20_gen_calculate_weekdate : forall y w d, gen__calculate_weekdate y w d = calculate_weekdate y w d.
Proof. exact gen_calculate_weekdate_eq. Qed.
Print Assumptions C20_gen_calculate_weekdate.

Theorem C20_gen_parse_isodate_common : forall s, gen__parse_isodate_common s = pmap (parse_isodate_common s).
Proof. exact gen_parse_isodate_common_eq. Qed.
Print Assumptions C20_gen_parse_isodate_common.

Theorem C20_gen_parse_isodate_uncommon : forall s, gen__parse_isodate_uncommon s = pmap (parse_isodate_uncommon s).
Proof. exact gen_parse_isodate_uncommon_eq. Qed.
Print Assumptions C20_gen_parse_isodate_uncommon.

Theorem C20_gen_parse_isodate_raw : forall s, gen__parse_isodate s = pmap (parse_isodate_raw s).
Proof. exact gen_parse_isodate_raw_eq. Qed.
Print Assumptions C20_gen_parse_isodate_raw.

(* the while loop of _parse_isotime, as recursion on fuel, for any starting state with comp >= -1 *)
Theorem C20_gen_parse_isotime_loop : forall fuel t pos comp hs h m s us tz, -1 <= comp ->
  gproj (gen__parse_isotime_loop fuel t (zlen t) h m s us tz (Z.of_nat pos) comp hs) =
  zmap t (time_loop fuel t pos comp hs (h, m, s) us tz).
Proof. exact gen_loop_eq. Qed.
Print Assumptions C20_gen_parse_isotime_loop.

Theorem C20_gen_parse_isotime_raw : forall t, gen__parse_isotime t = parse_isotime_raw t.
Proof. exact gen_parse_isotime_raw_eq. Qed.
Print Assumptions C20_gen_parse_isotime_raw.

Theorem C20_gen_isoparse : forall sep s, gen_isoparse (sep_bytes sep) s = isoparse sep s.
Proof. exact gen_isoparse_eq. Qed.
Print Assumptions C20_gen_isoparse.

Theorem C20_gen_entry_points : forall s z,
  gen_parse_isodate s = parse_isodate s /\ gen_parse_isotime s = parse_isotime s /\
  gen_parse_tzstr s z = parse_tzstr s z.
Proof. exact (fun s z => conj (gen_parse_isodate_eq s) (conj (gen_parse_isotime_eq s) (gen_parse_tzstr_eq s z))). Qed.
Print Assumptions C20_gen_entry_points.

(* hence, for the translated source itself: accepted text = recognised text, ValueError otherwise *)
Theorem C20_gen_isoparse_equiv : forall sep s, gen_isoparse (sep_bytes sep) s = lift (iso_denotes sep s).
Proof. exact gen_isoparse_equiv. Qed.
Print Assumptions C20_gen_isoparse_equiv.

Theorem C20_gen_aux_equiv : forall s z,
  gen_parse_isodate s = lift (date_denotes s) /\ gen_parse_isotime s = lift (time_denotes s) /\
  gen_parse_tzstr s z = lift (tzstr_denotes z s).
Proof. exact gen_aux_equiv. Qed.
Print Assumptions C20_gen_aux_equiv.
