(* C17 -- iCalendar VTIMEZONE zones agree with the same rules given as a TZ string.
   Statements only; proofs are in posix/IcalThm.v, posix/IcalEquiv.v, posix/IcalParseThm.v over
   the hand model posix/IcalModel.v (_tzicalvtz._find_comp / _find_compdt / utcoffset / dst /
   tzname with the lookup cache, tzical._parse_rfc / _parse_offset / get) and the tzrange / tzstr
   model and POSIX specification of C08. *)
From Coq Require Import String Ascii.
From Coq Require Import ZArith List Bool.
From V Require Import base.Cal posix.PTime posix.RDelta posix.TzParseModel posix.TzRangeModel
     posix.PosixSpec posix.TransThm posix.MainThm posix.PosixThm posix.IcalModel posix.IcalThm
     posix.IcalEquiv posix.IcalParseThm posix.WallThm posix.IcalWall posix.IcalUtc posix.IcalConcModel posix.IcalConcThm posix.IcalRoundThm.
Import ListNotations.
Open Scope Z_scope.

(* SCOPE of the equivalence theorems: the zone has ONE rule, hence a CONSTANT standard offset
   (comp_daylight: from p_off to d_off, comp_standard: from d_off to p_off, in every year).  A zone
   whose STANDARD offset changes between eras is outside these theorems: the generic
   _tzinfo._fromutc assumes utcoffset() - dst() constant and converts wrongly next to such a change
   (open finding F-C04-tzical-std-change of the tzfile area).

   MAIN.  comp_daylight r ds y0 n / comp_standard r ds y0 n (IcalEquiv.v) are the DAYLIGHT and
   STANDARD components whose onsets are the rule's start events (local standard time) and end
   events (local daylight time) of the years y0 .. y0+n-1 -- ANY first year, ANY number of years.
   For every wall reading w of a year after y0 inside that horizon and either fold, the VTIMEZONE
   zone reports the offset, dst and abbreviation the tzstr zone of the same rule reports (gaps and
   folds included), in either component order.  guard = wf_posix && guard_apart && guard_d8 is
   C08's guard (tzstr itself is wrong outside guard_d8, finding F-C08-1). *)
Theorem C17_ical_equiv_tzstr : forall r ds po y0 n w f cs,
  r.(p_dst) = Some ds -> guard r = true -> (po = true \/ not_gmt_utc r.(p_name) = true) ->
  cs = [comp_daylight r ds y0 n; comp_standard r ds y0 n] \/
  cs = [comp_standard r ds y0 n; comp_daylight r ds y0 n] ->
  y0 < year_of_secs w < y0 + Z.of_nat n ->
  exists z, tzstr_of_res (Ok (Some (ast_of_posix r))) po = Ok z /\
            ic_observe_wall cs w f = observe_wall z w f.
Proof. exact ical_equiv_tzstr_lemma. Qed.
Print Assumptions C17_ical_equiv_tzstr.

(* the same against ANY rule zone (tzrange or tzstr) with the rule's attributes and transitions,
   without guard_d8 *)
Theorem C17_ical_equiv_range : forall r ds,
  r.(p_dst) = Some ds -> wf_posix r = true -> guard_apart r = true ->
  forall y0 n z w f cs, zone_for r ds z ->
  cs = [comp_daylight r ds y0 n; comp_standard r ds y0 n] \/
  cs = [comp_standard r ds y0 n; comp_daylight r ds y0 n] ->
  y0 < year_of_secs w < y0 + Z.of_nat n ->
  ic_observe_wall cs w f = observe_wall z w f.
Proof. exact ical_equiv_wall. Qed.
Print Assumptions C17_ical_equiv_range.

(* ... and in the first year already FROM THE ZONE'S FIRST ONSET ON (the earlier of the first
   DAYLIGHT and the first STANDARD onset, as wall readings); before it the default component applies
   (C17_before_first_onset) *)
Theorem C17_ical_equiv_from_first_onset : forall r ds,
  r.(p_dst) = Some ds -> wf_posix r = true -> guard_apart r = true ->
  forall y0 n z w f cs, zone_for r ds z ->
  cs = [comp_daylight r ds y0 n; comp_standard r ds y0 n] \/
  cs = [comp_standard r ds y0 n; comp_daylight r ds y0 n] ->
  (0 < n)%nat -> year_of_secs w = y0 -> Z.min (RS ds y0) (RE ds y0) <= w ->
  ic_observe_wall cs w f = observe_wall z w f.
Proof. exact ical_equiv_wall_first. Qed.
Print Assumptions C17_ical_equiv_from_first_onset.

(* ... and hence against the POSIX specification itself: a wall reading that denotes an instant
   (normal, or ambiguous with its fold; wall_instant of PosixSpec.v) observes through the
   VTIMEZONE zone what POSIX prescribes at that instant *)
Theorem C17_ical_wall_posix : forall r ds y0 n w f cs u z,
  r.(p_dst) = Some ds -> wf_posix r = true -> guard_apart r = true -> zone_for r ds z ->
  cs = [comp_daylight r ds y0 n; comp_standard r ds y0 n] \/
  cs = [comp_standard r ds y0 n; comp_daylight r ds y0 n] ->
  y0 < year_of_secs w < y0 + Z.of_nat n ->
  wall_instant r w f = Some u ->
  ic_observe_wall cs w f = Ok (let '(o, d, n) := posix_observe r u in (o, d, Some n)).
Proof. exact ical_wall_posix_lemma. Qed.
Print Assumptions C17_ical_wall_posix.

(* UTC -> local (utc.astimezone(zone), i.e. the generic _tzinfo.fromutc over the component
   lookup): at EVERY instant u whose surrounding day lies in the years after the first onsets and
   inside the horizon, the VTIMEZONE zone reports what POSIX prescribes -- offset, dst,
   abbreviation, on the wall reading u + offset; either component order *)
Theorem C17_ical_utc_posix : forall r ds,
  r.(p_dst) = Some ds -> wf_posix r = true -> guard_apart r = true ->
  forall y0 n cs,
  cs = [comp_daylight r ds y0 n; comp_standard r ds y0 n] \/
  cs = [comp_standard r ds y0 n; comp_daylight r ds y0 n] ->
  forall u, in_range y0 n (u - DAY) -> in_range y0 n (u + DAY) ->
  exists f, ic_observe_utc cs u =
    Ok (let '(o, d, nm) := posix_observe r u in (u + o, f, o, d, Some nm)).
Proof. exact ical_utc_posix. Qed.
Print Assumptions C17_ical_utc_posix.

(* F-C17-1 as a theorem about the faithful model: NEGATIVE saving (the Irish rule; wf and guard_d8 hold,
   the saving is the failing clause).  Half an hour before the transition into the lower offset the
   VTIMEZONE zone converts UTC to a wall reading (w) with an offset (off) that do not denote the instant,
   while the tzstr zone of the same rule reports the POSIX answer: tzical DIFFERS from tzstr there *)
Theorem C17_ical_negative_dst_refuted :
  exists r ds y0 n u z o w f off d nm,
    r.(p_dst) = Some ds /\ wf_posix r = true /\ guard_d8 r = true /\ ds.(d_off) < r.(p_off) /\
    in_range y0 n (u - DAY) /\ in_range y0 n (u + DAY) /\
    tzstr_init (render_posix r) false = Ok z /\ observe_utc z u = Ok o /\
    ic_observe_utc [comp_daylight r ds y0 n; comp_standard r ds y0 n] u = Ok (w, f, off, d, nm) /\
    w <> o.(o_wall) /\ w - off <> u /\
    (o.(o_wall), o.(o_off)) = (u + fst (fst (posix_observe r u)), fst (fst (posix_observe r u))).
Proof. exact ical_negative_dst_refuted_lemma. Qed.
Print Assumptions C17_ical_negative_dst_refuted.

(* before the first onset of every component the first STANDARD component applies, else the
   first component (the code after fix 7ee86cc) *)
Theorem C17_before_first_onset : forall cs w f,
  (forall c, In c cs -> find_compdt c w f = None) ->
  find_comp_nocache cs w f =
    match first_std cs 0 with
    | Some i => Some i
    | None => match cs with [] => None | _ => Some O end
    end.
Proof. exact before_first_onset_lemma. Qed.
Print Assumptions C17_before_first_onset.

(* the ten-entry lookup cache never changes an answer: any sequence of wall-time queries through
   the cached _find_comp gives the answers of the stateless component selection *)
Theorem C17_cache_never_changes_an_answer : forall cs qs,
  run_queries cs [] qs = map (fun '(w, f) => ic_utcoffset cs w f) qs.
Proof. exact cache_never_changes_an_answer. Qed.
Print Assumptions C17_cache_never_changes_an_answer.

(* the cache as the code has it -- two parallel lists under _cache_lock, one zone object shared by
   any number of threads (IcalConcModel.v: a schedule is a list of thread numbers, each entry lets
   that thread perform its next lock-granularity step: hit [lock], scan [no lock], insert [lock]).
   Under the code's lock discipline EVERY interleaving gives every query the stateless answer. *)
Theorem C17_interleaved_lookups_are_stateless : forall cs sched todos th,
  In th (snd (run cs true sched (mkSh [] []) (map fresh todos))) ->
  forall q a, In (q, a) th.(t_out) -> a = expected cs q.
Proof. exact interleaved_lookups_are_stateless. Qed.
Print Assumptions C17_interleaved_lookups_are_stateless.

(* ... and the statement is FALSE when the hit path reads _cachecomp[idx] after releasing the lock
   (atomic_hit = false; the seeded change C17-2): a front insert by another thread shifts the
   parallel lists under the waiting reader *)
Theorem C17_read_outside_lock_refuted :
  exists sched todos th q a,
    In th (snd (run conc_comps false sched (mkSh [] []) (map fresh todos))) /\
    In (q, a) th.(t_out) /\ a <> expected conc_comps q.
Proof. exact read_outside_lock_refuted. Qed.
Print Assumptions C17_read_outside_lock_refuted.

(* the VTIMEZONE line parser on a well-formed definition (IcalRoundThm.v: vtz_lines = BEGIN:VTIMEZONE,
   TZID, a DAYLIGHT and a STANDARD block each with DTSTART, RRULE, TZOFFSETFROM, TZOFFSETTO, TZNAME,
   END:VTIMEZONE): for ALL TZIDs, names, DTSTART / RRULE values and offsets below 100 h (hhmm, or
   hhmmss when seconds are present) the state machine delivers exactly the two component records
   the text states, with the recurrence lines it collected for rrulestr *)
Theorem C17_parse_rfc_vtimezone : forall tzid n1 n2 v1 v2 v3 v4 a b,
  tzid <> [] -> -360000 < a < 360000 -> -360000 < b < 360000 ->
  parse_rfc (vtz_lines tzid n1 n2 v1 v2 v3 v4 a b) =
    Ok [(tzid, [mkPcomp a b true (Some n1) [zs "DTSTART:" ++ v1; zs "RRULE:" ++ v2];
                mkPcomp b a false (Some n2) [zs "DTSTART:" ++ v3; zs "RRULE:" ++ v4]])].
Proof. exact parse_rfc_vtimezone. Qed.
Print Assumptions C17_parse_rfc_vtimezone.

Theorem C17_parse_offset_render : forall o,
  -360000 < o < 360000 -> parse_offset (render_ioff o) = Ok o.
Proof. exact parse_offset_render. Qed.
Print Assumptions C17_parse_offset_render.

(* malformed definitions raise ValueError: in every parser state ... *)
Theorem C17_malformed_missing_tzid : forall st,
  st.(ps_invtz) = true -> truthy_ostr st.(ps_comptype) = false ->
  truthy_ostr st.(ps_tzid) = false ->
  step st (zs "END:VTIMEZONE") = Err EValue.
Proof. exact end_vtimezone_without_tzid. Qed.
Print Assumptions C17_malformed_missing_tzid.

Theorem C17_malformed_no_component : forall st,
  st.(ps_invtz) = true -> truthy_ostr st.(ps_comptype) = false -> st.(ps_comps) = [] ->
  step st (zs "END:VTIMEZONE") = Err EValue.
Proof. exact end_vtimezone_without_component. Qed.
Print Assumptions C17_malformed_no_component.

Theorem C17_malformed_missing_dtstart_or_offset : forall st (daylight : bool),
  let ct := if daylight then zs "DAYLIGHT" else zs "STANDARD" in
  st.(ps_invtz) = true -> st.(ps_comptype) = Some ct ->
  st.(ps_founddtstart) = false \/ st.(ps_from) = None \/ st.(ps_to) = None ->
  step st (zs "END:" ++ ct) = Err EValue.
Proof. exact end_component_incomplete. Qed.
Print Assumptions C17_malformed_missing_dtstart_or_offset.

Theorem C17_malformed_unknown_component : forall st v,
  st.(ps_invtz) = true -> v <> zs "STANDARD" -> v <> zs "DAYLIGHT" ->
  step st (zs "BEGIN:" ++ v) = Err EValue.
Proof. exact begin_unknown_component. Qed.
Print Assumptions C17_malformed_unknown_component.

(* ... and an error at any line is the result of the whole parse *)
Theorem C17_malformed_line_fails_parse : forall st l1 l l2 e,
  (forall st', run_lines st l1 = Ok st' -> step st' l = Err e) ->
  (exists st', run_lines st l1 = Ok st') ->
  run_lines st (l1 ++ l :: l2) = Err e.
Proof. exact run_lines_err. Qed.
Print Assumptions C17_malformed_line_fails_parse.

(* several zones are addressable by TZID, a single zone is returned without naming it *)
Theorem C17_multi_tzid_addressing : forall d k v,
  ical_get (dict_set d k v) (Some k) = Ok (Some v) /\
  (forall k', k' <> k -> ical_get (dict_set d k v) (Some k') = ical_get d (Some k')) /\
  ical_get [(k, v)] None = Ok (Some v) /\
  (forall vtz, length vtz <> 1%nat -> ical_get vtz None = Err EValue).
Proof. exact multi_tzid_addressing_lemma. Qed.
Print Assumptions C17_multi_tzid_addressing.


(* ======== LINK to C01 / C13 (area coq/link, notes/link.md): the RRULE text -> onset list step.
   The theorems above take the onsets of the DAYLIGHT / STANDARD components to be the POSIX start / end
   events (comp_daylight / comp_standard).  In a VTIMEZONE they are given as
   `DTSTART:<first onset>` + `RRULE:FREQ=YEARLY;BYMONTH=m;BYDAY=<n><WD>`; here that recurrence rule is
   shown to produce exactly those events, (a) by the rrule SPECIFICATION (rr/RRSpec.v), (b) through rr's
   headline theorem by the rrule MODEL (normalize / iterate), (c) from the TEXT through the model of
   rrulestr's keyword parsing (rstr/RstrModel.v).  BYDAY = -1WD for w = 5 ("last"), +wWD otherwise --
   w = 4 and "last" differ exactly in months with five such weekdays, as in POSIX. *)
From V Require Import rstr.RstrPrim rstr.RstrModel.
From V Require Import rr.RRBase rr.RRNorm rr.RRIter rr.RRSpec link.LinkSpec link.LinkModel link.LinkIcal
  link.LinkText link.LinkChain.

(* (a) specification: the sequence is the rule date of y0, y0+1, ... at the DTSTART's time of day,
   one per year, until the limit / the fuel / year 9999 (years_yielded counts them) *)
Theorem C17_rrule_spec_is_posix_dates : forall m w d H M S y0,
  1 <= m <= 12 -> 1 <= w <= 5 -> 0 <= d <= 6 -> valid_hms H M S = true -> 1 <= y0 <= 9999 ->
  forall limit fuel, fst (spec_iter (yearly_rule m w d H M S y0) limit fuel) =
  map (fun y => (date_of (DM m w d) y, tod H M S)) (PosixThm.zrange (years_yielded fuel limit 0 y0) y0).
Proof. exact spec_iter_is_posix_dates. Qed.
Print Assumptions C17_rrule_spec_is_posix_dates.

(* (b) model: the constructor accepts the rule and the iteration yields the same sequence *)
Theorem C17_rrule_model_is_posix_dates : forall m w d H M S y0,
  1 <= m <= 12 -> 1 <= w <= 5 -> 0 <= d <= 6 -> valid_hms H M S = true -> 1 <= y0 <= 9999 ->
  exists rl, normalize (yearly_rule m w d H M S y0) = RRBase.Ok rl /\
    forall limit n, fst (iterate rl limit n) =
      map (fun y => (date_of (DM m w d) y, tod H M S)) (PosixThm.zrange (years_yielded n limit 0 y0) y0).
Proof. exact iterate_is_posix_dates. Qed.
Print Assumptions C17_rrule_model_is_posix_dates.

(* the k-th yielded instant is the rule date of year y0 + k *)
Theorem C17_rrule_kth_onset : forall m w d H M S y0,
  1 <= m <= 12 -> 1 <= w <= 5 -> 0 <= d <= 6 -> valid_hms H M S = true -> 1 <= y0 <= 9999 ->
  forall rl limit n k, normalize (yearly_rule m w d H M S y0) = RRBase.Ok rl ->
  (k < years_yielded n limit 0 y0)%nat ->
  nth_error (fst (iterate rl limit n)) k = Some (date_of (DM m w d) (y0 + Z.of_nat k), tod H M S).
Proof. exact iterate_nth. Qed.
Print Assumptions C17_rrule_kth_onset.

(* with enough fuel and limit the sequence runs to year 9999 *)
Theorem C17_rrule_runs_to_9999 : forall fuel limit len y, y <= 10000 ->
  10000 - y <= Z.of_nat fuel -> 10000 - y <= limit - len ->
  years_yielded fuel limit len y = Z.to_nat (10000 - y).
Proof. exact years_yielded_full. Qed.
Print Assumptions C17_rrule_runs_to_9999.

(* THE INSTANTIATION: the onset lists the rrule model computes for the two components ARE the
   onset lists of comp_daylight / comp_standard (as wall readings in seconds) *)
Theorem C17_rrule_onsets_are_posix_events :
  forall (z : posix) (ds : dstpart) (ms ws dds Hs Ms Ss me we dde He Me Se : Z),
  d_start ds = mkPrule (DM ms ws dds) (tod Hs Ms Ss) ->
  d_end ds = mkPrule (DM me we dde) (tod He Me Se) ->
  1 <= ms <= 12 /\ 1 <= ws <= 5 /\ 0 <= dds <= 6 /\ valid_hms Hs Ms Ss = true ->
  1 <= me <= 12 /\ 1 <= we <= 5 /\ 0 <= dde <= 6 /\ valid_hms He Me Se = true ->
  forall y0, 1 <= y0 <= 9999 ->
  forall (rlS rlE : rule) (limit : Z) (n : nat),
  normalize (rule_daylight ms ws dds Hs Ms Ss y0) = RRBase.Ok rlS ->
  normalize (rule_standard me we dde He Me Se y0) = RRBase.Ok rlE ->
  map inst_code (fst (iterate rlS limit n)) = c_onsets (comp_daylight z ds y0 (years_yielded n limit 0 y0)) /\
  map inst_code (fst (iterate rlE limit n)) = c_onsets (comp_standard z ds y0 (years_yielded n limit 0 y0)).
Proof. exact rrule_onsets_are_posix_events. Qed.
Print Assumptions C17_rrule_onsets_are_posix_events.

Theorem C17_rrule_components_accepted : forall ms ws dds Hs Ms Ss me we dde He Me Se : Z,
  1 <= ms <= 12 /\ 1 <= ws <= 5 /\ 0 <= dds <= 6 /\ valid_hms Hs Ms Ss = true ->
  1 <= me <= 12 /\ 1 <= we <= 5 /\ 0 <= dde <= 6 /\ valid_hms He Me Se = true ->
  forall y0, 1 <= y0 <= 9999 ->
  exists rlS rlE, normalize (rule_daylight ms ws dds Hs Ms Ss y0) = RRBase.Ok rlS /\
                  normalize (rule_standard me we dde He Me Se y0) = RRBase.Ok rlE.
Proof. exact rules_normalize. Qed.
Print Assumptions C17_rrule_components_accepted.

(* ... hence C17_ical_equiv_range for the zone whose components carry the RRULE-defined onsets *)
Theorem C17_ical_rrule_equiv_range :
  forall (z : posix) (ds : dstpart), p_dst z = Some ds ->
  forall ms ws dds Hs Ms Ss me we dde He Me Se : Z,
  d_start ds = mkPrule (DM ms ws dds) (tod Hs Ms Ss) ->
  d_end ds = mkPrule (DM me we dde) (tod He Me Se) ->
  1 <= ms <= 12 /\ 1 <= ws <= 5 /\ 0 <= dds <= 6 /\ valid_hms Hs Ms Ss = true ->
  1 <= me <= 12 /\ 1 <= we <= 5 /\ 0 <= dde <= 6 /\ valid_hms He Me Se = true ->
  forall y0, 1 <= y0 <= 9999 -> wf_posix z = true -> guard_apart z = true ->
  forall (rlS rlE : rule) (limit : Z) (n : nat) (zone : zone) (wl : Z) (f : bool) (cs : list comp),
  normalize (rule_daylight ms ws dds Hs Ms Ss y0) = RRBase.Ok rlS ->
  normalize (rule_standard me we dde He Me Se y0) = RRBase.Ok rlE ->
  zone_for z ds zone ->
  cs = [rrule_comp_daylight z ds rlS limit n; rrule_comp_standard z ds rlE limit n] \/
  cs = [rrule_comp_standard z ds rlE limit n; rrule_comp_daylight z ds rlS limit n] ->
  y0 < year_of_secs wl < y0 + Z.of_nat (years_yielded n limit 0 y0) ->
  ic_observe_wall cs wl f = observe_wall zone wl f.
Proof. exact ical_rrule_equiv_range. Qed.
Print Assumptions C17_ical_rrule_equiv_range.

(* (c) text: the RRULE line the generator writes parses to the keyword arguments, whose rr-side
   record (LinkChain.raw_of_kw: the only glue definition) is yearly_rule, whose occurrences are the
   POSIX rule dates *)
Theorem C17_rrule_text_parses : forall m w d, 1 <= m <= 12 -> 1 <= w <= 5 -> 0 <= d <= 6 ->
  parse_rrule_kw false (zs "RRULE:"%string ++ rrule_text m w d) = RstrModel.Ok (kw_yearly m w d).
Proof. exact rrule_line_parses. Qed.
Print Assumptions C17_rrule_text_parses.

Theorem C17_rrule_text_yields_posix_dates : forall m w d H M S y0 us tz,
  1 <= m <= 12 -> 1 <= w <= 5 -> 0 <= d <= 6 -> valid_hms H M S = true -> 1 <= y0 <= 9999 ->
  exists k r rl,
    parse_rrule_kw false (zs "RRULE:"%string ++ rrule_text m w d) = RstrModel.Ok k /\
    raw_of_kw (mkdt y0 m (date_of (DM m w d) y0 - ord_of_ymd y0 m 1 + 1) H M S us tz) k = Some r /\
    normalize r = RRBase.Ok rl /\
    forall limit n, fst (iterate rl limit n) =
      map (fun y => (date_of (DM m w d) y, tod H M S)) (PosixThm.zrange (years_yielded n limit 0 y0) y0).
Proof. exact rrule_text_yields_posix_dates. Qed.
Print Assumptions C17_rrule_text_yields_posix_dates.

(* the rruleset wrapper: tzical calls rrulestr(..., compatible=True), which wraps the rule in an
   rruleset and adds DTSTART as an rdate; with rset's C10 theorem (heapq discipline) the set yields
   exactly the rule's own sequence = the POSIX rule dates as wall seconds *)
From V Require Import rset.RSetModel rset.RSetSpec rset.RSetHist rset.RSetThm rset.RSetHeapq rset.RSetHeapqThm link.LinkSet.

Theorem C17_rruleset_wrapper_is_posix_dates : forall m w d H M S y0,
  1 <= m <= 12 -> 1 <= w <= 5 -> 0 <= d <= 6 -> RRBase.valid_hms H M S = true -> 1 <= y0 <= 9999 ->
  forall rl limit n,
  normalize (yearly_rule m w d H M S y0) = RRBase.Ok rl -> (0 < years_yielded n limit 0 y0)%nat ->
  let L := map inst_code (fst (iterate rl limit n)) in
  rset_iter heap_py [L] [date_of (DM m w d) y0 * DAY + tod H M S] [] [] = Some (L, Some (Z.of_nat (length L))) /\
  L = map (fun y => date_of (DM m w d) y * DAY + tod H M S) (PosixThm.zrange (years_yielded n limit 0 y0) y0).
Proof. exact rruleset_wrapper_is_posix_dates. Qed.
Print Assumptions C17_rruleset_wrapper_is_posix_dates.

(* ============================================================================================
   REGENERATED-FROM-SOURCE obligations.  coq/gen/IcalGen.v is rewritten by harness/gen_posix.py
   from the Python AST of /repo/src/dateutil/tz/tz.py on every run; see props/C08.v for the rules. *)
From V Require Import posix.IcalConcModel gen.IcalGen posix.IcalGenThm.

(* tz._tzicalvtz: _find_compdt, utcoffset, dst, tzname (the call self._find_comp(dt) is read as the
   stateless component selection, justified by C17_cache_never_changes_an_answer and
   C17_interleaved_lookups_are_stateless) *)
Theorem C17_gen_tzicalvtz : forall cs c w f,
  gen_find_compdt cs c w f = find_compdt c w f /\
  gen_ic_utcoffset cs w f = ic_utcoffset cs w f /\
  gen_ic_dst cs w f = ic_dst cs w f /\
  gen_ic_tzname cs w f = ic_tzname cs w f.
Proof. exact gen_tzicalvtz_lemma. Qed.
Print Assumptions C17_gen_tzicalvtz.

(* tz.tzical._parse_offset *)
Theorem C17_gen_parse_offset : forall s, gen_parse_offset s = parse_offset s.
Proof. exact gen_parse_offset_eq. Qed.
Print Assumptions C17_gen_parse_offset.

(* the lock discipline of _tzicalvtz._find_comp in the SOURCE (every access to _cachedate /
   _cachecomp inside `with self._cache_lock`, computed from the AST) is the one under which
   C17_interleaved_lookups_are_stateless holds (atomic_hit = true) *)
Theorem C17_gen_lock_discipline : gen_cache_access_under_lock = true.
Proof. exact gen_lock_discipline. Qed.
Print Assumptions C17_gen_lock_discipline.

(* tzical._parse_rfc passes compatible=True (and ignoretz=True) to rrulestr: DTSTART itself is an
   onset of its component, as comp_daylight / comp_standard assume for the first year *)
Theorem C17_gen_rrulestr_dtstart_is_onset : gen_rrulestr_dtstart_is_onset = true.
Proof. exact gen_rrulestr_dtstart_lemma. Qed.
Print Assumptions C17_gen_rrulestr_dtstart_is_onset.

(* _tzicalvtz._find_comp, the component SELECTION (the accumulation loop over self._comps with the
   strict `lastcompdt < compdt`, then `if not lastcomp:` the search loop for the first non-DST
   component with its for/else default self._comps[0]): the regenerated code returns the component
   the hand model's index selects (IndexError on an empty list in both) *)
Theorem C17_gen_select_comp : forall cs w f,
  gen_select_comp cs w f = get_comp cs (find_comp_nocache cs w f).
Proof. exact gen_select_comp_eq. Qed.
Print Assumptions C17_gen_select_comp.

(* _find_comp, the two regions under the lock, over the two parallel lists: the hit expression
   _cachecomp[_cachedate.index((dt, fold))] and the insert block (insert at the front of both lists,
   pop both beyond ten entries) are the hit / insert steps of the cache model (which stores the
   INDEX of a component where the code stores the object: g maps one to the other) *)
Theorem C17_gen_cache_regions : forall (g : nat -> comp) dates idxs w f c,
  gen_cache_hit dates (map g idxs) w f =
    match index_of dates (w, f) 0 with Some i => option_map g (nth_error idxs i) | None => None end /\
  gen_cache_insert dates (map g idxs) w f (g c) =
    (let sh := insert_front (mkSh dates idxs) (w, f) c in (sh_dates sh, map g (sh_comps sh))).
Proof. exact gen_cache_regions_lemma. Qed.
Print Assumptions C17_gen_cache_regions.
