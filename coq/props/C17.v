(* C17 -- iCalendar VTIMEZONE zones agree with the same rules given as a TZ string.
   Statements only; proofs are in posix/IcalThm.v. *)
From Coq Require Import ZArith List Bool.
From V Require Import base.Cal posix.PTime posix.RDelta posix.TzParseModel posix.IcalModel
     posix.IcalThm.
Import ListNotations.
Open Scope Z_scope.

(* the ten-entry lookup cache never changes an answer: any sequence of wall-time queries through
   the cached _find_comp gives the answers of the stateless component selection *)
Theorem C17_cache_never_changes_an_answer : forall cs qs,
  run_queries cs [] qs = map (fun '(w, f) => ic_utcoffset cs w f) qs.
Proof. exact cache_never_changes_an_answer. Qed.
Print Assumptions C17_cache_never_changes_an_answer.
