(* C03 -- date + relativedelta follows the documented replace / shift / clip / duration / weekday
   order.  Statements only; proofs are in rd/RdAddThm.v, rd/RdAddThm2.v, rd/RdYdayThm.v. *)
From Coq Require Import ZArith List Bool.
From V Require Import base.Cal gen.RdTables rd.RdBase rd.RdModel rd.RdSpec rd.RdAddThm rd.RdDiffThm
  rd.RdAddThm2 rd.RdYdayThm.
Open Scope Z_scope.

(* dt + delta = the documented four steps (replace; whole-month shift with the day clipped;
   one exact duration incl. leapdays; n-th weekday by counting), both failing exactly together.
   Guard wf_rd: relative fields normalised (as every constructed delta is, C03_mk_normalised),
   absolute year / month / day not 0, absolute month in 1..12, weekday MO..SU.
   - year/month/day = 0 is the open finding F-C03-zero-absolute: the code's `self.year or other.year`
     silently IGNORES a zero although the documentation says absolute values REPLACE (0 is nowhere
     documented as "absent"); refuted below (C03_zero_absolute_refuted).
   - month outside 1..12 and weekday outside 0..6 are outside the DOMAIN (no such month / weekday;
     weekday objects are MO..SU): code and specification are both defensible there and differ
     (month=13 alone: the code raises ValueError, the total-month arithmetic of the specification
     would roll into January), so this is a restriction of the quantifier, not a finding.
   DECISION on leapdays: the docstring says "if year is a leap year, and the date found is post 28 of
   february"; code and specification apply leapdays when the month found is AFTER February
   (`month > 2`).  The two readings differ only when the date found is 29 February itself (code:
   not applied).  The property text says "applicable leapdays" and the only documented use of
   leapdays -- the yearday conversion, C03_yearday_spec_full -- needs exactly `month > 2`
   (yearday 60 = "1 March minus one leap day" = 29 February); we follow that reading and state it
   here as a decision, not as a finding. *)
Theorem C03_add_dt_spec : forall d o, wf_rd d = true -> valid_dt o = true ->
  res_opt (add_dt d o) = spec_add d o.
Proof. exact add_dt_spec. Qed.
Print Assumptions C03_add_dt_spec.

(* the zero cases outside the guard (finding F-C03-zero-absolute): year=0 / month=0 / day=0 leave
   the operand unchanged where the documented replacement has no result (year, day) or another one
   (month 0 + total-month arithmetic = December of the previous year) *)
Theorem C03_zero_absolute_refuted :
  exists d1 d2 d3 o,
    a_year (ab d1) = Some 0 /\ a_month (ab d2) = Some 0 /\ a_day (ab d3) = Some 0 /\
    add_dt d1 o = Ok o /\ add_dt d2 o = Ok o /\ add_dt d3 o = Ok o /\
    spec_add d1 o = None /\ spec_add d2 o <> Some o /\ spec_add d3 o = None.
Proof. exact zero_absolute_refuted. Qed.
Print Assumptions C03_zero_absolute_refuted.

(* every delta built by the keyword constructor satisfies the normalisation part of the guard *)
Theorem C03_mk_normalised : forall k d, mk k = Ok d -> norm_rel (rel d) = true.
Proof. exact mk_normalised. Qed.
Print Assumptions C03_mk_normalised.

(* the same result stated for the values GIVEN to the constructor (un-normalised): months as one
   total, the other relative fields as one duration in microseconds, promotion exactly when the
   sub-day part of that duration is not a whole number of days *)
Theorem C03_add_fix_spec_raw : forall raw o, wf_rd (fix_rd raw) = true -> valid_dt o = true ->
  res_opt (add_dt (fix_rd raw) o) = spec_add_raw raw o.
Proof. exact add_fix_spec_raw. Qed.
Print Assumptions C03_add_fix_spec_raw.

Theorem C03_mk_add_spec_raw : forall k d o,
  k_yearday k = None -> k_nlyearday k = None -> mk k = Ok d ->
  wf_rd d = true -> valid_dt o = true ->
  exists w, conv_wd (k_wd k) = Ok w /\ res_opt (add_dt d o) = spec_add_raw (raw_of_kw k w) o.
Proof. exact mk_add_spec_raw. Qed.
Print Assumptions C03_mk_add_spec_raw.

(* years/months only: the month index moves by exactly 12*years+months, the day is clipped to the
   target month (never spills), the time of day is untouched; error iff outside years 1..9999 *)
Theorem C03_month_shift_exact : forall y mo o, Z.abs mo <= 11 -> valid_dt o = true ->
  res_opt (add_dt (mkrd (mkrel y mo 0 0 0 0 0) 0 abs0 None) o) =
  if valid_dt (shifted o (12 * y + mo)) then Some (shifted o (12 * y + mo)) else None.
Proof. exact month_shift_exact. Qed.
Print Assumptions C03_month_shift_exact.

Theorem C03_clip_never_spills : forall y mo o r, Z.abs mo <= 11 -> valid_dt o = true ->
  add_dt (mkrd (mkrel y mo 0 0 0 0 0) 0 abs0 None) o = Ok r ->
  mi r = mi o + (12 * y + mo) /\
  day_of r = Z.min (day_of o) (dim (fst (ym_of r)) (snd (ym_of r))) /\
  time_of r = time_of o.
Proof. exact clip_never_spills. Qed.
Print Assumptions C03_clip_never_spills.

(* weekday(+1) / weekday(-1) / weekday without n: no move when steps 1-3 already land on it *)
Theorem C03_weekday_noop_when_on_day : forall d o ret w n,
  add_dt (no_wd d) o = Ok ret -> wd d = Some (w, n) -> (eff_n n = 1 \/ eff_n n = -1) ->
  py_weekday ret = w -> add_dt d o = Ok ret.
Proof. exact weekday_noop_when_on_day. Qed.
Print Assumptions C03_weekday_noop_when_on_day.

(* a date operand is promoted to a datetime exactly when the delta carries time information *)
Theorem C03_promotion_iff_has_time : forall d o r, add_dt d o = Ok r ->
  is_datetime r = carries_time d || is_datetime o.
Proof. exact promotion_iff_has_time. Qed.
Print Assumptions C03_promotion_iff_has_time.

(* addition is independent of operand order; subtraction is addition of the negation.
   NOTE: the next two statements are DEFINITIONAL in the hand model (RdModel.radd := add_dt,
   rsub d o := add_dt (neg d) o -- they record how the model reads __radd__ / __rsub__); the
   load-bearing statements are C03_gen_radd_dt / C03_gen_rsub_dt (the translated source of __radd__ /
   __rsub__ equals these definitions) and C03_sub_spec (dt - d = the documented addition of the
   field-wise negated delta). *)
Theorem C03_radd_eq_add : forall d o, radd d o = add_dt d o.
Proof. exact radd_eq_add. Qed.
Print Assumptions C03_radd_eq_add.

Theorem C03_sub_is_add_neg : forall d o, rsub d o = add_dt (neg d) o.
Proof. exact sub_is_add_neg. Qed.
Print Assumptions C03_sub_is_add_neg.

Theorem C03_sub_spec : forall d o, wf_rd d = true -> valid_dt o = true ->
  res_opt (rsub d o) = spec_add (negated d) o.
Proof. exact sub_spec. Qed.
Print Assumptions C03_sub_spec.

(* yearday / nlyearday through the ydayidx table regenerated from /repo.  yearday = n selects the
   n-th day of the operand's year for EVERY day of that year (366 in leap years: fixed in /repo by
   f29aa05, formerly finding F-C03-yearday366); nlyearday for n = 1..365. *)
Theorem C03_yearday_spec_full : forall n y m0 d0, 1 <= n <= year_len y -> valid_ymd y m0 d0 = true ->
  exists d yy mm dd,
    mk (kw_yearday n) = Ok d /\ spec_yearday_date y n = Some (yy, mm, dd) /\
    add_dt d (PD y m0 d0) = Ok (PD yy mm dd).
Proof. exact yearday_spec_full. Qed.
Print Assumptions C03_yearday_spec_full.

Theorem C03_yearday_366_leap : forall y m0 d0, is_leap y = true -> valid_ymd y m0 d0 = true ->
  exists d, mk (kw_yearday 366) = Ok d /\ spec_yearday_date y 366 = Some (y, 12, 31) /\
            add_dt d (PD y m0 d0) = Ok (PD y 12 31).
Proof. exact yearday_366_leap. Qed.
Print Assumptions C03_yearday_366_leap.

Theorem C03_nlyearday_spec : forall n y m0 d0, 1 <= n <= 365 -> valid_ymd y m0 d0 = true ->
  exists d mm dd,
    mk (kw_nlyearday n) = Ok d /\ spec_nlyearday_date y n = Some (y, mm, dd) /\
    add_dt d (PD y m0 d0) = Ok (PD y mm dd).
Proof. exact nlyearday_spec. Qed.
Print Assumptions C03_nlyearday_spec.


(* the guard of C03_add_dt_spec expressed on the constructor's keyword arguments *)
Theorem C03_mk_wf : forall k d, mk k = Ok d -> kw_guard k = true -> wf_rd d = true.
Proof. exact mk_wf. Qed.
Print Assumptions C03_mk_wf.

Theorem C03_yearday_too_large : forall n, 366 < n ->
  mk (kw_yearday n) = Err EValue /\ mk (kw_nlyearday n) = Err EValue.
Proof. exact yearday_too_large. Qed.
Print Assumptions C03_yearday_too_large.

Theorem C03_yearday_spec_datetime_full : forall n y m0 d0 hh mi ss us,
  1 <= n <= year_len y -> valid_dt (PDT y m0 d0 hh mi ss us) = true ->
  exists d yy mm dd,
    mk (kw_yearday n) = Ok d /\ spec_yearday_date y n = Some (yy, mm, dd) /\
    add_dt d (PDT y m0 d0 hh mi ss us) = Ok (PDT yy mm dd hh mi ss us).
Proof. exact yearday_spec_datetime_full. Qed.
Print Assumptions C03_yearday_spec_datetime_full.

(* the [assert 1 <= abs(self.months) <= 12] in __add__ is unreachable for normalised deltas: only
   ValueError / OverflowError can come out, for every operand *)
Theorem C03_add_dt_errors_benign : forall d o e, norm_rel (rel d) = true ->
  add_dt d o = Err e -> e = EValue \/ e = EOverflow.
Proof. exact add_dt_errors_benign. Qed.
Print Assumptions C03_add_dt_errors_benign.

(* results stay in the domain (so the theorems compose over repeated additions), and the time
   line shared by model and spec is a faithful coordinate system of valid dates / datetimes *)
Theorem C03_add_dt_valid : forall d o r, add_dt d o = Ok r -> valid_dt r = true.
Proof. exact add_dt_valid. Qed.
Print Assumptions C03_add_dt_valid.

Theorem C03_timeline_faithful :
  (forall l, lin (dt_of_lin l) = l) /\ (forall n, lin (date_of_ord n) = n) /\
  (forall o, valid_dt o = true -> at_lin o (lin o) = Some o).
Proof. exact timeline_faithful. Qed.
Print Assumptions C03_timeline_faithful.

(* step 4's counting definition, characterised declaratively: the unique day of weekday w in the
   n-th 7-day window starting at (n > 0) / ending at (n < 0) the result of steps 1-3 *)
Theorem C03_nth_weekday_char : forall o w n t, 0 <= w <= 6 -> n <> 0 -> nth_weekday o w n = Some t ->
  weekday_of_ord t = w /\
  (0 < n -> o + 7 * (n - 1) <= t <= o + 7 * (n - 1) + 6) /\
  (n < 0 -> o - 7 * (- n - 1) - 6 <= t <= o - 7 * (- n - 1)).
Proof. exact nth_weekday_char. Qed.
Print Assumptions C03_nth_weekday_char.

(* ======== model <-> code tie by TRANSLATION: gen/RdAddGen.v is regenerated from
   /repo/src/dateutil/relativedelta.py on every run by harness/gen_rd_add.py (fail-closed Python-ast
   translator, on top of gen/RdMethodsGen.v of harness/gen_rd_methods.py); the generated
   definitions equal the hand model used by all theorems above, for ALL inputs.  (Imported here, after
   the model theorems, so that a change of the source breaks only the C03_gen_* obligations.) *)
From V Require Import rd.RdGenBase gen.RdMethodsGen rd.RdGenThm rd.RdAddGenBase gen.RdAddGen rd.RdAddGenThm.

Theorem C03_gen_add_dt : forall d o, gen_add_dt (obj_of_rd d) o = add_dt d o.
Proof. exact gen_add_dt_correct. Qed.
Print Assumptions C03_gen_add_dt.

Theorem C03_gen_radd_dt : forall d o, gen_radd_dt (obj_of_rd d) o = radd d o.
Proof. exact gen_radd_dt_correct. Qed.
Print Assumptions C03_gen_radd_dt.

Theorem C03_gen_rsub_dt : forall d o, gen_rsub_dt (obj_of_rd d) o = rsub d o.
Proof. exact gen_rsub_dt_correct. Qed.
Print Assumptions C03_gen_rsub_dt.

Theorem C03_gen_init_yearday : forall o yearday nlyearday,
  gen_init_yearday o yearday nlyearday = hand_yearday o yearday nlyearday.
Proof. exact gen_init_yearday_correct. Qed.
Print Assumptions C03_gen_init_yearday.

Theorem C03_gen_mk : forall k w, conv_wd (k_wd k) = Ok w ->
  bind (gen_init_yearday (raw_obj k w) (k_yearday k) (k_nlyearday k)) (fun o => of_gres (gen_fix o))
  = lift_rd (mk k).
Proof. exact gen_mk_correct. Qed.
Print Assumptions C03_gen_mk.

(* the specification theorem, stated directly about the translated source *)
Theorem C03_gen_add_dt_spec : forall d o, wf_rd d = true -> valid_dt o = true ->
  res_opt (gen_add_dt (obj_of_rd d) o) = spec_add d o.
Proof. exact gen_add_dt_spec. Qed.
Print Assumptions C03_gen_add_dt_spec.
