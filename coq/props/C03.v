(* C03 -- date + relativedelta follows the documented replace / shift / clip / duration / weekday
   order.  Statements only; proofs are in rd/RdAddThm.v. *)
From Coq Require Import ZArith List Bool.
From V Require Import base.Cal gen.RdTables rd.RdBase rd.RdModel rd.RdSpec rd.RdAddThm.
Open Scope Z_scope.

Theorem C03_promotion_iff_has_time : forall d, has_time d = carries_time d.
Proof. exact has_time_carries_time. Qed.
Print Assumptions C03_promotion_iff_has_time.
