(* C01 -- rrule yields exactly the RFC 5545 recurrence set, in order.
   Statements only; proofs are in coq/rr/*Thm.v over the hand model (RRNorm/RRMasks/RRIter), the
   tables regenerated from /repo (gen/RrTables.v) and the independent specification RRSpec. *)
From Coq Require Import ZArith List Bool.
From V Require Import base.Cal gen.RrTables rr.RRBase rr.RRNorm rr.RRMasks rr.RRIter rr.RRSpec
  rr.RRTablesThm rr.RRIterThm rr.RRRefuted rr.RRWeekDefs rr.RRWeekThm rr.RRWeekFinal rr.RRWeekCal
  rr.RRWeekTop.
Import ListNotations.
Open Scope Z_scope.

(* layer 1: the regenerated module-level tables are the calendar (all years; the finite day-index
   range is the tables' own length and is in the statement) *)
Theorem C01_tables_correct : forall y i, 0 <= i < year_len y + 7 ->
  let '(mm, mdm, nmdm, mr) := masks_for y in
  let '(yy, m, d) :=
    if i <? year_len y then (y, month_of_yday y (i + 1), i + 1 - dbm y (month_of_yday y (i + 1)))
    else (y + 1, 1, i - year_len y + 1) in
  nth_error mm (Z.to_nat i) = Some m /\
  nth_error mdm (Z.to_nat i) = Some d /\
  nth_error nmdm (Z.to_nat i) = Some (d - dim yy m - 1).
Proof. exact tables_correct. Qed.
Print Assumptions C01_tables_correct.

Theorem C01_ranges_correct : forall y m, 1 <= m <= 13 ->
  let '(_, _, _, mr) := masks_for y in nth_error mr (Z.to_nat (m - 1)) = Some (dbm y m).
Proof. exact ranges_correct. Qed.
Print Assumptions C01_ranges_correct.

Theorem C01_wdaymask_correct : forall i, 0 <= i < 385 ->
  nth_error T_WDAYMASK (Z.to_nat i) = Some (i mod 7).
Proof. exact wdaymask_correct. Qed.
Print Assumptions C01_wdaymask_correct.

Theorem C01_constants_correct :
  (T_YEARLY, T_MONTHLY, T_WEEKLY, T_DAILY, T_HOURLY, T_MINUTELY, T_SECONDLY, T_MAXYEAR) =
  (YEARLY, MONTHLY, WEEKLY, DAILY, HOURLY, MINUTELY, SECONDLY, 9999).
Proof. exact constants_correct. Qed.
Print Assumptions C01_constants_correct.

(* ------------------------------------------------------------------ layer 2: week-number mask *)
(* every year has one of the 28 year shapes (no bound on the year) *)
Theorem C01_year_shape_complete : forall y, In (shape_of y) all_shapes.
Proof. exact year_shape_complete. Qed.
Print Assumptions C01_year_shape_complete.

(* GUARDED (wnomask_correct of DESIGN.md is false of the code, see C01_wnomask_refuted): for every
   year 2..9999, week start, and EVERY list of BYWEEKNO members within -51..51, rebuild()'s
   week-number mask marks, on every index the iteration reads, exactly the days whose wkst-week
   number or its negative within the week-year is listed. *)
Theorem C01_wnomask_correct_guarded : forall year wk L,
  2 <= year <= 9999 -> 0 <= wk <= 6 -> forallb weekno_safe L = true ->
  let ywd := weekday_of_ord (jan1 year) in
  exists m,
    build_wnomask year (year_len year) ywd wk (py_from T_WDAYMASK ywd) L = Ok m /\
    zlen m = year_len year + 7 /\
    forall i, used_index (shape_of year) wk i = true ->
      nzb (nth (Z.to_nat i) m 0) = existsb (spec_weekno_clause wk (jan1 year + i)) L.
Proof. exact wnomask_correct_calendar. Qed.
Print Assumptions C01_wnomask_correct_guarded.

(* the guard is necessary: witness inside its complement (BYWEEKNO = -52) *)
Theorem C01_wnomask_refuted : exists sh wk n i m,
  In sh all_shapes /\ 0 <= wk <= 6 /\ used_index sh wk i = true /\
  shape_mask sh wk [n] = Ok m /\
  nzb (nth (Z.to_nat i) m 0) <> week_matches sh wk i n.
Proof. exact wnomask_refuted. Qed.
Print Assumptions C01_wnomask_refuted.

(* building the mask never raises IndexError: every year 2..9999, every list of integers *)
Theorem C01_wnomask_no_index_error : forall year wk L,
  2 <= year <= 9999 -> 0 <= wk <= 6 ->
  let ywd := weekday_of_ord (jan1 year) in
  exists m, build_wnomask year (year_len year) ywd wk (py_from T_WDAYMASK ywd) L = Ok m.
Proof. exact wnomask_no_index_error_calendar. Qed.
Print Assumptions C01_wnomask_no_index_error.

(* ------------------------------------------------------------------ main loop, all rules *)
(* every instant the model yields is >= dtstart and not after UNTIL; all frequencies *)
Theorem C01_yielded_within_bounds : forall rl limit fuel x,
  In x (fst (iterate rl limit fuel)) ->
  inst_le (dtstart_inst rl) x = true /\ after_until rl x = false.
Proof. exact iterate_within_bounds. Qed.
Print Assumptions C01_yielded_within_bounds.

(* at most COUNT instants are yielded *)
Theorem C01_count_bound : forall rl limit fuel c,
  count rl = Some c -> zlen (fst (iterate rl limit fuel)) <= Z.max c 0.
Proof. exact iterate_count_bound. Qed.
Print Assumptions C01_count_bound.

(* the month/year carry loop's fuel is never exhausted (OutOfFuel of the advance step unreachable) *)
Theorem C01_carry_loop_terminates :
  forall rl s fixday y m d hh mi ss wd ii ts cnt out,
  1 <= m <= 12 -> finish_advance rl s fixday y m d hh mi ss wd ii ts cnt out <> Ok AdvFuel.
Proof. exact finish_advance_never_out_of_fuel. Qed.
Print Assumptions C01_carry_loop_terminates.

(* ------------------------------------------------------------------ model = spec is FALSE of the code *)
(* full statement (NOT provable, kept for the record):
     forall r limit, spec_wf r = true -> exists fuel,
       observable (model_run r limit fuel) = observable (spec_iter r limit fuel)
   Two witnesses inside spec_wf, both reproduced on the implementation by the check
   (known findings F-C01-weekno, F-C01-setpos-week): *)
Theorem C01_rrule_iter_refuted_weekno : exists r x out,
  spec_wf r = true /\ r_byweekno r = Some [-52] /\
  spec_iter r 100 10 = (out ++ [x], SExhausted) /\
  model_run r 100 10 = Some (out, TUntil).
Proof. exact rrule_iter_refuted_weekno. Qed.
Print Assumptions C01_rrule_iter_refuted_weekno.

Theorem C01_rrule_iter_refuted_setpos_week : exists r x,
  spec_wf r = true /\ r_freq r = WEEKLY /\ r_bysetpos r = Some [1] /\
  (exists rest, model_run r 100 10 = Some (x :: rest, TCount)) /\
  ~ In x (fst (spec_iter r 100 10)).
Proof. exact rrule_iter_refuted_setpos_week. Qed.
Print Assumptions C01_rrule_iter_refuted_setpos_week.
