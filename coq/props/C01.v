(* C01 -- rrule yields exactly the RFC 5545 recurrence set, in order.
   Statements only; proofs are in coq/rr/*Thm.v over the hand model (RRNorm/RRMasks/RRIter), the
   tables regenerated from /repo (gen/RrTables.v) and the independent specification RRSpec.

   WHAT THESE THEOREMS DO AND DO NOT SAY (audit of 2026-10-02, notes/audit/rr.md):
   * They are about the HAND MODEL `iterate` of rrule.__init__ / _iterinfo / _iter.  The tie model = code is
     (a) the C01_gen_* theorems at the end of this file: rrule.__init__, __construct_byset, __mod_distance and all of
     _iterinfo (rebuild, day sets, time sets) are regenerated from the source on every run and proved equal to the
     model; of `_iter` only the six BY-filter clauses, gate_one, the seven advance branches, one fix-day step and one
     __mod_distance step are TRANSLATED -- its prologue, day-set fetch, BYSETPOS/poslist section, pass skeleton
     (filter_loop, gate_list, step, run, init_state) are PINNED AS TEXT against a template (a source edit there fails
     closed, but their semantics rest on the hand model); and (b) the three-way differential run of check_C01.py.
   * The headline theorems compare the yielded SEQUENCE (`fst`).  The termination kind (`snd`) appears as: never an
     exception and one of COUNT / UNTIL / year-9999 / limit / fuel under coarse_guard_all (C01_rrule_term_kinds_partial),
     a finished run is complete (C01_rrule_complete_headline_partial); for sub-daily FREQ a raise happens only when
     the specification has nothing more (C01_subdaily_raise_is_end_partial) and its class is ValueError
     (C01_subdaily_raise_is_valueerror_partial); the constructor raises only ValueError for EVERY argument record
     (C01_normalize_only_valueerror).  That some fuel ends every run (`snd <> TOutOfFuel`) is not stated.
   * "Whole-second resolution and the start's tzinfo" hold BY CONSTRUCTION of the model's instant type
     (ordinal, second of day; tzinfo is opaque) -- they are checked on every yielded value by the harness, not proved.
     Aware datetimes are modelled on the start's wall clock with a constant offset; a start in a DST zone with a UTC
     UNTIL is only tested (through the naive twin of the rule), `dtstart=None` (datetime.now()) not at all.
   * `_partial` hides exactly: BYEASTER outside 1583..4098 and under sub-daily FREQ; BYWEEKNO members beyond +-53;
     every rule outside spec_wf (the extended domain RRSpecX.spec_xwf -- never-matching time members, BYMONTHDAY 0 --
     is compared by the harness: the constructor must raise ValueError or the sequence must be empty; two regression
     theorems below); no-exception / term kinds under the BYEASTER branch of full_guard.  The four findings of the audit round (week containing 9999-12-31, first week before 0001-01-01,
     TypeError for out-of-range members, BYMONTHDAY=0) were fixed in /repo (8ced7a9, 3426f68, e1e7505, 55654b4); the
     model follows the fixed source, the WEEKLY guards that excluded the two boundary weeks are gone, and the former
     `_refuted` witnesses are the C01_regress_* theorems at the end of the rr part. *)
From Coq Require Import ZArith List Bool.
From V Require Import base.Cal gen.RrTables rr.RRBase rr.RRNorm rr.RRMasks rr.RRIter rr.RRSpec
  rr.RRTablesThm rr.RRIterThm rr.RRRegress rr.RRWeekDefs rr.RRWeekThm rr.RRWeekFinal rr.RRWeekCal
  rr.RRWeekTop rr.RROverlay rr.RREasterThm rr.RRNwdThm rr.RRAdvanceThm rr.RRNwdCal rr.RRDaysetThm rr.RRSubdailyThm rr.RRFilterThm rr.RRFilterSpec rr.RRPassThm rr.RRGateThm rr.RRTimesetThm rr.RRYearlyThm rr.RRYearlyEasterThm rr.RRCountThm rr.RRYearlyCountThm rr.RRYearlyUntilThm rr.RRYearlyMaxThm rr.RRDailyThm
  easter.EasterSpec rr.RRSubNorm rr.RRSubLoop rr.RRSubHour rr.RRSubSpec rr.RRSubHourTop rr.RRSubMin rr.RRSubSec
  rr.RRSubMinTop rr.RRSubSecTop rr.RRSubState rr.RRSubNoType rr.RRSubTimes rr.RRSubPass rr.RRSubNorm2 rr.RRSubRunBase
  rr.RRMonthlyThm rr.RRWeeklyThm rr.RRSubHourRun rr.RRSubMinRun rr.RRSubSecRun rr.RRSubFamily rr.RRSubProps
  rr.RRSubClose rr.RRSubCloseGen rr.RRSubCloseFam rr.RRSubCloseGen2 rr.RRSubStopFam rr.RRSubSpecCoh rr.RRSubSame
  rr.RRSubAdvance rr.RRSetposThm rr.RRCoarseRun rr.RRMonthlyFullThm rr.RRMonthlyNthThm rr.RRYearlyFullThm
  rr.RRDailyFullThm rr.RRWeeklySetposThm rr.RRYearlyMonthNthThm rr.RRSortedThm rr.RRCoarseTop rr.RRNoRaise rr.RRStripThm rr.RRStripSubThm rr.RRValidThm rr.RRCompleteThm
  rr.RRSubSpBase rr.RRSubSpPass rr.RRSubSpFam rr.RRSubSpSame rr.RRSubSpAll rr.RRSubSorted rr.RRSubSpOrder rr.RRSubSpTerm
  rr.RRAllFreqTop rr.RRDailyEasterThm rr.RRWeeklyEasterThm rr.RREasterTop rr.RRWkEasterStrip rr.RRNthEasterThm rr.RRFullTop
  rr.RRSpecX rr.RRFindings rr.RRFullCorollaries rr.RRCtorErr rr.RRSubRaise.
Import ListNotations.
Open Scope Z_scope.

(* layer 1: the regenerated module-level tables are the calendar (all years; the finite day-index
   range is the tables' own length and is in the statement) *)
Theorem C01_tables_correct : forall y i, 0 <= i < year_len y + 7 ->
  let '(mm, mdm, nmdm, mr) := masks_for y in
  let '(yy, m, d) :=
    if i <? year_len y then (y, month_of_yday y (i + 1), i + 1 - dbm y (month_of_yday y (i + 1)))
    else (y + 1, 1, i - year_len y + 1) in
  nth_error mm (Z.to_nat i) = Some m /\
  nth_error mdm (Z.to_nat i) = Some d /\
  nth_error nmdm (Z.to_nat i) = Some (d - dim yy m - 1).
Proof. exact tables_correct. Qed.
Print Assumptions C01_tables_correct.

Theorem C01_ranges_correct : forall y m, 1 <= m <= 13 ->
  let '(_, _, _, mr) := masks_for y in nth_error mr (Z.to_nat (m - 1)) = Some (dbm y m).
Proof. exact ranges_correct. Qed.
Print Assumptions C01_ranges_correct.

Theorem C01_wdaymask_correct : forall i, 0 <= i < 385 ->
  nth_error T_WDAYMASK (Z.to_nat i) = Some (i mod 7).
Proof. exact wdaymask_correct. Qed.
Print Assumptions C01_wdaymask_correct.

Theorem C01_constants_correct :
  (T_YEARLY, T_MONTHLY, T_WEEKLY, T_DAILY, T_HOURLY, T_MINUTELY, T_SECONDLY, T_MAXYEAR) =
  (YEARLY, MONTHLY, WEEKLY, DAILY, HOURLY, MINUTELY, SECONDLY, 9999).
Proof. exact constants_correct. Qed.
Print Assumptions C01_constants_correct.

(* ------------------------------------------------------------------ layer 2: week-number mask *)
(* every year has one of the 28 year shapes (no bound on the year) *)
Theorem C01_year_shape_complete : forall y, In (shape_of y) all_shapes.
Proof. exact year_shape_complete. Qed.
Print Assumptions C01_year_shape_complete.

(* wnomask_correct of DESIGN.md (true of the code since /repo commits 83f8e67 + 049bb14; before them it
   was refuted for members +-52 / +-53 and raised ValueError in year 1): for every year, week start,
   and EVERY list of BYWEEKNO members within the RFC 5545 range -53..53, rebuild()'s
   week-number mask marks, on every index the iteration reads, exactly the days whose wkst-week
   number or its negative within the week-year is listed. *)
Theorem C01_wnomask_correct : forall year wk L,
  0 <= wk <= 6 -> forallb weekno_safe L = true ->
  let ywd := weekday_of_ord (jan1 year) in
  exists m,
    build_wnomask year (year_len year) (year_len (year + 1)) ywd wk (py_from T_WDAYMASK ywd) L = Ok m /\
    zlen m = year_len year + 7 /\
    forall i, used_index (shape_of year) wk i = true ->
      nzb (nth (Z.to_nat i) m 0) = existsb (spec_weekno_clause wk (jan1 year + i)) L.
Proof. exact wnomask_correct_calendar. Qed.
Print Assumptions C01_wnomask_correct.


(* building the mask never raises IndexError: every year 2..9999, every list of integers *)
Theorem C01_wnomask_no_index_error : forall year wk L,
  0 <= wk <= 6 ->
  let ywd := weekday_of_ord (jan1 year) in
  exists m, build_wnomask year (year_len year) (year_len (year + 1)) ywd wk (py_from T_WDAYMASK ywd) L = Ok m.
Proof. exact wnomask_no_index_error_calendar. Qed.
Print Assumptions C01_wnomask_no_index_error.

(* ------------------------------------------------------------------ main loop, all rules *)
(* every instant the model yields is >= dtstart and not after UNTIL; all frequencies *)
Theorem C01_yielded_within_bounds : forall rl limit fuel x,
  In x (fst (iterate rl limit fuel)) ->
  inst_le (dtstart_inst rl) x = true /\ after_until rl x = false.
Proof. exact iterate_within_bounds. Qed.
Print Assumptions C01_yielded_within_bounds.

(* at most COUNT instants are yielded *)
Theorem C01_count_bound : forall rl limit fuel c,
  count rl = Some c -> zlen (fst (iterate rl limit fuel)) <= Z.max c 0.
Proof. exact iterate_count_bound. Qed.
Print Assumptions C01_count_bound.

(* the month/year carry loop's fuel is never exhausted (OutOfFuel of the advance step unreachable) *)
Theorem C01_carry_loop_terminates :
  forall rl s fixday y m d hh mi ss wd ii ts cnt out,
  1 <= m <= 12 -> finish_advance rl s fixday y m d hh mi ss wd ii ts cnt out <> Ok AdvFuel.
Proof. exact finish_advance_never_out_of_fuel. Qed.
Print Assumptions C01_carry_loop_terminates.

(* (the former section "model = spec is FALSE of the code" is now the regression section at the end) *)
(* full statement (NOT provable, kept for the record):
     forall r limit, spec_wf r = true -> exists fuel,
       observable (model_run r limit fuel) = observable (spec_iter r limit fuel)
   Two witnesses inside spec_wf, both reproduced on the implementation by the check
   (known findings F-C01-weekno, F-C01-setpos-week): *)



(* ------------------------------------------------------------------ layer 3: easter mask *)
(* every Easter index, year length and list of offsets (no bound) *)
Theorem C01_eastermask_fold_correct : forall eyday neyday ylen offs, 0 <= ylen ->
  exists m, build_eastermask eyday neyday ylen offs = Ok m /\ zlen m = ylen + 7 /\
    forall j, 0 <= j < ylen + 7 ->
      nzb (nth (Z.to_nat j) m 0) =
      if j <? ylen then existsb (fun off => eyday + off =? j) offs
      else match neyday with
           | Some e2 => existsb (fun off => e2 + off =? j) offs
           | None => false
           end.
Proof. exact eastermask_fold_correct. Qed.
Print Assumptions C01_eastermask_fold_correct.

(* calendar level, for the years of C19's theorem (bound in the statement): a day of the year itself
   is marked iff it is Easter of `year` plus a listed offset, one of the 7 extra days iff it is Easter
   of year + 1 plus a listed offset (own-year reading of BYEASTER, /repo commit c760855) *)
Theorem C01_eastermask_correct_partial : forall year offs, 1583 <= year -> year + 1 <= 4099 ->
  let yo := ord_of_ymd year 1 1 in
  exists eo eo2 m, easter_ord year = Ok eo /\ easter_ord (year + 1) = Ok eo2 /\
    build_eastermask (eo - yo) (Some (eo2 - yo)) (year_len year) offs = Ok m /\
    forall i, 0 <= i < year_len year + 7 ->
      nzb (nth (Z.to_nat i) m 0) =
      existsb (fun x => yo + i =? easter_ord_spec (if i <? year_len year then year else year + 1) + x) offs.
Proof. exact eastermask_correct_calendar. Qed.
Print Assumptions C01_eastermask_correct_partial.

(* ... which is the wrong year's Easter for the 7-day extension (F-C01-easter-week) *)

(* ------------------------------------------------------------------ layer 3: nth-weekday mask *)
(* every weekday of 1 January, every list of ranges inside the mask, every list of (weekday, n)
   pairs with n <> 0 (no bound): index j is marked iff for some range and pair it lies in the range,
   has that weekday and is the n-th / |n|-th last such day of the range (RRSpec.nth_in) *)
Theorem C01_nwdaymask_correct : forall ywd len ranges pairs,
  0 <= ywd <= 6 -> Z.of_nat len <= 372 ->
  (forall rg, In rg ranges -> range_ok len rg) -> (forall wn, In wn pairs -> pair_ok wn) ->
  exists m, fold_res (nwd_range (wdm_of ywd) pairs) ranges (zeros len) = Ok m /\ length m = len /\
    forall j, 0 <= j < Z.of_nat len ->
      nzb (nth (Z.to_nat j) m 0) =
      existsb (fun rg => match rg with
                         | [first; last0] => existsb (fun wn => nwd_spec ywd first (last0 - 1) wn j) pairs
                         | _ => false end) ranges.
Proof. exact nwdaymask_correct. Qed.
Print Assumptions C01_nwdaymask_correct.

(* ------------------------------------------------------------------ layer 6: advance, YEARLY..DAILY *)
(* MONTHLY: the divmod carry moves the month index by exactly `interval` *)
Theorem C01_monthly_carry_correct : forall year month itv,
  1 <= month <= 12 -> 1 <= itv ->
  let '(month', year') := monthly_carry year month itv in
  1 <= month' <= 12 /\ year' * 12 + (month' - 1) = year * 12 + (month - 1) + itv.
Proof. exact monthly_carry_correct. Qed.
Print Assumptions C01_monthly_carry_correct.

(* WEEKLY: the two-branch wkst formula = start of the cursor's week + 7 * interval *)
Theorem C01_weekly_advance_correct : forall day wd wk itv, 0 <= wd <= 6 -> 0 <= wk <= 6 ->
  (if wd <? wk then day + - (wd + 1 + (6 - wk)) + itv * 7 else day + - (wd - wk) + itv * 7)
  = day - (wd - wk) mod 7 + 7 * itv.
Proof. exact weekly_advance_correct. Qed.
Print Assumptions C01_weekly_advance_correct.

(* WEEKLY / DAILY / sub-daily day carry: the month/year carry loop lands on the existing date whose
   ordinal is the virtual ordinal of the over-long day number *)
Theorem C01_fix_loop_ordinal : forall fuel year month day y' m' d',
  1 <= month <= 12 -> 1 <= day ->
  fix_loop fuel year month day (Cal.dim year month) = FixOk y' m' d' ->
  ord_of_ymd y' m' d' = vord year month day /\ 1 <= m' <= 12 /\ 1 <= d' <= Cal.dim y' m'.
Proof. exact fix_loop_ordinal. Qed.
Print Assumptions C01_fix_loop_ordinal.

(* ... and reports the MAXYEAR stop only when that ordinal lies beyond 9999-12-31 *)
Theorem C01_fix_loop_max_only_beyond : forall fuel year month day,
  1 <= month <= 12 -> year <= T_MAXYEAR ->
  fix_loop fuel year month day (Cal.dim year month) = FixMax ->
  days_before_year (T_MAXYEAR + 1) < vord year month day.
Proof. exact fix_loop_max_only_beyond. Qed.
Print Assumptions C01_fix_loop_max_only_beyond.

(* ------------------------------------------------------------------ layer 3, calendar level *)
(* MONTHLY, every year, every month, every list of (weekday, n<>0) pairs *)
Theorem C01_nwdaymask_monthly_calendar : forall y month pairs,
  1 <= month <= 12 -> (forall wn, In wn pairs -> pair_ok wn) ->
  let ywd := weekday_of_ord (jan1 y) in
  exists m,
    fold_res (nwd_range (wdm_of ywd) pairs) [py_slice (mrange_of (is_leap y)) (month - 1) (month + 1)]
             (zeros (Z.to_nat (year_len y))) = Ok m /\
    forall j, 0 <= j < year_len y ->
      nzb (nth (Z.to_nat j) m 0) =
      (dbm y month <=? j) && (j <? dbm y (month + 1)) &&
      existsb (fun wn => (weekday_of_ord (jan1 y + j) =? fst wn) &&
                         nth_in (j + 1 - dbm y month) (dim y month) (snd wn)) pairs.
Proof. exact nwdaymask_monthly_calendar. Qed.
Print Assumptions C01_nwdaymask_monthly_calendar.

(* YEARLY without BYMONTH *)
Theorem C01_nwdaymask_yearly_calendar : forall y pairs,
  (forall wn, In wn pairs -> pair_ok wn) ->
  let ywd := weekday_of_ord (jan1 y) in
  exists m,
    fold_res (nwd_range (wdm_of ywd) pairs) [[0; year_len y]] (zeros (Z.to_nat (year_len y))) = Ok m /\
    forall j, 0 <= j < year_len y ->
      nzb (nth (Z.to_nat j) m 0) =
      existsb (fun wn => (weekday_of_ord (jan1 y + j) =? fst wn) &&
                         nth_in (j + 1) (year_len y) (snd wn)) pairs.
Proof. exact nwdaymask_yearly_calendar. Qed.
Print Assumptions C01_nwdaymask_yearly_calendar.


(* ------------------------------------------------------------------ layer 5: day sets (YEARLY, DAILY) *)
Theorem C01_ydayset_correct : forall ii, 0 <= yearlen ii ->
  exists ds, ydayset ii = Ok (ds, 0, yearlen ii) /\
             somes (py_slice ds 0 (yearlen ii)) = zrange 0 (yearlen ii).
Proof. exact ydayset_correct. Qed.
Print Assumptions C01_ydayset_correct.

Theorem C01_ddayset_correct : forall ii year month day,
  valid_ymd year month day = true ->
  0 <= ord_of_ymd year month day - yearordinal ii < yearlen ii ->
  let i := ord_of_ymd year month day - yearordinal ii in
  exists ds, ddayset ii year month day = Ok (ds, i, i + 1) /\ py_slice ds i (i + 1) = [Some i].
Proof. exact ddayset_correct. Qed.
Print Assumptions C01_ddayset_correct.

(* ------------------------------------------------------------------ sub-daily building blocks *)
(* __mod_distance: first k in 1..n whose value is in the BY-set, with the carry; None iff no hit *)
Theorem C01_mod_distance_spec : forall n itv base byxxx value acc, 0 < base ->
  match mod_distance_loop n itv base byxxx value acc with
  | Some (a, v) =>
      exists k, 1 <= k <= Z.of_nat n /\ a * base + v = acc * base + value + k * itv /\
                memZ v byxxx = true /\ 0 <= v < base /\
                forall j, 1 <= j < k -> memZ ((value + j * itv) mod base) byxxx = false
  | None => forall j, 1 <= j <= Z.of_nat n -> memZ ((value + j * itv) mod base) byxxx = false
  end.
Proof. exact mod_distance_loop_spec. Qed.
Print Assumptions C01_mod_distance_spec.

(* __construct_byset keeps exactly the members reachable from the start (gcd / Bezout) *)
Theorem C01_construct_byset_reachable : forall itv start base num, 0 < base -> 0 < itv ->
  (let g := Z.gcd itv base in (g =? 1) || ((num - start) mod g =? 0)) = true <->
  exists j, 0 <= j /\ (start + j * itv) mod base = num mod base.
Proof. exact construct_byset_reachable. Qed.
Print Assumptions C01_construct_byset_reachable.

(* ------------------------------------------------------------------ layer 4 (partial): BY-filter clauses *)
(* rebuild() from the initial iterinfo establishes the table-derived slots for year y *)
Theorem C01_rebuild_tables : forall rl y month ii',
  1 <= y <= 9999 -> rebuild rl ii_init y month = Ok ii' -> ii_for ii' y.
Proof. exact rebuild_ii_for. Qed.
Print Assumptions C01_rebuild_tables.

(* each table clause rejects day index i exactly when the calendar date of that index fails the
   declarative predicate (month, day of month or its negative, yearday or its negative, weekday) *)
Theorem C01_cl_month_correct : forall rl ii y, ii_for ii y -> forall i, 0 <= i < year_len y ->
  cl_month rl ii i = Ok (truthy (bymonth rl) && negb (memZ (month_at y i) (opt_list (bymonth rl)))).
Proof. exact cl_month_correct. Qed.
Print Assumptions C01_cl_month_correct.

Theorem C01_cl_monthday_correct : forall rl ii y, ii_for ii y -> forall i, 0 <= i < year_len y ->
  cl_monthday rl ii i =
  Ok ((nonempty (bymonthday rl) || nonempty (bynmonthday rl)) &&
      negb (memZ (mday_at y i) (bymonthday rl)) &&
      negb (memZ (mday_at y i - dim y (month_at y i) - 1) (bynmonthday rl))).
Proof. exact cl_monthday_correct. Qed.
Print Assumptions C01_cl_monthday_correct.

Theorem C01_cl_yearday_correct : forall rl ii y, ii_for ii y -> forall i, 0 <= i < year_len y ->
  cl_yearday rl ii i =
  Ok (truthy (byyearday rl) &&
      negb (memZ (i + 1) (opt_list (byyearday rl))) &&
      negb (memZ (i + 1 - year_len y - 1) (opt_list (byyearday rl)))).
Proof. exact cl_yearday_correct. Qed.
Print Assumptions C01_cl_yearday_correct.

Theorem C01_cl_weekday_plain_correct : forall rl ii y, ii_for ii y -> forall i, 0 <= i < year_len y ->
  nwdaymask ii = None ->
  cl_weekday rl ii i =
  Ok (truthy (byweekday rl) && negb (memZ (weekday_of_ord (jan1 y + i)) (opt_list (byweekday rl)))).
Proof. exact cl_weekday_plain_correct. Qed.
Print Assumptions C01_cl_weekday_plain_correct.

(* ------------------------------------------------------------------ layer 4: day_filter_correct, table family *)
(* Full statement of DESIGN.md (not proved): for every rule in spec_wf outside the findings' guards,
     rebuild ok -> (day index i survives the filter <-> RRSpec.day_ok r (yearordinal + i)).
   Proved part: rules whose day-selecting parts are BYMONTH / BYMONTHDAY / BYYEARDAY / plain BYDAY
   (incl. the start-derived defaults), through the constructor's normalisation, every year 1..9999,
   every day of the year: the model's filter rejects the day iff the specification does. *)
Theorem C01_day_filter_correct_partial : forall r rl ii y i,
  normalize r = Ok rl -> spec_wf r = true ->
  r_byweekno r = None -> r_byeaster r = None -> plain_only r = true ->
  ii_for ii y -> nwdaymask ii = None -> 1 <= y <= 9999 -> 0 <= i < year_len y ->
  day_rejected rl ii i = Ok (negb (day_ok r (jan1 y + i))).
Proof. exact day_filter_correct_tables. Qed.
Print Assumptions C01_day_filter_correct_partial.

(* the same with BYWEEKNO (members in the RFC range -53..53), years 1..9999, on
   the iterinfo that rebuild() produces: composes layers 1, 2 and 4 and the constructor *)
Theorem C01_day_filter_correct_weekno : forall r rl y month ii i,
  normalize r = Ok rl -> spec_wf r = true -> r_byeaster r = None -> plain_only r = true ->
  all_opt (r_byweekno r) weekno_safe = true ->
  1 <= y <= 9999 -> rebuild rl ii_init y month = Ok ii -> 0 <= i < year_len y ->
  day_rejected rl ii i = Ok (negb (day_ok r (jan1 y + i))).
Proof. exact day_filter_correct_weekno_guarded. Qed.
Print Assumptions C01_day_filter_correct_weekno.

(* ... and with BYEASTER for the years where C19 proves easter() right: the strongest layer-4
   statement proved.  Missing from DESIGN's day_filter_correct: nth-weekday BYDAY (mask proved, not
   plugged in) and the 7-day extension of WEEKLY rules. *)
Theorem C01_day_filter_correct_guarded : forall r rl y month ii i,
  normalize r = Ok rl -> spec_wf r = true -> plain_only r = true ->
  all_opt (r_byweekno r) weekno_safe = true ->
  (r_byeaster r = None \/ 1583 <= y <= 4098) ->
  1 <= y <= 9999 -> rebuild rl ii_init y month = Ok ii -> 0 <= i < year_len y ->
  day_rejected rl ii i = Ok (negb (day_ok r (jan1 y + i))).
Proof. exact day_filter_correct_guarded. Qed.
Print Assumptions C01_day_filter_correct_guarded.

(* MONTHLY rules with nth weekdays (plain OR nth -- fix 5028dcd), on the days of the cursor's month *)
Theorem C01_day_filter_correct_monthly_nth_guarded : forall r rl y month ii i,
  normalize r = Ok rl -> spec_wf r = true -> r_freq r = MONTHLY -> truthy (bynweekday rl) = true ->
  all_opt (r_byweekno r) weekno_safe = true ->
  (r_byeaster r = None \/ 1583 <= y <= 4098) ->
  1 <= y <= 9999 -> 1 <= month <= 12 -> rebuild rl ii_init y month = Ok ii ->
  dbm y month <= i < dbm y (month + 1) ->
  day_rejected rl ii i = Ok (negb (day_ok r (jan1 y + i))).
Proof. exact day_filter_correct_monthly_nth_guarded. Qed.
Print Assumptions C01_day_filter_correct_monthly_nth_guarded.

(* YEARLY rules without BYMONTH with nth weekdays (n-th weekday of the year), every day of the year *)
Theorem C01_day_filter_correct_yearly_nth_guarded : forall r rl y month ii i,
  normalize r = Ok rl -> spec_wf r = true -> r_freq r = YEARLY -> r_bymonth r = None ->
  truthy (bynweekday rl) = true ->
  all_opt (r_byweekno r) weekno_safe = true ->
  (r_byeaster r = None \/ 1583 <= y <= 4098) ->
  1 <= y <= 9999 -> rebuild rl ii_init y month = Ok ii -> 0 <= i < year_len y ->
  day_rejected rl ii i = Ok (negb (day_ok r (jan1 y + i))).
Proof. exact day_filter_correct_yearly_nth_guarded. Qed.
Print Assumptions C01_day_filter_correct_yearly_nth_guarded.

(* ------------------------------------------------------------------ layers 4+5 composed: one YEARLY pass *)
(* the filter loop replaces exactly the rejected indices by None (any rejection function) *)
Theorem C01_filter_loop_correct : forall rl ii rej ylen, 0 <= ylen ->
  (forall i, 0 <= i < ylen -> day_rejected rl ii i = Ok (rej i)) ->
  let ds := map Some (zrange 0 ylen) in
  filter_loop rl ii (py_slice ds 0 ylen) ds false =
  Ok (map (mark rej) (zrange 0 ylen), existsb rej (zrange 0 ylen)).
Proof. exact filter_loop_correct. Qed.
Print Assumptions C01_filter_loop_correct.

(* one pass of a YEARLY rule (BYMONTH, BYMONTHDAY, BYYEARDAY, plain BYDAY, guarded BYWEEKNO, BYEASTER
   in 1583..4098): the surviving days are exactly the days of calendar year y accepted by
   RRSpec.day_ok, in order = the day list of RRSpec.cands_coarse for that period *)
Theorem C01_yearly_pass_days_correct : forall r rl y month ii,
  normalize r = Ok rl -> spec_wf r = true -> r_freq r = YEARLY -> plain_only r = true ->
  all_opt (r_byweekno r) weekno_safe = true ->
  (r_byeaster r = None \/ 1583 <= y <= 4098) ->
  1 <= y <= 9999 -> rebuild rl ii_init y month = Ok ii ->
  exists ds ds' f,
    getdayset rl ii y month 1 = Ok (ds, 0, year_len y) /\
    filter_loop rl ii (py_slice ds 0 (year_len y)) ds false = Ok (ds', f) /\
    map (fun i => yearordinal ii + i) (somes (py_slice ds' 0 (year_len y))) =
    filter (day_ok r) (zrange (jan1 y) (jan1 (y + 1))).
Proof. exact yearly_pass_days_correct. Qed.
Print Assumptions C01_yearly_pass_days_correct.

(* without BYSETPOS the days x times loop is the gate applied to [(day, time) | day, time] *)
Theorem C01_out_days_is_gate : forall rl yo ts sl cnt out,
  (forall i, In i (somes sl) -> from_ordinal (yo + i) = Ok (yo + i)) ->
  out_days rl yo sl ts cnt out =
  gate_list rl (flat_map (fun i => map (fun t => (yo + i, t)) ts) (somes sl)) cnt out.
Proof. exact out_days_is_gate. Qed.
Print Assumptions C01_out_days_is_gate.

(* one pass of a YEARLY rule without BYSETPOS: what reaches the until/dtstart/count gate is
   [(o, t) | o <- days of year y accepted by RRSpec.day_ok, t <- time set], in order *)
Theorem C01_yearly_pass_candidates : forall r rl y month ii ts cnt out,
  normalize r = Ok rl -> spec_wf r = true -> r_freq r = YEARLY -> plain_only r = true ->
  all_opt (r_byweekno r) weekno_safe = true ->
  (r_byeaster r = None \/ 1583 <= y <= 4098) ->
  1 <= y <= 9999 -> rebuild rl ii_init y month = Ok ii ->
  exists ds ds' f,
    getdayset rl ii y month 1 = Ok (ds, 0, year_len y) /\
    filter_loop rl ii (py_slice ds 0 (year_len y)) ds false = Ok (ds', f) /\
    out_days rl (yearordinal ii) (py_slice ds' 0 (year_len y)) ts cnt out =
    gate_list rl (flat_map (fun o => map (fun t => (o, t)) ts)
                           (filter (day_ok r) (zrange (jan1 y) (jan1 (y + 1))))) cnt out.
Proof. exact yearly_pass_candidates. Qed.
Print Assumptions C01_yearly_pass_candidates.

(* ------------------------------------------------------------------ layer 7 building blocks *)
(* the generator's until/dtstart/count gate yields exactly what the specification's take yields on the
   candidates not earlier than the start (every candidate list, COUNT, UNTIL) *)
Theorem C01_gate_is_spec_take : forall rl r,
  dtstart_inst rl = sp_start r -> until rl = r_until r ->
  forall xs cnt acc,
  fst (fst (gate_list rl xs cnt acc)) =
  fst (fst (sp_take r (filter (inst_le (sp_start r)) xs) cnt acc)).
Proof. exact gate_list_items. Qed.
Print Assumptions C01_gate_is_spec_take.

Theorem C01_normalize_start_until : forall r rl,
  normalize r = Ok rl -> valid_ymd (r_y r) (r_m r) (r_d r) = true ->
  dtstart_inst rl = sp_start r /\ until rl = r_until r /\ count rl = r_count r.
Proof. exact normalize_start_until. Qed.
Print Assumptions C01_normalize_start_until.

(* one pass of a YEARLY rule without BYSETPOS, end to end, against the specification *)
Theorem C01_yearly_pass_yields : forall r rl y month ii ts cnt out,
  normalize r = Ok rl -> spec_wf r = true -> r_freq r = YEARLY -> plain_only r = true ->
  all_opt (r_byweekno r) weekno_safe = true ->
  (r_byeaster r = None \/ 1583 <= y <= 4098) ->
  1 <= y <= 9999 -> rebuild rl ii_init y month = Ok ii ->
  exists ds ds' f,
    getdayset rl ii y month 1 = Ok (ds, 0, year_len y) /\
    filter_loop rl ii (py_slice ds 0 (year_len y)) ds false = Ok (ds', f) /\
    fst (fst (out_days rl (yearordinal ii) (py_slice ds' 0 (year_len y)) ts cnt out)) =
    fst (fst (sp_take r
      (filter (inst_le (sp_start r))
         (flat_map (fun o => map (fun t => (o, t)) ts)
                   (filter (day_ok r) (zrange (jan1 y) (jan1 (y + 1)))))) cnt out)).
Proof. exact yearly_pass_yields. Qed.
Print Assumptions C01_yearly_pass_yields.

(* the constructor's time set is the specification's period_times (FREQ coarser than HOURLY): the
   lexicographic product of sorted duplicate-free valid lists is sorted, so sort() is the identity *)
Theorem C01_timeset_is_spec : forall r rl,
  normalize r = Ok rl -> spec_wf r = true -> (r_freq r <? HOURLY) = true ->
  timeset rl = Some (period_times r 0).
Proof. exact timeset_is_spec. Qed.
Print Assumptions C01_timeset_is_spec.

(* ONE PASS OF THE MODEL = ONE STEP OF THE SPECIFICATION, YEARLY without BYSETPOS, day-selecting parts
   BYMONTH / BYMONTHDAY / BYYEARDAY / plain BYDAY / guarded BYWEEKNO / BYEASTER (1583..4098): for the
   period k (year r_y + k*interval in 2..9999), with the iterinfo rebuild() produces, the instants the
   pass adds to the output are exactly what the body of RRSpec.spec_loop adds for step k.
   (Not proved: the induction over passes -- cursor of pass k, rebuild on a non-initial iterinfo,
   stop conditions -- which would give rrule_iter_correct for this family.) *)
Theorem C01_yearly_pass_is_spec_step : forall r rl k month ii ts cnt out,
  normalize r = Ok rl -> spec_wf r = true -> r_freq r = YEARLY -> plain_only r = true ->
  r_bysetpos r = None ->
  all_opt (r_byweekno r) weekno_safe = true ->
  let y := r_y r + k * r_interval r in
  (r_byeaster r = None \/ 1583 <= y <= 4098) ->
  1 <= y <= 9999 -> rebuild rl ii_init y month = Ok ii -> timeset rl = Some ts ->
  exists ds ds' f,
    getdayset rl ii y month 1 = Ok (ds, 0, year_len y) /\
    filter_loop rl ii (py_slice ds 0 (year_len y)) ds false = Ok (ds', f) /\
    fst (fst (out_days rl (yearordinal ii) (py_slice ds' 0 (year_len y)) ts cnt out)) =
    fst (fst (sp_take r (step_items r k) cnt out)).
Proof. exact yearly_pass_is_spec_step. Qed.
Print Assumptions C01_yearly_pass_is_spec_step.

(* toward the induction over passes: with no nth weekday, rebuild() after a year change does not
   depend on the previous iterinfo *)
Theorem C01_rebuild_from_previous_year : forall rl ii y month,
  opt_neqb (lastyear ii) y = true -> truthy (bynweekday rl) = false -> nwdaymask ii = None ->
  (truthy (byeaster rl) = true \/ eastermask ii = None) ->
  rebuild rl ii y month = rebuild rl ii_init y month.
Proof. exact rebuild_from_previous_year. Qed.
Print Assumptions C01_rebuild_from_previous_year.

(* rebuild() never raises for rules without nth weekdays (no IndexError, no ValueError): years 2..9999,
   1583..4098 when BYEASTER is used; any BYWEEKNO list *)
Theorem C01_rebuild_succeeds : forall rl y month,
  1 <= y <= 9999 -> 0 <= wkst rl <= 6 -> truthy (bynweekday rl) = false ->
  (truthy (byeaster rl) = false \/ 1583 <= y <= 4098) ->
  exists ii', rebuild rl ii_init y month = Ok ii'.
Proof. exact rebuild_succeeds. Qed.
Print Assumptions C01_rebuild_succeeds.

(* ------------------------------------------------------------------ layer 7: rrule_iter_correct, one family *)
(* Full statement of DESIGN.md (not proved in full generality; it was FALSE of the code before the four
   fixes, see the regression theorems at the end):
     forall raw rule n, normalize raw = Some rule ->
       observable (iter_periods rule (fuel_for rule n)) n = spec_iter rule n.
   Proved part (rrule_iter_correct_partial): every YEARLY rule without BYSETPOS / COUNT / UNTIL / BYEASTER
   whose day-selecting parts are BYMONTH, BYMONTHDAY, BYYEARDAY, plain BYDAY and BYWEEKNO within the
   RFC range -53..53: for every number of passes n that stays
   within year 9999 and every limit, model and specification yield the same instants in the same order
   (constructor + rebuild + day set + filter + time set + gate + advance, by induction over passes). *)
(* C01_rrule_iter_correct_partial: superseded by the headline theorems; still proved in coq/rr, no longer restated here *)

(* the same with BYEASTER, when every pass stays within the years of C19's theorem (1583..4098) *)
(* C01_rrule_iter_correct_easter_partial: superseded by the headline theorems; still proved in coq/rr, no longer restated here *)

(* once COUNT is used up the generator's loop adds nothing more -- every rule, every frequency *)
Theorem C01_count_exhausted_stops : forall rl limit n s,
  dead s -> fst (run rl limit n s) = c_out s.
Proof. exact run_dead. Qed.
Print Assumptions C01_count_exhausted_stops.

(* the family theorem WITH COUNT (and optional BYEASTER); no UNTIL.  The specification stops at the
   beginning of the step after COUNT is used up, the code scans on: same yielded instants for every
   number of passes *)
(* C01_rrule_iter_correct_count_partial: superseded by the headline theorems; still proved in coq/rr, no longer restated here *)

(* THE STRONGEST FORM PROVED: the family theorem with COUNT and UNTIL (and optional BYEASTER).
   yfam_u r = spec_wf r, FREQ = YEARLY, no BYSETPOS, BYDAY plain (no nth weekday), BYWEEKNO members in
   -53..53 (the RFC 5545 range); any interval, wkst, BYMONTH, BYMONTHDAY (+/-), BYYEARDAY (+/-),
   BYHOUR / BYMINUTE / BYSECOND, COUNT, UNTIL, date or datetime start.  For every number
   of passes n that stays within year 9999 (within 1583..4098 when BYEASTER is used) and every limit,
   the model of dateutil's generator and the specification yield the same instants in the same
   order.  The specification stops period-wise on UNTIL / COUNT, the code at the first candidate that
   trips the gate (possibly one before dtstart) or never: the yielded instants agree all the same. *)
(* C01_rrule_iter_correct_yearly_partial: superseded by the headline theorems; still proved in coq/rr, no longer restated here *)

(* the same for EVERY number of passes (no bound: when the next year would pass 9999 the code returns
   by the MAXYEAR test, the specification at the next step's range test), rules without BYEASTER *)
(* C01_rrule_iter_correct_yearly_all_fuel_partial: superseded by the headline theorems; still proved in coq/rr, no longer restated here *)


(* ------------------------------------------------------------------ layer 6, sub-daily advance (builder rset, coq/rr/RRSub*.v) *)
(* one execution of the HOURLY / MINUTELY / SECONDLY advance branch leads to the first later period whose
   hour (minute, second) is admissible; every skipped period is on a filtered-out day or not admissible,
   i.e. has an empty candidate list in the specification; the failure exit (ValueError, or TypeError from
   __mod_distance returning None) happens only when NO later period can ever match. *)
Theorem C01_advance_correct_hourly : forall r rl k filtered,
  normalize r = Ok rl -> r_freq r = HOURLY -> 1 <= r_interval r ->
  0 <= sp_H0 r <= 23 -> 0 <= sp_M0 r <= 59 -> 0 <= sp_S0 r <= 59 ->
  (forall l, r_byhour r = Some l -> forall x, In x l -> 0 <= x <= 23) -> 0 <= k ->
  let n := sp_H0 r + k * r_interval r in
  let od := sp_ord0 r + n / 24 in
  (filtered = true -> day_ok r od = false) ->
  exists nd h' k',
    hourly_core rl filtered (n mod 24) = Ok (nd, h') /\ k < k' /\
    od + nd = sp_ord0 r + (sp_H0 r + k' * r_interval r) / 24 /\
    h' = (sp_H0 r + k' * r_interval r) mod 24 /\
    in_opt (r_byhour r) (Z.eqb h') = true /\
    forall j, k < j < k' -> period_cands r j = [].
Proof. exact advance_correct_hourly. Qed.
Print Assumptions C01_advance_correct_hourly.

Theorem C01_hourly_never_fails : forall r rl filtered k, normalize r = Ok rl -> r_freq r = HOURLY ->
  1 <= r_interval r -> 0 <= sp_H0 r <= 23 -> 0 <= k ->
  (forall l, r_byhour r = Some l -> forall x, In x l -> 0 <= x <= 23) ->
  exists nd h, hourly_core rl filtered ((sp_H0 r + k * r_interval r) mod 24) = Ok (nd, h).
Proof. exact hourly_never_fails. Qed.
Print Assumptions C01_hourly_never_fails.

Theorem C01_hourly_core_spec : forall rl filtered hour, 1 <= interval rl -> 0 <= hour <= 23 ->
  match hourly_core rl filtered hour with
  | Ok (ndays, h') =>
      exists j, 1 <= j /\ ndays * 24 + h' = hour + j * interval rl /\ 0 <= h' <= 23 /\ 0 <= ndays /\
                (truthy (byhour rl) = true -> memZ h' (opt_list (byhour rl)) = true) /\
                forall i, 1 <= i < j -> skipped_hour rl filtered hour i
  | Err e => e = EType /\ truthy (byhour rl) = true /\
             forall i, 1 <= i -> skipped_hour rl filtered hour i
  end.
Proof. exact hourly_core_spec. Qed.
Print Assumptions C01_hourly_core_spec.

Theorem C01_minutely_core_spec : forall rl filtered hour minute day,
  1 <= interval rl -> 0 <= hour < 24 -> 0 <= minute < 60 ->
  let A0 := hour * 60 + minute in
  match minutely_core rl filtered hour minute day with
  | Ok (mi', hh', dd', fx') =>
      exists j, 1 <= j /\ (dd' - day) * 1440 + hh' * 60 + mi' = A0 + j * interval rl /\
        0 <= mi' < 60 /\ 0 <= hh' < 24 /\ day <= dd' /\ (fx' = false -> dd' = day) /\
        min_adm rl (A0 + j * interval rl) = true /\
        (filtered = true -> 1439 < A0 + j * interval rl) /\
        forall i, 1 <= i < j -> skipped_min rl filtered A0 i
  | Err e => (e = EValue \/ e = EType) /\ forall i, 1 <= i -> skipped_min rl filtered A0 i
  end.
Proof. exact minutely_core_spec. Qed.
Print Assumptions C01_minutely_core_spec.

Theorem C01_secondly_core_spec : forall rl filtered hour minute second day,
  1 <= interval rl -> 0 <= hour < 24 -> 0 <= minute < 60 -> 0 <= second < 60 ->
  let A0 := hour * 3600 + minute * 60 + second in
  match secondly_core rl filtered hour minute second day with
  | Ok (se', mi', hh', dd', fx') =>
      exists j, 1 <= j /\ (dd' - day) * 86400 + hh' * 3600 + mi' * 60 + se' = A0 + j * interval rl /\
        0 <= se' < 60 /\ 0 <= mi' < 60 /\ 0 <= hh' < 24 /\ day <= dd' /\ (fx' = false -> dd' = day) /\
        sec_adm rl (A0 + j * interval rl) = true /\
        (filtered = true -> 86399 < A0 + j * interval rl) /\
        forall i, 1 <= i < j -> skipped_sec rl filtered A0 i
  | Err e => (e = EValue \/ e = EType) /\ forall i, 1 <= i -> skipped_sec rl filtered A0 i
  end.
Proof. exact secondly_core_spec. Qed.
Print Assumptions C01_secondly_core_spec.

Theorem C01_cands_subdaily_day_periods : forall r j, 1 <= r_interval r ->
  let u := unit_secs r in
  let stp := r_interval r * u in
  let t0 := sub_t0 r in
  let dlo := (sp_ord0 r + j) * 86400 in
  let klo := Z.max 0 ((dlo - t0 + stp - 1) / stp) in
  let khi := (dlo + 86399 - t0) / stp in
  cands_subdaily_day r j = flat_map (period_cands r) (zrange klo (khi + 1)).
Proof. exact cands_subdaily_day_periods. Qed.
Print Assumptions C01_cands_subdaily_day_periods.

(* ------------------------------------------------------------------ layer 7: the MONTHLY family *)
(* the month's day set: None outside the month, Some i inside *)
Theorem C01_mdayset_correct : forall ii y month,
  ii_for ii y -> 1 <= month <= 12 ->
  let st := dbm y month in let en := dbm y (month + 1) in
  exists ds, mdayset ii month = Ok (ds, st, en) /\
    ds = repeat None (Z.to_nat st) ++ map Some (zrange st en) ++ repeat None (Z.to_nat (year_len y - en)).
Proof. exact mdayset_correct. Qed.
Print Assumptions C01_mdayset_correct.

(* rrule_iter_correct for every MONTHLY rule without BYSETPOS / BYEASTER / nth weekday (BYMONTH, BYMONTHDAY,
   BYYEARDAY, plain BYDAY, BYWEEKNO in the RFC range; COUNT, UNTIL, any interval and time expansion),
   EVERY fuel *)
(* C01_rrule_iter_correct_monthly_partial: superseded by the headline theorems; still proved in coq/rr, no longer restated here *)

(* ------------------------------------------------------------------ sub-daily, batches 2 and 3 of builder rset *)
Theorem C01_minutely_no_typeerror : forall r rl filtered k day,
  normalize r = Ok rl -> r_freq r = MINUTELY -> 1 <= r_interval r -> 0 <= sp_M0 r <= 59 -> 0 <= k ->
  (forall l, r_byminute r = Some l -> forall x, In x l -> 0 <= x <= 59) ->
  let a := min_n r k mod 1440 in
  minutely_core rl filtered (a / 60) (a mod 60) day <> Err EType.
Proof. exact minutely_no_typeerror. Qed.
Print Assumptions C01_minutely_no_typeerror.

Theorem C01_secondly_no_typeerror : forall r rl filtered k day,
  normalize r = Ok rl -> r_freq r = SECONDLY -> 1 <= r_interval r -> 0 <= sp_S0 r <= 59 -> 0 <= k ->
  (forall l, r_bysecond r = Some l -> forall x, In x l -> 0 <= x <= 59) ->
  let a := sec_n r k mod 86400 in
  secondly_core rl filtered (a / 3600) ((a / 60) mod 60) (a mod 60) day <> Err EType.
Proof. exact secondly_no_typeerror. Qed.
Print Assumptions C01_secondly_no_typeerror.

Theorem C01_htimeset_is_spec : forall r rl h, normalize r = Ok rl -> spec_wf r = true -> r_freq r = HOURLY ->
  0 <= h <= 23 -> in_opt (r_byhour r) (Z.eqb h) = true ->
  htimeset rl h = Ok (period_times r (h * 3600)).
Proof. exact htimeset_is_spec. Qed.
Print Assumptions C01_htimeset_is_spec.

Theorem C01_mtimeset_is_spec : forall r rl h m, normalize r = Ok rl -> spec_wf r = true -> r_freq r = MINUTELY ->
  0 <= h <= 23 -> 0 <= m <= 59 ->
  in_opt (r_byhour r) (Z.eqb h) = true -> in_opt (r_byminute r) (Z.eqb m) = true ->
  mtimeset rl h m = Ok (period_times r (h * 3600 + m * 60)).
Proof. exact mtimeset_is_spec. Qed.
Print Assumptions C01_mtimeset_is_spec.

Theorem C01_stimeset_is_spec : forall r h m s, spec_wf r = true -> r_freq r = SECONDLY ->
  0 <= h <= 23 -> 0 <= m <= 59 -> 0 <= s <= 59 ->
  in_opt (r_byhour r) (Z.eqb h) = true -> in_opt (r_byminute r) (Z.eqb m) = true ->
  in_opt (r_bysecond r) (Z.eqb s) = true ->
  stimeset h m s = Ok (period_times r (h * 3600 + m * 60 + s)).
Proof. exact stimeset_is_spec. Qed.
Print Assumptions C01_stimeset_is_spec.

Theorem C01_step_single_day : forall rl s rj,
  (DAILY <=? freq rl) && (freq rl <=? SECONDLY) = true ->
  truthy (bysetpos rl) = false ->
  valid_ymd (c_year s) (c_month s) (c_day s) = true ->
  let o := ord_of_ymd (c_year s) (c_month s) (c_day s) in
  let i := o - yearordinal (c_ii s) in
  0 <= i < yearlen (c_ii s) -> 1 <= o <= max_ord ->
  day_rejected rl (c_ii s) i = Ok rj ->
  step rl s =
  after_gate rl s rj
    (if rj then (c_out s, c_count s, None)
     else gate_list rl (map (fun t => (o, t)) (c_timeset s)) (c_count s) (c_out s)).
Proof. exact step_single_day. Qed.
Print Assumptions C01_step_single_day.

(* ------------------------------------------------------------------ regression of the repaired defects *)
(* the four inputs that were `_refuted` witnesses (model <> specification) before /repo commits 83f8e67,
   12b1f51, c760855, 049bb14: the model mirrors the fixed code and now agrees with the specification *)
Theorem C01_regress_weekno : spec_wf raw_weekno = true /\ agrees raw_weekno 100 10 = true /\
  In (ord_of_ymd 1891 12 31, 0) (fst (spec_iter raw_weekno 100 10)).
Proof. exact regress_weekno. Qed.
Print Assumptions C01_regress_weekno.

Theorem C01_regress_setpos_week : spec_wf raw_setpos = true /\ agrees raw_setpos 100 10 = true /\
  hd_error (fst (spec_iter raw_setpos 100 10)) = Some (ord_of_ymd 1997 9 8, 32400).
Proof. exact regress_setpos_week. Qed.
Print Assumptions C01_regress_setpos_week.

Theorem C01_regress_easter_week : spec_wf raw_easter = true /\ agrees raw_easter 100 30 = true /\
  fst (spec_iter raw_easter 100 30) = [(ord_of_ymd 2017 1 1, 0)].
Proof. exact regress_easter_week. Qed.
Print Assumptions C01_regress_easter_week.

Theorem C01_regress_year1 : spec_wf raw_year1 = true /\ agrees raw_year1 100 10 = true /\
  hd_error (fst (spec_iter raw_year1 100 10)) = Some (ord_of_ymd 1 1 2, 0).
Proof. exact regress_year1. Qed.
Print Assumptions C01_regress_year1.

(* ------------------------------------------------------------------ layer 7: the DAILY family *)
(* rebuild() within the same year (month change) does not depend on the previous iterinfo *)
Theorem C01_rebuild_same_year : forall rl y m0 m ii,
  rebuild rl ii_init y m0 = Ok ii -> 1 <= y <= 9999 -> truthy (bynweekday rl) = false ->
  rebuild rl ii y m = rebuild rl ii_init y m.
Proof. exact rebuild_same_year. Qed.
Print Assumptions C01_rebuild_same_year.

(* rrule_iter_correct for every DAILY rule without BYSETPOS / BYEASTER / nth weekday (BYMONTH, BYMONTHDAY,
   BYYEARDAY, plain BYDAY, BYWEEKNO in the RFC range; COUNT, UNTIL, any interval and time expansion),
   EVERY fuel: the cursor of pass k is the day start + k*interval (fixday carry loop), the iterinfo is
   rebuilt at month changes only *)
(* C01_rrule_iter_correct_daily_partial: superseded by the headline theorems; still proved in coq/rr, no longer restated here *)

(* ---- WEEKLY *)
(* the week's day set: from the cursor to the end of its WKST-week, possibly reaching into the 7-day
   extension of the year's masks, and not beyond 9999-12-31 (fix 8ced7a9) *)
Theorem C01_wdayset_correct : forall rl ii y year month day,
  ii_for ii y -> 0 <= wkst rl <= 6 -> valid_ymd year month day = true ->
  let i0 := ord_of_ymd year month day - jan1 y in
  0 <= i0 < year_len y ->
  let L := Z.min (week_rest (weekday_of_ord (jan1 y)) (wkst rl) i0) (max_ord + 1 - (jan1 y + i0)) in
  exists ds suf,
    wdayset rl ii year month day = Ok (ds, i0, i0 + L) /\
    ds = repeat None (Z.to_nat i0) ++ map Some (zrange i0 (i0 + L)) ++ suf /\ 1 <= L <= 7.
Proof. exact wdayset_correct. Qed.
Print Assumptions C01_wdayset_correct.

(* day_filter_correct on the EXTENSION: the days of next January that belong to the week that began in
   year y are filtered with the old year's masks exactly as the specification filters those dates *)
Theorem C01_day_filter_correct_extension : forall r rl y month ii i,
  normalize r = Ok rl -> spec_wf r = true -> plain_only r = true ->
  all_opt (r_byweekno r) weekno_safe = true -> r_byeaster r = None ->
  1 <= y <= 9999 -> rebuild rl ii_init y month = Ok ii ->
  year_len y <= i < year_len y + 7 -> used_index (shape_of y) (r_wkst r) i = true ->
  day_rejected rl ii i = Ok (negb (day_ok r (jan1 y + i))).
Proof. exact day_filter_ext. Qed.
Print Assumptions C01_day_filter_correct_extension.

(* rrule_iter_correct for every WEEKLY rule without BYSETPOS / BYEASTER / nth weekday (BYMONTH, BYMONTHDAY,
   BYYEARDAY, plain BYDAY incl. the default taken from the start, BYWEEKNO in the RFC range; COUNT, UNTIL,
   any interval, any WKST, time expansion), for every number n of passes (wlo r k = first day of period k; the
   last, cut-off week of year 9999 is included since fix 8ced7a9). *)
(* C01_rrule_iter_correct_weekly_partial: superseded by the headline theorems; still proved in coq/rr, no longer restated here *)

(* ---- sub-daily families (rset builder): the run theorems *)
Theorem C01_advance_correct_minutely : forall (r : raw) (rl : rule),
  normalize r = Ok rl -> r_freq r = MINUTELY -> 1 <= r_interval r -> ne_list (r_byhour r) ->
  forall (k : Z) (filtered : bool) (day : Z), 0 <= k -> 0 <= sp_S0 r <= 59 ->
  let od := sp_ord0 r + min_n r k / 1440 in
  let hour := (min_n r k mod 1440) / 60 in
  let minute := (min_n r k mod 1440) mod 60 in
  (filtered = true -> day_ok r od = false) ->
  match minutely_core rl filtered hour minute day with
  | Ok (mi', hh', dd', fx') =>
      exists k', k < k' /\
        od + (dd' - day) = sp_ord0 r + min_n r k' / 1440 /\ hh' * 60 + mi' = min_n r k' mod 1440 /\
        0 <= mi' < 60 /\ 0 <= hh' < 24 /\ day <= dd' /\ (fx' = false -> dd' = day) /\
        in_opt (r_byhour r) (Z.eqb hh') = true /\ in_opt (r_byminute r) (Z.eqb mi') = true /\
        forall j, k < j < k' -> period_cands r j = []
  | Err e => (e = EValue \/ e = EType) /\ forall j, k < j -> period_cands r j = []
  end.
Proof. exact advance_correct_minutely_top. Qed.
Print Assumptions C01_advance_correct_minutely.

Theorem C01_advance_correct_secondly : forall (r : raw) (rl : rule),
  normalize r = Ok rl -> r_freq r = SECONDLY -> 1 <= r_interval r ->
  ne_list (r_byhour r) -> ne_list (r_byminute r) ->
  forall (k : Z) (filtered : bool) (day : Z), 0 <= k ->
  let od := sp_ord0 r + sec_n r k / 86400 in
  let a := sec_n r k mod 86400 in
  (filtered = true -> day_ok r od = false) ->
  match secondly_core rl filtered (a / 3600) ((a / 60) mod 60) (a mod 60) day with
  | Ok (se', mi', hh', dd', fx') =>
      exists k', k < k' /\
        od + (dd' - day) = sp_ord0 r + sec_n r k' / 86400 /\
        hh' * 3600 + mi' * 60 + se' = sec_n r k' mod 86400 /\
        0 <= se' < 60 /\ 0 <= mi' < 60 /\ 0 <= hh' < 24 /\ day <= dd' /\ (fx' = false -> dd' = day) /\
        in_opt (r_byhour r) (Z.eqb hh') = true /\ in_opt (r_byminute r) (Z.eqb mi') = true /\
        in_opt (r_bysecond r) (Z.eqb se') = true /\
        forall j, k < j < k' -> period_cands r j = []
  | Err e => (e = EValue \/ e = EType) /\ forall j, k < j -> period_cands r j = []
  end.
Proof. exact advance_correct_secondly_top. Qed.
Print Assumptions C01_advance_correct_secondly.

(* what the model yields for an HOURLY / MINUTELY / SECONDLY rule of the guarded family is what the
   until/start/count gate lets through of the candidates of periods 0 .. k_end-1, in order *)
(* C01_hourly_iter_family_partial: superseded by the headline theorems; still proved in coq/rr, no longer restated here *)

(* C01_minutely_iter_family_partial: superseded by the headline theorems; still proved in coq/rr, no longer restated here *)

(* C01_secondly_iter_family_partial: superseded by the headline theorems; still proved in coq/rr, no longer restated here *)

(* ... in terms of the specification only *)
(* C01_subdaily_iter_family_take_partial: superseded by the headline theorems; still proved in coq/rr, no longer restated here *)

(* closing statement for sub-daily rules: for every fuel and limit, what the model has yielded is a
   PREFIX of the specification's sequence (soundness and order of every yielded instant, including the
   COUNT / UNTIL / year-9999 / ValueError stops).  _partial w.r.t. rrule_iter_correct: the converse
   (every instant of the specification is eventually yielded) is not proved, and equality at EQUAL fuel
   is false for sub-daily rules (the model tests `limit` per pass, the specification per day). *)
(* C01_subdaily_prefix_of_spec_partial: superseded by the headline theorems; still proved in coq/rr, no longer restated here *)

(* ---- sub-daily (rset builder): the converse, the stream equality, the advance step as one statement *)
(* C01_subdaily_spec_prefix_of_iterate: superseded by the headline theorems; still proved in coq/rr, no longer restated here *)

(* rrule_iter_correct for the sub-daily families, as equality of the two STREAMS (position by position,
   unbounded in limit / fuel / days); equality at equal fuel is false for sub-daily rules *)
(* C01_rrule_iter_correct_subdaily_stream_partial: superseded by the headline theorems; still proved in coq/rr, no longer restated here *)

(* C01_subdaily_nth_agree: superseded by the headline theorems; still proved in coq/rr, no longer restated here *)

(* the specification's sequence does not depend on limit / fuel (any two runs are prefix-comparable) *)
Theorem C01_spec_iter_comparable : forall r L d L' d',
  is_prefix (fst (spec_iter r L d)) (fst (spec_iter r L' d')) \/
  is_prefix (fst (spec_iter r L' d')) (fst (spec_iter r L d)).
Proof. exact spec_iter_comparable. Qed.
Print Assumptions C01_spec_iter_comparable.

Theorem C01_advance_correct_subdaily : forall r rl fr, normalize r = Ok rl -> sfam r fr ->
  fr = HOURLY \/ fr = MINUTELY \/ fr = SECONDLY ->
  forall s k cnt out, den_sub r rl s k ->
  match advance rl s (filt_sub r k) cnt out with
  | Ok (AdvGo s') =>
      exists k', k < k' /\ den_sub r rl s' k' /\ (forall j, k < j < k' -> period_cands r j = []) /\
                 c_count s' = cnt /\ c_out s' = out
  | Ok AdvFuel => False
  | Ok AdvMax => dead_after r k
  | Err _ => dead_after r k
  end.
Proof. exact advance_correct_subdaily. Qed.
Print Assumptions C01_advance_correct_subdaily.

(* ---- BYSETPOS *)
(* the poslist loop (divmod positions, IndexError swallowed, `not in poslist`, sort) is the specification's
   selection by 1-based position / position from the end, on the period's candidate list *)
Theorem C01_poslist_is_select_pos : forall yo ts P poss, (0 < length ts)%nat ->
  ssorted P = true -> ssorted ts = true ->
  (forall i, In i P -> from_ordinal (yo + i) = Ok (yo + i)) ->
  forallb (fun p => negb (p =? 0)) poss = true ->
  let C := cand_list yo ts P in
  exists pl, poslist_build yo P ts poss [] = Ok pl /\
             sort_inst pl = select_pos_aux poss (zlen C) 0 C.
Proof. exact poslist_is_select_pos. Qed.
Print Assumptions C01_poslist_is_select_pos.

(* ---- the loop theorems with BYSETPOS and nth weekdays *)
(* every MONTHLY rule of the specification's domain without BYEASTER (BYWEEKNO in the RFC range): plain and
   nth weekdays, BYSETPOS, COUNT, UNTIL, any interval; EVERY fuel *)
(* C01_rrule_iter_correct_monthly_all_partial: superseded by the headline theorems; still proved in coq/rr, no longer restated here *)

(* YEARLY without BYEASTER: plain BYDAY with anything else, or nth weekdays without BYMONTH; BYSETPOS free;
   EVERY fuel *)
(* C01_rrule_iter_correct_yearly_full_partial: superseded by the headline theorems; still proved in coq/rr, no longer restated here *)

(* DAILY with BYSETPOS (selection inside the day's time set); EVERY fuel *)
(* C01_rrule_iter_correct_daily_setpos_partial: superseded by the headline theorems; still proved in coq/rr, no longer restated here *)

(* WEEKLY with BYSETPOS (fix 12b1f51: the first period starts at the week start; 3426f68 / 8ced7a9: the weeks
   containing 0001-01-01 / 9999-12-31 consist of their representable days): every rule, every fuel *)
(* C01_rrule_iter_correct_weekly_setpos_partial: superseded by the headline theorems; still proved in coq/rr, no longer restated here *)

(* ---- YEARLY with BYMONTH and nth weekdays (FREQ=YEARLY;BYMONTH=3;BYDAY=-1SU: every daylight-saving rule) *)
Theorem C01_nwdaymask_months_calendar : forall y months pairs,
  (forall mo, In mo months -> 1 <= mo <= 12) -> (forall wn, In wn pairs -> pair_ok wn) ->
  let ywd := weekday_of_ord (jan1 y) in
  exists m,
    fold_res (nwd_range (wdm_of ywd) pairs) (month_ranges y months) (zeros (Z.to_nat (year_len y))) = Ok m /\
    length m = Z.to_nat (year_len y) /\
    forall j, 0 <= j < year_len y ->
      nzb (nth (Z.to_nat j) m 0) =
      existsb (fun mo => (dbm y mo <=? j) && (j <? dbm y (mo + 1)) &&
                         existsb (fun wn => (weekday_of_ord (jan1 y + j) =? fst wn) &&
                                            nth_in (j + 1 - dbm y mo) (dim y mo) (snd wn)) pairs) months.
Proof. exact nwdaymask_months_calendar. Qed.
Print Assumptions C01_nwdaymask_months_calendar.

Theorem C01_day_filter_correct_yearly_bymonth_nth : forall r rl y month ii i lm,
  normalize r = Ok rl -> spec_wf r = true -> r_freq r = YEARLY -> r_bymonth r = Some lm ->
  truthy (bynweekday rl) = true -> all_opt (r_byweekno r) weekno_safe = true -> r_byeaster r = None ->
  1 <= y <= 9999 -> rebuild rl ii_init y month = Ok ii -> 0 <= i < year_len y ->
  day_rejected rl ii i = Ok (negb (day_ok r (jan1 y + i))).
Proof. exact day_filter_correct_yearly_bymonth_nth. Qed.
Print Assumptions C01_day_filter_correct_yearly_bymonth_nth.

(* every YEARLY rule of the specification's domain without BYEASTER (BYWEEKNO in the RFC range); EVERY fuel *)
(* C01_rrule_iter_correct_yearly_all_partial: superseded by the headline theorems; still proved in coq/rr, no longer restated here *)

(* ---- SUMMARY for FREQ in YEARLY..DAILY.  coarse_guard r n := spec_wf r, BYWEEKNO within -53..53, no BYEASTER,
   and: YEARLY or MONTHLY (nothing else), or WEEKLY / DAILY with BYDAY without numeric prefixes.  COUNT, UNTIL, INTERVAL, WKST, BYSETPOS, BYMONTH, BYMONTHDAY, BYYEARDAY,
   BYWEEKNO, BYHOUR/BYMINUTE/BYSECOND are free. *)
(* C01_rrule_iter_correct_coarse_partial: superseded by the headline theorems; still proved in coq/rr, no longer restated here *)

(* "in order": the specification's sequence is strictly increasing (every rule of the domain with FREQ coarser
   than HOURLY), hence so is what the generator yields under the guard above; no duplicates *)
(* C01_spec_iter_strictly_increasing: superseded by the headline theorems; still proved in coq/rr, no longer restated here *)

(* C01_rrule_strictly_increasing_partial: superseded by the headline theorems; still proved in coq/rr, no longer restated here *)

(* C01_rrule_nodup_partial: superseded by the headline theorems; still proved in coq/rr, no longer restated here *)

(* rrule_only_valueerror, strong form: under the guard of the summary theorem the iteration raises NO exception
   (no IndexError / TypeError / ValueError): it ends by COUNT, UNTIL, the year-9999 stop, limit or fuel *)
(* C01_rrule_no_exception_partial: superseded by the headline theorems; still proved in coq/rr, no longer restated here *)

(* the constructor accepts every rule of the specification's domain with FREQ coarser than HOURLY *)
Theorem C01_normalize_total_coarse : forall r, spec_wf r = true -> (r_freq r <? HOURLY) = true ->
  exists rl, normalize r = Ok rl.
Proof. exact normalize_total_coarse. Qed.
Print Assumptions C01_normalize_total_coarse.

(* constructor + iteration *)
(* C01_rrule_total_coarse_partial: superseded by the headline theorems; still proved in coq/rr, no longer restated here *)

(* ---- numeric BYDAY prefixes under FREQ finer than MONTHLY are ignored (rrule.py 597-605), by the constructor
   and by the specification: the `plain_only` hypothesis of the WEEKLY / DAILY / sub-daily theorems can go *)
Theorem C01_normalize_strip : forall r, (MONTHLY <? r_freq r) = true -> normalize (strip r) = normalize r.
Proof. exact normalize_strip. Qed.
Print Assumptions C01_normalize_strip.

Theorem C01_spec_iter_strip : forall r limit n, (MONTHLY <? r_freq r) = true ->
  spec_iter (strip r) limit n = spec_iter r limit n.
Proof. exact spec_iter_strip. Qed.
Print Assumptions C01_spec_iter_strip.

(* ==== THE HEADLINE, final form.  For every rule of the specification's domain with FREQ in YEARLY..DAILY, BYWEEKNO
   within the RFC range and without BYEASTER -- every such rule and every fuel (the two WEEKLY boundary weeks, the
   one containing 0001-01-01 and the one containing 9999-12-31, are included since fixes 3426f68 / 8ced7a9): *)
(* (1) the model of rrule.__init__ / _iter / _iterinfo yields exactly the specification's sequence, at equal fuel *)
Theorem C01_rrule_iter_correct_headline_partial : forall r rl limit n,
  normalize r = Ok rl ->
  spec_wf r = true /\ all_opt (r_byweekno r) weekno_safe = true /\ r_byeaster r = None /\
  (r_freq r = YEARLY \/ r_freq r = MONTHLY \/ r_freq r = WEEKLY \/ r_freq r = DAILY) ->
  fst (iterate rl limit n) = fst (spec_iter r limit n).
Proof. exact rrule_iter_correct_coarse_all. Qed.
Print Assumptions C01_rrule_iter_correct_headline_partial.

(* (2) in strictly increasing order, without duplicates *)
Theorem C01_rrule_strictly_increasing_headline_partial : forall r rl limit n,
  normalize r = Ok rl -> coarse_guard_all r n -> isorted (fst (iterate rl limit n)).
Proof. exact rrule_strictly_increasing_coarse_all. Qed.
Print Assumptions C01_rrule_strictly_increasing_headline_partial.

Theorem C01_rrule_nodup_headline_partial : forall r rl limit n,
  normalize r = Ok rl -> coarse_guard_all r n -> NoDup (fst (iterate rl limit n)).
Proof. exact rrule_nodup_coarse_all. Qed.
Print Assumptions C01_rrule_nodup_headline_partial.

(* (3) the constructor accepts the rule and nothing raises *)
Theorem C01_rrule_total_headline_partial : forall r limit n, coarse_guard_all r n ->
  exists rl, normalize r = Ok rl /\ forall e, snd (iterate rl limit n) <> TRaised e.
Proof. exact rrule_total_coarse_all. Qed.
Print Assumptions C01_rrule_total_headline_partial.

(* sub-daily FREQ without the `plain_only` hypothesis: same stream *)
(* C01_rrule_iter_correct_subdaily_stream_all_partial: superseded by the headline theorems; still proved in coq/rr, no longer restated here *)

(* (4) rrule_invalid_dates_skipped / whole seconds: every yielded instant is a representable day 0001-01-01 ..
   9999-12-31 that satisfies the rule's day predicate, carries a time of the rule's time set (0 <= seconds < 86400)
   and is not earlier than the start.  good_instant r x := 1 <= fst x <= max_ord /\ day_ok r (fst x) = true /\
   In (snd x) (period_times r 0) /\ 0 <= snd x < 86400 /\ inst_le (sp_start r) x = true *)
Theorem C01_rrule_valid_instants_headline_partial : forall r rl limit n,
  normalize r = Ok rl -> coarse_guard_all r n ->
  forall x, In x (fst (iterate rl limit n)) ->
  1 <= fst x <= max_ord /\ day_ok r (fst x) = true /\ In (snd x) (period_times r 0) /\
  0 <= snd x < 86400 /\ inst_le (sp_start r) x = true.
Proof. exact rrule_valid_instants_coarse_all. Qed.
Print Assumptions C01_rrule_valid_instants_headline_partial.

(* (5) "exactly": a run that stopped for a reason other than fuel (COUNT, UNTIL, year 9999, limit) is unchanged by
   more fuel, and has yielded the specification's whole sequence (up to `limit`) *)
Theorem C01_iterate_fuel_mono : forall rl limit n n',
  snd (iterate rl limit n) <> TOutOfFuel -> (n <= n')%nat -> iterate rl limit n' = iterate rl limit n.
Proof. exact iterate_fuel_mono. Qed.
Print Assumptions C01_iterate_fuel_mono.

Theorem C01_rrule_complete_headline_partial : forall r rl limit n n',
  normalize r = Ok rl -> (n <= n')%nat -> coarse_guard_all r n' ->
  snd (iterate rl limit n) <> TOutOfFuel ->
  fst (spec_iter r limit n') = fst (iterate rl limit n).
Proof. exact rrule_complete_coarse_all. Qed.
Print Assumptions C01_rrule_complete_headline_partial.

(* ==== SUB-DAILY HEADLINE (builder rset, on top of C01_poslist_is_select_pos and the strip lemmas): for EVERY rule of
   the specification's domain with FREQ = HOURLY / MINUTELY / SECONDLY, BYWEEKNO within the RFC range and without
   BYEASTER -- BYSETPOS and numeric BYDAY prefixes included -- model and specification enumerate the same stream,
   position by position (both prefix directions).  sfam_sa r fr := spec_wf r, r_freq r = fr, BYWEEKNO in range,
   r_byeaster r = None.  Equality at EQUAL fuel is false for sub-daily FREQ (`limit` per period vs per day). *)
Theorem C01_rrule_iter_correct_subdaily_headline_partial : forall r rl fr, normalize r = Ok rl -> sfam_sa r fr ->
  fr = HOURLY \/ fr = MINUTELY \/ fr = SECONDLY ->
  forall i x,
    (exists limit n, nth_error (fst (iterate rl limit n)) i = Some x) <->
    (exists L d, nth_error (fst (spec_iter r L d)) i = Some x).
Proof. exact subdaily_all_iter_correct. Qed.
Print Assumptions C01_rrule_iter_correct_subdaily_headline_partial.

Theorem C01_subdaily_all_prefix_of_spec : forall r rl fr, normalize r = Ok rl -> sfam_sa r fr ->
  fr = HOURLY \/ fr = MINUTELY \/ fr = SECONDLY ->
  forall limit n, exists L d rest, fst (spec_iter r L d) = fst (iterate rl limit n) ++ rest.
Proof. exact subdaily_all_prefix_of_spec. Qed.
Print Assumptions C01_subdaily_all_prefix_of_spec.

Theorem C01_subdaily_all_spec_prefix_of_iterate : forall r rl fr, normalize r = Ok rl -> sfam_sa r fr ->
  fr = HOURLY \/ fr = MINUTELY \/ fr = SECONDLY ->
  forall L d, exists limit n rest, fst (iterate rl limit n) = fst (spec_iter r L d) ++ rest.
Proof. exact subdaily_all_spec_prefix_of_iterate. Qed.
Print Assumptions C01_subdaily_all_spec_prefix_of_iterate.

(* the sub-daily counterparts of the coarse corollaries (builder rset) *)
Theorem C01_subdaily_strictly_increasing_headline_partial : forall r rl fr, normalize r = Ok rl -> sfam_sa r fr ->
  fr = HOURLY \/ fr = MINUTELY \/ fr = SECONDLY ->
  forall limit n, isorted (fst (iterate rl limit n)).
Proof. exact subdaily_all_strictly_increasing. Qed.
Print Assumptions C01_subdaily_strictly_increasing_headline_partial.

Theorem C01_subdaily_nodup_headline_partial : forall r rl fr, normalize r = Ok rl -> sfam_sa r fr ->
  fr = HOURLY \/ fr = MINUTELY \/ fr = SECONDLY ->
  forall limit n, NoDup (fst (iterate rl limit n)).
Proof. exact subdaily_all_nodup. Qed.
Print Assumptions C01_subdaily_nodup_headline_partial.

(* whenever the sub-daily generator stops by itself (COUNT, UNTIL, year 9999, or the ValueError / TypeError of the
   sub-daily advance, which exists in the real code) it has yielded the specification's complete stream *)
Theorem C01_subdaily_self_stop_is_end_partial : forall r rl fr, normalize r = Ok rl -> sfam_sa r fr ->
  fr = HOURLY \/ fr = MINUTELY \/ fr = SECONDLY ->
  forall limit n, snd (iterate rl limit n) <> TOutOfFuel -> snd (iterate rl limit n) <> TLimit ->
  forall L d, exists rest, fst (iterate rl limit n) = fst (spec_iter r L d) ++ rest.
Proof. exact subdaily_all_self_stop_is_end. Qed.
Print Assumptions C01_subdaily_self_stop_is_end_partial.

Theorem C01_subdaily_raise_is_end_partial : forall r rl fr, normalize r = Ok rl -> sfam_sa r fr ->
  fr = HOURLY \/ fr = MINUTELY \/ fr = SECONDLY ->
  forall limit n e, snd (iterate rl limit n) = TRaised e ->
  forall L d, is_prefix (fst (spec_iter r L d)) (fst (iterate rl limit n)).
Proof. exact subdaily_all_raise_is_end. Qed.
Print Assumptions C01_subdaily_raise_is_end_partial.

(* ... and the class of such a raise is ValueError: "only ValueError" for every sub-daily rule of the domain without
   BYEASTER (builder rset, RRSubRaise.v; since fix e1e7505 and the range test in construct_byset the TypeError of
   __mod_distance's None cannot occur inside the domain -- outside it the constructor raises ValueError first) *)
Theorem C01_subdaily_raise_is_valueerror_partial : forall r rl fr, normalize r = Ok rl -> sfam_sa r fr ->
  fr = HOURLY \/ fr = MINUTELY \/ fr = SECONDLY ->
  forall limit n e, snd (iterate rl limit n) = TRaised e -> e = EValue.
Proof. exact subdaily_all_raise_is_valueerror. Qed.
Print Assumptions C01_subdaily_raise_is_valueerror_partial.

(* the specification's sequence is strictly increasing for EVERY rule of its domain (all seven frequencies) *)
Theorem C01_spec_iter_strictly_increasing_all : forall r, spec_wf r = true ->
  forall limit n, isorted (fst (spec_iter r limit n)).
Proof. exact spec_iter_sorted_all. Qed.
Print Assumptions C01_spec_iter_strictly_increasing_all.

(* ==== BYEASTER (a dateutil extension, not RFC 5545) for FREQ in YEARLY..DAILY, inside the year range of C19's
   Easter theorem (1583..4098; the cross-year week of a WEEKLY rule needs next year's Easter: passes up to the end
   of 4097): model = specification at equal fuel.  BYDAY without numeric prefixes; BYSETPOS, COUNT, UNTIL, INTERVAL,
   WKST and the other BY-parts free.  easter_guard r n is written out below. *)
Theorem C01_day_filter_correct_extension_easter : forall r rl y month ii i,
  normalize r = Ok rl -> spec_wf r = true -> plain_only r = true ->
  all_opt (r_byweekno r) weekno_safe = true -> (r_byeaster r = None \/ (1583 <= y /\ y + 1 <= 4098)) ->
  1 <= y <= 9999 -> rebuild rl ii_init y month = Ok ii ->
  year_len y <= i < year_len y + 7 -> used_index (shape_of y) (r_wkst r) i = true ->
  day_rejected rl ii i = Ok (negb (day_ok r (jan1 y + i))).
Proof. exact day_filter_ext_e. Qed.
Print Assumptions C01_day_filter_correct_extension_easter.

(* C01_rrule_iter_correct_easter_headline_partial: superseded by the headline theorems; still proved in coq/rr, no longer restated here *)

(* ... and without the BYDAY restriction for WEEKLY / DAILY (numeric prefixes are ignored there; builder rset,
   RRWkEasterStrip.v) *)
(* C01_rrule_iter_correct_easter_headline_all_partial: superseded by C01_rrule_iter_correct_full_headline_partial below *)

(* ==== THE HEADLINE for FREQ in YEARLY..DAILY, with and without BYEASTER, in ONE statement: for every rule of the
   specification's domain with BYWEEKNO within the RFC range,
     - without BYEASTER: every rule and every fuel (YEARLY / MONTHLY / WEEKLY / DAILY);
     - with BYEASTER (dateutil extension): the start's year and the year of each of the n passes inside the range of
       C19's Easter theorem, 1583..4098 (WEEKLY: 1584..4097, the cross-year week needs next year's Easter);
   everything else -- COUNT, UNTIL, INTERVAL, WKST, BYSETPOS, BYMONTH, BYMONTHDAY, BYYEARDAY, BYWEEKNO, BYDAY plain /
   nth / with numeric prefixes where the code ignores them, BYHOUR / BYMINUTE / BYSECOND -- is free:
   the model of rrule.__init__ / _iter / _iterinfo yields exactly the specification's sequence at equal fuel. *)
Theorem C01_rrule_iter_correct_full_headline_partial : forall r rl limit n,
  normalize r = Ok rl ->
  (spec_wf r = true /\ all_opt (r_byweekno r) weekno_safe = true /\ r_byeaster r = None /\
   (r_freq r = YEARLY \/ r_freq r = MONTHLY \/ r_freq r = WEEKLY \/ r_freq r = DAILY)) \/
  (spec_wf r = true /\ all_opt (r_byweekno r) weekno_safe = true /\
   ((r_freq r = YEARLY /\ 1583 <= r_y r <= 4098 /\
     forall j, 0 <= j < Z.of_nat n -> r_y r + (j + 1) * r_interval r <= 4098) \/
    (r_freq r = MONTHLY /\ 1583 <= r_y r <= 4098 /\
     forall j, 0 <= j < Z.of_nat n -> midx r (j + 1) / 12 <= 4098) \/
    (r_freq r = WEEKLY /\ (r_bysetpos r <> None -> 1 <= ws0 r) /\ 1584 <= r_y r /\ r_y r + 1 <= 4098 /\
     (n <> 0%nat -> wlo r (Z.of_nat n) <= we_last)) \/
    (r_freq r = DAILY /\ 1583 <= r_y r <= 4098 /\
     (n <> 0%nat -> sp_ord0 r + Z.of_nat n * r_interval r <= e_last)))) ->
  fst (iterate rl limit n) = fst (spec_iter r limit n).
Proof. exact rrule_iter_correct_coarse_full. Qed.
Print Assumptions C01_rrule_iter_correct_full_headline_partial.

(* ==== corollaries under the full headline guard (with and without BYEASTER): order, no duplicates, valid instants;
   the termination kinds under the guard without BYEASTER (audit round) *)
Theorem C01_rrule_strictly_increasing_full_partial : forall r rl limit n,
  normalize r = Ok rl -> full_guard r n -> isorted (fst (iterate rl limit n)).
Proof. exact rrule_strictly_increasing_full. Qed.
Print Assumptions C01_rrule_strictly_increasing_full_partial.

Theorem C01_rrule_nodup_full_partial : forall r rl limit n,
  normalize r = Ok rl -> full_guard r n -> NoDup (fst (iterate rl limit n)).
Proof. exact rrule_nodup_full. Qed.
Print Assumptions C01_rrule_nodup_full_partial.

Theorem C01_rrule_valid_instants_full_partial : forall r rl limit n,
  normalize r = Ok rl -> full_guard r n ->
  forall x, In x (fst (iterate rl limit n)) -> good_instant r x.
Proof. exact rrule_valid_instants_full. Qed.
Print Assumptions C01_rrule_valid_instants_full_partial.

Theorem C01_rrule_term_kinds_partial : forall r rl limit n,
  normalize r = Ok rl -> coarse_guard_all r n ->
  let t := snd (iterate rl limit n) in
  t = TCount \/ t = TUntil \/ t = TMaxYear \/ t = TOutOfFuel \/ t = TLimit.
Proof. exact rrule_term_kinds_coarse_all. Qed.
Print Assumptions C01_rrule_term_kinds_partial.

(* ==== FINDINGS OF THE AUDIT ROUND (2026-10-02), fixed in /repo the same day: 55654b4 (BYMONTHDAY=0 -> ValueError),
   e1e7505 (__construct_byset skips members outside range(base)), 8ced7a9 (the week containing 9999-12-31 ends there),
   3426f68 (WEEKLY+BYSETPOS prologue clamped at 0001-01-01).  The model follows the fixed source; the former `_refuted`
   witnesses are regression theorems (known_findings.json "fixed", corpus/regressions/C01.jsonl keeps the inputs).
   The extended domain spec_xwf admits never-matching time members and BYMONTHDAY 0. *)
Theorem C01_spec_wf_xwf : forall r, spec_wf r = true -> spec_xwf r = true.
Proof. exact spec_wf_xwf. Qed.
Print Assumptions C01_spec_wf_xwf.

(* "Only ValueError may be raised ... when built": the constructor model raises nothing else, for EVERY argument
   record -- no domain hypothesis (C01_gen_init_is_model ties the model to rrule.__init__'s source) *)
Theorem C01_normalize_only_valueerror : forall r e, normalize r = Err e -> e = EValue.
Proof. exact normalize_only_valueerror. Qed.
Print Assumptions C01_normalize_only_valueerror.

(* rrule(WEEKLY, dtstart=9999-12-20 09:00, byweekday=all seven, bysetpos=-1): before 8ced7a9 [9999-12-26] + ValueError *)
Theorem C01_regress_last_week_9999_setpos :
  spec_wf raw_last_week_setpos = true /\ max_ord < wlo raw_last_week_setpos 4 + 6 /\
  match normalize raw_last_week_setpos with
  | Ok rl => iterate rl 100 5 = ([(ord_of_ymd 9999 12 26, 32400); (ord_of_ymd 9999 12 31, 32400)], TMaxYear) /\
             fst (iterate rl 100 5) = fst (spec_iter raw_last_week_setpos 100 5)
  | Err _ => False
  end.
Proof. exact regress_last_week_9999_setpos. Qed.
Print Assumptions C01_regress_last_week_9999_setpos.

(* ... plain variant: before 8ced7a9 the twelve days and then ValueError instead of stopping *)
Theorem C01_regress_last_week_9999_plain :
  spec_wf raw_last_week_plain = true /\
  match normalize raw_last_week_plain with
  | Ok rl => fst (iterate rl 100 5) = fst (spec_iter raw_last_week_plain 100 5) /\
             length (fst (iterate rl 100 5)) = 12%nat /\ snd (iterate rl 100 5) = TMaxYear
  | Err _ => False
  end.
Proof. exact regress_last_week_9999_plain. Qed.
Print Assumptions C01_regress_last_week_9999_plain.

(* rrule(WEEKLY, dtstart=0001-01-03 09:00, wkst=SU, byweekday=all seven, bysetpos=1, count=2): before 3426f68 the
   first occurrence was 0001-01-03 *)
Theorem C01_regress_year1_setpos_week :
  spec_wf raw_year1_setpos = true /\ ws0 raw_year1_setpos < 1 /\
  match normalize raw_year1_setpos with
  | Ok rl => fst (iterate rl 100 5) = [(ord_of_ymd 1 1 7, 32400); (ord_of_ymd 1 1 14, 32400)] /\
             fst (iterate rl 100 5) = fst (spec_iter raw_year1_setpos 100 5)
  | Err _ => False
  end.
Proof. exact regress_year1_setpos_week. Qed.
Print Assumptions C01_regress_year1_setpos_week.

(* rrule(HOURLY, dtstart=2020-01-01 09:00, byhour=24): before e1e7505 TypeError when first iterated *)
Theorem C01_regress_outofrange_valueerror :
  spec_xwf raw_hourly_byhour24 = true /\ spec_wf raw_hourly_byhour24 = false /\
  normalize raw_hourly_byhour24 = Err EValue /\ fst (spec_iter raw_hourly_byhour24 100 5) = [].
Proof. exact regress_outofrange_valueerror. Qed.
Print Assumptions C01_regress_outofrange_valueerror.

(* rrule(DAILY, dtstart=2020-01-01 09:00, bymonthday=0): before 55654b4 every day *)
Theorem C01_regress_bymonthday_zero :
  spec_xwf raw_daily_bymonthday0 = true /\ spec_wf raw_daily_bymonthday0 = false /\
  normalize raw_daily_bymonthday0 = Err EValue /\ fst (spec_iter raw_daily_bymonthday0 3 40) = [].
Proof. exact regress_bymonthday_zero. Qed.
Print Assumptions C01_regress_bymonthday_zero.

(* ==== C01_gen_* blocks (translators: gen_rr_init / gen_rr_masks / gen_rr_iter) go BELOW this line; rr adds nothing after it ==== *)

(* ---- gen_rr_init (owner: rcache; harness/gen_rr_init.py -> coq/gen/RRInitGen.v, proofs in
   coq/rcache/RRInitGenThm.v, RRModDistGenThm.v).  rrule.__init__ is executed symbolically from /repo's AST on
   every run (one definition per top-level statement), __construct_byset and __mod_distance are translated;
   the generated constructor equals RRNorm.normalize (and the _original_rule recording equals
   RReplace.record) for ALL argument records `a` (RRInitBase.args: BY-arguments as None / bare int /
   sequence, byweekday members as int / weekday object, wkst as None / int / weekday; RRInitBase.erase maps
   them to RRNorm.raw).  A source change breaks only the theorems below. *)
From V Require rcache.RReplace rcache.RRInitBase gen.RRInitGen rcache.RRInitGenThm rcache.RRModDistGenThm.

Theorem C01_gen_init_is_model : forall a,
  RRInitGen.gen_init a =
  (do ru <- normalize (RRInitBase.erase a); Ok (ru, RReplace.record (RRInitBase.erase a))).
Proof. exact RRInitGenThm.gen_init_is_model. Qed.
Print Assumptions C01_gen_init_is_model.

Theorem C01_gen_init_error : forall a e,
  RRInitGen.gen_init a = Err e <-> normalize (RRInitBase.erase a) = Err e.
Proof. exact RRInitGenThm.gen_init_error. Qed.
Print Assumptions C01_gen_init_error.

Theorem C01_gen_construct_byset : forall itv start l base,
  RRInitGen.gen_construct_byset itv start (RRInitBase.IMany l) base = construct_byset itv start l base.
Proof. exact RRInitGenThm.gen_construct_byset_eq. Qed.
Print Assumptions C01_gen_construct_byset.

Theorem C01_gen_mod_distance : forall rl value byxxx base,
  match RRInitGen.gen_mod_distance (interval rl) value byxxx base with
  | Some p => Ok p
  | None => Err EType
  end = mod_distance rl value byxxx base.
Proof. exact RRModDistGenThm.gen_mod_distance_is_model. Qed.
Print Assumptions C01_gen_mod_distance.

(* non-vacuity: HOURLY, interval 2 from 09:00, byhour (4,1,3,2,3), bysetpos -1, byweekday (1, TH), wkst SU *)
Theorem C01_gen_init_example :
  exists ru o, RRInitGen.gen_init RRInitGenThm.args0 = Ok (ru, o) /\ byhour ru = Some [1; 3] /\ wkst ru = 6 /\
               byweekday ru = Some [1; 3] /\ RReplace.o_byhour o = RReplace.RVal [1; 2; 3; 4] /\
               RReplace.o_bysetpos o = RReplace.RVal [-1].
Proof. exact RRInitGenThm.gen_init_example. Qed.
Print Assumptions C01_gen_init_example.

(* ---- gen_rr_masks (owner: rstr; harness/gen_rr_masks.py -> coq/gen/RRMasksGen.v, proofs in
   coq/rstr/RRMasksGenThm.v).  Class _iterinfo of /repo's rrule.py is translated from its AST on every run
   (rebuild with the year block, the week-number mask incl. the two cross-year patches, the nth-weekday mask,
   the easter mask; the four day sets and the three time sets; every loop and every large `if` is a definition
   of its own); the generated code equals the hand model RRMasks for ALL rules, iterinfo records and integer
   arguments -- so the mask theorems above (wnomask / nwdaymask / eastermask / day sets / time sets) are about
   the code as it is in /repo now.  _iterinfo.__init__ / __slots__ are hand-modelled (ii_init) and AST-pinned.
   A source change breaks only the theorems below. *)
From V Require rstr.RRMasksGenBase gen.RRMasksGen rstr.RRMasksGenThm.

Theorem C01_gen_masks_rebuild : forall rl ii year month,
  RRMasksGen.gen_rebuild rl ii year month = rebuild rl ii year month.
Proof. exact RRMasksGenThm.gen_rebuild_spec. Qed.
Print Assumptions C01_gen_masks_rebuild.

(* the pieces of rebuild, as the translator cuts them *)
Theorem C01_gen_masks_wnomask : forall rl ii year ylen nylen ywd wdm,
  RRMasksGen.gen_rebuild_if3 rl ii year ylen nylen ywd wdm =
  if negb (truthy (byweekno rl)) then Ok None
  else bind (build_wnomask year ylen nylen ywd (wkst rl) wdm (opt_list (byweekno rl))) (fun m => Ok (Some m)).
Proof. exact RRMasksGenThm.if3_spec. Qed.
Print Assumptions C01_gen_masks_wnomask.

Theorem C01_gen_masks_nwdaymask_range : forall rl ii wdm mask rg pairs, bynweekday rl = Some pairs ->
  RRMasksGen.gen_rebuild_loop6 rl ii wdm mask rg = nwd_range wdm pairs mask rg.
Proof. exact RRMasksGenThm.loop6_spec. Qed.
Print Assumptions C01_gen_masks_nwdaymask_range.

Theorem C01_gen_masks_eastermask : forall rl ii year ylen yord,
  RRMasksGen.gen_rebuild_if6 rl ii year ylen yord =
  (if truthy (byeaster rl) then
     do eo <- easter_ord year;
     do ne <- (if year <? T_MAXYEAR then do eo2 <- easter_ord (year + 1); Ok (Some (eo2 - yord)) else Ok None);
     do m <- build_eastermask (eo - yord) ne ylen (opt_list (byeaster rl));
     Ok (Some m)
   else Ok (eastermask ii)).
Proof. exact RRMasksGenThm.if6_spec. Qed.
Print Assumptions C01_gen_masks_eastermask.

Theorem C01_gen_masks_daysets : forall rl ii y m d,
  RRMasksGen.gen_ydayset rl ii y m d = ydayset ii /\ RRMasksGen.gen_mdayset rl ii y m d = mdayset ii m /\
  RRMasksGen.gen_wdayset rl ii y m d = wdayset rl ii y m d /\ RRMasksGen.gen_ddayset rl ii y m d = ddayset ii y m d.
Proof.
  intros. exact (conj (RRMasksGenThm.gen_ydayset_spec rl ii y m d) (conj (RRMasksGenThm.gen_mdayset_spec rl ii y m d)
    (conj (RRMasksGenThm.gen_wdayset_spec rl ii y m d) (RRMasksGenThm.gen_ddayset_spec rl ii y m d)))).
Qed.
Print Assumptions C01_gen_masks_daysets.

Theorem C01_gen_masks_timesets : forall rl ii h m s,
  RRMasksGen.gen_htimeset rl ii h m s = htimeset rl h /\ RRMasksGen.gen_mtimeset rl ii h m s = mtimeset rl h m /\
  RRMasksGen.gen_stimeset rl ii h m s = stimeset h m s.
Proof.
  intros. exact (conj (RRMasksGenThm.gen_htimeset_spec rl ii h m s) (conj (RRMasksGenThm.gen_mtimeset_spec rl ii h m s)
    (RRMasksGenThm.gen_stimeset_spec rl ii h m s))).
Qed.
Print Assumptions C01_gen_masks_timesets.

(* non-vacuity: YEARLY from 2024-01-01, BYWEEKNO (1, -1), BYDAY +1MO, BYEASTER 0; first rebuild for 2025 *)
Theorem C01_gen_masks_example :
  exists ii', RRMasksGen.gen_rebuild RRMasksGenThm.rl0 ii_init 2025 1 = Ok ii' /\ yearlen ii' = 365 /\
              yearweekday ii' = 2 /\
              (exists m, wnomask ii' = Some m /\ firstn 6 m = [1; 1; 1; 1; 1; 0] /\ nth 362 m 0 = 1) /\
              (exists m, nwdaymask ii' = Some m /\ nth 5 m 0 = 1 /\ nth 12 m 0 = 0) /\
              (exists m, eastermask ii' = Some m /\ nth 109 m 0 = 1).
Proof. exact RRMasksGenThm.gen_rebuild_example. Qed.
Print Assumptions C01_gen_masks_example.

(* ==== C01_gen_iter_*: rrule._iter / __mod_distance regenerated from the source on every check
   (harness/gen_rr_iter.py -> gen/RRIterGen.v; proofs in factory/RRIterGenThm.v; `factory` builder) ==== *)
From V Require Import factory.RRGenLib gen.RRIterGen factory.RRIterGenThm.

Theorem C01_gen_iter_filter_clauses : forall rl ii i,
  gen_cl_1 rl ii i = cl_month rl ii i /\ gen_cl_2 rl ii i = cl_weekno rl ii i /\
  gen_cl_3 rl ii i = cl_weekday rl ii i /\ gen_cl_4 rl ii i = cl_easter rl ii i /\
  gen_cl_5 rl ii i = cl_monthday rl ii i /\ gen_cl_6 rl ii i = cl_yearday rl ii i.
Proof. exact gen_filter_clauses_lemma. Qed.
Print Assumptions C01_gen_iter_filter_clauses.

Theorem C01_gen_iter_day_rejected : forall rl ii i, gen_day_rejected rl ii i = day_rejected rl ii i.
Proof. exact gen_day_rejected_lemma. Qed.
Print Assumptions C01_gen_iter_day_rejected.

Theorem C01_gen_iter_gate : forall rl x cnt out, gen_gate_one rl x cnt out = gate_one rl x cnt out.
Proof. exact gen_gate_one_lemma. Qed.
Print Assumptions C01_gen_iter_gate.

Theorem C01_gen_iter_advance : forall rl s filtered cnt out,
  (freq rl = YEARLY -> gen_adv_YEARLY rl s filtered cnt out = advance rl s filtered cnt out) /\
  (freq rl = MONTHLY -> gen_adv_MONTHLY rl s filtered cnt out = advance rl s filtered cnt out) /\
  (freq rl = WEEKLY -> gen_adv_WEEKLY rl s filtered cnt out = advance rl s filtered cnt out) /\
  (freq rl = DAILY -> gen_adv_DAILY rl s filtered cnt out = advance rl s filtered cnt out) /\
  (freq rl = HOURLY -> gen_adv_HOURLY rl s filtered cnt out = advance rl s filtered cnt out) /\
  (freq rl = MINUTELY -> gen_adv_MINUTELY rl s filtered cnt out = advance rl s filtered cnt out) /\
  (freq rl = SECONDLY -> gen_adv_SECONDLY rl s filtered cnt out = advance rl s filtered cnt out).
Proof. exact gen_advance_lemma. Qed.
Print Assumptions C01_gen_iter_advance.

Theorem C01_gen_iter_fix_step : forall k year month day dm,
  fix_loop (S k) year month day dm =
  if dm <? day then
    match gen_fix_step year month day dm with
    | None => FixMax
    | Some (y, m, d, dm') => fix_loop k y m d dm'
    end
  else FixOk year month day.
Proof. exact gen_fix_step_lemma. Qed.
Print Assumptions C01_gen_iter_fix_step.

Theorem C01_gen_iter_mod_distance_step : forall rl k base byxxx value acc,
  mod_distance_loop (S k) (interval rl) base byxxx value acc =
  let '(a, v, hit) := gen_md_step rl base byxxx value acc in
  if hit then Some (a, v) else mod_distance_loop k (interval rl) base byxxx v a.
Proof. exact gen_md_step_lemma. Qed.
Print Assumptions C01_gen_iter_mod_distance_step.

(* the prologue's WEEKLY+BYSETPOS week start (translated: back = (weekday - wkst) % 7, the max(.., 1) clamp,
   first.weekday()): init_state = generated week start, then rebuild and the initial time set *)
Theorem C01_gen_iter_week_start : forall rl,
  init_state rl =
  let hour := s_H rl in let minute := s_M rl in let second := s_S rl in
  let '(year, month, day, wd) :=
    gen_week_start rl (s_y rl) (s_m rl) (s_d rl) (Cal.weekday (s_y rl) (s_m rl) (s_d rl)) in
  do ii <- rebuild rl ii_init year month;
  do ts <-
    (if freq rl <? HOURLY then
       match timeset rl with Some l => Ok l | None => Err EType end
     else if ((HOURLY <=? freq rl) && truthy (byhour rl) && negb (memZ hour (opt_list (byhour rl)))) ||
             ((MINUTELY <=? freq rl) && truthy (byminute rl) && negb (memZ minute (opt_list (byminute rl)))) ||
             ((SECONDLY <=? freq rl) && truthy (bysecond rl) && negb (memZ second (opt_list (bysecond rl))))
          then Ok []
          else gettimeset rl hour minute second);
  Ok (mkSt year month day hour minute second wd ii ts (count rl) []).
Proof. exact gen_week_start_lemma. Qed.
Print Assumptions C01_gen_iter_week_start.
