(* C02 -- parse() inverts every supported unambiguous date/time rendering.
   Statements only; proofs are in parse/YearThm.v and parse/Render*.v over the hand model. *)
From Coq Require Import ZArith List Bool.
From V Require Import base.Cal gen.ParseTables parse.Lex parse.Prim parse.Ymd parse.Parse parse.Build
                      parse.ParseSpec parse.YearThm parse.RenderIso parse.RenderName parse.FracFacts
                      parse.RenderUtc parse.RenderRefuted parse.RenderFrac parse.RenderCommaMon parse.RenderCommaMonth
                      parse.RenderCompact parse.Render12HM parse.Render12HMS parse.RenderOff parse.RenderCtime
                      parse.RenderRfc parse.RenderComma12 parse.RenderCommaDefs parse.RenderOffDefs parse.Render12Defs parse.RenderMisc parse.RenderFlags parse.RenderOff4 parse.Render12H parse.RenderUtcDefs parse.RenderUtcB parse.RenderUtcC parse.RenderUtcD
                      parse.RenderCompactUtc.
Import ListNotations.
Open Scope Z_scope.

(* two-digit years resolve to the unique year within -50..+49 of the current year *)
Theorem C02_convertyear_pivot : forall y cur,
  0 <= y < 100 ->
  exists r, convertyear cur y false = Ok r /\ cur - 50 <= r < cur + 50 /\ r mod 100 = y.
Proof. exact convertyear_pivot_lemma. Qed.
Print Assumptions C02_convertyear_pivot.

Theorem C02_convertyear_unique : forall cur y r1 r2,
  cur - 50 <= r1 < cur + 50 -> cur - 50 <= r2 < cur + 50 -> r1 mod 100 = y -> r2 mod 100 = y -> r1 = r2.
Proof. exact convertyear_unique. Qed.
Print Assumptions C02_convertyear_unique.

(* ---- parse_render_<template>: for ALL valid datetimes and defaults ----
   12 templates: {YYYY-MM-DD, YYYY/MM/DD} x {T, space} x {HH:MM, HH:MM:SS} (dayfirst = False,
   yearfirst arbitrary) and MM/DD/YYYY x {T, space} x {HH:MM, HH:MM:SS} (dayfirst = yearfirst = False);
   ignoretz, default, parserinfo year, local zone names arbitrary.  Naive result = the datetime
   truncated to the rendered precision, fields not rendered taken from the default. *)
Theorem C02_parse_render_numeric_date_time : forall f j tf d o df cy loc n0 n1 yf ig,
  In f plain_dforms -> In j plain_joiners -> In tf plain_tforms ->
  valid_dt d = true -> valid_dt df = true ->
  parse (opts_df0 yf ig df cy loc n0 n1) (render (TDT f j tf ONone) d o)
  = OutOk (expected_dt (TDT f j tf ONone) d df) ZNaive 0 false [].
Proof. exact parse_render_numeric_date_time_lemma. Qed.
Print Assumptions C02_parse_render_numeric_date_time.

Theorem C02_parse_render_us_date_time : forall j tf d o df cy loc n0 n1 ig,
  In j plain_joiners -> In tf plain_tforms ->
  valid_dt d = true -> valid_dt df = true ->
  parse (opts_df0 false ig df cy loc n0 n1) (render (TDT DUS j tf ONone) d o)
  = OutOk (expected_dt (TDT DUS j tf ONone) d df) ZNaive 0 false [].
Proof. exact parse_render_us_date_time_lemma. Qed.
Print Assumptions C02_parse_render_us_date_time.

(* non-vacuity: the hypotheses are satisfiable and the rendering is the expected text *)
Example C02_render_example :
  In DIso plain_dforms /\ In JT plain_joiners /\ In THMS plain_tforms /\
  valid_dt (mkDt 2003 9 25 10 49 41 0) = true /\
  render (TDT DIso JT THMS ONone) (mkDt 2003 9 25 10 49 41 0) (mkOff true 0 0)
  = [50;48;48;51;45;48;57;45;50;53;84;49;48;58;52;57;58;52;49].
Proof. repeat split; try (cbn; auto; fail); vm_compute; reflexivity. Qed.

(* 6 templates: DD Mon YYYY and DD Month YYYY, alone or followed by " HH:MM" / " HH:MM:SS";
   guard 100 <= year: years 1..99 are the open finding F-C02-padyear (refuted below) *)
Theorem C02_parse_render_name_date : forall f jt d o df cy loc n0 n1 yf ig,
  In f name_dforms -> In jt name_tails ->
  valid_dt d = true -> valid_dt df = true -> 100 <= d_y d ->
  parse (opts_df0 yf ig df cy loc n0 n1) (render (TDT f (fst jt) (snd jt) ONone) d o)
  = OutOk (expected_dt (TDT f (fst jt) (snd jt) ONone) d df) ZNaive 0 false [].
Proof. exact parse_render_name_date_lemma. Qed.
Print Assumptions C02_parse_render_name_date.

(* fractions, token level: the seconds token "SS.f" (f = the first k digits of the six-digit
   microsecond, zero-extended beyond six; the lexer has already turned a decimal comma into a dot,
   LexSeg.lex_frac) is read by _parsems as (SS, microsecond truncated to k digits), k = 1..9.
   (Whole-template statements for the fraction forms are tested-only: the symbolic execution of one
   case needed > 20 GB.) *)
Theorem C02_frac_token_value : forall s k us,
  0 <= s < 100 -> (1 <= k <= 9)%nat -> 0 <= us < 1000000 ->
  parsems (digits_n 2 s ++ 46 :: frac_digits k us) = Ok (s, trunc_us k us).
Proof. exact tok_parsems_frac. Qed.
Print Assumptions C02_frac_token_value.

(* 6 templates: YYYY-MM-DD{T, space}HH:MM:SS followed by Z / " UTC" / " GMT": aware, UTC.
   Hypothesis: UTC and GMT are not names of the local zone (time.tzname); with ignoretz: naive *)
Theorem C02_parse_render_iso_utc : forall j ofm d o df cy loc n0 n1 yf ig,
  In j plain_joiners -> In ofm utc_oforms ->
  valid_dt d = true -> valid_dt df = true ->
  smem [85; 84; 67] loc = false -> smem [71; 77; 84] loc = false ->
  parse (opts_df0 yf ig df cy loc n0 n1) (render (TDT DIso j THMS ofm) d o)
  = OutOk (expected_dt (TDT DIso j THMS ofm) d df) (if ig then ZNaive else ZUTC) 0 false [].
Proof. exact parse_render_iso_utc_lemma. Qed.
Print Assumptions C02_parse_render_iso_utc.

(* 36 templates: YYYY-MM-DD{T, space}HH:MM:SS{. ,}f with k = 1..9 fraction digits: the microsecond
   is the rendered fraction truncated to six digits *)
Theorem C02_parse_render_iso_frac : forall j k comma d o df cy loc n0 n1 yf ig,
  In j plain_joiners -> (1 <= k <= 9)%nat ->
  valid_dt d = true -> valid_dt df = true ->
  parse (opts_df0 yf ig df cy loc n0 n1) (render (TDT DIso j (TFrac k comma) ONone) d o)
  = OutOk (expected_dt (TDT DIso j (TFrac k comma) ONone) d df) ZNaive 0 false [].
Proof. intros j k comma. exact (frac_case j k comma). Qed.
Print Assumptions C02_parse_render_iso_frac.

(* 6 templates: "Mon DD, YYYY" / "Month DD, YYYY", alone or followed by " HH:MM" / " HH:MM:SS";
   guard 100 <= year (F-C02-padyear) *)
Theorem C02_parse_render_mon_dd_yyyy : forall jt d o df cy loc n0 n1 yf ig,
  In jt comma_tails ->
  valid_dt d = true -> valid_dt df = true -> 100 <= d_y d ->
  parse (opts_df0 yf ig df cy loc n0 n1) (render (TDT DMonDY (fst jt) (snd jt) ONone) d o)
  = OutOk (expected_dt (TDT DMonDY (fst jt) (snd jt) ONone) d df) ZNaive 0 false [].
Proof. exact parse_render_mon_dd_yyyy_lemma. Qed.
Print Assumptions C02_parse_render_mon_dd_yyyy.

Theorem C02_parse_render_month_dd_yyyy : forall jt d o df cy loc n0 n1 yf ig,
  In jt comma_tails ->
  valid_dt d = true -> valid_dt df = true -> 100 <= d_y d ->
  parse (opts_df0 yf ig df cy loc n0 n1) (render (TDT DMonthDY (fst jt) (snd jt) ONone) d o)
  = OutOk (expected_dt (TDT DMonthDY (fst jt) (snd jt) ONone) d df) ZNaive 0 false [].
Proof. exact parse_render_month_dd_yyyy_lemma. Qed.
Print Assumptions C02_parse_render_month_dd_yyyy.

(* 9 templates: YYYYMMDD, YYYYMMDD{T, space}HHMM[SS], YYYYMMDDHHMM[SS] (12 / 14 digits),
   YYYYMMDDTHH:MM[:SS] *)
Theorem C02_parse_render_compact : forall jt d o df cy loc n0 n1 yf ig,
  In jt compact_tails ->
  valid_dt d = true -> valid_dt df = true ->
  parse (opts_df0 yf ig df cy loc n0 n1) (render (TDT DCompact (fst jt) (snd jt) ONone) d o)
  = OutOk (expected_dt (TDT DCompact (fst jt) (snd jt) ONone) d df) ZNaive 0 false [].
Proof. exact parse_render_compact_lemma. Qed.
Print Assumptions C02_parse_render_compact.

(* 4 templates: YYYY-MM-DD hh:MM[:SS][ ]AM|PM -- 12 AM is 00, 12 PM is 12 *)
Theorem C02_parse_render_12h_hm : forall spaced d o df cy loc n0 n1 yf ig,
  valid_dt d = true -> valid_dt df = true ->
  parse (opts_df0 yf ig df cy loc n0 n1) (render (TDT DIso JSpace (T12HM spaced) ONone) d o)
  = OutOk (expected_dt (TDT DIso JSpace (T12HM spaced) ONone) d df) ZNaive 0 false [].
Proof. exact parse_render_12h_hm_lemma. Qed.
Print Assumptions C02_parse_render_12h_hm.

Theorem C02_parse_render_12h_hms : forall spaced d o df cy loc n0 n1 yf ig,
  valid_dt d = true -> valid_dt df = true ->
  parse (opts_df0 yf ig df cy loc n0 n1) (render (TDT DIso JSpace (T12HMS spaced) ONone) d o)
  = OutOk (expected_dt (TDT DIso JSpace (T12HMS spaced) ONone) d df) ZNaive 0 false [].
Proof. exact parse_render_12h_hms_lemma. Qed.
Print Assumptions C02_parse_render_12h_hms.

(* 2 templates, the one named in the property text: "Mon DD, YYYY hh:MM AM" / "... hh:MMPM" *)
Theorem C02_parse_render_mon_dd_yyyy_12h : forall spaced d o df cy loc n0 n1 yf ig,
  valid_dt d = true -> valid_dt df = true -> 100 <= d_y d ->
  parse (opts_df0 yf ig df cy loc n0 n1) (render (TDT DMonDY JSpace (T12HM spaced) ONone) d o)
  = OutOk (expected_dt (TDT DMonDY JSpace (T12HM spaced) ONone) d df) ZNaive 0 false [].
Proof. exact parse_render_mon_dd_yyyy_12h_lemma. Qed.
Print Assumptions C02_parse_render_mon_dd_yyyy_12h.

(* 8 templates x sign: YYYY-MM-DD{T, space}{HH:MM, HH:MM:SS}{+HH:MM, -HH:MM, +HH, -HH}, offsets
   -23:59..+23:59: aware with exactly the rendered offset (UTC when zero); "UTC" not a local name *)
Theorem C02_parse_render_iso_offset : forall j tf ofm d o df cy loc n0 n1 yf ig,
  In j plain_joiners -> In tf plain_tforms -> In ofm zone_oforms ->
  valid_dt d = true -> valid_dt df = true -> wf_off o = true -> smem utc_name loc = false ->
  parse (opts_df0 yf ig df cy loc n0 n1) (render (TDT DIso j tf ofm) d o)
  = OutOk (expected_dt (TDT DIso j tf ofm) d df)
          (if ig then ZNaive else
           match expected_off (TDT DIso j tf ofm) o with Some v => zone_of_off v | None => ZNaive end)
          0 false [].
Proof. exact parse_render_iso_offset_lemma. Qed.
Print Assumptions C02_parse_render_iso_offset.

(* ctime(): "Www Mon DD HH:MM:SS YYYY", day space-padded; guard 100 <= year *)
Theorem C02_parse_render_ctime : forall d o df cy loc n0 n1 yf ig,
  valid_dt d = true -> valid_dt df = true -> 100 <= d_y d ->
  parse (opts_df0 yf ig df cy loc n0 n1) (render TCtime d o)
  = OutOk (expected_dt TCtime d df) ZNaive 0 false [].
Proof. exact parse_render_ctime_lemma. Qed.
Print Assumptions C02_parse_render_ctime.

(* RFC 2822 with a named UTC zone: "Www, DD Mon YYYY HH:MM:SS GMT" / "... UTC" *)
Theorem C02_parse_render_rfc_named : forall (gmt : bool) d o df cy loc n0 n1 yf ig,
  valid_dt d = true -> valid_dt df = true -> 100 <= d_y d ->
  smem [85; 84; 67] loc = false -> smem [71; 77; 84] loc = false ->
  parse (opts_df0 yf ig df cy loc n0 n1) (render (TRfc (if gmt then OGMT else OUTC)) d o)
  = OutOk (expected_dt (TRfc (if gmt then OGMT else OUTC)) d df) (if ig then ZNaive else ZUTC) 0 false [].
Proof. exact parse_render_rfc_named_lemma. Qed.
Print Assumptions C02_parse_render_rfc_named.

(* 6 templates: YYYY-MM-DD / YYYY/MM/DD alone; HH:MM / HH:MM:SS alone (date from the default);
   YYYY-MM-DD NNhNNmNNs / YYYY/MM/DD NNhNNmNNs *)
Theorem C02_parse_render_misc : forall t d o df cy loc n0 n1 yf ig,
  In t misc_templates ->
  valid_dt d = true -> valid_dt df = true ->
  parse (opts_df0 yf ig df cy loc n0 n1) (render t d o)
  = OutOk (expected_dt t d df) ZNaive 0 false [].
Proof. exact parse_render_misc_lemma. Qed.
Print Assumptions C02_parse_render_misc.

(* 9 templates under their flags (given as keywords): DD/MM/YYYY with dayfirst=True; YY-MM-DD with
   yearfirst=True and MM/DD/YY without flags, for years within -50..+49 of the parserinfo year
   (guard_year); each alone or followed by " HH:MM" / " HH:MM:SS" *)
Theorem C02_parse_render_flag_dates : forall f jt d o df cy loc n0 n1 ig,
  In f flag_dforms -> In jt flag_tails ->
  valid_dt d = true -> valid_dt df = true ->
  guard_year (TDT f (fst jt) (snd jt) ONone) cy d = true ->
  parse (opts_kw (fst (flags_of (TDT f (fst jt) (snd jt) ONone))) (snd (flags_of (TDT f (fst jt) (snd jt) ONone)))
                 ig df cy loc n0 n1)
        (render (TDT f (fst jt) (snd jt) ONone) d o)
  = OutOk (expected_dt (TDT f (fst jt) (snd jt) ONone) d df) ZNaive 0 false [].
Proof. exact parse_render_flag_dates_lemma. Qed.
Print Assumptions C02_parse_render_flag_dates.

(* 4 templates x sign: YYYY-MM-DD{T, space}{HH:MM, HH:MM:SS}{+HHMM, -HHMM} *)
Theorem C02_parse_render_iso_offset4 : forall j tf d o df cy loc n0 n1 yf ig,
  In j plain_joiners -> In tf plain_tforms ->
  valid_dt d = true -> valid_dt df = true -> wf_off o = true -> smem utc_name loc = false ->
  parse (opts_df0 yf ig df cy loc n0 n1) (render (TDT DIso j tf OHHMM) d o)
  = OutOk (expected_dt (TDT DIso j tf OHHMM) d df)
          (if ig then ZNaive else zone_of_off (off_secs o)) 0 false [].
Proof. exact parse_render_iso_offset4_lemma. Qed.
Print Assumptions C02_parse_render_iso_offset4.

(* 2 templates: YYYY-MM-DD hh AM / hhAM (hour only; minute, second, microsecond from the default) *)
Theorem C02_parse_render_12h_h : forall spaced d o df cy loc n0 n1 yf ig,
  valid_dt d = true -> valid_dt df = true ->
  parse (opts_df0 yf ig df cy loc n0 n1) (render (TDT DIso JSpace (T12H spaced) ONone) d o)
  = OutOk (expected_dt (TDT DIso JSpace (T12H spaced) ONone) d df) ZNaive 0 false [].
Proof. exact parse_render_12h_h_lemma. Qed.
Print Assumptions C02_parse_render_12h_h.

(* UTC designators after further forms (UTC / GMT not local zone names):
   YYYY/MM/DD{T, space}{HH:MM, HH:MM:SS} (12), MM/DD/YYYY ... (12, yearfirst False), YYYY-MM-DD{T, space}HH:MM (6),
   YYYYMMDD{T, space}HHMM[SS] (12), each followed by Z / " UTC" / " GMT" *)
Theorem C02_parse_render_slash_utc : forall f j tf ofm d o df cy loc n0 n1 yf ig,
  In f [DSlashYMD] -> In j plain_joiners -> In tf plain_tforms -> In ofm [OZ; OUTC; OGMT] ->
  valid_dt d = true -> valid_dt df = true ->
  smem [85; 84; 67] loc = false -> smem [71; 77; 84] loc = false ->
  parse (opts_df0 yf ig df cy loc n0 n1) (render (TDT f j tf ofm) d o)
  = OutOk (expected_dt (TDT f j tf ofm) d df) (if ig then ZNaive else ZUTC) 0 false [].
Proof. exact parse_render_slash_utc_lemma. Qed.
Print Assumptions C02_parse_render_slash_utc.

Theorem C02_parse_render_us_utc : forall f j tf ofm d o df cy loc n0 n1 ig,
  In f [DUS] -> In j plain_joiners -> In tf plain_tforms -> In ofm [OZ; OUTC; OGMT] ->
  valid_dt d = true -> valid_dt df = true ->
  smem [85; 84; 67] loc = false -> smem [71; 77; 84] loc = false ->
  parse (opts_df0 false ig df cy loc n0 n1) (render (TDT f j tf ofm) d o)
  = OutOk (expected_dt (TDT f j tf ofm) d df) (if ig then ZNaive else ZUTC) 0 false [].
Proof. exact parse_render_us_utc_lemma. Qed.
Print Assumptions C02_parse_render_us_utc.

Theorem C02_parse_render_iso_hm_utc : forall f j tf ofm d o df cy loc n0 n1 yf ig,
  In f [DIso] -> In j plain_joiners -> In tf [THM] -> In ofm [OZ; OUTC; OGMT] ->
  valid_dt d = true -> valid_dt df = true ->
  smem [85; 84; 67] loc = false -> smem [71; 77; 84] loc = false ->
  parse (opts_df0 yf ig df cy loc n0 n1) (render (TDT f j tf ofm) d o)
  = OutOk (expected_dt (TDT f j tf ofm) d df) (if ig then ZNaive else ZUTC) 0 false [].
Proof. exact parse_render_iso_hm_utc_lemma. Qed.
Print Assumptions C02_parse_render_iso_hm_utc.

Theorem C02_parse_render_compact_utc : forall jt ofm d o df cy loc n0 n1 yf ig,
  In jt czone_tails -> In ofm [OZ; OUTC; OGMT] ->
  valid_dt d = true -> valid_dt df = true ->
  smem [85; 84; 67] loc = false -> smem [71; 77; 84] loc = false ->
  parse (opts_df0 yf ig df cy loc n0 n1) (render (TDT DCompact (fst jt) (snd jt) ofm) d o)
  = OutOk (expected_dt (TDT DCompact (fst jt) (snd jt) ofm) d df) (if ig then ZNaive else ZUTC) 0 false [].
Proof. exact parse_render_compact_utc_lemma. Qed.
Print Assumptions C02_parse_render_compact_utc.

(* F-C02-padyear: inside the complement of the guard the round trip fails on the faithful model
   ("25 Sep 0099" and "Sat Sep 25 10:36:28 0099" are read as 1999) *)
Theorem C02_padyear_refuted :
  valid_dt pad_dt = true /\
  parse pad_opts (render (TDT DDMonY JNone TNone ONone) pad_dt (mkOff true 0 0))
    = OutOk (mkDt 1999 9 25 0 0 0 0) ZNaive 0 false [] /\
  expected_dt (TDT DDMonY JNone TNone ONone) pad_dt (o_default pad_opts) = mkDt 99 9 25 0 0 0 0 /\
  parse pad_opts (render TCtime pad_dt (mkOff true 0 0))
    = OutOk (mkDt 1999 9 25 10 36 28 0) ZNaive 0 false [] /\
  expected_dt TCtime pad_dt (o_default pad_opts) = mkDt 99 9 25 10 36 28 0.
Proof. exact padyear_refuted_lemma. Qed.
Print Assumptions C02_padyear_refuted.
